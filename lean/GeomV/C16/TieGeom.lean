import GeomV.C16.GenGeom
/-!
# C16 — T1 tie for `encoding/shp/shp2geom.go`

`GenGeom.lean` is rewritten from the current `shp2geom.go` by `harness/cmd/c16/extract -geom` before every
build.  One lemma `tie_<GoFunction>` per translated function states, for ALL inputs, that the
regenerated definition denotes the function of `Model.lean` the C16 theorems are about (same value or
the same fault).  A source change therefore either leaves the translated subset (`unsupported …` in
`GenGeom.lean`, which does not build), or breaks a tie lemma (reported by name).
-/
set_option linter.unusedSimpArgs false
set_option linter.unusedVariables false
namespace GeomV.C16.GenGeom
open GeomV GeomV.C16

section
variable {α β γ ι σ : Type}

/-! ### vocabulary facts -/

theorem idx_ofNat (l : List β) (k : Nat) :
    idx l (k : Int) = match l[k]? with | some v => .ok v | none => .error .index := by
  have : ¬ ((k : Int) < 0) := by omega
  cases h : l[k]? <;> simp [idx, this, h]

theorem idx_lt (l : List β) (k : Nat) (h : k < l.length) : idx l (k : Int) = .ok l[k] := by
  have : ¬ ((k : Int) < 0) := by omega
  simp [idx, h, this]

theorem setAt_lt (l : List β) (k : Nat) (v : β) (h : k < l.length) :
    setAt l (k : Int) v = .ok (l.set k v) := by
  simp [setAt, h]

theorem bind_ok (v : β) (f : β → M γ) : ((Except.ok v : M β) >>= f) = f v := rfl
theorem bind_error (e : Fault) (f : β → M γ) : ((Except.error e : M β) >>= f) = .error e := rfl

theorem mk_sub_neg (z : β) (s e : Nat) (h : e < s) : mk z ((e : Int) - (s : Int)) = .error .makeslice := by
  have : ((e : Int) - (s : Int)) < 0 := by omega
  simp [mk, this]

theorem mk_sub (z : β) (s e : Nat) (h : s ≤ e) : mk z ((e : Int) - (s : Int)) = .ok (List.replicate (e - s) z) := by
  have h0 : ¬ (((e : Int) - (s : Int)) < 0) := by omega
  have h1 : ((e : Int) - (s : Int)).toNat = e - s := by omega
  simp [mk, h0, h1]

theorem mk_len (z : β) (l : List γ) : mk z (len l) = .ok (List.replicate l.length z) := by
  have h0 : ¬ ((l.length : Int) < 0) := by omega
  simp [mk, h0]

theorem forUp_eq (a b : Int) (s : σ) (f : Int → σ → M σ) : forUp a b s f = forEach (upTo a b) s f := rfl
theorem forDown_eq (a b : Int) (s : σ) (f : Int → σ → M σ) : forDown a b s f = forEach (downTo a b) s f := rfl

theorem mem_upTo (a b j : Int) : j ∈ upTo a b ↔ a ≤ j ∧ j < b := by
  simp only [upTo, List.mem_map, List.mem_range]
  constructor
  · rintro ⟨k, hk, rfl⟩; simp only [Int.ofNat_eq_natCast]; omega
  · rintro ⟨h1, h2⟩; exact ⟨(j - a).toNat, by omega, by simp only [Int.ofNat_eq_natCast]; omega⟩

theorem mem_downTo (a b j : Int) : j ∈ downTo a b ↔ b ≤ j ∧ j ≤ a := by
  simp only [downTo, List.mem_map, List.mem_range]
  constructor
  · rintro ⟨k, hk, rfl⟩; simp only [Int.ofNat_eq_natCast]; omega
  · rintro ⟨h1, h2⟩; exact ⟨(a - j).toNat, by omega, by simp only [Int.ofNat_eq_natCast]; omega⟩

theorem upTo_zero (n : Nat) : upTo 0 (n : Int) = (List.range' 0 n).map Int.ofNat := by
  simp [upTo, List.range_eq_range']

/-! ### loops -/

/-- a loop that reads and writes only slot `k` of a slice of slices is the loop on that slot -/
theorem forEach_slot (k : Nat) (f : ι → List (List β) → M (List (List β))) (g : ι → List β → M (List β))
    (h : ∀ j (pg : List (List β)) (hk : k < pg.length), f j pg = (g j pg[k]).map (fun t => pg.set k t)) :
    ∀ (js : List ι) (pg : List (List β)) (hk : k < pg.length),
      forEach js pg f = (forEach js pg[k] g).map (fun t => pg.set k t) := by
  intro js
  induction js with
  | nil => intro pg hk; simp [forEach, Except.map]
  | cons j js ih =>
    intro pg hk
    simp only [forEach, h j pg hk]
    cases hg : g j pg[k] with
    | error e => simp [Except.map]
    | ok t =>
      simp only [Except.map]
      rw [ih (pg.set k t) (by simpa using hk)]
      simp only [List.getElem_set_self, List.set_set]
      cases forEach js t g <;> rfl

/-- filling a slice slot by slot, in any order: afterwards the visited slots hold the new values -/
theorem forEach_fill (vs : List β) (key : ι → Nat) (f : ι → List β → M (List β)) :
    ∀ (js : List ι) (t : List β), t.length = vs.length →
      (∀ j ∈ js, ∃ x, vs[key j]? = some x ∧ ∀ t : List β, t.length = vs.length → f j t = .ok (t.set (key j) x)) →
      ∃ t', forEach js t f = .ok t' ∧ t'.length = vs.length ∧
        ∀ k, t'[k]? = if k ∈ js.map key then vs[k]? else t[k]? := by
  intro js
  induction js with
  | nil => intro t ht _; exact ⟨t, rfl, ht, by simp⟩
  | cons j js ih =>
    intro t ht hj
    obtain ⟨x, hx, hf⟩ := hj j (List.mem_cons_self)
    obtain ⟨t', h1, h2, h3⟩ := ih (t.set (key j) x) (by simpa using ht)
      (fun j' hj' => hj j' (List.mem_cons_of_mem _ hj'))
    refine ⟨t', by simp only [forEach, hf t ht, h1], h2, fun k => ?_⟩
    rw [h3 k]
    have hlt : key j < t.length := by
      rw [ht]; exact (List.getElem?_eq_some_iff.mp hx).1
    by_cases hk : k ∈ js.map key
    · simp [hk]
    · by_cases hkj : k = key j
      · subst hkj; simp [hk, List.getElem?_set, hlt, hx]
      · have : key j ≠ k := fun h => hkj h.symm
        simp [hk, hkj, List.getElem?_set, this]

/-- … and when every slot is visited the slice is the list of new values -/
theorem forEach_fill_all (vs : List β) (key : ι → Nat) (f : ι → List β → M (List β)) (js : List ι) (t : List β)
    (ht : t.length = vs.length)
    (hj : ∀ j ∈ js, ∃ x, vs[key j]? = some x ∧ ∀ t : List β, t.length = vs.length → f j t = .ok (t.set (key j) x))
    (hall : ∀ k, k < vs.length → k ∈ js.map key) : forEach js t f = .ok vs := by
  obtain ⟨t', h1, h2, h3⟩ := forEach_fill vs key f js t ht hj
  rw [h1]; congr 1
  apply List.ext_getElem?
  intro k
  rw [h3 k]
  by_cases hk : k < vs.length
  · simp [hall k hk]
  · have h4 : vs[k]? = none := by simp; omega
    have h5 : t[k]? = none := by simp; omega
    simp [h4, h5]

/-- a loop whose steps keep an invariant or fail with an index fault, one step failing always, fails -/
theorem forEach_fail (P : σ → Prop) (f : ι → σ → M σ) :
    ∀ (js : List ι),
      (∀ j ∈ js, ∀ t, P t → (∃ t', f j t = .ok t' ∧ P t') ∨ f j t = .error .index) →
      (∃ j ∈ js, ∀ t, f j t = .error .index) → ∀ t, P t → forEach js t f = .error .index := by
  intro js
  induction js with
  | nil => intro _ ⟨j, hj, _⟩; simp at hj
  | cons j js ih =>
    intro hstep ⟨j0, hj0, hbad⟩ t ht
    simp only [forEach]
    rcases hstep j (List.mem_cons_self) t ht with ⟨t', h1, h2⟩ | h1
    · rw [h1]
      rcases List.mem_cons.mp hj0 with rfl | hmem
      · rw [hbad t] at h1; cases h1
      · exact ih (fun j' hj' => hstep j' (List.mem_cons_of_mem _ hj')) ⟨j0, hmem, hbad⟩ t' h2
    · rw [h1]

/-- the part loop: slot `k` receives the value of `h k`, for `k = a, a+1, …` -/
theorem forEach_build (h : Nat → M β) (f : Int → List β → M (List β))
    (hf : ∀ k (t : List β), k < t.length → f (k : Int) t = (h k).map (fun v => t.set k v)) :
    ∀ (m a : Nat) (t : List β), t.length = a + m →
      forEach ((List.range' a m).map Int.ofNat) t f =
        ((List.range' a m).mapM h).map (fun vs => t.take a ++ vs) := by
  intro m
  induction m with
  | zero => intro a t ht; simp [forEach, Except.map, pure, Except.pure, List.take_of_length_le, ht]
  | succ m ih =>
    intro a t ht
    have hfa : f (Int.ofNat a) t = (h a).map (fun v => t.set a v) := hf a t (by omega)
    simp only [List.range'_succ, List.map_cons, forEach, List.mapM_cons, hfa]
    cases hh : h a with
    | error e => rfl
    | ok v =>
      simp only [Except.map, bind, Except.bind]
      rw [ih (a + 1) (t.set a v) (by simp; omega)]
      cases List.mapM h (List.range' (a + 1) m) with
      | error e => rfl
      | ok vs =>
        simp only [Except.map, pure, Except.pure, Except.ok.injEq]
        have ha : a < t.length := by omega
        rw [List.take_add_one, List.take_set_of_le (Nat.le_refl a)]
        simp [List.getElem?_set, ha]

/-- the `range` loop over a slice: slot `k` receives `h xs[k]` (no fault) -/
theorem forEach_build_indexed (h : γ → β) (f : Int → γ → List β → M (List β))
    (hf : ∀ k x (t : List β), k < t.length → f (k : Int) x t = .ok (t.set k (h x))) :
    ∀ (xs : List γ) (a : Nat) (t : List β), t.length = a + xs.length →
      forEach (indexed a xs) t (fun p s => f p.1 p.2 s) = .ok (t.take a ++ xs.map h) := by
  intro xs
  induction xs with
  | nil => intro a t ht; simp [indexed, forEach, List.take_of_length_le, ht]
  | cons x xs ih =>
    intro a t ht
    simp only [List.length_cons] at ht
    have ha : a < t.length := by omega
    have hfa : f (Int.ofNat a) x t = .ok (t.set a (h x)) := hf a x t ha
    simp only [indexed, forEach, hfa]
    rw [ih (a + 1) (t.set a (h x)) (by simp; omega)]
    rw [List.take_add_one, List.take_set_of_le (Nat.le_refl a)]
    simp [List.getElem?_set, ha]

/-! ### `getStartEnd` -/

/-- `getStartEnd` of the source is `getStartEnd` of the model (offsets as `Int`) -/
theorem tie_getStartEnd (parts : List Nat) (points : List (Pt α)) (i : Nat) :
    getStartEnd parts points (i : Int) =
      (GeomV.C16.getStartEnd parts points.length i).map (fun p => ((p.1 : Int), (p.2 : Int))) := by
  have h1 : ((i : Int) + (1 : Int)) = ((i + 1 : Nat) : Int) := by omega
  simp only [getStartEnd, GeomV.C16.getStartEnd, bind, Except.bind, pure, Except.pure,
    Int.ofNat_eq_natCast, h1, idx_ofNat, decide_eq_true_eq]
  cases hs : parts[i]? with
  | none => rfl
  | some s =>
    simp only []
    by_cases hl : i + 1 = parts.length
    · have hd : (i : Int) = (parts.length : Int) - 1 := by omega
      rw [if_pos hd, if_pos hl]; rfl
    · have hd : ¬ ((i : Int) = (parts.length : Int) - 1) := by omega
      rw [if_neg hd, if_neg hl]
      cases parts[i+1]? <;> rfl

/-- a negative part index faults -/
theorem getStartEnd_neg (parts : List Nat) (points : List (Pt α)) (i : Int) (h : i < 0) :
    getStartEnd parts points i = .error .index := by
  simp [getStartEnd, idx, h, bind, Except.bind]

/-! ### `polygon2geom`, `polyLine2geom` -/

/-- the inner loop of `polygon2geom` (downwards) and `polyLine2geom` (upwards): `js` is any enumeration
of `start ≤ j < end`; with `end > len(points)` some read faults in both directions -/
theorem copy_loop (points : List β) (z : β) (s e : Nat) (hse : s ≤ e) (js : List Int)
    (hmem : ∀ j, j ∈ js ↔ (s : Int) ≤ j ∧ j < (e : Int)) :
    forEach js (List.replicate (e - s) z) (fun j t => do let v ← idx points j; setAt t (j - (s : Int)) v)
      = if s < e ∧ points.length < e then .error .index else .ok ((points.drop s).take (e - s)) := by
  by_cases hbad : s < e ∧ points.length < e
  · rw [if_pos hbad]
    apply forEach_fail (fun t => t.length = e - s)
    · intro j hj t ht
      obtain ⟨h1, h2⟩ := (hmem j).mp hj
      obtain ⟨m, rfl⟩ := Int.eq_ofNat_of_zero_le (by omega : 0 ≤ j)
      simp only [bind, Except.bind, idx_ofNat]
      cases hp : points[m]? with
      | none => right; rfl
      | some x =>
        left
        have hms : ((m : Int) - (s : Int)) = ((m - s : Nat) : Int) := by omega
        refine ⟨t.set (m - s) x, ?_, by simpa using ht⟩
        simp only [hms]; exact setAt_lt _ _ _ (by omega)
    · refine ⟨((e - 1 : Nat) : Int), (hmem _).mpr (by omega), fun t => ?_⟩
      simp only [bind, Except.bind, idx_ofNat]
      have hn : points[e - 1]? = none := by simp; omega
      rw [hn]
    · simp
  · rw [if_neg hbad]
    have hlen : ((points.drop s).take (e - s)).length = e - s := by simp; omega
    apply forEach_fill_all _ (fun j => (j - (s : Int)).toNat)
    · simp [hlen]
    · intro j hj
      obtain ⟨h1, h2⟩ := (hmem j).mp hj
      obtain ⟨m, rfl⟩ := Int.eq_ofNat_of_zero_le (by omega : 0 ≤ j)
      have hm : m < points.length := by omega
      have hms : ((m : Int) - (s : Int)) = ((m - s : Nat) : Int) := by omega
      refine ⟨points[m], ?_, fun t ht => ?_⟩
      · simp only [hms, Int.toNat_natCast, List.getElem?_take, List.getElem?_drop]
        have h3 : m - s < e - s := by omega
        have h4 : s + (m - s) = m := by omega
        simp [h3, h4, hm]
      · simp only [bind, Except.bind, idx_lt _ _ hm, hms, Int.toNat_natCast]
        exact setAt_lt _ _ _ (by omega)
    · intro k hk
      rw [hlen] at hk
      simp only [List.mem_map]
      exact ⟨((s + k : Nat) : Int), (hmem _).mpr (by omega), by omega⟩

/-- the body of a slot-`k` copy loop is the copy on slot `k` -/
theorem slot_body (points : List β) (k : Nat) (start j : Int) (pg : List (List β)) (hk : k < pg.length) :
    (do let x4 ← idx pg (k : Int)
        let x5 ← idx points j
        let x6 ← setAt x4 (j - start) x5
        let pg ← setAt pg (k : Int) x6
        pure pg : M (List (List β))) =
      (do let v ← idx points j; setAt pg[k] (j - start) v : M (List β)).map (fun t => pg.set k t) := by
  simp only [bind, Except.bind, pure, Except.pure, idx_lt _ _ hk]
  cases idx points j with
  | error e => rfl
  | ok v =>
    simp only []
    cases setAt pg[k] (j - start) v with
    | error e => rfl
    | ok t => simp [setAt_lt _ _ _ hk, Except.map]

/-- one iteration of the part loop of `polygon2geom` / `polyLine2geom` is `partAt` of the model,
whatever the order `enum start end` in which the inner loop visits `start ≤ j < end` -/
theorem part_body [Inhabited α] (parts : List Nat) (points : List (Pt α)) (enum : Int → Int → List Int)
    (henum : ∀ (s e : Nat) (j : Int), j ∈ enum s e ↔ (s : Int) ≤ j ∧ j < (e : Int))
    (k : Nat) (pg : List (List (Pt α))) (hk : k < pg.length) :
    (do let x2 ← getStartEnd parts points (k : Int)
        let start := x2.1
        let end_ := x2.2
        let x3 ← mk (zeroPt : Pt α) (end_ - start)
        let pg ← setAt pg (k : Int) x3
        let pg ← forEach (enum start end_) pg (fun j pg => do
            let x4 ← idx pg (k : Int)
            let x5 ← idx points j
            let x6 ← setAt x4 (j - start) x5
            let pg ← setAt pg (k : Int) x6
            pure pg)
        pure pg : M (List (List (Pt α)))) =
      (partAt parts points k).map (fun v => pg.set k v) := by
  rw [tie_getStartEnd]
  unfold partAt
  cases hg : GeomV.C16.getStartEnd parts points.length k with
  | error f => rfl
  | ok se =>
    obtain ⟨s, e⟩ := se
    simp only [Except.map, bind_ok]
    by_cases hes : e < s
    · rw [mk_sub_neg _ _ _ hes, if_pos hes]; rfl
    · rw [mk_sub _ _ _ (by omega), if_neg hes, bind_ok, setAt_lt _ _ _ hk, bind_ok]
      rw [forEach_slot k _ (fun j t => do let v ← idx points j; setAt t (j - (s : Int)) v)
        (fun j pg' hk' => slot_body points k (s : Int) j pg' hk') _ _ (by simpa using hk)]
      simp only [List.getElem_set_self]
      rw [copy_loop points zeroPt s e (by omega) _ (henum s e)]
      by_cases hbad : s < e ∧ points.length < e
      · rw [if_pos hbad]; rfl
      · rw [if_neg hbad]; simp [Except.map]

/-- `polygon2geom` of the source is the polygon case of the model's `shp2Geom` (value or fault) -/
theorem tie_polygon2geom [Inhabited α] (s : PolyS α) :
    polygon2geom s = (cutParts s.Parts s.Points).map Geom.polygon := by
  have hloop := forEach_build (partAt s.Parts s.Points)
    (fun i pg => do
      let x2 ← getStartEnd s.Parts s.Points i
      let start := x2.1
      let end_ := x2.2
      let x3 ← mk (zeroPt : Pt α) (end_ - start)
      let pg ← setAt pg i x3
      let pg ← forDown (end_ - (1 : Int)) start pg (fun j pg => do
          let x4 ← idx pg i
          let x5 ← idx s.Points j
          let x6 ← setAt x4 (j - start) x5
          let pg ← setAt pg i x6
          pure pg)
      pure pg)
    (fun k t hk => part_body s.Parts s.Points (fun a b => downTo (b - 1) a)
      (fun a b j => by rw [mem_downTo]; omega) k t hk)
    s.Parts.length 0 (List.replicate s.Parts.length []) (by simp)
  unfold polygon2geom cutParts
  rw [mk_len, bind_ok]
  dsimp only
  rw [forUp_eq, upTo_zero, hloop]
  simp only [List.range_eq_range', FixOrientation]
  cases List.mapM (partAt s.Parts s.Points) (List.range' 0 s.Parts.length) with
  | error e => rfl
  | ok v => simp [Except.map, bind_ok, pure, Except.pure]

/-- `polyLine2geom` of the source is the polyline case of the model's `shp2Geom` (value or fault) -/
theorem tie_polyLine2geom [Inhabited α] (s : PolyS α) :
    polyLine2geom s = (cutParts s.Parts s.Points).map Geom.multiLineString := by
  have hloop := forEach_build (partAt s.Parts s.Points)
    (fun i pl => do
      let x2 ← getStartEnd s.Parts s.Points i
      let start := x2.1
      let end_ := x2.2
      let x3 ← mk (zeroPt : Pt α) (end_ - start)
      let pl ← setAt pl i x3
      let pl ← forUp start end_ pl (fun j pl => do
          let x4 ← idx pl i
          let x5 ← idx s.Points j
          let x6 ← setAt x4 (j - start) x5
          let pl ← setAt pl i x6
          pure pl)
      pure pl)
    (fun k t hk => part_body s.Parts s.Points (fun a b => upTo a b)
      (fun a b j => mem_upTo _ _ _) k t hk)
    s.Parts.length 0 (List.replicate s.Parts.length []) (by simp)
  unfold polyLine2geom cutParts
  rw [mk_len, bind_ok]
  dsimp only
  rw [forUp_eq, upTo_zero, hloop]
  simp only [List.range_eq_range']
  cases List.mapM (partAt s.Parts s.Points) (List.range' 0 s.Parts.length) with
  | error e => rfl
  | ok v => simp [Except.map, bind_ok, pure, Except.pure]

/-- a `range` loop that stores every element at its index copies the slice -/
theorem copy_range (xs t : List β) (h : t.length = xs.length) :
    forRange xs t (fun i p mp => do let mp ← setAt mp i p; pure mp) = .ok xs := by
  have := forEach_build_indexed (fun x : β => x) (fun i p mp => do let mp ← setAt mp i p; pure mp)
    (fun k x t hk => by simp [bind, Except.bind, pure, Except.pure, setAt_lt _ _ _ hk]) xs 0 t (by simpa using h)
  simpa [forRange] using this

theorem tie_point2geom (p : Pt α) : point2geom p = .ok (Geom.point p) := rfl

/-- `multiPoint2geom` of the source: the points, copied -/
theorem tie_multiPoint2geom [Inhabited α] (s : MPointS α) :
    multiPoint2geom s = .ok (Geom.multiPoint s.Points) := by
  have h := copy_range s.Points (List.replicate s.Points.length (zeroPt : Pt α)) (by simp)
  unfold multiPoint2geom
  simp only [mk_len, bind_ok, h]; rfl

/-- `shp2Geom` of the source is `shp2Geom` of the model (the record number is passed through) -/
theorem tie_shp2Geom [Inhabited α] (n : Int) (s : Shape α) :
    shp2Geom n s = (GeomV.C16.shp2Geom s).map (fun g => (n, g)) := by
  cases s with
  | null => rfl
  | point p => rfl
  | polyLine parts points =>
    simp only [shp2Geom, GeomV.C16.shp2Geom, tie_polyLine2geom]
    cases cutParts parts points <;> rfl
  | polygon parts points =>
    simp only [shp2Geom, GeomV.C16.shp2Geom, tie_polygon2geom]
    cases cutParts parts points <;> rfl
  | multiPoint ps =>
    simp only [shp2Geom, GeomV.C16.shp2Geom, tie_multiPoint2geom]; rfl

/-! ### geometry → shape -/

theorem tie_geom2point (p : Pt α) : geom2point p = .ok (Shape.point p) := rfl

/-- a loop on a one-field struct is the loop on the field -/
theorem forEach_wrap {τ : Type} (π : σ → τ) (w : τ → σ) (hw : ∀ t, π (w t) = t) (hw2 : ∀ s, w (π s) = s)
    (f : ι → σ → M σ) (g : ι → τ → M τ) (h : ∀ j s, f j s = (g j (π s)).map w) :
    ∀ (js : List ι) (s : σ), forEach js s f = (forEach js (π s) g).map w := by
  intro js
  induction js with
  | nil => intro s; simp [forEach, Except.map, hw2]
  | cons j js ih =>
    intro s
    simp only [forEach, h j s]
    cases g j (π s) with
    | error e => rfl
    | ok t => simp only [Except.map]; rw [ih (w t), hw t]; rfl

theorem copy_indexed (xs t : List β) (h : t.length = xs.length) :
    forEach (indexed 0 xs) t (fun p t => setAt t p.1 p.2) = .ok xs := by
  have := forEach_build_indexed (fun x : β => x) (fun i x t => setAt t i x)
    (fun k x t hk => setAt_lt _ _ _ hk) xs 0 t (by simpa using h)
  simpa using this

/-- `geom2multiPoint` of the source: the points, copied (`Box`, `NumPoints` are not stored) -/
theorem tie_geom2multiPoint [Inhabited α] (g : List (Pt α)) :
    geom2multiPoint g = .ok (Shape.multiPoint g) := by
  unfold geom2multiPoint
  rw [mk_len, bind_ok]
  dsimp only
  rw [forRange, forEach_wrap (fun mp : MPointS α => mp.Points) (fun t => ⟨t⟩) (fun _ => rfl) (fun _ => rfl) _
    (fun p t => setAt t p.1 p.2)
    (fun p mp => by
      simp only [bind, Except.bind, pure, Except.pure]
      cases setAt mp.Points p.1 p.2 <;> rfl)]
  rw [copy_indexed _ _ (by simp)]
  rfl

theorem slot_body_range (k : Nat) (j : Int) (l : β) (pg : List (List β)) (hk : k < pg.length) :
    (do let x3 ← idx pg (k : Int)
        let x4 ← setAt x3 j l
        let pg ← setAt pg (k : Int) x4
        pure pg : M (List (List β))) =
      (setAt pg[k] j l).map (fun t => pg.set k t) := by
  simp only [bind, Except.bind, pure, Except.pure, idx_lt _ _ hk]
  cases setAt pg[k] j l with
  | error e => rfl
  | ok t => simp [setAt_lt _ _ _ hk, Except.map]

/-- `geom2polyLine` of the source: `NewPolyLine` of the lines, copied -/
theorem tie_geom2polyLine [Inhabited α] (g : List (List (Pt α))) :
    geom2polyLine g = .ok (Shape.polyLine (newPolyLine g).1 (newPolyLine g).2) := by
  have hloop := forEach_build_indexed (fun r : List (Pt α) => r)
    (fun i r parts => do
      let x2 ← mk (zeroPt : Pt α) (len r)
      let parts ← setAt parts i x2
      let parts ← forRange r parts (fun j l parts => do
          let x3 ← idx parts i
          let x4 ← setAt x3 j l
          let parts ← setAt parts i x4
          pure parts)
      pure parts)
    (fun k r t hk => by
      rw [mk_len, bind_ok, setAt_lt _ _ _ hk, bind_ok, forRange,
        forEach_slot k _ (fun p t => setAt t p.1 p.2)
          (fun p pg' hk' => slot_body_range k p.1 p.2 pg' hk') _ _ (by simpa using hk)]
      simp only [List.getElem_set_self]
      rw [copy_indexed _ _ (by simp)]
      simp [Except.map, bind_ok, pure, Except.pure])
    g 0 (List.replicate g.length []) (by simp)
  unfold geom2polyLine
  rw [mk_len, bind_ok]
  dsimp only
  rw [forRange, hloop]
  simp [bind_ok, pure, Except.pure, newPolyLineS]

theorem slot_body_ring (r : List β) (k : Nat) (j : Int) (pg : List (List β)) (hk : k < pg.length) :
    (do let x3 ← idx pg (k : Int)
        let x4 ← idx r j
        let x5 ← setAt x3 j x4
        let pg ← setAt pg (k : Int) x5
        pure pg : M (List (List β))) =
      (do let v ← idx r j; setAt pg[k] j v : M (List β)).map (fun t => pg.set k t) := by
  simp only [bind, Except.bind, pure, Except.pure, idx_lt _ _ hk]
  cases idx r j with
  | error e => rfl
  | ok v =>
    simp only []
    cases setAt pg[k] j v with
    | error e => rfl
    | ok t => simp [setAt_lt _ _ _ hk, Except.map]

/-- the ring step of `geom2polygon` (copy `j` downwards, close test, `append` of the first vertex) is
`closeRing eq` of the model, stored in slot `k` -/
theorem tie_geom2polygon_ring [Inhabited α] (eq : Pt α → Pt α → Bool) (k : Nat) (r : List (Pt α))
    (parts : List (List (Pt α))) (hk : k < parts.length) :
    (do let x2 ← mk (zeroPt : Pt α) (len r)
        let parts ← setAt parts (k : Int) x2
        let parts ← forDown ((len r) - (1 : Int)) (0 : Int) parts (fun j parts => do
            let x3 ← idx parts (k : Int)
            let x4 ← idx r j
            let x5 ← setAt x3 j x4
            let parts ← setAt parts (k : Int) x5
            pure parts)
        let x8 ← (if decide ((len r) > (0 : Int)) then (do
            let x6 ← idx r (0 : Int)
            let x7 ← idx r ((len r) - (1 : Int))
            pure (!(eq x6 x7)))
          else pure false)
        let parts ← (if x8 then (do
            let x9 ← idx parts (k : Int)
            let x10 ← idx parts (k : Int)
            let x11 ← idx x10 (0 : Int)
            let parts ← setAt parts (k : Int) (x9 ++ [x11])
            pure parts)
          else pure parts)
        pure parts : M (List (List (Pt α)))) = .ok (parts.set k (closeRing eq r)) := by
  have hcopy : forEach (downTo ((len r) - (1 : Int)) (0 : Int)) (List.replicate r.length (zeroPt : Pt α))
      (fun j t => do let v ← idx r j; setAt t j v) = .ok r := by
    have h := copy_loop r (zeroPt : Pt α) 0 r.length (by omega) (downTo ((len r) - (1 : Int)) (0 : Int))
      (fun j => by rw [mem_downTo]; simp only [len]; omega)
    simpa using h
  rw [mk_len, bind_ok, setAt_lt _ _ _ hk, bind_ok, forDown_eq,
    forEach_slot k _ (fun j t => do let v ← idx r j; setAt t j v)
      (fun j pg' hk' => slot_body_ring r k j pg' hk') _ _ (by simpa using hk)]
  simp only [List.getElem_set_self, hcopy, Except.map, bind_ok, List.set_set]
  have hk' : k < (parts.set k r).length := by simpa using hk
  cases r with
  | nil => simp [closeRing, bind_ok, pure, Except.pure]
  | cons p tl =>
    have h0 : idx (p :: tl) (0 : Int) = .ok p := idx_lt (p :: tl) 0 (by simp)
    have hl : (len (p :: tl) - (1 : Int)) = ((tl.length : Nat) : Int) := by simp [len]
    have hlast : (p :: tl).getLast? = some ((p :: tl)[tl.length]'(by simp)) := by
      rw [List.getLast?_eq_getElem?]; simp
    have h1 : idx (p :: tl) (len (p :: tl) - (1 : Int)) = .ok ((p :: tl)[tl.length]'(by simp)) := by
      rw [hl]; exact idx_lt _ _ (by simp)
    have hpos : decide (len (p :: tl) > (0 : Int)) = true := by simp [len]
    rw [hpos, if_pos rfl, h0, bind_ok, h1, bind_ok]
    simp only [closeRing, hlast, pure, Except.pure, bind_ok]
    by_cases he : eq p ((p :: tl)[tl.length]'(by simp)) = true
    · simp [he]
    · have he' : eq p ((p :: tl)[tl.length]'(by simp)) = false := by simpa using he
      simp only [he', Bool.not_false, if_true, Bool.false_eq_true, if_false]
      rw [idx_lt _ _ hk', bind_ok, bind_ok]
      simp only [List.getElem_set_self, h0, bind_ok]
      rw [setAt_lt _ _ _ hk']
      simp [bind_ok]

/-- `geom2polygon` of the source: `NewPolyLine` of the rings, each copied and closed by `closeRing eq` -/
theorem tie_geom2polygon [Inhabited α] (eq : Pt α → Pt α → Bool) (g : List (List (Pt α))) :
    geom2polygon eq g =
      .ok (Shape.polygon (newPolyLine (g.map (closeRing eq))).1 (newPolyLine (g.map (closeRing eq))).2) := by
  have hloop := forEach_build_indexed (closeRing eq)
    (fun i r parts => do
      let x2 ← mk (zeroPt : Pt α) (len r)
      let parts ← setAt parts i x2
      let parts ← forDown ((len r) - (1 : Int)) (0 : Int) parts (fun j parts => do
          let x3 ← idx parts i
          let x4 ← idx r j
          let x5 ← setAt x3 j x4
          let parts ← setAt parts i x5
          pure parts)
      let x8 ← (if decide ((len r) > (0 : Int)) then (do
          let x6 ← idx r (0 : Int)
          let x7 ← idx r ((len r) - (1 : Int))
          pure (!(eq x6 x7)))
        else pure false)
      let parts ← (if x8 then (do
          let x9 ← idx parts i
          let x10 ← idx parts i
          let x11 ← idx x10 (0 : Int)
          let parts ← setAt parts i (x9 ++ [x11])
          pure parts)
        else pure parts)
      pure parts)
    (fun k r t hk => tie_geom2polygon_ring eq k r t hk)
    g 0 (List.replicate g.length []) (by simp)
  have hcap : mkCap ([] : List (Pt α)) (len g) ((len g) + (1 : Int)) = .ok (List.replicate g.length []) := by
    have h0 : ¬ ((g.length : Int) < 0 ∨ (g.length : Int) + 1 < (g.length : Int)) := by omega
    simp [mkCap, h0]
  unfold geom2polygon
  rw [hcap, bind_ok]
  dsimp only
  rw [forRange, hloop]
  simp [bind_ok, pure, Except.pure, newPolyLineS]

/-- `geom2Shp` of the source is `geom2Shp` of the model -/
theorem tie_geom2Shp [Inhabited α] (eq : Pt α → Pt α → Bool) (g : Geom α) :
    geom2Shp eq g = GeomV.C16.geom2Shp eq g := by
  cases g <;>
    simp [geom2Shp, GeomV.C16.geom2Shp, isNilGeom, tie_geom2point, tie_geom2polygon, tie_geom2polyLine,
      tie_geom2multiPoint, bind_ok, pure, Except.pure, errorf, newPolyLineS, rect]

/-! ### the fault cases are inhabited (non-vacuity of the `value or fault` ties) -/

example : polygon2geom (⟨[2, 1], [⟨0, 0⟩, ⟨1, 1⟩, ⟨2, 2⟩]⟩ : PolyS Nat) = .error .makeslice := by
  rw [tie_polygon2geom]; rfl
example : polyLine2geom (⟨[0, 5], [⟨0, 0⟩, ⟨1, 1⟩, ⟨2, 2⟩]⟩ : PolyS Nat) = .error .index := by
  rw [tie_polyLine2geom]; rfl
example : polygon2geom (⟨[0, 1], [⟨0, 0⟩, ⟨1, 1⟩, ⟨2, 2⟩]⟩ : PolyS Nat) =
    .ok (.polygon [[⟨0, 0⟩], [⟨1, 1⟩, ⟨2, 2⟩]]) := by
  rw [tie_polygon2geom]; rfl

end
end GeomV.C16.GenGeom
