import GeomV.C16.GenStr
import GeomV.C16.Lemmas
/-!
# C16 — T1 tie for the string helpers of `encoding/shp/shp.go`

`GenStr.lean` is regenerated from the current source on every run; here each generated function is proved EQUAL to the
hand-written model function, for all inputs (no fault is possible: the slice `b[0:n]` is always in range). A source
change of `shpFieldName2String`, `shpAttributeToFloat` or `shpAttributeToInt` (cut set, terminator search, base, bit size,
order of the steps) changes `GenStr.lean` and breaks these proofs = a broken obligation, followed by the failing-input search.
-/
set_option linter.unusedSimpArgs false
set_option linter.unusedVariables false
namespace GeomV.C16.GenStr
open GeomV.C16

theorem cut_nul : (fun c : UInt8 => ([0] : Bytes).contains c) = isNul := by
  funext c; simp only [isNul, List.contains, List.elem]; cases c == 0 <;> rfl

theorem cut_nulsp : (fun c : UInt8 => ([0, 32] : Bytes).contains c) = isNulSp := by
  funext c; simp only [isNulSp, List.contains, List.elem]; cases c == 0 <;> cases c == 32 <;> rfl

theorem goTrim_nul (b : Bytes) : goTrim [0] b = trim isNul b := by unfold goTrim; rw [cut_nul]
theorem goTrim_nulsp (b : Bytes) : goTrim [0, 32] b = trim isNulSp b := by unfold goTrim; rw [cut_nulsp]

/-- `bytes.Index(b, []byte{0})` counted from `i`: the length of the NUL-free prefix, or `-1` when there is no NUL -/
theorem indexFrom_nul : ∀ (b : Bytes) (i : Nat),
    indexFrom [0] b i = if (0 : UInt8) ∈ b then ((i + (b.takeWhile (· != 0)).length : Nat) : Int) else -1
  | [], i => by simp [indexFrom]
  | c :: t, i => by
    by_cases hc : c = 0
    · subst hc; simp [indexFrom, List.isPrefixOf]
    · have ih := indexFrom_nul t (i + 1)
      have h0 : ((0 : UInt8) == c) = false := by simpa using fun h => hc h.symm
      have hne : (c != 0) = true := by simpa using hc
      simp only [indexFrom, List.isPrefixOf, h0, Bool.false_and, Bool.false_eq_true, if_false, ih, List.mem_cons,
        List.takeWhile_cons, hne, if_true, List.length_cons]
      have : (0 : UInt8) = c ↔ False := ⟨fun h => hc h.symm, False.elim⟩
      simp only [this, false_or]
      split
      · congr 1; omega
      · rfl

theorem take_takeWhile (p : UInt8 → Bool) : ∀ (b : Bytes), b.take (b.takeWhile p).length = b.takeWhile p
  | [] => rfl
  | c :: t => by
    by_cases h : p c
    · simp [List.takeWhile_cons, h, take_takeWhile p t]
    · simp [List.takeWhile_cons, h]

theorem takeWhile_length_le (p : UInt8 → Bool) : ∀ (b : Bytes), (b.takeWhile p).length ≤ b.length
  | [] => by simp
  | c :: t => by
    by_cases h : p c
    · simpa [List.takeWhile_cons, h] using takeWhile_length_le p t
    · simp [List.takeWhile_cons, h]

theorem takeWhile_no_nul : ∀ (b : Bytes), (0 : UInt8) ∉ b → b.takeWhile (· != 0) = b
  | [], _ => rfl
  | c :: t, h => by
    have hc : c ≠ 0 := fun hc => h (by simp [hc])
    have ht : (0 : UInt8) ∉ t := fun ht => h (by simp [ht])
    have hne : (c != 0) = true := by simpa using hc
    simp [List.takeWhile_cons, hne, takeWhile_no_nul t ht]

/-- **tie_shpFieldName2String**: the regenerated `shpFieldName2String` never faults and IS the model's `fieldNameString` -/
theorem tie_shpFieldName2String (name : Bytes) : shpFieldName2String name = .ok (fieldNameString name) := by
  unfold shpFieldName2String fieldNameString
  simp only [goTrim_nul, goIndex, indexFrom_nul, goTrimSpace, bind, Except.bind, pure, Except.pure]
  generalize trim isNul name = b
  by_cases h0 : (0 : UInt8) ∈ b
  · have hle := takeWhile_length_le (· != 0) b
    have hne : ((((0 + (b.takeWhile (· != 0)).length : Nat) : Int)) == (-1 : Int)) = false := by
      simp only [beq_eq_false_iff_ne, ne_eq]; omega
    simp only [h0, if_true, hne, Bool.false_eq_true, if_false, goSlice]
    rw [if_pos (by refine ⟨by omega, by omega, by omega⟩)]
    simp [take_takeWhile]
  · simp only [h0, if_false, beq_self_eq_true, if_true, goSlice]
    rw [if_pos (by refine ⟨by omega, by omega, by omega⟩)]
    simp [takeWhile_no_nul b h0]

/-- **tie_shpAttributeToFloat**: `ParseFloat(Trim(attr, "\x00 "), 64)`, error flag = parse failure -/
theorem tie_shpAttributeToFloat (attr : Bytes) :
    shpAttributeToFloat attr = .ok (parseFloat (trim isNulSp attr), (parseFloat (trim isNulSp attr)).isNone) := by
  unfold shpAttributeToFloat
  simp only [goTrim_nulsp, goParseFloat, if_true, bind, Except.bind, pure, Except.pure]
  cases parseFloat (trim isNulSp attr) <;> simp

/-- **tie_shpAttributeToInt**: `ParseInt(Trim(attr, "\x00 "), 10, 64)`, error flag = parse failure -/
theorem tie_shpAttributeToInt (attr : Bytes) :
    shpAttributeToInt attr = .ok (parseInt (trim isNulSp attr), (parseInt (trim isNulSp attr)).isNone) := by
  unfold shpAttributeToInt
  simp only [goTrim_nulsp, goParseInt, and_self, if_true, bind, Except.bind, pure, Except.pure]
  cases parseInt (trim isNulSp attr) <;> simp

/-- what `setFieldToAttribute` parses for a cell, in the model's terms: the regenerated helpers applied to go-shp's
`ReadAttribute` text are `parseFloat (numText cell)` / `parseInt (numText cell)` -/
theorem tie_numText (cell : Bytes) :
    shpAttributeToFloat (readAttribute cell) = .ok (parseFloat (numText cell), (parseFloat (numText cell)).isNone) ∧
    shpAttributeToInt (readAttribute cell) = .ok (parseInt (numText cell), (parseInt (numText cell)).isNone) :=
  ⟨tie_shpAttributeToFloat _, tie_shpAttributeToInt _⟩

end GeomV.C16.GenStr
