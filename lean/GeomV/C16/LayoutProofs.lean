import GeomV.C16.Layout
/-!
# C16 — the byte layout implements the row store (`FileM`)

Lemmas and theorems about `Layout.lean` (core Lean only, no Mathlib): integers/floats ⇄ bytes, a shape's record
is parsed back to the shape, `Next` walks the records in order, `openDbf` recovers the field list, a cell read
by `ReadAttribute` is the cell of that row and column.
-/
set_option linter.unusedSimpArgs false
set_option linter.unusedVariables false
namespace GeomV.C16.Layout
open GeomV GeomV.C16
theorem toNat_ofNat8 (k : Nat) : (UInt8.ofNat k).toNat = k % 256 := by
  simp [UInt8.toNat_ofNat']
theorem rdLe_le32 (n : Nat) (h : n < 4294967296) : rdLe (le32 n) = n := by
  simp only [le32, rdLe, toNat_ofNat8]
  omega
theorem rdLe_le64 (u : UInt64) : rdLe (le64 u) = u.toNat := by
  have := u.toNat_lt
  simp only [le64, le32, rdLe, toNat_ofNat8, List.cons_append, List.nil_append]
  omega

theorem rdU32s_flatMap (rest : Bytes) : ∀ (xs : List Nat), (∀ x ∈ xs, x < 4294967296) →
    rdU32s xs.length (xs.flatMap le32 ++ rest) = some (xs, rest)
  | [], _ => rfl
  | x :: xs, h => by
    have ih := rdU32s_flatMap rest xs (fun y hy => h y (List.mem_cons_of_mem _ hy))
    have hx := rdLe_le32 x (h x List.mem_cons_self)
    simp only [List.flatMap_cons, List.length_cons, List.append_assoc]
    simp only [le32, List.cons_append, List.nil_append, rdU32s] at hx ⊢
    rw [ih, hx]

theorem rdU64_le64 (u : UInt64) (rest : Bytes) : rdU64 (le64 u ++ rest) = some (u, rest) := by
  have h := rdLe_le64 u
  simp only [le64, le32, List.cons_append, List.nil_append, rdU64] at h ⊢
  rw [h]; simp

theorem rdPt_ptBytes (p : Pt UInt64) (rest : Bytes) : rdPt (ptBytes p ++ rest) = some (p, rest) := by
  simp only [rdPt, ptBytes, List.append_assoc, rdU64_le64]

theorem rdPts_flatMap (rest : Bytes) : ∀ (ps : List (Pt UInt64)),
    rdPts ps.length (ps.flatMap ptBytes ++ rest) = some (ps, rest)
  | [] => rfl
  | p :: ps => by
    simp only [List.flatMap_cons, List.length_cons, List.append_assoc, rdPts, rdPt_ptBytes, rdPts_flatMap rest ps]

theorem le32_length (n : Nat) : (le32 n).length = 4 := rfl
theorem boxBytes_length (b : Box) : (boxBytes b).length = 32 := rfl
theorem ptBytes_length (p : Pt UInt64) : (ptBytes p).length = 16 := rfl

/-- a shape go-shp's int32 counters can hold -/
def BShape.Valid : BShape → Prop
  | .null => True
  | .point _ => True
  | .polyLine _ parts pts => parts.length < 4294967296 ∧ pts.length < 4294967296 ∧ ∀ x ∈ parts, x < 4294967296
  | .polygon _ parts pts => parts.length < 4294967296 ∧ pts.length < 4294967296 ∧ ∀ x ∈ parts, x < 4294967296
  | .multiPoint _ pts => pts.length < 4294967296

instance (s : BShape) : Decidable s.Valid := by cases s <;> simp only [BShape.Valid] <;> infer_instance

theorem splitAt?_append (n : Nat) (a r : Bytes) (h : a.length = n) : splitAt? n (a ++ r) = some (a, r) := by
  subst h
  simp [splitAt?]

theorem parseShape_shapeBytes (s : BShape) (hv : s.Valid) (rest : Bytes) :
    parseShape s.typ (shapeBytes s ++ rest) = some s.toShape := by
  cases s with
  | null => simp [parseShape, BShape.typ, BShape.toShape]
  | point p => simp [parseShape, BShape.typ, BShape.toShape, shapeBytes, rdPt_ptBytes]
  | polyLine box parts pts =>
    obtain ⟨h1, h2, h3⟩ := hv
    simp only [parseShape, BShape.typ, BShape.toShape, shapeBytes, List.append_assoc]
    rw [splitAt?_append 32 _ _ (boxBytes_length box)]
    simp only []
    rw [splitAt?_append 4 _ _ rfl]
    simp only []
    rw [splitAt?_append 4 _ _ rfl]
    simp only [rdLe_le32 _ h1, rdLe_le32 _ h2, rdU32s_flatMap _ _ h3, rdPts_flatMap]
    simp
  | polygon box parts pts =>
    obtain ⟨h1, h2, h3⟩ := hv
    simp only [parseShape, BShape.typ, BShape.toShape, shapeBytes, List.append_assoc]
    rw [splitAt?_append 32 _ _ (boxBytes_length box)]
    simp only []
    rw [splitAt?_append 4 _ _ rfl]
    simp only []
    rw [splitAt?_append 4 _ _ rfl]
    simp only [rdLe_le32 _ h1, rdLe_le32 _ h2, rdU32s_flatMap _ _ h3, rdPts_flatMap]
    simp
  | multiPoint box pts =>
    have h1 : pts.length < 4294967296 := hv
    simp only [parseShape, BShape.typ, BShape.toShape, shapeBytes, List.append_assoc]
    rw [splitAt?_append 32 _ _ (boxBytes_length box)]
    simp only []
    rw [splitAt?_append 4 _ _ rfl]
    simp only [rdLe_le32 _ h1, rdPts_flatMap]
    simp

theorem rdBe_be32 (n : Nat) (h : n < 4294967296) : rdBe (be32 n) = n := by
  simp only [be32, rdBe, List.reverse_cons, List.reverse_nil, List.nil_append, List.cons_append, rdLe, toNat_ofNat8]
  omega

theorem flatMap_le32_length (xs : List Nat) : (xs.flatMap le32).length = 4 * xs.length := by
  induction xs with
  | nil => rfl
  | cons x xs ih => simp only [List.flatMap_cons, List.length_append, ih, List.length_cons]; simp [le32]; omega

theorem flatMap_ptBytes_length (ps : List (Pt UInt64)) : (ps.flatMap ptBytes).length = 16 * ps.length := by
  induction ps with
  | nil => rfl
  | cons x xs ih => simp only [List.flatMap_cons, List.length_append, ih, List.length_cons, ptBytes_length]; omega

theorem shapeBytes_even (s : BShape) : (shapeBytes s).length % 2 = 0 := by
  cases s <;> simp only [shapeBytes, List.length_append, boxBytes_length, le32_length, flatMap_le32_length,
    flatMap_ptBytes_length, ptBytes_length, List.length_nil] <;> omega

/-- the records `Writer.Write` appends for a sequence of shapes, the first one with number `k+1` -/
def recsOf (t : Nat) : Nat → List BShape → Bytes
  | _, [] => []
  | k, s :: ss => recordBytes t (k + 1) s ++ recsOf t (k + 1) ss

theorem readShapes_recs (t : Nat) (ht : t < 4294967296) : ∀ (shapes : List BShape) (k : Nat) (pre : Bytes),
    (∀ s ∈ shapes, s.Valid ∧ s.typ = t ∧ (shapeBytes s).length < 4294967296) →
    readShapes (pre ++ recsOf t k shapes) pre.length = some (shapes.map BShape.toShape)
  | [], k, pre, _ => by
    rw [readShapes]; simp [recsOf]
  | s :: ss, k, pre, h => by
    obtain ⟨hv, hty, hlen⟩ := h s List.mem_cons_self
    have ih := readShapes_recs t ht ss (k + 1) (pre ++ recordBytes t (k + 1) s)
      (fun x hx => h x (List.mem_cons_of_mem _ hx))
    have hev := shapeBytes_even s
    rw [readShapes]
    have hne : ¬ pre.length ≥ (pre ++ recsOf t k (s :: ss)).length := by
      simp [recsOf, recordBytes, be32]
    rw [dif_neg hne]
    have hdrop : (pre ++ recsOf t k (s :: ss)).drop pre.length =
        be32 (k + 1) ++ (be32 ((4 + (shapeBytes s).length) / 2) ++ (le32 t ++ (shapeBytes s ++ recsOf t (k + 1) ss))) := by
      simp [recsOf, recordBytes, List.append_assoc]
    rw [hdrop, splitAt?_append 4 _ _ rfl]
    simp only []
    rw [splitAt?_append 4 _ _ rfl]
    simp only []
    rw [splitAt?_append 4 _ _ rfl]
    simp only []
    rw [rdLe_le32 t ht, ← hty, parseShape_shapeBytes s hv, rdBe_be32 _ (by omega)]
    simp only []
    have hcur : (4 + (shapeBytes s).length) / 2 * 2 + pre.length + 8 = (pre ++ recordBytes t (k + 1) s).length := by
      simp [recordBytes, be32, le32]; omega
    have hdata : pre ++ recsOf s.typ k (s :: ss) = (pre ++ recordBytes s.typ (k + 1) s) ++ recsOf s.typ (k + 1) ss := by
      simp [recsOf, List.append_assoc]
    rw [hty] at hdata
    rw [hcur, hty, hdata, ih]
    simp

theorem rdLe_le16 (n : Nat) (h : n < 65536) : rdLe (le16 n) = n := by
  simp only [le16, rdLe, toNat_ofNat8]
  omega

/-! ## blocks -/

theorem flatten_drop_prefix : ∀ (bs : List Bytes) (j : Nat) (hj : j < bs.length),
    bs.flatten.drop ((bs.take j).map List.length).sum = bs[j] ++ (bs.drop (j + 1)).flatten
  | b :: bs, 0, _ => by simp
  | b :: bs, j + 1, hj => by
    have ih := flatten_drop_prefix bs j (by simpa using hj)
    simp only [List.take_succ_cons, List.map_cons, List.sum_cons, List.flatten_cons, List.drop_succ_cons, List.getElem_cons_succ]
    rw [← ih, List.drop_append, List.drop_of_length_le (by omega), Nat.add_sub_cancel_left]
    rfl

theorem take_append_length' (a r : Bytes) : (a ++ r).take a.length = a := by simp
theorem drop_append_length' (a r : Bytes) : (a ++ r).drop a.length = r := by simp

/-- every cell has its column's width -/
def RowOK (fs : List Field) (cells : List Bytes) : Prop := cells.map List.length = fs.map (·.size)

theorem rowBytes_length (fs : List Field) (cells : List Bytes) (h : RowOK fs cells) : (rowBytes cells).length = recLen fs := by
  unfold RowOK at h
  simp only [rowBytes, List.length_cons, List.length_flatten, recLen, sizeSum, h]; omega

theorem take_sizes (fs : List Field) (cells : List Bytes) (h : RowOK fs cells) (j : Nat) :
    ((cells.take j).map List.length).sum = sizeSum (fs.take j) := by
  unfold RowOK at h
  rw [sizeSum, List.map_take, h, ← List.map_take]

theorem rows_prefix (fs : List Field) : ∀ (rows : List (List Bytes)) (i : Nat), (∀ r ∈ rows, RowOK fs r) →
    ((( rows.map rowBytes).take i).map List.length).sum = min i rows.length * recLen fs
  | [], i, _ => by simp
  | r :: rows, 0, _ => by simp
  | r :: rows, i + 1, h => by
    have ih := rows_prefix fs rows i (fun x hx => h x (List.mem_cons_of_mem _ hx))
    simp only [List.map_cons, List.take_succ_cons, List.sum_cons, ih, rowBytes_length fs r (h r List.mem_cons_self), List.length_cons]
    rw [Nat.succ_min_succ, Nat.succ_mul]; omega


theorem sum_take_le : ∀ (l : List Nat) (j : Nat), (l.take j).sum ≤ l.sum
  | [], j => by simp
  | a :: l, 0 => by simp
  | a :: l, j + 1 => by simp only [List.take_succ_cons, List.sum_cons]; have := sum_take_le l j; omega

instance (fs : List Field) (cells : List Bytes) : Decidable (RowOK fs cells) := by unfold RowOK; infer_instance

theorem RowOK_length {fs : List Field} {cells : List Bytes} (h : RowOK fs cells) : cells.length = fs.length := by
  have := congrArg List.length h
  simpa using this

theorem RowOK_cell {fs : List Field} {cells : List Bytes} (h : RowOK fs cells) (j : Nat) (c : Bytes) (f : Field)
    (hc : cells[j]? = some c) (hf : fs[j]? = some f) : c.length = f.size := by
  have := congrArg (fun l => l[j]?) h
  simp [hc, hf] at this
  exact this

/-- **cell addressing**: in a `.dbf` whose header part has the length the reader uses and whose rows are well formed,
the bytes `ReadAttribute(i, j)` reads are exactly cell `j` of row `i` -/
theorem rawCell_rows (fs : List Field) (H : Bytes) (rows : List (List Bytes)) (hrows : ∀ r ∈ rows, RowOK fs r)
    (i j : Nat) (r : List Bytes) (c : Bytes) (hr : rows[i]? = some r) (hc : r[j]? = some c) :
    rawCell (H ++ (rows.map rowBytes).flatten) ⟨H.length, recLen fs, fs⟩ i j = c := by
  have hi : i < rows.length := by
    rcases Nat.lt_or_ge i rows.length with h | h
    · exact h
    · rw [List.getElem?_eq_none h] at hr; cases hr
  have hrm : r ∈ rows := List.mem_of_getElem? hr
  have hok := hrows r hrm
  have hj : j < r.length := by
    rcases Nat.lt_or_ge j r.length with h | h
    · exact h
    · rw [List.getElem?_eq_none h] at hc; cases hc
  have hjf : j < fs.length := by rw [← RowOK_length hok]; exact hj
  have hf : fs[j]? = some fs[j] := List.getElem?_eq_getElem hjf
  have hcl : c.length = fs[j].size := RowOK_cell hok j c fs[j] hc hf
  have hri : rows[i] = r := by
    have := List.getElem?_eq_getElem hi
    rw [this] at hr; exact Option.some.inj hr
  have hcj : r[j] = c := by
    have := List.getElem?_eq_getElem hj
    rw [this] at hc; exact Option.some.inj hc
  have hpre := rows_prefix fs rows i hrows
  rw [Nat.min_eq_left (Nat.le_of_lt hi)] at hpre
  have hdrop1 := flatten_drop_prefix (rows.map rowBytes) i (by simpa using hi)
  rw [hpre] at hdrop1
  simp only [List.getElem_map, hri] at hdrop1
  have hdrop2 := flatten_drop_prefix r j hj
  rw [take_sizes fs r hok j, hcj] at hdrop2
  have hle : sizeSum (fs.take j) ≤ r.flatten.length := by
    rw [← take_sizes fs r hok j, List.length_flatten, List.map_take]
    exact sum_take_le _ _
  simp only [rawCell, hf]
  have hoff : 1 + H.length + i * recLen fs + (List.map (fun x => x.size) (List.take j fs)).sum
      = H.length + (i * recLen fs + (sizeSum (fs.take j) + 1)) := by
    simp only [sizeSum]; omega
  rw [hoff, ← List.drop_drop, drop_append_length', ← List.drop_drop, hdrop1]
  simp only [rowBytes, List.cons_append, List.drop_succ_cons]
  rw [List.drop_append_of_le_length hle, hdrop2, ← hcl, List.append_assoc, take_append_length']
  simp [zeros]


/-! ## the `.dbf` header -/

/-- a field descriptor go-shp's `Field` struct can hold: an 11-byte name, one byte each for type, size, precision -/
def FieldValid (f : Field) : Prop := f.name.length = 11 ∧ f.typ < 256 ∧ f.size < 256 ∧ f.prec < 256

instance (f : Field) : Decidable (FieldValid f) := by unfold FieldValid; infer_instance

theorem fieldDesc_length (f : Field) (h : f.name.length = 11) : (fieldDesc f).length = 32 := by
  simp [fieldDesc, zeros, h]

theorem rdField_fieldDesc (f : Field) (hv : FieldValid f) : rdField (fieldDesc f) = f := by
  obtain ⟨h1, h2, h3, h4⟩ := hv
  have e : fieldDesc f = f.name ++ (UInt8.ofNat f.typ :: 0 :: 0 :: 0 :: 0 :: UInt8.ofNat f.size :: UInt8.ofNat f.prec :: zeros 14) := by
    simp [fieldDesc, zeros, List.replicate]
  have d11 : (fieldDesc f).drop 11 = UInt8.ofNat f.typ :: 0 :: 0 :: 0 :: 0 :: UInt8.ofNat f.size :: UInt8.ofNat f.prec :: zeros 14 := by
    rw [e, ← h1, drop_append_length']
  have d16 : (fieldDesc f).drop 16 = UInt8.ofNat f.size :: UInt8.ofNat f.prec :: zeros 14 := by
    rw [show 16 = 11 + 5 from rfl, ← List.drop_drop, d11]; rfl
  have d17 : (fieldDesc f).drop 17 = UInt8.ofNat f.prec :: zeros 14 := by
    rw [show 17 = 11 + 6 from rfl, ← List.drop_drop, d11]; rfl
  have t11 : (fieldDesc f).take 11 = f.name := by
    rw [e, ← h1, take_append_length']
  cases f with
  | mk name typ size prec =>
    simp only [rdField, d11, d16, d17, t11, List.headD_cons, toNat_ofNat8]
    simp only [] at h2 h3 h4
    rw [Nat.mod_eq_of_lt h2, Nat.mod_eq_of_lt h3, Nat.mod_eq_of_lt h4]

theorem rdFields_descs (rest : Bytes) : ∀ (fs : List Field), (∀ f ∈ fs, FieldValid f) →
    rdFields fs.length (fs.flatMap fieldDesc ++ rest) = fs
  | [], _ => rfl
  | f :: fs, h => by
    have hv := h f List.mem_cons_self
    have hl := fieldDesc_length f hv.1
    simp only [List.flatMap_cons, List.length_cons, rdFields, List.append_assoc]
    rw [← hl, take_append_length', drop_append_length', rdField_fieldDesc f hv,
      rdFields_descs rest fs (fun x hx => h x (List.mem_cons_of_mem _ hx))]

theorem flatMap_fieldDesc_length : ∀ (fs : List Field), (∀ f ∈ fs, FieldValid f) → (fs.flatMap fieldDesc).length = fs.length * 32
  | [], _ => rfl
  | f :: fs, h => by
    simp only [List.flatMap_cons, List.length_append, List.length_cons,
      fieldDesc_length f (h f List.mem_cons_self).1, flatMap_fieldDesc_length fs (fun x hx => h x (List.mem_cons_of_mem _ hx))]
    omega

theorem dbfHeader_length (num : Nat) (fs : List Field) (hv : ∀ f ∈ fs, FieldValid f) : (dbfHeader num fs).length = hdrLen fs := by
  simp [dbfHeader, le32, le16, zeros, flatMap_fieldDesc_length fs hv, hdrLen]

/-- **openDbf**: from the header `writeDbfHeader` wrote the reader recovers the header length, the record length
and the field list -/
theorem openDbf_header (num : Nat) (fs : List Field) (X : Bytes) (hv : ∀ f ∈ fs, FieldValid f)
    (hl : hdrLen fs < 65536) (hr : recLen fs < 65536) :
    openDbf (dbfHeader num fs ++ X) = ⟨hdrLen fs, recLen fs, fs⟩ := by
  have e : dbfHeader num fs ++ X = ([3, 24, 5, 3] ++ le32 num) ++ (le16 (hdrLen fs) ++ (le16 (recLen fs) ++ (zeros 20 ++ (fs.flatMap fieldDesc ++ ([13] ++ X))))) := by
    simp [dbfHeader, List.append_assoc]
  have d8 : (dbfHeader num fs ++ X).drop 8 = le16 (hdrLen fs) ++ (le16 (recLen fs) ++ (zeros 20 ++ (fs.flatMap fieldDesc ++ ([13] ++ X)))) := by
    rw [e]; exact drop_append_length' ([3, 24, 5, 3] ++ le32 num) _
  have d10 : (dbfHeader num fs ++ X).drop 10 = le16 (recLen fs) ++ (zeros 20 ++ (fs.flatMap fieldDesc ++ ([13] ++ X))) := by
    rw [show 10 = 8 + 2 from rfl, ← List.drop_drop, d8]; exact drop_append_length' (le16 (hdrLen fs)) _
  have d32 : (dbfHeader num fs ++ X).drop 32 = fs.flatMap fieldDesc ++ ([13] ++ X) := by
    rw [show 32 = 10 + 22 from rfl, ← List.drop_drop, d10, ← List.append_assoc]
    exact drop_append_length' (le16 (recLen fs) ++ zeros 20) _
  have t8 : ((dbfHeader num fs ++ X).drop 8).take 2 = le16 (hdrLen fs) := by
    rw [d8]; exact take_append_length' (le16 (hdrLen fs)) _
  have t10 : ((dbfHeader num fs ++ X).drop 10).take 2 = le16 (recLen fs) := by
    rw [d10]; exact take_append_length' (le16 (recLen fs)) _
  simp only [openDbf, t8, t10, d32, rdLe_le16 _ hl, rdLe_le16 _ hr]
  have : (hdrLen fs - 33) / 32 = fs.length := by simp [hdrLen]
  rw [this, rdFields_descs _ fs hv]


/-- the `.shp` after `Close()`: header, then the records numbered from 1 -/
def shpOf (t : Nat) (bbox : Box) (shapes : List BShape) : Bytes :=
  mainHeader (100 + (recsOf t 0 shapes).length) t bbox ++ recsOf t 0 shapes

theorem mainHeader_length (l t : Nat) (b : Box) : (mainHeader l t b).length = 100 := by
  simp [mainHeader, be32, le32, zeros, boxBytes_length]

theorem mainHeader_type (l t : Nat) (b : Box) (X : Bytes) (ht : t < 4294967296) :
    rdLe (((mainHeader l t b ++ X).drop 32).take 4) = t := by
  have e : mainHeader l t b ++ X = (be32 9994 ++ zeros 20 ++ be32 (l / 2) ++ le32 1000) ++ (le32 t ++ (boxBytes b ++ zeros 32 ++ X)) := by
    simp [mainHeader, List.append_assoc]
  have hd := drop_append_length' (be32 9994 ++ zeros 20 ++ be32 (l / 2) ++ le32 1000) (le32 t ++ (boxBytes b ++ zeros 32 ++ X))
  have : (be32 9994 ++ zeros 20 ++ be32 (l / 2) ++ le32 1000).length = 32 := by simp [be32, le32, zeros]
  rw [this] at hd
  rw [e, hd]
  exact (congrArg rdLe (take_append_length' (le32 t) _)).trans (rdLe_le32 t ht)

theorem zipIdx_map_eq_zip {β γ : Type} (l : List β) (rows : List γ) (F : Nat → γ) (hlen : rows.length = l.length)
    (hF : ∀ i (h : i < rows.length), F i = rows[i]) :
    l.zipIdx.map (fun si => (si.1, F si.2)) = l.zip rows := by
  apply List.ext_getElem
  · simp [hlen]
  · intro i h1 h2
    simp only [List.getElem_map, List.getElem_zipIdx, List.getElem_zip, Nat.zero_add]
    rw [hF i (by simp at h2; omega)]

/-- **C16_container** (the external contract of `Model.lean`, now proved on the byte layout): the files that
go-shp's `Writer` leaves after `Close()` — `.shp` = 100-byte header + one record per shape
(`[number BE][length BE][file's shape type LE][content]`), `.dbf` = header with the field descriptors + one row per
record (deletion flag + cells) — are read by go-shp's `Reader` (`Next` until the end of the file, `Fields`,
`ReadAttribute(i, j)` before trimming) as exactly the row store `FileM`: the file's shape type, the field list,
and the shapes in writing order, shape `i` paired with the cells of row `i`.
Hypotheses (decidable): every shape has the file's shape type (go-shp writes the FILE's type into each record
header) and fits go-shp's 32-bit counters; field descriptors fit their bytes; header and record length fit 16
bits; every row has one cell per field, of the field's width. -/
theorem C16_container (t num : Nat) (bbox : Box) (fs : List Field) (shapes : List BShape) (rows : List (List Bytes))
    (ht : t < 4294967296)
    (hshapes : ∀ s ∈ shapes, s.Valid ∧ s.typ = t ∧ (shapeBytes s).length < 4294967296)
    (hfs : ∀ f ∈ fs, FieldValid f) (hl : hdrLen fs < 65536) (hr : recLen fs < 65536)
    (hrows : ∀ r ∈ rows, RowOK fs r) (hlen : rows.length = shapes.length) :
    fileOfBytes (shpOf t bbox shapes) (dbfOf num fs rows) = some ⟨t, fs, (shapes.map BShape.toShape).zip rows⟩ := by
  have h1 : readShapes (shpOf t bbox shapes) 100 = some (shapes.map BShape.toShape) := by
    have := readShapes_recs t ht shapes 0 (mainHeader (100 + (recsOf t 0 shapes).length) t bbox) hshapes
    rw [mainHeader_length] at this
    exact this
  have h2 := openDbf_header num fs (rows.map rowBytes).flatten hfs hl hr
  simp only [fileOfBytes, h1]
  rw [show openDbf (dbfOf num fs rows) = ⟨hdrLen fs, recLen fs, fs⟩ from h2]
  simp only [shpOf, mainHeader_type _ t bbox _ ht]
  congr 2
  refine zipIdx_map_eq_zip _ rows (fun i => List.map (rawCell (dbfOf num fs rows) ⟨hdrLen fs, recLen fs, fs⟩ i) (List.range fs.length)) ?_ ?_
  · simp [hlen]
  · intro i hi
    have hri : rows[i]? = some rows[i] := List.getElem?_eq_getElem hi
    have hok := hrows rows[i] (List.getElem_mem hi)
    apply List.ext_getElem
    · simp [RowOK_length hok]
    · intro j hj1 hj2
      simp only [List.getElem_map, List.getElem_range]
      have := rawCell_rows fs (dbfHeader num fs) rows hrows i j rows[i] (rows[i][j]) hri (List.getElem?_eq_getElem hj2)
      rw [dbfHeader_length num fs hfs] at this
      exact this


/-- non-vacuity: a two-record POINT file with one 3-byte string column satisfies every hypothesis of
`C16_container` -/
example : ∃ (fs : List Field) (shapes : List BShape) (rows : List (List Bytes)),
    (∀ s ∈ shapes, s.Valid ∧ s.typ = 1 ∧ (shapeBytes s).length < 4294967296) ∧ (∀ f ∈ fs, FieldValid f) ∧
    hdrLen fs < 65536 ∧ recLen fs < 65536 ∧ (∀ r ∈ rows, RowOK fs r) ∧ rows.length = shapes.length ∧ shapes.length = 2 :=
  ⟨[⟨name11 [97], 67, 3, 0⟩], [.point ⟨0, 0⟩, .point ⟨1, 2⟩], [[[120, 0, 0]], [[121, 122, 0]]], by
    refine ⟨?_, ?_, by decide, by decide, ?_, rfl, rfl⟩
    · intro s hs
      simp only [List.mem_cons, List.mem_nil_iff, or_false] at hs
      rcases hs with rfl | rfl <;> exact ⟨trivial, rfl, by decide⟩
    · intro f hf
      simp only [List.mem_cons, List.mem_nil_iff, or_false] at hf
      subst hf; exact ⟨by decide, by decide, by decide, by decide⟩
    · intro r hr
      simp only [List.mem_cons, List.mem_nil_iff, or_false] at hr
      rcases hr with rfl | rfl <;> rfl⟩


/-! ## the writer's positioned writes -/

theorem writeAt_cons_succ (x : UInt8) (d : Bytes) (k : Nat) (b : Bytes) : writeAt (x :: d) (k + 1) b = x :: writeAt d k b := by
  simp only [writeAt, List.length_cons, Nat.add_sub_add_right, List.cons_append, List.take_succ_cons]
  rw [show k + 1 + b.length = (k + b.length) + 1 by omega, List.drop_succ_cons]

theorem writeAt_append_right : ∀ (P d : Bytes) (k : Nat) (b : Bytes), writeAt (P ++ d) (P.length + k) b = P ++ writeAt d k b
  | [], d, k, b => by simp
  | x :: P, d, k, b => by
    rw [List.cons_append, List.length_cons, show P.length + 1 + k = (P.length + k) + 1 by omega, writeAt_cons_succ,
      writeAt_append_right P d k b]; rfl

theorem writeAt_zero (c R b : Bytes) (h : b.length ≤ c.length) : writeAt (c ++ R) 0 b = (b ++ c.drop b.length) ++ R := by
  simp only [writeAt, Nat.zero_sub, zeros, List.replicate_zero, List.append_nil, List.take_zero, List.nil_append, Nat.zero_add]
  rw [List.drop_append_of_le_length h, List.append_assoc]

/-- a positioned write of at most a block's length at the start of block `j` of a sequence of blocks replaces
the beginning of that block and nothing else -/
theorem writeAt_blocks : ∀ (cs : List Bytes) (j : Nat) (hj : j < cs.length) (b : Bytes), b.length ≤ cs[j].length →
    writeAt cs.flatten ((cs.take j).map List.length).sum b = (cs.set j (b ++ cs[j].drop b.length)).flatten
  | c :: cs, 0, _, b, hb => by
    simp only [List.take_zero, List.map_nil, List.sum_nil, List.flatten_cons, List.set_cons_zero, List.getElem_cons_zero] at hb ⊢
    exact writeAt_zero c cs.flatten b hb
  | c :: cs, j + 1, hj, b, hb => by
    simp only [List.take_succ_cons, List.map_cons, List.sum_cons, List.flatten_cons, List.set_cons_succ, List.getElem_cons_succ] at hb ⊢
    rw [writeAt_append_right, writeAt_blocks cs j (by simpa using hj) b hb]

/-- **WriteAttribute addresses one cell**: in a `.dbf` consisting of a part `P` (header and earlier rows) followed by
a well-formed row, the write at `P.length + 1 + Σ_{n<j} size_n` of at most `size_j` bytes replaces the beginning of
cell `j` of that row and changes nothing else -/
theorem writeAt_cell (fs : List Field) (P : Bytes) (cur : List Bytes) (hok : RowOK fs cur) (j : Nat) (hj : j < cur.length)
    (b : Bytes) (hb : b.length ≤ cur[j].length) :
    writeAt (P ++ rowBytes cur) (P.length + (1 + sizeSum (fs.take j))) b = P ++ rowBytes (cur.set j (b ++ cur[j].drop b.length)) := by
  rw [writeAt_append_right, rowBytes, show 1 + sizeSum (fs.take j) = sizeSum (fs.take j) + 1 by omega, writeAt_cons_succ,
    ← take_sizes fs cur hok j, writeAt_blocks cur j hj b hb]
  rfl

/-- `Close()`: the header written at offset 0 replaces exactly the zero bytes `SetFields` reserved -/
theorem close_dbf (num : Nat) (fs : List Field) (hv : ∀ f ∈ fs, FieldValid f) (X : Bytes) :
    writeAt (zeros (hdrLen fs) ++ X) 0 (dbfHeader num fs) = dbfHeader num fs ++ X := by
  rw [writeAt_zero _ _ _ (by simp [zeros, dbfHeader_length num fs hv])]
  simp [zeros, dbfHeader_length num fs hv]

/-- `Writer.Write` appends the blank row of the abstract model -/
theorem emptyRecord_eq (fs : List Field) : emptyRecord fs = rowBytes (blankRow fs) := by
  simp only [emptyRecord, rowBytes, blankRow, blankCell, zeros, sizeSum]
  congr 1
  induction fs with
  | nil => rfl
  | cons f fs ih => simp only [List.map_cons, List.sum_cons, List.flatten_cons, ← ih, List.replicate_append_replicate]

theorem blankRow_ok (fs : List Field) : RowOK fs (blankRow fs) := by
  simp [RowOK, blankRow, blankCell]

/-- writing `buf` into a blank cell gives the abstract model's `cellOf` -/
theorem cellOf_eq (size : Nat) (buf : Bytes) : buf ++ (blankCell size).drop buf.length = cellOf size buf := by
  simp [cellOf, blankCell, List.drop_replicate]

/-- `geom2Shp` of the layout model is `geom2Shp` of the abstract model once the stored box is dropped -/
theorem toShape_geom2ShpB (g : Geom UInt64) : (geom2ShpB g).map BShape.toShape = geom2Shp ptEqBits g := by
  cases g <;> rfl


theorem writeAttr_len (f : Field) (v : Val) (b : Bytes) (h : writeAttr f v = some b) : b.length ≤ f.size := by
  unfold writeAttr at h
  by_cases hc : (render f v).length > f.size
  · simp [hc] at h
  · simp [hc] at h; subst h; omega

theorem cellOf_length (size : Nat) (b : Bytes) (h : b.length ≤ size) : (cellOf size b).length = size := by
  simp [cellOf]; omega

theorem rowOK_mid (fs : List Field) (i : Nat) (done : List Bytes) (hd : done.map List.length = (fs.take i).map (·.size)) :
    RowOK fs (done ++ blankRow (fs.drop i)) := by
  have := blankRow_ok (fs.drop i)
  unfold RowOK at this ⊢
  rw [List.map_append, hd, this, ← List.map_append, List.take_append_drop]

/-- **the attribute loop of `Encode` on the bytes is `writeStrict` on the cells**: started at column `i` on a `.dbf`
whose last row (at the encoder's cursor `row`, after `P`) has its first `i` cells written and the rest blank, the
loop of `WriteAttribute` calls leaves exactly the cells the abstract model computes, and reports the same result -/
theorem attrsStrict_spec (fs : List Field) (row : Nat) (P : Bytes) (hP : P.length = hdrLen fs + row * recLen fs) :
    ∀ (vals : List Val) (i : Nat) (done : List Bytes), done.map List.length = (fs.take i).map (·.size) →
    attrsStrict fs row i vals (P ++ rowBytes (done ++ blankRow (fs.drop i)))
      = (P ++ rowBytes (done ++ (writeStrict (fs.drop i) vals).1), (writeStrict (fs.drop i) vals).2)
  | [], i, done, _ => by
    cases h : fs.drop i <;> simp [attrsStrict, writeStrict]
  | v :: vs, i, done, hd => by
    have hdl : done.length = min i fs.length := by
      have := congrArg List.length hd; simpa using this
    by_cases hi : i < fs.length
    · have hdrop : fs.drop i = fs[i] :: fs.drop (i + 1) := List.drop_eq_getElem_cons hi
      have hdl' : done.length = i := by omega
      rw [attrsStrict, if_pos hi]
      simp only [writeAttribute, List.getElem?_eq_getElem hi]
      rw [hdrop]
      cases hw : writeAttr fs[i] v with
      | none => simp [writeStrict, hw]
      | some buf =>
        have hb := writeAttr_len _ _ _ hw
        simp only [writeStrict, hw]
        have hoff : cellOff fs row i = P.length + (1 + sizeSum (fs.take i)) := by simp only [cellOff, hP]; omega
        have hok := rowOK_mid fs i done hd
        rw [hdrop] at hok
        have hj : i < (done ++ blankRow (fs[i] :: fs.drop (i + 1))).length := by simp [blankRow]; omega
        have hcell : (done ++ blankRow (fs[i] :: fs.drop (i + 1)))[i] = blankCell fs[i].size := by
          rw [List.getElem_append_right (by omega)]; simp [blankRow, hdl']
        rw [hoff, writeAt_cell fs P _ hok i hj buf (by rw [hcell]; simp [blankCell]; exact hb), hcell, cellOf_eq]
        have hset : (done ++ blankRow (fs[i] :: fs.drop (i + 1))).set i (cellOf fs[i].size buf)
            = (done ++ [cellOf fs[i].size buf]) ++ blankRow (fs.drop (i + 1)) := by
          rw [List.set_append_right _ _ (by omega), hdl', Nat.sub_self]
          simp only [blankRow, List.map_cons, List.set_cons_zero, List.append_assoc, List.singleton_append]
        have htk : (fs.take (i + 1)).map (·.size) = (fs.take i).map (·.size) ++ [fs[i].size] := by
          rw [List.take_succ_eq_append_getElem hi, List.map_append]; rfl
        rw [hset, attrsStrict_spec fs row P hP vs (i + 1) (done ++ [cellOf fs[i].size buf])
          (by rw [List.map_append, hd, htk]; simp only [List.map_cons, List.map_nil, cellOf_length _ _ hb])]
        simp [List.append_assoc]
    · have hdrop : fs.drop i = [] := List.drop_eq_nil_of_le (by omega)
      rw [attrsStrict, if_neg hi, hdrop]
      simp [writeStrict]


/-- **the attribute loop of `EncodeFields` on the bytes is `writeLenient` on the cells** (no more values than
columns, so no index panic): refused values leave their cell blank, the loop goes on -/
theorem attrsLenient_spec (fs : List Field) (row : Nat) (P : Bytes) (hP : P.length = hdrLen fs + row * recLen fs) :
    ∀ (vals : List Val) (i : Nat) (done : List Bytes), done.map List.length = (fs.take i).map (·.size) →
    i + vals.length ≤ fs.length →
    attrsLenient fs row i vals (P ++ rowBytes (done ++ blankRow (fs.drop i)))
      = (P ++ rowBytes (done ++ writeLenient (fs.drop i) vals), true)
  | [], i, done, _, _ => by
    cases h : fs.drop i <;> simp [attrsLenient, writeLenient]
  | v :: vs, i, done, hd, hn => by
    have hi : i < fs.length := by simp at hn; omega
    have hdl : done.length = min i fs.length := by
      have := congrArg List.length hd; simpa using this
    have hdrop : fs.drop i = fs[i] :: fs.drop (i + 1) := List.drop_eq_getElem_cons hi
    have hdl' : done.length = i := by omega
    have htk : (fs.take (i + 1)).map (·.size) = (fs.take i).map (·.size) ++ [fs[i].size] := by
      rw [List.take_succ_eq_append_getElem hi, List.map_append]; rfl
    rw [attrsLenient]
    simp only [writeAttribute, List.getElem?_eq_getElem hi]
    rw [hdrop]
    cases hw : writeAttr fs[i] v with
    | none =>
      simp only [writeLenient, hw]
      have hsplit : done ++ blankRow (fs[i] :: fs.drop (i + 1)) = (done ++ [blankCell fs[i].size]) ++ blankRow (fs.drop (i + 1)) := by
        simp only [blankRow, List.map_cons, List.append_assoc, List.singleton_append]
      rw [hsplit, attrsLenient_spec fs row P hP vs (i + 1) (done ++ [blankCell fs[i].size])
        (by rw [List.map_append, hd, htk]; simp [blankCell]) (by simp at hn ⊢; omega)]
      simp [List.append_assoc]
    | some buf =>
      have hb := writeAttr_len _ _ _ hw
      simp only [writeLenient, hw]
      have hoff : cellOff fs row i = P.length + (1 + sizeSum (fs.take i)) := by simp only [cellOff, hP]; omega
      have hok := rowOK_mid fs i done hd
      rw [hdrop] at hok
      have hj : i < (done ++ blankRow (fs[i] :: fs.drop (i + 1))).length := by simp [blankRow]; omega
      have hcell : (done ++ blankRow (fs[i] :: fs.drop (i + 1)))[i] = blankCell fs[i].size := by
        rw [List.getElem_append_right (by omega)]; simp [blankRow, hdl']
      rw [hoff, writeAt_cell fs P _ hok i hj buf (by rw [hcell]; simp [blankCell]; exact hb), hcell, cellOf_eq]
      have hset : (done ++ blankRow (fs[i] :: fs.drop (i + 1))).set i (cellOf fs[i].size buf)
          = (done ++ [cellOf fs[i].size buf]) ++ blankRow (fs.drop (i + 1)) := by
        rw [List.set_append_right _ _ (by omega), hdl', Nat.sub_self]
        simp only [blankRow, List.map_cons, List.set_cons_zero, List.append_assoc, List.singleton_append]
      rw [hset, attrsLenient_spec fs row P hP vs (i + 1) (done ++ [cellOf fs[i].size buf])
        (by rw [List.map_append, hd, htk]; simp only [List.map_cons, List.map_nil, cellOf_length _ _ hb]) (by simp at hn ⊢; omega)]
      simp [List.append_assoc]


/-! ## one record on the bytes = one row of the abstract model -/

theorem writeStrict_ok : ∀ (fs : List Field) (vals : List Val), RowOK fs (writeStrict fs vals).1
  | [], vals => by cases vals <;> simp [writeStrict, RowOK, blankRow]
  | f :: fs, [] => by simpa [writeStrict] using blankRow_ok (f :: fs)
  | f :: fs, v :: vs => by
    cases hw : writeAttr f v with
    | none => simpa [writeStrict, hw] using blankRow_ok (f :: fs)
    | some b =>
      have ih := writeStrict_ok fs vs
      unfold RowOK at ih ⊢
      simp only [writeStrict, hw, List.map_cons, ih, cellOf_length _ _ (writeAttr_len _ _ _ hw)]

theorem flatten_rows_length (fs : List Field) (rows : List (List Bytes)) (h : ∀ r ∈ rows, RowOK fs r) :
    ((rows.map rowBytes).flatten).length = rows.length * recLen fs := by
  have := rows_prefix fs rows rows.length h
  rw [Nat.min_self, List.take_of_length_le (by simp)] at this
  rw [List.length_flatten]; exact this

/-- the `.dbf` of a writer whose attribute cursor is synchronised with the rows written so far -/
def DbfInv (fs : List Field) (w : BW) (rows : List (List Bytes)) : Prop :=
  w.dbf = zeros (hdrLen fs) ++ (rows.map rowBytes).flatten ∧ w.row = rows.length ∧ ∀ r ∈ rows, RowOK fs r

/-- **one `Encode` call on the bytes**: the shape's record is appended to the `.shp`, and the `.dbf` gains exactly
the row `writeStrict` computes (also when an attribute is refused), with the same result; the cursor stays synchronised -/
theorem encode_strict_step (t : Nat) (fs : List Field) (w : BW) (rows : List (List Bytes)) (sh : BShape) (vals : List Val)
    (hinv : DbfInv fs w rows) :
    DbfInv fs (encode t fs w true (.ok sh) vals).1 (rows ++ [(writeStrict fs vals).1]) ∧
    (encode t fs w true (.ok sh) vals).2 = (if (writeStrict fs vals).2 then .ok else .err) ∧
    (encode t fs w true (.ok sh) vals).1.recs = w.recs ++ recordBytes t (w.num + 1) sh ∧
    (encode t fs w true (.ok sh) vals).1.num = w.num + 1 := by
  obtain ⟨hd, hrow, hok⟩ := hinv
  have hP : (zeros (hdrLen fs) ++ (rows.map rowBytes).flatten).length = hdrLen fs + rows.length * recLen fs := by
    rw [List.length_append, flatten_rows_length fs rows hok]; simp [zeros]
  have hspec := attrsStrict_spec fs rows.length _ hP vals 0 [] (by simp)
  simp only [List.drop_zero, List.nil_append] at hspec
  simp only [encode, write, hd, hrow, emptyRecord_eq, if_true]
  rw [hspec]
  refine ⟨⟨?_, by simp, ?_⟩, by simp⟩
  · simp [List.append_assoc]
  · intro r hr
    rcases List.mem_append.mp hr with h | h
    · exact hok r h
    · simp at h; subst h; exact writeStrict_ok fs vals


theorem writeLenient_ok : ∀ (fs : List Field) (vals : List Val), RowOK fs (writeLenient fs vals)
  | [], vals => by cases vals <;> simp [writeLenient, RowOK, blankRow]
  | f :: fs, [] => by simpa [writeLenient] using blankRow_ok (f :: fs)
  | f :: fs, v :: vs => by
    have ih := writeLenient_ok fs vs
    unfold RowOK at ih ⊢
    cases hw : writeAttr f v with
    | none => simp only [writeLenient, hw, List.map_cons, ih]; simp [blankCell]
    | some b => simp only [writeLenient, hw, List.map_cons, ih, cellOf_length _ _ (writeAttr_len _ _ _ hw)]

/-- **one `EncodeFields` call on the bytes** (no more values than columns): record appended, the `.dbf` gains exactly
the row `writeLenient` computes, result `ok`, cursor synchronised -/
theorem encode_lenient_step (t : Nat) (fs : List Field) (w : BW) (rows : List (List Bytes)) (sh : BShape) (vals : List Val)
    (hinv : DbfInv fs w rows) (hn : vals.length ≤ fs.length) :
    DbfInv fs (encode t fs w false (.ok sh) vals).1 (rows ++ [writeLenient fs vals]) ∧
    (encode t fs w false (.ok sh) vals).2 = .ok ∧
    (encode t fs w false (.ok sh) vals).1.recs = w.recs ++ recordBytes t (w.num + 1) sh ∧
    (encode t fs w false (.ok sh) vals).1.num = w.num + 1 := by
  obtain ⟨hd, hrow, hok⟩ := hinv
  have hP : (zeros (hdrLen fs) ++ (rows.map rowBytes).flatten).length = hdrLen fs + rows.length * recLen fs := by
    rw [List.length_append, flatten_rows_length fs rows hok]; simp [zeros]
  have hspec := attrsLenient_spec fs rows.length _ hP vals 0 [] (by simp) (by omega)
  simp only [List.drop_zero, List.nil_append] at hspec
  simp only [encode, write, hd, hrow, emptyRecord_eq]
  rw [hspec]
  refine ⟨⟨?_, by simp, ?_⟩, by simp⟩
  · simp [List.append_assoc]
  · intro r hr
    rcases List.mem_append.mp hr with h | h
    · exact hok r h
    · simp at h; subst h; exact writeLenient_ok fs vals

/-- a freshly created writer is synchronised with the empty row list -/
theorem create_inv (fs : List Field) : DbfInv fs (create fs) [] := by
  simp [DbfInv, create]

end GeomV.C16.Layout
