import GeomV.C16.Model
import GeomV.C16.Spec
import GeomV.C16.Layout
import GeomV.C16.Reflect
import GeomV.C16.WriterGen
import GeomV.C16.Wrap
/-!
Driver for C16.  `geomv_c16 judge` reads lines `file … => <implementation's answer>` (grammar in
`harness/cmd/c16/main.go`) and prints one verdict per line:
  OK <class>            model, spec and implementation agree
  DIFF <class> <why>    implementation differs from the model (correspondence broken)
  SPEC <class> <why>    implementation's answer violates the specification (Spec.lean)
class = <writer path><reader path>-<geometry kind>[-oob]; `-oob`: some input of the file is outside the
statement's quantifier (value wider than its column, NUL in a string, ambiguous or over-long column name,
unsupported value type, …): then only model-vs-implementation is compared.
-/
set_option linter.unusedVariables false
namespace GeomV.C16
open GeomV

/-! ## parsing -/

abbrev PM := StateT Tok Option

def next : PM String := fun t => match t with | a :: r => some (a, r) | [] => none
def nat : PM Nat := do let s ← next; match s.toNat? with | some n => pure n | none => failure
def hexB : PM Bytes := do
  let s ← next
  if s.length = 1 then pure [] else
  match hexToBytes ((s.drop 1).toString) with | some b => pure b | none => failure
def many {β : Type} (p : PM β) : Nat → PM (List β)
  | 0 => pure []
  | n+1 => do let a ← p; let as ← many p n; pure (a :: as)
def geomP : PM BGeom := fun t => Proto.pGeom 4 t

def kindOf : String → Option Kind
  | "i" => some .int | "f" => some .float | "s" => some .str
  | "gP" => some (.geom .P) | "gMP" => some (.geom .MP) | "gLS" => some (.geom .LS) | "gMLS" => some (.geom .MLS)
  | "gPG" => some (.geom .PG) | "gB" => some (.geom .B) | "gI" => some (.geom .I)
  | _ => none

def sfieldP : PM SField := do
  let n ← hexB; let t ← hexB; let k ← next
  match kindOf k with | some k => pure ⟨n, t, k⟩ | none => failure

structure FF where
  name : Bytes
  typ : Nat
  size : Nat
  prec : Nat

inductive WSpec where
  | s (sfs : List SField) (sched : List Bool)     -- sched: per-record method on the one encoder (true = Encode); [] = all Encode
  | f (shpType : Nat) (ffs : List FF)
inductive RSpec where
  | s (sfs : List SField) (reuse : Bool)
  | f (names : List Bytes)
  | m (calls : List Call)      -- reading schedule on one decoder

def callsOf : RSpec → List Call
  | .s sfs ru => [.s sfs ru]
  | .f ns => [.f ns]
  | .m cs => cs

def valP : PM Val := do
  let s ← next
  let body := (s.drop 1).toString
  match s.front with
  | 'i' => match body.toInt? with | some i => pure (.int i) | none => failure
  | 'f' => match parseU64 body with | some u => pure (.float u) | none => failure
  | 's' => if body.isEmpty then pure (.str []) else match hexToBytes body with | some b => pure (.str b) | none => failure
  | _ => failure

structure Case where
  w : WSpec
  r : RSpec
  recs : List (BGeom × List Val)

def wspecP : PM WSpec := do
  match ← next with
  | "S" => let n ← nat; let l ← many sfieldP n; pure (.s l [])
  | "SM" =>
    let k ← nat
    let ms ← many next k
    let n ← nat; let l ← many sfieldP n
    pure (.s l (ms.map (· == "E")))
  | "F" =>
    let t ← nat; let n ← nat
    let l ← many (do let nm ← hexB; let ty ← nat; let sz ← nat; let pr ← nat; pure (⟨nm, ty, sz, pr⟩ : FF)) n
    pure (.f t l)
  | _ => failure

def callP : PM Call := do
  match ← next with
  | "S" => let n ← nat; let l ← many sfieldP n; pure (.s l false)
  | "SR" => let n ← nat; let l ← many sfieldP n; pure (.s l true)
  | "F" => let n ← nat; let l ← many hexB n; pure (.f l)
  | _ => failure

def rspecP : PM RSpec := do
  match ← next with
  | "S" => let n ← nat; let l ← many sfieldP n; pure (.s l false)
  | "SR" => let n ← nat; let l ← many sfieldP n; pure (.s l true)
  | "F" => let n ← nat; let l ← many hexB n; pure (.f l)
  | "M" => let n ← nat; let l ← many callP n; pure (.m l)
  | _ => failure

def expect (s : String) : PM Unit := do let t ← next; if t = s then pure () else failure

def recP : PM (BGeom × List Val) := do
  let g ← geomP; let n ← nat; let vs ← many valP n; pure (g, vs)

def caseP : PM Case := do
  expect "file"; expect "W"
  let w ← wspecP
  expect "R"
  let r ← rspecP
  expect "N"
  let n ← nat
  let recs ← many recP n
  pure ⟨w, r, recs⟩

def hexTok (s : String) : Option Bytes :=
  if s.length = 1 then some [] else hexToBytes ((s.drop 1).toString)

/-! ## running the model -/

def zeroFieldGeom : GK → BGeom
  | .P => .point ⟨0, 0⟩ | .MP => .multiPoint [] | .LS => .lineString [] | .MLS => .multiLineString []
  | .PG => .polygon [] | .B => .nil | .I => .nil

/-- the harness leaves the geometry field at its zero value for `NIL` -/
def fieldGeom (k : GK) : BGeom → BGeom
  | .nil => zeroFieldGeom k
  | g => g

def wresStr : WRes → String | .ok => "ok" | .err => "err" | .panic => "panic"

structure Written where
  file : FileM UInt64
  res : List WRes

def runWrite (c : Case) : Except Fault Written :=
  match c.w with
  | .s sfs sched =>
    match newEncoder sfs with
    | .error f => .error f
    | .ok e =>
      let recs := c.recs.map fun r => (fieldGeom e.geomKind r.1, r.2)
      let (rows, res) := if sched.isEmpty then writeAllS ptEqBits e recs else writeAllMix ptEqBits e sched recs
      .ok ⟨⟨e.shpType, e.fields, rows⟩, res⟩
  | .f t ffs =>
    let fields := ffs.map fun f => (⟨name11 f.name, f.typ, f.size, f.prec⟩ : Field)
    -- `writeAllG`: the row store with the encoder's cursor explicit, exact also after a call with more values than
    -- columns (= `writeAllF` otherwise: `EndToEnd.lean`, `writeAllG_eq_writeAllF`)
    let (rows, res) := writeAllG ptEqBits fields c.recs
    .ok ⟨⟨t, fields, rows⟩, res⟩

/-! ## the byte-layout model (Layout.lean) run on the same case -/

/-- the three files after `Close()` according to the byte-level writer model: the same calls, in the same order,
on the encoder (`Encode` / `EncodeFields` per the writer schedule), each through `Writer.Write` and
`Writer.WriteAttribute` with the encoder's cursor -/
def runBytes (c : Case) (withAttrs : Bool) : Option Layout.Files :=
  let valsOf := fun (r : BGeom × List Val) => if withAttrs then r.2 else []
  match c.w with
  | .s sfs sched =>
    match newEncoder sfs with
    | .error _ => none
    | .ok e =>
      let step := fun (acc : Layout.BW × Nat) (r : BGeom × List Val) =>
        let via := if sched.isEmpty then true else (sched[acc.2 % sched.length]?).getD true
        ((Layout.encode e.shpType e.fields acc.1 via (Layout.fieldShapeB e.geomKind (fieldGeom e.geomKind r.1)) (valsOf r)).1, acc.2 + 1)
      some (Layout.close e.shpType e.fields (c.recs.foldl step (Layout.create e.fields, 0)).1)
  | .f t ffs =>
    let fields := ffs.map fun f => (⟨name11 f.name, f.typ, f.size, f.prec⟩ : Field)
    let step := fun (w : Layout.BW) (r : BGeom × List Val) => (Layout.encode t fields w false (Layout.geom2ShpB r.1) (valsOf r)).1
    some (Layout.close t fields (c.recs.foldl step (Layout.create fields)))

def firstByteDiff : Bytes → Bytes → Nat → String
  | a :: as, b :: bs, i => if a == b then firstByteDiff as bs (i + 1) else s!"offset={i} model={a.toNat} file={b.toNat}"
  | [], [], _ => "none"
  | _ :: _, [], i => s!"offset={i} file-ends-model-goes-on"
  | [], _ :: _, i => s!"offset={i} model-ends-file-goes-on"

def shapeEq : Shape UInt64 → Shape UInt64 → Bool
  | .null, .null => true
  | .point p, .point q => p == q
  | .polyLine a b, .polyLine c d => a == c && b == d
  | .polygon a b, .polygon c d => a == c && b == d
  | .multiPoint a, .multiPoint b => a == b
  | _, _ => false

def rowsEq : List (Shape UInt64 × List Bytes) → List (Shape UInt64 × List Bytes) → Bool
  | [], [] => true
  | a :: as, b :: bs => shapeEq a.1 b.1 && a.2 == b.2 && rowsEq as bs
  | _, _ => false

/-- `none` = the real files are, byte for byte, what the layout model writes, AND read through the layout
model's reader they are the row store (`FileM`) the abstract writer model computed; else what differs -/
def bytesVerdict (c : Case) (abstractFile : Option (FileM UInt64)) (filesTok : Tok) : Option String :=
  -- The positioned writes on a `List` cost (number of writes) x (file size). Files of more than 64 records get
  -- their `.shp`/`.shx` from the operational writer as always, but their `.dbf` in CLOSED FORM from the abstract
  -- model's rows (`Layout.dbfOf`, the form `C16_container` is about; the record count in the header is the number
  -- of `.shp` records).
  let small := c.recs.length ≤ 64
  let model : Option Layout.Files := if filesTok.length != 4 then none else match runBytes c small with
    | none => none
    | some m =>
      if small then some m
      else match abstractFile with
        | some f => some { m with dbf := Layout.dbfOf f.rows.length f.fields (f.rows.map (·.2)) }
        | none => some m
  match filesTok, model with
  | [], _ => some "bytes-missing-in-answer"
  | [_, "skipped", _], _ => none        -- files of more than 24 KiB are not part of the answer
  | _, none => some "bytes-present-but-model-has-no-encoder"
  | [_, a, b, d], some m =>
    (match hexTok a, hexTok b, hexTok d with
    | some shp, some shx, some dbf =>
      if shp != m.shp then some s!"bytes-shp-differ {firstByteDiff m.shp shp 0}"
      else if shx != m.shx then some s!"bytes-shx-differ {firstByteDiff m.shx shx 0}"
      else if dbf != m.dbf then some s!"bytes-dbf-differ {firstByteDiff m.dbf dbf 0}"
      else match abstractFile, Layout.fileOfBytes shp dbf with
        | some f, some f' =>
          if f.shpType != f'.shpType then some "bytes-read-back-shape-type-differs"
          else if f.fields != f'.fields then some "bytes-read-back-fields-differ"
          else if !rowsEq f.rows f'.rows then some s!"bytes-read-back-rows-differ abstract={f.rows.length} bytes={f'.rows.length}"
          else none
        | _, none => some "bytes-unreadable-by-the-layout-reader"
        | none, _ => none
    | _, _, _ => some "bytes-bad-hex")
  | _, _ => some "bytes-bad-answer"

def runRead (c : Case) (f : FileM UInt64) : ReadRes UInt64 :=
  match c.r with
  | .s sfs ru => readS 0 f sfs ru
  | .f names => readF f names
  | .m calls => readM 0 f calls

def rvalTok : RVal UInt64 → Option String
  | .int i => some ("i" ++ toString i)
  | .float u => some ("f" ++ u64Hex u)
  | .str b => some ("s" ++ bytesToHex b)
  | .missing => some "-"
  | .geom _ => none

def rowToks (row : List (RVal UInt64)) : Tok :=
  let gs := row.filterMap fun v => match v with | .geom g => some g | _ => none
  let vs := row.filterMap rvalTok
  gs.flatMap Proto.geomToks ++ toString vs.length :: vs

def modelOut (c : Case) : Tok :=
  match runWrite c with
  | .error .noShapeField => ["newenc-panic"]
  | .error .invalidType => ["newenc-panic"]
  | .error _ => ["newenc-panic"]
  | .ok w =>
    let r := runRead c w.file
    let rows := r.rows.flatMap rowToks ++ (if r.panicked then ["PANIC"] else [])
    let n := r.rows.length + (if r.panicked then 1 else 0)
    "W" :: w.res.map wresStr ++ "R" :: toString n :: rows ++ ["E", if r.err then "1" else "0"]

/-! ## the implementation's answer, structured -/

structure ImplRow where
  g : BGeom
  vals : List String

structure ImplOut where
  res : List String
  rows : List ImplRow
  panicked : Bool
  err : Bool

def implRowP : PM ImplRow := do
  let g ← geomP; let n ← nat; let vs ← many next n; pure ⟨g, vs⟩

partial def implRowsP (n : Nat) (acc : List ImplRow) : PM (List ImplRow × Bool) := do
  if n = 0 then return (acc.reverse, false)
  let t ← get
  if t.head? = some "PANIC" then
    let _ ← next
    return (acc.reverse, true)
  let r ← implRowP
  implRowsP (n - 1) (r :: acc)

def implP : PM ImplOut := do
  expect "W"
  let t ← get
  let res := t.takeWhile (· ≠ "R")
  set (t.drop res.length)
  expect "R"
  let n ← nat
  let (rows, pan) ← implRowsP n []
  expect "E"
  let e ← next
  pure ⟨res, rows, pan, e = "1"⟩

/-! ## the specification applied to the implementation's answer -/

def geomKindName : BGeom → String
  | .point _ => "point" | .multiPoint _ => "multipoint" | .lineString _ => "linestring"
  | .multiLineString _ => "multilinestring" | .polygon _ => "polygon" | .bounds _ _ => "bounds" | .nil => "nil"
  | _ => "other"

def gkName : GK → String
  | .P => "point" | .MP => "multipoint" | .LS => "linestring" | .MLS => "multilinestring" | .PG => "polygon"
  | .B => "bounds" | .I => "iface"

/-- column description on the specification's side -/
structure Col where
  name : Bytes
  ty : Nat      -- 0 int, 1 float, 2 string, 3 other
  size : Nat
  prec : Nat

def colsOf (c : Case) : List Col :=
  match c.w with
  | .s sfs _ => sfs.filterMap fun sf =>
      let nm := if sf.tag.isEmpty then sf.name else sf.tag
      match sf.kind with
      | .int => some ⟨nm, 0, 10, 0⟩ | .float => some ⟨nm, 1, 30, 10⟩ | .str => some ⟨nm, 2, 50, 0⟩ | _ => none
  | .f _ ffs => ffs.map fun f =>
      ⟨f.name, if f.typ = 78 then 0 else if f.typ = 70 then 1 else if f.typ = 67 then 2 else 3, f.size, f.prec⟩

def shapeTypeOfGeom : BGeom → Nat
  | .point _ => 1 | .lineString _ => 3 | .multiLineString _ => 3 | .polygon _ => 5 | .bounds _ _ => 5
  | .multiPoint _ => 8 | .nil => 0 | _ => 99

def valInContract (col : Col) : Val → Bool
  | .int i => col.ty == 0 && Spec.intFits col.size i
  | .float u => col.ty == 1 && (match bitsToRat u with | some x => Spec.floatFits col.size col.prec x | none => false)
  | .str b => col.ty == 2 && Spec.strInContract col.size b

def distinctNames : List Bytes → Bool
  | [] => true
  | a :: r => !(r.any (Spec.sameName a)) && distinctNames r

/-- kind of the geometry a record of the file reads back as (the file's kind) -/
def fileKind (c : Case) : String :=
  match c.w with
  | .s sfs _ => match (sfs.filterMap fun sf => match sf.kind with | .geom k => some k | _ => none).getLast? with
    | some k => gkName k | none => "nogeom"
  | .f t _ => match t with | 0 => "nil" | 1 => "point" | 3 => "polyline" | 5 => "polygon" | 8 => "multipoint" | _ => "other"

def writerInContract (c : Case) : Bool :=
  let cols := colsOf c
  -- the standing assumption of the check: header and attribute row below 2^15 bytes (go-shp's int16 counters; beyond
  -- them `Wrap.lean` models what go-shp does and the `-wide` classes compare it, DIFF only)
  decide (cols.length * 32 + 33 < 32768) && decide (1 + (cols.map (·.size)).sum < 32768) &&
  cols.all (fun col => Spec.nameInContract col.name && col.ty != 3) && distinctNames (cols.map (·.name)) &&
  (match c.w with
   | .s sfs _ => (sfs.filter fun sf => match sf.kind with | .geom _ => true | _ => false).length == 1 &&
       c.recs.all (fun r => match r.1 with | .nil => false | _ => true)
   | .f t _ => c.recs.all (fun r => shapeTypeOfGeom r.1 == t)) &&
  c.recs.all (fun r => r.2.length == cols.length && (List.zip cols r.2).all (fun cv => valInContract cv.1 cv.2)
    && (Spec.normal ptEqBits r.1).isSome)

def kindAccepts (k : GK) (g : BGeom) : Bool :=
  match k, g with
  | .I, _ => true
  | .P, .point _ => true | .MP, .multiPoint _ => true | .MLS, .multiLineString _ => true | .PG, .polygon _ => true
  | _, .nil => true
  | _, _ => false

def tyOfKind : Kind → Nat | .int => 0 | .float => 1 | .str => 2 | _ => 3

/-- what one reading call asks for: per returned attribute value, the column it should carry (`none` =
the statement does not decide). `none` overall: the call is outside the statement. The flag says whether
the call is `DecodeRow` (typed values) or `DecodeRowFields` (texts). -/
def callPlan (c : Case) (cols : List Col) (call : Call) : Option (Bool × List (Option Nat)) :=
  let names := cols.map (·.name)
  match call with
  | .s sfs _ =>
    let gks := sfs.filterMap fun sf => match sf.kind with | .geom k => some k | _ => none
    if gks.length != 1 then none
    else if !(c.recs.all fun r => match Spec.normal ptEqBits r.1 with | some g => gks.all (kindAccepts · g) | none => false) then none
    else if !((sfs.filter fun sf => match sf.kind with | .geom _ => false | _ => true).all fun sf =>
        match Spec.columnFor names sf.tag sf.name with
        | some (some j) => (match cols[j]? with | some col => col.ty == tyOfKind sf.kind | none => false)
        | _ => true) then none   -- a column read back with another type: outside the statement
    else some (true, (sfs.filter fun sf => match sf.kind with | .geom _ => false | _ => true).map fun sf =>
      match Spec.columnFor names sf.tag sf.name with
      | some (some j) => some j
      | _ => none)
  | .f ns =>
    if ns.all (fun n => !(Spec.indicesOf names n).isEmpty) then
      some (false, ns.map fun n => match Spec.indicesOf names n with | [j] => some j | _ => none)
    else none

/-- the plans of all calls of the reading schedule (`none`: some call is outside the statement) -/
def readerPlan (c : Case) (cols : List Col) : Option (List (Bool × List (Option Nat))) :=
  let cs := callsOf c.r
  if cs.isEmpty then none else cs.mapM (callPlan c cols)

/-- one attribute value against the statement; `none` = satisfied, `some (severity, why)` otherwise
(severity 1: altered blank at the edge of a string, the recorded format limitation) -/
def checkVal (readerIsStruct : Bool) (col : Col) (written : Val) (got : String) : Option (Nat × String) :=
  match written with
  | .int i =>
    if readerIsStruct then
      (if got == "i" ++ toString i then none else some (0, s!"int-differs wrote={i} got={got}"))
    else match (hexTok got).bind Spec.intText with
      | some j => if i == j then none else some (0, s!"int-differs wrote={i} got={j}")
      | none => some (0, s!"int-text-unreadable wrote={i} got={got}")
  | .str b =>
    if hexTok got == some b ∧ got.front == 's' then none
    else if b.head? == some 32 then some (1, "str-leading-space-lost")
    else if b.getLast? == some 32 ∧ b.length == col.size then some (1, "str-trailing-space-lost-at-full-width")
    else some (0, s!"str-differs wrote={bytesToHex b} got={got}")
  | .float u =>
    match bitsToRat u with
    | none => none
    | some x =>
      let y : Option Rat :=
        if readerIsStruct then (if got.front == 'f' then (parseU64 ((got.drop 1).toString)).bind bitsToRat else none)
        else (hexTok got).bind Spec.decText
      match y with
      | some y => if Spec.floatClose col.prec x y then none else some (0, s!"float-differs-beyond-1e-{col.prec} wrote={u64Hex u} got={got}")
      | none => some (0, s!"float-unreadable wrote={u64Hex u} got={got}")

/-- "no geometry" in a struct field of a concrete geometry type is that type's zero value -/
def noGeomAs (call : Option Call) : BGeom → BGeom
  | .nil => (match call with
    | some (.s sfs _) => (match (sfs.filterMap fun sf => match sf.kind with | .geom k => some k | _ => none).head? with
      | some k => zeroFieldGeom k
      | none => .nil)
    | _ => .nil)
  | g => g

/-- all violations of the statement in the implementation's answer (in-contract file) -/
def specViolations (c : Case) (cols : List Col) (plans : List (Bool × List (Option Nat))) (o : ImplOut) : List (Nat × String) :=
  let calls := callsOf c.r
  let a := if o.res.all (· == "ok") && o.res.length == c.recs.length then [] else [(0, "a-record-in-contract-was-not-written")]
  let b := if o.panicked then [(0, "reader-panicked")] else []
  let e := if o.err then [(0, "reader-reports-an-error")] else []
  let n := if o.rows.length == c.recs.length then [] else [(0, s!"record-count wrote={c.recs.length} read={o.rows.length}")]
  let rows := (List.zip c.recs o.rows).zipIdx.flatMap fun ((rec, row), i) =>
    -- record i is read with call i mod k; whatever the call asks for, it is record i's data
    let (readerIsStruct, plan) := (plans[i % plans.length]?).getD (false, [])
    let g := match (Spec.normal ptEqBits rec.1).map (noGeomAs calls[i % calls.length]?) with
      | some want => if Geom.beq want row.g then [] else [(0, s!"geometry-differs row={i} want={Proto.geomStr want} got={Proto.geomStr row.g}")]
      | none => []
    let vs := (List.zip plan row.vals).flatMap fun (pj, got) =>
      match pj with
      | none => []
      | some j => match cols[j]?, rec.2[j]? with
        | some col, some w => match checkVal readerIsStruct col w got with
          | none => []
          | some (sev, why) => [(sev, s!"{why} row={i} col={j}")]
        | _, _ => []
    let l := if row.vals.length == plan.length then [] else [(0, s!"value-count row={i}")]
    g ++ l ++ vs
  a ++ b ++ e ++ n ++ rows

def pathName (c : Case) : String :=
  (match c.w with | .s _ _ => "S" | .f _ _ => "F") ++ (match c.r with | .s _ _ => "S" | .f _ => "F" | .m _ => "M")

def firstDiff : Tok → Tok → Nat → String
  | a :: as, b :: bs, i => if a == b then firstDiff as bs (i + 1) else s!"token {i}: model={a} impl={b}"
  | [], [], _ => "none"
  | a :: _, [], i => s!"token {i}: model={a} impl=<end>"
  | [], b :: _, i => s!"token {i}: model=<end> impl={b}"

/-! ## files beyond go-shp's 16-bit widths (`Wrap.lean`): model vs code only -/

/-- the field list of a field-path case whose header or row does not fit go-shp's `int16` counters -/
def wideFields (c : Case) : Option (Nat × List Field) :=
  match c.w with
  | .f t ffs =>
    let fields := ffs.map fun f => (⟨name11 f.name, f.typ, f.size, f.prec⟩ : Field)
    if Layout.hdrLen fields < 32768 ∧ Layout.recLen fields < 32768 then none else some (t, fields)
  | _ => none

def judgeWide (c : Case) (cls : String) (t : Nat) (fields : List Field) (rhsN filesTok : Tok) : String :=
  match c.r with
  | .f names =>
    let recsB := c.recs.map fun r => (Layout.geom2ShpB r.1, r.2)
    (match Wrap.runW t fields recsB with
    | none => if rhsN == ["newenc-panic"] then s!"OK {cls}" else s!"DIFF {cls} {firstDiff ["newenc-panic"] rhsN 0}"
    | some (files, res) =>
      let r := Wrap.readW files.shp files.dbf names
      let rows := r.rows.flatMap rowToks ++ (if r.panicked then ["PANIC"] else [])
      let n := r.rows.length + (if r.panicked then 1 else 0)
      let m : Tok := "W" :: res.map wresStr ++ "R" :: toString n :: rows ++ ["E", if r.err then "1" else "0"]
      if m != rhsN then s!"DIFF {cls} {firstDiff m rhsN 0}"
      else match filesTok with
        | [_, "skipped", _] => s!"OK {cls}"
        | [_, a, b, d] =>
          (match hexTok a, hexTok b, hexTok d with
          | some shp, some shx, some dbf =>
            if shp != files.shp then s!"DIFF {cls} bytes-shp-differ {firstByteDiff files.shp shp 0}"
            else if shx != files.shx then s!"DIFF {cls} bytes-shx-differ {firstByteDiff files.shx shx 0}"
            else if dbf != files.dbf then s!"DIFF {cls} bytes-dbf-differ {firstByteDiff files.dbf dbf 0}"
            else s!"OK {cls}"
          | _, _, _ => s!"DIFF {cls} bytes-bad-hex")
        | _ => s!"DIFF {cls} bytes-missing-in-answer")
  | _ => s!"DIFF {cls} reader-outside-the-wide-model"

def judgeLine (line : String) : String :=
  let (lhs, rhsAll) := splitArrow (tokens line)
  let rhs := rhsAll.takeWhile (· ≠ "FILES")
  let filesTok := rhsAll.dropWhile (· ≠ "FILES")
  match (caseP.run lhs) with
  | none => "BAD parse"
  | some (c, _) =>
    let cols := colsOf c
    let cls0 := s!"{pathName c}-{fileKind c}" ++ (match c.w with | .s _ (_ :: _) => "-wmix" | _ => "")
    match rhs with
    | "pin-mismatch" :: s =>
      s!"DIFF go-shp-pin the-model-transcribes-go-shp-with-another-content-hash linked={" ".intercalate s}"
    | _ =>
    -- normalise the panic text of NewEncoder
    let rhsN : Tok := match rhs with
      | [t] => if t.startsWith "newenc-panic" then ["newenc-panic"] else [t]
      | t => t
    match wideFields c with
    | some (t, fields) => judgeWide c (cls0 ++ "-wide") t fields rhsN filesTok
    | none =>
    let m := modelOut c
    let bytesBad : Option String :=
      if rhsN.head? != some "W" then none
      else bytesVerdict c (match runWrite c with | .ok w => some w.file | .error _ => none) filesTok
    let same := m == rhsN
    let plan := if writerInContract c then readerPlan c cols else none
    match plan with
    | none =>
      if !same then s!"DIFF {cls0}-oob {firstDiff m rhsN 0}"
      else match bytesBad with
        | some why => s!"DIFF {cls0}-oob {why}"
        | none => s!"OK {cls0}-oob"
    | some plan =>
      match implP.run rhsN with
      | none => s!"SPEC {cls0} writing-or-reading-failed-on-in-contract-input got={" ".intercalate (rhsN.take 6)}"
      | some (o, _) =>
        let vs := specViolations c cols plan o
        match vs.find? (·.1 == 0) with
        | some (_, why) => s!"SPEC {cls0} {why}"
        | none =>
          if !same then s!"DIFF {cls0} {firstDiff m rhsN 0}"
          else if bytesBad.isSome then s!"DIFF {cls0} {bytesBad.getD ""}"
          else match vs.head? with
            | some (_, why) => s!"SPEC {cls0} {why}"
            | none => s!"OK {cls0}"

end GeomV.C16

open GeomV GeomV.C16 in
def main (args : List String) : IO Unit := do
  let out ← IO.getStdout
  match args with
  | ["judge"] => forEachLine fun l => out.putStrLn (if l.startsWith "rfile " then Reflect.judgeReflectLine l else judgeLine l)
  | _ => IO.eprintln "usage: geomv_c16 judge"
