import GeomV.C16.Model
import GeomV.C16.Spec
/-!
# C16 — the reflection rules of the struct paths (`NewEncoder`, `Encode`, `DecodeRow`, `setFieldToAttribute`)

`Model.lean` knows struct fields of four sorts: exported `int` / `float64` / `string` / geometry. The Go code
walks `t.NumField()` with `reflect`, so it meets every DIRECT field of the record type (embedded structs are not
flattened) whatever its kind and visibility. This file describes a field the way `reflect` shows it (`RField`) and
transcribes what the three functions do with it. It EXTENDS `Model.lean` (`ReflectProofs.refl_conservative`: on
the old field sorts the functions below are the old ones) and reuses its pieces (`colField`, `matchField`,
`lastIdx`, `writeAttr`, `cellOf`, `blankRow`, `parseInt`, `numText`, `strOf`, `fieldShape`, `shp2Geom`, …).

`NewEncoder`, per direct field (shp.go: `switch sField.Type.Kind()`):
* `reflect.Int / Float64 / String` — also a named type of that kind, also an unexported field — a column named by
  the lower-cased `shp` tag, else by `sField.Name`;
* `reflect.Struct / Slice`: geometry iff `sField.Type.Name()` is Point / LineString / MultiLineString / Polygon /
  MultiPoint (…Z/…M names do not exist in package geom); any other struct or slice is skipped without a word and
  its inner fields give no columns; `reflect.Ptr`: geometry iff `Elem().Name() == "Bounds"`, else skipped;
* any other kind: `panic("Invalid type …")`.
`Encode`: `v.Field(e.geomIndex).Interface()` and `v.Field(j).Interface()` panic on an unexported field (the latter
after the shape was written, `e.row++`, and the earlier cells were written); go-shp's `WriteAttribute` has a type
switch `int / float64 / string`, so a value of a named type is "Unsupported value type": `Encode` returns an error.
`DecodeRow`, per direct field: `fType.Type.Implements(geom.Geom)` → `fValue.Set(reflect.ValueOf(g))` unless the shape
is Null (panics for an unexported field or a dynamic type that is not assignable); else the column found under the
lower-cased tag, else under the lower-cased `fType.Name` → `setFieldToAttribute`: reads the cell, then by
`Kind()` Float64 / Int / String parse-and-`SetX` (panics on an unexported field, AFTER a successful parse) and
`panic("Struct field type can only be …")` for any other kind; a field without a column is not touched.

`StructField.Name` of an embedded field is the NAME OF ITS TYPE (Go specification); `RField.goName` says so.
Outside this model: a non-geom type that happens to be NAMED `Point`, … (NewEncoder would take it for the geometry
and `Encode` would panic in the type assertion), interface types other than `geom.Geom` that embed it.
-/
set_option linter.unusedVariables false
namespace GeomV.C16.Reflect
open GeomV GeomV.C16

/-- what `reflect` shows of a field's type, as far as the three functions look -/
inductive RKind where
  | int | float | str                   -- `Kind()` Int / Float64 / String (named types included, see `RField.named`)
  | geom (g : GK)                       -- geom.Point, MultiPoint, LineString, MultiLineString, Polygon, *geom.Bounds, geom.Geom
  | geomOther                           -- implements geom.Geom, Kind Struct/Slice/Ptr, not a NewEncoder geometry: *geom.Point, geom.MultiPolygon
  | otherStruct (inner : List SField)   -- any other struct (embedded or not) with its own int/float64/string fields
  | otherSlice                          -- `[]int`, …
  | ptrOther                            -- `*int`, `*string`, `*Inner`
  | unsupported                         -- bool, int64, …, float32, map, interface (other than geom.Geom), array, func, chan
deriving Repr, DecidableEq, Inhabited

structure RField where
  name : Bytes          -- the declared field name (for an embedded field Go reports the type name here as well)
  typeName : Bytes      -- `Type.Name()` (`Elem().Name()` for a pointer)
  tag : Bytes           -- `Tag.Get("shp")`
  exported : Bool       -- `PkgPath == ""`
  embedded : Bool       -- `Anonymous`
  named : Bool          -- Kind int/float64/string but not the predeclared type itself (`type MyInt int`)
  kind : RKind
deriving Repr, DecidableEq, Inhabited

/-- `reflect.StructField.Name`: an embedded field is called like its type -/
def RField.goName (rf : RField) : Bytes := if rf.embedded then rf.typeName else rf.name

def RKind.toKind : RKind → Kind
  | .int => .int | .float => .float | .geom g => .geom g | _ => .str

/-- name, tag and column sort as `Model.lean` wants them (`colField`, `matchField`) -/
def RField.key (rf : RField) : SField := ⟨rf.goName, rf.tag, rf.kind.toKind⟩

def RKind.ofKind : Kind → RKind
  | .int => .int | .float => .float | .str => .str | .geom g => .geom g

/-- the fields `Model.lean` knows: exported, not embedded, predeclared types -/
def RField.plain (sf : SField) : RField := ⟨sf.name, [], sf.tag, true, false, false, .ofKind sf.kind⟩

/-- `Kind()` Int / Float64 / String -/
def RKind.isAttr : RKind → Bool
  | .int => true | .float => true | .str => true | _ => false

/-- skipped by `NewEncoder` without a word -/
def RKind.skipped : RKind → Bool
  | .geomOther => true | .otherStruct _ => true | .otherSlice => true | .ptrOther => true | _ => false

/-- `NewEncoder` panics "Invalid type" -/
def RKind.invalid : RKind → Bool
  | .unsupported => true | .geom .I => true | _ => false

/-- `fType.Type.Implements(geom.Geom)`; the inner option is the `GK` whose dynamic type `reflect.Set` accepts
(`none`: no value `shp2Geom` returns is assignable) -/
def RKind.geomLike : RKind → Option (Option GK)
  | .geom k => some (some k)
  | .geomOther => some none
  | _ => none

/-! ## `NewEncoder` -/

/-- what `Encode` needs to know of a column's struct field besides the column -/
structure ColInfo where
  exported : Bool
  named : Bool
deriving Repr, DecidableEq, Inhabited

structure EncR where
  shpType : Nat
  cols : List (Field × ColInfo)     -- `shpFields` with `e.fieldIndices` resolved
  geomKind : GK
  geomExported : Bool               -- visibility of field `e.geomIndex`
deriving Repr, DecidableEq, Inhabited

def EncR.fields (e : EncR) : List Field := e.cols.map (·.1)
def EncR.toEncS (e : EncR) : EncS := ⟨e.shpType, e.fields, e.geomKind⟩
def EncR.ofEncS (e : EncS) : EncR := ⟨e.shpType, e.fields.map fun f => (f, ⟨true, false⟩), e.geomKind, true⟩

def colOf (rf : RField) : Field × ColInfo := (colField rf.key, ⟨rf.exported, rf.named⟩)

/-- the loop of `NewEncoder` over the direct fields -/
def scan : List RField → List (Field × ColInfo) → Option (GK × Bool) → Except Fault (List (Field × ColInfo) × Option (GK × Bool))
  | [], fs, g => .ok (fs.reverse, g)
  | rf :: rest, fs, g =>
    match rf.kind with
    | .int => scan rest (colOf rf :: fs) g
    | .float => scan rest (colOf rf :: fs) g
    | .str => scan rest (colOf rf :: fs) g
    | .geom .I => .error .invalidType
    | .geom k => scan rest fs (some (k, rf.exported))
    | .geomOther => scan rest fs g
    | .otherStruct _ => scan rest fs g
    | .otherSlice => scan rest fs g
    | .ptrOther => scan rest fs g
    | .unsupported => .error .invalidType

def newEncoderR (rfs : List RField) : Except Fault EncR :=
  match scan rfs [] none with
  | .error f => .error f
  | .ok (_, none) => .error .noShapeField
  | .ok (fs, some (k, ex)) => match shapeTypeOfGK k with
    | some t => .ok ⟨t, fs, k, ex⟩
    | none => .error .invalidType

/-! ## `Encode` -/

/-- the `WriteAttribute` loop of `Encode`: `v.Field(j).Interface()` panics on an unexported field, a value of a
named type is refused by go-shp's type switch, a value wider than the column is refused; the loop stops there and
the remaining cells stay as `Writer.Write` left them -/
def writeStrictR : List (Field × ColInfo) → List Val → List Bytes × WRes
  | (f, ci) :: fs, v :: vs =>
    if !ci.exported then (blankRow (f :: fs.map (·.1)), .panic)
    else if ci.named then (blankRow (f :: fs.map (·.1)), .err)
    else match writeAttr f v with
      | none => (blankRow (f :: fs.map (·.1)), .err)
      | some b => let r := writeStrictR fs vs; (cellOf f.size b :: r.1, r.2)
  | fs, _ => (blankRow (fs.map (·.1)), .ok)

section store
variable {α : Type}

/-- one `Encoder.Encode` call; the encoder's row cursor `e.row` is explicit (`WState.row`, as in `encodeMix`) -/
def encodeR (eq : Pt α → Pt α → Bool) (e : EncR) (st : WState α) (g : Geom α) (vals : List Val) : WState α × WRes :=
  if !e.geomExported then (st, .panic)            -- `v.Field(e.geomIndex).Interface()`
  else match fieldShape eq e.geomKind g with
  | .error .nilDeref => (st, .panic)
  | .error _ => (st, .err)
  | .ok sh =>
    let r := writeStrictR e.cols vals
    (⟨setCells (st.rows ++ [(sh, blankRow e.fields)]) st.row r.1, st.row + 1⟩, r.2)

/-- a whole sequence of `Encode` calls on one encoder -/
def writeAllR (eq : Pt α → Pt α → Bool) (e : EncR) (recs : List (Geom α × List Val)) : List (Shape α × List Bytes) × List WRes :=
  let r := recs.foldl (fun (acc : WState α × List WRes) r => let x := encodeR eq e acc.1 r.1 r.2; (x.1, acc.2 ++ [x.2])) (⟨[], 0⟩, [])
  (r.1.rows, r.2)

end store

/-! ## `DecodeRow` -/

inductive RFault where
  | base (f : Fault)      -- the faults `Model.lean` knows (`reflectSet`: `Set` of a value that is not assignable; `index`)
  | unexported            -- reflect: "using value obtained using unexported field" (`Set`, `SetInt`, `SetFloat`, `SetString`)
  | badKind               -- `setFieldToAttribute`: "Struct field type can only be float64, int, or string."
deriving Repr, DecidableEq, Inhabited

section read
variable {α : Type}

/-- zero value of a field as the harness prints it; kinds the decoder can never assign are opaque (`missing`) -/
def zeroOfR (zero : α) : RKind → RVal α
  | .int => .int 0 | .float => .float 0 | .str => .str []
  | .geom k => zeroOf zero (.geom k)
  | _ => .missing

/-- one direct field of the record type in `DecodeRow` -/
def decodeFieldR (keys : List Bytes) (g : Geom α) (cells : List Bytes) (rf : RField) (prev : RVal α) :
    Except RFault (RVal α × Bool) :=
  match rf.kind.geomLike with
  | some acc =>
    match g with
    | .nil => .ok (prev, false)                       -- `if g == nil { continue }`
    | _ =>
      if !rf.exported then .error .unexported          -- `fValue.Set`: mustBeAssignable
      else match acc with
        | some k => if k = .I ∨ dynKind g = some k then .ok (.geom g, false) else .error (.base .reflectSet)
        | none => .error (.base .reflectSet)
  | none =>
    match matchField keys rf.key with
    | none => .ok (prev, false)
    | some j =>
      match cells[j]? with
      | none => .error (.base .index)
      | some cell =>
        match rf.kind with
        | .int => match parseInt (numText cell) with
          | some i => if rf.exported then .ok (.int i, false) else .error .unexported
          | none => .ok (prev, true)
        | .float => match parseFloat (numText cell) with
          | some u => if rf.exported then .ok (.float u, false) else .error .unexported
          | none => .ok (prev, true)
        | .str => if rf.exported then .ok (.str (strOf cell), false) else .error .unexported
        | _ => .error .badKind

/-- the direct fields of one `DecodeRow` call in order (as `decodeFields`) -/
def decodeFieldsR (zero : α) (keys : List Bytes) (g : Geom α) (cells : List Bytes) :
    List RField → List (RVal α) → Option (List (RVal α)) × Bool
  | [], _ => (some [], false)
  | rf :: rest, prevs =>
    match decodeFieldR keys g cells rf (prevs.headD (zeroOfR zero rf.kind)) with
    | .error _ => (none, false)
    | .ok (v, e) =>
      match decodeFieldsR zero keys g cells rest prevs.tail with
      | (none, e') => (none, e || e')
      | (some vs, e') => (some (v :: vs), e || e')

def zeroRowR (zero : α) (rfs : List RField) : List (RVal α) := rfs.map fun rf => zeroOfR zero rf.kind

/-- repeated `DecodeRow` until it returns false (as `readS`) -/
def readR (zero : α) (f : FileM α) (rfs : List RField) (reuse : Bool) : ReadRes α :=
  let keys := fileKeys f.fields
  let rec go : List (Shape α × List Bytes) → List (RVal α) → ReadRes α
    | [], _ => ⟨[], false, false⟩
    | (sh, cells) :: rest, var =>
      match shp2Geom sh with
      | .error _ => ⟨[], true, false⟩
      | .ok g =>
        match decodeFieldsR zero keys g cells rfs var with
        | (none, e) => ⟨[], true, e⟩
        | (some vs, true) => ⟨[vs], false, true⟩
        | (some vs, false) =>
          let r := go rest (if reuse then vs else zeroRowR zero rfs)
          ⟨vs :: r.rows, r.panicked, r.err⟩
  go f.rows (zeroRowR zero rfs)

end read

/-! ## the judge of `rfile` lines (grammar: `harness/cmd/c16/reflect.go`) -/

abbrev PM := StateT Tok Option

def next : PM String := fun t => match t with | a :: r => some (a, r) | [] => none
def nat : PM Nat := do let s ← next; match s.toNat? with | some n => pure n | none => failure
def hexB : PM Bytes := do
  let s ← next
  if s.length = 1 then pure [] else
  match hexToBytes ((s.drop 1).toString) with | some b => pure b | none => failure
def many {β : Type} (p : PM β) : Nat → PM (List β)
  | 0 => pure []
  | n+1 => do let a ← p; let as ← many p n; pure (a :: as)
def geomP : PM BGeom := fun t => Proto.pGeom 4 t
def expect (s : String) : PM Unit := do let t ← next; if t = s then pure () else failure
def boolP : PM Bool := do match ← next with | "1" => pure true | "0" => pure false | _ => failure

def innerP : PM SField := do
  let n ← hexB; let t ← hexB
  match ← next with
  | "i" => pure ⟨n, t, .int⟩ | "f" => pure ⟨n, t, .float⟩ | "s" => pure ⟨n, t, .str⟩
  | _ => failure

def rkindP : PM RKind := do
  match ← next with
  | "i" => pure .int | "f" => pure .float | "s" => pure .str
  | "gP" => pure (.geom .P) | "gMP" => pure (.geom .MP) | "gLS" => pure (.geom .LS) | "gMLS" => pure (.geom .MLS)
  | "gPG" => pure (.geom .PG) | "gB" => pure (.geom .B) | "gI" => pure (.geom .I)
  | "gO" => pure .geomOther
  | "oS" => do let k ← nat; let l ← many innerP k; pure (.otherStruct l)
  | "oL" => pure .otherSlice | "oP" => pure .ptrOther | "u" => pure .unsupported
  | _ => failure

def rfieldP : PM RField := do
  let n ← hexB; let tn ← hexB; let t ← hexB
  let ex ← boolP; let em ← boolP; let nm ← boolP
  let k ← rkindP
  pure ⟨n, tn, t, ex, em, nm, k⟩

def valP : PM Val := do
  let s ← next
  let body := (s.drop 1).toString
  match s.front with
  | 'i' => match body.toInt? with | some i => pure (.int i) | none => failure
  | 'f' => match parseU64 body with | some u => pure (.float u) | none => failure
  | 's' => if body.isEmpty then pure (.str []) else match hexToBytes body with | some b => pure (.str b) | none => failure
  | _ => failure

structure RCase where
  wid : String
  w : List RField
  rid : String
  r : List RField
  recs : List (BGeom × List Val)

def recP : PM (BGeom × List Val) := do
  let g ← geomP; let n ← nat; let vs ← many valP n; pure (g, vs)

def rcaseP : PM RCase := do
  expect "rfile"; expect "W"
  let wid ← next; let nw ← nat; let w ← many rfieldP nw
  expect "R"
  let rid ← next; let nr ← nat; let r ← many rfieldP nr
  expect "N"
  let n ← nat
  let recs ← many recP n
  pure ⟨wid, w, rid, r, recs⟩

/-! ### running the model -/

def zeroFieldGeom : GK → BGeom
  | .P => .point ⟨0, 0⟩ | .MP => .multiPoint [] | .LS => .lineString [] | .MLS => .multiLineString []
  | .PG => .polygon [] | .B => .nil | .I => .nil

def writerAccepts : GK → BGeom → Bool
  | .P, .point _ => true | .MP, .multiPoint _ => true | .LS, .lineString _ => true | .MLS, .multiLineString _ => true
  | .PG, .polygon _ => true | .B, .bounds _ _ => true
  | _, _ => false

/-- the harness puts the record's geometry into the fields it is assignable to; otherwise the field keeps its zero value -/
def fieldGeomR (k : GK) (g : BGeom) : BGeom := if writerAccepts k g then g else zeroFieldGeom k

def wresStr : WRes → String | .ok => "ok" | .err => "err" | .panic => "panic"

/-- the file and the per-record results; `WNull`: `NewEncoderFromFields(NULL, columns…)` + `EncodeFields(nil, vals…)` -/
def runWriteR (c : RCase) : Except Fault (FileM UInt64 × List WRes) :=
  if c.wid = "WNull" then
    let fields := (c.w.filter (·.kind.isAttr)).map fun rf => colField rf.key
    let (rows, res) := writeAllF ptEqBits fields (c.recs.map fun r => (Geom.nil, r.2))
    .ok (⟨0, fields, rows⟩, res)
  else
    match newEncoderR c.w with
    | .error f => .error f
    | .ok e =>
      let (rows, res) := writeAllR ptEqBits e (c.recs.map fun r => (fieldGeomR e.geomKind r.1, r.2))
      .ok (⟨e.shpType, e.fields, rows⟩, res)

def rvalTok : RVal UInt64 → Option String
  | .int i => some ("i" ++ toString i)
  | .float u => some ("f" ++ u64Hex u)
  | .str b => some ("s" ++ bytesToHex b)
  | .missing => some "-"
  | .geom _ => none

def rowToks (row : List (RVal UInt64)) : Tok :=
  let gs := row.filterMap fun v => match v with | .geom g => some g | _ => none
  let vs := row.filterMap rvalTok
  gs.flatMap Proto.geomToks ++ toString vs.length :: vs

def modelOutR (c : RCase) : Tok :=
  match runWriteR c with
  | .error _ => ["newenc-panic"]
  | .ok (file, res) =>
    let r := readR 0 file c.r false
    let rows := r.rows.flatMap rowToks ++ (if r.panicked then ["PANIC"] else [])
    let n := r.rows.length + (if r.panicked then 1 else 0)
    "W" :: res.map wresStr ++ "R" :: toString n :: rows ++ ["E", if r.err then "1" else "0"]

/-! ### the statement, applied to the implementation's answer -/

/-- a field of the sorts the property statement talks about -/
def plainField (writer : Bool) (rf : RField) : Bool :=
  rf.exported && !rf.named &&
  (match rf.kind with
   | .int => !rf.embedded | .float => !rf.embedded | .str => !rf.embedded
   | .geom .I => !writer
   | .geom _ => true
   | _ => false)

def isGeomField (rf : RField) : Bool := match rf.kind with | .geom _ => true | _ => false

structure Col where
  name : Bytes
  ty : Nat      -- 0 int, 1 float, 2 string
  size : Nat
  prec : Nat

def colsOfR (w : List RField) : List Col :=
  w.filterMap fun rf =>
    let nm := if rf.tag.isEmpty then rf.goName else rf.tag
    match rf.kind with
    | .int => some ⟨nm, 0, 10, 0⟩ | .float => some ⟨nm, 1, 30, 10⟩ | .str => some ⟨nm, 2, 50, 0⟩ | _ => none

def valInContract (col : Col) : Val → Bool
  | .int i => col.ty == 0 && Spec.intFits col.size i
  | .float u => col.ty == 1 && (match bitsToRat u with | some x => Spec.floatFits col.size col.prec x | none => false)
  | .str b => col.ty == 2 && Spec.strInContract col.size b && b.head? != some 32 && b.getLast? != some 32

def distinctNames : List Bytes → Bool
  | [] => true
  | a :: r => !(r.any (Spec.sameName a)) && distinctNames r

def kindAccepts (k : GK) (g : BGeom) : Bool :=
  match k, g with
  | .I, _ => true
  | .P, .point _ => true | .MP, .multiPoint _ => true | .MLS, .multiLineString _ => true | .PG, .polygon _ => true
  | _, _ => false

def tyOfRKind : RKind → Nat | .int => 0 | .float => 1 | .str => 2 | _ => 3

/-- the writer's geometry kind when writer type and records are within the statement -/
def writerGK (c : RCase) (cols : List Col) : Option GK :=
  if c.wid = "WNull" then none
  else if !(c.w.all (plainField true)) then none
  else if !(cols.all (fun col => Spec.nameInContract col.name) && distinctNames (cols.map (·.name))) then none
  else match c.w.filterMap (fun rf => match rf.kind with | .geom k => some k | _ => none) with
    | [k] =>
      if c.recs.all (fun r => writerAccepts k r.1 && (Spec.normal ptEqBits r.1).isSome &&
          r.2.length == cols.length && (List.zip cols r.2).all (fun cv => valInContract cv.1 cv.2)) then some k else none
    | _ => none

/-- per attribute field of the reader: the column it must carry (`none`: the statement does not decide); `none`
overall: the reader type is outside the statement -/
def readerPlan (c : RCase) (cols : List Col) : Option (List (Option Nat)) :=
  let names := cols.map (·.name)
  if !(c.r.all (plainField false)) then none
  else match c.r.filterMap (fun rf => match rf.kind with | .geom k => some k | _ => none) with
    | [k] =>
      if !(c.recs.all fun r => match Spec.normal ptEqBits r.1 with | some g => kindAccepts k g | none => false) then none
      else
        let attrs := c.r.filter fun rf => !isGeomField rf
        if !(attrs.all fun rf => match Spec.columnFor names rf.tag rf.goName with
            | some (some j) => (match cols[j]? with | some col => col.ty == tyOfRKind rf.kind | none => false)
            | _ => true) then none
        else some (attrs.map fun rf => match Spec.columnFor names rf.tag rf.goName with
          | some (some j) => some j
          | _ => none)
    | _ => none

structure ImplRow where
  g : BGeom
  vals : List String

structure ImplOut where
  res : List String
  rows : List ImplRow
  panicked : Bool
  err : Bool

def implRowP : PM ImplRow := do
  let g ← geomP; let n ← nat; let vs ← many next n; pure ⟨g, vs⟩

def implRowsP : Nat → PM (List ImplRow × Bool)
  | 0 => pure ([], false)
  | n+1 => do
    let t ← get
    if t.head? = some "PANIC" then
      let _ ← next
      pure ([], true)
    else
      let r ← implRowP
      let (rs, p) ← implRowsP n
      pure (r :: rs, p)

def implP : PM ImplOut := do
  expect "W"
  let t ← get
  let res := t.takeWhile (· ≠ "R")
  set (t.drop res.length)
  expect "R"
  let n ← nat
  let (rows, pan) ← implRowsP n
  expect "E"
  let e ← next
  pure ⟨res, rows, pan, e = "1"⟩

def checkVal (col : Col) (written : Val) (got : String) : Option String :=
  match written with
  | .int i => if got == "i" ++ toString i then none else some s!"int-differs wrote={i} got={got}"
  | .str b => if got == "s" ++ bytesToHex b then none else some s!"str-differs wrote={bytesToHex b} got={got}"
  | .float u =>
    match bitsToRat u with
    | none => none
    | some x =>
      let y : Option Rat := if got.front == 'f' then (parseU64 ((got.drop 1).toString)).bind bitsToRat else none
      match y with
      | some y => if Spec.floatClose col.prec x y then none else some s!"float-differs-beyond-1e-{col.prec} wrote={u64Hex u} got={got}"
      | none => some s!"float-unreadable wrote={u64Hex u} got={got}"

def specViolations (c : RCase) (cols : List Col) (plan : List (Option Nat)) (o : ImplOut) : List String :=
  let a := if o.res.all (· == "ok") && o.res.length == c.recs.length then [] else ["a-record-in-contract-was-not-written"]
  let b := if o.panicked then ["reader-panicked"] else []
  let e := if o.err then ["reader-reports-an-error"] else []
  let n := if o.rows.length == c.recs.length then [] else [s!"record-count wrote={c.recs.length} read={o.rows.length}"]
  let rows := (List.zip c.recs o.rows).zipIdx.flatMap fun ((rec, row), i) =>
    let g := match Spec.normal ptEqBits rec.1 with
      | some want => if Geom.beq want row.g then [] else [s!"geometry-differs row={i} want={Proto.geomStr want} got={Proto.geomStr row.g}"]
      | none => []
    let vs := (List.zip plan row.vals).flatMap fun (pj, got) =>
      match pj with
      | none => []
      | some j => match cols[j]?, rec.2[j]? with
        | some col, some w => match checkVal col w got with
          | none => []
          | some why => [s!"{why} row={i} col={j}"]
        | _, _ => []
    let l := if row.vals.length == plan.length then [] else [s!"value-count row={i}"]
    g ++ l ++ vs
  a ++ b ++ e ++ n ++ rows

def firstDiff : Tok → Tok → Nat → String
  | a :: as, b :: bs, i => if a == b then firstDiff as bs (i + 1) else s!"token {i}: model={a} impl={b}"
  | [], [], _ => "none"
  | a :: _, [], i => s!"token {i}: model={a} impl=<end>"
  | [], b :: _, i => s!"token {i}: model=<end> impl={b}"

/-- Go's rule for embedded fields, checked on the description the harness derived by reflection -/
def embeddedNamesOK (rfs : List RField) : Bool := rfs.all fun rf => !rf.embedded || rf.name == rf.typeName

def judgeReflectLine (line : String) : String :=
  let (lhs, rhs) := splitArrow (tokens line)
  match rcaseP.run lhs with
  | none => "BAD parse-rfile"
  | some (c, _) =>
    let cls0 := s!"RS-{c.wid}-{c.rid}"
    match rhs with
    | "pin-mismatch" :: s =>
      s!"DIFF go-shp-pin the-model-transcribes-go-shp-with-another-content-hash linked={" ".intercalate s}"
    | ["desc-mismatch"] => s!"DIFF {cls0} the-line's-field-description-is-not-what-reflection-gives-for-these-types"
    | _ =>
    if !(embeddedNamesOK c.w && embeddedNamesOK c.r) then s!"DIFF {cls0} embedded-field-not-named-like-its-type" else
    let rhsN : Tok := match rhs with
      | [t] => if t.startsWith "newenc-panic" then ["newenc-panic"] else [t]
      | t => t
    let m := modelOutR c
    let same := m == rhsN
    let cols := colsOfR c.w
    let plan := match writerGK c cols with | some _ => readerPlan c cols | none => none
    match plan with
    | none => if same then s!"OK {cls0}-oob" else s!"DIFF {cls0}-oob {firstDiff m rhsN 0}"
    | some plan =>
      match implP.run rhsN with
      | none => s!"SPEC {cls0} writing-or-reading-failed-on-in-contract-input got={" ".intercalate (rhsN.take 6)}"
      | some (o, _) =>
        match (specViolations c cols plan o).head? with
        | some why => s!"SPEC {cls0} {why}"
        | none => if same then s!"OK {cls0}" else s!"DIFF {cls0} {firstDiff m rhsN 0}"

end GeomV.C16.Reflect
