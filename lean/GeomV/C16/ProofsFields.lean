import GeomV.C16.Proofs
/-!
# C16 — the field path end to end as ONE statement

`NewEncoderFromFields(fields)` / `EncodeFields(g, vals…)` / `DecodeRowFields(names…)`: the analogue of
`C16_struct_roundtrip` for user-chosen `shp.Field`s, composed with the order clause (`C16_order`) into one
whole-file equation: the complete result of the read loop is determined, row by row and value by value.
No float contract is needed on this path: the field decoder returns the TEXT of the cell, and that text is,
byte for byte, what `FormatFloat`/`Itoa` rendered (`fmtFloat_solid`: a rendering never contains a blank or a
NUL, so neither `ReadAttribute` nor the `Trim` touches it).
-/
set_option linter.unusedSimpArgs false
set_option linter.unusedVariables false
namespace GeomV.C16

/-- `shp.StringField(name, n)` (`typ = 'C'`), `shp.NumberField(name, n)` (`'N'`), `shp.FloatField(name, n, p)`
(`'F'`): the name copied into the zeroed `[11]byte` -/
def userField (name : Bytes) (typ size prec : Nat) : Field := ⟨name11 name, typ, size, prec⟩

theorem decompose_den_pos (u : UInt64) (neg : Bool) (num den : Nat) (h : decompose u = some (neg, num, den)) :
    0 < den := by
  unfold decompose at h
  simp only at h
  split at h
  · exact absurd h (by simp)
  · split at h
    · have := (Prod.mk.inj (Prod.mk.inj (Option.some.inj h)).2).2
      rw [← this]; exact Nat.two_pow_pos _
    · split at h
      · have := (Prod.mk.inj (Prod.mk.inj (Option.some.inj h)).2).2
        rw [← this]; exact Nat.one_pos
      · have := (Prod.mk.inj (Prod.mk.inj (Option.some.inj h)).2).2
        rw [← this]; exact Nat.two_pow_pos _

/-- every rendering of `FormatFloat(v, 'f', p, 64)` — finite, `NaN`, `+Inf`, `-Inf` — is non-empty and contains
neither a blank nor a NUL (for ALL bit patterns; no hypothesis) -/
theorem fmtFloat_solid (p : Nat) (u : UInt64) : fmtFloat p u ≠ [] ∧ ∀ b ∈ fmtFloat p u, b ≠ 32 ∧ b ≠ 0 := by
  unfold fmtFloat
  cases h : decompose u with
  | some t =>
    obtain ⟨neg, num, den⟩ := t
    have := C16_float_render neg num den p (decompose_den_pos u neg num den h)
    exact ⟨this.1, this.2.1⟩
  | none =>
    simp only
    split
    · exact ⟨by simp, by decide⟩
    · split
      · exact ⟨by simp, by decide⟩
      · exact ⟨by simp, by decide⟩

/-- **the float text survives the cell** (field path, no contract): whatever the double, if its rendering fits
the column then `DecodeRowFields` returns exactly the rendering -/
theorem C16_float_cell_text (p : Nat) (u : UInt64) (size : Nat) (hfit : (fmtFloat p u).length ≤ size) :
    strOf (cellOf size (fmtFloat p u)) = fmtFloat p u ∧ numText (cellOf size (fmtFloat p u)) = fmtFloat p u := by
  obtain ⟨hne, hs⟩ := fmtFloat_solid p u
  refine ⟨?_, ?_⟩
  · apply strOf_cellOf size _ hne
    · intro hb; exact (hs 32 (mem_of_head? hb)).1 rfl
    · intro hb; exact (hs 0 (mem_of_head? hb)).2 rfl
    · intro hb; exact (hs 0 (mem_of_getLast? hb)).2 rfl
    · intro hb; exact absurd rfl (hs 32 (mem_of_getLast? hb)).1
  · exact numText_cellOf size _ hne (fun b hb => hs b (mem_of_head? hb)) (fun b hb => hs b (mem_of_getLast? hb))

/-- the condition on a value for its cell to be read back as its rendering: strings as in `C16_string_iff`,
numbers always -/
def RenderOK (f : Field) : Val → Prop
  | .str s => StrOK f.size s
  | _ => True

/-- a value that fits its column and is `RenderOK` comes back from `DecodeRowFields` as its rendering:
`Itoa(i)`, `FormatFloat(v,'f',prec)`, the string itself -/
theorem strOf_render (f : Field) (v : Val) (hfit : writeAttr f v = some (render f v)) (hok : RenderOK f v) :
    strOf (cellOf f.size (render f v)) = render f v := by
  have hlen := writeAttr_fits f v hfit
  cases v with
  | int i =>
    simp only [render] at hlen ⊢
    have hs := fmtInt_solid i
    have hne := fmtInt_ne_nil i
    apply strOf_cellOf f.size _ hne
    · intro h; exact (hs 32 (mem_of_head? h)).1 rfl
    · intro h; exact (hs 0 (mem_of_head? h)).2 rfl
    · intro h; exact (hs 0 (mem_of_getLast? h)).2 rfl
    · intro h; exact absurd rfl (hs 32 (mem_of_getLast? h)).1
  | float u =>
    simp only [render] at hlen ⊢
    exact (C16_float_cell_text f.prec u f.size hlen).1
  | str s =>
    simp only [render] at hlen ⊢
    exact (C16_string f s hlen hok).2

/-! ## `DecodeRowFields` value by value -/

theorem find_map_key (g : Bytes → Bytes) : ∀ (l : List Bytes) (n : Bytes), n ∈ l →
    (l.map (fun n => (n, g n))).find? (fun p => p.1 == n) = some (n, g n)
  | [], n, h => by simp at h
  | a :: l, n, h => by
    by_cases ha : a = n
    · subst ha; simp
    · have hn : n ∈ l := by
        rcases List.mem_cons.mp h with h | h
        · exact absurd h.symm ha
        · exact h
      have hbeq : (a == n) = false := by simpa using ha
      simp only [List.map_cons, List.find?_cons, hbeq]
      exact find_map_key g l n hn

theorem rowFieldsMap_val (keys cells : List Bytes) (col : Bytes → Nat) : ∀ (names : List Bytes),
    (∀ n ∈ names, lastIdx keys (lower n) = some (col n) ∧ col n < cells.length) →
    rowFieldsMap keys cells names = .ok (names.map (fun n => (n, strOf (cells[col n]?.getD []))), false)
  | [], _ => rfl
  | n :: ns, h => by
    obtain ⟨hj, hlt⟩ := h n (by simp)
    have ih := rowFieldsMap_val keys cells col ns (fun n' hn' => h n' (by simp [hn']))
    simp [rowFieldsMap, hj, List.getElem?_eq_getElem hlt, ih]

/-- what `DecodeRowFields(names…)` hands to the caller for one row, value by value: under every requested
name the trimmed text of the column the name is matched to (also for names requested twice) -/
theorem rowFields_val {α : Type} (keys cells : List Bytes) (col : Bytes → Nat) (names : List Bytes)
    (h : ∀ n ∈ names, lastIdx keys (lower n) = some (col n) ∧ col n < cells.length) :
    rowFields (α := α) keys cells names = .ok (names.map (fun n => RVal.str (strOf (cells[col n]?.getD []))), false) := by
  simp only [rowFields, rowFieldsMap_val keys cells col names h]
  congr 2
  apply List.map_congr_left
  intro n hn
  rw [find_map_key (fun n => strOf (cells[col n]?.getD [])) names n hn]

theorem readF_go_exact {α : Type} (keys names : List Bytes) (G : Shape α → Geom α) (V : List Bytes → List (RVal α)) :
    ∀ (rows : List (Shape α × List Bytes)),
      (∀ r ∈ rows, shp2Geom r.1 = .ok (G r.1) ∧ rowFields keys r.2 names = .ok (V r.2, false)) →
      readF.go names keys rows = ⟨rows.map (fun r => RVal.geom (G r.1) :: V r.2), false, false⟩
  | [], _ => by simp [readF.go]
  | r :: rs, h => by
    obtain ⟨hg, hv⟩ := h r (by simp)
    have ih := readF_go_exact keys names G V rs (fun r' hr' => h r' (by simp [hr']))
    obtain ⟨sh, cells⟩ := r
    simp only at hg hv
    simp [readF.go, hg, hv, ih]

/-! ## the writer: rows and results -/

theorem writeAllF_exact {α : Type} (eq : Pt α → Pt α → Bool) (fields : List Field) (S : Geom α → Shape α) :
    ∀ (recs : List (Geom α × List Val)) (acc : List (Shape α × List Bytes) × List WRes),
      (∀ r ∈ recs, geom2Shp eq r.1 = .ok (S r.1) ∧ r.2.length ≤ fields.length) →
      recs.foldl (fun acc r => let x := encodeF eq fields acc.1 r.1 r.2; (x.1, acc.2 ++ [x.2])) acc
        = (acc.1 ++ recs.map (fun r => (S r.1, writeLenient fields r.2)), acc.2 ++ recs.map (fun _ => WRes.ok))
  | [], acc, _ => by simp
  | r :: rs, acc, h => by
    obtain ⟨hr, hl⟩ := h r (by simp)
    have hnot : ¬ r.2.length > fields.length := by omega
    rw [List.foldl_cons, writeAllF_exact eq fields S rs _ (fun r' hr' => h r' (by simp [hr']))]
    simp [encodeF, hr, hnot]

theorem writeLenient_cells : ∀ (fs : List Field) (vs : List Val), fs.length = vs.length →
    (∀ i (hi : i < fs.length) (hv : i < vs.length), writeAttr fs[i] vs[i] = some (render fs[i] vs[i])) →
    ∀ i (hi : i < fs.length) (hv : i < vs.length), (writeLenient fs vs)[i]? = some (cellOf fs[i].size (render fs[i] vs[i])) := by
  intro fs
  induction fs with
  | nil => intro vs _ _ i hi; exact absurd hi (by simp)
  | cons f fs ih =>
    intro vs hl h
    cases vs with
    | nil => simp at hl
    | cons v vs =>
      have h0 := h 0 (by simp) (by simp)
      simp only [List.getElem_cons_zero] at h0
      have := ih vs (by simpa using hl) (fun i hi hv => by
        have := h (i + 1) (by simp; omega) (by simp; omega)
        simpa using this)
      intro i hi hv
      cases i with
      | zero => simp [writeLenient, h0]
      | succ i => simpa [writeLenient] using this i (by simpa using hi) (by simpa using hv)

/-! ## column lookup for user-chosen fields -/

/-- the keys of a field list created with plain names are the lower-cased names -/
theorem fileKeys_user (fields : List Field) (bs : List Bytes) (hn : fields.map (·.name) = bs.map name11)
    (hp : ∀ b ∈ bs, Plain b) : fileKeys fields = bs.map lower := by
  unfold fileKeys
  have : fields.map (fun f => lower (fieldNameString f.name)) = (fields.map (·.name)).map (fun n => lower (fieldNameString n)) := by
    simp [List.map_map, Function.comp_def]
  rw [this, hn, List.map_map]
  apply List.map_congr_left
  intro b hb
  simp only [Function.comp, C16_name_roundtrip b (hp b hb)]

/-- a requested name that equals column `j`'s name up to case is served from column `j` when the lower-cased
column names are pairwise distinct -/
theorem lastIdx_user (bs : List Bytes)
    (hd : ∀ a b (ha : a < bs.length) (hb : b < bs.length), lower bs[a] = lower bs[b] → a = b)
    (n : Bytes) (j : Nat) (hj : j < bs.length) (hnj : lower n = lower bs[j]) :
    lastIdx (bs.map lower) (lower n) = some j := by
  rw [lastIdx_spec]
  refine ⟨by simp [List.getElem?_eq_getElem hj, hnj], ?_⟩
  intro c' hc' heq
  rcases Nat.lt_or_ge c' bs.length with hlt | hge
  · simp [List.getElem?_eq_getElem hlt] at heq
    have := hd c' j hlt hj (by rw [heq, hnj])
    omega
  · simp [List.getElem?_eq_none (by simpa using hge)] at heq

/-- **C16_fields_roundtrip** (the field path end to end, ONE statement: "records written through the
field-based Encoder and read back through the Decoder come back in the same order and number …; integer
attributes are equal, NUL-free strings … are equal and floats agree to 10 decimal places", with names matched
case-insensitively). Take ANY field list created by `StringField/NumberField/FloatField` with plain names `bs`
(1–11 bytes, NUL-free, no white space at the ends) whose lower-cased forms are pairwise distinct, any sequence
of records with a supported geometry and exactly one value per column, each value fitting its column
(`writeAttr … = some (render …)`, decidable) and, for strings, satisfying the exact survival condition `StrOK`,
and ANY list of requested names (subset, permutation, duplicates, none), each equal up to case to the name of
column `col n`. Then every `EncodeFields` call returns no error, and the read loop
`for { g, m, more := d.DecodeRowFields(names…) }` returns — with no panic and no recorded error — EXACTLY
one row per record, in call order: the geometry's normal form (`Spec.normal`) and under each requested name the
rendering of that record's value in the matched column: the string itself, `Itoa(i)` for an integer, and
`FormatFloat(v,'f',prec,64)` for a float (whose decimal value lies within ½·10^-prec of `v`: `C16_float_render`). -/
theorem C16_fields_roundtrip {α : Type} (eq : Pt α → Pt α → Bool) (t : Nat) (fields : List Field) (bs : List Bytes)
    (hn : fields.map (·.name) = bs.map name11) (hp : ∀ b ∈ bs, Plain b)
    (hd : ∀ a b (ha : a < bs.length) (hb : b < bs.length), lower bs[a] = lower bs[b] → a = b)
    (recs : List (Geom α × List Val)) (N : Geom α → Geom α)
    (hsup : ∀ r ∈ recs, Spec.normal eq r.1 = some (N r.1))
    (hl : ∀ r ∈ recs, fields.length = r.2.length)
    (hfit : ∀ r ∈ recs, ∀ i (hi : i < fields.length) (hv : i < r.2.length),
      writeAttr fields[i] r.2[i] = some (render fields[i] r.2[i]) ∧ RenderOK fields[i] r.2[i])
    (names : List Bytes) (col : Bytes → Nat)
    (hnames : ∀ n ∈ names, ∃ (h : col n < bs.length), lower n = lower bs[col n]) :
    (writeAllF eq fields recs).2 = recs.map (fun _ => WRes.ok) ∧
    readF ⟨t, fields, (writeAllF eq fields recs).1⟩ names =
      ⟨recs.map (fun r => RVal.geom (N r.1) ::
          names.map (fun n => match fields[col n]?, r.2[col n]? with
            | some f, some v => RVal.str (render f v)
            | _, _ => RVal.missing)), false, false⟩ := by
  have hlen : fields.length = bs.length := by
    have := congrArg List.length hn
    simpa using this
  have hconv : ∀ r ∈ recs, ∃ sh, geom2Shp eq r.1 = .ok sh ∧ shp2Geom sh = .ok (N r.1) := by
    intro r hr
    have := C16_geom eq r.1 (N r.1) (hsup r hr)
    cases hg : geom2Shp eq r.1 with
    | error f => simp [hg, bind, Except.bind] at this
    | ok sh => exact ⟨sh, rfl, by simpa [hg, bind, Except.bind] using this⟩
  let S : Geom α → Shape α := fun g => match geom2Shp eq g with | .ok sh => sh | .error _ => .null
  have hS : ∀ r ∈ recs, geom2Shp eq r.1 = .ok (S r.1) := by
    intro r hr; obtain ⟨sh, h1, _⟩ := hconv r hr; simp [S, h1]
  let G : Shape α → Geom α := fun sh => match shp2Geom sh with | .ok g => g | .error _ => .nil
  have hw := writeAllF_exact eq fields S recs ([], []) (fun r hr => ⟨hS r hr, by rw [hl r hr]; exact Nat.le_refl _⟩)
  simp only [List.nil_append] at hw
  have hw' : writeAllF eq fields recs = (recs.map (fun r => (S r.1, writeLenient fields r.2)), recs.map (fun _ => WRes.ok)) := hw
  refine ⟨by rw [hw'], ?_⟩
  rw [hw']
  have hkeys := fileKeys_user fields bs hn hp
  let V : List Bytes → List (RVal α) := fun cells => names.map (fun n => RVal.str (strOf (cells[col n]?.getD [])))
  have hread := readF_go_exact (fileKeys fields) names G V (recs.map (fun r => (S r.1, writeLenient fields r.2))) (by
    intro r hr
    obtain ⟨r0, hr0, rfl⟩ := List.mem_map.mp hr
    obtain ⟨sh, h1, h2⟩ := hconv r0 hr0
    have hs : S r0.1 = sh := by simp [S, h1]
    refine ⟨by simp [hs, h2, G], ?_⟩
    apply rowFields_val
    intro n hnn
    obtain ⟨hc, hlow⟩ := hnames n hnn
    refine ⟨?_, by rw [writeLenient_length]; omega⟩
    rw [hkeys]
    exact lastIdx_user bs hd n (col n) hc hlow)
  show readF.go names (fileKeys fields) _ = _
  rw [hread, List.map_map]
  congr 1
  apply List.map_congr_left
  intro r hr
  obtain ⟨sh, h1, h2⟩ := hconv r hr
  have hs : S r.1 = sh := by simp [S, h1]
  simp only [Function.comp, hs, G, h2, V]
  congr 1
  apply List.map_congr_left
  intro n hnn
  obtain ⟨hc, hlow⟩ := hnames n hnn
  have hi : col n < fields.length := by omega
  have hv : col n < r.2.length := by rw [← hl r hr]; exact hi
  obtain ⟨hfit1, hok1⟩ := hfit r hr (col n) hi hv
  have hcell := writeLenient_cells fields r.2 (hl r hr) (fun i hi hv => (hfit r hr i hi hv).1) (col n) hi hv
  rw [hcell, List.getElem?_eq_getElem hi, List.getElem?_eq_getElem hv]
  simp only [Option.getD_some]
  rw [strOf_render _ _ hfit1 hok1]

/-- non-vacuity of the hypotheses: two columns `Name` (C, 5) / `VAL` (N, 6) with plain names and distinct keys, records
`("a b", -42)` and `("", 0)` fit and are `RenderOK`, requested names `val`, `NAME`, `val` match columns 1, 0, 1 -/
example :
    (Plain [78, 97, 109, 101] ∧ Plain [86, 65, 76]) ∧ lower [78, 97, 109, 101] ≠ lower [86, 65, 76] ∧
    (∀ v ∈ [Val.str [97, 32, 98], Val.str []], writeAttr (userField [78, 97, 109, 101] 67 5 0) v = some (render (userField [78, 97, 109, 101] 67 5 0) v)) ∧
    RenderOK (userField [78, 97, 109, 101] 67 5 0) (.str [97, 32, 98]) ∧ RenderOK (userField [78, 97, 109, 101] 67 5 0) (.str []) ∧
    (∀ v ∈ [Val.int (-42), Val.int 0], writeAttr (userField [86, 65, 76] 78 6 0) v = some (render (userField [86, 65, 76] 78 6 0) v)) ∧
    lower [118, 97, 108] = lower [86, 65, 76] ∧ lower [78, 65, 77, 69] = lower [78, 97, 109, 101] := by
  refine ⟨⟨⟨by decide, by decide, by decide, ?_, ?_⟩, ⟨by decide, by decide, by decide, ?_, ?_⟩⟩, by decide, by decide +kernel, ?_, ?_,
    by decide +kernel, by decide, by decide⟩
  · intro x hx; simp at hx; subst hx; decide
  · intro x hx; simp at hx; subst hx; decide
  · intro x hx; simp at hx; subst hx; decide
  · intro x hx; simp at hx; subst hx; decide
  · right; simp [userField]
  · left; rfl

end GeomV.C16
