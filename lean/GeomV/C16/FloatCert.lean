import GeomV.C16.Model
import GeomV.C16.Spec
/-!
# C16 — per-cell certificate for the float clause ("floats agree to 10 decimal places")

`Proofs.C16_float` is stated under the hypothesis `FloatFmt fmt parse close` (a contract on the pair
`strconv.FormatFloat(·,'f',p,64)` / `strconv.ParseFloat`).  Here the universally quantified hypothesis is
replaced by a *decidable certificate per written value*: the judge evaluates `floatCellCert p u` for every
float `u` it sees written to a column of precision `p`; `FloatCertProofs.C16_float_cert` proves that a
passed certificate gives the conclusion of `C16_float` for that value.  Core Lean only (linked into the
driver).
-/
namespace GeomV.C16
open GeomV

/-- "agree to `p` decimals" on bit patterns: NaN with NaN, an infinity with itself, finite values by exact
rational distance -/
def closeBits (p : Nat) (u y : UInt64) : Bool :=
  match bitsToRat u, bitsToRat y with
  | some a, some b => Spec.floatClose p a b
  | none, none => (isNaNBits u && isNaNBits y) || (!isNaNBits u && u == y)
  | _, _ => false

/-- the per-cell certificate the judge evaluates for every float it sees written: the rendering is
non-empty, has no blank and no NUL byte, is read back by the parser, and the value read is close -/
def floatCellCert (p : Nat) (u : UInt64) : Bool :=
  let t := fmtFloat p u
  !t.isEmpty && t.all (fun b => b != 32 && b != 0) &&
    (match parseFloat t with
     | some y => closeBits p u y
     | none => false)

end GeomV.C16
