import GeomV.C16.Model
import GeomV.C16.Spec
namespace GeomV.C16
end GeomV.C16
