import GeomV.C16.Lemmas
/-!
# C16 — property theorems

Property: "Records written through the shapefile Encoder (struct-based or field-based) and read back through
the Decoder come back in the same order and number, with bit-identical coordinates: points, multi-points,
(multi-)line strings part by part, polygons ring by ring with vertex order preserved and unclosed rings
closed, boxes as five-vertex rectangles; integer attributes are equal, NUL-free strings up to 50 bytes are
equal and floats agree to 10 decimal places, matched to struct fields by tag or name case-insensitively."

All theorems are about the model (`Model.lean`, tied to the Go source by the correspondence run) and
quantify over all coordinate types, geometries, part/ring counts, record sequences and attribute values.
The `.shp/.shx/.dbf` container of go-shp is the model's `FileM` (an ordered list of rows): PARTIAL with
respect to go-shp's byte layout, which is exercised by the correspondence run only.
-/
set_option linter.unusedSimpArgs false
set_option linter.unusedVariables false
namespace GeomV.C16
open GeomV

/-! ## geometry -/

/-- **getStartEnd_partition** (clause "(multi-)line strings part by part, polygons ring by ring"):
the `Parts` array that go-shp's `NewPolyLine` builds (running offsets) together with `getStartEnd` cuts the
flattened point array back into exactly the original parts — for any number of parts, empty parts
(also leading, trailing and consecutive ones) included; no index fault occurs. -/
theorem getStartEnd_partition {α : Type} (ps : List (List (Pt α))) :
    cutParts (newPolyLine ps).1 (newPolyLine ps).2 = .ok ps :=
  cutParts_newPolyLine ps

/-- **C16_geom** (clauses "bit-identical coordinates: points, multi-points, (multi-)line strings part by
part, polygons ring by ring with vertex order preserved and unclosed rings closed, boxes as five-vertex
rectangles"): for every geometry `g` of a supported type, converting to a go-shp shape and back yields
exactly `Spec.normal g` — coordinates are carried as values of an arbitrary type `α`, untouched, so
"bit-identical" holds for every bit pattern (NaN payloads, signed zeros). -/
theorem C16_geom {α : Type} (eq : Pt α → Pt α → Bool) (g n : Geom α) (h : Spec.normal eq g = some n) :
    (geom2Shp eq g >>= shp2Geom) = .ok n := by
  cases g with
  | point p => simp [Spec.normal] at h; subst h; rfl
  | multiPoint ps => simp [Spec.normal] at h; subst h; rfl
  | lineString l =>
    simp [Spec.normal] at h; subst h
    have := cutParts_newPolyLine [l]
    simp only [geom2Shp, newPolyLine, bind, Except.bind, shp2Geom, this, Functor.map, Except.map]
  | multiLineString ls =>
    simp [Spec.normal] at h; subst h
    have := cutParts_newPolyLine ls
    simp only [geom2Shp, newPolyLine, bind, Except.bind, shp2Geom, this, Functor.map, Except.map]
  | polygon rs =>
    simp [Spec.normal] at h; subst h
    have := cutParts_newPolyLine (rs.map (closeRing eq))
    have hc : rs.map (closeRing eq) = rs.map (Spec.closed eq) :=
      List.map_congr_left (fun r _ => closeRing_eq_closed eq r)
    rw [hc] at this
    simp only [geom2Shp, newPolyLine, bind, Except.bind, shp2Geom, this, Functor.map, Except.map, hc]
  | multiPolygon ps => simp [Spec.normal] at h
  | collection gs => simp [Spec.normal] at h
  | bounds mn mx =>
    simp [Spec.normal] at h; subst h
    have := cutParts_newPolyLine [rect mn mx]
    simp only [rect] at this
    simp only [geom2Shp, newPolyLine, bind, Except.bind, shp2Geom, this, Functor.map, Except.map, rect]
  | nil => simp [Spec.normal] at h; subst h; rfl

/-- unsupported geometry types are rejected by the encoder, not mangled -/
theorem C16_geom_unsupported {α : Type} (eq : Pt α → Pt α → Bool) (g : Geom α) (h : Spec.normal eq g = none) :
    geom2Shp eq g = .error .unsupported := by
  cases g <;> simp [Spec.normal] at h <;> rfl

/-- non-vacuity: an unclosed ring followed by an empty ring and a closed ring (integers as coordinates) -/
example : (geom2Shp (fun (a b : Pt Nat) => a == b) (.polygon [[⟨0,0⟩,⟨1,0⟩,⟨1,1⟩], [], [⟨5,5⟩,⟨6,5⟩,⟨5,5⟩]]) >>= shp2Geom)
    = .ok (.polygon [[⟨0,0⟩,⟨1,0⟩,⟨1,1⟩,⟨0,0⟩], [], [⟨5,5⟩,⟨6,5⟩,⟨5,5⟩]]) :=
  C16_geom _ _ _ (by simp [Spec.normal, Spec.closed, Spec.ringClosed])

/-! ## attribute cells -/

/-- **C16_int** (clause "integer attributes are equal"): for every Go `int` `i` whose `Itoa` rendering fits
the column (`size` characters; 10 for `NewEncoder`), `WriteAttribute` stores it, the struct decoder
(`ReadAttribute`, `Trim("\x00 ")`, `ParseInt`) returns exactly `i`, and the field-based decoder
(`DecodeRowFields`) returns exactly the text `Itoa(i)`. -/
theorem C16_int (f : Field) (i : Int) (h1 : -(2 ^ 63 : Int) ≤ i) (h2 : i < 2 ^ 63)
    (hfit : (fmtInt i).length ≤ f.size) :
    writeAttr f (.int i) = some (fmtInt i) ∧
    parseInt (numText (cellOf f.size (fmtInt i))) = some i ∧
    strOf (cellOf f.size (fmtInt i)) = fmtInt i := by
  have hs := fmtInt_solid i
  have hne := fmtInt_ne_nil i
  refine ⟨?_, ?_, ?_⟩
  · simp only [writeAttr, render]
    have : ¬ (fmtInt i).length > f.size := by omega
    simp [this]
  · rw [numText_cellOf f.size _ hne (fun x hx => hs x (mem_of_head? hx)) (fun x hx => hs x (mem_of_getLast? hx))]
    exact parseInt_fmtInt i h1 h2
  · apply strOf_cellOf f.size _ hne
    · intro h; exact (hs 32 (mem_of_head? h)).1 rfl
    · intro h; exact (hs 0 (mem_of_head? h)).2 rfl
    · intro h; exact (hs 0 (mem_of_getLast? h)).2 rfl
    · intro h; exact absurd rfl (hs 32 (mem_of_getLast? h)).1

/-- the width condition of `C16_int` in numbers: `|i|` fitting 10 characters -/
theorem C16_int_width (i : Int) (h1 : -999999999 ≤ i) (h2 : i ≤ 9999999999) : (fmtInt i).length ≤ 10 := by
  unfold fmtInt
  split
  · have : i.natAbs < 10 ^ 9 := by omega
    have := natDigits_length_le 8 _ this
    simp; omega
  · have : i.natAbs < 10 ^ 10 := by omega
    exact natDigits_length_le 9 _ this

/-- non-vacuity and sharpness: ±999 999 999 and the largest 10-digit value are stored; an 11-character
value is refused -/
example : writeAttr ⟨[], 78, 10, 0⟩ (.int (-999999999)) = some (fmtInt (-999999999)) ∧
    writeAttr ⟨[], 78, 10, 0⟩ (.int 9999999999) = some (fmtInt 9999999999) ∧
    writeAttr ⟨[], 78, 10, 0⟩ (.int (-1234567890)) = none ∧ writeAttr ⟨[], 78, 10, 0⟩ (.int 10000000000) = none := by
  decide +kernel

/-- the exact condition on a string for surviving a cell of `size` bytes -/
def StrOK (size : Nat) (s : Bytes) : Prop :=
  s = [] ∨ (s.head? ≠ some 32 ∧ s.head? ≠ some 0 ∧ s.getLast? ≠ some 0 ∧ (s.getLast? = some 32 → s.length < size))

/-- **C16_string** (clause "NUL-free strings up to 50 bytes are equal"): a string of at most `size` bytes
(50 for `NewEncoder`) is stored, and is read back unchanged by both decoders PROVIDED it does not start
with a blank or NUL, does not end with NUL, and does not end with a blank when it fills the cell
completely — the condition `Trim` forces. Interior NULs and blanks, and trailing blanks of shorter
strings, survive. The condition is exact clause by clause: see the witnesses below
(`C16_string_violations`), which is why the statement as written ("NUL-free strings up to 50 bytes are
equal") is recorded as a known finding for leading blanks and full-width trailing blanks. -/
theorem C16_string (f : Field) (s : Bytes) (hlen : s.length ≤ f.size) (hok : StrOK f.size s) :
    writeAttr f (.str s) = some s ∧ strOf (cellOf f.size s) = s := by
  refine ⟨?_, ?_⟩
  · simp only [writeAttr, render]
    have : ¬ s.length > f.size := by omega
    simp [this]
  · by_cases hne : s = []
    · subst hne; exact strOf_blank f.size
    · rcases hok with h | ⟨a, b, c, d⟩
      · exact absurd h hne
      · exact strOf_cellOf f.size s hne a b c d

/-- the clauses of `StrOK` cannot be dropped (model-level negation of the statement as written, concrete
witnesses in a 5-byte column): a leading blank is lost, a blank at the very end of a full cell is lost,
leading/trailing NULs are lost; a trailing blank of a shorter string and interior NUL/blank survive. -/
theorem C16_string_violations :
    strOf (cellOf 5 [32, 97]) = [97] ∧                          -- " a"      ↦ "a"
    strOf (cellOf 5 [97, 98, 99, 100, 32]) = [97, 98, 99, 100] ∧  -- "abcd "   ↦ "abcd"   (full width)
    strOf (cellOf 5 [97, 32]) = [97, 32] ∧                       -- "a "      ↦ "a "     (shorter: kept)
    strOf (cellOf 5 [0, 97]) = [97] ∧ strOf (cellOf 5 [97, 0]) = [97] ∧
    strOf (cellOf 5 [97, 0, 32, 98]) = [97, 0, 32, 98] ∧
    strOf (cellOf 5 [32, 32]) = [] := by
  decide

/-! ## floats -/

/-- the contract on a float rendering/parsing pair (Go: `FormatFloat(·,'f',prec,64)` / `ParseFloat`):
the text is never empty, contains no blank and no NUL, and parsing it gives a value `close` to the
original (`|parse (fmt x) − x| ≤ ½·10⁻ᵖ` for the exact decimal, `≤ 10⁻ᵖ` after rounding to the nearest
double, see notes) -/
structure FloatFmt {X : Type} (fmt : X → Bytes) (parse : Bytes → Option X) (close : X → X → Prop) : Prop where
  nonempty : ∀ x, fmt x ≠ []
  solid : ∀ x, ∀ b ∈ fmt x, b ≠ 32 ∧ b ≠ 0
  roundtrip : ∀ x, ∃ y, parse (fmt x) = some y ∧ close x y

/-- **C16_float** (clause "floats agree to 10 decimal places"): under the rendering contract, a float
whose rendering fits the column is handed to the parser byte for byte (`ReadAttribute` and both `Trim`s
do not touch it), so the struct decoder returns a value `close` to the one written and the field-based
decoder returns exactly the rendering. -/
theorem C16_float {X : Type} {fmt : X → Bytes} {parse : Bytes → Option X} {close : X → X → Prop}
    (h : FloatFmt fmt parse close) (x : X) (size : Nat) (hfit : (fmt x).length ≤ size) :
    (∃ y, parse (numText (cellOf size (fmt x))) = some y ∧ close x y) ∧
    strOf (cellOf size (fmt x)) = fmt x := by
  have hs := h.solid x
  have hne := h.nonempty x
  refine ⟨?_, ?_⟩
  · rw [numText_cellOf size _ hne (fun b hb => hs b (mem_of_head? hb)) (fun b hb => hs b (mem_of_getLast? hb))]
    exact h.roundtrip x
  · apply strOf_cellOf size _ hne
    · intro hb; exact (hs 32 (mem_of_head? hb)).1 rfl
    · intro hb; exact (hs 0 (mem_of_head? hb)).2 rfl
    · intro hb; exact (hs 0 (mem_of_getLast? hb)).2 rfl
    · intro hb; exact absurd rfl (hs 32 (mem_of_getLast? hb)).1

theorem natDigits_solid (n : Nat) : ∀ b ∈ natDigits n, b ≠ 32 ∧ b ≠ 0 := by
  intro b hb
  have := digit_facts b (natDigits_all n b hb)
  exact ⟨this.2.2.1, this.2.2.2.1⟩

/-- **C16_float_render** (the model's `FormatFloat(·,'f',prec)` satisfies the first two clauses of the
contract, and the number it prints is the nearest multiple of `10^-prec`): for a finite value `±num/den`
the text is non-empty and free of blanks and NULs, and the printed integer `N = fixedN num den prec`
satisfies `|N/10^prec − num/den| ≤ ½·10^-prec`, stated without division:
`|2·N·den − 2·num·10^prec| ≤ den`. -/
theorem C16_float_render (neg : Bool) (num den prec : Nat) (hden : 0 < den) :
    fmtFixed neg num den prec ≠ [] ∧ (∀ b ∈ fmtFixed neg num den prec, b ≠ 32 ∧ b ≠ 0) ∧
    2 * fixedN num den prec * den ≤ 2 * (num * 10 ^ prec) + den ∧
    2 * (num * 10 ^ prec) ≤ 2 * fixedN num den prec * den + den := by
  have hsolid : ∀ b ∈ fmtFixed neg num den prec, b ≠ 32 ∧ b ≠ 0 := by
    intro b hb
    unfold fmtFixed at hb
    simp only at hb
    have hbody : ∀ b ∈ (if prec = 0 then natDigits (fixedN num den prec / 10 ^ prec)
        else natDigits (fixedN num den prec / 10 ^ prec) ++ 46 :: padLeft prec (natDigits (fixedN num den prec % 10 ^ prec))),
        b ≠ 32 ∧ b ≠ 0 := by
      intro b hb
      split at hb
      · exact natDigits_solid _ b hb
      · rcases List.mem_append.mp hb with hb | hb
        · exact natDigits_solid _ b hb
        · rcases List.mem_cons.mp hb with rfl | hb
          · decide
          · unfold padLeft at hb
            rcases List.mem_append.mp hb with hb | hb
            · simp [List.mem_replicate] at hb; obtain ⟨_, rfl⟩ := hb; decide
            · exact natDigits_solid _ b hb
    split at hb
    · rcases List.mem_cons.mp hb with rfl | hb
      · decide
      · exact hbody b hb
    · exact hbody b hb
  refine ⟨?_, hsolid, ?_⟩
  · unfold fmtFixed
    simp only
    split
    · simp
    · split
      · exact natDigits_ne_nil _
      · simp
  · unfold fixedN roundHalfEven
    have hdm := Nat.div_add_mod (num * 10 ^ prec) den
    have hlt := Nat.mod_lt (num * 10 ^ prec) hden
    generalize num * 10 ^ prec = a at *
    generalize hq : a / den = q at *
    generalize hr : a % den = r at *
    have e : (q + 1) * den = den * q + den := by rw [Nat.add_mul, Nat.one_mul, Nat.mul_comm]
    have e2 : q * den = den * q := Nat.mul_comm _ _
    simp only
    split
    · rw [Nat.mul_assoc, e]; omega
    · rw [Nat.mul_assoc, e2]; omega

/-- non-vacuity / sharpness of the width condition on the model's renderer: `1e18` fits 30 characters,
`-1e18` and `1e19` do not; a tie at the 10th decimal goes to the even digit (`2^-11 = 0.00048828125`) -/
example : (fmtFixed false (10 ^ 18) 1 10).length = 30 ∧ (fmtFixed true (10 ^ 18) 1 10).length = 31 ∧
    (fmtFixed false (10 ^ 19) 1 10).length = 31 ∧
    fmtFixed false 1 2048 10 = [48, 46, 48, 48, 48, 52, 56, 56, 50, 56, 49, 50] := by
  decide +kernel

/-! ## field matching -/

theorem IsLast_unique {keys : List Bytes} {k : Bytes} {c j : Nat} (hc : IsLast keys k c) (hj : IsLast keys k j) : c = j := by
  rcases Nat.lt_trichotomy c j with h | h | h
  · exact absurd hj.1 (hc.2 j h)
  · exact h
  · exact absurd hc.1 (hj.2 c h)

/-- **C16_match** (clause "matched to struct fields by tag or name case-insensitively", `DecodeRow`):
with `keys` the lower-cased, trimmed column names of the file in column order, a struct field receives
column `c` iff `c` is the (last) column whose key equals the field's lower-cased `shp` tag, or — when no
column carries the tag — the (last) column whose key equals the lower-cased field name. A geometry field
never takes part (it is tested first in `decodeField`). Every matched attribute field is ASSIGNED on every
row (`C16_assigned` below), so nothing of an earlier row survives in a reused record variable. -/
theorem C16_match (keys : List Bytes) (sf : SField) (c : Nat) :
    matchField keys sf = some c ↔
      IsLast keys (lower sf.tag) c ∨
      ((∀ j : Nat, keys[j]? ≠ some (lower sf.tag)) ∧ IsLast keys (lower sf.name) c) := by
  unfold matchField
  cases h : lastIdx keys (lower sf.tag) with
  | some j =>
    have hj := (lastIdx_spec _ _ _).mp h
    simp only [Option.some.injEq]
    constructor
    · rintro rfl; exact Or.inl hj
    · rintro (hc | ⟨hno, _⟩)
      · exact IsLast_unique hj hc
      · exact absurd hj.1 (hno j)
  | none =>
    have hno := (lastIdx_none _ _).mp h
    simp only
    rw [lastIdx_spec]
    constructor
    · intro hc; exact Or.inr ⟨hno, hc⟩
    · rintro (hc | ⟨_, hc⟩)
      · exact absurd hc.1 (hno c)
      · exact hc

/-- **C16_assigned** (clauses "strings are equal / integer attributes are equal", reused record variable):
when a column matches a string field, the value after `DecodeRow` is the cell's text whatever the field
held before (`prev`) — in particular the empty string comes back as the empty string — and a numeric
field whose cell parses is overwritten likewise. -/
theorem C16_assigned {α : Type} (keys : List Bytes) (g : Geom α) (cells : List Bytes) (sf : SField) (j : Nat) (cell : Bytes)
    (prev : RVal α) (hm : matchField keys sf = some j) (hc : cells[j]? = some cell) :
    (sf.kind = .str → decodeField keys g cells sf prev = .ok (.str (strOf cell), false)) ∧
    (∀ i, sf.kind = .int → parseInt (numText cell) = some i → decodeField keys g cells sf prev = .ok (.int i, false)) ∧
    (∀ u, sf.kind = .float → parseFloat (numText cell) = some u → decodeField keys g cells sf prev = .ok (.float u, false)) := by
  refine ⟨?_, ?_, ?_⟩
  · intro hk; simp [decodeField, hk, hm, hc]
  · intro i hk hp; simp [decodeField, hk, hm, hc, hp]
  · intro u hk hp; simp [decodeField, hk, hm, hc, hp]

/-- a struct field stays untouched iff neither its tag nor its name is a column key -/
theorem C16_match_none (keys : List Bytes) (sf : SField) :
    matchField keys sf = none ↔
      (∀ j : Nat, keys[j]? ≠ some (lower sf.tag)) ∧ (∀ j : Nat, keys[j]? ≠ some (lower sf.name)) := by
  unfold matchField
  cases h : lastIdx keys (lower sf.tag) with
  | some j =>
    have hj := (lastIdx_spec _ _ _).mp h
    simp only [reduceCtorEq, false_iff, not_and]
    intro hno; exact absurd hj.1 (hno j)
  | none =>
    have hno := (lastIdx_none _ _).mp h
    simp only
    rw [lastIdx_none]
    exact ⟨fun h2 => ⟨hno, h2⟩, fun h2 => h2.2⟩

/-- **C16_match_fields** (same clause, `DecodeRowFields`): a requested name is served from the (last)
column whose key equals the lower-cased name, and is an error iff there is none -/
theorem C16_match_fields (keys : List Bytes) (n : Bytes) :
    (∀ c, lastIdx keys (lower n) = some c ↔ IsLast keys (lower n) c) ∧
    (lastIdx keys (lower n) = none ↔ ∀ j : Nat, keys[j]? ≠ some (lower n)) :=
  ⟨fun c => lastIdx_spec _ _ c, lastIdx_none _ _⟩

/-- non-vacuity: tag beats name, matching is case-insensitive, the last of two equal keys wins -/
example :
    let keys := fileKeys [⟨name11 [97], 78, 10, 0⟩, ⟨name11 [66], 78, 10, 0⟩, ⟨name11 [65, 32], 78, 10, 0⟩]   -- "a", "B", "A "
    matchField keys ⟨[66], [65], .int⟩ = some 2 ∧       -- field B with tag "A": the tag decides, last "a" column
    matchField keys ⟨[66], [], .int⟩ = some 1 ∧         -- field B without tag
    matchField keys ⟨[67], [], .int⟩ = none := by
  decide

/-! ## order and number of records -/

section order
variable {α : Type}

theorem blankRow_length (fs : List Field) : (blankRow fs).length = fs.length := by simp [blankRow]

theorem writeLenient_length : ∀ (fs : List Field) (vs : List Val), (writeLenient fs vs).length = fs.length
  | [], vs => by cases vs <;> simp [writeLenient, blankRow]
  | f :: fs, [] => by simp [writeLenient, blankRow]
  | f :: fs, v :: vs => by simp [writeLenient, writeLenient_length fs vs]

theorem writeStrict_length : ∀ (fs : List Field) (vs : List Val), (writeStrict fs vs).1.length = fs.length
  | [], vs => by cases vs <;> simp [writeStrict, blankRow]
  | f :: fs, [] => by simp [writeStrict, blankRow]
  | f :: fs, v :: vs => by
    simp only [writeStrict]
    split
    · simp [blankRow]
    · simp [writeStrict_length fs vs]

/-- the rows after a sequence of `EncodeFields` calls: one row per call, in call order -/
theorem writeAllF_rows (eq : Pt α → Pt α → Bool) (fields : List Field) (S : Geom α → Shape α) :
    ∀ (recs : List (Geom α × List Val)) (acc : List (Shape α × List Bytes) × List WRes),
      (∀ r ∈ recs, geom2Shp eq r.1 = .ok (S r.1)) →
      (recs.foldl (fun acc r => let x := encodeF eq fields acc.1 r.1 r.2; (x.1, acc.2 ++ [x.2])) acc).1
        = acc.1 ++ recs.map (fun r => (S r.1, writeLenient fields r.2)) := by
  intro recs
  induction recs with
  | nil => intro acc _; simp
  | cons r rs ih =>
    intro acc h
    have hr := h r (by simp)
    rw [List.foldl_cons, ih _ (fun r' hr' => h r' (by simp [hr']))]
    simp [encodeF, hr]

/-- the rows after a sequence of `Encode` calls (after fix d0dd046): one row per call, in call order,
whether or not an attribute was refused -/
theorem writeAllS_rows (eq : Pt α → Pt α → Bool) (e : EncS) (S : Geom α → Shape α) :
    ∀ (recs : List (Geom α × List Val)) (acc : List (Shape α × List Bytes) × List WRes),
      (∀ r ∈ recs, fieldShape eq e.geomKind r.1 = .ok (S r.1)) →
      (recs.foldl (fun acc r => let x := encodeS eq e acc.1 r.1 r.2; (x.1, acc.2 ++ [x.2])) acc).1
        = acc.1 ++ recs.map (fun r => (S r.1, (writeStrict e.fields r.2).1)) := by
  intro recs
  induction recs with
  | nil => intro acc _; simp
  | cons r rs ih =>
    intro acc h
    have hr := h r (by simp)
    rw [List.foldl_cons, ih _ (fun r' hr' => h r' (by simp [hr']))]
    simp [encodeS, hr]

theorem rowFieldsMap_ok (keys : List Bytes) (cells : List Bytes) : ∀ (names : List Bytes),
    (∀ n ∈ names, ∃ j, lastIdx keys (lower n) = some j ∧ j < cells.length) →
    ∃ m, rowFieldsMap keys cells names = .ok (m, false) := by
  intro names
  induction names with
  | nil => intro _; exact ⟨[], rfl⟩
  | cons n ns ih =>
    intro h
    obtain ⟨j, hj, hlt⟩ := h n (by simp)
    obtain ⟨m, hm⟩ := ih (fun n' hn' => h n' (by simp [hn']))
    refine ⟨(n, strOf cells[j]) :: m, ?_⟩
    simp [rowFieldsMap, hj, List.getElem?_eq_getElem hlt, hm]

theorem rowFields_ok (keys : List Bytes) (cells : List Bytes) (names : List Bytes)
    (h : ∀ n ∈ names, ∃ j, lastIdx keys (lower n) = some j ∧ j < cells.length) :
    ∃ vs : List (RVal α), rowFields keys cells names = .ok (vs, false) := by
  obtain ⟨m, hm⟩ := rowFieldsMap_ok keys cells names h
  simp only [rowFields, hm]
  exact ⟨_, rfl⟩

/-- `DecodeRowFields` over a whole file: every row is returned, in file order, when each shape converts
and each requested name is a column -/
theorem readF_rows (keys names : List Bytes) (G : Shape α → Geom α) :
    ∀ (rows : List (Shape α × List Bytes)),
      (∀ r ∈ rows, shp2Geom r.1 = .ok (G r.1) ∧ ∃ vs : List (RVal α), rowFields keys r.2 names = .ok (vs, false)) →
      (readF.go names keys rows).panicked = false ∧ (readF.go names keys rows).err = false ∧
      (readF.go names keys rows).rows.map List.head? = rows.map (fun r => some (RVal.geom (G r.1))) := by
  intro rows
  induction rows with
  | nil => intro _; simp [readF.go]
  | cons r rs ih =>
    intro h
    obtain ⟨hg, vs, hvs⟩ := h r (by simp)
    have := ih (fun r' hr' => h r' (by simp [hr']))
    obtain ⟨sh, cells⟩ := r
    simp only at hg hvs
    simp [readF.go, hg, hvs, this]

/-- **C16_order** (clause "come back in the same order and number", field-based path; the geometry of
row `i` is `Spec.normal` of the `i`-th written geometry): `n` records written with `EncodeFields` are
`n` rows of the file in call order, and `DecodeRowFields` returns `n` rows in that order with no panic
and no error, provided every geometry is of a supported type and every requested name is a column.
The file is the model's ordered row store (go-shp's byte layout: external contract). -/
theorem C16_order (eq : Pt α → Pt α → Bool) (t : Nat) (fields : List Field) (names : List Bytes)
    (recs : List (Geom α × List Val)) (N : Geom α → Geom α)
    (hsup : ∀ r ∈ recs, Spec.normal eq r.1 = some (N r.1))
    (hnames : ∀ n ∈ names, ∃ j, lastIdx (fileKeys fields) (lower n) = some j) :
    let rd := readF ⟨t, fields, (writeAllF eq fields recs).1⟩ names
    rd.panicked = false ∧ rd.err = false ∧ rd.rows.length = recs.length ∧
    rd.rows.map List.head? = recs.map (fun r => some (RVal.geom (N r.1))) := by
  -- every supported geometry converts to a shape that converts back to its normal form
  have hconv : ∀ r ∈ recs, ∃ sh, geom2Shp eq r.1 = .ok sh ∧ shp2Geom sh = .ok (N r.1) := by
    intro r hr
    have := C16_geom eq r.1 (N r.1) (hsup r hr)
    cases hg : geom2Shp eq r.1 with
    | error f => simp [hg, bind, Except.bind] at this
    | ok sh => exact ⟨sh, rfl, by simpa [hg, bind, Except.bind] using this⟩
  -- choose the shape function
  let S : Geom α → Shape α := fun g => match geom2Shp eq g with | .ok sh => sh | .error _ => .null
  have hS : ∀ r ∈ recs, geom2Shp eq r.1 = .ok (S r.1) := by
    intro r hr; obtain ⟨sh, h1, _⟩ := hconv r hr; simp [S, h1]
  let G : Shape α → Geom α := fun sh => match shp2Geom sh with | .ok g => g | .error _ => .nil
  have hrows := writeAllF_rows eq fields S recs ([], []) hS
  simp only [List.nil_append] at hrows
  have hread := readF_rows (fileKeys fields) names G (recs.map (fun r => (S r.1, writeLenient fields r.2))) (by
    intro r hr
    obtain ⟨r0, hr0, rfl⟩ := List.mem_map.mp hr
    obtain ⟨sh, h1, h2⟩ := hconv r0 hr0
    have hs : S r0.1 = sh := by simp [S, h1]
    refine ⟨by simp [G, hs, h2], ?_⟩
    apply rowFields_ok
    intro n hn
    obtain ⟨j, hj⟩ := hnames n hn
    refine ⟨j, hj, ?_⟩
    have hl := ((lastIdx_spec _ _ _).mp hj).1
    have : j < (fileKeys fields).length := by
      rcases Nat.lt_or_ge j (fileKeys fields).length with h | h
      · exact h
      · simp [List.getElem?_eq_none h] at hl
    simp only [writeLenient_length]
    simpa [fileKeys] using this)
  have hG : ∀ r ∈ recs, G (S r.1) = N r.1 := by
    intro r hr; obtain ⟨sh, h1, h2⟩ := hconv r hr
    simp [G, S, h1, h2]
  simp only [readF, writeAllF, hrows]
  refine ⟨hread.1, hread.2.1, ?_, ?_⟩
  · have := congrArg List.length hread.2.2
    simpa using this
  · rw [hread.2.2, List.map_map]
    apply List.map_congr_left
    intro r hr
    simp [hG r hr]

/-- **C16_order_encode** (same clause, struct-based writer): `n` calls of `Encode` give `n` rows in call
order — also when an attribute is refused (the row then keeps blank cells; before fix d0dd046 the
attribute bytes of such a call were written without a row) -/
theorem C16_order_encode (eq : Pt α → Pt α → Bool) (e : EncS) (recs : List (Geom α × List Val)) (S : Geom α → Shape α)
    (h : ∀ r ∈ recs, fieldShape eq e.geomKind r.1 = .ok (S r.1)) :
    (writeAllS eq e recs).1 = recs.map (fun r => (S r.1, (writeStrict e.fields r.2).1)) := by
  have := writeAllS_rows eq e S recs ([], []) h
  simpa [writeAllS] using this

/-- what record `r` must come back as when it is the `i`-th record read with schedule `calls`
(all calls field-based): its own geometry and the requested values taken from ITS OWN cells -/
def expRow (keys : List Bytes) (calls : List Call) (G : Shape α → Geom α) (i : Nat) (r : Shape α × List Bytes) :
    List (RVal α) :=
  match calls[i % calls.length]? with
  | some (.f ns) => (match rowFields (α := α) keys r.2 ns with
    | .ok (vs, _) => .geom (G r.1) :: vs
    | .error _ => [])
  | _ => []

def expRows (keys : List Bytes) (calls : List Call) (G : Shape α → Geom α) :
    List (Shape α × List Bytes) → Nat → List (List (RVal α))
  | [], _ => []
  | r :: rest, i => expRow keys calls G i r :: expRows keys calls G rest (i + 1)

theorem expRows_length (keys : List Bytes) (calls : List Call) (G : Shape α → Geom α) :
    ∀ (rows : List (Shape α × List Bytes)) (i : Nat), (expRows keys calls G rows i).length = rows.length
  | [], _ => rfl
  | _ :: rest, i => by simp [expRows, expRows_length keys calls G rest (i + 1)]

theorem readM_go_fields (zero : α) (f : FileM α) (calls : List Call) (G : Shape α → Geom α)
    (hne : calls ≠ [])
    (hcalls : ∀ c ∈ calls, ∃ ns, c = Call.f ns ∧
      ∀ r ∈ f.rows, ∃ vs : List (RVal α), rowFields (fileKeys f.fields) r.2 ns = .ok (vs, false))
    (hg : ∀ r ∈ f.rows, shp2Geom r.1 = .ok (G r.1)) :
    ∀ (rest : List (Shape α × List Bytes)) (k i : Nat) (vars : List (List (RVal α))), f.rows.drop k = rest →
      readM.go zero f calls (fileKeys f.fields) rest k i vars
        = ⟨expRows (fileKeys f.fields) calls G rest i, false, false⟩ := by
  intro rest
  induction rest with
  | nil => intro k i vars _; simp [readM.go, expRows]
  | cons r rest ih =>
    intro k i vars hdrop
    have hlen : 0 < calls.length := List.length_pos_iff.mpr hne
    have hi : i % calls.length < calls.length := Nat.mod_lt _ hlen
    have hk : k < f.rows.length := by
      rcases Nat.lt_or_ge k f.rows.length with h | h
      · exact h
      · rw [List.drop_eq_nil_of_le h] at hdrop; cases hdrop
    have hrk : f.rows[k] = r := by
      have := List.getElem_cons_drop (h := hk)
      rw [hdrop] at this
      exact (List.cons.inj this).1
    have hmem : r ∈ f.rows := hrk ▸ List.getElem_mem hk
    obtain ⟨ns, hc, hns⟩ := hcalls _ (List.getElem_mem hi)
    obtain ⟨vs, hvs⟩ := hns r hmem
    have hrest : f.rows.drop (k + 1) = rest := by
      have := List.getElem_cons_drop (h := hk)
      rw [hdrop] at this
      exact (List.cons.inj this).2
    obtain ⟨sh, cells⟩ := r
    have hgr := hg _ hmem
    simp only at hgr hvs
    rw [readM.go]
    simp only [List.getElem?_eq_getElem hi, hc, hgr, List.getElem?_eq_getElem hk, hrk, hvs,
      ih (k + 1) (i + 1) vars hrest, expRows, expRow]

/-- **C16_order_any_fields** (clause "come back in the same order and number", any reading schedule):
on ONE decoder, `n` reads whose requested field lists vary arbitrarily per row (all names, a subset, a
permutation, duplicates, none at all) return records `0..n-1` in file order, without panic or error,
and the values returned with record `i` are taken from record `i`'s own cells (`expRow`) — the decoder's
row cursor advances exactly once per decoded record whatever was requested. -/
theorem C16_order_any_fields (zero : α) (f : FileM α) (calls : List Call) (G : Shape α → Geom α)
    (hne : calls ≠ [])
    (hcalls : ∀ c ∈ calls, ∃ ns, c = Call.f ns ∧
      ∀ r ∈ f.rows, ∃ vs : List (RVal α), rowFields (fileKeys f.fields) r.2 ns = .ok (vs, false))
    (hg : ∀ r ∈ f.rows, shp2Geom r.1 = .ok (G r.1)) :
    readM zero f calls = ⟨expRows (fileKeys f.fields) calls G f.rows 0, false, false⟩ ∧
    (readM zero f calls).rows.length = f.rows.length := by
  have h := fun vars => readM_go_fields zero f calls G hne hcalls hg f.rows 0 0 vars (by simp)
  refine ⟨by simp only [readM, h], ?_⟩
  simp only [readM, h, expRows_length]

/-- non-vacuity: a geometry-only read followed by a read with a field returns record 1's value with
record 1 (the seeded change C16-a3 returned record 0's) -/
example :
    let f : FileM Nat := ⟨1, [⟨name11 [105], 78, 10, 0⟩],
      [(.point ⟨0, 0⟩, [cellOf 10 (fmtInt 100)]), (.point ⟨1, 0⟩, [cellOf 10 (fmtInt 101)])]⟩
    (readM 0 f [.f [], .f [[105]]]).rows.map (fun row => row.filterMap fun v => match v with | .str b => some b | _ => none)
      = [[], [fmtInt 101]] := by
  decide +kernel

end order

end GeomV.C16
