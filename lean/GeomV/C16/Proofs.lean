import GeomV.C16.Lemmas
import GeomV.C16.Gen
/-!
# C16 — property theorems

Property: "Records written through the shapefile Encoder (struct-based or field-based) and read back through
the Decoder come back in the same order and number, with bit-identical coordinates: points, multi-points,
(multi-)line strings part by part, polygons ring by ring with vertex order preserved and unclosed rings
closed, boxes as five-vertex rectangles; integer attributes are equal, NUL-free strings up to 50 bytes are
equal and floats agree to 10 decimal places, matched to struct fields by tag or name case-insensitively."

All theorems are about the model (`Model.lean`, tied to the Go source by the correspondence run) and
quantify over all coordinate types, geometries, part/ring counts, record sequences and attribute values.
The `.shp/.shx/.dbf` container of go-shp is the model's `FileM` (an ordered list of rows): PARTIAL with
respect to go-shp's byte layout, which is exercised by the correspondence run only.
-/
set_option linter.unusedSimpArgs false
set_option linter.unusedVariables false
namespace GeomV.C16
open GeomV

/-! ## geometry -/

/-- **getStartEnd_partition** (clause "(multi-)line strings part by part, polygons ring by ring"):
the `Parts` array that go-shp's `NewPolyLine` builds (running offsets) together with `getStartEnd` cuts the
flattened point array back into exactly the original parts — for any number of parts, empty parts
(also leading, trailing and consecutive ones) included; no index fault occurs. -/
theorem getStartEnd_partition {α : Type} (ps : List (List (Pt α))) :
    cutParts (newPolyLine ps).1 (newPolyLine ps).2 = .ok ps :=
  cutParts_newPolyLine ps

/-- **C16_geom** (clauses "bit-identical coordinates: points, multi-points, (multi-)line strings part by
part, polygons ring by ring with vertex order preserved and unclosed rings closed, boxes as five-vertex
rectangles"): for every geometry `g` of a supported type, converting to a go-shp shape and back yields
exactly `Spec.normal g` — coordinates are carried as values of an arbitrary type `α`, untouched, so
"bit-identical" holds for every bit pattern (NaN payloads, signed zeros). -/
theorem C16_geom {α : Type} (eq : Pt α → Pt α → Bool) (g n : Geom α) (h : Spec.normal eq g = some n) :
    (geom2Shp eq g >>= shp2Geom) = .ok n := by
  cases g with
  | point p => simp [Spec.normal] at h; subst h; rfl
  | multiPoint ps => simp [Spec.normal] at h; subst h; rfl
  | lineString l =>
    simp [Spec.normal] at h; subst h
    have := cutParts_newPolyLine [l]
    simp only [geom2Shp, newPolyLine, bind, Except.bind, shp2Geom, this, Functor.map, Except.map]
  | multiLineString ls =>
    simp [Spec.normal] at h; subst h
    have := cutParts_newPolyLine ls
    simp only [geom2Shp, newPolyLine, bind, Except.bind, shp2Geom, this, Functor.map, Except.map]
  | polygon rs =>
    simp [Spec.normal] at h; subst h
    have := cutParts_newPolyLine (rs.map (closeRing eq))
    have hc : rs.map (closeRing eq) = rs.map (Spec.closed eq) :=
      List.map_congr_left (fun r _ => closeRing_eq_closed eq r)
    rw [hc] at this
    simp only [geom2Shp, newPolyLine, bind, Except.bind, shp2Geom, this, Functor.map, Except.map, hc]
  | multiPolygon ps => simp [Spec.normal] at h
  | collection gs => simp [Spec.normal] at h
  | bounds mn mx =>
    simp [Spec.normal] at h; subst h
    have := cutParts_newPolyLine [rect mn mx]
    simp only [rect] at this
    simp only [geom2Shp, newPolyLine, bind, Except.bind, shp2Geom, this, Functor.map, Except.map, rect]
  | nil => simp [Spec.normal] at h; subst h; rfl

/-- unsupported geometry types are rejected by the encoder, not mangled -/
theorem C16_geom_unsupported {α : Type} (eq : Pt α → Pt α → Bool) (g : Geom α) (h : Spec.normal eq g = none) :
    geom2Shp eq g = .error .unsupported := by
  cases g <;> simp [Spec.normal] at h <;> rfl

/-- non-vacuity: an unclosed ring followed by an empty ring and a closed ring (integers as coordinates) -/
example : (geom2Shp (fun (a b : Pt Nat) => a == b) (.polygon [[⟨0,0⟩,⟨1,0⟩,⟨1,1⟩], [], [⟨5,5⟩,⟨6,5⟩,⟨5,5⟩]]) >>= shp2Geom)
    = .ok (.polygon [[⟨0,0⟩,⟨1,0⟩,⟨1,1⟩,⟨0,0⟩], [], [⟨5,5⟩,⟨6,5⟩,⟨5,5⟩]]) :=
  C16_geom _ _ _ (by simp [Spec.normal, Spec.closed, Spec.ringClosed])

/-! ## attribute cells -/

/-- **C16_int** (clause "integer attributes are equal"): for every Go `int` `i` whose `Itoa` rendering fits
the column (`size` characters; 10 for `NewEncoder`), `WriteAttribute` stores it, the struct decoder
(`ReadAttribute`, `Trim("\x00 ")`, `ParseInt`) returns exactly `i`, and the field-based decoder
(`DecodeRowFields`) returns exactly the text `Itoa(i)`. -/
theorem C16_int (f : Field) (i : Int) (h1 : -(2 ^ 63 : Int) ≤ i) (h2 : i < 2 ^ 63)
    (hfit : (fmtInt i).length ≤ f.size) :
    writeAttr f (.int i) = some (fmtInt i) ∧
    parseInt (numText (cellOf f.size (fmtInt i))) = some i ∧
    strOf (cellOf f.size (fmtInt i)) = fmtInt i := by
  have hs := fmtInt_solid i
  have hne := fmtInt_ne_nil i
  refine ⟨?_, ?_, ?_⟩
  · simp only [writeAttr, render]
    have : ¬ (fmtInt i).length > f.size := by omega
    simp [this]
  · rw [numText_cellOf f.size _ hne (fun x hx => hs x (mem_of_head? hx)) (fun x hx => hs x (mem_of_getLast? hx))]
    exact parseInt_fmtInt i h1 h2
  · apply strOf_cellOf f.size _ hne
    · intro h; exact (hs 32 (mem_of_head? h)).1 rfl
    · intro h; exact (hs 0 (mem_of_head? h)).2 rfl
    · intro h; exact (hs 0 (mem_of_getLast? h)).2 rfl
    · intro h; exact absurd rfl (hs 32 (mem_of_getLast? h)).1

/-- the width condition of `C16_int` in numbers: `|i|` fitting 10 characters -/
theorem C16_int_width (i : Int) (h1 : -999999999 ≤ i) (h2 : i ≤ 9999999999) : (fmtInt i).length ≤ 10 := by
  unfold fmtInt
  split
  · have : i.natAbs < 10 ^ 9 := by omega
    have := natDigits_length_le 8 _ this
    simp; omega
  · have : i.natAbs < 10 ^ 10 := by omega
    exact natDigits_length_le 9 _ this

/-- non-vacuity and sharpness: ±999 999 999 and the largest 10-digit value are stored; an 11-character
value is refused -/
example : writeAttr ⟨[], 78, 10, 0⟩ (.int (-999999999)) = some (fmtInt (-999999999)) ∧
    writeAttr ⟨[], 78, 10, 0⟩ (.int 9999999999) = some (fmtInt 9999999999) ∧
    writeAttr ⟨[], 78, 10, 0⟩ (.int (-1234567890)) = none ∧ writeAttr ⟨[], 78, 10, 0⟩ (.int 10000000000) = none := by
  decide +kernel

/-- the exact condition on a string for surviving a cell of `size` bytes -/
def StrOK (size : Nat) (s : Bytes) : Prop :=
  s = [] ∨ (s.head? ≠ some 32 ∧ s.head? ≠ some 0 ∧ s.getLast? ≠ some 0 ∧ (s.getLast? = some 32 → s.length < size))

/-- **C16_string** (clause "NUL-free strings up to 50 bytes are equal"): a string of at most `size` bytes
(50 for `NewEncoder`) is stored, and is read back unchanged by both decoders PROVIDED it does not start
with a blank or NUL, does not end with NUL, and does not end with a blank when it fills the cell
completely — the condition `Trim` forces. Interior NULs and blanks, and trailing blanks of shorter
strings, survive. The condition is exact clause by clause: see the witnesses below
(`C16_string_violations`), which is why the statement as written ("NUL-free strings up to 50 bytes are
equal") is recorded as a known finding for leading blanks and full-width trailing blanks. -/
theorem C16_string (f : Field) (s : Bytes) (hlen : s.length ≤ f.size) (hok : StrOK f.size s) :
    writeAttr f (.str s) = some s ∧ strOf (cellOf f.size s) = s := by
  refine ⟨?_, ?_⟩
  · simp only [writeAttr, render]
    have : ¬ s.length > f.size := by omega
    simp [this]
  · by_cases hne : s = []
    · subst hne; exact strOf_blank f.size
    · rcases hok with h | ⟨a, b, c, d⟩
      · exact absurd h hne
      · exact strOf_cellOf f.size s hne a b c d

/-- **C16_string_converse**: the condition of `C16_string` is necessary for EVERY string — a string of at
most `size` bytes that comes back equal satisfies `StrOK`. (A leading blank/NUL, a trailing NUL, or a
trailing blank in a completely filled cell always changes the string.) -/
theorem C16_string_converse (size : Nat) (s : Bytes) (hlen : s.length ≤ size)
    (h : strOf (cellOf size s) = s) : StrOK size s := by
  by_cases hne : s = []
  · exact Or.inl hne
  · right
    have hzN : ∀ x ∈ List.replicate (size - s.length) (0 : UInt8), isNul x = true := by
      intro x hx; simp [List.mem_replicate] at hx; simp [isNul, hx.2]
    have hzhead : ∀ x, (List.replicate (size - s.length) (0 : UInt8)).head? = some x → isSp x = false := by
      intro x hx
      cases hn : size - s.length with
      | zero => simp [hn] at hx
      | succ n => simp [hn, List.replicate_succ] at hx; subst hx; rfl
    refine ⟨?_, ?_, ?_, ?_⟩
    · -- a leading blank is always lost: the result is no longer than the text after its leading blanks
      intro hh
      obtain ⟨a, t, rfl⟩ := List.exists_cons_of_ne_nil hne
      have ha : a = 32 := by simpa using hh
      subst ha
      have hdrop : ((32 :: t) ++ List.replicate (size - (32 :: t).length) 0).dropWhile isSp
          = t.dropWhile isSp ++ List.replicate (size - (32 :: t).length) 0 := by
        rw [dropWhile_append_stop isSp _ hzhead]
        rfl
      have hu : (t.dropWhile isSp).length ≤ t.length := dropWhile_length_le isSp t
      have hbound : (strOf (cellOf size (32 :: t))).length ≤ (t.dropWhile isSp).length := by
        unfold strOf readAttribute cellOf
        unfold trim at *
        rw [hdrop]
        cases hn : size - (32 :: t).length with
        | zero =>
          simp only [List.replicate_zero, List.append_nil]
          exact Nat.le_trans (Nat.le_trans (rtrim_length_le _ _) (dropWhile_length_le _ _)) (rtrim_length_le _ _)
        | succ n =>
          have hid : rtrim isSp (t.dropWhile isSp ++ List.replicate (n + 1) 0) = t.dropWhile isSp ++ List.replicate (n + 1) 0 := by
            apply rtrim_id
            intro x hx
            rcases getLast?_append_replicate _ _ _ _ hx with ⟨_, rfl⟩ | ⟨h0, _⟩
            · rfl
            · omega
          rw [hid]
          have := trim_append_cut_length isNul (List.replicate (n + 1) 0) (by
            intro x hx; simp [List.mem_replicate] at hx; simp [isNul, hx]) (t.dropWhile isSp)
          unfold trim at this
          exact this
      rw [h] at hbound
      simp only [List.length_cons] at hbound
      omega
    · intro hh
      have : (strOf (cellOf size s)).head? = some 0 := by rw [h]; exact hh
      have := trim_head isNul _ 0 this
      simp [isNul] at this
    · intro hh
      have : (strOf (cellOf size s)).getLast? = some 0 := by rw [h]; exact hh
      have := trim_getLast isNul _ 0 this
      simp [isNul] at this
    · -- a blank at the very end of a full cell is always lost
      intro hl
      rcases Nat.lt_or_ge s.length size with hlt | hge
      · exact hlt
      · exfalso
        have hfull : size - s.length = 0 := by omega
        have hcell : cellOf size s = s := by simp [cellOf, hfull]
        have h1 : (readAttribute s).length < s.length := by
          unfold readAttribute trim
          by_cases hd : s.dropWhile isSp = []
          · rw [hd]
            simp only [rtrim, List.length_nil]
            exact List.length_pos_iff.mpr hne
          · have hlast := dropWhile_getLast? isSp s hd
            rw [hl] at hlast
            have := rtrim_length_lt isSp _ 32 hlast rfl
            exact Nat.lt_of_lt_of_le this (dropWhile_length_le isSp s)
        have h2 : (strOf (cellOf size s)).length ≤ (readAttribute s).length := by
          rw [hcell]; unfold strOf; exact trim_length_le isNul _
        rw [h] at h2
        omega

/-- **C16_string_iff** (clause "NUL-free strings up to 50 bytes are equal", exact form): a string of at
most `size` bytes is read back unchanged if and only if it is empty or (does not start with a blank or
NUL, does not end with NUL, and does not end with a blank while filling the cell completely). -/
theorem C16_string_iff (f : Field) (s : Bytes) (hlen : s.length ≤ f.size) :
    strOf (cellOf f.size s) = s ↔ StrOK f.size s :=
  ⟨C16_string_converse f.size s hlen, fun hok => (C16_string f s hlen hok).2⟩

/-- the clauses of `StrOK` cannot be dropped (model-level negation of the statement as written, concrete
witnesses in a 5-byte column): a leading blank is lost, a blank at the very end of a full cell is lost,
leading/trailing NULs are lost; a trailing blank of a shorter string and interior NUL/blank survive. -/
theorem C16_string_violations :
    strOf (cellOf 5 [32, 97]) = [97] ∧                          -- " a"      ↦ "a"
    strOf (cellOf 5 [97, 98, 99, 100, 32]) = [97, 98, 99, 100] ∧  -- "abcd "   ↦ "abcd"   (full width)
    strOf (cellOf 5 [97, 32]) = [97, 32] ∧                       -- "a "      ↦ "a "     (shorter: kept)
    strOf (cellOf 5 [0, 97]) = [97] ∧ strOf (cellOf 5 [97, 0]) = [97] ∧
    strOf (cellOf 5 [97, 0, 32, 98]) = [97, 0, 32, 98] ∧
    strOf (cellOf 5 [32, 32]) = [] := by
  decide

/-! ## floats -/

/-- the contract on a float rendering/parsing pair (Go: `FormatFloat(·,'f',prec,64)` / `ParseFloat`):
the text is never empty, contains no blank and no NUL, and parsing it gives a value `close` to the
original (`|parse (fmt x) − x| ≤ ½·10⁻ᵖ` for the exact decimal, `≤ 10⁻ᵖ` after rounding to the nearest
double, see notes) -/
structure FloatFmt {X : Type} (fmt : X → Bytes) (parse : Bytes → Option X) (close : X → X → Prop) : Prop where
  nonempty : ∀ x, fmt x ≠ []
  solid : ∀ x, ∀ b ∈ fmt x, b ≠ 32 ∧ b ≠ 0
  roundtrip : ∀ x, ∃ y, parse (fmt x) = some y ∧ close x y

/-- **C16_float** (clause "floats agree to 10 decimal places"): under the rendering contract, a float
whose rendering fits the column is handed to the parser byte for byte (`ReadAttribute` and both `Trim`s
do not touch it), so the struct decoder returns a value `close` to the one written and the field-based
decoder returns exactly the rendering. -/
theorem C16_float {X : Type} {fmt : X → Bytes} {parse : Bytes → Option X} {close : X → X → Prop}
    (h : FloatFmt fmt parse close) (x : X) (size : Nat) (hfit : (fmt x).length ≤ size) :
    (∃ y, parse (numText (cellOf size (fmt x))) = some y ∧ close x y) ∧
    strOf (cellOf size (fmt x)) = fmt x := by
  have hs := h.solid x
  have hne := h.nonempty x
  refine ⟨?_, ?_⟩
  · rw [numText_cellOf size _ hne (fun b hb => hs b (mem_of_head? hb)) (fun b hb => hs b (mem_of_getLast? hb))]
    exact h.roundtrip x
  · apply strOf_cellOf size _ hne
    · intro hb; exact (hs 32 (mem_of_head? hb)).1 rfl
    · intro hb; exact (hs 0 (mem_of_head? hb)).2 rfl
    · intro hb; exact (hs 0 (mem_of_getLast? hb)).2 rfl
    · intro hb; exact absurd rfl (hs 32 (mem_of_getLast? hb)).1

theorem natDigits_solid (n : Nat) : ∀ b ∈ natDigits n, b ≠ 32 ∧ b ≠ 0 := by
  intro b hb
  have := digit_facts b (natDigits_all n b hb)
  exact ⟨this.2.2.1, this.2.2.2.1⟩

/-- **C16_float_render** (the model's `FormatFloat(·,'f',prec)` satisfies the first two clauses of the
contract, and the number it prints is the nearest multiple of `10^-prec`): for a finite value `±num/den`
the text is non-empty and free of blanks and NULs, and the printed integer `N = fixedN num den prec`
satisfies `|N/10^prec − num/den| ≤ ½·10^-prec`, stated without division:
`|2·N·den − 2·num·10^prec| ≤ den`. -/
theorem C16_float_render (neg : Bool) (num den prec : Nat) (hden : 0 < den) :
    fmtFixed neg num den prec ≠ [] ∧ (∀ b ∈ fmtFixed neg num den prec, b ≠ 32 ∧ b ≠ 0) ∧
    2 * fixedN num den prec * den ≤ 2 * (num * 10 ^ prec) + den ∧
    2 * (num * 10 ^ prec) ≤ 2 * fixedN num den prec * den + den := by
  have hsolid : ∀ b ∈ fmtFixed neg num den prec, b ≠ 32 ∧ b ≠ 0 := by
    intro b hb
    unfold fmtFixed at hb
    simp only at hb
    have hbody : ∀ b ∈ (if prec = 0 then natDigits (fixedN num den prec / 10 ^ prec)
        else natDigits (fixedN num den prec / 10 ^ prec) ++ 46 :: padLeft prec (natDigits (fixedN num den prec % 10 ^ prec))),
        b ≠ 32 ∧ b ≠ 0 := by
      intro b hb
      split at hb
      · exact natDigits_solid _ b hb
      · rcases List.mem_append.mp hb with hb | hb
        · exact natDigits_solid _ b hb
        · rcases List.mem_cons.mp hb with rfl | hb
          · decide
          · unfold padLeft at hb
            rcases List.mem_append.mp hb with hb | hb
            · simp [List.mem_replicate] at hb; obtain ⟨_, rfl⟩ := hb; decide
            · exact natDigits_solid _ b hb
    split at hb
    · rcases List.mem_cons.mp hb with rfl | hb
      · decide
      · exact hbody b hb
    · exact hbody b hb
  refine ⟨?_, hsolid, ?_⟩
  · unfold fmtFixed
    simp only
    split
    · simp
    · split
      · exact natDigits_ne_nil _
      · simp
  · unfold fixedN roundHalfEven
    have hdm := Nat.div_add_mod (num * 10 ^ prec) den
    have hlt := Nat.mod_lt (num * 10 ^ prec) hden
    generalize num * 10 ^ prec = a at *
    generalize hq : a / den = q at *
    generalize hr : a % den = r at *
    have e : (q + 1) * den = den * q + den := by rw [Nat.add_mul, Nat.one_mul, Nat.mul_comm]
    have e2 : q * den = den * q := Nat.mul_comm _ _
    simp only
    split
    · rw [Nat.mul_assoc, e]; omega
    · rw [Nat.mul_assoc, e2]; omega

/-- non-vacuity / sharpness of the width condition on the model's renderer: `1e18` fits 30 characters,
`-1e18` and `1e19` do not; a tie at the 10th decimal goes to the even digit (`2^-11 = 0.00048828125`) -/
example : (fmtFixed false (10 ^ 18) 1 10).length = 30 ∧ (fmtFixed true (10 ^ 18) 1 10).length = 31 ∧
    (fmtFixed false (10 ^ 19) 1 10).length = 31 ∧
    fmtFixed false 1 2048 10 = [48, 46, 48, 48, 48, 52, 56, 56, 50, 56, 49, 50] := by
  decide +kernel

/-! ## field matching -/

theorem IsLast_unique {keys : List Bytes} {k : Bytes} {c j : Nat} (hc : IsLast keys k c) (hj : IsLast keys k j) : c = j := by
  rcases Nat.lt_trichotomy c j with h | h | h
  · exact absurd hj.1 (hc.2 j h)
  · exact h
  · exact absurd hc.1 (hj.2 c h)

/-- **C16_match** (clause "matched to struct fields by tag or name case-insensitively", `DecodeRow`):
with `keys` the lower-cased, trimmed column names of the file in column order, a struct field receives
column `c` iff `c` is the (last) column whose key equals the field's lower-cased `shp` tag, or — when no
column carries the tag — the (last) column whose key equals the lower-cased field name. A geometry field
never takes part (it is tested first in `decodeField`). Every matched attribute field is ASSIGNED on every
row (`C16_assigned` below), so nothing of an earlier row survives in a reused record variable. -/
theorem C16_match (keys : List Bytes) (sf : SField) (c : Nat) :
    matchField keys sf = some c ↔
      IsLast keys (lower sf.tag) c ∨
      ((∀ j : Nat, keys[j]? ≠ some (lower sf.tag)) ∧ IsLast keys (lower sf.name) c) := by
  unfold matchField
  cases h : lastIdx keys (lower sf.tag) with
  | some j =>
    have hj := (lastIdx_spec _ _ _).mp h
    simp only [Option.some.injEq]
    constructor
    · rintro rfl; exact Or.inl hj
    · rintro (hc | ⟨hno, _⟩)
      · exact IsLast_unique hj hc
      · exact absurd hj.1 (hno j)
  | none =>
    have hno := (lastIdx_none _ _).mp h
    simp only
    rw [lastIdx_spec]
    constructor
    · intro hc; exact Or.inr ⟨hno, hc⟩
    · rintro (hc | ⟨_, hc⟩)
      · exact absurd hc.1 (hno c)
      · exact hc

/-- **C16_assigned** (clauses "strings are equal / integer attributes are equal", reused record variable):
when a column matches a string field, the value after `DecodeRow` is the cell's text whatever the field
held before (`prev`) — in particular the empty string comes back as the empty string — and a numeric
field whose cell parses is overwritten likewise. -/
theorem C16_assigned {α : Type} (keys : List Bytes) (g : Geom α) (cells : List Bytes) (sf : SField) (j : Nat) (cell : Bytes)
    (prev : RVal α) (hm : matchField keys sf = some j) (hc : cells[j]? = some cell) :
    (sf.kind = .str → decodeField keys g cells sf prev = .ok (.str (strOf cell), false)) ∧
    (∀ i, sf.kind = .int → parseInt (numText cell) = some i → decodeField keys g cells sf prev = .ok (.int i, false)) ∧
    (∀ u, sf.kind = .float → parseFloat (numText cell) = some u → decodeField keys g cells sf prev = .ok (.float u, false)) := by
  refine ⟨?_, ?_, ?_⟩
  · intro hk; simp [decodeField, hk, hm, hc]
  · intro i hk hp; simp [decodeField, hk, hm, hc, hp]
  · intro u hk hp; simp [decodeField, hk, hm, hc, hp]

/-- a struct field stays untouched iff neither its tag nor its name is a column key -/
theorem C16_match_none (keys : List Bytes) (sf : SField) :
    matchField keys sf = none ↔
      (∀ j : Nat, keys[j]? ≠ some (lower sf.tag)) ∧ (∀ j : Nat, keys[j]? ≠ some (lower sf.name)) := by
  unfold matchField
  cases h : lastIdx keys (lower sf.tag) with
  | some j =>
    have hj := (lastIdx_spec _ _ _).mp h
    simp only [reduceCtorEq, false_iff, not_and]
    intro hno; exact absurd hj.1 (hno j)
  | none =>
    have hno := (lastIdx_none _ _).mp h
    simp only
    rw [lastIdx_none]
    exact ⟨fun h2 => ⟨hno, h2⟩, fun h2 => h2.2⟩

/-- **C16_match_fields** (same clause, `DecodeRowFields`): a requested name is served from the (last)
column whose key equals the lower-cased name, and is an error iff there is none -/
theorem C16_match_fields (keys : List Bytes) (n : Bytes) :
    (∀ c, lastIdx keys (lower n) = some c ↔ IsLast keys (lower n) c) ∧
    (lastIdx keys (lower n) = none ↔ ∀ j : Nat, keys[j]? ≠ some (lower n)) :=
  ⟨fun c => lastIdx_spec _ _ c, lastIdx_none _ _⟩

/-- non-vacuity: tag beats name, matching is case-insensitive, the last of two equal keys wins -/
example :
    let keys := fileKeys [⟨name11 [97], 78, 10, 0⟩, ⟨name11 [66], 78, 10, 0⟩, ⟨name11 [65, 32], 78, 10, 0⟩]   -- "a", "B", "A "
    matchField keys ⟨[66], [65], .int⟩ = some 2 ∧       -- field B with tag "A": the tag decides, last "a" column
    matchField keys ⟨[66], [], .int⟩ = some 1 ∧         -- field B without tag
    matchField keys ⟨[67], [], .int⟩ = none := by
  decide

/-! ## order and number of records -/

section order
variable {α : Type}

theorem blankRow_length (fs : List Field) : (blankRow fs).length = fs.length := by simp [blankRow]

theorem writeLenient_length : ∀ (fs : List Field) (vs : List Val), (writeLenient fs vs).length = fs.length
  | [], vs => by cases vs <;> simp [writeLenient, blankRow]
  | f :: fs, [] => by simp [writeLenient, blankRow]
  | f :: fs, v :: vs => by simp [writeLenient, writeLenient_length fs vs]

theorem writeStrict_length : ∀ (fs : List Field) (vs : List Val), (writeStrict fs vs).1.length = fs.length
  | [], vs => by cases vs <;> simp [writeStrict, blankRow]
  | f :: fs, [] => by simp [writeStrict, blankRow]
  | f :: fs, v :: vs => by
    simp only [writeStrict]
    split
    · simp [blankRow]
    · simp [writeStrict_length fs vs]

/-- the rows after a sequence of `EncodeFields` calls: one row per call, in call order -/
theorem writeAllF_rows (eq : Pt α → Pt α → Bool) (fields : List Field) (S : Geom α → Shape α) :
    ∀ (recs : List (Geom α × List Val)) (acc : List (Shape α × List Bytes) × List WRes),
      (∀ r ∈ recs, geom2Shp eq r.1 = .ok (S r.1)) →
      (recs.foldl (fun acc r => let x := encodeF eq fields acc.1 r.1 r.2; (x.1, acc.2 ++ [x.2])) acc).1
        = acc.1 ++ recs.map (fun r => (S r.1, writeLenient fields r.2)) := by
  intro recs
  induction recs with
  | nil => intro acc _; simp
  | cons r rs ih =>
    intro acc h
    have hr := h r (by simp)
    rw [List.foldl_cons, ih _ (fun r' hr' => h r' (by simp [hr']))]
    simp [encodeF, hr]

/-- the rows after a sequence of `Encode` calls (after fix d0dd046): one row per call, in call order,
whether or not an attribute was refused -/
theorem writeAllS_rows (eq : Pt α → Pt α → Bool) (e : EncS) (S : Geom α → Shape α) :
    ∀ (recs : List (Geom α × List Val)) (acc : List (Shape α × List Bytes) × List WRes),
      (∀ r ∈ recs, fieldShape eq e.geomKind r.1 = .ok (S r.1)) →
      (recs.foldl (fun acc r => let x := encodeS eq e acc.1 r.1 r.2; (x.1, acc.2 ++ [x.2])) acc).1
        = acc.1 ++ recs.map (fun r => (S r.1, (writeStrict e.fields r.2).1)) := by
  intro recs
  induction recs with
  | nil => intro acc _; simp
  | cons r rs ih =>
    intro acc h
    have hr := h r (by simp)
    rw [List.foldl_cons, ih _ (fun r' hr' => h r' (by simp [hr']))]
    simp [encodeS, hr]

theorem rowFieldsMap_ok (keys : List Bytes) (cells : List Bytes) : ∀ (names : List Bytes),
    (∀ n ∈ names, ∃ j, lastIdx keys (lower n) = some j ∧ j < cells.length) →
    ∃ m, rowFieldsMap keys cells names = .ok (m, false) := by
  intro names
  induction names with
  | nil => intro _; exact ⟨[], rfl⟩
  | cons n ns ih =>
    intro h
    obtain ⟨j, hj, hlt⟩ := h n (by simp)
    obtain ⟨m, hm⟩ := ih (fun n' hn' => h n' (by simp [hn']))
    refine ⟨(n, strOf cells[j]) :: m, ?_⟩
    simp [rowFieldsMap, hj, List.getElem?_eq_getElem hlt, hm]

theorem rowFields_ok (keys : List Bytes) (cells : List Bytes) (names : List Bytes)
    (h : ∀ n ∈ names, ∃ j, lastIdx keys (lower n) = some j ∧ j < cells.length) :
    ∃ vs : List (RVal α), rowFields keys cells names = .ok (vs, false) := by
  obtain ⟨m, hm⟩ := rowFieldsMap_ok keys cells names h
  simp only [rowFields, hm]
  exact ⟨_, rfl⟩

/-- `DecodeRowFields` over a whole file: every row is returned, in file order, when each shape converts
and each requested name is a column -/
theorem readF_rows (keys names : List Bytes) (G : Shape α → Geom α) :
    ∀ (rows : List (Shape α × List Bytes)),
      (∀ r ∈ rows, shp2Geom r.1 = .ok (G r.1) ∧ ∃ vs : List (RVal α), rowFields keys r.2 names = .ok (vs, false)) →
      (readF.go names keys rows).panicked = false ∧ (readF.go names keys rows).err = false ∧
      (readF.go names keys rows).rows.map List.head? = rows.map (fun r => some (RVal.geom (G r.1))) := by
  intro rows
  induction rows with
  | nil => intro _; simp [readF.go]
  | cons r rs ih =>
    intro h
    obtain ⟨hg, vs, hvs⟩ := h r (by simp)
    have := ih (fun r' hr' => h r' (by simp [hr']))
    obtain ⟨sh, cells⟩ := r
    simp only at hg hvs
    simp [readF.go, hg, hvs, this]

/-- **C16_order** (clause "come back in the same order and number", field-based path; the geometry of
row `i` is `Spec.normal` of the `i`-th written geometry): `n` records written with `EncodeFields` are
`n` rows of the file in call order, and `DecodeRowFields` returns `n` rows in that order with no panic
and no error, provided every geometry is of a supported type and every requested name is a column.
The file is the model's ordered row store (go-shp's byte layout: external contract). -/
theorem C16_order (eq : Pt α → Pt α → Bool) (t : Nat) (fields : List Field) (names : List Bytes)
    (recs : List (Geom α × List Val)) (N : Geom α → Geom α)
    (hsup : ∀ r ∈ recs, Spec.normal eq r.1 = some (N r.1))
    (hnames : ∀ n ∈ names, ∃ j, lastIdx (fileKeys fields) (lower n) = some j) :
    let rd := readF ⟨t, fields, (writeAllF eq fields recs).1⟩ names
    rd.panicked = false ∧ rd.err = false ∧ rd.rows.length = recs.length ∧
    rd.rows.map List.head? = recs.map (fun r => some (RVal.geom (N r.1))) := by
  -- every supported geometry converts to a shape that converts back to its normal form
  have hconv : ∀ r ∈ recs, ∃ sh, geom2Shp eq r.1 = .ok sh ∧ shp2Geom sh = .ok (N r.1) := by
    intro r hr
    have := C16_geom eq r.1 (N r.1) (hsup r hr)
    cases hg : geom2Shp eq r.1 with
    | error f => simp [hg, bind, Except.bind] at this
    | ok sh => exact ⟨sh, rfl, by simpa [hg, bind, Except.bind] using this⟩
  -- choose the shape function
  let S : Geom α → Shape α := fun g => match geom2Shp eq g with | .ok sh => sh | .error _ => .null
  have hS : ∀ r ∈ recs, geom2Shp eq r.1 = .ok (S r.1) := by
    intro r hr; obtain ⟨sh, h1, _⟩ := hconv r hr; simp [S, h1]
  let G : Shape α → Geom α := fun sh => match shp2Geom sh with | .ok g => g | .error _ => .nil
  have hrows := writeAllF_rows eq fields S recs ([], []) hS
  simp only [List.nil_append] at hrows
  have hread := readF_rows (fileKeys fields) names G (recs.map (fun r => (S r.1, writeLenient fields r.2))) (by
    intro r hr
    obtain ⟨r0, hr0, rfl⟩ := List.mem_map.mp hr
    obtain ⟨sh, h1, h2⟩ := hconv r0 hr0
    have hs : S r0.1 = sh := by simp [S, h1]
    refine ⟨by simp [G, hs, h2], ?_⟩
    apply rowFields_ok
    intro n hn
    obtain ⟨j, hj⟩ := hnames n hn
    refine ⟨j, hj, ?_⟩
    have hl := ((lastIdx_spec _ _ _).mp hj).1
    have : j < (fileKeys fields).length := by
      rcases Nat.lt_or_ge j (fileKeys fields).length with h | h
      · exact h
      · simp [List.getElem?_eq_none h] at hl
    simp only [writeLenient_length]
    simpa [fileKeys] using this)
  have hG : ∀ r ∈ recs, G (S r.1) = N r.1 := by
    intro r hr; obtain ⟨sh, h1, h2⟩ := hconv r hr
    simp [G, S, h1, h2]
  simp only [readF, writeAllF, hrows]
  refine ⟨hread.1, hread.2.1, ?_, ?_⟩
  · have := congrArg List.length hread.2.2
    simpa using this
  · rw [hread.2.2, List.map_map]
    apply List.map_congr_left
    intro r hr
    simp [hG r hr]

/-- **C16_order_encode** (same clause, struct-based writer): `n` calls of `Encode` give `n` rows in call
order — also when an attribute is refused (the row then keeps blank cells; before fix d0dd046 the
attribute bytes of such a call were written without a row) -/
theorem C16_order_encode (eq : Pt α → Pt α → Bool) (e : EncS) (recs : List (Geom α × List Val)) (S : Geom α → Shape α)
    (h : ∀ r ∈ recs, fieldShape eq e.geomKind r.1 = .ok (S r.1)) :
    (writeAllS eq e recs).1 = recs.map (fun r => (S r.1, (writeStrict e.fields r.2).1)) := by
  have := writeAllS_rows eq e S recs ([], []) h
  simpa [writeAllS] using this

/-- what record `r` must come back as when it is the `i`-th record read with schedule `calls`
(all calls field-based): its own geometry and the requested values taken from ITS OWN cells -/
def expRow (keys : List Bytes) (calls : List Call) (G : Shape α → Geom α) (i : Nat) (r : Shape α × List Bytes) :
    List (RVal α) :=
  match calls[i % calls.length]? with
  | some (.f ns) => (match rowFields (α := α) keys r.2 ns with
    | .ok (vs, _) => .geom (G r.1) :: vs
    | .error _ => [])
  | _ => []

def expRows (keys : List Bytes) (calls : List Call) (G : Shape α → Geom α) :
    List (Shape α × List Bytes) → Nat → List (List (RVal α))
  | [], _ => []
  | r :: rest, i => expRow keys calls G i r :: expRows keys calls G rest (i + 1)

theorem expRows_length (keys : List Bytes) (calls : List Call) (G : Shape α → Geom α) :
    ∀ (rows : List (Shape α × List Bytes)) (i : Nat), (expRows keys calls G rows i).length = rows.length
  | [], _ => rfl
  | _ :: rest, i => by simp [expRows, expRows_length keys calls G rest (i + 1)]

theorem readM_go_fields (zero : α) (f : FileM α) (calls : List Call) (G : Shape α → Geom α)
    (hne : calls ≠ [])
    (hcalls : ∀ c ∈ calls, ∃ ns, c = Call.f ns ∧
      ∀ r ∈ f.rows, ∃ vs : List (RVal α), rowFields (fileKeys f.fields) r.2 ns = .ok (vs, false))
    (hg : ∀ r ∈ f.rows, shp2Geom r.1 = .ok (G r.1)) :
    ∀ (rest : List (Shape α × List Bytes)) (k i : Nat) (vars : List (List (RVal α))), f.rows.drop k = rest →
      readM.go zero f calls (fileKeys f.fields) rest k i vars
        = ⟨expRows (fileKeys f.fields) calls G rest i, false, false⟩ := by
  intro rest
  induction rest with
  | nil => intro k i vars _; simp [readM.go, expRows]
  | cons r rest ih =>
    intro k i vars hdrop
    have hlen : 0 < calls.length := List.length_pos_iff.mpr hne
    have hi : i % calls.length < calls.length := Nat.mod_lt _ hlen
    have hk : k < f.rows.length := by
      rcases Nat.lt_or_ge k f.rows.length with h | h
      · exact h
      · rw [List.drop_eq_nil_of_le h] at hdrop; cases hdrop
    have hrk : f.rows[k] = r := by
      have := List.getElem_cons_drop (h := hk)
      rw [hdrop] at this
      exact (List.cons.inj this).1
    have hmem : r ∈ f.rows := hrk ▸ List.getElem_mem hk
    obtain ⟨ns, hc, hns⟩ := hcalls _ (List.getElem_mem hi)
    obtain ⟨vs, hvs⟩ := hns r hmem
    have hrest : f.rows.drop (k + 1) = rest := by
      have := List.getElem_cons_drop (h := hk)
      rw [hdrop] at this
      exact (List.cons.inj this).2
    obtain ⟨sh, cells⟩ := r
    have hgr := hg _ hmem
    simp only at hgr hvs
    rw [readM.go]
    simp only [List.getElem?_eq_getElem hi, hc, hgr, List.getElem?_eq_getElem hk, hrk, hvs,
      ih (k + 1) (i + 1) vars hrest, expRows, expRow]

/-- **C16_order_any_fields** (clause "come back in the same order and number", any reading schedule):
on ONE decoder, `n` reads whose requested field lists vary arbitrarily per row (all names, a subset, a
permutation, duplicates, none at all) return records `0..n-1` in file order, without panic or error,
and the values returned with record `i` are taken from record `i`'s own cells (`expRow`) — the decoder's
row cursor advances exactly once per decoded record whatever was requested. -/
theorem C16_order_any_fields (zero : α) (f : FileM α) (calls : List Call) (G : Shape α → Geom α)
    (hne : calls ≠ [])
    (hcalls : ∀ c ∈ calls, ∃ ns, c = Call.f ns ∧
      ∀ r ∈ f.rows, ∃ vs : List (RVal α), rowFields (fileKeys f.fields) r.2 ns = .ok (vs, false))
    (hg : ∀ r ∈ f.rows, shp2Geom r.1 = .ok (G r.1)) :
    readM zero f calls = ⟨expRows (fileKeys f.fields) calls G f.rows 0, false, false⟩ ∧
    (readM zero f calls).rows.length = f.rows.length := by
  have h := fun vars => readM_go_fields zero f calls G hne hcalls hg f.rows 0 0 vars (by simp)
  refine ⟨by simp only [readM, h], ?_⟩
  simp only [readM, h, expRows_length]

/-- non-vacuity: a geometry-only read followed by a read with a field returns record 1's value with
record 1 (the seeded change C16-a3 returned record 0's) -/
example :
    let f : FileM Nat := ⟨1, [⟨name11 [105], 78, 10, 0⟩],
      [(.point ⟨0, 0⟩, [cellOf 10 (fmtInt 100)]), (.point ⟨1, 0⟩, [cellOf 10 (fmtInt 101)])]⟩
    (readM 0 f [.f [], .f [[105]]]).rows.map (fun row => row.filterMap fun v => match v with | .str b => some b | _ => none)
      = [[], [fmtInt 101]] := by
  decide +kernel

/-! ### `DecodeRow`, and schedules mixing `DecodeRow` with `DecodeRowFields` -/

/-- `row` is what call `c` returns for record `r` — ITS OWN shape and ITS OWN cells — for some content
`var` of the caller's record variable (arbitrary: fresh, or left over from any earlier row) -/
def RowOf (zero : α) (keys : List Bytes) (G : Shape α → Geom α) (c : Call) (r : Shape α × List Bytes)
    (row : List (RVal α)) : Prop :=
  match c with
  | .f ns => ∃ vs, rowFields keys r.2 ns = .ok (vs, false) ∧ row = .geom (G r.1) :: vs
  | .s sfs _ => ∃ var, decodeFields zero keys (G r.1) r.2 sfs var = (some row, false)

/-- call `c` succeeds on record `r` whatever the record variable holds: no field panics, every matched
numeric cell parses, every requested name is a column -/
def CallOK (zero : α) (keys : List Bytes) (G : Shape α → Geom α) (c : Call) (r : Shape α × List Bytes) : Prop :=
  match c with
  | .f ns => ∃ vs : List (RVal α), rowFields keys r.2 ns = .ok (vs, false)
  | .s sfs _ => ∀ var, ∃ vs, decodeFields zero keys (G r.1) r.2 sfs var = (some vs, false)

/-- the `i`-th, `i+1`-th, … returned rows are the records of `rest`, in order, one each -/
def RowsOf (zero : α) (keys : List Bytes) (G : Shape α → Geom α) (calls : List Call) :
    List (Shape α × List Bytes) → Nat → List (List (RVal α)) → Prop
  | [], _, [] => True
  | r :: rest, i, row :: rows =>
    (∃ c, calls[i % calls.length]? = some c ∧ RowOf zero keys G c r row) ∧ RowsOf zero keys G calls rest (i + 1) rows
  | _, _, _ => False

theorem RowsOf_length (zero : α) (keys : List Bytes) (G : Shape α → Geom α) (calls : List Call) :
    ∀ (rest : List (Shape α × List Bytes)) (i : Nat) (rows : List (List (RVal α))),
      RowsOf zero keys G calls rest i rows → rows.length = rest.length
  | [], _, [], _ => rfl
  | [], _, _ :: _, h => by simp [RowsOf] at h
  | _ :: _, _, [], h => by simp [RowsOf] at h
  | _ :: rest, i, _ :: rows, h => by
    simp only [RowsOf] at h
    simp [RowsOf_length zero keys G calls rest (i + 1) rows h.2]

theorem readM_go_sched (zero : α) (f : FileM α) (calls : List Call) (G : Shape α → Geom α)
    (hne : calls ≠ [])
    (hcalls : ∀ c ∈ calls, ∀ r ∈ f.rows, CallOK zero (fileKeys f.fields) G c r)
    (hg : ∀ r ∈ f.rows, shp2Geom r.1 = .ok (G r.1)) :
    ∀ (rest : List (Shape α × List Bytes)) (k i : Nat) (vars : List (List (RVal α))), f.rows.drop k = rest →
      ∃ rows, readM.go zero f calls (fileKeys f.fields) rest k i vars = ⟨rows, false, false⟩ ∧
        RowsOf zero (fileKeys f.fields) G calls rest i rows := by
  intro rest
  induction rest with
  | nil => intro k i vars _; exact ⟨[], by simp [readM.go], by simp [RowsOf]⟩
  | cons r rest ih =>
    intro k i vars hdrop
    have hlen : 0 < calls.length := List.length_pos_iff.mpr hne
    have hi : i % calls.length < calls.length := Nat.mod_lt _ hlen
    have hk : k < f.rows.length := by
      rcases Nat.lt_or_ge k f.rows.length with h | h
      · exact h
      · rw [List.drop_eq_nil_of_le h] at hdrop; cases hdrop
    have hrk : f.rows[k] = r := by
      have := List.getElem_cons_drop (h := hk)
      rw [hdrop] at this
      exact (List.cons.inj this).1
    have hmem : r ∈ f.rows := hrk ▸ List.getElem_mem hk
    have hrest : f.rows.drop (k + 1) = rest := by
      have := List.getElem_cons_drop (h := hk)
      rw [hdrop] at this
      exact (List.cons.inj this).2
    have hok := hcalls _ (List.getElem_mem hi) r hmem
    have hgr := hg _ hmem
    obtain ⟨sh, cells⟩ := r
    simp only at hgr
    cases hc : calls[i % calls.length] with
    | f ns =>
      rw [hc] at hok
      obtain ⟨vs, hvs⟩ := hok
      simp only at hvs
      obtain ⟨rows, hrows, hof⟩ := ih (k + 1) (i + 1) vars hrest
      refine ⟨(.geom (G sh) :: vs) :: rows, ?_, ?_⟩
      · rw [readM.go]
        simp only [List.getElem?_eq_getElem hi, hc, hgr, List.getElem?_eq_getElem hk, hrk, hvs, hrows]
      · simp only [RowsOf]
        exact ⟨⟨.f ns, by simp [List.getElem?_eq_getElem hi, hc], vs, hvs, rfl⟩, hof⟩
    | s sfs reuse =>
      rw [hc] at hok
      obtain ⟨vs, hvs⟩ := hok (if reuse then (vars[i % calls.length]?).getD (zeroRow zero sfs) else zeroRow zero sfs)
      simp only at hvs
      obtain ⟨rows, hrows, hof⟩ := ih (k + 1) (i + 1) (setVar vars (i % calls.length) vs) hrest
      refine ⟨vs :: rows, ?_, ?_⟩
      · rw [readM.go]
        simp only [List.getElem?_eq_getElem hi, hc, hgr, List.getElem?_eq_getElem hk, hrk, hvs, hrows]
      · simp only [RowsOf]
        exact ⟨⟨.s sfs reuse, by simp [List.getElem?_eq_getElem hi, hc], _, hvs⟩, hof⟩

/-- **C16_order_schedule** (clause "come back in the same order and number"; generalises
`C16_order_any_fields` to ANY schedule on one decoder mixing `DecodeRow` — into fresh or reused record
variables — and `DecodeRowFields`): if every call of the schedule succeeds on every record (`CallOK`),
the reads return exactly one row per record, in file order, without panic or error, and the `i`-th row is
built from record `i`'s own shape and own cells (`RowOf`), whatever the record variables held. -/
theorem C16_order_schedule (zero : α) (f : FileM α) (calls : List Call) (G : Shape α → Geom α)
    (hne : calls ≠ [])
    (hcalls : ∀ c ∈ calls, ∀ r ∈ f.rows, CallOK zero (fileKeys f.fields) G c r)
    (hg : ∀ r ∈ f.rows, shp2Geom r.1 = .ok (G r.1)) :
    ∃ rows, readM zero f calls = ⟨rows, false, false⟩ ∧ rows.length = f.rows.length ∧
      RowsOf zero (fileKeys f.fields) G calls f.rows 0 rows := by
  obtain ⟨rows, h1, h2⟩ := readM_go_sched zero f calls G hne hcalls hg f.rows 0 0 _ (by simp)
  exact ⟨rows, by simpa [readM] using h1, RowsOf_length _ _ _ _ _ _ _ h2, h2⟩

theorem readS_go_rows (zero : α) (sfs : List SField) (reuse : Bool) (keys : List Bytes) (G : Shape α → Geom α) :
    ∀ (rest : List (Shape α × List Bytes)) (var : List (RVal α)),
      (∀ r ∈ rest, shp2Geom r.1 = .ok (G r.1) ∧ CallOK zero keys G (.s sfs reuse) r) →
      ∃ rows, readS.go zero sfs reuse keys rest var = ⟨rows, false, false⟩ ∧
        RowsOf zero keys G [.s sfs reuse] rest 0 rows := by
  intro rest
  induction rest with
  | nil => intro var _; exact ⟨[], by simp [readS.go], by simp [RowsOf]⟩
  | cons r rest ih =>
    intro var h
    obtain ⟨hgr, hok⟩ := h r (by simp)
    obtain ⟨vs, hvs⟩ := hok var
    obtain ⟨rows, hrows, hof⟩ := ih (if reuse then vs else zeroRow zero sfs) (fun r' hr' => h r' (by simp [hr']))
    obtain ⟨sh, cells⟩ := r
    simp only at hgr hvs
    refine ⟨vs :: rows, ?_, ?_⟩
    · rw [readS.go]
      simp only [hgr, hvs, hrows]
    · simp only [RowsOf, List.length_singleton, Nat.mod_one, List.getElem?_cons_zero]
      refine ⟨⟨_, rfl, var, hvs⟩, ?_⟩
      -- the call index is irrelevant for a one-call schedule
      have shift : ∀ (l : List (Shape α × List Bytes)) (i j : Nat) (rows : List (List (RVal α))),
          RowsOf zero keys G [.s sfs reuse] l i rows → RowsOf zero keys G [.s sfs reuse] l j rows := by
        intro l
        induction l with
        | nil => intro i j rows h; cases rows <;> simp_all [RowsOf]
        | cons a l ihl =>
          intro i j rows h
          cases rows with
          | nil => simp [RowsOf] at h
          | cons row rows =>
            simp only [RowsOf, List.length_singleton, Nat.mod_one] at h ⊢
            exact ⟨h.1, ihl _ _ _ h.2⟩
      exact shift _ _ _ _ hof

/-- **C16_order_struct** (same clause, `DecodeRow`): starting from ANY content `var0` of the record
variable (fresh or reused), `n` `DecodeRow` calls over a file of `n` records whose cells parse return `n`
rows in file order, no panic, no error; row `i` is decoded from record `i`'s own shape and cells. -/
theorem C16_order_struct (zero : α) (f : FileM α) (sfs : List SField) (reuse : Bool) (G : Shape α → Geom α)
    (h : ∀ r ∈ f.rows, shp2Geom r.1 = .ok (G r.1) ∧ CallOK zero (fileKeys f.fields) G (.s sfs reuse) r) :
    ∃ rows, readS zero f sfs reuse = ⟨rows, false, false⟩ ∧ rows.length = f.rows.length ∧
      RowsOf zero (fileKeys f.fields) G [.s sfs reuse] f.rows 0 rows := by
  obtain ⟨rows, h1, h2⟩ := readS_go_rows zero sfs reuse (fileKeys f.fields) G f.rows (zeroRow zero sfs) h
  exact ⟨rows, by simpa [readS] using h1, RowsOf_length _ _ _ _ _ _ _ h2, h2⟩

/-- **C16_order_struct_written** (either encoder path ↦ `DecodeRow`): `n` records written with `Encode`
(`viaEncode = true`) or with `EncodeFields` are `n` rows; `n` `DecodeRow` calls return them in call order,
one row each, no panic/error, row `i` decoded from the cells written for record `i`. -/
theorem C16_order_struct_written (eq : Pt α → Pt α → Bool) (zero : α) (e : EncS) (viaEncode : Bool)
    (recs : List (Geom α × List Val)) (S : Geom α → Shape α) (G : Shape α → Geom α) (sfs : List SField) (reuse : Bool)
    (hw : ∀ r ∈ recs, (if viaEncode then fieldShape eq e.geomKind r.1 else geom2Shp eq r.1) = .ok (S r.1))
    (hr : ∀ r ∈ recs, shp2Geom (S r.1) = .ok (G (S r.1)) ∧
      CallOK zero (fileKeys e.fields) G (.s sfs reuse)
        (S r.1, if viaEncode then (writeStrict e.fields r.2).1 else writeLenient e.fields r.2)) :
    ∃ rows, readS zero ⟨e.shpType, e.fields,
        if viaEncode then (writeAllS eq e recs).1 else (writeAllF eq e.fields recs).1⟩ sfs reuse = ⟨rows, false, false⟩ ∧
      rows.length = recs.length := by
  cases viaEncode with
  | true =>
    simp only [if_true] at hw hr ⊢
    have hrows := C16_order_encode eq e recs S hw
    obtain ⟨rows, h1, h2, _⟩ := C16_order_struct zero ⟨e.shpType, e.fields, (writeAllS eq e recs).1⟩ sfs reuse G (by
      intro r hrm
      simp only [hrows] at hrm
      obtain ⟨r0, hr0, rfl⟩ := List.mem_map.mp hrm
      exact hr r0 hr0)
    exact ⟨rows, h1, by simpa [hrows] using h2⟩
  | false =>
    simp only [Bool.false_eq_true, if_false] at hw hr ⊢
    have hrows := writeAllF_rows eq e.fields S recs ([], []) hw
    simp only [List.nil_append] at hrows
    have hfile : (writeAllF eq e.fields recs).1 = recs.map (fun r => (S r.1, writeLenient e.fields r.2)) := by
      simpa [writeAllF] using hrows
    obtain ⟨rows, h1, h2, _⟩ := C16_order_struct zero ⟨e.shpType, e.fields, (writeAllF eq e.fields recs).1⟩ sfs reuse G (by
      intro r hrm
      simp only [hfile] at hrm
      obtain ⟨r0, hr0, rfl⟩ := List.mem_map.mp hrm
      exact hr r0 hr0)
    exact ⟨rows, h1, by simpa [hfile] using h2⟩

/-! ### writer schedules: `Encode` and `EncodeFields` mixed on one encoder -/

theorem modify_append_last {β : Type} (l : List β) (a : β) (f : β → β) : (l ++ [a]).modify l.length f = l ++ [f a] := by
  induction l with
  | nil => simp [List.modify]
  | cons x xs ih => simp [List.modify_succ_cons, ih]

/-- the rows a writer schedule must produce: record `i`'s shape with the cells ITS method writes -/
def expMix (e : EncS) (sched : List Bool) (S : Geom α → Shape α) : List (Geom α × List Val) → Nat → List (Shape α × List Bytes)
  | [], _ => []
  | r :: rest, i =>
    (S r.1, if (sched[i % sched.length]?).getD true then (writeStrict e.fields r.2).1 else writeLenient e.fields r.2)
      :: expMix e sched S rest (i + 1)

theorem expMix_length (e : EncS) (sched : List Bool) (S : Geom α → Shape α) :
    ∀ (recs : List (Geom α × List Val)) (i : Nat), (expMix e sched S recs i).length = recs.length
  | [], _ => rfl
  | _ :: rest, i => by simp [expMix, expMix_length e sched S rest (i + 1)]

theorem writeAllMix_go_rows (eq : Pt α → Pt α → Bool) (e : EncS) (sched : List Bool) (S : Geom α → Shape α) :
    ∀ (rest : List (Geom α × List Val)) (i : Nat) (st : WState α) (res : List WRes),
      st.row = st.rows.length →
      (∀ r ∈ rest, fieldShape eq e.geomKind r.1 = .ok (S r.1) ∧ r.2.length ≤ e.fields.length) →
      (writeAllMix.go eq e sched rest i st res).1 = st.rows ++ expMix e sched S rest i := by
  intro rest
  induction rest with
  | nil => intro i st res _ _; simp [writeAllMix.go, expMix]
  | cons r rest ih =>
    intro i st res hrow h
    obtain ⟨hs, hl⟩ := h r (by simp)
    have hnot : ¬ r.2.length > e.fields.length := by omega
    rw [writeAllMix.go]
    cases hm : (sched[i % sched.length]?).getD true with
    | true =>
      have hst : (encodeMix eq e st true r.1 r.2).1 =
          ⟨st.rows ++ [(S r.1, (writeStrict e.fields r.2).1)], st.rows.length + 1⟩ := by
        simp [encodeMix, hs, setCells, hrow, modify_append_last]
      rw [ih (i + 1) _ _ (by rw [hst]; simp) (fun r' hr' => h r' (by simp [hr']))]
      rw [hst]
      simp [expMix, hm]
    | false =>
      have hst : (encodeMix eq e st false r.1 r.2).1 =
          ⟨st.rows ++ [(S r.1, writeLenient e.fields r.2)], st.rows.length + 1⟩ := by
        simp [encodeMix, hs, setCells, hrow, modify_append_last, hnot]
      rw [ih (i + 1) _ _ (by rw [hst]; simp) (fun r' hr' => h r' (by simp [hr']))]
      rw [hst]
      simp [expMix, hm]

/-- **C16_order_mixed_written** (clause "come back in the same order and number", any WRITER schedule on one
`NewEncoder` encoder): whatever mix of `Encode` and `EncodeFields` calls writes the records, record `i` is
row `i` — its shape with the cells its own call wrote — because both methods share the one row cursor
`e.row`, which advances once per written record. Composed with `C16_order_struct`: `n` `DecodeRow` calls
return `n` rows in order. -/
theorem C16_order_mixed_written (eq : Pt α → Pt α → Bool) (zero : α) (e : EncS) (sched : List Bool)
    (recs : List (Geom α × List Val)) (S : Geom α → Shape α) (G : Shape α → Geom α) (sfs : List SField) (reuse : Bool)
    (hw : ∀ r ∈ recs, fieldShape eq e.geomKind r.1 = .ok (S r.1) ∧ r.2.length ≤ e.fields.length)
    (hr : ∀ r ∈ expMix e sched S recs 0, shp2Geom r.1 = .ok (G r.1) ∧ CallOK zero (fileKeys e.fields) G (.s sfs reuse) r) :
    (writeAllMix eq e sched recs).1 = expMix e sched S recs 0 ∧
    ∃ rows, readS zero ⟨e.shpType, e.fields, (writeAllMix eq e sched recs).1⟩ sfs reuse = ⟨rows, false, false⟩ ∧
      rows.length = recs.length := by
  have hrows : (writeAllMix eq e sched recs).1 = expMix e sched S recs 0 := by
    have := writeAllMix_go_rows eq e sched S recs 0 ⟨[], 0⟩ [] rfl hw
    simpa [writeAllMix] using this
  refine ⟨hrows, ?_⟩
  obtain ⟨rows, h1, h2, _⟩ := C16_order_struct zero ⟨e.shpType, e.fields, (writeAllMix eq e sched recs).1⟩ sfs reuse G (by
    intro r hrm
    simp only [hrows] at hrm
    exact hr r hrm)
  exact ⟨rows, h1, by simpa [hrows, expMix_length] using h2⟩

/-- the values `DecodeRow` leaves in the record are, field by field, what `decodeField` computes from the
row's own cells -/
theorem decodeFields_getElem (zero : α) (keys : List Bytes) (g : Geom α) (cells : List Bytes) :
    ∀ (sfs : List SField) (var vs : List (RVal α)) (e : Bool),
      decodeFields zero keys g cells sfs var = (some vs, e) →
      vs.length = sfs.length ∧
      ∀ p (hp : p < sfs.length), ∃ prev e', ∃ hv : p < vs.length,
        decodeField keys g cells sfs[p] prev = .ok (vs[p], e') := by
  intro sfs
  induction sfs with
  | nil => intro var vs e h; simp [decodeFields] at h; obtain ⟨rfl, _⟩ := h; exact ⟨rfl, fun p hp => absurd hp (by simp)⟩
  | cons sf rest ih =>
    intro var vs e h
    rw [decodeFields] at h
    generalize var.headD (zeroOf zero sf.kind) = prev0 at h
    cases hd : decodeField keys g cells sf prev0 with
    | error f => simp [hd] at h
    | ok ve =>
      obtain ⟨v, e1⟩ := ve
      rw [hd] at h
      cases hr : decodeFields zero keys g cells rest var.tail with
      | mk o e2 =>
        rw [hr] at h
        cases o with
        | none => simp at h
        | some vs' =>
          simp only [Prod.mk.injEq, Option.some.injEq] at h
          obtain ⟨hvs, _⟩ := h
          subst hvs
          obtain ⟨hl, hp'⟩ := ih var.tail vs' e2 hr
          refine ⟨by simp [hl], ?_⟩
          intro p hp
          cases p with
          | zero => exact ⟨_, e1, by simp, by simpa using hd⟩
          | succ p =>
            obtain ⟨prev, e', hv, hdec⟩ := hp' p (by simpa using hp)
            exact ⟨prev, e', by simp; omega, by simpa using hdec⟩

/-- **C16_decodeRow_assigned** ("each matched field is assigned from its own row"): after a `DecodeRow`
call that did not panic, a string field matched to column `j` holds exactly the text of THIS row's cell
`j`, and an int/float field whose cell parses holds the parsed value — whatever the record variable held
before the call. -/
theorem C16_decodeRow_assigned (zero : α) (keys : List Bytes) (g : Geom α) (cells : List Bytes)
    (sfs : List SField) (var vs : List (RVal α)) (e : Bool)
    (h : decodeFields zero keys g cells sfs var = (some vs, e))
    (p : Nat) (hp : p < sfs.length) (j : Nat) (cell : Bytes)
    (hm : matchField keys sfs[p] = some j) (hc : cells[j]? = some cell) :
    (sfs[p].kind = .str → vs[p]? = some (.str (strOf cell))) ∧
    (∀ i, sfs[p].kind = .int → parseInt (numText cell) = some i → vs[p]? = some (.int i)) ∧
    (∀ u, sfs[p].kind = .float → parseFloat (numText cell) = some u → vs[p]? = some (.float u)) := by
  obtain ⟨hl, hall⟩ := decodeFields_getElem zero keys g cells sfs var vs e h
  obtain ⟨prev, e', hv, hdec⟩ := hall p hp
  have ha := C16_assigned keys g cells sfs[p] j cell prev hm hc
  refine ⟨?_, ?_, ?_⟩
  · intro hk
    have := ha.1 hk
    rw [hdec] at this
    simp only [Except.ok.injEq, Prod.mk.injEq] at this
    rw [List.getElem?_eq_getElem hv, this.1]
  · intro i hk hpi
    have := ha.2.1 i hk hpi
    rw [hdec] at this
    simp only [Except.ok.injEq, Prod.mk.injEq] at this
    rw [List.getElem?_eq_getElem hv, this.1]
  · intro u hk hpu
    have := ha.2.2 u hk hpu
    rw [hdec] at this
    simp only [Except.ok.injEq, Prod.mk.injEq] at this
    rw [List.getElem?_eq_getElem hv, this.1]

end order

/-! ## composition: "column i is matched by field i", and the struct path end to end -/

theorem lowerB_idem (c : UInt8) : lowerB (lowerB c) = lowerB c := by
  rcases c with ⟨⟨f⟩⟩
  revert f
  decide +kernel

theorem lower_idem (b : Bytes) : lower (lower b) = lower b := by
  simp [lower, List.map_map, Function.comp_def, lowerB_idem]

/-- a name the DBF header carries unchanged: 1–11 bytes, no NUL, no white space at either end -/
def Plain (b : Bytes) : Prop :=
  b ≠ [] ∧ b.length ≤ 11 ∧ (∀ x ∈ b, x ≠ 0) ∧ (∀ x, b.head? = some x → isWs x = false) ∧
    (∀ x, b.getLast? = some x → isWs x = false)

theorem takeWhile_all' (p : UInt8 → Bool) : ∀ (b : Bytes), (∀ x ∈ b, p x = true) → b.takeWhile p = b
  | [], _ => rfl
  | a :: t, h => by
    simp [List.takeWhile, h a (by simp), takeWhile_all' p t (fun x hx => h x (by simp [hx]))]

/-- **C16_name_roundtrip**: `shpFieldName2String` undoes the copy into the `[11]byte` header field for
every plain name (`copy(field.Name[:], name)` then trim NULs, cut at NUL, `TrimSpace`) -/
theorem C16_name_roundtrip (b : Bytes) (h : Plain b) : fieldNameString (name11 b) = b := by
  obtain ⟨hne, hlen, hnul, hhead, hlast⟩ := h
  have hz : ∀ x ∈ List.replicate (11 - b.length) (0 : UInt8), isNul x = true := by
    intro x hx; simp [List.mem_replicate] at hx; simp [isNul, hx.2]
  have h11 : name11 b = b ++ List.replicate (11 - b.length) 0 := by
    simp [name11, List.take_of_length_le hlen]
  have h1 : trim isNul (name11 b) = b := by
    rw [h11]; unfold trim
    have hd : (b ++ List.replicate (11 - b.length) 0).dropWhile isNul = b ++ List.replicate (11 - b.length) 0 := by
      apply dropWhile_id
      intro x hx
      obtain ⟨a, t, rfl⟩ := List.exists_cons_of_ne_nil hne
      simp at hx
      have := hnul a (by simp)
      rw [← hx]; simp [isNul, this]
    rw [hd, rtrim_append_cut _ _ _ hz]
    apply rtrim_id
    intro x hx
    have := hnul x (mem_of_getLast? hx)
    simp [isNul, this]
  unfold fieldNameString
  simp only [h1]
  rw [takeWhile_all' _ b (fun x hx => by simp [hnul x hx])]
  unfold trim
  rw [dropWhile_id isWs b hhead]
  exact rtrim_id isWs b hlast

/-- the attribute fields of a struct type, in field order -/
def attrsOf (sfs : List SField) : List SField :=
  sfs.filter fun sf => match sf.kind with | .int => true | .float => true | .str => true | .geom _ => false

/-- the name `NewEncoder` gives the column of a field: lower-cased tag, or the field name -/
def effName (sf : SField) : Bytes := if lower sf.tag = [] then sf.name else lower sf.tag

/-- the key `getFieldIndices` files that column under -/
def keyOf (sf : SField) : Bytes := lower (effName sf)

theorem newEncoder_go_fields : ∀ (sfs : List SField) (fs : List Field) (g : Option GK) (fs' : List Field) (g' : Option GK),
    newEncoder.go sfs fs g = .ok (fs', g') → fs' = fs.reverse ++ (attrsOf sfs).map colField := by
  intro sfs
  induction sfs with
  | nil => intro fs g fs' g' h; simp [newEncoder.go] at h; simp [attrsOf, h.1]
  | cons sf rest ih =>
    intro fs g fs' g' h
    rw [newEncoder.go] at h
    cases hk : sf.kind with
    | int => simp only [hk] at h; have := ih _ _ _ _ h; simp [attrsOf, hk, this]
    | float => simp only [hk] at h; have := ih _ _ _ _ h; simp [attrsOf, hk, this]
    | str => simp only [hk] at h; have := ih _ _ _ _ h; simp [attrsOf, hk, this]
    | geom k =>
      rw [hk] at h
      cases k
      case I => simp at h
      all_goals (simp only at h; have := ih _ _ _ _ h; simp [attrsOf, hk, this])

/-- **C16_columns**: the columns `NewEncoder` creates are the attribute fields of the archetype in field
order, one column each (geometry fields contribute none) -/
theorem C16_columns (sfs : List SField) (e : EncS) (h : newEncoder sfs = .ok e) :
    e.fields = (attrsOf sfs).map colField := by
  unfold newEncoder at h
  cases hg : newEncoder.go sfs [] none with
  | error f => simp [hg] at h
  | ok p =>
    obtain ⟨fs, g⟩ := p
    have hf := newEncoder_go_fields sfs [] none fs g hg
    simp only [List.reverse_nil, List.nil_append] at hf
    rw [hg] at h
    cases g with
    | none => simp at h
    | some k =>
      simp only at h
      cases ht : shapeTypeOfGK k with
      | none => simp [ht] at h
      | some t => simp [ht] at h; rw [← h]; exact hf

theorem fileKeys_columns (attrs : List SField) (hp : ∀ sf ∈ attrs, Plain (effName sf)) :
    fileKeys (attrs.map colField) = attrs.map keyOf := by
  unfold fileKeys
  rw [List.map_map]
  apply List.map_congr_left
  intro sf hsf
  have hname : (colField sf).name = name11 (effName sf) := by
    unfold colField; cases sf.kind <;> rfl
  simp only [Function.comp, hname, C16_name_roundtrip _ (hp sf hsf), keyOf]

theorem keyOf_ne_nil (sf : SField) (h : Plain (effName sf)) : keyOf sf ≠ [] := by
  unfold keyOf lower
  intro hnil
  exact h.1 (List.map_eq_nil_iff.mp hnil)

/-- **C16_match_self** ("column i is matched by field i"): for a struct type whose attribute fields have
plain column names with pairwise distinct lower-cased keys, `DecodeRow` matches the `i`-th attribute field —
or any field `rf` with the same tag and name up to case — to the `i`-th column. -/
theorem C16_match_self (attrs : List SField) (hp : ∀ sf ∈ attrs, Plain (effName sf))
    (hd : ∀ a b (ha : a < attrs.length) (hb : b < attrs.length), keyOf attrs[a] = keyOf attrs[b] → a = b)
    (i : Nat) (hi : i < attrs.length) (rf : SField)
    (htag : lower rf.tag = lower attrs[i].tag) (hname : lower rf.name = lower attrs[i].name) :
    matchField (fileKeys (attrs.map colField)) rf = some i := by
  rw [fileKeys_columns attrs hp]
  have hlast : IsLast (attrs.map keyOf) (keyOf attrs[i]) i := by
    refine ⟨by simp [List.getElem?_eq_getElem hi], ?_⟩
    intro c' hc' heq
    rcases Nat.lt_or_ge c' attrs.length with hlt | hge
    · simp [List.getElem?_eq_getElem hlt] at heq
      have := hd c' i hlt hi heq
      omega
    · simp [List.getElem?_eq_none (by simpa using hge)] at heq
  unfold matchField
  rw [htag, hname]
  by_cases ht : lower attrs[i].tag = []
  · -- no tag: the empty key is no column, the field name decides
    have hk : keyOf attrs[i] = lower attrs[i].name := by simp [keyOf, effName, ht]
    have hnone : lastIdx (attrs.map keyOf) (lower attrs[i].tag) = none := by
      rw [ht, lastIdx_none]
      intro j hj
      rcases Nat.lt_or_ge j attrs.length with hlt | hge
      · simp [List.getElem?_eq_getElem hlt] at hj
        exact keyOf_ne_nil _ (hp _ (List.getElem_mem hlt)) hj
      · simp [List.getElem?_eq_none (by simpa using hge)] at hj
    rw [hnone]
    simp only
    rw [← hk]
    exact (lastIdx_spec _ _ _).mpr hlast
  · have hk : keyOf attrs[i] = lower attrs[i].tag := by simp [keyOf, effName, ht, lower_idem]
    rw [← hk, (lastIdx_spec _ _ _).mpr hlast]

theorem writeStrict_cells : ∀ (fs : List Field) (vs : List Val), fs.length = vs.length →
    (∀ i (hi : i < fs.length) (hv : i < vs.length), writeAttr fs[i] vs[i] = some (render fs[i] vs[i])) →
    (writeStrict fs vs).2 = true ∧
    ∀ i (hi : i < fs.length) (hv : i < vs.length), (writeStrict fs vs).1[i]? = some (cellOf fs[i].size (render fs[i] vs[i])) := by
  intro fs
  induction fs with
  | nil => intro vs hl _; exact ⟨by cases vs <;> simp [writeStrict], fun i hi => absurd hi (by simp)⟩
  | cons f fs ih =>
    intro vs hl h
    cases vs with
    | nil => simp at hl
    | cons v vs =>
      have h0 := h 0 (by simp) (by simp)
      simp only [List.getElem_cons_zero] at h0
      have := ih vs (by simpa using hl) (fun i hi hv => by
        have := h (i + 1) (by simp; omega) (by simp; omega)
        simpa using this)
      simp only [writeStrict, h0]
      refine ⟨this.1, ?_⟩
      intro i hi hv
      cases i with
      | zero => simp
      | succ i => simpa using this.2 i (by simpa using hi) (by simpa using hv)

theorem writeAttr_fits (f : Field) (v : Val) (h : writeAttr f v = some (render f v)) : (render f v).length ≤ f.size := by
  unfold writeAttr at h
  simp only at h
  split at h
  · cases h
  · omega

/-- **C16_struct_roundtrip** (the struct path end to end: "integer attributes are equal, NUL-free strings
up to 50 bytes are equal and floats agree to 10 decimal places, matched to struct fields by tag or name
case-insensitively"): take any archetype `sfs` accepted by `NewEncoder` whose attribute fields have plain
column names (≤ 11 bytes, NUL-free) with pairwise distinct lower-cased keys, and a record whose values all
fit their columns. Then `Encode` reports no attribute error, and `DecodeRow` — into a record variable
holding anything (`prev`), through any field `rf` that has the `i`-th field's tag and name up to case —
returns: the string itself when it satisfies `StrOK 50`; the integer itself for every Go int; and, under
the float rendering contract, a float `close` to the one written. -/
theorem C16_struct_roundtrip {α : Type} (sfs : List SField) (e : EncS) (henc : newEncoder sfs = .ok e)
    (hp : ∀ sf ∈ attrsOf sfs, Plain (effName sf))
    (hd : ∀ a b (ha : a < (attrsOf sfs).length) (hb : b < (attrsOf sfs).length),
      keyOf (attrsOf sfs)[a] = keyOf (attrsOf sfs)[b] → a = b)
    (vals : List Val) (hl : e.fields.length = vals.length)
    (hfit : ∀ i (hi : i < e.fields.length) (hv : i < vals.length),
      writeAttr e.fields[i] vals[i] = some (render e.fields[i] vals[i]))
    (g : Geom α) (i : Nat) (hi : i < (attrsOf sfs).length) (hv : i < vals.length) (rf : SField) (prev : RVal α)
    (hkind : rf.kind = (attrsOf sfs)[i].kind)
    (htag : lower rf.tag = lower (attrsOf sfs)[i].tag) (hname : lower rf.name = lower (attrsOf sfs)[i].name) :
    let cells := (writeStrict e.fields vals).1
    let keys := fileKeys e.fields
    (writeStrict e.fields vals).2 = true ∧
    (∀ s, rf.kind = .str → vals[i] = .str s → StrOK stringLength s →
      decodeField keys g cells rf prev = .ok (.str s, false)) ∧
    (∀ z : Int, rf.kind = .int → vals[i] = .int z → -(2 ^ 63 : Int) ≤ z → z < 2 ^ 63 →
      decodeField keys g cells rf prev = .ok (.int z, false)) ∧
    (∀ (close : UInt64 → UInt64 → Prop) u, FloatFmt (fmtFloat floatPrecision) parseFloat close →
      rf.kind = .float → vals[i] = .float u →
      ∃ y, decodeField keys g cells rf prev = .ok (.float y, false) ∧ close u y) := by
  intro cells keys
  have hcols := C16_columns sfs e henc
  have hi' : i < e.fields.length := by rw [hcols]; simpa using hi
  have hfield : e.fields[i] = colField (attrsOf sfs)[i] := by simp [hcols]
  obtain ⟨hok, hcells⟩ := writeStrict_cells e.fields vals hl hfit
  have hcell := hcells i hi' hv
  have hmatch : matchField keys rf = some i := by
    show matchField (fileKeys e.fields) rf = some i
    rw [hcols]
    exact C16_match_self (attrsOf sfs) hp hd i hi rf htag hname
  have hlen := writeAttr_fits _ _ (hfit i hi' hv)
  refine ⟨hok, ?_, ?_, ?_⟩
  · intro s hk hval hsok
    have hsz : e.fields[i].size = stringLength := by
      rw [hfield]; unfold colField; rw [← hkind, hk]
    rw [(C16_assigned keys g cells rf i _ prev hmatch hcell).1 hk]
    rw [hval] at hlen hcell ⊢
    simp only [render] at hlen ⊢
    have := (C16_string e.fields[i] s hlen (hsz ▸ hsok)).2
    rw [this]
  · intro z hk hval h1 h2
    rw [hval] at hlen hcell
    simp only [render] at hlen hcell
    have hint := C16_int e.fields[i] z h1 h2 hlen
    have := (C16_assigned keys g cells rf i _ prev hmatch hcell).2.1 z hk hint.2.1
    exact this
  · intro close u hfmt hk hval
    have hprec : e.fields[i].prec = floatPrecision := by
      rw [hfield]; unfold colField; rw [← hkind, hk]
    rw [hval] at hlen hcell
    simp only [render, hprec] at hlen hcell
    obtain ⟨⟨y, hy, hc⟩, _⟩ := C16_float hfmt u e.fields[i].size hlen
    exact ⟨y, (C16_assigned keys g cells rf i _ prev hmatch hcell).2.2 y hk hy, hc⟩

end GeomV.C16
