import GeomV.Common.Geom
import GeomV.C17.Dec
/-!
# C16 — model of `/repo/encoding/shp/{shp.go,shp2geom.go}` (wrapping `github.com/jonas-p/go-shp`)

Function by function, core Lean only.  What is transcribed from **go-shp** (module
`github.com/jonas-p/go-shp v0.1.2-0.20190401125246-9fd306ae10a6`,
go.sum `h1:h5O7ee4tlSPVjdC75eSLX7jXZiHftthuHio/GtrhaSM=` — the harness refuses to answer when the module
linked into it has another content hash, see `harness/cmd/c16/main.go: goShpSum`):

* `flatten`, `NewPolyLine` (shapefile.go) → `offsets`, `newPolyLine`
* `Writer.WriteAttribute` (writer.go: `Itoa` / `FormatFloat(v,'f',prec)` / raw bytes, length check against
  `Field.Size`) → `render`, `writeAttr`
* `Writer.Write` + `writeEmptyRecord` (the shape's record and a blank, NUL-filled attribute row are
  appended together) → `blankRow`
* `Reader.ReadAttribute` (`strings.Trim(cell, " ")`) → `readAttribute`
* `StringField/NumberField/FloatField` (`copy` of the name into `[11]byte`) → `name11`

The `.shp/.shx/.dbf` byte layout itself is NOT modelled: a file is an ordered list of
`(shape, cells)` rows plus the field list (`FileM`); that go-shp stores and returns exactly this is the
external contract exercised by the correspondence run through real temporary files.

Coordinates are an arbitrary type `α` with a point equality `eq` (Go: `Point.Equals`, float `==`);
the driver instantiates `α := UInt64` (IEEE bit patterns) and `eq := ptEqBits`.
Byte strings are `List UInt8` (Go strings are byte sequences).
-/
namespace GeomV.C16
open GeomV

abbrev Bytes := List UInt8

inductive Fault where
  | unsupported      -- geom2Shp: "Unsupported geom type"
  | index            -- index out of range
  | makeslice        -- makeslice: len out of range
  | nilDeref         -- typed nil *Bounds
  | reflectSet       -- reflect.Set: value not assignable to the field's type
  | invalidType      -- NewEncoder: "Invalid type ... for field"
  | noShapeField     -- NewEncoder: "Did not find a shape field in the archetype struct"
deriving Repr, DecidableEq, Inhabited

/-! ## (a) geometry ⇄ shape -/

/-- go-shp shapes (Box/NumParts/NumPoints are functions of the rest and not returned by `shp2Geom`) -/
inductive Shape (α : Type) where
  | null
  | point (p : Pt α)
  | polyLine (parts : List Nat) (points : List (Pt α))
  | polygon (parts : List Nat) (points : List (Pt α))
  | multiPoint (points : List (Pt α))
deriving Repr, Inhabited

section conv
variable {α : Type}

/-- go-shp `NewPolyLine`: `Parts[i] = marker; marker += len(part)` -/
def offsets {β : Type} : Nat → List (List β) → List Nat
  | _, [] => []
  | m, p :: ps => m :: offsets (m + p.length) ps

/-- go-shp `NewPolyLine(parts)`: `(Parts, Points) = (running offsets, flatten parts)` -/
def newPolyLine (parts : List (List (Pt α))) : List Nat × List (Pt α) := (offsets 0 parts, parts.flatten)

/-- `geom2polygon`: copy the ring index by index (NO reversal: `parts[i][j] = r[j]`), then
`if len(r) > 0 && !r[0].Equals(r[len(r)-1]) { append(parts[i], parts[i][0]) }` -/
def closeRing (eq : Pt α → Pt α → Bool) (r : List (Pt α)) : List (Pt α) :=
  match r, r.getLast? with
  | p :: _, some q => if eq p q then r else r ++ [p]
  | _, _ => r

/-- `geom2Shp` for `*geom.Bounds` (after fix 4d7a28b): the closed five-vertex ring, built directly -/
def rect (mn mx : Pt α) : List (Pt α) := [mn, ⟨mx.x, mn.y⟩, mx, ⟨mn.x, mx.y⟩, mn]

/-- `geom2Shp` -/
def geom2Shp (eq : Pt α → Pt α → Bool) : Geom α → Except Fault (Shape α)
  | .nil => .ok .null
  | .point p => .ok (.point p)
  | .polygon rs => let pl := newPolyLine (rs.map (closeRing eq)); .ok (.polygon pl.1 pl.2)
  | .bounds mn mx => let pl := newPolyLine [rect mn mx]; .ok (.polygon pl.1 pl.2)
  | .lineString l => let pl := newPolyLine [l]; .ok (.polyLine pl.1 pl.2)
  | .multiLineString ls => let pl := newPolyLine ls; .ok (.polyLine pl.1 pl.2)
  | .multiPoint ps => .ok (.multiPoint ps)
  | .multiPolygon _ => .error .unsupported
  | .collection _ => .error .unsupported

/-- `getStartEnd(parts, points, i)`; `parts[i]` / `parts[i+1]` may be out of range -/
def getStartEnd (parts : List Nat) (npoints i : Nat) : Except Fault (Nat × Nat) :=
  match parts[i]? with
  | none => .error .index
  | some s =>
    if i + 1 = parts.length then .ok (s, npoints)
    else match parts[i+1]? with
      | some e => .ok (s, e)
      | none => .error .index

/-- one iteration of the loop of `polygon2geom` / `polyLine2geom`: `make([]Point, end-start)` then
`out[j-start] = points[j]` for `start ≤ j < end` (either direction; no reversal) -/
def partAt (parts : List Nat) (points : List (Pt α)) (i : Nat) : Except Fault (List (Pt α)) :=
  match getStartEnd parts points.length i with
  | .error f => .error f
  | .ok (s, e) =>
    if e < s then .error .makeslice
    else if s < e ∧ points.length < e then .error .index
    else .ok ((points.drop s).take (e - s))

/-- `for i := 0; i < len(s.Parts); i++ { … }` -/
def cutParts (parts : List Nat) (points : List (Pt α)) : Except Fault (List (List (Pt α))) :=
  (List.range parts.length).mapM (partAt parts points)

/-- `shp2Geom` (2-D shape types; `FixOrientation` is false) -/
def shp2Geom : Shape α → Except Fault (Geom α)
  | .null => .ok .nil
  | .point p => .ok (.point p)
  | .polygon parts points => (cutParts parts points).map .polygon
  | .polyLine parts points => (cutParts parts points).map .multiLineString
  | .multiPoint ps => .ok (.multiPoint ps)

end conv

/-! ### float `==` on bit patterns (driver instance of `eq`) -/

def isNaNBits (u : UInt64) : Bool := (u.toNat / 2 ^ 52) % 2048 == 2047 && u.toNat % 2 ^ 52 != 0
def isZeroBits (u : UInt64) : Bool := u.toNat % 2 ^ 63 == 0
/-- Go `a == b` on float64 -/
def feqBits (a b : UInt64) : Bool := !isNaNBits a && !isNaNBits b && (a == b || (isZeroBits a && isZeroBits b))
/-- `Point.Equals` -/
def ptEqBits (p q : Pt UInt64) : Bool := feqBits p.x q.x && feqBits p.y q.y

/-! ## (b) attribute cells -/

structure Field where
  name : Bytes      -- the `[11]byte`
  typ : Nat
  size : Nat        -- uint8
  prec : Nat        -- uint8
deriving Repr, DecidableEq, Inhabited

inductive Val where
  | int (i : Int)
  | float (u : UInt64)
  | str (b : Bytes)
deriving Repr, DecidableEq, Inhabited

def digitByte (k : Nat) : UInt8 := UInt8.ofNat (48 + k)

/-- decimal digits, most significant first (`"0"` for 0) -/
def natDigits (n : Nat) : Bytes :=
  if h : n < 10 then [digitByte n] else natDigits (n / 10) ++ [digitByte (n % 10)]
termination_by n
decreasing_by omega

/-- `strconv.Itoa` -/
def fmtInt (z : Int) : Bytes := if z < 0 then 45 :: natDigits z.natAbs else natDigits z.natAbs

/-- round `a / b` to the nearest integer, ties to even (`strconv` decimal rounding) -/
def roundHalfEven (a b : Nat) : Nat :=
  let q := a / b
  let r := a % b
  if 2 * r > b ∨ (2 * r = b ∧ q % 2 = 1) then q + 1 else q

def padLeft (w : Nat) (b : Bytes) : Bytes := List.replicate (w - b.length) 48 ++ b

/-- the scaled integer `N = round(num/den · 10^prec)` whose digits are printed -/
def fixedN (num den prec : Nat) : Nat := roundHalfEven (num * 10 ^ prec) den

/-- `strconv.FormatFloat(±num/den, 'f', prec, 64)` for a finite value: exact value rounded half-even to
`prec` decimals; the sign is printed whenever the sign bit is set (also for `-0.0000000000`) -/
def fmtFixed (neg : Bool) (num den prec : Nat) : Bytes :=
  let n := fixedN num den prec
  let ip := natDigits (n / 10 ^ prec)
  let s := if prec = 0 then ip else ip ++ 46 :: padLeft prec (natDigits (n % 10 ^ prec))
  if neg then 45 :: s else s

/-- sign, and magnitude as a fraction, of a finite binary64; `none` for NaN and ±Inf -/
def decompose (u : UInt64) : Option (Bool × Nat × Nat) :=
  let n := u.toNat
  let neg := n / 2 ^ 63 == 1
  let e := (n / 2 ^ 52) % 2048
  let m := n % 2 ^ 52
  if e = 2047 then none
  else if e = 0 then some (neg, m, 2 ^ 1074)
  else if e ≥ 1075 then some (neg, (2 ^ 52 + m) * 2 ^ (e - 1075), 1)
  else some (neg, 2 ^ 52 + m, 2 ^ (1075 - e))

def strBytes (s : String) : Bytes := s.toUTF8.toList

/-- `strconv.FormatFloat(v, 'f', prec, 64)` -/
def fmtFloat (prec : Nat) (u : UInt64) : Bytes :=
  match decompose u with
  | some (neg, num, den) => fmtFixed neg num den prec
  | none => if isNaNBits u then [78, 97, 78] else if u.toNat / 2 ^ 63 == 1 then [45, 73, 110, 102] else [43, 73, 110, 102]

/-- the bytes `WriteAttribute` wants to store -/
def render (f : Field) : Val → Bytes
  | .int i => fmtInt i
  | .float u => fmtFloat f.prec u
  | .str b => b

/-- `WriteAttribute`: `none` = the error "exceeds field length" (nothing is written) -/
def writeAttr (f : Field) (v : Val) : Option Bytes :=
  let b := render f v
  if b.length > f.size then none else some b

/-- a cell after `buf` was written at its start into the NUL-filled blank row -/
def cellOf (size : Nat) (b : Bytes) : Bytes := b ++ List.replicate (size - b.length) 0
def blankCell (size : Nat) : Bytes := List.replicate size 0

/-! ### reading cells -/

/-- drop trailing bytes in the cut set -/
def rtrim (cut : UInt8 → Bool) : Bytes → Bytes
  | [] => []
  | b :: bs => match rtrim cut bs with
    | [] => if cut b then [] else [b]
    | r => b :: r

/-- `strings.Trim(s, cutset)` for an ASCII cut set -/
def trim (cut : UInt8 → Bool) (b : Bytes) : Bytes := rtrim cut (b.dropWhile cut)

def isSp (b : UInt8) : Bool := b == 32
def isNul (b : UInt8) : Bool := b == 0
def isNulSp (b : UInt8) : Bool := b == 0 || b == 32

/-- go-shp `ReadAttribute`: `strings.Trim(string(buf), " ")` -/
def readAttribute (cell : Bytes) : Bytes := trim isSp cell
/-- `strings.Trim(dataStr, "\x00")` (string struct fields and `DecodeRowFields`) -/
def strOf (cell : Bytes) : Bytes := trim isNul (readAttribute cell)
/-- `strings.Trim(attr, "\x00 ")` (int and float struct fields) -/
def numText (cell : Bytes) : Bytes := trim isNulSp (readAttribute cell)

def isDigitB (b : UInt8) : Bool := 48 ≤ b && b ≤ 57
def digitsValB (ds : Bytes) : Nat := ds.foldl (fun a c => a * 10 + (c.toNat - 48)) 0

/-- `strconv.ParseInt(s, 10, 64)`: optional sign, at least one digit, nothing else, int64 range -/
def takeSignB : Bytes → Bool × Bytes
  | 45 :: r => (true, r)
  | 43 :: r => (false, r)
  | s => (false, s)

def parseInt (s : Bytes) : Option Int :=
  let neg := (takeSignB s).1
  let d := (takeSignB s).2
  if d.isEmpty || !d.all isDigitB then none
  else
    let n := digitsValB d
    if neg then (if n ≤ 2 ^ 63 then some (-(n : Int)) else none)
    else (if n < 2 ^ 63 then some (n : Int) else none)

def bytesToChars (b : Bytes) : List Char := b.map fun c => Char.ofNat c.toNat

/-- `strconv.ParseFloat(s, 64)` on the texts that occur: decimal literals (correctly rounded, `Dec.toBits`;
overflow to ±Inf is the range error) and the three non-finite renderings of `FormatFloat`.
Hex floats, `_`, `inf`/`infinity`/`nan` in other spellings are NOT modelled (the generator does not
produce them in cells that are parsed as numbers). `some none` … parse error. -/
def parseFloat (s : Bytes) : Option UInt64 :=
  if s = [78, 97, 78] then some 0x7FF8000000000001
  else if s = [43, 73, 110, 102] then some 0x7FF0000000000000
  else if s = [45, 73, 110, 102] then some 0xFFF0000000000000
  else match Dec.toBits (bytesToChars s) with
    | some u => if Dec.isFiniteBits u then some u else none
    | none => none

/-! ## (c) field matching -/

def lowerB (c : UInt8) : UInt8 := if 65 ≤ c && c ≤ 90 then c + 32 else c
/-- `strings.ToLower` on ASCII (names with non-ASCII upper-case letters are outside the model) -/
def lower (b : Bytes) : Bytes := b.map lowerB

/-- `copy(field.Name[:], []byte(name))` into a zeroed `[11]byte` -/
def name11 (b : Bytes) : Bytes := b.take 11 ++ List.replicate (11 - b.length) 0

def isWs (b : UInt8) : Bool := b == 32 || (9 ≤ b && b ≤ 13)

/-- `shpFieldName2String`: trim NULs, cut at the first NUL, `strings.TrimSpace` -/
def fieldNameString (name : Bytes) : Bytes :=
  let b := trim isNul name
  trim isWs (b.takeWhile (· != 0))

/-- `getFieldIndices`: `map[lower(name)] = i` filled in field order, so the LAST column with a given
key wins -/
def lastIdx (keys : List Bytes) (k : Bytes) : Option Nat :=
  let rec go : List Bytes → Nat → Option Nat → Option Nat
    | [], _, acc => acc
    | x :: xs, i, acc => go xs (i + 1) (if x = k then some i else acc)
  go keys 0 none

def fileKeys (fields : List Field) : List Bytes := fields.map fun f => lower (fieldNameString f.name)

/-- geometry kinds of struct fields -/
inductive GK where | P | MP | LS | MLS | PG | B | I
deriving Repr, DecidableEq, Inhabited

inductive Kind where
  | int | float | str
  | geom (g : GK)
deriving Repr, DecidableEq, Inhabited

structure SField where
  name : Bytes
  tag : Bytes
  kind : Kind
deriving Repr, DecidableEq, Inhabited

/-- what `DecodeRow` looks a struct field up by -/
inductive Lookup where | tag | name
deriving Repr, DecidableEq, Inhabited

def Lookup.sel : Lookup → SField → Bytes
  | .tag, sf => sf.tag
  | .name, sf => sf.name

/-- the attribute lookups of `DecodeRow` in a given order: the first one that names a column decides -/
def matchFieldOrder (order : List Lookup) (keys : List Bytes) (sf : SField) : Option Nat :=
  match order with
  | [] => none
  | w :: ws => match lastIdx keys (lower (w.sel sf)) with
    | some j => some j
    | none => matchFieldOrder ws keys sf

/-- `DecodeRow`: tag first, then field name, both lower-cased -/
def matchField (keys : List Bytes) (sf : SField) : Option Nat :=
  match lastIdx keys (lower sf.tag) with
  | some j => some j
  | none => lastIdx keys (lower sf.name)

/-- `NewEncoder`: column name = lower-cased tag, or the field name (case kept) when there is no tag -/
def colName (sf : SField) : Bytes :=
  let t := lower sf.tag
  name11 (if t = [] then sf.name else t)

/-! ## (d) the file as an ordered store -/

structure FileM (α : Type) where
  shpType : Nat
  fields : List Field
  rows : List (Shape α × List Bytes)
deriving Inhabited

inductive WRes where | ok | err | panic
deriving Repr, DecidableEq, Inhabited

structure EncS where
  shpType : Nat
  fields : List Field
  geomKind : GK
deriving Repr, Inhabited

/-- `const intLength / floatLength / floatPrecision / stringLength` of shp.go (tied to the source by the
regenerated `Gen.lean`) -/
abbrev intLength : Nat := 10
abbrev floatLength : Nat := 30
abbrev floatPrecision : Nat := 10
abbrev stringLength : Nat := 50

/-- the column `NewEncoder` creates for an int / float64 / string struct field:
`shp.NumberField(name, intLength)`, `shp.FloatField(name, floatLength, floatPrecision)`,
`shp.StringField(name, stringLength)` (field types 'N', 'F', 'C') -/
def colField (sf : SField) : Field :=
  match sf.kind with
  | .int => ⟨colName sf, 78, intLength, 0⟩
  | .float => ⟨colName sf, 70, floatLength, floatPrecision⟩
  | _ => ⟨colName sf, 67, stringLength, 0⟩

def shapeTypeOfGK : GK → Option Nat
  | .P => some 1 | .LS => some 3 | .MLS => some 3 | .PG => some 5 | .B => some 5 | .MP => some 8 | .I => none

/-- `NewEncoder`: one pass over the struct fields; attribute columns in field order; the LAST geometry
field decides shape type and `geomIndex`; a `geom.Geom` interface field is an invalid type -/
def newEncoder (sfs : List SField) : Except Fault EncS :=
  let rec go : List SField → List Field → Option GK → Except Fault (List Field × Option GK)
    | [], fs, g => .ok (fs.reverse, g)
    | sf :: rest, fs, g =>
      match sf.kind with
      | .int => go rest (colField sf :: fs) g
      | .float => go rest (colField sf :: fs) g
      | .str => go rest (colField sf :: fs) g
      | .geom .I => .error .invalidType
      | .geom k => go rest fs (some k)
  match go sfs [] none with
  | .error f => .error f
  | .ok (_, none) => .error .noShapeField
  | .ok (fs, some k) => match shapeTypeOfGK k with
    | some t => .ok ⟨t, fs, k⟩
    | none => .error .invalidType

def blankRow (fields : List Field) : List Bytes := fields.map fun f => blankCell f.size

section store
variable {α : Type}

/-- attribute writes of `Encode` (after fix d0dd046 the row exists already): stop at the first error -/
def writeStrict : List Field → List Val → List Bytes × Bool
  | f :: fs, v :: vs =>
    match writeAttr f v with
    | none => (blankRow (f :: fs), false)
    | some b => let r := writeStrict fs vs; (cellOf f.size b :: r.1, r.2)
  | fs, _ => (blankRow fs, true)

/-- attribute writes of `EncodeFields`: errors are ignored, the cell stays blank -/
def writeLenient : List Field → List Val → List Bytes
  | f :: fs, v :: vs =>
    (match writeAttr f v with
     | none => blankCell f.size
     | some b => cellOf f.size b) :: writeLenient fs vs
  | fs, _ => blankRow fs

/-- `geom2Shp(v.Field(e.geomIndex).Interface().(geom.Geom))`: a nil `*Bounds` is a non-nil interface
value, so the `g == nil` test does not catch it and `Polygons()`/`b.Min` dereferences it -/
def fieldShape (eq : Pt α → Pt α → Bool) : GK → Geom α → Except Fault (Shape α)
  | .B, .nil => .error .nilDeref
  | _, g => geom2Shp eq g

/-- `Encoder.Encode` (struct path). `g` is the value of the geometry field (`nil` only for a nil
`*Bounds`). -/
def encodeS (eq : Pt α → Pt α → Bool) (e : EncS) (rows : List (Shape α × List Bytes)) (g : Geom α) (vals : List Val) :
    List (Shape α × List Bytes) × WRes :=
  match fieldShape eq e.geomKind g with
  | .error .nilDeref => (rows, .panic)
  | .error _ => (rows, .err)
  | .ok sh =>
    let r := writeStrict e.fields vals
    (rows ++ [(sh, r.1)], if r.2 then .ok else .err)

/-- `Encoder.EncodeFields`; more values than fields index `dbfFields` out of range after the shape and
the earlier cells were written -/
def encodeF (eq : Pt α → Pt α → Bool) (fields : List Field) (rows : List (Shape α × List Bytes)) (g : Geom α) (vals : List Val) :
    List (Shape α × List Bytes) × WRes :=
  match geom2Shp eq g with
  | .error _ => (rows, .err)
  | .ok sh =>
    (rows ++ [(sh, writeLenient fields vals)], if vals.length > fields.length then .panic else .ok)

/-- a whole sequence of `EncodeFields` calls: the rows of the file and the per-call results -/
def writeAllF (eq : Pt α → Pt α → Bool) (fields : List Field) (recs : List (Geom α × List Val)) :
    List (Shape α × List Bytes) × List WRes :=
  recs.foldl (fun acc r => let x := encodeF eq fields acc.1 r.1 r.2; (x.1, acc.2 ++ [x.2])) ([], [])

/-- a whole sequence of `Encode` calls -/
def writeAllS (eq : Pt α → Pt α → Bool) (e : EncS) (recs : List (Geom α × List Val)) :
    List (Shape α × List Bytes) × List WRes :=
  recs.foldl (fun acc r => let x := encodeS eq e acc.1 r.1 r.2; (x.1, acc.2 ++ [x.2])) ([], [])

/-! ### writer schedules on ONE encoder (from `NewEncoder`): `Encode` and `EncodeFields` mixed

Both methods address the attribute table through the encoder's own cursor `e.row`: the shape is appended
(go-shp adds the blank row at the END of the table), the attribute cells are written into row `e.row`,
and `e.row++` — ONCE per written record, whichever method wrote it. The cursor is explicit here
(`WState.row`); `C16_order_mixed_written` shows it always equals the number of rows. -/

structure WState (α : Type) where
  rows : List (Shape α × List Bytes)
  row : Nat            -- `e.row`
deriving Inhabited

/-- overwrite the cells of row `i` (the `WriteAttribute(row, ·, ·)` calls of one record) -/
def setCells (rows : List (Shape α × List Bytes)) (i : Nat) (cells : List Bytes) : List (Shape α × List Bytes) :=
  rows.modify i (fun r => (r.1, cells))

/-- one call on the encoder: `viaEncode` … `Encode(struct)`, else `EncodeFields(g, vals...)` with the same
geometry value and attribute values -/
def encodeMix (eq : Pt α → Pt α → Bool) (e : EncS) (st : WState α) (viaEncode : Bool) (g : Geom α) (vals : List Val) :
    WState α × WRes :=
  match fieldShape eq e.geomKind g with
  | .error .nilDeref => (st, .panic)
  | .error _ => (st, .err)
  | .ok sh =>
    let appended := st.rows ++ [(sh, blankRow e.fields)]         -- `Writer.Write(shape)`
    if viaEncode then
      let r := writeStrict e.fields vals
      (⟨setCells appended st.row r.1, st.row + 1⟩, if r.2 then .ok else .err)
    else
      (⟨setCells appended st.row (writeLenient e.fields vals), if vals.length > e.fields.length then st.row else st.row + 1⟩,
        if vals.length > e.fields.length then .panic else .ok)

/-- record `i` is written with method `sched[i mod len]` (`true` = `Encode`) -/
def writeAllMix (eq : Pt α → Pt α → Bool) (e : EncS) (sched : List Bool) (recs : List (Geom α × List Val)) :
    List (Shape α × List Bytes) × List WRes :=
  let rec go : List (Geom α × List Val) → Nat → WState α → List WRes → List (Shape α × List Bytes) × List WRes
    | [], _, st, res => (st.rows, res)
    | r :: rest, i, st, res =>
      let x := encodeMix eq e st ((sched[i % sched.length]?).getD true) r.1 r.2
      go rest (i + 1) x.1 (res ++ [x.2])
  go recs 0 ⟨[], 0⟩ []

end store

/-! ## reading -/

inductive RVal (α : Type) where
  | geom (g : Geom α)
  | int (i : Int)
  | float (u : UInt64)
  | str (b : Bytes)
  | missing            -- DecodeRowFields: key not in the returned map
deriving Inhabited

section read
variable {α : Type}

/-- dynamic type of the value `shp2Geom` returns -/
def dynKind : Geom α → Option GK
  | .point _ => some .P | .multiPoint _ => some .MP | .multiLineString _ => some .MLS | .polygon _ => some .PG
  | _ => none

/-- zero value of a struct field as the harness prints it -/
def zeroOf (zero : α) : Kind → RVal α
  | .int => .int 0 | .float => .float 0 | .str => .str []
  | .geom .P => .geom (.point ⟨zero, zero⟩)
  | .geom .MP => .geom (.multiPoint [])
  | .geom .LS => .geom (.lineString [])
  | .geom .MLS => .geom (.multiLineString [])
  | .geom .PG => .geom (.polygon [])
  | .geom .B => .geom .nil
  | .geom .I => .geom .nil

/-- one struct field of `DecodeRow`. `prev` is what the field of the caller's record variable holds when
the call starts (its zero value for a fresh variable, the previous row's value when the caller reuses one
variable: `var rec T; for d.DecodeRow(&rec) {…}`). Returns the field's value after the call and whether a
parse error was recorded. Every MATCHED attribute field is assigned on every row — also with `""`, `0`,
`0.0`; a field keeps `prev` only when no column matches it, when the shape is Null (`continue`), or when
its cell does not parse. -/
def decodeField (keys : List Bytes) (g : Geom α) (cells : List Bytes) (sf : SField) (prev : RVal α) :
    Except Fault (RVal α × Bool) :=
  match sf.kind with
  | .geom k =>
    match g with
    | .nil => .ok (prev, false)       -- `if g == nil { continue }`
    | _ => if k = .I ∨ dynKind g = some k then .ok (.geom g, false) else .error .reflectSet
  | k =>
    match matchField keys sf with
    | none => .ok (prev, false)
    | some j =>
      match cells[j]? with
      | none => .error .index
      | some cell =>
        match k with
        | .int => match parseInt (numText cell) with
          | some i => .ok (.int i, false)
          | none => .ok (prev, true)
        | .float => match parseFloat (numText cell) with
          | some u => .ok (.float u, false)
          | none => .ok (prev, true)
        | _ => .ok (.str (strOf cell), false)

/-- the struct fields of one `DecodeRow` call in order, `prevs` being the record variable's contents
before the call. `none`: a field panicked; the flag says whether a parse error had been recorded
(`r.err`) by then -/
def decodeFields (zero : α) (keys : List Bytes) (g : Geom α) (cells : List Bytes) :
    List SField → List (RVal α) → Option (List (RVal α)) × Bool
  | [], _ => (some [], false)
  | sf :: rest, prevs =>
    match decodeField keys g cells sf (prevs.headD (zeroOf zero sf.kind)) with
    | .error _ => (none, false)
    | .ok (v, e) =>
      match decodeFields zero keys g cells rest prevs.tail with
      | (none, e') => (none, e || e')
      | (some vs, e') => (some (v :: vs), e || e')

/-- a fresh record variable -/
def zeroRow (zero : α) (sfs : List SField) : List (RVal α) := sfs.map fun sf => zeroOf zero sf.kind

/-- result of reading a whole file: the rows handed to the caller, whether the loop ended in a panic,
and whether `Error()` is non-nil afterwards -/
structure ReadRes (α : Type) where
  rows : List (List (RVal α))
  panicked : Bool
  err : Bool
deriving Inhabited

/-- repeated `DecodeRow` until it returns false (a row with a parse error is still returned; the next
call returns false). `reuse`: the caller decodes every row into the SAME record variable (what it holds
is carried from row to row) instead of a fresh one per row. -/
def readS (zero : α) (f : FileM α) (sfs : List SField) (reuse : Bool) : ReadRes α :=
  let keys := fileKeys f.fields
  let rec go : List (Shape α × List Bytes) → List (RVal α) → ReadRes α
    | [], _ => ⟨[], false, false⟩
    | (sh, cells) :: rest, var =>
      match shp2Geom sh with
      | .error _ => ⟨[], true, false⟩
      | .ok g =>
        match decodeFields zero keys g cells sfs var with
        | (none, e) => ⟨[], true, e⟩
        | (some vs, true) => ⟨[vs], false, true⟩
        | (some vs, false) =>
          let r := go rest (if reuse then vs else zeroRow zero sfs)
          ⟨vs :: r.rows, r.panicked, r.err⟩
  go f.rows (zeroRow zero sfs)

/-- the map `DecodeRowFields(names...)` fills: entries until the first name the file does not have -/
def rowFieldsMap (keys : List Bytes) (cells : List Bytes) : List Bytes → Except Fault (List (Bytes × Bytes) × Bool)
  | [] => .ok ([], false)
  | n :: rest =>
    match lastIdx keys (lower n) with
    | none => .ok ([], true)
    | some j =>
      match cells[j]? with
      | none => .error .index
      | some cell =>
        match rowFieldsMap keys cells rest with
        | .error f => .error f
        | .ok (m, e) => .ok ((n, strOf cell) :: m, e)

/-- what the caller finds in the map under each requested name (`fields[name]`, keyed by the name as
requested) and whether an error was recorded -/
def rowFields (keys : List Bytes) (cells : List Bytes) (names : List Bytes) : Except Fault (List (RVal α) × Bool) :=
  match rowFieldsMap keys cells names with
  | .error f => .error f
  | .ok (m, e) => .ok (names.map (fun n => match m.find? (fun p => p.1 == n) with
      | some p => RVal.str p.2
      | none => RVal.missing), e)

def readF (f : FileM α) (names : List Bytes) : ReadRes α :=
  let keys := fileKeys f.fields
  let rec go : List (Shape α × List Bytes) → ReadRes α
    | [] => ⟨[], false, false⟩
    | (sh, cells) :: rest =>
      match shp2Geom sh with
      | .error _ => ⟨[], true, false⟩
      | .ok g =>
        match rowFields keys cells names with
        | .error _ => ⟨[], true, false⟩
        | .ok (vs, true) => ⟨[.geom g :: vs], false, true⟩
        | .ok (vs, false) => let r := go rest; ⟨(.geom g :: vs) :: r.rows, r.panicked, r.err⟩
  go f.rows

/-- one reading call on a decoder: `DecodeRow(&struct)` or `DecodeRowFields(names...)` -/
inductive Call where
  | s (sfs : List SField) (reuse : Bool)    -- `reuse`: one record variable per call site, carried across rows
  | f (names : List Bytes)
deriving Inhabited

/-- the record variables of the call sites of a schedule (position = call index) -/
def setVar {β : Type} : List β → Nat → β → List β
  | [], _, _ => []
  | _ :: xs, 0, v => v :: xs
  | x :: xs, n + 1, v => x :: setVar xs n v

/-- A reading schedule on ONE `Decoder`: the `i`-th record is read with call `calls[i mod len]` (any mix of
`DecodeRow` and `DecodeRowFields`, any field list per row, also none).
The decoder keeps TWO cursors, both explicit here: the go-shp reader's position in the `.shp` (the list
being consumed: `r.Next()`/`r.Shape()`) and the decoder's own `r.row`, the row `ReadAttribute(r.row, ·)`
reads. Both calls end with `r.row++` for every decoded record, whatever fields were requested
(`DecodeRowFields` returns early — without `r.row++` — only when a requested name is not a column, which
also records the error the loop stops on). -/
def readM (zero : α) (f : FileM α) (calls : List Call) : ReadRes α :=
  let keys := fileKeys f.fields
  let rec go : List (Shape α × List Bytes) → Nat → Nat → List (List (RVal α)) → ReadRes α
    | [], _, _, _ => ⟨[], false, false⟩
    | (sh, _) :: rest, row, i, vars =>
      match calls[i % calls.length]? with
      | none => ⟨[], false, false⟩
      | some call =>
        match shp2Geom sh with
        | .error _ => ⟨[], true, false⟩
        | .ok g =>
          match f.rows[row]? with          -- the attribute row the decoder's own cursor points at
          | none => ⟨[], true, false⟩
          | some (_, cells) =>
            match call with
            | .s sfs reuse =>
              let var := if reuse then (vars[i % calls.length]?).getD (zeroRow zero sfs) else zeroRow zero sfs
              match decodeFields zero keys g cells sfs var with
              | (none, e) => ⟨[], true, e⟩
              | (some vs, true) => ⟨[vs], false, true⟩
              | (some vs, false) =>
                let r := go rest (row + 1) (i + 1) (setVar vars (i % calls.length) vs)
                ⟨vs :: r.rows, r.panicked, r.err⟩
            | .f names =>
              match rowFields keys cells names with
              | .error _ => ⟨[], true, false⟩
              | .ok (vs, true) => ⟨[.geom g :: vs], false, true⟩
              | .ok (vs, false) => let r := go rest (row + 1) (i + 1) vars; ⟨(.geom g :: vs) :: r.rows, r.panicked, r.err⟩
  go f.rows 0 0 (calls.map fun c => match c with | .s sfs _ => zeroRow zero sfs | .f _ => [])

end read

end GeomV.C16
