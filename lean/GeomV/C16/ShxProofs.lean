import GeomV.C16.EndToEnd
set_option linter.unusedSimpArgs false
set_option linter.unusedVariables false
namespace GeomV.C16.Layout
open GeomV GeomV.C16

/-!
# C16 — the `.shx` index, the stored record boxes and the file header box

`EndToEnd.lean` follows `recs` and `num` of the byte-level writer over a whole call history; here the remaining
two fields, `idx` (the `.shx`) and `bbox` (the header box), are followed too, and the stored boxes are characterised
(`Box.ExtendWithPoint` is a running `<`-minimum / maximum, `Bounds.extendPoint` is `math.Min` / `math.Max`).
Core Lean only.
-/

/-! ## PART 1 — the `.shx` index -/

/-- length of `recordBytes t num s` -/
def recLenB (s : BShape) : Nat := 12 + (shapeBytes s).length
/-- byte offset of record `i` in the `.shp` -/
def offOf (shapes : List BShape) (i : Nat) : Nat := 100 + ((shapes.take i).map recLenB).sum
/-- the `.shx` entries for records that start at byte `off` of the `.shp` -/
def idxOf : Nat → List BShape → Bytes
  | _, [] => []
  | off, s :: ss => be32 (off / 2) ++ be32 ((4 + (shapeBytes s).length) / 2) ++ idxOf (off + recLenB s) ss
/-- the header box `Writer.Write` accumulates (`if w.num == 0 { w.bbox = shape.BBox() } else { w.bbox.Extend(…) }`) -/
def bboxOfShapes : List BShape → Box
  | [] => ⟨0, 0, 0, 0⟩
  | s :: ss => ss.foldl (fun b x => extendBox b x.bbox) s.bbox

theorem recordBytes_length (t n : Nat) (s : BShape) : (recordBytes t n s).length = recLenB s := by
  simp [recordBytes, recLenB, be32, le32]; omega

theorem recsOf_length (t : Nat) : ∀ (ss : List BShape) (k : Nat), (recsOf t k ss).length = (ss.map recLenB).sum
  | [], k => rfl
  | s :: ss, k => by simp [recsOf, recordBytes_length, recsOf_length t ss (k + 1)]

theorem idxOf_length : ∀ (ss : List BShape) (off : Nat), (idxOf off ss).length = 8 * ss.length
  | [], off => rfl
  | s :: ss, off => by simp [idxOf, idxOf_length ss, be32]; omega

theorem idxOf_append : ∀ (ss : List BShape) (off : Nat) (s : BShape),
    idxOf off (ss ++ [s]) = idxOf off ss ++ be32 ((off + (ss.map recLenB).sum) / 2) ++ be32 ((4 + (shapeBytes s).length) / 2)
  | [], off, s => by simp [idxOf]
  | a :: ss, off, s => by
    simp only [List.cons_append, idxOf, idxOf_append ss (off + recLenB a) s, List.map_cons, List.sum_cons, List.append_assoc,
      Nat.add_assoc]

theorem bboxOfShapes_append (ss : List BShape) (s : BShape) :
    bboxOfShapes (ss ++ [s]) = if ss.length = 0 then s.bbox else extendBox (bboxOfShapes ss) s.bbox := by
  cases ss with
  | nil => simp [bboxOfShapes]
  | cons a ss => simp [bboxOfShapes, List.foldl_append]

/-- the four fields of the writer `Sync` does not fully follow, in closed form -/
structure ShxInv (t : Nat) (w : BW) (shapes : List BShape) : Prop where
  recs : w.recs = recsOf t 0 shapes
  num : w.num = shapes.length
  idx : w.idx = idxOf 100 shapes
  bbox : w.bbox = bboxOfShapes shapes

theorem shxInv_create (t : Nat) (fs : List Field) : ShxInv t (create fs) [] := ⟨rfl, rfl, rfl, rfl⟩

theorem write_inv (t : Nat) (fs : List Field) (w : BW) (shapes : List BShape) (s : BShape) (h : ShxInv t w shapes) :
    ShxInv t (write t fs w s) (shapes ++ [s]) := by
  obtain ⟨h1, h2, h3, h4⟩ := h
  refine ⟨?_, ?_, ?_, ?_⟩
  · simp only [write]; rw [recsOf_append, h1, h2]; simp
  · simp [write, h2]
  · simp only [write]; rw [idxOf_append, h3, h1, recsOf_length]
  · simp only [write]; rw [bboxOfShapes_append, h4, h2]

theorem encode_ok_fields (t : Nat) (fs : List Field) (w : BW) (via : Bool) (sh : BShape) (vals : List Val) :
    (encode t fs w via (.ok sh) vals).1.recs = (write t fs w sh).recs ∧
    (encode t fs w via (.ok sh) vals).1.num = (write t fs w sh).num ∧
    (encode t fs w via (.ok sh) vals).1.idx = (write t fs w sh).idx ∧
    (encode t fs w via (.ok sh) vals).1.bbox = (write t fs w sh).bbox := by
  cases via <;> simp [encode]

theorem encode_inv (t : Nat) (fs : List Field) (w : BW) (shapes : List BShape) (c : CallB) (h : ShxInv t w shapes) :
    ShxInv t (encode t fs w c.via c.shape c.vals).1 (shapes ++ shapesOf [c]) := by
  obtain ⟨via, shape, vals⟩ := c
  cases shape with
  | error f => cases f <;> simp [encode, shapesOf] <;> exact h
  | ok s =>
    have hw := write_inv t fs w shapes s h
    obtain ⟨e1, e2, e3, e4⟩ := encode_ok_fields t fs w via s vals
    have hs : shapesOf [(⟨via, .ok s, vals⟩ : CallB)] = [s] := by simp [shapesOf]
    rw [hs]
    exact ⟨e1.trans hw.recs, e2.trans hw.num, e3.trans hw.idx, e4.trans hw.bbox⟩

theorem run_inv (t : Nat) (fs : List Field) : ∀ (calls : List CallB) (w : BW) (shapes : List BShape) (res : List WRes),
    ShxInv t w shapes →
    ShxInv t (calls.foldl (fun (acc : BW × List WRes) c => let x := encode t fs acc.1 c.via c.shape c.vals; (x.1, acc.2 ++ [x.2]))
      (w, res)).1 (shapes ++ shapesOf calls)
  | [], w, shapes, res, h => by simpa [shapesOf] using h
  | c :: calls, w, shapes, res, h => by
    have h2 := encode_inv t fs w shapes c h
    have ih := run_inv t fs calls _ _ (res ++ [(encode t fs w c.via c.shape c.vals).2]) h2
    simp only [List.foldl_cons]
    rw [show c :: calls = [c] ++ calls from rfl, shapesOf_append, ← List.append_assoc]
    exact ih

/-- **C16_shx_invariant**: after ANY call history the `.shx` body, the header box and the `.shp` body of the writer
are the closed forms over the shapes written -/
theorem C16_shx_invariant (t : Nat) (fs : List Field) (calls : List CallB) :
    (runB t fs calls).1.idx = idxOf 100 (shapesOf calls) ∧
    (runB t fs calls).1.bbox = bboxOfShapes (shapesOf calls) ∧
    (runB t fs calls).1.recs = recsOf t 0 (shapesOf calls) ∧
    (runB t fs calls).1.num = (shapesOf calls).length := by
  have h := run_inv t fs calls (create fs) [] [] (shxInv_create t fs)
  simp only [List.nil_append] at h
  exact ⟨h.idx, h.bbox, h.recs, h.num⟩

theorem drop_len_add : ∀ (a r : Bytes) (k : Nat), (a ++ r).drop (a.length + k) = r.drop k
  | [], r, k => by simp
  | x :: a, r, k => by
    rw [List.length_cons, Nat.add_right_comm]; exact drop_len_add a r k

theorem take4_be32 (n : Nat) (r : Bytes) : (be32 n ++ r).take 4 = be32 n := rfl
theorem drop4_be32 (n : Nat) (r : Bytes) : (be32 n ++ r).drop 4 = r := rfl

theorem idxOf_drop : ∀ (ss : List BShape) (off i : Nat) (hi : i < ss.length),
    ∃ rest, (idxOf off ss).drop (8 * i)
      = be32 ((off + ((ss.take i).map recLenB).sum) / 2) ++ be32 ((4 + (shapeBytes ss[i]).length) / 2) ++ rest
  | [], _, _, hi => by simp at hi
  | s :: ss, off, 0, _ => ⟨idxOf (off + recLenB s) ss, by simp [idxOf]⟩
  | s :: ss, off, i + 1, hi => by
    obtain ⟨rest, h⟩ := idxOf_drop ss (off + recLenB s) i (by simpa using hi)
    refine ⟨rest, ?_⟩
    have hd := drop_len_add (be32 (off / 2) ++ be32 ((4 + (shapeBytes s).length) / 2)) (idxOf (off + recLenB s) ss) (8 * i)
    rw [show (be32 (off / 2) ++ be32 ((4 + (shapeBytes s).length) / 2)).length = 8 from rfl] at hd
    rw [show 8 * (i + 1) = 8 + 8 * i by omega]
    simp only [idxOf, List.take_succ_cons, List.map_cons, List.sum_cons, List.getElem_cons_succ]
    rw [hd, h, Nat.add_assoc]

theorem recsOf_drop (t : Nat) : ∀ (ss : List BShape) (k i : Nat) (hi : i < ss.length),
    ∃ rest, (recsOf t k ss).drop (((ss.take i).map recLenB).sum) = recordBytes t (k + i + 1) ss[i] ++ rest
  | [], _, _, hi => by simp at hi
  | s :: ss, k, 0, _ => ⟨recsOf t (k + 1) ss, by simp [recsOf]⟩
  | s :: ss, k, i + 1, hi => by
    obtain ⟨rest, h⟩ := recsOf_drop t ss (k + 1) i (by simpa using hi)
    refine ⟨rest, ?_⟩
    have hd := drop_len_add (recordBytes t (k + 1) s) (recsOf t (k + 1) ss) (((ss.take i).map recLenB).sum)
    rw [recordBytes_length] at hd
    simp only [recsOf, List.take_succ_cons, List.map_cons, List.sum_cons, List.getElem_cons_succ]
    rw [hd, h, show k + 1 + i + 1 = k + (i + 1) + 1 by omega]

theorem sum_recLenB_even : ∀ (l : List BShape), ((l.map recLenB).sum) % 2 = 0
  | [] => rfl
  | s :: l => by
    have := sum_recLenB_even l
    have := shapeBytes_even s
    simp only [List.map_cons, List.sum_cons, recLenB]; omega

theorem offOf_succ (shapes : List BShape) (i : Nat) (hi : i < shapes.length) :
    offOf shapes (i + 1) = offOf shapes i + recLenB shapes[i] := by
  simp only [offOf, List.take_succ_eq_append_getElem hi, List.map_append, List.sum_append, List.map_cons, List.map_nil,
    List.sum_cons, List.sum_nil]
  omega

theorem offOf_le (shapes : List BShape) (i : Nat) : offOf shapes i ≤ offOf shapes shapes.length := by
  have := sum_take_le (shapes.map recLenB) i
  simp only [offOf, List.take_length, ← List.map_take] at this ⊢
  omega

/-- **C16_shx_entries**: after any call history and `Close()`, entry `i` of the `.shx` is exactly (offset, content
length), both in 16-bit words, of record `i` of the `.shp`, the records lie in the `.shp` in call order numbered from 1,
and both headers carry their file's length and the same box -/
theorem C16_shx_entries (t : Nat) (fs : List Field) (calls : List CallB) (i : Nat) (hi : i < (shapesOf calls).length)
    (hfit : offOf (shapesOf calls) (shapesOf calls).length < 2 ^ 33) :
    (close t fs (runB t fs calls).1).shx.length = 100 + 8 * (shapesOf calls).length ∧
    rdBe (((close t fs (runB t fs calls).1).shx.drop (100 + 8 * i)).take 4) * 2 = offOf (shapesOf calls) i ∧
    rdBe (((close t fs (runB t fs calls).1).shx.drop (100 + 8 * i + 4)).take 4) * 2 + 8 = recLenB (shapesOf calls)[i] ∧
    ((close t fs (runB t fs calls).1).shp.drop (offOf (shapesOf calls) i)).take (recLenB (shapesOf calls)[i])
      = recordBytes t (i + 1) (shapesOf calls)[i] ∧
    (close t fs (runB t fs calls).1).shp.take 100
      = mainHeader (close t fs (runB t fs calls).1).shp.length t (bboxOfShapes (shapesOf calls)) ∧
    (close t fs (runB t fs calls).1).shx.take 100
      = mainHeader (close t fs (runB t fs calls).1).shx.length t (bboxOfShapes (shapesOf calls)) := by
  obtain ⟨hidx, hbox, hrecs, _⟩ := C16_shx_invariant t fs calls
  have hx : ∀ k, (close t fs (runB t fs calls).1).shx.drop (100 + k) = (idxOf 100 (shapesOf calls)).drop k := by
    intro k
    simp only [close, hidx]
    have := drop_len_add (mainHeader (100 + (idxOf 100 (shapesOf calls)).length) t (runB t fs calls).1.bbox) (idxOf 100 (shapesOf calls)) k
    rwa [mainHeader_length] at this
  have hp : ∀ k, (close t fs (runB t fs calls).1).shp.drop (100 + k) = (recsOf t 0 (shapesOf calls)).drop k := by
    intro k
    simp only [close, hrecs]
    have := drop_len_add (mainHeader (100 + (recsOf t 0 (shapesOf calls)).length) t (runB t fs calls).1.bbox) (recsOf t 0 (shapesOf calls)) k
    rwa [mainHeader_length] at this
  obtain ⟨rest, hr⟩ := idxOf_drop (shapesOf calls) 100 i hi
  obtain ⟨rest2, hr2⟩ := recsOf_drop t (shapesOf calls) 0 i hi
  have hev := sum_recLenB_even ((shapesOf calls).take i)
  have hev2 := shapeBytes_even (shapesOf calls)[i]
  have hsucc := offOf_succ (shapesOf calls) i hi
  have hle := offOf_le (shapesOf calls) (i + 1)
  have hpow : (2 : Nat) ^ 33 = 8589934592 := by decide
  rw [hpow] at hfit
  refine ⟨?_, ?_, ?_, ?_, ?_, ?_⟩
  · simp [close, hidx, mainHeader_length, idxOf_length]
  · rw [hx, hr, List.append_assoc, take4_be32, rdBe_be32]
    · simp only [offOf] at hsucc hle hfit ⊢; omega
    · simp only [offOf, recLenB] at hsucc hle hfit ⊢; omega
  · rw [Nat.add_assoc, hx, ← List.drop_drop, hr, List.append_assoc, drop4_be32, take4_be32, rdBe_be32]
    · simp only [recLenB]; omega
    · simp only [offOf, recLenB] at hsucc hle hfit ⊢; omega
  · rw [show offOf (shapesOf calls) i = 100 + (((shapesOf calls).take i).map recLenB).sum from rfl, hp, hr2,
      ← recordBytes_length t (0 + i + 1), take_append_length']
    simp
  · simp only [close, List.length_append, mainHeader_length, hbox]
    have := take_append_length' (mainHeader (100 + (runB t fs calls).1.recs.length) t (bboxOfShapes (shapesOf calls))) (runB t fs calls).1.recs
    rwa [mainHeader_length] at this
  · simp only [close, List.length_append, mainHeader_length, hbox]
    have := take_append_length' (mainHeader (100 + (runB t fs calls).1.idx.length) t (bboxOfShapes (shapesOf calls))) (runB t fs calls).1.idx
    rwa [mainHeader_length] at this


/-- non-vacuity of `C16_shx_entries`: the three POINT records of `demoCalls` (28 bytes each) start at bytes 100, 128,
156 = words 50, 64, 78; content length 10 words -/
example : (shapesOf demoCalls).length = 3 ∧ offOf (shapesOf demoCalls) (shapesOf demoCalls).length < 2 ^ 33 ∧
    (close 1 demoFields (runB 1 demoFields demoCalls).1).shx.drop 100
      = be32 50 ++ be32 10 ++ be32 64 ++ be32 10 ++ be32 78 ++ be32 10 ∧
    (List.range 4).map (offOf (shapesOf demoCalls)) = [100, 128, 156, 184] := by decide +kernel

/-- a null shape, a two-point polyline, a null shape in a POLYLINE file: records of 12, 88, 12 bytes -/
def demoCalls2 : List CallB :=
  [⟨true, .ok .null, []⟩, ⟨true, .error .nilDeref, []⟩,
   ⟨false, .ok (.polyLine (bboxFromPoints [⟨1, 2⟩, ⟨3, 4⟩]) [0] [⟨1, 2⟩, ⟨3, 4⟩]), []⟩, ⟨true, .ok .null, []⟩]

example : (shapesOf demoCalls2).length = 3 ∧ offOf (shapesOf demoCalls2) (shapesOf demoCalls2).length < 2 ^ 33 ∧
    (close 3 [] (runB 3 [] demoCalls2).1).shx.drop 100 = be32 50 ++ be32 2 ++ be32 56 ++ be32 40 ++ be32 100 ++ be32 2 ∧
    (List.range 4).map (offOf (shapesOf demoCalls2)) = [100, 112, 200, 212] ∧
    (close 3 [] (runB 3 [] demoCalls2).1).shp.length = 212 := by decide +kernel

/-! ## PART 2 — the stored boxes -/

/-- one coordinate of `Box.ExtendWithPoint`, lower side: `if p.X < b.MinX { b.MinX = p.X }` -/
def stepMin (m x : UInt64) : UInt64 := if fLt x m then x else m
/-- upper side: `if p.X > b.MaxX { b.MaxX = p.X }` -/
def stepMax (m x : UInt64) : UInt64 := if fLt m x then x else m

theorem fLt_iff (a b : UInt64) : fLt a b = true ↔ isNaNBits a = false ∧ isNaNBits b = false ∧ fkey a < fkey b := by
  simp [fLt, and_assoc]

theorem fLt_eq_false (a b : UInt64) (ha : isNaNBits a = false) (hb : isNaNBits b = false) :
    fLt a b = false ↔ fkey b ≤ fkey a := by
  simp [fLt, ha, hb]

theorem fLt_nan_left (a b : UInt64) (ha : isNaNBits a = true) : fLt a b = false := by simp [fLt, ha]
theorem fLt_nan_right (a b : UInt64) (hb : isNaNBits b = true) : fLt a b = false := by simp [fLt, hb]
theorem fLt_irrefl (a : UInt64) : fLt a a = false := by simp [fLt]

/-- (i) the running minimum is bitwise the start value or one of the coordinates -/
theorem foldMin_attained : ∀ (xs : List UInt64) (m0 : UInt64), xs.foldl stepMin m0 = m0 ∨ xs.foldl stepMin m0 ∈ xs
  | [], m0 => Or.inl rfl
  | x :: xs, m0 => by
    simp only [List.foldl_cons, List.mem_cons]
    rcases foldMin_attained xs (stepMin m0 x) with h | h
    · rw [h]; unfold stepMin; split <;> simp
    · exact Or.inr (Or.inr h)

/-- (ii) a NaN start value is never replaced -/
theorem foldMin_nan : ∀ (xs : List UInt64) (m0 : UInt64), isNaNBits m0 = true → xs.foldl stepMin m0 = m0
  | [], _, _ => rfl
  | x :: xs, m0, h => by
    have hs : stepMin m0 x = m0 := by simp [stepMin, fLt, h]
    simp only [List.foldl_cons, hs]; exact foldMin_nan xs m0 h

/-- (iii) from a non-NaN start value the running minimum is a non-NaN lower bound of the start value and of every
coordinate (NaN coordinates compare false and are skipped; `-0`/`+0` compare equal, the first one seen stays) -/
theorem foldMin_lower : ∀ (xs : List UInt64) (m0 : UInt64), isNaNBits m0 = false →
    isNaNBits (xs.foldl stepMin m0) = false ∧ fLt m0 (xs.foldl stepMin m0) = false ∧
      ∀ x ∈ xs, fLt x (xs.foldl stepMin m0) = false
  | [], m0, h => ⟨h, fLt_irrefl m0, by simp⟩
  | x :: xs, m0, h => by
    simp only [List.foldl_cons, List.mem_cons, forall_eq_or_imp]
    by_cases hx : fLt x m0 = true
    · have hs : stepMin m0 x = x := by simp [stepMin, hx]
      obtain ⟨hxa, _, hk⟩ := (fLt_iff _ _).mp hx
      obtain ⟨r1, r2, r3⟩ := foldMin_lower xs x hxa
      rw [hs]
      refine ⟨r1, ?_, r2, r3⟩
      have := (fLt_eq_false _ _ hxa r1).mp r2
      exact (fLt_eq_false _ _ h r1).mpr (by omega)
    · have hx' : fLt x m0 = false := by simpa using hx
      have hs : stepMin m0 x = m0 := by simp [stepMin, hx']
      obtain ⟨r1, r2, r3⟩ := foldMin_lower xs m0 h
      rw [hs]
      refine ⟨r1, r2, ?_, r3⟩
      cases hn : isNaNBits x with
      | true => exact fLt_nan_left _ _ hn
      | false =>
        have a := (fLt_eq_false _ _ hn h).mp hx'
        have b := (fLt_eq_false _ _ h r1).mp r2
        exact (fLt_eq_false _ _ hn r1).mpr (by omega)

theorem foldMax_attained : ∀ (xs : List UInt64) (m0 : UInt64), xs.foldl stepMax m0 = m0 ∨ xs.foldl stepMax m0 ∈ xs
  | [], m0 => Or.inl rfl
  | x :: xs, m0 => by
    simp only [List.foldl_cons, List.mem_cons]
    rcases foldMax_attained xs (stepMax m0 x) with h | h
    · rw [h]; unfold stepMax; split <;> simp
    · exact Or.inr (Or.inr h)

theorem foldMax_nan : ∀ (xs : List UInt64) (m0 : UInt64), isNaNBits m0 = true → xs.foldl stepMax m0 = m0
  | [], _, _ => rfl
  | x :: xs, m0, h => by
    have hs : stepMax m0 x = m0 := by simp [stepMax, fLt, h]
    simp only [List.foldl_cons, hs]; exact foldMax_nan xs m0 h

theorem foldMax_upper : ∀ (xs : List UInt64) (m0 : UInt64), isNaNBits m0 = false →
    isNaNBits (xs.foldl stepMax m0) = false ∧ fLt (xs.foldl stepMax m0) m0 = false ∧
      ∀ x ∈ xs, fLt (xs.foldl stepMax m0) x = false
  | [], m0, h => ⟨h, fLt_irrefl m0, by simp⟩
  | x :: xs, m0, h => by
    simp only [List.foldl_cons, List.mem_cons, forall_eq_or_imp]
    by_cases hx : fLt m0 x = true
    · have hs : stepMax m0 x = x := by simp [stepMax, hx]
      obtain ⟨_, hxa, hk⟩ := (fLt_iff _ _).mp hx
      obtain ⟨r1, r2, r3⟩ := foldMax_upper xs x hxa
      rw [hs]
      refine ⟨r1, ?_, r2, r3⟩
      have := (fLt_eq_false _ _ r1 hxa).mp r2
      exact (fLt_eq_false _ _ r1 h).mpr (by omega)
    · have hx' : fLt m0 x = false := by simpa using hx
      have hs : stepMax m0 x = m0 := by simp [stepMax, hx']
      obtain ⟨r1, r2, r3⟩ := foldMax_upper xs m0 h
      rw [hs]
      refine ⟨r1, r2, ?_, r3⟩
      cases hn : isNaNBits x with
      | true => exact fLt_nan_right _ _ hn
      | false =>
        have a := (fLt_eq_false _ _ h hn).mp hx'
        have b := (fLt_eq_false _ _ r1 h).mp r2
        exact (fLt_eq_false _ _ r1 hn).mpr (by omega)

/-- **C16_stepMin** ((i)–(iii) for the lower side, in one statement) -/
theorem C16_stepMin (xs : List UInt64) (m0 : UInt64) :
    (xs.foldl stepMin m0 = m0 ∨ xs.foldl stepMin m0 ∈ xs) ∧
    (isNaNBits m0 → xs.foldl stepMin m0 = m0) ∧
    (¬ isNaNBits m0 → ¬ isNaNBits (xs.foldl stepMin m0) ∧ ¬ fLt m0 (xs.foldl stepMin m0) ∧
      ∀ x ∈ xs, ¬ fLt x (xs.foldl stepMin m0)) := by
  refine ⟨foldMin_attained xs m0, foldMin_nan xs m0, fun h => ?_⟩
  have := foldMin_lower xs m0 (by simpa using h)
  simpa using this

/-- **C16_stepMax** ((i)–(iii) for the upper side) -/
theorem C16_stepMax (xs : List UInt64) (m0 : UInt64) :
    (xs.foldl stepMax m0 = m0 ∨ xs.foldl stepMax m0 ∈ xs) ∧
    (isNaNBits m0 → xs.foldl stepMax m0 = m0) ∧
    (¬ isNaNBits m0 → ¬ isNaNBits (xs.foldl stepMax m0) ∧ ¬ fLt (xs.foldl stepMax m0) m0 ∧
      ∀ x ∈ xs, ¬ fLt (xs.foldl stepMax m0) x) := by
  refine ⟨foldMax_attained xs m0, foldMax_nan xs m0, fun h => ?_⟩
  have := foldMax_upper xs m0 (by simpa using h)
  simpa using this

/-! ### `BBoxFromPoints` -/

theorem foldl_extendPt_minX : ∀ (ps : List (Pt UInt64)) (b : Box),
    (ps.foldl extendPt b).minX = (ps.map (·.x)).foldl stepMin b.minX
  | [], b => rfl
  | p :: ps, b => by simp only [List.foldl_cons, List.map_cons]; rw [foldl_extendPt_minX ps]; rfl
theorem foldl_extendPt_minY : ∀ (ps : List (Pt UInt64)) (b : Box),
    (ps.foldl extendPt b).minY = (ps.map (·.y)).foldl stepMin b.minY
  | [], b => rfl
  | p :: ps, b => by simp only [List.foldl_cons, List.map_cons]; rw [foldl_extendPt_minY ps]; rfl
theorem foldl_extendPt_maxX : ∀ (ps : List (Pt UInt64)) (b : Box),
    (ps.foldl extendPt b).maxX = (ps.map (·.x)).foldl stepMax b.maxX
  | [], b => rfl
  | p :: ps, b => by simp only [List.foldl_cons, List.map_cons]; rw [foldl_extendPt_maxX ps]; rfl
theorem foldl_extendPt_maxY : ∀ (ps : List (Pt UInt64)) (b : Box),
    (ps.foldl extendPt b).maxY = (ps.map (·.y)).foldl stepMax b.maxY
  | [], b => rfl
  | p :: ps, b => by simp only [List.foldl_cons, List.map_cons]; rw [foldl_extendPt_maxY ps]; rfl

/-- the four bounds of `BBoxFromPoints(p :: ps)` are the running `<`-minimum / maximum from the FIRST point -/
theorem bboxFromPoints_cons (p : Pt UInt64) (ps : List (Pt UInt64)) :
    (bboxFromPoints (p :: ps)).minX = (ps.map (·.x)).foldl stepMin p.x ∧
    (bboxFromPoints (p :: ps)).minY = (ps.map (·.y)).foldl stepMin p.y ∧
    (bboxFromPoints (p :: ps)).maxX = (ps.map (·.x)).foldl stepMax p.x ∧
    (bboxFromPoints (p :: ps)).maxY = (ps.map (·.y)).foldl stepMax p.y :=
  ⟨foldl_extendPt_minX ps _, foldl_extendPt_minY ps _, foldl_extendPt_maxX ps _, foldl_extendPt_maxY ps _⟩

/-- **C16_box_polyline**: the box go-shp computes for a point list. Each bound is bitwise the first point's coordinate or
a later one's; a NaN first coordinate stays in BOTH bounds of its axis whatever follows; otherwise the bounds are
non-NaN and no point's coordinate is `<` the minimum or `>` the maximum (NaN coordinates compare false and are
skipped). No points: the zero box. -/
theorem C16_box_polyline (p : Pt UInt64) (ps : List (Pt UInt64)) :
    ((bboxFromPoints (p :: ps)).minX = p.x ∨ (bboxFromPoints (p :: ps)).minX ∈ ps.map (·.x)) ∧
    ((bboxFromPoints (p :: ps)).maxX = p.x ∨ (bboxFromPoints (p :: ps)).maxX ∈ ps.map (·.x)) ∧
    ((bboxFromPoints (p :: ps)).minY = p.y ∨ (bboxFromPoints (p :: ps)).minY ∈ ps.map (·.y)) ∧
    ((bboxFromPoints (p :: ps)).maxY = p.y ∨ (bboxFromPoints (p :: ps)).maxY ∈ ps.map (·.y)) ∧
    (isNaNBits p.x → (bboxFromPoints (p :: ps)).minX = p.x ∧ (bboxFromPoints (p :: ps)).maxX = p.x) ∧
    (isNaNBits p.y → (bboxFromPoints (p :: ps)).minY = p.y ∧ (bboxFromPoints (p :: ps)).maxY = p.y) ∧
    (¬ isNaNBits p.x → ¬ isNaNBits (bboxFromPoints (p :: ps)).minX ∧ ¬ isNaNBits (bboxFromPoints (p :: ps)).maxX ∧
      ∀ q ∈ p :: ps, ¬ fLt q.x (bboxFromPoints (p :: ps)).minX ∧ ¬ fLt (bboxFromPoints (p :: ps)).maxX q.x) ∧
    (¬ isNaNBits p.y → ¬ isNaNBits (bboxFromPoints (p :: ps)).minY ∧ ¬ isNaNBits (bboxFromPoints (p :: ps)).maxY ∧
      ∀ q ∈ p :: ps, ¬ fLt q.y (bboxFromPoints (p :: ps)).minY ∧ ¬ fLt (bboxFromPoints (p :: ps)).maxY q.y) ∧
    bboxFromPoints [] = ⟨0, 0, 0, 0⟩ := by
  obtain ⟨e1, e2, e3, e4⟩ := bboxFromPoints_cons p ps
  rw [e1, e2, e3, e4]
  refine ⟨foldMin_attained _ _, foldMax_attained _ _, foldMin_attained _ _, foldMax_attained _ _,
    fun h => ⟨foldMin_nan _ _ h, foldMax_nan _ _ h⟩, fun h => ⟨foldMin_nan _ _ h, foldMax_nan _ _ h⟩, ?_, ?_, rfl⟩
  · intro h
    obtain ⟨a1, a2, a3⟩ := foldMin_lower (ps.map (·.x)) p.x (by simpa using h)
    obtain ⟨b1, b2, b3⟩ := foldMax_upper (ps.map (·.x)) p.x (by simpa using h)
    refine ⟨by simpa using a1, by simpa using b1, ?_⟩
    intro q hq
    rcases List.mem_cons.mp hq with rfl | hq
    · exact ⟨by simpa using a2, by simpa using b2⟩
    · exact ⟨by simpa using a3 q.x (List.mem_map_of_mem hq), by simpa using b3 q.x (List.mem_map_of_mem hq)⟩
  · intro h
    obtain ⟨a1, a2, a3⟩ := foldMin_lower (ps.map (·.y)) p.y (by simpa using h)
    obtain ⟨b1, b2, b3⟩ := foldMax_upper (ps.map (·.y)) p.y (by simpa using h)
    refine ⟨by simpa using a1, by simpa using b1, ?_⟩
    intro q hq
    rcases List.mem_cons.mp hq with rfl | hq
    · exact ⟨by simpa using a2, by simpa using b2⟩
    · exact ⟨by simpa using a3 q.y (List.mem_map_of_mem hq), by simpa using b3 q.y (List.mem_map_of_mem hq)⟩

/-- **C16_record_box**: the box `geom2Shp` stores in a record is computed from exactly the points stored in that record
(`BBoxFromPoints` for polylines and polygons, `Bounds()` for multipoints) -/
theorem C16_record_box (g : Geom UInt64) (box : Box) (parts : List Nat) (pts : List (Pt UInt64)) :
    (geom2ShpB g = .ok (.polyLine box parts pts) → box = bboxFromPoints pts) ∧
    (geom2ShpB g = .ok (.polygon box parts pts) → box = bboxFromPoints pts) ∧
    (geom2ShpB g = .ok (.multiPoint box pts) → box = mpBox pts) := by
  refine ⟨?_, ?_, ?_⟩ <;> intro h <;> cases g <;> simp only [geom2ShpB, newPolyLineB] at h <;>
    first
    | (cases h; rfl)
    | (cases h)


/-! ### `geom.MultiPoint.Bounds()`: `math.Min` / `math.Max` from `(+Inf, -Inf)` -/

theorem nanC_isNaN : isNaNBits nanC = true := by decide +kernel
theorem nanC_ne_negInf : nanC ≠ negInf := by decide +kernel
theorem nanC_ne_posInf : nanC ≠ posInf := by decide +kernel
theorem posInf_notNaN : isNaNBits posInf = false := by decide +kernel
theorem negInf_notNaN : isNaNBits negInf = false := by decide +kernel
theorem posInf_ne_negInf : posInf ≠ negInf := by decide +kernel
theorem negInf_ne_posInf : negInf ≠ posInf := by decide +kernel

theorem fkey_zero (u : UInt64) (h : isZeroBits u = true) : fkey u = 0 := by
  have h' : u.toNat % 2 ^ 63 = 0 := by simpa [isZeroBits] using h
  unfold fkey; rw [h']; split <;> simp

theorem fmin_negInf_left (y : UInt64) : fmin negInf y = negInf := by simp [fmin]
theorem fmin_negInf_right (x : UInt64) : fmin x negInf = negInf := by simp [fmin]

theorem foldFmin_negInf_start : ∀ (xs : List UInt64), xs.foldl fmin negInf = negInf
  | [] => rfl
  | x :: xs => by simp only [List.foldl_cons, fmin_negInf_left]; exact foldFmin_negInf_start xs

/-- a `-Inf` coordinate anywhere wins (`math.Min` tests `IsInf(·, -1)` before `IsNaN`) -/
theorem foldFmin_negInf : ∀ (xs : List UInt64) (m0 : UInt64), negInf ∈ xs → xs.foldl fmin m0 = negInf
  | [], _, h => by simp at h
  | x :: xs, m0, h => by
    simp only [List.foldl_cons]
    rcases List.mem_cons.mp h with h | h
    · rw [← h, fmin_negInf_right]; exact foldFmin_negInf_start xs
    · exact foldFmin_negInf xs _ h

theorem fmin_nan (m x : UInt64) (hm : m ≠ negInf) (hx : x ≠ negInf) (h : isNaNBits m = true ∨ isNaNBits x = true) :
    fmin m x = nanC := by
  rcases h with h | h <;> simp [fmin, hm, hx, h]

theorem foldFmin_nanC_start : ∀ (xs : List UInt64), negInf ∉ xs → xs.foldl fmin nanC = nanC
  | [], _ => rfl
  | x :: xs, h => by
    have hx : x ≠ negInf := fun e => h (by simp [e])
    simp only [List.foldl_cons, fmin_nan nanC x nanC_ne_negInf hx (Or.inl nanC_isNaN)]
    exact foldFmin_nanC_start xs (fun e => h (List.mem_cons_of_mem _ e))

theorem fmin_plain (m x : UInt64) (hm : isNaNBits m = false) (hx : isNaNBits x = false) (hm' : m ≠ negInf) (hx' : x ≠ negInf) :
    (fmin m x = m ∨ fmin m x = x) ∧ fkey (fmin m x) ≤ fkey m ∧ fkey (fmin m x) ≤ fkey x := by
  have e : fmin m x = if (isZeroBits m && isZeroBits x) = true then (if fneg m = true then m else x)
      else if fLt m x = true then m else x := by
    simp [fmin, hm, hx, hm', hx']
  rw [e]
  by_cases hz : (isZeroBits m && isZeroBits x) = true
  · rw [if_pos hz]
    simp only [Bool.and_eq_true] at hz
    have k1 := fkey_zero m hz.1
    have k2 := fkey_zero x hz.2
    by_cases hn : fneg m = true
    · rw [if_pos hn]; exact ⟨Or.inl rfl, Int.le_refl _, by omega⟩
    · rw [if_neg hn]; exact ⟨Or.inr rfl, by omega, Int.le_refl _⟩
  · rw [if_neg hz]
    by_cases hl : fLt m x = true
    · rw [if_pos hl]
      obtain ⟨_, _, hk⟩ := (fLt_iff _ _).mp hl
      exact ⟨Or.inl rfl, Int.le_refl _, by omega⟩
    · rw [if_neg hl]
      have := (fLt_eq_false _ _ hm hx).mp (by simpa using hl)
      exact ⟨Or.inr rfl, this, Int.le_refl _⟩

theorem foldFmin_plain : ∀ (xs : List UInt64) (m0 : UInt64), isNaNBits m0 = false → m0 ≠ negInf →
    (∀ x ∈ xs, isNaNBits x = false ∧ x ≠ negInf) →
    isNaNBits (xs.foldl fmin m0) = false ∧ (xs.foldl fmin m0 = m0 ∨ xs.foldl fmin m0 ∈ xs) ∧
      fkey (xs.foldl fmin m0) ≤ fkey m0 ∧ ∀ x ∈ xs, fkey (xs.foldl fmin m0) ≤ fkey x
  | [], m0, h, _, _ => ⟨h, Or.inl rfl, Int.le_refl _, by simp⟩
  | x :: xs, m0, h, h', hall => by
    obtain ⟨hx, hx'⟩ := hall x (by simp)
    obtain ⟨c, k1, k2⟩ := fmin_plain m0 x h hx h' hx'
    have hm : isNaNBits (fmin m0 x) = false ∧ fmin m0 x ≠ negInf := by
      rcases c with c | c
      · rw [c]; exact ⟨h, h'⟩
      · rw [c]; exact ⟨hx, hx'⟩
    obtain ⟨r1, r2, r3, r4⟩ := foldFmin_plain xs (fmin m0 x) hm.1 hm.2 (fun y hy => hall y (List.mem_cons_of_mem _ hy))
    simp only [List.foldl_cons, List.mem_cons, forall_eq_or_imp]
    refine ⟨r1, ?_, by omega, by omega, r4⟩
    rcases r2 with r2 | r2
    · rcases c with c | c
      · exact Or.inl (r2.trans c)
      · exact Or.inr (Or.inl (r2.trans c))
    · exact Or.inr (Or.inr r2)

/-- without a `-Inf`, one NaN coordinate makes the bound `math.NaN()` whatever else there is -/
theorem foldFmin_nan : ∀ (xs : List UInt64) (m0 : UInt64), m0 ≠ negInf → negInf ∉ xs → (∃ x ∈ xs, isNaNBits x = true) →
    xs.foldl fmin m0 = nanC
  | [], _, _, _, h => by simp at h
  | x :: xs, m0, h', hno, hex => by
    have hx' : x ≠ negInf := fun e => hno (by simp [e])
    have hno' : negInf ∉ xs := fun e => hno (List.mem_cons_of_mem _ e)
    simp only [List.foldl_cons]
    by_cases hn : isNaNBits m0 = true ∨ isNaNBits x = true
    · rw [fmin_nan m0 x h' hx' hn]; exact foldFmin_nanC_start xs hno'
    · have hm : isNaNBits m0 = false := by
        cases hh : isNaNBits m0 with
        | true => exact absurd (Or.inl hh) hn
        | false => rfl
      have hx : isNaNBits x = false := by
        cases hh : isNaNBits x with
        | true => exact absurd (Or.inr hh) hn
        | false => rfl
      obtain ⟨c, _, _⟩ := fmin_plain m0 x hm hx h' hx'
      have hne : fmin m0 x ≠ negInf := by rcases c with c | c <;> rw [c] <;> assumption
      obtain ⟨y, hy, hyn⟩ := hex
      rcases List.mem_cons.mp hy with e | hy
      · rw [e, hx] at hyn; cases hyn
      · exact foldFmin_nan xs _ hne hno' ⟨y, hy, hyn⟩

/-- nothing non-NaN lies above `+Inf` -/
theorem posInf_le (x : UInt64) (hx : isNaNBits x = false) (h : fkey posInf ≤ fkey x) : x = posInf := by
  have hk : fkey posInf = 9218868437227405312 := by decide +kernel
  have hp : posInf.toNat = 9218868437227405312 := by decide +kernel
  have hlt : x.toNat < 18446744073709551616 := x.toNat_lt
  rw [hk] at h
  apply UInt64.toNat_inj.mp
  rw [hp]
  simp only [isNaNBits, Bool.and_eq_false_iff, beq_eq_false_iff_ne, bne_eq_false_iff_eq, Nat.reducePow, ne_eq] at hx
  unfold fkey fneg at h
  simp only [Nat.reducePow, beq_iff_eq] at h
  split at h <;> omega

/-- **the lower bound `Bounds()` stores for a coordinate list** (`math.Min` folded from `+Inf`): a `-Inf` anywhere gives
`-Inf`; else a NaN anywhere gives `math.NaN()` (the canonical bit pattern, not the coordinate's); else — no points — `+Inf`;
else it is bitwise one of the coordinates, non-NaN, and no coordinate is `<` it -/
theorem fminFold_spec (xs : List UInt64) :
    (negInf ∈ xs → xs.foldl fmin posInf = negInf) ∧
    (negInf ∉ xs → (∃ x ∈ xs, isNaNBits x) → xs.foldl fmin posInf = nanC) ∧
    (negInf ∉ xs → (∀ x ∈ xs, ¬ isNaNBits x) →
      (xs = [] → xs.foldl fmin posInf = posInf) ∧ (xs ≠ [] → xs.foldl fmin posInf ∈ xs) ∧
      ¬ isNaNBits (xs.foldl fmin posInf) ∧ ∀ x ∈ xs, ¬ fLt x (xs.foldl fmin posInf)) := by
  refine ⟨foldFmin_negInf xs posInf, fun hno hex => foldFmin_nan xs posInf posInf_ne_negInf hno hex, ?_⟩
  intro hno hall
  have hall' : ∀ x ∈ xs, isNaNBits x = false ∧ x ≠ negInf := fun x hx =>
    ⟨by simpa using hall x hx, fun e => hno (e ▸ hx)⟩
  obtain ⟨r1, r2, r3, r4⟩ := foldFmin_plain xs posInf posInf_notNaN posInf_ne_negInf hall'
  refine ⟨fun e => by rw [e]; rfl, ?_, by simpa using r1, ?_⟩
  · intro hne
    rcases r2 with r2 | r2
    · cases xs with
      | nil => exact absurd rfl hne
      | cons y ys =>
        have hy := r4 y (by simp)
        rw [r2] at hy
        have := posInf_le y (hall' y (by simp)).1 hy
        rw [r2, ← this]; simp
    · exact r2
  · intro x hx
    have := (fLt_eq_false x _ (hall' x hx).1 r1).mpr (r4 x hx)
    simpa using this

theorem mpBox_fold : ∀ (ps : List (Pt UInt64)) (b : Box),
    ps.foldl (fun b p => (⟨fmin b.minX p.x, fmin b.minY p.y, fmax b.maxX p.x, fmax b.maxY p.y⟩ : Box)) b
      = ⟨(ps.map (·.x)).foldl fmin b.minX, (ps.map (·.y)).foldl fmin b.minY,
         (ps.map (·.x)).foldl fmax b.maxX, (ps.map (·.y)).foldl fmax b.maxY⟩
  | [], b => rfl
  | p :: ps, b => by simp only [List.foldl_cons, List.map_cons]; rw [mpBox_fold ps]

/-- the four bounds of a stored multipoint box as folds of `math.Min` / `math.Max` over the coordinates -/
theorem mpBox_eq (ps : List (Pt UInt64)) :
    mpBox ps = ⟨(ps.map (·.x)).foldl fmin posInf, (ps.map (·.y)).foldl fmin posInf,
                (ps.map (·.x)).foldl fmax negInf, (ps.map (·.y)).foldl fmax negInf⟩ := mpBox_fold ps _

/-! #### the upper side (`math.Max` folded from `-Inf`) -/

theorem fmax_posInf_left (y : UInt64) : fmax posInf y = posInf := by simp [fmax]
theorem fmax_posInf_right (x : UInt64) : fmax x posInf = posInf := by simp [fmax]

theorem foldFmax_posInf_start : ∀ (xs : List UInt64), xs.foldl fmax posInf = posInf
  | [] => rfl
  | x :: xs => by simp only [List.foldl_cons, fmax_posInf_left]; exact foldFmax_posInf_start xs

theorem foldFmax_posInf : ∀ (xs : List UInt64) (m0 : UInt64), posInf ∈ xs → xs.foldl fmax m0 = posInf
  | [], _, h => by simp at h
  | x :: xs, m0, h => by
    simp only [List.foldl_cons]
    rcases List.mem_cons.mp h with h | h
    · rw [← h, fmax_posInf_right]; exact foldFmax_posInf_start xs
    · exact foldFmax_posInf xs _ h

theorem fmax_nan (m x : UInt64) (hm : m ≠ posInf) (hx : x ≠ posInf) (h : isNaNBits m = true ∨ isNaNBits x = true) :
    fmax m x = nanC := by
  rcases h with h | h <;> simp [fmax, hm, hx, h]

theorem foldFmax_nanC_start : ∀ (xs : List UInt64), posInf ∉ xs → xs.foldl fmax nanC = nanC
  | [], _ => rfl
  | x :: xs, h => by
    have hx : x ≠ posInf := fun e => h (by simp [e])
    simp only [List.foldl_cons, fmax_nan nanC x nanC_ne_posInf hx (Or.inl nanC_isNaN)]
    exact foldFmax_nanC_start xs (fun e => h (List.mem_cons_of_mem _ e))

theorem fmax_plain (m x : UInt64) (hm : isNaNBits m = false) (hx : isNaNBits x = false) (hm' : m ≠ posInf) (hx' : x ≠ posInf) :
    (fmax m x = m ∨ fmax m x = x) ∧ fkey m ≤ fkey (fmax m x) ∧ fkey x ≤ fkey (fmax m x) := by
  have e : fmax m x = if (isZeroBits m && isZeroBits x) = true then (if fneg m = true then x else m)
      else if fLt x m = true then m else x := by
    simp [fmax, hm, hx, hm', hx']
  rw [e]
  by_cases hz : (isZeroBits m && isZeroBits x) = true
  · rw [if_pos hz]
    simp only [Bool.and_eq_true] at hz
    have k1 := fkey_zero m hz.1
    have k2 := fkey_zero x hz.2
    by_cases hn : fneg m = true
    · rw [if_pos hn]; exact ⟨Or.inr rfl, by omega, Int.le_refl _⟩
    · rw [if_neg hn]; exact ⟨Or.inl rfl, Int.le_refl _, by omega⟩
  · rw [if_neg hz]
    by_cases hl : fLt x m = true
    · rw [if_pos hl]
      obtain ⟨_, _, hk⟩ := (fLt_iff _ _).mp hl
      exact ⟨Or.inl rfl, Int.le_refl _, by omega⟩
    · rw [if_neg hl]
      have := (fLt_eq_false _ _ hx hm).mp (by simpa using hl)
      exact ⟨Or.inr rfl, this, Int.le_refl _⟩

theorem foldFmax_plain : ∀ (xs : List UInt64) (m0 : UInt64), isNaNBits m0 = false → m0 ≠ posInf →
    (∀ x ∈ xs, isNaNBits x = false ∧ x ≠ posInf) →
    isNaNBits (xs.foldl fmax m0) = false ∧ (xs.foldl fmax m0 = m0 ∨ xs.foldl fmax m0 ∈ xs) ∧
      fkey m0 ≤ fkey (xs.foldl fmax m0) ∧ ∀ x ∈ xs, fkey x ≤ fkey (xs.foldl fmax m0)
  | [], m0, h, _, _ => ⟨h, Or.inl rfl, Int.le_refl _, by simp⟩
  | x :: xs, m0, h, h', hall => by
    obtain ⟨hx, hx'⟩ := hall x (by simp)
    obtain ⟨c, k1, k2⟩ := fmax_plain m0 x h hx h' hx'
    have hm : isNaNBits (fmax m0 x) = false ∧ fmax m0 x ≠ posInf := by
      rcases c with c | c
      · rw [c]; exact ⟨h, h'⟩
      · rw [c]; exact ⟨hx, hx'⟩
    obtain ⟨r1, r2, r3, r4⟩ := foldFmax_plain xs (fmax m0 x) hm.1 hm.2 (fun y hy => hall y (List.mem_cons_of_mem _ hy))
    simp only [List.foldl_cons, List.mem_cons, forall_eq_or_imp]
    refine ⟨r1, ?_, by omega, by omega, r4⟩
    rcases r2 with r2 | r2
    · rcases c with c | c
      · exact Or.inl (r2.trans c)
      · exact Or.inr (Or.inl (r2.trans c))
    · exact Or.inr (Or.inr r2)

theorem foldFmax_nan : ∀ (xs : List UInt64) (m0 : UInt64), m0 ≠ posInf → posInf ∉ xs → (∃ x ∈ xs, isNaNBits x = true) →
    xs.foldl fmax m0 = nanC
  | [], _, _, _, h => by simp at h
  | x :: xs, m0, h', hno, hex => by
    have hx' : x ≠ posInf := fun e => hno (by simp [e])
    have hno' : posInf ∉ xs := fun e => hno (List.mem_cons_of_mem _ e)
    simp only [List.foldl_cons]
    by_cases hn : isNaNBits m0 = true ∨ isNaNBits x = true
    · rw [fmax_nan m0 x h' hx' hn]; exact foldFmax_nanC_start xs hno'
    · have hm : isNaNBits m0 = false := by
        cases hh : isNaNBits m0 with
        | true => exact absurd (Or.inl hh) hn
        | false => rfl
      have hx : isNaNBits x = false := by
        cases hh : isNaNBits x with
        | true => exact absurd (Or.inr hh) hn
        | false => rfl
      obtain ⟨c, _, _⟩ := fmax_plain m0 x hm hx h' hx'
      have hne : fmax m0 x ≠ posInf := by rcases c with c | c <;> rw [c] <;> assumption
      obtain ⟨y, hy, hyn⟩ := hex
      rcases List.mem_cons.mp hy with e | hy
      · rw [e, hx] at hyn; cases hyn
      · exact foldFmax_nan xs _ hne hno' ⟨y, hy, hyn⟩

/-- nothing non-NaN lies below `-Inf` -/
theorem negInf_ge (x : UInt64) (hx : isNaNBits x = false) (h : fkey x ≤ fkey negInf) : x = negInf := by
  have hk : fkey negInf = -9218868437227405312 := by decide +kernel
  have hp : negInf.toNat = 18442240474082181120 := by decide +kernel
  have hlt : x.toNat < 18446744073709551616 := x.toNat_lt
  rw [hk] at h
  apply UInt64.toNat_inj.mp
  rw [hp]
  simp only [isNaNBits, Bool.and_eq_false_iff, beq_eq_false_iff_ne, bne_eq_false_iff_eq, Nat.reducePow, ne_eq] at hx
  unfold fkey fneg at h
  simp only [Nat.reducePow, beq_iff_eq] at h
  split at h <;> omega

/-- **the upper bound `Bounds()` stores for a coordinate list** (`math.Max` folded from `-Inf`) -/
theorem fmaxFold_spec (xs : List UInt64) :
    (posInf ∈ xs → xs.foldl fmax negInf = posInf) ∧
    (posInf ∉ xs → (∃ x ∈ xs, isNaNBits x) → xs.foldl fmax negInf = nanC) ∧
    (posInf ∉ xs → (∀ x ∈ xs, ¬ isNaNBits x) →
      (xs = [] → xs.foldl fmax negInf = negInf) ∧ (xs ≠ [] → xs.foldl fmax negInf ∈ xs) ∧
      ¬ isNaNBits (xs.foldl fmax negInf) ∧ ∀ x ∈ xs, ¬ fLt (xs.foldl fmax negInf) x) := by
  refine ⟨foldFmax_posInf xs negInf, fun hno hex => foldFmax_nan xs negInf negInf_ne_posInf hno hex, ?_⟩
  intro hno hall
  have hall' : ∀ x ∈ xs, isNaNBits x = false ∧ x ≠ posInf := fun x hx =>
    ⟨by simpa using hall x hx, fun e => hno (e ▸ hx)⟩
  obtain ⟨r1, r2, r3, r4⟩ := foldFmax_plain xs negInf negInf_notNaN negInf_ne_posInf hall'
  refine ⟨fun e => by rw [e]; rfl, ?_, by simpa using r1, ?_⟩
  · intro hne
    rcases r2 with r2 | r2
    · cases xs with
      | nil => exact absurd rfl hne
      | cons y ys =>
        have hy := r4 y (by simp)
        rw [r2] at hy
        have := negInf_ge y (hall' y (by simp)).1 hy
        rw [r2, ← this]; simp
    · exact r2
  · intro x hx
    have := (fLt_eq_false _ x r1 (hall' x hx).1).mpr (r4 x hx)
    simpa using this

/-! #### the zeros: `math.Min` prefers `-0`, `math.Max` prefers `+0` -/

/-- `u ≤ -0` in the total order that puts `-0` below `+0` -/
def LeNegZero (u : UInt64) : Prop := (isZeroBits u = true ∧ fneg u = true) ∨ fkey u < 0
/-- `u ≥ +0` in that order -/
def GePosZero (u : UInt64) : Prop := (isZeroBits u = true ∧ fneg u = false) ∨ 0 < fkey u

theorem fkey_eq_zero (u : UInt64) (h : fkey u = 0) : isZeroBits u = true := by
  unfold fkey at h
  simp only [isZeroBits, beq_iff_eq]
  split at h <;> omega

theorem fmin_negzero (m x : UInt64) (hm : isNaNBits m = false) (hx : isNaNBits x = false) (hm' : m ≠ negInf) (hx' : x ≠ negInf)
    (h : LeNegZero m ∨ LeNegZero x) : LeNegZero (fmin m x) := by
  have e : fmin m x = if (isZeroBits m && isZeroBits x) = true then (if fneg m = true then m else x)
      else if fLt m x = true then m else x := by
    simp [fmin, hm, hx, hm', hx']
  rw [e]
  by_cases hz : (isZeroBits m && isZeroBits x) = true
  · rw [if_pos hz]
    simp only [Bool.and_eq_true] at hz
    have k1 := fkey_zero m hz.1
    have k2 := fkey_zero x hz.2
    by_cases hn : fneg m = true
    · rw [if_pos hn]; exact Or.inl ⟨hz.1, hn⟩
    · rw [if_neg hn]
      rcases h with h | h
      · rcases h with h | h
        · exact absurd h.2 hn
        · omega
      · exact h
  · rw [if_neg hz]
    have hz' : ¬ (fkey m = 0 ∧ fkey x = 0) := fun hh => hz (by simp [fkey_eq_zero m hh.1, fkey_eq_zero x hh.2])
    by_cases hl : fLt m x = true
    · rw [if_pos hl]
      obtain ⟨_, _, hk⟩ := (fLt_iff _ _).mp hl
      rcases h with h | h
      · exact h
      · rcases h with h | h
        · have := fkey_zero x h.1; exact Or.inr (by omega)
        · exact Or.inr (by omega)
    · rw [if_neg hl]
      have hk := (fLt_eq_false _ _ hm hx).mp (by simpa using hl)
      rcases h with h | h
      · rcases h with h | h
        · have := fkey_zero m h.1; exact Or.inr (by omega)
        · exact Or.inr (by omega)
      · exact h

theorem foldFmin_negzero : ∀ (xs : List UInt64) (m0 : UInt64), isNaNBits m0 = false → m0 ≠ negInf →
    (∀ x ∈ xs, isNaNBits x = false ∧ x ≠ negInf) → (LeNegZero m0 ∨ ∃ x ∈ xs, LeNegZero x) → LeNegZero (xs.foldl fmin m0)
  | [], m0, _, _, _, h => by
    rcases h with h | ⟨x, hx, _⟩
    · exact h
    · simp at hx
  | x :: xs, m0, h, h', hall, hq => by
    obtain ⟨hx, hx'⟩ := hall x (by simp)
    obtain ⟨c, _, _⟩ := fmin_plain m0 x h hx h' hx'
    have hm : isNaNBits (fmin m0 x) = false ∧ fmin m0 x ≠ negInf := by
      rcases c with c | c
      · rw [c]; exact ⟨h, h'⟩
      · rw [c]; exact ⟨hx, hx'⟩
    simp only [List.foldl_cons]
    refine foldFmin_negzero xs (fmin m0 x) hm.1 hm.2 (fun y hy => hall y (List.mem_cons_of_mem _ hy)) ?_
    rcases hq with hq | ⟨y, hy, hq⟩
    · exact Or.inl (fmin_negzero m0 x h hx h' hx' (Or.inl hq))
    · rcases List.mem_cons.mp hy with e | hy
      · exact Or.inl (fmin_negzero m0 x h hx h' hx' (Or.inr (e ▸ hq)))
      · exact Or.inr ⟨y, hy, hq⟩

theorem fmax_poszero (m x : UInt64) (hm : isNaNBits m = false) (hx : isNaNBits x = false) (hm' : m ≠ posInf) (hx' : x ≠ posInf)
    (h : GePosZero m ∨ GePosZero x) : GePosZero (fmax m x) := by
  have e : fmax m x = if (isZeroBits m && isZeroBits x) = true then (if fneg m = true then x else m)
      else if fLt x m = true then m else x := by
    simp [fmax, hm, hx, hm', hx']
  rw [e]
  by_cases hz : (isZeroBits m && isZeroBits x) = true
  · rw [if_pos hz]
    simp only [Bool.and_eq_true] at hz
    have k1 := fkey_zero m hz.1
    have k2 := fkey_zero x hz.2
    by_cases hn : fneg m = true
    · rw [if_pos hn]
      rcases h with h | h
      · rcases h with h | h
        · rw [hn] at h; cases h.2
        · omega
      · exact h
    · rw [if_neg hn]; exact Or.inl ⟨hz.1, by simpa using hn⟩
  · rw [if_neg hz]
    have hz' : ¬ (fkey m = 0 ∧ fkey x = 0) := fun hh => hz (by simp [fkey_eq_zero m hh.1, fkey_eq_zero x hh.2])
    by_cases hl : fLt x m = true
    · rw [if_pos hl]
      obtain ⟨_, _, hk⟩ := (fLt_iff _ _).mp hl
      rcases h with h | h
      · exact h
      · rcases h with h | h
        · have := fkey_zero x h.1; exact Or.inr (by omega)
        · exact Or.inr (by omega)
    · rw [if_neg hl]
      have hk := (fLt_eq_false _ _ hx hm).mp (by simpa using hl)
      rcases h with h | h
      · rcases h with h | h
        · have := fkey_zero m h.1; exact Or.inr (by omega)
        · exact Or.inr (by omega)
      · exact h

theorem foldFmax_poszero : ∀ (xs : List UInt64) (m0 : UInt64), isNaNBits m0 = false → m0 ≠ posInf →
    (∀ x ∈ xs, isNaNBits x = false ∧ x ≠ posInf) → (GePosZero m0 ∨ ∃ x ∈ xs, GePosZero x) → GePosZero (xs.foldl fmax m0)
  | [], m0, _, _, _, h => by
    rcases h with h | ⟨x, hx, _⟩
    · exact h
    · simp at hx
  | x :: xs, m0, h, h', hall, hq => by
    obtain ⟨hx, hx'⟩ := hall x (by simp)
    obtain ⟨c, _, _⟩ := fmax_plain m0 x h hx h' hx'
    have hm : isNaNBits (fmax m0 x) = false ∧ fmax m0 x ≠ posInf := by
      rcases c with c | c
      · rw [c]; exact ⟨h, h'⟩
      · rw [c]; exact ⟨hx, hx'⟩
    simp only [List.foldl_cons]
    refine foldFmax_poszero xs (fmax m0 x) hm.1 hm.2 (fun y hy => hall y (List.mem_cons_of_mem _ hy)) ?_
    rcases hq with hq | ⟨y, hy, hq⟩
    · exact Or.inl (fmax_poszero m0 x h hx h' hx' (Or.inl hq))
    · rcases List.mem_cons.mp hy with e | hy
      · exact Or.inl (fmax_poszero m0 x h hx h' hx' (Or.inr (e ▸ hq)))
      · exact Or.inr ⟨y, hy, hq⟩

/-- what `Bounds()` stores as the LOWER bound `r` of the coordinates `xs` -/
def MinSpec (xs : List UInt64) (r : UInt64) : Prop :=
  (negInf ∈ xs → r = negInf) ∧
  (negInf ∉ xs → (∃ x ∈ xs, isNaNBits x) → r = nanC) ∧
  (negInf ∉ xs → (∀ x ∈ xs, ¬ isNaNBits x) →
    (xs = [] → r = posInf) ∧ (xs ≠ [] → r ∈ xs) ∧ ¬ isNaNBits r ∧ (∀ x ∈ xs, ¬ fLt x r) ∧
    ((∃ x ∈ xs, isZeroBits x ∧ fneg x) → isZeroBits r → fneg r))
/-- what `Bounds()` stores as the UPPER bound `r` of the coordinates `xs` -/
def MaxSpec (xs : List UInt64) (r : UInt64) : Prop :=
  (posInf ∈ xs → r = posInf) ∧
  (posInf ∉ xs → (∃ x ∈ xs, isNaNBits x) → r = nanC) ∧
  (posInf ∉ xs → (∀ x ∈ xs, ¬ isNaNBits x) →
    (xs = [] → r = negInf) ∧ (xs ≠ [] → r ∈ xs) ∧ ¬ isNaNBits r ∧ (∀ x ∈ xs, ¬ fLt r x) ∧
    ((∃ x ∈ xs, isZeroBits x ∧ ¬ fneg x) → isZeroBits r → ¬ fneg r))

theorem fminFold_MinSpec (xs : List UInt64) : MinSpec xs (xs.foldl fmin posInf) := by
  obtain ⟨s1, s2, s3⟩ := fminFold_spec xs
  refine ⟨s1, s2, fun hno hall => ?_⟩
  obtain ⟨a, b, c, d⟩ := s3 hno hall
  refine ⟨a, b, c, d, ?_⟩
  rintro ⟨x, hx, hz, hn⟩ hr
  have hall' : ∀ x ∈ xs, isNaNBits x = false ∧ x ≠ negInf := fun x hx =>
    ⟨by simpa using hall x hx, fun e => hno (e ▸ hx)⟩
  rcases foldFmin_negzero xs posInf posInf_notNaN posInf_ne_negInf hall' (Or.inr ⟨x, hx, Or.inl ⟨hz, hn⟩⟩) with h | h
  · exact h.2
  · have := fkey_zero _ hr; omega

theorem fmaxFold_MaxSpec (xs : List UInt64) : MaxSpec xs (xs.foldl fmax negInf) := by
  obtain ⟨s1, s2, s3⟩ := fmaxFold_spec xs
  refine ⟨s1, s2, fun hno hall => ?_⟩
  obtain ⟨a, b, c, d⟩ := s3 hno hall
  refine ⟨a, b, c, d, ?_⟩
  rintro ⟨x, hx, hz, hn⟩ hr
  have hall' : ∀ x ∈ xs, isNaNBits x = false ∧ x ≠ posInf := fun x hx =>
    ⟨by simpa using hall x hx, fun e => hno (e ▸ hx)⟩
  rcases foldFmax_poszero xs negInf negInf_notNaN negInf_ne_posInf hall' (Or.inr ⟨x, hx, Or.inl ⟨hz, by simpa using hn⟩⟩) with h | h
  · simp [h.2]
  · have := fkey_zero _ hr; omega

/-- **C16_box_multipoint**: the four bounds of the box `geom2Shp` stores for a multipoint, each characterised on its own
coordinate list (`MinSpec` / `MaxSpec`): `∓Inf` wins over NaN, NaN gives the canonical `math.NaN()`, no points give
`(+Inf, +Inf, -Inf, -Inf)`, otherwise the bound is bitwise one of the coordinates, no coordinate is beyond it, and among
zeros `-0` is the minimum and `+0` the maximum -/
theorem C16_box_multipoint (ps : List (Pt UInt64)) :
    MinSpec (ps.map (·.x)) (mpBox ps).minX ∧ MinSpec (ps.map (·.y)) (mpBox ps).minY ∧
    MaxSpec (ps.map (·.x)) (mpBox ps).maxX ∧ MaxSpec (ps.map (·.y)) (mpBox ps).maxY := by
  rw [mpBox_eq]
  exact ⟨fminFold_MinSpec _, fminFold_MinSpec _, fmaxFold_MaxSpec _, fmaxFold_MaxSpec _⟩

/-- `C16_box_multipoint` for `minX`, spelled out on the points -/
theorem C16_box_multipoint_minX (ps : List (Pt UInt64)) :
    ((∃ p ∈ ps, p.x = negInf) → (mpBox ps).minX = negInf) ∧
    ((∀ p ∈ ps, p.x ≠ negInf) → (∃ p ∈ ps, isNaNBits p.x) → (mpBox ps).minX = nanC) ∧
    ((∀ p ∈ ps, p.x ≠ negInf) → (∀ p ∈ ps, ¬ isNaNBits p.x) →
      (ps = [] → (mpBox ps).minX = posInf) ∧ (ps ≠ [] → ∃ p ∈ ps, (mpBox ps).minX = p.x) ∧
      ¬ isNaNBits (mpBox ps).minX ∧ (∀ q ∈ ps, ¬ fLt q.x (mpBox ps).minX) ∧
      ((∃ p ∈ ps, isZeroBits p.x ∧ fneg p.x) → isZeroBits (mpBox ps).minX → fneg (mpBox ps).minX)) := by
  obtain ⟨⟨s1, s2, s3⟩, _, _, _⟩ := C16_box_multipoint ps
  have hno : (∀ p ∈ ps, p.x ≠ negInf) → negInf ∉ ps.map (·.x) := by
    intro h hm
    obtain ⟨p, hp, e⟩ := List.mem_map.mp hm
    exact h p hp e
  refine ⟨?_, ?_, ?_⟩
  · rintro ⟨p, hp, e⟩
    exact s1 (List.mem_map.mpr ⟨p, hp, e⟩)
  · rintro h ⟨p, hp, hn⟩
    exact s2 (hno h) ⟨p.x, List.mem_map_of_mem hp, hn⟩
  · intro h hall
    obtain ⟨a, b, c, d, e⟩ := s3 (hno h) (by
      intro x hx
      obtain ⟨p, hp, rfl⟩ := List.mem_map.mp hx
      exact hall p hp)
    refine ⟨fun hp => a (by simp [hp]), ?_, c, fun q hq => d q.x (List.mem_map_of_mem hq), ?_⟩
    · intro hne
      obtain ⟨p, hp, e'⟩ := List.mem_map.mp (b (by simpa using hne))
      exact ⟨p, hp, e'.symm⟩
    · rintro ⟨p, hp, hz⟩
      exact e ⟨p.x, List.mem_map_of_mem hp, hz⟩

/-- non-vacuity / concrete behaviour: `-Inf` beats NaN; NaN is canonicalised; `-0` is the minimum and `+0` the maximum
of the two zeros in either order; no points give the inverted infinite box -/
example :
    (mpBox [⟨nanC + 5, 0⟩, ⟨negInf, 0⟩]).minX = negInf ∧ (mpBox [⟨nanC + 5, 0⟩, ⟨negInf, 0⟩]).maxX = nanC ∧
    (mpBox [⟨0, 0⟩, ⟨0x8000000000000000, 0⟩]).minX = 0x8000000000000000 ∧
    (mpBox [⟨0x8000000000000000, 0⟩, ⟨0, 0⟩]).minX = 0x8000000000000000 ∧
    (mpBox [⟨0x8000000000000000, 0⟩, ⟨0, 0⟩]).maxX = 0 ∧ (mpBox [⟨0, 0⟩, ⟨0x8000000000000000, 0⟩]).maxX = 0 ∧
    mpBox [] = ⟨posInf, posInf, negInf, negInf⟩ ∧
    -- go-shp's own box keeps the FIRST zero and a leading NaN
    (bboxFromPoints [⟨0, 0⟩, ⟨0x8000000000000000, 0⟩]).minX = 0 ∧
    (bboxFromPoints [⟨nanC + 5, 0⟩, ⟨negInf, 0⟩]).minX = nanC + 5 ∧ (bboxFromPoints [⟨nanC + 5, 0⟩, ⟨negInf, 0⟩]).maxX = nanC + 5 := by
  decide +kernel

/-! ### the file header box -/

theorem mainHeader_box (l t : Nat) (b : Box) (X : Bytes) : ((mainHeader l t b ++ X).drop 36).take 32 = boxBytes b := by
  have e : mainHeader l t b ++ X = (be32 9994 ++ zeros 20 ++ be32 (l / 2) ++ le32 1000 ++ le32 t) ++ (boxBytes b ++ (zeros 32 ++ X)) := by
    simp [mainHeader, List.append_assoc]
  have hd := drop_len_add (be32 9994 ++ zeros 20 ++ be32 (l / 2) ++ le32 1000 ++ le32 t) (boxBytes b ++ (zeros 32 ++ X)) 0
  have hl : (be32 9994 ++ zeros 20 ++ be32 (l / 2) ++ le32 1000 ++ le32 t).length = 36 := by simp [be32, le32, zeros]
  rw [hl] at hd
  rw [e, hd, List.drop_zero]
  have := take_append_length' (boxBytes b) (zeros 32 ++ X)
  rwa [boxBytes_length] at this

theorem foldl_extendBox_minX : ∀ (ss : List BShape) (b : Box),
    (ss.foldl (fun b x => extendBox b x.bbox) b).minX = (ss.flatMap fun x => [x.bbox.minX, x.bbox.maxX]).foldl stepMin b.minX
  | [], b => rfl
  | s :: ss, b => by
    simp only [List.foldl_cons, List.flatMap_cons, List.foldl_append]; rw [foldl_extendBox_minX ss]; rfl
theorem foldl_extendBox_minY : ∀ (ss : List BShape) (b : Box),
    (ss.foldl (fun b x => extendBox b x.bbox) b).minY = (ss.flatMap fun x => [x.bbox.minY, x.bbox.maxY]).foldl stepMin b.minY
  | [], b => rfl
  | s :: ss, b => by
    simp only [List.foldl_cons, List.flatMap_cons, List.foldl_append]; rw [foldl_extendBox_minY ss]; rfl
theorem foldl_extendBox_maxX : ∀ (ss : List BShape) (b : Box),
    (ss.foldl (fun b x => extendBox b x.bbox) b).maxX = (ss.flatMap fun x => [x.bbox.minX, x.bbox.maxX]).foldl stepMax b.maxX
  | [], b => rfl
  | s :: ss, b => by
    simp only [List.foldl_cons, List.flatMap_cons, List.foldl_append]; rw [foldl_extendBox_maxX ss]; rfl
theorem foldl_extendBox_maxY : ∀ (ss : List BShape) (b : Box),
    (ss.foldl (fun b x => extendBox b x.bbox) b).maxY = (ss.flatMap fun x => [x.bbox.minY, x.bbox.maxY]).foldl stepMax b.maxY
  | [], b => rfl
  | s :: ss, b => by
    simp only [List.foldl_cons, List.flatMap_cons, List.foldl_append]; rw [foldl_extendBox_maxY ss]; rfl

/-- **C16_header_box**: after any call history and `Close()`, bytes 36..68 of BOTH the `.shp` and the `.shx` are the box
`bboxOfShapes` of the shapes written (the zero box when nothing was written); with at least one shape, each of its bounds
is the running `<`-minimum / maximum (`stepMin` / `stepMax`, so `C16_stepMin` / `C16_stepMax` (i)–(iii) apply) that
starts at the FIRST shape's own box (`shape.BBox()`, recomputed from its points; the zero box for a Null shape) and
runs over min and max bound of every later shape's own box -/
theorem C16_header_box (t : Nat) (fs : List Field) (calls : List CallB) :
    ((close t fs (runB t fs calls).1).shp.drop 36).take 32 = boxBytes (bboxOfShapes (shapesOf calls)) ∧
    ((close t fs (runB t fs calls).1).shx.drop 36).take 32 = boxBytes (bboxOfShapes (shapesOf calls)) ∧
    (shapesOf calls = [] → bboxOfShapes (shapesOf calls) = ⟨0, 0, 0, 0⟩) ∧
    ∀ s ss, shapesOf calls = s :: ss →
      (bboxOfShapes (shapesOf calls)).minX = (ss.flatMap fun x => [x.bbox.minX, x.bbox.maxX]).foldl stepMin s.bbox.minX ∧
      (bboxOfShapes (shapesOf calls)).minY = (ss.flatMap fun x => [x.bbox.minY, x.bbox.maxY]).foldl stepMin s.bbox.minY ∧
      (bboxOfShapes (shapesOf calls)).maxX = (ss.flatMap fun x => [x.bbox.minX, x.bbox.maxX]).foldl stepMax s.bbox.maxX ∧
      (bboxOfShapes (shapesOf calls)).maxY = (ss.flatMap fun x => [x.bbox.minY, x.bbox.maxY]).foldl stepMax s.bbox.maxY := by
  obtain ⟨_, hbox, _, _⟩ := C16_shx_invariant t fs calls
  refine ⟨?_, ?_, fun e => by rw [e]; rfl, ?_⟩
  · simp only [close, hbox]; exact mainHeader_box _ _ _ _
  · simp only [close, hbox]; exact mainHeader_box _ _ _ _
  · intro s ss e
    rw [e]
    exact ⟨foldl_extendBox_minX ss _, foldl_extendBox_minY ss _, foldl_extendBox_maxX ss _, foldl_extendBox_maxY ss _⟩

/-- the header's lower x bound when the first shape's own box has a non-NaN `minX`: non-NaN, bitwise a bound of one of the
shapes' own boxes, and not above any bound of any shape's own box (a shape whose own box has a NaN bound is skipped) -/
theorem C16_header_box_minX (t : Nat) (fs : List Field) (calls : List CallB) (s : BShape) (ss : List BShape)
    (e : shapesOf calls = s :: ss) (h : ¬ isNaNBits s.bbox.minX) :
    ¬ isNaNBits (bboxOfShapes (shapesOf calls)).minX ∧
    ((bboxOfShapes (shapesOf calls)).minX = s.bbox.minX ∨
      ∃ x ∈ ss, (bboxOfShapes (shapesOf calls)).minX = x.bbox.minX ∨ (bboxOfShapes (shapesOf calls)).minX = x.bbox.maxX) ∧
    ¬ fLt s.bbox.minX (bboxOfShapes (shapesOf calls)).minX ∧
    ∀ x ∈ ss, ¬ fLt x.bbox.minX (bboxOfShapes (shapesOf calls)).minX ∧ ¬ fLt x.bbox.maxX (bboxOfShapes (shapesOf calls)).minX := by
  obtain ⟨h1, _, _, _⟩ := (C16_header_box t fs calls).2.2.2 s ss e
  rw [h1]
  obtain ⟨a1, a2, a3⟩ := foldMin_lower (ss.flatMap fun x => [x.bbox.minX, x.bbox.maxX]) s.bbox.minX (by simpa using h)
  refine ⟨by simpa using a1, ?_, by simpa using a2, ?_⟩
  · rcases foldMin_attained (ss.flatMap fun x => [x.bbox.minX, x.bbox.maxX]) s.bbox.minX with c | c
    · exact Or.inl c
    · obtain ⟨x, hx, hm⟩ := List.mem_flatMap.mp c
      refine Or.inr ⟨x, hx, ?_⟩
      simpa using hm
  · intro x hx
    have m1 : x.bbox.minX ∈ ss.flatMap fun x => [x.bbox.minX, x.bbox.maxX] := List.mem_flatMap.mpr ⟨x, hx, by simp⟩
    have m2 : x.bbox.maxX ∈ ss.flatMap fun x => [x.bbox.minX, x.bbox.maxX] := List.mem_flatMap.mpr ⟨x, hx, by simp⟩
    exact ⟨by simpa using a3 _ m1, by simpa using a3 _ m2⟩

end GeomV.C16.Layout
