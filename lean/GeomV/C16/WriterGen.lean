import GeomV.C16.Model
/-!
# C16 — the writer on the row store, for EVERY history (stale cursor included)

`Model.lean` describes a record's attribute cells as a fresh row (`writeStrict` / `writeLenient` into the blank
row `Writer.Write` has just appended). That is what happens as long as the encoder's own cursor `e.row` points at
the row just appended. It stops being true after an `EncodeFields` call with MORE values than columns: go-shp's
`WriteAttribute` indexes `dbfFields[field]` out of range, the call panics AFTER the shape and the first
`len(fields)` cells were written and BEFORE `e.row++`. From then on every later call appends its blank row at
the end of the table but writes its cells into an EARLIER row, on top of what that row holds:
`WriteAttribute` replaces the first `len(buf)` bytes of the cell and leaves the rest (`putCell`).

`encodeG` is that behaviour on the row store, with the cursor explicit; `EndToEnd.lean` proves that the byte-level
writer of `Layout.lean` implements it for every call sequence, and that it coincides with `writeStrict` /
`writeLenient` per record when no call has more values than columns.
Core Lean only (the judge runs it).
-/
namespace GeomV.C16
open GeomV

/-- `WriteAttribute` on an existing cell: the first `len(buf)` bytes are replaced, the rest stays -/
def putCell (old buf : Bytes) : Bytes := buf ++ old.drop buf.length

/-- the attribute loop of `Encode` on an existing row: stop at the first refused value -/
def overStrict : List Field → List Val → List Bytes → List Bytes
  | f :: fs, v :: vs, c :: cs =>
    match writeAttr f v with
    | none => c :: cs
    | some b => putCell c b :: overStrict fs vs cs
  | _, _, cs => cs

/-- the attribute loop of `EncodeFields` on an existing row: a refused value leaves its cell as it is -/
def overLenient : List Field → List Val → List Bytes → List Bytes
  | f :: fs, v :: vs, c :: cs =>
    (match writeAttr f v with
     | none => c
     | some b => putCell c b) :: overLenient fs vs cs
  | _, _, cs => cs

section
variable {α : Type}

/-- one call on an encoder (`via` … `Encode`, else `EncodeFields`), `sh` being the result of `geom2Shp`:
`Writer.Write(shape)` appends the shape with a blank row; the cells go into row `e.row`, whatever it holds;
`Encode` advances the cursor before its loop, `EncodeFields` after it (not at all when the loop panics) -/
def encodeG (fs : List Field) (st : WState α) (via : Bool) (sh : Except Fault (Shape α)) (vals : List Val) :
    WState α × WRes :=
  match sh with
  | .error .nilDeref => (st, .panic)
  | .error _ => (st, .err)
  | .ok s =>
    let appended := st.rows ++ [(s, blankRow fs)]
    if via then
      (⟨appended.modify st.row (fun r => (r.1, overStrict fs vals r.2)), st.row + 1⟩,
        if (writeStrict fs vals).2 then .ok else .err)
    else
      (⟨appended.modify st.row (fun r => (r.1, overLenient fs vals r.2)),
          if vals.length > fs.length then st.row else st.row + 1⟩,
        if vals.length > fs.length then .panic else .ok)

/-- a whole sequence of `EncodeFields(g, vals...)` calls on an encoder from `NewEncoderFromFields` -/
def writeAllG (eq : Pt α → Pt α → Bool) (fields : List Field) (recs : List (Geom α × List Val)) :
    List (Shape α × List Bytes) × List WRes :=
  let r := recs.foldl (fun (acc : WState α × List WRes) r =>
    let x := encodeG fields acc.1 false (geom2Shp eq r.1) r.2; (x.1, acc.2 ++ [x.2])) (⟨[], 0⟩, [])
  (r.1.rows, r.2)

end
end GeomV.C16
