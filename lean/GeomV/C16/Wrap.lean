import GeomV.C16.Layout
/-!
# C16 — go-shp BEYOND the 16-bit widths: the wrapped counters as modelled behaviour

`Layout.lean` computes `dbfHeaderLength` / `dbfRecordLength` with `Nat`; go-shp keeps them in `int16`
(`writer.go`: `w.dbfRecordLength = int16(1); … += int16(field.Size)`, `w.dbfHeaderLength = int16(len*32 + 33)`;
`reader.go`: `binary.Read` into `int16` fields). Within `WidthsOK` (both below 2^15) the two agree
(`Layout.widths_faithful`). This file transcribes what go-shp does with the WRAPPED values, for the field path
(`NewEncoderFromFields` / `EncodeFields` / `DecodeRowFields`; a struct type would need 656 string fields):

* `SetFields`: `make([]byte, w.dbfHeaderLength)` — a negative header length (1023 … 2047 columns) panics, so
  `NewEncoderFromFields` panics (`createW = none`);
* `writeEmptyRecord`: `buf := make([]byte, w.dbfRecordLength); buf[0] = ' '` — a negative record length (row of
  32768 … 65535 bytes, e.g. 129 columns of 255) panics with `makeslice`, a record length of exactly 0 (65536 bytes)
  with an index fault; this happens inside `Writer.Write` AFTER the shape went into `.shp`/`.shx` and `num`/`bbox`
  were updated, so every `EncodeFields` panics, the shapes are in the file and the `.dbf` has no rows at all;
* a record length that wrapped to a small POSITIVE value (258+ columns of 255): rows of `recLenW` bytes are appended
  while `WriteAttribute` seeks to `1 + hdr + row*recLenW + Σ sizes` — the rows overlap; everything is a positioned
  write on the byte string (`Layout.writeAt`), as in `Layout.lean`;
* the reader reads both lengths back as `int16`; `ReadAttribute` seeks to the same wrapped offset; a NEGATIVE offset
  makes `Seek` fail (error ignored) and `Read` continues from the CURRENT position of the file — the position is
  therefore part of the reader's state (`RD.pos`: after `openDbf` it is behind the field descriptors).

Tie: the correspondence family `wide` of the generator (`-wide` classes of the judge, DIFF only: files of this
width are outside the statement — standing assumption "fewer than 2^15 bytes per attribute row and header").
`WrapProofs.lean` proves that within `WidthsOK` this writer IS `Layout.encode` / `Layout.create`.
Core Lean only.
-/
namespace GeomV.C16.Wrap
open GeomV GeomV.C16 GeomV.C16.Layout

/-- Go `int16(z)` -/
def i16 (z : Int) : Int := (z + 32768) % 65536 - 32768

/-- `dbfRecordLength`: `int16(1)`, then `+= int16(field.Size)` per field -/
def recLenW (fs : List Field) : Int := fs.foldl (fun a f => i16 (a + i16 f.size)) (i16 1)
/-- `dbfHeaderLength = int16(len(fields)*32 + 33)` -/
def hdrLenW (fs : List Field) : Int := i16 ((fs.length * 32 + 33 : Nat) : Int)
/-- `seekTo` of `WriteAttribute` -/
def cellOffW (fs : List Field) (row field : Nat) : Int := 1 + hdrLenW fs + row * recLenW fs + sizeSum (fs.take field)

/-- `Create` + `SetFields`: `none` = `make([]byte, negative)` panics -/
def createW (fs : List Field) : Option BW :=
  if hdrLenW fs < 0 then none else some ⟨[], [], zeros (hdrLenW fs).toNat, 0, ⟨0, 0, 0, 0⟩, 0⟩

/-- `writeEmptyRecord`: `none` = panic (`makeslice` for a negative length, index fault on `buf[0]` for 0) -/
def emptyRecordW (fs : List Field) : Option Bytes :=
  if recLenW fs ≤ 0 then none else some (32 :: zeros ((recLenW fs).toNat - 1))

/-- `Writer.Write(shape)`; `false` = it panicked in `writeEmptyRecord` (the `.shp`/`.shx` record, `num`, `bbox` stay) -/
def writeW (t : Nat) (fs : List Field) (w : BW) (s : BShape) : BW × Bool :=
  let w1 := Layout.write t fs w s
  match emptyRecordW fs with
  | none => ({ w1 with dbf := w.dbf }, false)
  | some r => ({ w1 with dbf := w.dbf ++ r }, true)

/-- `Writer.WriteAttribute(row, field, value)` with the wrapped offset (never negative when it is reached: the header
length is ≥ 0 once the encoder exists and the record length > 0 once `Write` returned — `WrapProofs.cellOffW_nonneg`) -/
def writeAttributeW (fs : List Field) (dbf : Bytes) (row field : Nat) (v : Val) : Bytes × AttrRes :=
  match fs[field]? with
  | none => (dbf, .panic)
  | some f =>
    match writeAttr f v with
    | none => (dbf, .err)
    | some buf => (writeAt dbf (cellOffW fs row field).toNat buf, .ok)

/-- the attribute loop of `EncodeFields` -/
def attrsLenientW (fs : List Field) (row : Nat) : Nat → List Val → Bytes → Bytes × Bool
  | _, [], dbf => (dbf, true)
  | i, v :: vs, dbf =>
    match writeAttributeW fs dbf row i v with
    | (d, .panic) => (d, false)
    | (d, _) => attrsLenientW fs row (i + 1) vs d

/-- `Encoder.EncodeFields` on the bytes, with go-shp's own counters -/
def encodeFieldsW (t : Nat) (fs : List Field) (w : BW) (shape : Except Fault BShape) (vals : List Val) : BW × WRes :=
  match shape with
  | .error .nilDeref => (w, .panic)
  | .error _ => (w, .err)
  | .ok sh =>
    match writeW t fs w sh with
    | (w1, false) => (w1, .panic)
    | (w1, true) =>
      let r := attrsLenientW fs w1.row 0 vals w1.dbf
      ({ w1 with dbf := r.1, row := if r.2 then w1.row + 1 else w1.row }, if r.2 then .ok else .panic)

/-- a whole history on a fresh encoder; `none` = the constructor panicked -/
def runW (t : Nat) (fs : List Field) (recs : List (Except Fault BShape × List Val)) : Option (Files × List WRes) :=
  match createW fs with
  | none => none
  | some w0 =>
    let r := recs.foldl (fun (acc : BW × List WRes) c => let x := encodeFieldsW t fs acc.1 c.1 c.2; (x.1, acc.2 ++ [x.2])) (w0, [])
    some (Layout.close t fs r.1, r.2)

/-! ## the reader -/

/-- what `openDbf` keeps, and the position of the `.dbf` file handle -/
structure RD where
  hdr : Int
  recl : Int
  fields : List Field
  pos : Nat
deriving Inhabited

/-- `openDbf`: both lengths are read into `int16`; `numFields = floor(float64(hdr-33)/32)` with the subtraction in
`int16`; `none` = `make([]Field, negative)` panics; afterwards the handle is behind the descriptors it could read -/
def openDbfW (dbf : Bytes) : Option RD :=
  let hdr := i16 (rdLe ((dbf.drop 8).take 2))
  let recl := i16 (rdLe ((dbf.drop 10).take 2))
  let nf := Int.fdiv (i16 (hdr - 33)) 32
  if nf < 0 then none
  else some ⟨hdr, recl, rdFields nf.toNat (dbf.drop 32), min dbf.length (32 + 32 * nf.toNat)⟩

/-- `ReadAttribute(row, field)` before trimming: `none` = index panic on `r.dbfFields[field]`; a negative offset
leaves the handle where it is -/
def readAttributeW (dbf : Bytes) (rd : RD) (row field : Nat) : Option (Bytes × RD) :=
  match rd.fields[field]? with
  | none => none
  | some f =>
    let seekTo : Int := 1 + rd.hdr + row * rd.recl + (((rd.fields.take field).map (·.size)).sum : Nat)
    let pos1 := if seekTo < 0 then rd.pos else seekTo.toNat
    let got := (dbf.drop pos1).take f.size
    some (got ++ zeros (f.size - got.length), { rd with pos := pos1 + got.length })

/-- the name loop of one `DecodeRowFields(names…)` call: the map entries, whether an error was recorded (unknown name:
the call returns at once), the reader afterwards; `none` = panic -/
def fieldsLoopW (dbf : Bytes) (keys : List Bytes) (row : Nat) : List Bytes → RD → Option (List (Bytes × Bytes) × Bool × RD)
  | [], rd => some ([], false, rd)
  | n :: rest, rd =>
    match lastIdx keys (lower n) with
    | none => some ([], true, rd)
    | some j =>
      match readAttributeW dbf rd row j with
      | none => none
      | some (cell, rd1) =>
        match fieldsLoopW dbf keys row rest rd1 with
        | none => none
        | some (m, e, rd2) => some ((n, strOf cell) :: m, e, rd2)

/-- the read loop `for { g, m, more := d.DecodeRowFields(names…) … }` over the shapes of the file, the decoder's row
cursor and the `.dbf` handle explicit -/
def readRowsW (dbf : Bytes) (keys names : List Bytes) : List (Shape UInt64) → Nat → RD → ReadRes UInt64
  | [], _, _ => ⟨[], false, false⟩
  | sh :: rest, row, rd =>
    match shp2Geom sh with
    | .error _ => ⟨[], true, false⟩
    | .ok g =>
      match fieldsLoopW dbf keys row names rd with
      | none => ⟨[], true, false⟩
      | some (m, e, rd1) =>
        let vs : List (RVal UInt64) := names.map fun n => match m.find? (fun p => p.1 == n) with
          | some p => RVal.str p.2
          | none => RVal.missing
        if e then ⟨[.geom g :: vs], false, true⟩
        else
          let r := readRowsW dbf keys names rest (row + 1) rd1
          ⟨(.geom g :: vs) :: r.rows, r.panicked, r.err⟩

/-- a Decoder on the two files, read to the end with `DecodeRowFields(names…)` -/
def readW (shp dbf : Bytes) (names : List Bytes) : ReadRes UInt64 :=
  match readShapes shp 100 with
  | none => ⟨[], false, true⟩                      -- `Next` reports an error: no rows (not produced by the writer above)
  | some [] => ⟨[], false, false⟩                  -- `getFieldIndices` is never reached
  | some shapes =>
    match openDbfW dbf with
    | none => ⟨[], true, false⟩                    -- the first call panics in `Fields()`
    | some rd => readRowsW dbf (fileKeys rd.fields) names shapes 0 rd

end GeomV.C16.Wrap
