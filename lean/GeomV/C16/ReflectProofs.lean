import GeomV.C16.Reflect
import GeomV.C16.Proofs
/-!
# C16 — the reflection rules of the struct paths, proved on the field-matching model (`Reflect.lean`)

Every theorem is quantified over ALL field lists (record types) and all rows; the hypotheses are decidable and
come with a concrete instance. What ties `Reflect.lean` to the Go code is the correspondence run on the `rfile`
lines (statically declared Go record types, described by reflection; `harness/cmd/c16/reflect.go`).
-/
set_option linter.unusedVariables false
namespace GeomV.C16.Reflect
open GeomV GeomV.C16

deriving instance DecidableEq for Except

/-! ## the reflection model extends the proved one -/

theorem plain_key (sf : SField) : (RField.plain sf).key = sf := by
  obtain ⟨n, t, k⟩ := sf
  cases k <;> rfl

def lift (f : Field) : Field × ColInfo := (f, ⟨true, false⟩)

theorem colOf_plain (sf : SField) : colOf (RField.plain sf) = lift (colField sf) := by
  unfold colOf lift
  rw [plain_key]
  rfl

theorem scan_plain : ∀ (sfs : List SField) (fs : List Field) (g : Option GK),
    scan (sfs.map RField.plain) (fs.map lift) (g.map fun k => (k, true)) =
      (newEncoder.go sfs fs g).map (fun p => (p.1.map lift, p.2.map fun k => (k, true))) := by
  intro sfs
  induction sfs with
  | nil => intro fs g; simp [scan, newEncoder.go, Except.map]
  | cons sf rest ih =>
    intro fs g
    have hc := colOf_plain sf
    have ih1 := ih (colField sf :: fs) g
    simp only [List.map_cons] at ih1
    rw [List.map_cons, scan, newEncoder.go]
    obtain ⟨n, t, k⟩ := sf
    cases k with
    | int => simp only [RField.plain, RKind.ofKind] at hc ⊢; rw [hc]; exact ih1
    | float => simp only [RField.plain, RKind.ofKind] at hc ⊢; rw [hc]; exact ih1
    | str => simp only [RField.plain, RKind.ofKind] at hc ⊢; rw [hc]; exact ih1
    | geom k =>
      cases k
      case I => simp [RField.plain, RKind.ofKind, Except.map]
      all_goals (simp only [RField.plain, RKind.ofKind]; exact ih fs (some _))

/-- `NewEncoder` on the old field sorts -/
theorem refl_conservative_newEncoder (sfs : List SField) :
    newEncoderR (sfs.map RField.plain) = (newEncoder sfs).map EncR.ofEncS := by
  have h := scan_plain sfs [] none
  simp only [List.map_nil, Option.map_none] at h
  unfold newEncoderR newEncoder
  rw [h]
  cases hg : newEncoder.go sfs [] none with
  | error f => simp [Except.map]
  | ok p =>
    obtain ⟨fs, g⟩ := p
    cases g with
    | none => simp [Except.map]
    | some k =>
      cases ht : shapeTypeOfGK k <;> simp [Except.map, ht, EncR.ofEncS, lift]

theorem map_lift_fst (fs : List Field) : (fs.map lift).map (·.1) = fs := by
  simp [lift, Function.comp_def]

theorem ofEncS_eq (e : EncS) : EncR.ofEncS e = ⟨e.shpType, e.fields.map lift, e.geomKind, true⟩ := rfl

theorem writeStrictR_lift : ∀ (fs : List Field) (vs : List Val),
    writeStrictR (fs.map lift) vs = ((writeStrict fs vs).1, if (writeStrict fs vs).2 then WRes.ok else WRes.err) := by
  intro fs
  induction fs with
  | nil => intro vs; simp [writeStrictR, writeStrict]
  | cons f fs ih =>
    intro vs
    cases vs with
    | nil =>
      simp only [List.map_cons, writeStrictR, writeStrict, lift]
      rw [map_lift_fst]
      simp
    | cons v vs =>
      simp only [List.map_cons, writeStrictR, writeStrict, lift]
      rw [map_lift_fst, ih vs]
      simp only [Bool.not_true, Bool.false_eq_true, if_false]
      split <;> rename_i h <;> simp [h]

/-- `Encode` of an encoder made from the old field sorts is `encodeMix … viaEncode := true` -/
theorem refl_conservative_encode {α : Type} (eq : Pt α → Pt α → Bool) (e : EncS) (st : WState α) (g : Geom α) (vals : List Val) :
    encodeR eq (EncR.ofEncS e) st g vals = encodeMix eq e st true g vals := by
  have hw := writeStrictR_lift e.fields vals
  rw [ofEncS_eq]
  unfold encodeR encodeMix
  simp only [EncR.fields, map_lift_fst, Bool.not_true, Bool.false_eq_true, if_false, if_true, hw]
  cases fieldShape eq e.geomKind g with
  | error f => cases f <;> rfl
  | ok sh => rfl

theorem zeroOfR_ofKind {α : Type} (zero : α) (k : Kind) : zeroOfR zero (RKind.ofKind k) = zeroOf zero k := by
  cases k <;> rfl

/-- one field of `DecodeRow` -/
theorem refl_conservative_decodeField {α : Type} (keys : List Bytes) (g : Geom α) (cells : List Bytes) (sf : SField) (prev : RVal α) :
    decodeFieldR keys g cells (RField.plain sf) prev = (decodeField keys g cells sf prev).mapError RFault.base := by
  have hk := plain_key sf
  unfold decodeFieldR decodeField
  rw [hk]
  obtain ⟨n, t, k⟩ := sf
  cases k with
  | geom k =>
    simp only [RField.plain, RKind.ofKind, RKind.geomLike]
    cases g <;> simp only [Except.mapError, Bool.not_true, Bool.false_eq_true, if_false] <;> split <;> rfl
  | int =>
    simp only [RField.plain, RKind.ofKind, RKind.geomLike]
    cases matchField keys ⟨n, t, .int⟩ with
    | none => rfl
    | some j =>
      dsimp only
      cases cells[j]? with
      | none => rfl
      | some cell => dsimp only; cases parseInt (numText cell) <;> simp [Except.mapError]
  | float =>
    simp only [RField.plain, RKind.ofKind, RKind.geomLike]
    cases matchField keys ⟨n, t, .float⟩ with
    | none => rfl
    | some j =>
      dsimp only
      cases cells[j]? with
      | none => rfl
      | some cell => dsimp only; cases parseFloat (numText cell) <;> simp [Except.mapError]
  | str =>
    simp only [RField.plain, RKind.ofKind, RKind.geomLike]
    cases matchField keys ⟨n, t, .str⟩ with
    | none => rfl
    | some j =>
      dsimp only
      cases cells[j]? with
      | none => rfl
      | some cell => simp [Except.mapError]

/-- all fields of one `DecodeRow` call -/
theorem refl_conservative_decodeFields {α : Type} (zero : α) (keys : List Bytes) (g : Geom α) (cells : List Bytes) :
    ∀ (sfs : List SField) (prevs : List (RVal α)),
      decodeFieldsR zero keys g cells (sfs.map RField.plain) prevs = decodeFields zero keys g cells sfs prevs := by
  intro sfs
  induction sfs with
  | nil => intro prevs; rfl
  | cons sf rest ih =>
    intro prevs
    rw [List.map_cons, decodeFieldsR, decodeFields, refl_conservative_decodeField, ih]
    have hz : zeroOfR zero (RField.plain sf).kind = zeroOf zero sf.kind := zeroOfR_ofKind zero sf.kind
    rw [hz]
    cases decodeField keys g cells sf (prevs.headD (zeroOf zero sf.kind)) with
    | error f => rfl
    | ok p => rfl

theorem zeroRowR_plain {α : Type} (zero : α) (sfs : List SField) : zeroRowR zero (sfs.map RField.plain) = zeroRow zero sfs := by
  unfold zeroRowR zeroRow
  rw [List.map_map]
  apply List.map_congr_left
  intro sf _
  exact zeroOfR_ofKind zero sf.kind

/-- a whole file read with `DecodeRow` -/
theorem refl_conservative_read {α : Type} (zero : α) (f : FileM α) (sfs : List SField) (reuse : Bool) :
    readR zero f (sfs.map RField.plain) reuse = readS zero f sfs reuse := by
  unfold readR readS
  rw [zeroRowR_plain]
  generalize zeroRow zero sfs = var
  generalize f.rows = rows
  induction rows generalizing var with
  | nil => rfl
  | cons r rest ih =>
    obtain ⟨sh, cells⟩ := r
    rw [readR.go, readS.go]
    cases shp2Geom sh with
    | error e => rfl
    | ok g =>
      simp only [refl_conservative_decodeFields, zeroRowR_plain]
      cases hd : decodeFields zero (fileKeys f.fields) g cells sfs var with
      | mk o e =>
        cases o with
        | none => rfl
        | some vs =>
          cases e with
          | true => rfl
          | false => simp only [ih]

/-- **refl_conservative**: on the field sorts of `Model.lean` (exported, not embedded, predeclared `int` / `float64` /
`string` / geometry types) the reflection model IS the proved model — it extends it, it does not replace it:
`NewEncoder`, `Encode`, one field / all fields of `DecodeRow`, and a whole read coincide. -/
theorem refl_conservative {α : Type} (eq : Pt α → Pt α → Bool) (zero : α) (sfs : List SField) :
    newEncoderR (sfs.map RField.plain) = (newEncoder sfs).map EncR.ofEncS ∧
    (∀ (e : EncS) (st : WState α) (g : Geom α) (vals : List Val),
      encodeR eq (EncR.ofEncS e) st g vals = encodeMix eq e st true g vals) ∧
    (∀ (keys : List Bytes) (g : Geom α) (cells : List Bytes) (prevs : List (RVal α)),
      decodeFieldsR zero keys g cells (sfs.map RField.plain) prevs = decodeFields zero keys g cells sfs prevs) ∧
    (∀ (f : FileM α) (reuse : Bool), readR zero f (sfs.map RField.plain) reuse = readS zero f sfs reuse) :=
  ⟨refl_conservative_newEncoder sfs, fun e st g vals => refl_conservative_encode eq e st g vals,
   fun keys g cells prevs => refl_conservative_decodeFields zero keys g cells sfs prevs,
   fun f reuse => refl_conservative_read zero f sfs reuse⟩

/-! ## `NewEncoder`: skipped fields, unsupported kinds, columns -/

theorem scan_skip (rf : RField) (h : rf.kind.skipped = true) (post : List RField) :
    ∀ (pre : List RField) (fs : List (Field × ColInfo)) (g : Option (GK × Bool)),
      scan (pre ++ rf :: post) fs g = scan (pre ++ post) fs g := by
  intro pre
  induction pre with
  | nil =>
    intro fs g
    obtain ⟨n, tn, t, ex, em, nm, k⟩ := rf
    cases k <;> simp [RKind.skipped] at h <;> simp [scan]
  | cons a pre ih =>
    intro fs g
    obtain ⟨n, tn, t, ex, em, nm, k⟩ := a
    cases k with
    | geom k => cases k <;> simp [scan, ih]
    | _ => simp [scan, ih]

/-- **refl_skipped_fields**: a field `NewEncoder` skips without a word — a struct that is not a geometry (embedded or
not), a slice such as `[]int`, a pointer other than `*Bounds`, a `geom.Geom` implementation that is not one of the five
geometry names — can be inserted into or removed from the archetype ANYWHERE: the encoder (columns with their
visibility, shape type, geometry kind) is the same, hence so is every file written with it, row by row and result by
result. Only `e.fieldIndices` / `e.geomIndex` shift, and they are resolved in `EncR`. -/
theorem refl_skipped_fields {α : Type} (eq : Pt α → Pt α → Bool) (pre post : List RField) (rf : RField) (h : rf.kind.skipped = true) :
    newEncoderR (pre ++ rf :: post) = newEncoderR (pre ++ post) ∧
    ∀ recs : List (Geom α × List Val),
      (newEncoderR (pre ++ rf :: post)).map (fun e => writeAllR eq e recs) =
      (newEncoderR (pre ++ post)).map (fun e => writeAllR eq e recs) := by
  have h1 : newEncoderR (pre ++ rf :: post) = newEncoderR (pre ++ post) := by
    unfold newEncoderR; rw [scan_skip rf h post pre [] none]
  exact ⟨h1, fun recs => by rw [h1]⟩

/-- non-vacuity: `struct{ P *int; Inner; G geom.Point; L []int; A int }` gives the encoder of `struct{ G geom.Point; A int }` -/
example :
    newEncoderR [⟨[80], [105, 110, 116], [], true, false, false, .ptrOther⟩,
                 ⟨[73, 110, 110, 101, 114], [73, 110, 110, 101, 114], [], true, true, false, .otherStruct [⟨[65], [], .int⟩]⟩,
                 ⟨[71], [80, 111, 105, 110, 116], [], true, false, false, .geom .P⟩,
                 ⟨[76], [], [], true, false, false, .otherSlice⟩,
                 ⟨[65], [105, 110, 116], [], true, false, false, .int⟩] =
    newEncoderR [⟨[71], [80, 111, 105, 110, 116], [], true, false, false, .geom .P⟩,
                 ⟨[65], [105, 110, 116], [], true, false, false, .int⟩] ∧
    (newEncoderR [⟨[71], [80, 111, 105, 110, 116], [], true, false, false, .geom .P⟩,
                 ⟨[65], [105, 110, 116], [], true, false, false, .int⟩]).toOption.map (·.cols.length) = some 1 := by
  decide

theorem scan_invalid (rf : RField) (h : rf.kind.invalid = true) (post : List RField) :
    ∀ (pre : List RField) (fs : List (Field × ColInfo)) (g : Option (GK × Bool)),
      scan (pre ++ rf :: post) fs g = .error .invalidType := by
  intro pre
  induction pre with
  | nil =>
    intro fs g
    obtain ⟨n, tn, t, ex, em, nm, k⟩ := rf
    cases k with
    | geom k => cases k <;> simp [RKind.invalid] at h <;> simp [scan]
    | _ => simp [RKind.invalid] at h <;> simp [scan]
  | cons a pre ih =>
    intro fs g
    obtain ⟨n, tn, t, ex, em, nm, k⟩ := a
    cases k with
    | geom k => cases k <;> simp [scan, ih]
    | _ => simp [scan, ih]

/-- the only way the loop fails is an invalid kind, and the geometry kind it returns is never the interface -/
theorem scan_result : ∀ (rfs : List RField) (fs : List (Field × ColInfo)) (g : Option (GK × Bool)),
    (∀ k ex, g = some (k, ex) → k ≠ .I) →
    (∀ f, scan rfs fs g = .error f → f = .invalidType ∧ ∃ rf ∈ rfs, rf.kind.invalid = true) ∧
    (∀ fs' k ex, scan rfs fs g = .ok (fs', some (k, ex)) → k ≠ .I) := by
  intro rfs
  induction rfs with
  | nil =>
    intro fs g hg
    refine ⟨fun f h => by simp [scan] at h, fun fs' k ex h => ?_⟩
    simp only [scan, Except.ok.injEq, Prod.mk.injEq] at h
    exact hg k ex h.2
  | cons a rest ih =>
    intro fs g hg
    obtain ⟨n, tn, t, ex, em, nm, k⟩ := a
    have step : ∀ fs2 g2, (∀ k ex, g2 = some (k, ex) → k ≠ .I) →
        scan (⟨n, tn, t, ex, em, nm, k⟩ :: rest) fs g = scan rest fs2 g2 →
        (∀ f, scan (⟨n, tn, t, ex, em, nm, k⟩ :: rest) fs g = .error f → f = .invalidType ∧ ∃ rf ∈ ⟨n, tn, t, ex, em, nm, k⟩ :: rest, rf.kind.invalid = true) ∧
        (∀ fs' k' ex', scan (⟨n, tn, t, ex, em, nm, k⟩ :: rest) fs g = .ok (fs', some (k', ex')) → k' ≠ .I) := by
      intro fs2 g2 hg2 heq
      rw [heq]
      obtain ⟨i1, i2⟩ := ih fs2 g2 hg2
      refine ⟨fun f h => ?_, i2⟩
      obtain ⟨hf, rf, hrf, hinv⟩ := i1 f h
      exact ⟨hf, rf, List.mem_cons_of_mem _ hrf, hinv⟩
    have bad : RKind.invalid k = true → scan (⟨n, tn, t, ex, em, nm, k⟩ :: rest) fs g = .error .invalidType →
        (∀ f, scan (⟨n, tn, t, ex, em, nm, k⟩ :: rest) fs g = .error f → f = .invalidType ∧ ∃ rf ∈ ⟨n, tn, t, ex, em, nm, k⟩ :: rest, rf.kind.invalid = true) ∧
        (∀ fs' k' ex', scan (⟨n, tn, t, ex, em, nm, k⟩ :: rest) fs g = .ok (fs', some (k', ex')) → k' ≠ .I) := by
      intro hk heq
      rw [heq]
      refine ⟨fun f h => ?_, fun fs' k' ex' h => by simp at h⟩
      simp only [Except.error.injEq] at h
      exact ⟨h.symm, _, List.mem_cons_self, hk⟩
    cases k with
    | int => exact step _ g hg (by rw [scan])
    | float => exact step _ g hg (by rw [scan])
    | str => exact step _ g hg (by rw [scan])
    | geomOther => exact step fs g hg (by rw [scan])
    | otherStruct inner => exact step fs g hg (by rw [scan])
    | otherSlice => exact step fs g hg (by rw [scan])
    | ptrOther => exact step fs g hg (by rw [scan])
    | unsupported => exact bad rfl (by rw [scan])
    | geom k =>
      cases k with
      | I => exact bad rfl (by rw [scan])
      | P => exact step fs (some (.P, ex)) (by intro k ex h; simp at h; simp [← h.1]) (by rw [scan])
      | MP => exact step fs (some (.MP, ex)) (by intro k ex h; simp at h; simp [← h.1]) (by rw [scan])
      | LS => exact step fs (some (.LS, ex)) (by intro k ex h; simp at h; simp [← h.1]) (by rw [scan])
      | MLS => exact step fs (some (.MLS, ex)) (by intro k ex h; simp at h; simp [← h.1]) (by rw [scan])
      | PG => exact step fs (some (.PG, ex)) (by intro k ex h; simp at h; simp [← h.1]) (by rw [scan])
      | B => exact step fs (some (.B, ex)) (by intro k ex h; simp at h; simp [← h.1]) (by rw [scan])

/-- **refl_unsupported_panics**: `NewEncoder` panics "Invalid type" exactly when SOME direct field of the archetype has
an unsupported kind (bool, int64, int32, uint, float32, map, interface incl. `geom.Geom`, array, func, chan) — wherever
it stands and whatever else the struct has (columns, geometry fields, skipped fields, other unsupported fields: the
loop stops at the first of them with the same panic; "Did not find a shape field" can only come after the loop). -/
theorem refl_unsupported_panics (rfs : List RField) :
    newEncoderR rfs = .error .invalidType ↔ ∃ rf ∈ rfs, rf.kind.invalid = true := by
  constructor
  · intro h
    unfold newEncoderR at h
    obtain ⟨i1, i2⟩ := scan_result rfs [] none (by intro k ex h; simp at h)
    cases hs : scan rfs [] none with
    | error f => exact (i1 f hs).2
    | ok p =>
      obtain ⟨fs, g⟩ := p
      rw [hs] at h
      cases g with
      | none => simp at h
      | some kx =>
        obtain ⟨k, ex⟩ := kx
        have hk := i2 fs k ex hs
        cases k <;> simp [shapeTypeOfGK] at h hk
  · rintro ⟨rf, hrf, hinv⟩
    obtain ⟨pre, post, rfl⟩ := List.append_of_mem hrf
    unfold newEncoderR
    rw [scan_invalid rf hinv post pre [] none]

/-- non-vacuity: `struct{ G geom.Point; A int; B bool }` and `struct{ M map…; A int }` (no shape field either) -/
example :
    newEncoderR [⟨[71], [], [], true, false, false, .geom .P⟩, ⟨[65], [], [], true, false, false, .int⟩,
                 ⟨[66], [], [], true, false, false, .unsupported⟩] = .error .invalidType ∧
    newEncoderR [⟨[77], [], [], true, false, false, .unsupported⟩, ⟨[65], [], [], true, false, false, .int⟩] = .error .invalidType ∧
    newEncoderR [⟨[65], [], [], true, false, false, .int⟩] = .error .noShapeField := by
  decide

/-- the attribute fields (Kind int / float64 / string — whatever their visibility and whether the type is named) -/
def attrsR (rfs : List RField) : List RField := rfs.filter (·.kind.isAttr)

theorem scan_cols : ∀ (rfs : List RField) (fs : List (Field × ColInfo)) (g : Option (GK × Bool)) fs' g',
    scan rfs fs g = .ok (fs', g') → fs' = fs.reverse ++ (attrsR rfs).map colOf := by
  intro rfs
  induction rfs with
  | nil => intro fs g fs' g' h; simp [scan] at h; simp [attrsR, h.1]
  | cons a rest ih =>
    intro fs g fs' g' h
    obtain ⟨n, tn, t, ex, em, nm, k⟩ := a
    cases k with
    | int => simp only [scan] at h; have := ih _ _ _ _ h; simp [attrsR, RKind.isAttr] at this ⊢; exact this
    | float => simp only [scan] at h; have := ih _ _ _ _ h; simp [attrsR, RKind.isAttr] at this ⊢; exact this
    | str => simp only [scan] at h; have := ih _ _ _ _ h; simp [attrsR, RKind.isAttr] at this ⊢; exact this
    | geom k =>
      cases k
      case I => simp [scan] at h
      all_goals (simp only [scan] at h; have := ih _ _ _ _ h; simp [attrsR, RKind.isAttr] at this ⊢; exact this)
    | unsupported => simp [scan] at h
    | _ => simp only [scan] at h; have := ih _ _ _ _ h; simp [attrsR, RKind.isAttr] at this ⊢; exact this

/-- the columns of the encoder: one per attribute field, in field order, with the field's visibility -/
theorem newEncoderR_cols (rfs : List RField) (e : EncR) (h : newEncoderR rfs = .ok e) :
    e.cols = (attrsR rfs).map colOf := by
  unfold newEncoderR at h
  cases hs : scan rfs [] none with
  | error f => simp [hs] at h
  | ok p =>
    obtain ⟨fs, g⟩ := p
    have hf := scan_cols rfs [] none fs g hs
    rw [hs] at h
    cases g with
    | none => simp at h
    | some kx =>
      obtain ⟨k, ex⟩ := kx
      cases ht : shapeTypeOfGK k with
      | none => simp [ht] at h
      | some t => simp [ht] at h; rw [← h]; simpa using hf

/-! ## `Encode`: unexported column fields and named types -/

theorem blankRow_append (a b : List Field) : blankRow (a ++ b) = blankRow a ++ blankRow b := by
  simp [blankRow]

/-- what `Encode` does when its loop reaches a column whose field is unexported (`Interface()` panics) or of a named
type (`WriteAttribute` refuses the value) -/
def stopRes (ci : ColInfo) : WRes := if ci.exported then .err else .panic

/-- `Encode`'s loop reaches such a column EXACTLY when every column before it accepted its value: then the cells
before it are written, it and every later cell stay blank, and the result is the panic / the error; otherwise the
loop has stopped earlier, with the earlier column's result, and the rest of the row is blank as well. -/
theorem refl_strict_loop_stop (c : Field × ColInfo) (hc : c.2.exported = false ∨ c.2.named = true)
    (cpost : List (Field × ColInfo)) (v : Val) (vpost : List Val) :
    ∀ (cpre : List (Field × ColInfo)) (vpre : List Val), vpre.length = cpre.length →
      writeStrictR (cpre ++ c :: cpost) (vpre ++ v :: vpost) =
        ((writeStrictR cpre vpre).1 ++ blankRow ((c :: cpost).map (·.1)),
         if (writeStrictR cpre vpre).2 = .ok then stopRes c.2 else (writeStrictR cpre vpre).2) := by
  intro cpre
  induction cpre with
  | nil =>
    intro vpre hl
    have : vpre = [] := List.eq_nil_of_length_eq_zero hl
    subst this
    obtain ⟨f, ex, nm⟩ := c
    simp only [List.nil_append, writeStrictR, blankRow, List.map_nil, stopRes, List.map_cons]
    cases ex <;> cases nm <;> simp at hc ⊢
  | cons a cpre ih =>
    intro vpre hl
    cases vpre with
    | nil => simp at hl
    | cons v0 vs =>
      have hl' : vs.length = cpre.length := by simpa using hl
      obtain ⟨f, ex, nm⟩ := a
      simp only [List.cons_append, writeStrictR, ih vs hl', List.map_append, List.map_cons]
      cases ex with
      | false => simp [blankRow]
      | true =>
        cases nm with
        | true => simp [blankRow]
        | false =>
          simp only [Bool.not_true, Bool.false_eq_true, if_false]
          split <;> rename_i h <;> first | (simp [blankRow]; done) | simp [h, blankRow]

/-- a column accepts a value: exported field of a predeclared type, rendering not wider than the column -/
def Accepts (c : Field × ColInfo) (v : Val) : Bool :=
  c.2.exported && !c.2.named && decide ((render c.1 v).length ≤ c.1.size)

theorem writeStrictR_accepted : ∀ (cs : List (Field × ColInfo)) (vs : List Val), vs.length = cs.length →
    (∀ p ∈ List.zip cs vs, Accepts p.1 p.2 = true) →
    writeStrictR cs vs = (List.zipWith (fun c v => cellOf c.1.size (render c.1 v)) cs vs, .ok) := by
  intro cs
  induction cs with
  | nil => intro vs hl _; cases vs <;> simp_all [writeStrictR, blankRow]
  | cons c cs ih =>
    intro vs hl hacc
    cases vs with
    | nil => simp at hl
    | cons v vs =>
      have h0 := hacc (c, v) (by simp)
      have hrest := ih vs (by simpa using hl) (fun p hp => hacc p (by simp [hp]))
      obtain ⟨f, ex, nm⟩ := c
      simp only [Accepts, Bool.and_eq_true, Bool.not_eq_true', decide_eq_true_eq] at h0
      obtain ⟨⟨hex, hnm⟩, hfit⟩ := h0
      subst hex; subst hnm
      have hw : writeAttr f v = some (render f v) := by
        unfold writeAttr; simp only; rw [if_neg (by omega)]
      simp [writeStrictR, hw, hrest]

section encode
variable {α : Type}

/-- **refl_stop_column**: one `Encode` call on a synchronised encoder (`e.row` = number of rows) whose loop reaches column
`c` — unexported field, or field of a named type — after the columns before it accepted their values: the shape IS
in the file, the row has the cells of the columns before `c`, the cell of `c` and all later cells are blank, the cursor
has advanced, and the call panicked (unexported) or returned an error (named type). -/
theorem refl_stop_column (eq : Pt α → Pt α → Bool) (e : EncR) (st : WState α) (g : Geom α) (sh : Shape α)
    (cpre cpost : List (Field × ColInfo)) (c : Field × ColInfo) (vpre vpost : List Val) (v : Val)
    (hcols : e.cols = cpre ++ c :: cpost) (hc : c.2.exported = false ∨ c.2.named = true)
    (hgeom : e.geomExported = true) (hsh : fieldShape eq e.geomKind g = .ok sh)
    (hsync : st.row = st.rows.length) (hlen : vpre.length = cpre.length)
    (hacc : ∀ p ∈ List.zip cpre vpre, Accepts p.1 p.2 = true) :
    encodeR eq e st g (vpre ++ v :: vpost) =
      (⟨st.rows ++ [(sh, List.zipWith (fun c v => cellOf c.1.size (render c.1 v)) cpre vpre ++
                        blankRow ((c :: cpost).map (·.1)))],
        st.rows.length + 1⟩, stopRes c.2) := by
  unfold encodeR
  rw [hgeom, hsh, hcols, refl_strict_loop_stop c hc cpost v vpost cpre vpre hlen,
    writeStrictR_accepted cpre vpre hlen hacc, hsync]
  simp only [Bool.not_true, Bool.false_eq_true, if_false, if_true, setCells]
  rw [modify_append_last]

/-- **refl_unexported_column**: an UNEXPORTED int / float64 / string field still gives a column (`NewEncoder` never looks
at `PkgPath`): the encoder's columns are the archetype's attribute fields in order, visible or not; and every `Encode`
whose loop reaches that column (all earlier values accepted) PANICS there — after the shape was written, `e.row++`, and
the earlier cells were written; its own cell and the later ones stay blank. -/
theorem refl_unexported_column (eq : Pt α → Pt α → Bool) (pre post : List RField) (rf : RField)
    (hk : rf.kind.isAttr = true) (hx : rf.exported = false)
    (e : EncR) (he : newEncoderR (pre ++ rf :: post) = .ok e) :
    e.cols = (attrsR pre).map colOf ++ colOf rf :: (attrsR post).map colOf ∧
    ∀ (st : WState α) (g : Geom α) (sh : Shape α) (vpre vpost : List Val) (v : Val),
      e.geomExported = true → fieldShape eq e.geomKind g = .ok sh → st.row = st.rows.length →
      vpre.length = (attrsR pre).length →
      (∀ p ∈ List.zip ((attrsR pre).map colOf) vpre, Accepts p.1 p.2 = true) →
      encodeR eq e st g (vpre ++ v :: vpost) =
        (⟨st.rows ++ [(sh, List.zipWith (fun c v => cellOf c.1.size (render c.1 v)) ((attrsR pre).map colOf) vpre ++
                          blankRow ((colOf rf :: (attrsR post).map colOf).map (·.1)))],
          st.rows.length + 1⟩, .panic) := by
  have hcols : e.cols = (attrsR pre).map colOf ++ colOf rf :: (attrsR post).map colOf := by
    rw [newEncoderR_cols _ e he]
    simp [attrsR, List.filter_append, hk]
  refine ⟨hcols, ?_⟩
  intro st g sh vpre vpost v hgeom hsh hsync hlen hacc
  have := refl_stop_column eq e st g sh _ _ (colOf rf) vpre vpost v hcols (Or.inl (by simp [colOf, hx])) hgeom hsh hsync
    (by simpa using hlen) hacc
  rw [this]
  simp [stopRes, colOf, hx]

/-- **refl_named_type_err**: a field of a NAMED int / float64 / string type (`type MyInt int`) gives a column as well, but
every `Encode` whose loop reaches it returns an ERROR there (go-shp's `WriteAttribute` switches on the dynamic type
`int / float64 / string`): the shape and the earlier cells are in the file, its own cell and the later ones blank. -/
theorem refl_named_type_err (eq : Pt α → Pt α → Bool) (pre post : List RField) (rf : RField)
    (hk : rf.kind.isAttr = true) (hx : rf.exported = true) (hn : rf.named = true)
    (e : EncR) (he : newEncoderR (pre ++ rf :: post) = .ok e) :
    e.cols = (attrsR pre).map colOf ++ colOf rf :: (attrsR post).map colOf ∧
    ∀ (st : WState α) (g : Geom α) (sh : Shape α) (vpre vpost : List Val) (v : Val),
      e.geomExported = true → fieldShape eq e.geomKind g = .ok sh → st.row = st.rows.length →
      vpre.length = (attrsR pre).length →
      (∀ p ∈ List.zip ((attrsR pre).map colOf) vpre, Accepts p.1 p.2 = true) →
      encodeR eq e st g (vpre ++ v :: vpost) =
        (⟨st.rows ++ [(sh, List.zipWith (fun c v => cellOf c.1.size (render c.1 v)) ((attrsR pre).map colOf) vpre ++
                          blankRow ((colOf rf :: (attrsR post).map colOf).map (·.1)))],
          st.rows.length + 1⟩, .err) := by
  have hcols : e.cols = (attrsR pre).map colOf ++ colOf rf :: (attrsR post).map colOf := by
    rw [newEncoderR_cols _ e he]
    simp [attrsR, List.filter_append, hk]
  refine ⟨hcols, ?_⟩
  intro st g sh vpre vpost v hgeom hsh hsync hlen hacc
  have := refl_stop_column eq e st g sh _ _ (colOf rf) vpre vpost v hcols (Or.inr (by simp [colOf, hn])) hgeom hsh hsync
    (by simpa using hlen) hacc
  rw [this]
  simp [stopRes, colOf, hx]

/-- an unexported GEOMETRY field: `Encode` panics in `v.Field(e.geomIndex).Interface()` before anything is written -/
theorem refl_unexported_geometry (eq : Pt α → Pt α → Bool) (e : EncR) (h : e.geomExported = false)
    (st : WState α) (g : Geom α) (vals : List Val) : encodeR eq e st g vals = (st, .panic) := by
  simp [encodeR, h]

end encode

def exUnexported : List RField := [⟨[71], [], [], true, false, false, .geom .P⟩, ⟨[66], [], [], true, false, false, .int⟩,
  ⟨[97], [], [], false, false, false, .int⟩, ⟨[68], [], [], true, false, false, .str⟩]
def exNamed : List RField := [⟨[71], [], [], true, false, false, .geom .P⟩, ⟨[65], [], [], true, false, false, .int⟩,
  ⟨[78], [], [], true, false, true, .int⟩]
def exRun (l : List RField) : Option (WState Nat × WRes) :=
  (newEncoderR l).toOption.map fun e =>
    encodeR (α := Nat) (fun p q => p.x == q.x && p.y == q.y) e ⟨[], 0⟩ (.point ⟨1, 2⟩) [.int 7, .int 0, .str [120]]

/-- non-vacuity (`struct{ G geom.Point; B int; a int; D string }`, record `B = 7`): the encoder exists and has three
columns; the one `Encode` panics with row `["7", blank, blank]`, cursor 1.  And `struct{ G geom.Point; A int; N MyInt }`:
`err`. -/
example :
    (newEncoderR exUnexported).toOption.map (·.cols.length) = some 3 ∧
    (exRun exUnexported).map (·.2) = some .panic ∧ (exRun exUnexported).map (·.1.row) = some 1 ∧
    (exRun exUnexported).map (·.1.rows.map (·.2)) = some [[cellOf 10 [55], blankCell 10, blankCell 50]] ∧
    (exRun exNamed).map (·.2) = some .err ∧ (exRun exNamed).map (·.1.row) = some 1 ∧
    (exRun exNamed).map (·.1.rows.map (·.2)) = some [[cellOf 10 [55], blankCell 10]] := by
  decide +kernel

/-! ## `DecodeRow` -/

section decode
variable {α : Type}

def isNilG : Geom α → Bool | .nil => true | _ => false
def isNullS : Shape α → Bool | .null => true | _ => false

/-- `shp2Geom` returns "no geometry" exactly for the Null shape -/
theorem shp2Geom_nil (sh : Shape α) (g : Geom α) (h : shp2Geom sh = .ok g) : isNilG g = isNullS sh := by
  cases sh with
  | null => simp [shp2Geom] at h; subst h; rfl
  | point p => simp [shp2Geom] at h; subst h; rfl
  | multiPoint ps => simp [shp2Geom] at h; subst h; rfl
  | polyLine parts points =>
    simp only [shp2Geom] at h
    cases hx : cutParts parts points with
    | error f => simp [hx, Except.map] at h
    | ok a => simp [hx, Except.map] at h; subst h; rfl
  | polygon parts points =>
    simp only [shp2Geom] at h
    cases hx : cutParts parts points with
    | error f => simp [hx, Except.map] at h
    | ok a => simp [hx, Except.map] at h; subst h; rfl

/-- **refl_decode_untouched** (one field): a field that does not implement `geom.Geom` — any kind (int, struct, embedded
struct, pointer, slice, bool, map, …), any visibility — whose lower-cased tag and lower-cased name are no column key
keeps its previous value, records no error and cannot panic, on every row. -/
theorem refl_decode_untouched (keys : List Bytes) (g : Geom α) (cells : List Bytes) (rf : RField) (prev : RVal α)
    (hg : rf.kind.geomLike = none) (hm : matchField keys rf.key = none) :
    decodeFieldR keys g cells rf prev = .ok (prev, false) := by
  unfold decodeFieldR
  rw [hg]
  simp only [hm]

/-- **refl_decode_untouched** (whole record): such a field can be inserted into / removed from the record type ANYWHERE
without any effect on the `DecodeRow` call: same panic or not, same error flag, the other fields get the same values,
and the field itself comes back with what the record variable held (`p`). -/
theorem refl_decode_untouched_anywhere (zero : α) (keys : List Bytes) (g : Geom α) (cells : List Bytes) (rf : RField)
    (hg : rf.kind.geomLike = none) (hm : matchField keys rf.key = none) (post : List RField) (p : RVal α) (ppost : List (RVal α)) :
    ∀ (pre : List RField) (ppre : List (RVal α)), ppre.length = pre.length →
      decodeFieldsR zero keys g cells (pre ++ rf :: post) (ppre ++ p :: ppost) =
        match decodeFieldsR zero keys g cells (pre ++ post) (ppre ++ ppost) with
        | (none, e) => (none, e)
        | (some vs, e) => (some (vs.take pre.length ++ p :: vs.drop pre.length), e) := by
  intro pre
  induction pre with
  | nil =>
    intro ppre hl
    have : ppre = [] := List.eq_nil_of_length_eq_zero hl
    subst this
    simp only [List.nil_append, decodeFieldsR, List.headD_cons, List.tail_cons,
      refl_decode_untouched keys g cells rf p hg hm, List.length_nil, List.take_zero, List.drop_zero]
    cases decodeFieldsR zero keys g cells post ppost with
    | mk o e => cases o <;> simp
  | cons a pre ih =>
    intro ppre hl
    cases ppre with
    | nil => simp at hl
    | cons q ppre' =>
      have hl' : ppre'.length = pre.length := by simpa using hl
      simp only [List.cons_append, decodeFieldsR, List.headD_cons, List.tail_cons, ih ppre' hl']
      cases decodeFieldR keys g cells a q with
      | error f => rfl
      | ok ve =>
        obtain ⟨v, e⟩ := ve
        cases decodeFieldsR zero keys g cells (pre ++ post) (ppre' ++ ppost) with
        | mk o e' => cases o <;> simp

/-- a field that panics ends the `DecodeRow` call with a panic wherever it stands in the record type -/
theorem decodeFieldsR_panics (zero : α) (keys : List Bytes) (g : Geom α) (cells : List Bytes) (rf : RField) (post : List RField)
    (hbad : ∀ prev, ∃ fl, decodeFieldR keys g cells rf prev = .error fl) :
    ∀ (pre : List RField) (prevs : List (RVal α)),
      (decodeFieldsR zero keys g cells (pre ++ rf :: post) prevs).1 = none := by
  intro pre
  induction pre with
  | nil =>
    intro prevs
    obtain ⟨fl, hfl⟩ := hbad (prevs.headD (zeroOfR zero rf.kind))
    rw [List.nil_append, decodeFieldsR, hfl]
  | cons a pre ih =>
    intro prevs
    simp only [List.cons_append, decodeFieldsR]
    cases decodeFieldR keys g cells a (prevs.headD (zeroOfR zero a.kind)) with
    | error f => rfl
    | ok ve =>
      obtain ⟨v, e⟩ := ve
      have := ih prevs.tail
      cases hr : decodeFieldsR zero keys g cells (pre ++ rf :: post) prevs.tail with
      | mk o e' =>
        rw [hr] at this
        simp only at this
        subst this
        rfl

/-- … and so ends the whole read: the loop `for d.DecodeRow(&rec)` panics on the first record -/
theorem read_panics (zero : α) (f : FileM α) (pre post : List RField) (rf : RField) (reuse : Bool)
    (sh : Shape α) (cells : List Bytes) (rest : List (Shape α × List Bytes)) (g : Geom α)
    (hrows : f.rows = (sh, cells) :: rest) (hsh : shp2Geom sh = .ok g)
    (hbad : ∀ prev, ∃ fl, decodeFieldR (fileKeys f.fields) g cells rf prev = .error fl) :
    (readR zero f (pre ++ rf :: post) reuse).rows = [] ∧ (readR zero f (pre ++ rf :: post) reuse).panicked = true := by
  have hp := decodeFieldsR_panics zero (fileKeys f.fields) g cells rf post hbad pre (zeroRowR zero (pre ++ rf :: post))
  unfold readR
  rw [hrows, readR.go]
  simp only [hsh]
  cases hr : decodeFieldsR zero (fileKeys f.fields) g cells (pre ++ rf :: post) (zeroRowR zero (pre ++ rf :: post)) with
  | mk o e =>
    rw [hr] at hp
    simp only at hp
    subst hp
    exact ⟨rfl, rfl⟩

/-- **refl_decode_matched_bad_kind_panics**: a field that does not implement `geom.Geom` and whose tag / name IS a column key
(column `j`, present in the row):
* Kind other than int / float64 / string — an embedded struct called like a column, `int64`, `bool`, `*int`, `[]int`, … —
  `setFieldToAttribute` panics "Struct field type can only be …", whatever the cell holds and whatever the visibility;
* unexported string field: `SetString` panics; unexported int / float64 field: `SetInt` / `SetFloat` panics when the cell
  PARSES — when it does not, the parse error is recorded first and nothing panics (the field keeps its value). -/
theorem refl_decode_matched_bad_kind_panics (keys : List Bytes) (g : Geom α) (cells : List Bytes) (rf : RField) (prev : RVal α)
    (j : Nat) (cell : Bytes) (hg : rf.kind.geomLike = none) (hm : matchField keys rf.key = some j) (hc : cells[j]? = some cell) :
    (rf.kind.isAttr = false → decodeFieldR keys g cells rf prev = .error .badKind) ∧
    (rf.kind = .str → rf.exported = false → decodeFieldR keys g cells rf prev = .error .unexported) ∧
    (rf.kind = .int → rf.exported = false → (parseInt (numText cell)).isSome = true →
      decodeFieldR keys g cells rf prev = .error .unexported) ∧
    (rf.kind = .float → rf.exported = false → (parseFloat (numText cell)).isSome = true →
      decodeFieldR keys g cells rf prev = .error .unexported) ∧
    (rf.kind = .int → parseInt (numText cell) = none → decodeFieldR keys g cells rf prev = .ok (prev, true)) ∧
    (rf.kind = .float → parseFloat (numText cell) = none → decodeFieldR keys g cells rf prev = .ok (prev, true)) := by
  unfold decodeFieldR
  rw [hg]
  simp only [hm, hc]
  refine ⟨?_, ?_, ?_, ?_, ?_, ?_⟩
  · intro hk
    obtain ⟨n, tn, t, ex, em, nm, k⟩ := rf
    cases k <;> simp [RKind.isAttr, RKind.geomLike] at hk hg ⊢
  · intro hk hx; simp [hk, hx]
  · intro hk hx hp
    obtain ⟨i, hi⟩ := Option.isSome_iff_exists.mp hp
    simp [hk, hx, hi]
  · intro hk hx hp
    obtain ⟨u, hu⟩ := Option.isSome_iff_exists.mp hp
    simp [hk, hx, hu]
  · intro hk hp; simp [hk, hp]
  · intro hk hp; simp [hk, hp]

/-- the record-type and file level of the previous theorem for the kinds that are not int / float64 / string: such a field,
anywhere in the reader type, matched to a column of the file, makes `DecodeRow` panic on the first record of every
non-empty file (rows as wide as the field list) -/
theorem refl_bad_kind_ends_read (zero : α) (f : FileM α) (pre post : List RField) (rf : RField) (reuse : Bool)
    (sh : Shape α) (cells : List Bytes) (rest : List (Shape α × List Bytes)) (g : Geom α) (j : Nat)
    (hrows : f.rows = (sh, cells) :: rest) (hsh : shp2Geom sh = .ok g)
    (hg : rf.kind.geomLike = none) (hk : rf.kind.isAttr = false)
    (hm : matchField (fileKeys f.fields) rf.key = some j) (hc : (cells[j]?).isSome = true) :
    (readR zero f (pre ++ rf :: post) reuse).rows = [] ∧ (readR zero f (pre ++ rf :: post) reuse).panicked = true := by
  obtain ⟨cell, hcell⟩ := Option.isSome_iff_exists.mp hc
  exact read_panics zero f pre post rf reuse sh cells rest g hrows hsh
    (fun prev => ⟨_, (refl_decode_matched_bad_kind_panics _ g cells rf prev j cell hg hm hcell).1 hk⟩)

theorem dynKind_never (g : Geom α) : dynKind g ≠ some .B ∧ dynKind g ≠ some .LS ∧ dynKind g ≠ some .I := by
  cases g <;> simp [dynKind]

/-- **refl_ptr_geom**: a READER field of type `*geom.Bounds`, `geom.LineString`, or any other `geom.Geom` implementation that
`shp2Geom` never returns (`*geom.Point`, `geom.MultiPolygon`, …) is left alone on a Null shape (`continue`) and makes
`DecodeRow` panic in `reflect.Value.Set` on EVERY other shape (what comes back is a Point / MultiPoint / MultiLineString /
Polygon value; for an unexported field `Set` panics already on the visibility). -/
theorem refl_ptr_geom (keys : List Bytes) (g : Geom α) (cells : List Bytes) (rf : RField) (prev : RVal α)
    (hk : rf.kind = .geom .B ∨ rf.kind = .geom .LS ∨ rf.kind = .geomOther) :
    (isNilG g = true → decodeFieldR keys g cells rf prev = .ok (prev, false)) ∧
    (isNilG g = false → decodeFieldR keys g cells rf prev =
      .error (if rf.exported then .base .reflectSet else .unexported)) := by
  obtain ⟨hB, hLS, _⟩ := dynKind_never g
  obtain ⟨n, tn, t, ex, em, nm, k⟩ := rf
  simp only at hk
  unfold decodeFieldR
  rcases hk with rfl | rfl | rfl <;> cases g <;> cases ex <;> simp [RKind.geomLike, isNilG, dynKind]

/-- the same in terms of the file: on every record whose shape is not Null the reader panics; Null shapes are skipped -/
theorem refl_ptr_geom_shape (keys : List Bytes) (sh : Shape α) (g : Geom α) (cells : List Bytes) (rf : RField) (prev : RVal α)
    (hk : rf.kind = .geom .B ∨ rf.kind = .geom .LS ∨ rf.kind = .geomOther) (hsh : shp2Geom sh = .ok g) :
    (isNullS sh = true → decodeFieldR keys g cells rf prev = .ok (prev, false)) ∧
    (isNullS sh = false → ∃ fl, decodeFieldR keys g cells rf prev = .error fl) := by
  have hn := shp2Geom_nil sh g hsh
  obtain ⟨h1, h2⟩ := refl_ptr_geom keys g cells rf prev hk
  exact ⟨fun h => h1 (by rw [hn, h]), fun h => ⟨_, h2 (by rw [hn, h])⟩⟩

/-- an UNEXPORTED field of a proper geometry type (`g geom.Point`) panics as well on every non-Null shape -/
theorem refl_unexported_geom_reader (keys : List Bytes) (g : Geom α) (cells : List Bytes) (rf : RField) (prev : RVal α)
    (acc : Option GK) (hk : rf.kind.geomLike = some acc) (hx : rf.exported = false) (hg : isNilG g = false) :
    decodeFieldR keys g cells rf prev = .error .unexported := by
  unfold decodeFieldR
  rw [hk]
  cases g <;> simp [isNilG] at hg <;> simp [hx]

end decode

/-! ## collisions, embedded fields -/

/-- **refl_match** (`C16_match` for reflected fields, by reduction to it): a field that does not implement `geom.Geom`
is served from column `c` iff `c` is the LAST column whose key is the lower-cased tag, or — no column carrying the
tag — the LAST column whose key is the lower-cased `StructField.Name`: duplicate column keys (two fields with the same
tag, a tag equal to another field's name) resolve to the last column, and the tag is tried before the name. For an
embedded field the name is the name of its TYPE. -/
theorem refl_match (keys : List Bytes) (rf : RField) (c : Nat) :
    matchField keys rf.key = some c ↔
      IsLast keys (lower rf.tag) c ∨
      ((∀ j : Nat, keys[j]? ≠ some (lower rf.tag)) ∧ IsLast keys (lower rf.goName) c) :=
  C16_match keys rf.key c

theorem refl_match_none (keys : List Bytes) (rf : RField) :
    matchField keys rf.key = none ↔
      (∀ j : Nat, keys[j]? ≠ some (lower rf.tag)) ∧ (∀ j : Nat, keys[j]? ≠ some (lower rf.goName)) :=
  C16_match_none keys rf.key

/-- **refl_embedded_inner_invisible**: the inner fields of a struct-typed field (embedded or not) are part of the
description (`RKind.otherStruct inner`) and NOTHING depends on them: not the encoder (no columns for them — Go's
embedding is not flattened), not `DecodeRow` (never visited, never matched, also when an inner field is named like a
column). What `DecodeRow` does look at is the field's own name — for an embedded field the name of its TYPE
(`goName = typeName`, the declared `name` is irrelevant) — under which it is matched to a column and then panics
(`refl_decode_matched_bad_kind_panics`), or is left alone (`refl_decode_untouched`). -/
theorem refl_embedded_inner_invisible {α : Type} (zero : α) (rf : RField) (inner inner' : List SField)
    (hk : rf.kind = .otherStruct inner) (pre post : List RField) :
    newEncoderR (pre ++ rf :: post) = newEncoderR (pre ++ { rf with kind := .otherStruct inner' } :: post) ∧
    (∀ (keys : List Bytes) (g : Geom α) (cells : List Bytes) (prev : RVal α),
      decodeFieldR keys g cells rf prev = decodeFieldR keys g cells { rf with kind := .otherStruct inner' } prev) ∧
    (rf.embedded = true → ∀ n', ({ rf with name := n' } : RField).key = rf.key ∧ rf.key.name = rf.typeName) := by
  refine ⟨?_, ?_, ?_⟩
  · rw [(refl_skipped_fields (α := α) (fun _ _ => true) pre post rf (by rw [hk]; rfl)).1,
      (refl_skipped_fields (α := α) (fun _ _ => true) pre post { rf with kind := .otherStruct inner' } rfl).1]
  · intro keys g cells prev
    obtain ⟨n, tn, t, ex, em, nm, k⟩ := rf
    simp only at hk
    subst hk
    rfl
  · intro he n'
    simp [RField.key, RField.goName, he]

/-- what a caller can observe of one field after `DecodeRow` when the field held the marker value `missing` before -/
inductive Obs where
  | panic (f : RFault) | kept (err : Bool) | int (i : Int) | geomSet | other
deriving DecidableEq, Repr

def obs : Except RFault (RVal Nat × Bool) → Obs
  | .error f => .panic f
  | .ok (.missing, e) => .kept e
  | .ok (.int i, _) => .int i
  | .ok (.geom _, _) => .geomSet
  | .ok _ => .other

def exKeys : List Bytes := [[97], [105, 110, 110, 101, 114], [120], [120]]
def exCells : List Bytes := [cellOf 10 [49, 50], cellOf 10 [53], cellOf 10 [54], cellOf 10 [55]]
def exCellsBad : List Bytes := [cellOf 10 [122, 122], cellOf 10 [53], cellOf 10 [54], cellOf 10 [55]]
def exPoint : Geom Nat := .point ⟨1, 2⟩
def exInner : RKind := .otherStruct [⟨[65], [], .int⟩]

/-- non-vacuity / the rules on one file. Columns `a`, `inner`, `x`, `x` (duplicate key); reader fields:
`Inner` embedded struct with inner field `A` — matched BY ITS TYPE NAME to column 1, panics (bad kind);
the same struct type as a field called `Other` — untouched although its inner field is called like column `a`;
`B int` with tag `X` — the LAST column `x` (3); `q int64` unexported, unmatched — untouched; `A *int` — column 0, panics;
`a int` unexported, cell "12" — panics, cell "zz" — error recorded, no panic; pointer geometry fields (`*geom.Bounds`,
`*geom.Point`) panic on a point and are untouched on a Null shape. -/
example :
    obs (decodeFieldR exKeys exPoint exCells ⟨[120], [73, 110, 110, 101, 114], [], true, true, false, exInner⟩ .missing) = .panic .badKind ∧
    obs (decodeFieldR exKeys exPoint exCells ⟨[79, 116, 104, 101, 114], [73, 110, 110, 101, 114], [], true, false, false, exInner⟩ .missing) = .kept false ∧
    obs (decodeFieldR exKeys exPoint exCells ⟨[66], [105, 110, 116], [88], true, false, false, .int⟩ .missing) = .int 7 ∧
    obs (decodeFieldR exKeys exPoint exCells ⟨[113], [105, 110, 116, 54, 52], [], false, false, false, .unsupported⟩ .missing) = .kept false ∧
    obs (decodeFieldR exKeys exPoint exCells ⟨[65], [105, 110, 116], [], true, false, false, .ptrOther⟩ .missing) = .panic .badKind ∧
    obs (decodeFieldR exKeys exPoint exCells ⟨[97], [105, 110, 116], [], false, false, false, .int⟩ .missing) = .panic .unexported ∧
    obs (decodeFieldR exKeys exPoint exCellsBad ⟨[97], [105, 110, 116], [], false, false, false, .int⟩ .missing) = .kept true ∧
    obs (decodeFieldR exKeys exPoint exCells ⟨[71], [66, 111, 117, 110, 100, 115], [], true, false, false, .geom .B⟩ .missing) = .panic (.base .reflectSet) ∧
    obs (decodeFieldR exKeys (.nil : Geom Nat) exCells ⟨[71], [66, 111, 117, 110, 100, 115], [], true, false, false, .geom .B⟩ .missing) = .kept false ∧
    obs (decodeFieldR exKeys exPoint exCells ⟨[71], [80, 111, 105, 110, 116], [], true, false, false, .geomOther⟩ .missing) = .panic (.base .reflectSet) ∧
    obs (decodeFieldR exKeys exPoint exCells ⟨[71], [80, 111, 105, 110, 116], [], true, true, false, .geom .P⟩ .missing) = .geomSet := by
  decide +kernel

end GeomV.C16.Reflect
