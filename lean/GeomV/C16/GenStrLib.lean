import GeomV.C16.Model
/-!
# C16 — vocabulary of the statement-level translation of the string helpers of `encoding/shp/shp.go`

`harness/cmd/c16/extract -str` writes `GenStr.lean` over these definitions; `TieStr.lean` proves the generated
functions equal to the model. Core Lean only. Go `int` is `Int`; a byte string (`[]byte`, `string`, `[11]byte`) is `Bytes`;
an `error` is a `Bool` (non-nil); a slice expression out of range is the fault `Fault.index`.
-/
namespace GeomV.C16.GenStr
open GeomV.C16

/-- `bytes.Trim(b, cutset)` / `strings.Trim(s, cutset)` for an ASCII cut set -/
def goTrim (cut : Bytes) (b : Bytes) : Bytes := trim (fun c => cut.contains c) b

/-- `bytes.TrimRight` / `strings.TrimRight` -/
def goTrimRight (cut : Bytes) (b : Bytes) : Bytes := rtrim (fun c => cut.contains c) b

/-- `strings.TrimSpace` (ASCII white space; U+0085 and U+00A0 are outside the model, as in `fieldNameString`) -/
def goTrimSpace (b : Bytes) : Bytes := trim isWs b

def indexFrom (sep : Bytes) : Bytes → Nat → Int
  | [], i => if sep.isEmpty then (i : Int) else -1
  | c :: t, i => if sep.isPrefixOf (c :: t) then (i : Int) else indexFrom sep t (i + 1)

/-- `bytes.Index(b, sep)`: index of the first occurrence of `sep`, `-1` if there is none -/
def goIndex (b sep : Bytes) : Int := indexFrom sep b 0

/-- `b[lo:hi]` with Go's bounds check (`0 ≤ lo ≤ hi ≤ len(b)`, capacity = length for the values that occur) -/
def goSlice (b : Bytes) (lo hi : Int) : Except Fault Bytes :=
  if 0 ≤ lo ∧ lo ≤ hi ∧ hi ≤ (b.length : Int) then .ok ((b.take hi.toNat).drop lo.toNat) else .error .index

/-- `strconv.ParseFloat(s, bitSize)`: the model's parser is the 64-bit one; the pair is (value, err != nil) -/
def goParseFloat (s : Bytes) (bits : Nat) : Option UInt64 × Bool :=
  if bits = 64 then (parseFloat s, (parseFloat s).isNone) else (none, true)

/-- `strconv.ParseInt(s, base, bitSize)`: the model's parser is base 10, 64 bits -/
def goParseInt (s : Bytes) (base bits : Nat) : Option Int × Bool :=
  if base = 10 ∧ bits = 64 then (parseInt s, (parseInt s).isNone) else (none, true)

end GeomV.C16.GenStr
