import GeomV.C16.EndToEnd
import GeomV.C16.Wrap
/-!
# C16 — the wrapped-width model (`Wrap.lean`) and the `Nat` layout model (`Layout.lean`)

* the counters of `Wrap.lean` are the ones `EndToEnd.lean` states (`recLenGo`, `hdrLenGo`, `cellOffGo`);
* WITHIN `WidthsOK` the wrapped writer IS the layout writer (`createW_within`, `encodeFieldsW_within`, `runW_within`) and
  the wrapped `ReadAttribute` reads the layout reader's cell (`readAttributeW_within`) — so everything proved about
  `Layout.encode` / `fileOfBytes` (`C16_end_to_end`) is about the model the `-wide` classes compare with go-shp;
* BEYOND it: `createW_none_iff` (the constructor panics iff the wrapped header length is negative), `encodeFieldsW_panics`
  (a wrapped record length ≤ 0 makes EVERY `EncodeFields` panic after the shape record went into `.shp`/`.shx`; the
  `.dbf` and the cursor are untouched), `cellOffW_nonneg` (whenever `WriteAttribute` is reached its offset is ≥ 0),
  and the concrete regimes (`wrap_regimes`).
Core Lean only.
-/
set_option linter.unusedSimpArgs false
set_option linter.unusedVariables false
namespace GeomV.C16.Wrap
open GeomV GeomV.C16 GeomV.C16.Layout

theorem i16_eq (z : Int) : Wrap.i16 z = Layout.i16 z := rfl
theorem recLenW_eq (fs : List Field) : recLenW fs = recLenGo fs := rfl
theorem hdrLenW_eq (fs : List Field) : hdrLenW fs = hdrLenGo fs := rfl
theorem cellOffW_eq (fs : List Field) (row field : Nat) : cellOffW fs row field = cellOffGo fs row field := rfl

/-- the constructor panics exactly when the wrapped header length is negative -/
theorem createW_none_iff (fs : List Field) : createW fs = none ↔ hdrLenW fs < 0 := by
  unfold createW; split <;> simp [*]

/-- within the widths: `Create` + `SetFields` of `Layout.lean` -/
theorem createW_within (fs : List Field) (h : WidthsOK fs) : createW fs = some (create fs) := by
  have hw := (widths_faithful fs h 0 0).1
  have : ¬ hdrLenW fs < 0 := by rw [hdrLenW_eq, hw]; omega
  have h0 : ¬ ((hdrLen fs : Nat) : Int) < 0 := by omega
  simp only [createW, create, hdrLenW_eq, hw, Int.toNat_natCast, h0, if_false]

theorem emptyRecordW_within (fs : List Field) (h : WidthsOK fs) : emptyRecordW fs = some (emptyRecord fs) := by
  have hw := (widths_faithful fs h 0 0).2.1
  have h1 : ¬ recLenW fs ≤ 0 := by rw [recLenW_eq, hw]; simp [recLen]; omega
  have h2 : (recLenW fs).toNat - 1 = sizeSum fs := by rw [recLenW_eq, hw]; simp only [recLen]; omega
  simp only [emptyRecordW, h1, if_false, h2, emptyRecord]

theorem writeAttributeW_within (fs : List Field) (h : WidthsOK fs) (dbf : Bytes) (row field : Nat) (v : Val) :
    writeAttributeW fs dbf row field v = writeAttribute fs dbf row field v := by
  have hw := (widths_faithful fs h row field).2.2
  simp only [writeAttributeW, writeAttribute, cellOffW_eq, hw, Int.toNat_natCast]
  rfl

theorem attrsLenientW_within (fs : List Field) (h : WidthsOK fs) (row : Nat) : ∀ (vals : List Val) (i : Nat) (dbf : Bytes),
    attrsLenientW fs row i vals dbf = attrsLenient fs row i vals dbf
  | [], i, dbf => rfl
  | v :: vs, i, dbf => by
    simp only [attrsLenientW, attrsLenient, writeAttributeW_within fs h]
    cases hr : writeAttribute fs dbf row i v with
    | mk d a => cases a <;> simp [attrsLenientW_within fs h row vs]

/-- **within the widths the wrapped writer IS the layout writer** (one `EncodeFields` call, any state) -/
theorem encodeFieldsW_within (t : Nat) (fs : List Field) (h : WidthsOK fs) (w : BW) (shape : Except Fault BShape) (vals : List Val) :
    encodeFieldsW t fs w shape vals = encode t fs w false shape vals := by
  cases shape with
  | error f => cases f <;> rfl
  | ok sh =>
    unfold encodeFieldsW writeW
    rw [emptyRecordW_within fs h]
    simp only [attrsLenientW_within fs h]
    rfl

/-- … and so is a whole history followed by `Close()` -/
theorem runW_within (t : Nat) (fs : List Field) (h : WidthsOK fs) (recs : List (Except Fault BShape × List Val)) :
    runW t fs recs = some (close t fs (recs.foldl (fun (acc : BW × List WRes) c =>
        let x := encode t fs acc.1 false c.1 c.2; (x.1, acc.2 ++ [x.2])) (create fs, [])).1,
      (recs.foldl (fun (acc : BW × List WRes) c =>
        let x := encode t fs acc.1 false c.1 c.2; (x.1, acc.2 ++ [x.2])) (create fs, [])).2) := by
  unfold runW
  rw [createW_within fs h]
  have hf : (fun (acc : BW × List WRes) (c : Except Fault BShape × List Val) =>
      let x := encodeFieldsW t fs acc.1 c.1 c.2; (x.1, acc.2 ++ [x.2])) =
      (fun acc c => let x := encode t fs acc.1 false c.1 c.2; (x.1, acc.2 ++ [x.2])) := by
    funext acc c
    rw [encodeFieldsW_within t fs h]
  rw [hf]

/-- **a wrapped record length ≤ 0: every `EncodeFields` with an accepted geometry panics**, after `Writer.Write` put the
record into `.shp` and `.shx` and counted it; the `.dbf` and the encoder's cursor are untouched -/
theorem encodeFieldsW_panics (t : Nat) (fs : List Field) (h : recLenW fs ≤ 0) (w : BW) (sh : BShape) (vals : List Val) :
    (encodeFieldsW t fs w (.ok sh) vals).2 = .panic ∧
    (encodeFieldsW t fs w (.ok sh) vals).1.recs = w.recs ++ recordBytes t (w.num + 1) sh ∧
    (encodeFieldsW t fs w (.ok sh) vals).1.num = w.num + 1 ∧
    (encodeFieldsW t fs w (.ok sh) vals).1.dbf = w.dbf ∧
    (encodeFieldsW t fs w (.ok sh) vals).1.row = w.row := by
  refine ⟨?_, ?_, ?_, ?_, ?_⟩ <;> simp [encodeFieldsW, writeW, emptyRecordW, h, write]

theorem sizeSum_nonneg (fs : List Field) (k : Nat) : (0 : Int) ≤ (sizeSum (fs.take k) : Nat) := Int.natCast_nonneg _

/-- whenever `WriteAttribute` is reached (the encoder exists: header length ≥ 0; `Write` returned: record length > 0)
the offset it seeks to is not negative -/
theorem cellOffW_nonneg (fs : List Field) (h1 : 0 ≤ hdrLenW fs) (h2 : 0 < recLenW fs) (row field : Nat) :
    0 ≤ cellOffW fs row field := by
  unfold cellOffW
  have : (0 : Int) ≤ (row : Int) * recLenW fs := Int.mul_nonneg (Int.natCast_nonneg _) (Int.le_of_lt h2)
  have := sizeSum_nonneg fs field
  omega

/-- within the widths `ReadAttribute` reads the layout reader's cell, wherever the file handle stands -/
theorem readAttributeW_within (dbf : Bytes) (info : DbfInfo) (pos row field : Nat) (f : Field) (hf : info.fields[field]? = some f) :
    (readAttributeW dbf ⟨info.hdr, info.recl, info.fields, pos⟩ row field).map (·.1) = some (rawCell dbf info row field) := by
  have hoff : ¬ ((1 : Int) + (info.hdr : Int) + (row : Int) * (info.recl : Int) + (((info.fields.take field).map (·.size)).sum : Nat) < 0) := by
    have : (0 : Int) ≤ (row : Int) * (info.recl : Int) := Int.mul_nonneg (Int.natCast_nonneg _) (Int.natCast_nonneg _)
    omega
  have hnat : ((1 : Int) + (info.hdr : Int) + (row : Int) * (info.recl : Int) + (((info.fields.take field).map (·.size)).sum : Nat)).toNat
      = 1 + info.hdr + row * info.recl + ((info.fields.take field).map (·.size)).sum := by
    have : (1 : Int) + (info.hdr : Int) + (row : Int) * (info.recl : Int) + (((info.fields.take field).map (·.size)).sum : Nat)
        = ((1 + info.hdr + row * info.recl + ((info.fields.take field).map (·.size)).sum : Nat) : Int) := by push_cast; rfl
    rw [this, Int.toNat_natCast]
  simp only [readAttributeW, hf, hoff, if_false, hnat, rawCell, Option.map_some]

/-- the regimes, concretely: 129 columns of 255 bytes wrap the record length to −32640; 257 to 0; 258 to 255 (rows of 255
bytes while one row's cells span 65790); 1023 columns wrap the header length to −32767 (no encoder); 128 columns of 255
and 1022 columns still fit -/
theorem wrap_regimes :
    recLenW (List.replicate 129 (⟨name11 [97], 67, 255, 0⟩ : Field)) = -32640 ∧
    recLenW (List.replicate 257 (⟨name11 [97], 67, 255, 0⟩ : Field)) = 0 ∧
    recLenW (List.replicate 258 (⟨name11 [97], 67, 255, 0⟩ : Field)) = 255 ∧
    createW (List.replicate 1023 (⟨name11 [97], 67, 1, 0⟩ : Field)) = none ∧
    WidthsOK (List.replicate 128 (⟨name11 [97], 67, 255, 0⟩ : Field)) ∧
    WidthsOK (List.replicate 1022 (⟨name11 [97], 67, 1, 0⟩ : Field)) := by
  refine ⟨?_, ?_, ?_, ?_, by decide +kernel, by decide +kernel⟩
  · rw [recLenW_eq, recLenGo_eq]; decide +kernel
  · rw [recLenW_eq, recLenGo_eq]; decide +kernel
  · rw [recLenW_eq, recLenGo_eq]; decide +kernel
  · rw [createW_none_iff, hdrLenW_eq]; decide +kernel

end GeomV.C16.Wrap
