import GeomV.C16.ProofsFloat
/-!
# C16 — the struct path end to end as ONE whole-file statement

`NewEncoder(archetype)` / `Encode(record)`* / `DecodeRow(&rec)`*: `C16_order_struct` (order and number, under the
hypothesis `CallOK`: every matched numeric cell parses, no field panics) composed with `C16_struct_roundtrip`
(one field of one record) and `C16_floatFmt_instance` (the float contract proved) into one equation for the
complete result of the read loop. `CallOK` is no longer a hypothesis: it is DISCHARGED for every file the
struct writer produces from values that fit their columns.
-/
set_option linter.unusedSimpArgs false
set_option linter.unusedVariables false
namespace GeomV.C16

/-- the double `DecodeRow` hands back for a float64 written as `u`: `ParseFloat(FormatFloat(u,'f',10,64))` -/
def reparse (u : UInt64) : UInt64 := (parseFloat (fmtFloat floatPrecision u)).getD 0

/-- **"floats agree to 10 decimal places"** for the value the whole-file statement names: for EVERY bit pattern -/
theorem reparse_close (u : UInt64) :
    parseFloat (fmtFloat floatPrecision u) = some (reparse u) ∧ closeBits floatPrecision u (reparse u) = true := by
  obtain ⟨y, hy, hc⟩ := (C16_floatFmt_instance floatPrecision (by decide)).roundtrip u
  simp [reparse, hy, hc]

/-- what a reader field receives from a written value -/
def backVal {α : Type} : Val → RVal α
  | .int z => .int z
  | .float u => .float (reparse u)
  | .str s => .str s

/-- the value's Go type is the archetype field's type -/
def valKind : Val → Kind
  | .int _ => .int | .float _ => .float | .str _ => .str

/-- "attribute values within the documented field widths" for the struct path: a Go `int`, any `float64` whose
rendering fits 30 characters, a string that survives the cell (`StrOK 50`, the exact condition of `C16_string_iff`) -/
def ValOK (f : Field) : Val → Prop
  | .int z => -(2 ^ 63 : Int) ≤ z ∧ z < 2 ^ 63
  | .float _ => True
  | .str s => StrOK stringLength s

/-- "matched to struct fields by tag or name case-insensitively", as `DecodeRow` does it: the reader field `rf` is
matched to attribute column `i` of the archetype when its lower-cased TAG is that column's key, or — no column
having the tag as key (in particular: no tag) — its lower-cased NAME is -/
def Matches (attrs : List SField) (rf : SField) (i : Nat) : Prop :=
  ∃ (h : i < attrs.length), lower rf.tag = keyOf attrs[i] ∨
    ((∀ j (hj : j < attrs.length), keyOf attrs[j] ≠ lower rf.tag) ∧ lower rf.name = keyOf attrs[i])

/-- **C16_match_any** (generalises `C16_match_self`): with plain column names and pairwise distinct keys, a reader
field that `Matches` column `i` — by tag, or by name when no column carries its tag — is decoded from column `i` -/
theorem C16_match_any (attrs : List SField) (hp : ∀ sf ∈ attrs, Plain (effName sf))
    (hd : ∀ a b (ha : a < attrs.length) (hb : b < attrs.length), keyOf attrs[a] = keyOf attrs[b] → a = b)
    (i : Nat) (rf : SField) (hm : Matches attrs rf i) :
    matchField (fileKeys (attrs.map colField)) rf = some i := by
  obtain ⟨hi, hm⟩ := hm
  rw [fileKeys_columns attrs hp]
  have hlast : IsLast (attrs.map keyOf) (keyOf attrs[i]) i := by
    refine ⟨by simp [List.getElem?_eq_getElem hi], ?_⟩
    intro c' hc' heq
    rcases Nat.lt_or_ge c' attrs.length with hlt | hge
    · simp [List.getElem?_eq_getElem hlt] at heq
      have := hd c' i hlt hi heq
      omega
    · simp [List.getElem?_eq_none (by simpa using hge)] at heq
  unfold matchField
  rcases hm with ht | ⟨hno, hn⟩
  · rw [ht, (lastIdx_spec _ _ _).mpr hlast]
  · have hnone : lastIdx (attrs.map keyOf) (lower rf.tag) = none := by
      rw [lastIdx_none]
      intro j hj
      rcases Nat.lt_or_ge j attrs.length with hlt | hge
      · simp [List.getElem?_eq_getElem hlt] at hj
        exact hno j hlt hj
      · simp [List.getElem?_eq_none (by simpa using hge)] at hj
    rw [hnone]
    simp only
    rw [hn]
    exact (lastIdx_spec _ _ _).mpr hlast

/-- the field of `C16_match_self` (same tag and name up to case as archetype field `i`) `Matches` column `i` -/
theorem Matches_self (attrs : List SField) (hp : ∀ sf ∈ attrs, Plain (effName sf)) (i : Nat) (hi : i < attrs.length) (rf : SField)
    (htag : lower rf.tag = lower attrs[i].tag) (hname : lower rf.name = lower attrs[i].name) : Matches attrs rf i := by
  refine ⟨hi, ?_⟩
  by_cases ht : lower attrs[i].tag = []
  · right
    refine ⟨?_, by simp [keyOf, effName, ht, hname]⟩
    intro j hj heq
    rw [htag, ht] at heq
    exact keyOf_ne_nil _ (hp _ (List.getElem_mem hj)) heq
  · left; simp [keyOf, effName, ht, lower_idem, htag]

/-- `C16_struct_roundtrip` for ANY reader field that `Matches` column `i` (tag of its own, or only a name) -/
theorem C16_struct_roundtrip_matched {α : Type} (sfs : List SField) (e : EncS) (henc : newEncoder sfs = .ok e)
    (hp : ∀ sf ∈ attrsOf sfs, Plain (effName sf))
    (hd : ∀ a b (ha : a < (attrsOf sfs).length) (hb : b < (attrsOf sfs).length),
      keyOf (attrsOf sfs)[a] = keyOf (attrsOf sfs)[b] → a = b)
    (vals : List Val) (hl : e.fields.length = vals.length)
    (hfit : ∀ i (hi : i < e.fields.length) (hv : i < vals.length),
      writeAttr e.fields[i] vals[i] = some (render e.fields[i] vals[i]))
    (g : Geom α) (i : Nat) (hi : i < (attrsOf sfs).length) (hv : i < vals.length) (rf : SField) (prev : RVal α)
    (hkind : rf.kind = (attrsOf sfs)[i].kind) (hm : Matches (attrsOf sfs) rf i) :
    let cells := (writeStrict e.fields vals).1
    let keys := fileKeys e.fields
    (∀ s, rf.kind = .str → vals[i] = .str s → StrOK stringLength s →
      decodeField keys g cells rf prev = .ok (.str s, false)) ∧
    (∀ z : Int, rf.kind = .int → vals[i] = .int z → -(2 ^ 63 : Int) ≤ z → z < 2 ^ 63 →
      decodeField keys g cells rf prev = .ok (.int z, false)) ∧
    (∀ u, rf.kind = .float → vals[i] = .float u →
      decodeField keys g cells rf prev = .ok (.float (reparse u), false)) := by
  intro cells keys
  have hcols := C16_columns sfs e henc
  have hi' : i < e.fields.length := by rw [hcols]; simpa using hi
  have hfield : e.fields[i] = colField (attrsOf sfs)[i] := by simp [hcols]
  obtain ⟨hok, hcells⟩ := writeStrict_cells e.fields vals hl hfit
  have hcell := hcells i hi' hv
  have hmatch : matchField keys rf = some i := by
    show matchField (fileKeys e.fields) rf = some i
    rw [hcols]
    exact C16_match_any (attrsOf sfs) hp hd i rf hm
  have hlen := writeAttr_fits _ _ (hfit i hi' hv)
  refine ⟨?_, ?_, ?_⟩
  · intro s hk hval hsok
    have hsz : e.fields[i].size = stringLength := by
      rw [hfield]; unfold colField; rw [← hkind, hk]
    rw [(C16_assigned keys g cells rf i _ prev hmatch hcell).1 hk]
    rw [hval] at hlen hcell ⊢
    simp only [render] at hlen ⊢
    have := (C16_string e.fields[i] s hlen (hsz ▸ hsok)).2
    rw [this]
  · intro z hk hval h1 h2
    rw [hval] at hlen hcell
    simp only [render] at hlen hcell
    have hint := C16_int e.fields[i] z h1 h2 hlen
    exact (C16_assigned keys g cells rf i _ prev hmatch hcell).2.1 z hk hint.2.1
  · intro u hk hval
    have hprec : e.fields[i].prec = floatPrecision := by
      rw [hfield]; unfold colField; rw [← hkind, hk]
    rw [hval] at hlen hcell
    simp only [render, hprec] at hlen hcell
    obtain ⟨⟨y, hy, hc⟩, _⟩ := C16_float (close := fun u y => y = reparse u)
      ⟨(C16_floatFmt_instance floatPrecision (by decide)).nonempty,
       (C16_floatFmt_instance floatPrecision (by decide)).solid,
       fun x => ⟨reparse x, (reparse_close x).1, rfl⟩⟩ u e.fields[i].size hlen
    rw [← hc]
    exact (C16_assigned keys g cells rf i _ prev hmatch hcell).2.2 y hk hy

/-- a field of the READER's record type: a geometry field (concrete type `k` or the interface `geom.Geom`), or an
attribute field of the kind of attribute field `col` of the archetype that `Matches` it (by tag, or by name) -/
inductive RField where
  | geom (name tag : Bytes) (k : GK)
  | attr (sf : SField) (col : Nat)

def RField.sf : RField → SField
  | .geom n t k => ⟨n, t, .geom k⟩
  | .attr sf _ => sf

/-- the geometry `g` read from the file can be stored in a field of kind `k` (`reflect.Set` does not panic) and is
not "no geometry" -/
def GeomFieldOK {α : Type} (k : GK) (g : Geom α) : Prop := g ≠ .nil ∧ (k = .I ∨ dynKind g = some k)

/-- what the reader field holds after `DecodeRow` of the record `(g, vals)` -/
def backField {α : Type} (N : Geom α → Geom α) (r : Geom α × List Val) : RField → RVal α
  | .geom _ _ _ => .geom (N r.1)
  | .attr _ col => match r.2[col]? with | some v => backVal v | none => .missing

theorem decodeFields_all {α β : Type} (zero : α) (keys : List Bytes) (g : Geom α) (cells : List Bytes)
    (sf : β → SField) (F : β → RVal α) :
    ∀ (l : List β), (∀ b ∈ l, ∀ prev, decodeField keys g cells (sf b) prev = .ok (F b, false)) →
      ∀ prevs, decodeFields zero keys g cells (l.map sf) prevs = (some (l.map F), false)
  | [], _, _ => rfl
  | b :: rest, h, prevs => by
    have h0 := h b (by simp) (prevs.head?.getD (zeroOf zero (sf b).kind))
    have ih := decodeFields_all zero keys g cells sf F rest (fun b' hb' => h b' (by simp [hb'])) prevs.tail
    simp [decodeFields, h0, ih]

theorem readS_go_exact {α β : Type} (zero : α) (sfs : List SField) (reuse : Bool) (keys : List Bytes)
    (row : β → Shape α × List Bytes) (g : β → Geom α) (V : β → List (RVal α)) :
    ∀ (l : List β) (var : List (RVal α)),
      (∀ b ∈ l, shp2Geom (row b).1 = .ok (g b) ∧ ∀ var, decodeFields zero keys (g b) (row b).2 sfs var = (some (V b), false)) →
      readS.go zero sfs reuse keys (l.map row) var = ⟨l.map V, false, false⟩
  | [], _, _ => by simp [readS.go]
  | b :: rs, var, h => by
    obtain ⟨hg, hv⟩ := h b (by simp)
    have ih := readS_go_exact zero sfs reuse keys row g V rs (if reuse then V b else zeroRow zero sfs)
      (fun b' hb' => h b' (by simp [hb']))
    rw [List.map_cons]
    generalize hrow : row b = rb at hg hv
    obtain ⟨sh, cells⟩ := rb
    simp only at hg hv
    rw [readS.go]
    simp only [hg, hv var, ih, List.map_cons]

theorem writeAllS_exact {α : Type} (eq : Pt α → Pt α → Bool) (e : EncS) (S : Geom α → Shape α) :
    ∀ (recs : List (Geom α × List Val)) (acc : List (Shape α × List Bytes) × List WRes),
      (∀ r ∈ recs, fieldShape eq e.geomKind r.1 = .ok (S r.1) ∧ (writeStrict e.fields r.2).2 = true) →
      recs.foldl (fun acc r => let x := encodeS eq e acc.1 r.1 r.2; (x.1, acc.2 ++ [x.2])) acc
        = (acc.1 ++ recs.map (fun r => (S r.1, (writeStrict e.fields r.2).1)), acc.2 ++ recs.map (fun _ => WRes.ok))
  | [], acc, _ => by simp
  | r :: rs, acc, h => by
    obtain ⟨hr, hok⟩ := h r (by simp)
    rw [List.foldl_cons, writeAllS_exact eq e S rs _ (fun r' hr' => h r' (by simp [hr']))]
    simp [encodeS, hr, hok]

theorem normal_ne_nil {α : Type} (eq : Pt α → Pt α → Bool) (g n : Geom α) (h : Spec.normal eq g = some n) (hg : g ≠ .nil) :
    n ≠ .nil := by
  cases g with
  | nil => exact absurd rfl hg
  | multiPolygon _ => simp [Spec.normal] at h
  | collection _ => simp [Spec.normal] at h
  | _ => simp [Spec.normal] at h; subst h; simp

/-- the two facts behind the whole-file statement: what the struct writer leaves, and what `DecodeRow` makes of each
written row whatever the record variable holds -/
theorem struct_file_core {α : Type} (eq : Pt α → Pt α → Bool) (zero : α) (sfs : List SField) (e : EncS)
    (henc : newEncoder sfs = .ok e)
    (hp : ∀ sf ∈ attrsOf sfs, Plain (effName sf))
    (hd : ∀ a b (ha : a < (attrsOf sfs).length) (hb : b < (attrsOf sfs).length),
      keyOf (attrsOf sfs)[a] = keyOf (attrsOf sfs)[b] → a = b)
    (recs : List (Geom α × List Val)) (N : Geom α → Geom α)
    (hsup : ∀ r ∈ recs, Spec.normal eq r.1 = some (N r.1) ∧ r.1 ≠ .nil)
    (hl : ∀ r ∈ recs, e.fields.length = r.2.length)
    (hfit : ∀ r ∈ recs, ∀ i (hi : i < e.fields.length) (hv : i < r.2.length) (ha : i < (attrsOf sfs).length),
      writeAttr e.fields[i] r.2[i] = some (render e.fields[i] r.2[i]) ∧ ValOK e.fields[i] r.2[i] ∧
      valKind r.2[i] = (attrsOf sfs)[i].kind)
    (rfs : List RField) (reuse : Bool)
    (hrd : ∀ rf ∈ rfs, match rf with
      | .geom _ _ k => ∀ r ∈ recs, GeomFieldOK k (N r.1)
      | .attr sf col => ∃ (h : col < (attrsOf sfs).length), sf.kind = (attrsOf sfs)[col].kind ∧
          Matches (attrsOf sfs) sf col) :
    ∃ S : Geom α → Shape α,
      writeAllS eq e recs = (recs.map (fun r => (S r.1, (writeStrict e.fields r.2).1)), recs.map (fun _ => WRes.ok)) ∧
      (∀ r ∈ recs, geom2Shp eq r.1 = .ok (S r.1) ∧ (writeStrict e.fields r.2).2 = true) ∧
      ∀ r ∈ recs, shp2Geom (S r.1) = .ok (N r.1) ∧
        ∀ var, decodeFields zero (fileKeys e.fields) (N r.1) (writeStrict e.fields r.2).1 (rfs.map RField.sf) var
          = (some (rfs.map (backField N r)), false) := by
  have hcols := C16_columns sfs e henc
  have hlenA : e.fields.length = (attrsOf sfs).length := by rw [hcols]; simp
  have hconv : ∀ r ∈ recs, ∃ sh, geom2Shp eq r.1 = .ok sh ∧ shp2Geom sh = .ok (N r.1) := by
    intro r hr
    have := C16_geom eq r.1 (N r.1) (hsup r hr).1
    cases hg : geom2Shp eq r.1 with
    | error f => simp [hg, bind, Except.bind] at this
    | ok sh => exact ⟨sh, rfl, by simpa [hg, bind, Except.bind] using this⟩
  let S : Geom α → Shape α := fun g => match geom2Shp eq g with | .ok sh => sh | .error _ => .null
  have hS : ∀ r ∈ recs, fieldShape eq e.geomKind r.1 = .ok (S r.1) := by
    intro r hr
    obtain ⟨sh, h1, _⟩ := hconv r hr
    have hnn := (hsup r hr).2
    have : fieldShape eq e.geomKind r.1 = geom2Shp eq r.1 := by
      unfold fieldShape
      split
      · rename_i hk hg; exact absurd hg hnn
      · rfl
    rw [this]; simp [S, h1]
  let G : Shape α → Geom α := fun sh => match shp2Geom sh with | .ok g => g | .error _ => .nil
  have hfit' : ∀ r ∈ recs, ∀ i (hi : i < e.fields.length) (hv : i < r.2.length),
      writeAttr e.fields[i] r.2[i] = some (render e.fields[i] r.2[i]) :=
    fun r hr i hi hv => (hfit r hr i hi hv (hlenA ▸ hi)).1
  have hstrict : ∀ r ∈ recs, (writeStrict e.fields r.2).2 = true :=
    fun r hr => (writeStrict_cells e.fields r.2 (hl r hr) (hfit' r hr)).1
  have hw := writeAllS_exact eq e S recs ([], []) (fun r hr => ⟨hS r hr, hstrict r hr⟩)
  simp only [List.nil_append] at hw
  have hw' : writeAllS eq e recs =
      (recs.map (fun r => (S r.1, (writeStrict e.fields r.2).1)), recs.map (fun _ => WRes.ok)) := hw
  -- per record: the value of every reader field, whatever the record variable held
  have hrow : ∀ r ∈ recs, ∀ rf ∈ rfs, ∀ prev,
      decodeField (fileKeys e.fields) (N r.1) (writeStrict e.fields r.2).1 rf.sf prev = .ok (backField N r rf, false) := by
    intro r hr rf hrf prev
    have hrdf := hrd rf hrf
    cases rf with
    | geom n t k =>
      obtain ⟨hnn, hk⟩ := hrdf r hr
      simp only [RField.sf, backField]
      generalize N r.1 = g at hnn hk
      cases g <;> simp_all [decodeField]
    | attr sf col =>
      obtain ⟨hc, hkind, hm⟩ := hrdf
      have hci : col < e.fields.length := by omega
      have hcv : col < r.2.length := by rw [← hl r hr]; exact hci
      obtain ⟨_, hvok, hvk⟩ := hfit r hr col hci hcv hc
      have hrt := C16_struct_roundtrip_matched sfs e henc hp hd r.2 (hl r hr) (hfit' r hr) (N r.1) col hc hcv sf prev hkind hm
      simp only [RField.sf, backField, List.getElem?_eq_getElem hcv]
      cases hval : r.2[col] with
      | int z =>
        rw [hval] at hvok hvk
        exact hrt.2.1 z (by rw [hkind, ← hvk]; rfl) hval hvok.1 hvok.2
      | str s =>
        rw [hval] at hvok hvk
        exact hrt.1 s (by rw [hkind, ← hvk]; rfl) hval hvok
      | float u =>
        rw [hval] at hvk
        exact hrt.2.2 u (by rw [hkind, ← hvk]; rfl) hval
  have hrows : ∀ r ∈ recs, shp2Geom (S r.1) = .ok (N r.1) ∧
      ∀ var, decodeFields zero (fileKeys e.fields) (N r.1) (writeStrict e.fields r.2).1 (rfs.map RField.sf) var
        = (some (rfs.map (backField N r)), false) := by
    intro r hr
    obtain ⟨sh, h1, h2⟩ := hconv r hr
    have hs : S r.1 = sh := by simp [S, h1]
    exact ⟨by rw [hs, h2], decodeFields_all zero _ _ _ RField.sf (backField N r) rfs (hrow r hr)⟩
  exact ⟨S, hw', fun r hr => ⟨by obtain ⟨sh, h1, _⟩ := hconv r hr; simp [S, h1], hstrict r hr⟩, hrows⟩

/-- **C16_struct_file_roundtrip** (the struct path end to end, ONE whole-file statement: "records written through the
struct-based Encoder and read back through the Decoder come back in the same order and number, with bit-identical
coordinates …; integer attributes are equal, NUL-free strings up to 50 bytes are equal and floats agree to 10 decimal
places, matched to struct fields by tag or name case-insensitively"). Take ANY archetype `sfs` accepted by `NewEncoder`
whose attribute fields have plain column names (1–11 bytes, NUL-free) with pairwise distinct lower-cased keys; ANY
sequence of records with a supported, present geometry (`Spec.normal`), one value per column of the column's Go type,
each fitting its column (`writeAttr … = some (render …)`, decidable) and `ValOK`; ANY reader record type `rfs` — fields
in any order, any subset, duplicates allowed — whose geometry fields can hold what the file's shapes read back as
(`GeomFieldOK`) and whose attribute fields have the kind of an archetype field and `Matches` it: their lower-cased tag is
its column key, or no column has their tag and their lower-cased name is its column key; decoded into a
fresh variable per row or into ONE reused variable. Then every `Encode` returns nil, and the loop
`for d.DecodeRow(&rec) {…}` returns — no panic, `Error() == nil` — EXACTLY one row per record, in call order: every
geometry field holds the normal form of that record's geometry, every int field the integer written, every string field
the string written, every float field `reparse u` with `closeBits 10 u (reparse u)` (`reparse_close`: within `10^-10`
as exact rationals, NaN ↦ NaN, ±Inf ↦ ±Inf). `CallOK` of `C16_order_struct` is discharged, not assumed. -/
theorem C16_struct_file_roundtrip {α : Type} (eq : Pt α → Pt α → Bool) (zero : α) (sfs : List SField) (e : EncS)
    (henc : newEncoder sfs = .ok e)
    (hp : ∀ sf ∈ attrsOf sfs, Plain (effName sf))
    (hd : ∀ a b (ha : a < (attrsOf sfs).length) (hb : b < (attrsOf sfs).length),
      keyOf (attrsOf sfs)[a] = keyOf (attrsOf sfs)[b] → a = b)
    (recs : List (Geom α × List Val)) (N : Geom α → Geom α)
    (hsup : ∀ r ∈ recs, Spec.normal eq r.1 = some (N r.1) ∧ r.1 ≠ .nil)
    (hl : ∀ r ∈ recs, e.fields.length = r.2.length)
    (hfit : ∀ r ∈ recs, ∀ i (hi : i < e.fields.length) (hv : i < r.2.length) (ha : i < (attrsOf sfs).length),
      writeAttr e.fields[i] r.2[i] = some (render e.fields[i] r.2[i]) ∧ ValOK e.fields[i] r.2[i] ∧
      valKind r.2[i] = (attrsOf sfs)[i].kind)
    (rfs : List RField) (reuse : Bool)
    (hrd : ∀ rf ∈ rfs, match rf with
      | .geom _ _ k => ∀ r ∈ recs, GeomFieldOK k (N r.1)
      | .attr sf col => ∃ (h : col < (attrsOf sfs).length), sf.kind = (attrsOf sfs)[col].kind ∧
          Matches (attrsOf sfs) sf col) :
    (writeAllS eq e recs).2 = recs.map (fun _ => WRes.ok) ∧
    readS zero ⟨e.shpType, e.fields, (writeAllS eq e recs).1⟩ (rfs.map RField.sf) reuse =
      ⟨recs.map (fun r => rfs.map (backField N r)), false, false⟩ := by
  obtain ⟨S, hw', _, hrows⟩ := struct_file_core eq zero sfs e henc hp hd recs N hsup hl hfit rfs reuse hrd
  refine ⟨by rw [hw'], ?_⟩
  rw [hw']
  exact readS_go_exact zero (rfs.map RField.sf) reuse (fileKeys e.fields)
    (fun r : Geom α × List Val => (S r.1, (writeStrict e.fields r.2).1)) (fun r => N r.1)
    (fun r => rfs.map (backField N r)) recs (zeroRow zero (rfs.map RField.sf)) hrows

/-- **C16_callOK_written** (the hypothesis of `C16_order_struct` / `C16_order_schedule` DISCHARGED for written files):
under the hypotheses of `C16_struct_file_roundtrip`, every row the struct writer leaves converts back to a geometry and
`DecodeRow` into the reader type succeeds on it whatever the record variable holds (`CallOK`): no field panics, every
matched numeric cell parses. -/
theorem C16_callOK_written {α : Type} (eq : Pt α → Pt α → Bool) (zero : α) (sfs : List SField) (e : EncS)
    (henc : newEncoder sfs = .ok e)
    (hp : ∀ sf ∈ attrsOf sfs, Plain (effName sf))
    (hd : ∀ a b (ha : a < (attrsOf sfs).length) (hb : b < (attrsOf sfs).length),
      keyOf (attrsOf sfs)[a] = keyOf (attrsOf sfs)[b] → a = b)
    (recs : List (Geom α × List Val)) (N : Geom α → Geom α)
    (hsup : ∀ r ∈ recs, Spec.normal eq r.1 = some (N r.1) ∧ r.1 ≠ .nil)
    (hl : ∀ r ∈ recs, e.fields.length = r.2.length)
    (hfit : ∀ r ∈ recs, ∀ i (hi : i < e.fields.length) (hv : i < r.2.length) (ha : i < (attrsOf sfs).length),
      writeAttr e.fields[i] r.2[i] = some (render e.fields[i] r.2[i]) ∧ ValOK e.fields[i] r.2[i] ∧
      valKind r.2[i] = (attrsOf sfs)[i].kind)
    (rfs : List RField) (reuse : Bool)
    (hrd : ∀ rf ∈ rfs, match rf with
      | .geom _ _ k => ∀ r ∈ recs, GeomFieldOK k (N r.1)
      | .attr sf col => ∃ (h : col < (attrsOf sfs).length), sf.kind = (attrsOf sfs)[col].kind ∧
          Matches (attrsOf sfs) sf col) :
    ∃ G : Shape α → Geom α, ∀ row ∈ (writeAllS eq e recs).1, shp2Geom row.1 = .ok (G row.1) ∧
      CallOK zero (fileKeys e.fields) G (.s (rfs.map RField.sf) reuse) row := by
  obtain ⟨S, hw', _, hrows⟩ := struct_file_core eq zero sfs e henc hp hd recs N hsup hl hfit rfs reuse hrd
  refine ⟨fun sh => match shp2Geom sh with | .ok g => g | .error _ => .nil, ?_⟩
  intro row hrow
  rw [hw'] at hrow
  obtain ⟨r, hr, rfl⟩ := List.mem_map.mp hrow
  obtain ⟨h1, h2⟩ := hrows r hr
  refine ⟨by simp [h1], ?_⟩
  intro var
  simp only [h1]
  exact ⟨_, h2 var⟩

/-! ### non-vacuity: the hypotheses of `C16_struct_file_roundtrip` hold together on a concrete file -/
namespace StructExample
def sfs : List SField := [⟨[71], [], .geom .LS⟩, ⟨[73, 68], [], .int⟩, ⟨[84, 101, 109, 112, 101, 114, 97, 116, 117, 114, 101], [], .float⟩, ⟨[78, 97, 109, 101], [115, 116, 97, 116, 105, 111, 110, 110, 97, 109, 101], .str⟩]
def enc : EncS := ⟨3, [colField ⟨[73, 68], [], .int⟩, colField ⟨[84, 101, 109, 112, 101, 114, 97, 116, 117, 114, 101], [], .float⟩, colField ⟨[78, 97, 109, 101], [115, 116, 97, 116, 105, 111, 110, 110, 97, 109, 101], .str⟩], .LS⟩
def recs : List (Geom Nat × List Val) :=
  [(.lineString [⟨0, 0⟩, ⟨1, 1⟩], [.int 7, .float 4626744929681408000, .str [97, 108, 112, 104, 97]]), (.lineString [], [.int (-8), .float 0, .str []])]
def nrm : Geom Nat → Geom Nat | .lineString l => .multiLineString [l] | g => g
def rfs : List RField :=
  [.attr ⟨[81], [83, 116, 97, 116, 105, 111, 110, 78, 97, 109, 101], .str⟩ 2, .geom [71] [] .MLS, .attr ⟨[73, 100], [], .int⟩ 0,
   .attr ⟨[84, 69, 77, 80, 69, 82, 65, 84, 85, 82, 69], [], .float⟩ 1, .geom [72] [] .I, .attr ⟨[73, 68], [], .int⟩ 0]

theorem plain_of (b : Bytes) (h1 : b ≠ []) (h2 : b.length ≤ 11) (h3 : b.all (fun x => x != 0) = true)
    (h4 : (b.head?.map isWs).getD false = false) (h5 : (b.getLast?.map isWs).getD false = false) : Plain b := by
  refine ⟨h1, h2, ?_, ?_, ?_⟩
  · intro x hx; have := List.all_eq_true.mp h3 x hx; simpa using this
  · intro x hx; simpa [hx] using h4
  · intro x hx; simpa [hx] using h5

abbrev eqN : Pt Nat → Pt Nat → Bool := fun a b => a == b

theorem h_enc : newEncoder sfs = .ok enc := by rfl

theorem h_plain : ∀ sf ∈ attrsOf sfs, Plain (effName sf) := by
  have hattrs : attrsOf sfs = sfs.tail := by decide +kernel
  intro sf hsf
  rw [hattrs] at hsf
  simp [sfs] at hsf
  rcases hsf with rfl | rfl | rfl <;> exact plain_of _ (by decide) (by decide) (by decide +kernel +revert) (by decide +kernel +revert) (by decide +kernel +revert)

theorem h_distinct : ∀ a b (ha : a < (attrsOf sfs).length) (hb : b < (attrsOf sfs).length),
    keyOf (attrsOf sfs)[a] = keyOf (attrsOf sfs)[b] → a = b := by
  intro a b ha hb
  have hl : (attrsOf sfs).length = 3 := by decide +kernel +revert
  have ha' : a = 0 ∨ a = 1 ∨ a = 2 := by omega
  have hb' : b = 0 ∨ b = 1 ∨ b = 2 := by omega
  rcases ha' with rfl | rfl | rfl <;> rcases hb' with rfl | rfl | rfl <;> first | (intro _; rfl) | (intro h; exact absurd h (by decide +kernel +revert))

theorem h_sup : ∀ r ∈ recs, Spec.normal eqN r.1 = some (nrm r.1) ∧ r.1 ≠ .nil := by
  intro r hr
  simp [recs] at hr
  rcases hr with rfl | rfl <;> exact ⟨rfl, by simp⟩

theorem h_len : ∀ r ∈ recs, enc.fields.length = r.2.length := by
  intro r hr
  simp [recs] at hr
  rcases hr with rfl | rfl <;> rfl

theorem h_fit : ∀ r ∈ recs, ∀ i (hi : i < enc.fields.length) (hv : i < r.2.length) (ha : i < (attrsOf sfs).length),
    writeAttr enc.fields[i] r.2[i] = some (render enc.fields[i] r.2[i]) ∧ ValOK enc.fields[i] r.2[i] ∧
    valKind r.2[i] = (attrsOf sfs)[i].kind := by
  intro r hr i hi hv ha
  have hi' : i = 0 ∨ i = 1 ∨ i = 2 := by simp [enc] at hi; omega
  simp [recs] at hr
  rcases hr with rfl | rfl <;> rcases hi' with rfl | rfl | rfl <;>
    exact ⟨by decide +kernel +revert, by first | exact ⟨by decide, by decide⟩ | trivial | (right; decide), by decide +kernel +revert⟩

theorem h_reader : ∀ rf ∈ rfs, match rf with
    | .geom _ _ k => ∀ r ∈ recs, GeomFieldOK k (nrm r.1)
    | .attr sf col => ∃ (h : col < (attrsOf sfs).length), sf.kind = (attrsOf sfs)[col].kind ∧ Matches (attrsOf sfs) sf col := by
  intro rf hrf
  simp [rfs] at hrf
  rcases hrf with rfl | rfl | rfl | rfl | rfl | rfl
  · exact ⟨by decide +kernel +revert, by decide +kernel +revert, by unfold Matches; decide +kernel +revert⟩
  · intro r hr; simp [recs] at hr; rcases hr with rfl | rfl <;> exact ⟨by simp [nrm], Or.inr rfl⟩
  · exact ⟨by decide +kernel +revert, by decide +kernel +revert, by unfold Matches; decide +kernel +revert⟩
  · exact ⟨by decide +kernel +revert, by decide +kernel +revert, by unfold Matches; decide +kernel +revert⟩
  · intro r hr; simp [recs] at hr; rcases hr with rfl | rfl <;> exact ⟨by simp [nrm], Or.inl rfl⟩
  · exact ⟨by decide +kernel +revert, by decide +kernel +revert, by unfold Matches; decide +kernel +revert⟩

/-- eleven-byte field name, eleven-byte tag, a reader type with the fields permuted, an interface geometry field, a
column read twice and names differing in case: all hypotheses hold (`h_enc` … `h_reader`), so the theorem determines the
whole read result -/
example : ∀ reuse, (writeAllS eqN enc recs).2 = [.ok, .ok] ∧
    readS 0 ⟨enc.shpType, enc.fields, (writeAllS eqN enc recs).1⟩ (rfs.map RField.sf) reuse =
      ⟨recs.map (fun r => rfs.map (backField nrm r)), false, false⟩ :=
  fun reuse => C16_struct_file_roundtrip eqN 0 sfs enc h_enc h_plain h_distinct recs nrm h_sup h_len h_fit rfs reuse h_reader
end StructExample

end GeomV.C16
