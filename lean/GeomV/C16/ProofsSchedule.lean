import GeomV.C16.ProofsStruct
/-!
# C16 — ANY reading schedule on a struct-written file, `CallOK` discharged for BOTH decoders

`C16_order_schedule` (one row per record, in file order, for every schedule on one Decoder mixing `DecodeRow` — fresh
or reused record variables, any number of different record types — and `DecodeRowFields` with any field lists) has the
hypothesis `CallOK` for every call of the schedule on every row of the file. Here it is discharged for the files the
struct writer produces from values that fit: `DecodeRow` calls by `struct_file_core`, `DecodeRowFields` calls because
every requested name that equals a column key up to case is a column of the file.
-/
set_option linter.unusedSimpArgs false
set_option linter.unusedVariables false
namespace GeomV.C16

/-- one call of a reading schedule: `DecodeRow` into a record type described as in `C16_struct_file_roundtrip`, or
`DecodeRowFields(names…)` -/
inductive RCall where
  | s (rfs : List RField) (reuse : Bool)
  | f (names : List Bytes)

def RCall.call : RCall → Call
  | .s rfs reuse => .s (rfs.map RField.sf) reuse
  | .f names => .f names

/-- the shape `geom2Shp` makes of a geometry (`Null` where it reports an error) -/
def shapeOf {α : Type} (eq : Pt α → Pt α → Bool) (g : Geom α) : Shape α :=
  match geom2Shp eq g with | .ok sh => sh | .error _ => .null

/-- the geometry `shp2Geom` makes of a shape -/
def geomOf {α : Type} (sh : Shape α) : Geom α :=
  match shp2Geom sh with | .ok g => g | .error _ => .nil

/-- a requested name that equals the key of column `j` up to case is served from column `j` -/
theorem lastIdx_keys (attrs : List SField)
    (hd : ∀ a b (ha : a < attrs.length) (hb : b < attrs.length), keyOf attrs[a] = keyOf attrs[b] → a = b)
    (n : Bytes) (j : Nat) (hj : j < attrs.length) (hn : lower n = keyOf attrs[j]) :
    lastIdx (attrs.map keyOf) (lower n) = some j := by
  rw [lastIdx_spec]
  refine ⟨by simp [List.getElem?_eq_getElem hj, hn], ?_⟩
  intro c' hc' heq
  rcases Nat.lt_or_ge c' attrs.length with hlt | hge
  · simp [List.getElem?_eq_getElem hlt] at heq
    have := hd c' j hlt hj (by rw [heq, hn])
    omega
  · simp [List.getElem?_eq_none (by simpa using hge)] at heq

/-- **C16_schedule_written** (clause "come back in the same order and number", every reading schedule, `CallOK`
DISCHARGED): write any records that fit with `NewEncoder`/`Encode` (hypotheses of `C16_struct_file_roundtrip`), then
read the file on ONE Decoder with ANY non-empty schedule `rcalls` — record `i` is read with call `i mod k` — whose
`DecodeRow` calls use record types as in `C16_struct_file_roundtrip` (different types per call site allowed, fresh or
reused variables) and whose `DecodeRowFields` calls request names that are column keys up to case (any subset, order,
duplicates, none). Then the reads return exactly one row per record, in call order, no panic, no error, and row `i` is
built from record `i`'s own shape and cells (`RowsOf`). -/
theorem C16_schedule_written {α : Type} (eq : Pt α → Pt α → Bool) (zero : α) (sfs : List SField) (e : EncS)
    (henc : newEncoder sfs = .ok e)
    (hp : ∀ sf ∈ attrsOf sfs, Plain (effName sf))
    (hd : ∀ a b (ha : a < (attrsOf sfs).length) (hb : b < (attrsOf sfs).length),
      keyOf (attrsOf sfs)[a] = keyOf (attrsOf sfs)[b] → a = b)
    (recs : List (Geom α × List Val)) (N : Geom α → Geom α)
    (hsup : ∀ r ∈ recs, Spec.normal eq r.1 = some (N r.1) ∧ r.1 ≠ .nil)
    (hl : ∀ r ∈ recs, e.fields.length = r.2.length)
    (hfit : ∀ r ∈ recs, ∀ i (hi : i < e.fields.length) (hv : i < r.2.length) (ha : i < (attrsOf sfs).length),
      writeAttr e.fields[i] r.2[i] = some (render e.fields[i] r.2[i]) ∧ ValOK e.fields[i] r.2[i] ∧
      valKind r.2[i] = (attrsOf sfs)[i].kind)
    (rcalls : List RCall) (hne : rcalls ≠ [])
    (hrc : ∀ c ∈ rcalls, match c with
      | .s rfs _ => ∀ rf ∈ rfs, (match rf with
        | .geom _ _ k => ∀ r ∈ recs, GeomFieldOK k (N r.1)
        | .attr sf col => ∃ (h : col < (attrsOf sfs).length), sf.kind = (attrsOf sfs)[col].kind ∧
            Matches (attrsOf sfs) sf col)
      | .f names => ∀ n ∈ names, ∃ j, ∃ (h : j < (attrsOf sfs).length), lower n = keyOf (attrsOf sfs)[j]) :
    (writeAllS eq e recs).1 = recs.map (fun r => (shapeOf eq r.1, (writeStrict e.fields r.2).1)) ∧
    ∃ rows, readM zero ⟨e.shpType, e.fields, (writeAllS eq e recs).1⟩ (rcalls.map RCall.call) = ⟨rows, false, false⟩ ∧
      rows.length = recs.length ∧
      RowsOf zero (fileKeys e.fields) geomOf (rcalls.map RCall.call) (writeAllS eq e recs).1 0 rows := by
  -- the file (from the core with an empty reader type)
  obtain ⟨S, hw, hS, hrow0⟩ := struct_file_core eq zero sfs e henc hp hd recs N hsup hl hfit [] false (by simp)
  have hSeq : ∀ r ∈ recs, S r.1 = shapeOf eq r.1 := by
    intro r hr; simp [shapeOf, (hS r hr).1]
  have hrowsEq : (writeAllS eq e recs).1 = recs.map (fun r => (shapeOf eq r.1, (writeStrict e.fields r.2).1)) := by
    rw [hw]
    apply List.map_congr_left
    intro r hr
    rw [hSeq r hr]
  have hgeo : ∀ r ∈ recs, shp2Geom (shapeOf eq r.1) = .ok (N r.1) := by
    intro r hr; rw [← hSeq r hr]; exact (hrow0 r hr).1
  have hcols := C16_columns sfs e henc
  have hkeys : fileKeys e.fields = (attrsOf sfs).map keyOf := by rw [hcols]; exact fileKeys_columns _ hp
  have hlenA : e.fields.length = (attrsOf sfs).length := by rw [hcols]; simp
  refine ⟨hrowsEq, ?_⟩
  have hcall : ∀ c ∈ rcalls.map RCall.call, ∀ row ∈ (⟨e.shpType, e.fields, (writeAllS eq e recs).1⟩ : FileM α).rows,
      CallOK zero (fileKeys e.fields) geomOf c row := by
    intro c hc row hrow
    obtain ⟨rc, hrcm, rfl⟩ := List.mem_map.mp hc
    simp only [hrowsEq] at hrow
    obtain ⟨r, hr, rfl⟩ := List.mem_map.mp hrow
    have hG : geomOf (shapeOf eq r.1) = N r.1 := by simp [geomOf, hgeo r hr]
    have hrcc := hrc rc hrcm
    cases rc with
    | s rfs reuse =>
      obtain ⟨S', _, hS', hrow'⟩ := struct_file_core eq zero sfs e henc hp hd recs N hsup hl hfit rfs reuse hrcc
      intro var
      simp only [hG]
      exact ⟨_, (hrow' r hr).2 var⟩
    | f names =>
      simp only [RCall.call, CallOK]
      apply rowFields_ok
      intro n hn
      obtain ⟨j, hj, hlow⟩ := hrcc n hn
      refine ⟨j, ?_, by rw [writeStrict_length]; omega⟩
      rw [hkeys]
      exact lastIdx_keys (attrsOf sfs) hd n j hj hlow
  have hg : ∀ row ∈ (⟨e.shpType, e.fields, (writeAllS eq e recs).1⟩ : FileM α).rows, shp2Geom row.1 = .ok (geomOf row.1) := by
    intro row hrow
    simp only [hrowsEq] at hrow
    obtain ⟨r, hr, rfl⟩ := List.mem_map.mp hrow
    simp [geomOf, hgeo r hr]
  obtain ⟨rows, h1, h2, h3⟩ := C16_order_schedule zero ⟨e.shpType, e.fields, (writeAllS eq e recs).1⟩ (rcalls.map RCall.call) geomOf
    (by simpa using hne) hcall hg
  refine ⟨rows, h1, ?_, h3⟩
  rw [h2]
  simp [hrowsEq]

/-! ## mixed WRITER schedules: whichever method writes a record that fits, the file is the same -/

theorem fieldShape_of_ne_nil {α : Type} (eq : Pt α → Pt α → Bool) (k : GK) (g : Geom α) (h : g ≠ .nil) :
    fieldShape eq k g = geom2Shp eq g := by
  cases k <;> cases g <;> first | rfl | exact absurd rfl h

/-- for values that all fit, `EncodeFields`' lenient loop and `Encode`'s strict loop leave the same cells -/
theorem writeLenient_eq_strict : ∀ (fs : List Field) (vals : List Val), fs.length = vals.length →
    (∀ i (hi : i < fs.length) (hv : i < vals.length), writeAttr fs[i] vals[i] = some (render fs[i] vals[i])) →
    writeLenient fs vals = (writeStrict fs vals).1 := by
  intro fs
  induction fs with
  | nil => intro vals _ _; cases vals <;> simp [writeLenient, writeStrict]
  | cons f fs ih =>
    intro vals hl h
    cases vals with
    | nil => simp at hl
    | cons v vs =>
      have h0 := h 0 (by simp) (by simp)
      simp only [List.getElem_cons_zero] at h0
      have := ih vs (by simpa using hl) (fun i hi hv => by
        have := h (i + 1) (by simp; omega) (by simp; omega)
        simpa using this)
      simp [writeLenient, writeStrict, h0, this]

theorem expMix_fits {α : Type} (e : EncS) (sched : List Bool) (S : Geom α → Shape α) :
    ∀ (recs : List (Geom α × List Val)) (i : Nat),
      (∀ r ∈ recs, writeLenient e.fields r.2 = (writeStrict e.fields r.2).1) →
      expMix e sched S recs i = recs.map (fun r => (S r.1, (writeStrict e.fields r.2).1))
  | [], _, _ => rfl
  | r :: rest, i, h => by
    simp only [expMix, List.map_cons, h r (by simp), ite_self]
    rw [expMix_fits e sched S rest (i + 1) (fun r' hr' => h r' (by simp [hr']))]

/-- **C16_mixed_file_roundtrip** (whole-file statement for ANY writer schedule on one `NewEncoder` encoder): under the
hypotheses of `C16_struct_file_roundtrip`, write record `i` with `Encode` or with `EncodeFields(g, vals…)` as the schedule
`sched` says (entry `i mod k`; `true` = `Encode`): the file is THE SAME as when every record is written with `Encode`
(the two methods share the row cursor and, for values that fit, leave the same cells), and the `DecodeRow` loop returns
exactly one row per record in call order, no panic, no error, with the values of `C16_struct_file_roundtrip`. -/
theorem C16_mixed_file_roundtrip {α : Type} (eq : Pt α → Pt α → Bool) (zero : α) (sfs : List SField) (e : EncS)
    (henc : newEncoder sfs = .ok e)
    (hp : ∀ sf ∈ attrsOf sfs, Plain (effName sf))
    (hd : ∀ a b (ha : a < (attrsOf sfs).length) (hb : b < (attrsOf sfs).length),
      keyOf (attrsOf sfs)[a] = keyOf (attrsOf sfs)[b] → a = b)
    (recs : List (Geom α × List Val)) (N : Geom α → Geom α)
    (hsup : ∀ r ∈ recs, Spec.normal eq r.1 = some (N r.1) ∧ r.1 ≠ .nil)
    (hl : ∀ r ∈ recs, e.fields.length = r.2.length)
    (hfit : ∀ r ∈ recs, ∀ i (hi : i < e.fields.length) (hv : i < r.2.length) (ha : i < (attrsOf sfs).length),
      writeAttr e.fields[i] r.2[i] = some (render e.fields[i] r.2[i]) ∧ ValOK e.fields[i] r.2[i] ∧
      valKind r.2[i] = (attrsOf sfs)[i].kind)
    (rfs : List RField) (reuse : Bool)
    (hrd : ∀ rf ∈ rfs, match rf with
      | .geom _ _ k => ∀ r ∈ recs, GeomFieldOK k (N r.1)
      | .attr sf col => ∃ (h : col < (attrsOf sfs).length), sf.kind = (attrsOf sfs)[col].kind ∧
          Matches (attrsOf sfs) sf col)
    (sched : List Bool) :
    (writeAllMix eq e sched recs).1 = (writeAllS eq e recs).1 ∧
    readS zero ⟨e.shpType, e.fields, (writeAllMix eq e sched recs).1⟩ (rfs.map RField.sf) reuse =
      ⟨recs.map (fun r => rfs.map (backField N r)), false, false⟩ := by
  obtain ⟨S, hw, hS, _⟩ := struct_file_core eq zero sfs e henc hp hd recs N hsup hl hfit rfs reuse hrd
  obtain ⟨_, hread⟩ := C16_struct_file_roundtrip eq zero sfs e henc hp hd recs N hsup hl hfit rfs reuse hrd
  have hlenA : e.fields.length = (attrsOf sfs).length := by rw [C16_columns sfs e henc]; simp
  have hmix := writeAllMix_go_rows eq e sched S recs 0 ⟨[], 0⟩ [] rfl (fun r hr =>
    ⟨by rw [fieldShape_of_ne_nil eq _ _ (hsup r hr).2]; exact (hS r hr).1, Nat.le_of_eq (hl r hr).symm⟩)
  have hsame : (writeAllMix eq e sched recs).1 = (writeAllS eq e recs).1 := by
    have h1 : (writeAllMix eq e sched recs).1 = expMix e sched S recs 0 := by simpa [writeAllMix] using hmix
    rw [h1, hw]
    exact expMix_fits e sched S recs 0 (fun r hr =>
      writeLenient_eq_strict e.fields r.2 (hl r hr) (fun i hi hv => (hfit r hr i hi hv (hlenA ▸ hi)).1))
  exact ⟨hsame, by rw [hsame]; exact hread⟩

/-! ### non-vacuity (the file of `StructExample`) -/
namespace StructExample

/-- a second reader type: only the geometry (as `geom.Geom`) and the float column, matched by name in another case -/
def rfs2 : List RField := [.attr ⟨[116, 101, 109, 112, 101, 114, 97, 116, 117, 114, 101], [], .float⟩ 1, .geom [71] [] .I]

theorem h_reader2 : ∀ rf ∈ rfs2, match rf with
    | .geom _ _ k => ∀ r ∈ recs, GeomFieldOK k (nrm r.1)
    | .attr sf col => ∃ (h : col < (attrsOf sfs).length), sf.kind = (attrsOf sfs)[col].kind ∧ Matches (attrsOf sfs) sf col := by
  intro rf hrf
  simp [rfs2] at hrf
  rcases hrf with rfl | rfl
  · exact ⟨by decide +kernel +revert, by decide +kernel +revert, by unfold Matches; decide +kernel +revert⟩
  · intro r hr; simp [recs] at hr; rcases hr with rfl | rfl <;> exact ⟨by simp [nrm], Or.inl rfl⟩

/-- a schedule of four call sites on one Decoder - geometry only, `DecodeRow` into a reused variable of the first record
type, `DecodeRowFields("STATIONNAME", "id", "id")`, `DecodeRow` into the second record type - satisfies the hypotheses of
`C16_schedule_written`; and a writer schedule `Encode, EncodeFields` those of `C16_mixed_file_roundtrip` -/
example :
    (∃ rows, readM 0 ⟨enc.shpType, enc.fields, (writeAllS eqN enc recs).1⟩
        ([RCall.f [], .s rfs true, .f [[83, 84, 65, 84, 73, 79, 78, 78, 65, 77, 69], [105, 100], [105, 100]], .s rfs2 false].map RCall.call)
        = ⟨rows, false, false⟩ ∧ rows.length = recs.length) ∧
    (writeAllMix eqN enc [true, false] recs).1 = (writeAllS eqN enc recs).1 := by
  refine ⟨?_, (C16_mixed_file_roundtrip eqN 0 sfs enc h_enc h_plain h_distinct recs nrm h_sup h_len h_fit rfs false h_reader [true, false]).1⟩
  obtain ⟨_, rows, h1, h2, _⟩ := C16_schedule_written eqN 0 sfs enc h_enc h_plain h_distinct recs nrm h_sup h_len h_fit
    [RCall.f [], .s rfs true, .f [[83, 84, 65, 84, 73, 79, 78, 78, 65, 77, 69], [105, 100], [105, 100]], .s rfs2 false] (by simp) (by
      intro c hc
      simp at hc
      rcases hc with rfl | rfl | rfl | rfl
      · intro n hn; simp at hn
      · exact h_reader
      · intro n hn
        simp at hn
        rcases hn with rfl | rfl
        · exact ⟨2, by decide +kernel, by decide +kernel⟩
        · exact ⟨0, by decide +kernel, by decide +kernel⟩
      · exact h_reader2)
  exact ⟨rows, h1, h2⟩

end StructExample

end GeomV.C16
