import GeomV.C16.Model
import GeomV.C16.Spec
/-!
Helper lemmas for C16 (core Lean only): part arithmetic of `NewPolyLine`/`getStartEnd`, trimming of
padded cells, decimal digits.
-/
set_option linter.unusedSimpArgs false
set_option linter.unusedVariables false
namespace GeomV.C16
open GeomV

/-! ## `mapM` over `List.range` -/

theorem mapM_map_except {ε β γ : Type} (f : β → Except ε γ) (g : Nat → β) (l : List Nat) :
    (l.map g).mapM f = l.mapM (fun i => f (g i)) := by
  induction l with
  | nil => rfl
  | cons a l ih => simp [List.mapM_cons, ih]

theorem mapM_range_ok {ε β : Type} (l : List β) :
    ∀ (f : Nat → Except ε β), (∀ i (h : i < l.length), f i = .ok l[i]) → (List.range l.length).mapM f = .ok l := by
  induction l with
  | nil => intro f _; rfl
  | cons x xs ih =>
    intro f h
    have h0 : f 0 = .ok x := h 0 (by simp)
    have hs : ∀ i (hi : i < xs.length), f (i + 1) = .ok xs[i] := by
      intro i hi
      have := h (i + 1) (by simp; omega)
      simpa using this
    have := ih (fun i => f (i + 1)) hs
    rw [List.length_cons, List.range_succ_eq_map, List.mapM_cons, h0, mapM_map_except]
    simp only [Nat.succ_eq_add_one]
    rw [this]
    rfl

/-! ## `offsets` (go-shp `NewPolyLine`) -/

section parts
variable {β : Type}

theorem offsets_length (m : Nat) (ps : List (List β)) : (offsets m ps).length = ps.length := by
  induction ps generalizing m with
  | nil => rfl
  | cons p ps ih => simp [offsets, ih]

theorem offsets_getElem? (ps : List (List β)) : ∀ (m i : Nat), i < ps.length →
    (offsets m ps)[i]? = some (m + (ps.take i).flatten.length) := by
  induction ps with
  | nil => intro m i h; simp at h
  | cons p ps ih =>
    intro m i h
    cases i with
    | zero => simp [offsets]
    | succ i =>
      have hi : i < ps.length := by simpa using h
      simp [offsets, ih (m + p.length) i hi]
      omega

theorem take_flatten_le (ps : List (List β)) (i : Nat) : (ps.take i).flatten.length ≤ ps.flatten.length := by
  have h : ps.flatten.length = (ps.take i).flatten.length + (ps.drop i).flatten.length := by
    rw [← List.length_append, ← List.flatten_append, List.take_append_drop]
  omega

theorem take_succ_flatten (ps : List (List β)) (i : Nat) (h : i < ps.length) :
    (ps.take (i + 1)).flatten.length = (ps.take i).flatten.length + ps[i].length := by
  rw [List.take_succ_eq_append_getElem h, List.flatten_append, List.length_append]
  simp only [List.flatten_cons, List.flatten_nil, List.append_nil]

theorem flatten_drop_take (ps : List (List β)) (i : Nat) (h : i < ps.length) :
    (ps.flatten.drop (ps.take i).flatten.length).take ps[i].length = ps[i] := by
  have hsplit : ps = ps.take i ++ ps[i] :: ps.drop (i + 1) := by
    rw [List.getElem_cons_drop, List.take_append_drop]
  have : ps.flatten = (ps.take i).flatten ++ (ps[i] ++ (ps.drop (i + 1)).flatten) := by
    have := congrArg List.flatten hsplit
    simpa only [List.flatten_append, List.flatten_cons] using this
  rw [this, List.drop_left, List.take_left]

end parts

section cut
variable {α : Type}

theorem partAt_newPolyLine (ps : List (List (Pt α))) (i : Nat) (h : i < ps.length) :
    partAt (offsets 0 ps) ps.flatten i = .ok ps[i] := by
  have hs := offsets_getElem? ps 0 i h
  have hle1 := take_flatten_le ps (i + 1)
  have hsucc := take_succ_flatten ps i h
  have hdt := flatten_drop_take ps i h
  simp only [Nat.zero_add] at hs
  unfold partAt getStartEnd
  rw [hs, offsets_length]
  by_cases hlast : i + 1 = ps.length
  · have hall : (ps.take (i + 1)).flatten.length = ps.flatten.length := by
      rw [hlast, List.take_length]
    simp only [hlast, if_true]
    have e1 : ¬ (ps.flatten.length < (ps.take i).flatten.length) := by omega
    have e2 : ¬ ((ps.take i).flatten.length < ps.flatten.length ∧ ps.flatten.length < ps.flatten.length) := by omega
    simp only [e1, e2, if_false]
    have : ps.flatten.length - (ps.take i).flatten.length = ps[i].length := by omega
    rw [this, hdt]
  · have hi1 : i + 1 < ps.length := by omega
    have hs1 := offsets_getElem? ps 0 (i + 1) hi1
    simp only [Nat.zero_add] at hs1
    simp only [hlast, if_false, hs1]
    have e1 : ¬ ((ps.take (i + 1)).flatten.length < (ps.take i).flatten.length) := by omega
    have e2 : ¬ ((ps.take i).flatten.length < (ps.take (i + 1)).flatten.length ∧
        ps.flatten.length < (ps.take (i + 1)).flatten.length) := by omega
    simp only [e1, e2, if_false]
    have : (ps.take (i + 1)).flatten.length - (ps.take i).flatten.length = ps[i].length := by omega
    rw [this, hdt]

theorem cutParts_newPolyLine (ps : List (List (Pt α))) :
    cutParts (offsets 0 ps) ps.flatten = .ok ps := by
  unfold cutParts
  rw [offsets_length]
  exact mapM_range_ok ps _ (fun i h => partAt_newPolyLine ps i h)

theorem closeRing_eq_closed (eq : Pt α → Pt α → Bool) (r : List (Pt α)) :
    closeRing eq r = Spec.closed eq r := by
  cases r with
  | nil => simp [closeRing, Spec.closed, Spec.ringClosed]
  | cons p t =>
    cases hl : (p :: t).getLast? with
    | none => simp at hl
    | some q =>
      simp only [closeRing, Spec.closed, Spec.ringClosed, hl, List.head?_cons, List.take_succ_cons, List.take_zero]

end cut

/-! ## trimming of padded cells -/

theorem rtrim_all_cut (cut : UInt8 → Bool) (z : Bytes) (h : ∀ x ∈ z, cut x = true) : rtrim cut z = [] := by
  induction z with
  | nil => rfl
  | cons a z ih =>
    have hz := ih (fun x hx => h x (List.mem_cons_of_mem _ hx))
    simp [rtrim, hz, h a (by simp)]

theorem rtrim_append_cut (cut : UInt8 → Bool) (b z : Bytes) (h : ∀ x ∈ z, cut x = true) :
    rtrim cut (b ++ z) = rtrim cut b := by
  induction b with
  | nil => simp [rtrim_all_cut cut z h, rtrim]
  | cons a b ih => simp [rtrim, ih]

theorem rtrim_id (cut : UInt8 → Bool) (b : Bytes) (h : ∀ x, b.getLast? = some x → cut x = false) :
    rtrim cut b = b := by
  induction b with
  | nil => rfl
  | cons a b ih =>
    cases b with
    | nil => simp [rtrim, h a (by simp)]
    | cons c cs =>
      have := ih (fun x hx => h x (by simpa [List.getLast?_cons_cons] using hx))
      rw [rtrim, this]

theorem dropWhile_id (cut : UInt8 → Bool) (b : Bytes) (h : ∀ x, b.head? = some x → cut x = false) :
    b.dropWhile cut = b := by
  cases b with
  | nil => rfl
  | cons a b => simp [List.dropWhile, h a (by simp)]

theorem dropWhile_all (cut : UInt8 → Bool) (z : Bytes) (h : ∀ x ∈ z, cut x = true) : z.dropWhile cut = [] := by
  induction z with
  | nil => rfl
  | cons a z ih => simp [List.dropWhile, h a (by simp), ih (fun x hx => h x (List.mem_cons_of_mem _ hx))]

theorem getLast?_append_replicate (s : Bytes) (n : Nat) (c : UInt8) (x : UInt8)
    (h : (s ++ List.replicate n c).getLast? = some x) : (n ≠ 0 ∧ x = c) ∨ (n = 0 ∧ s.getLast? = some x) := by
  cases n with
  | zero => right; simpa using h
  | succ n =>
    left
    rw [List.replicate_succ', ← List.append_assoc, List.getLast?_append] at h
    simp at h
    exact ⟨by omega, h.symm⟩

/-- a text whose first byte is neither blank nor NUL and whose last byte is not NUL — and is not a blank
unless the text is shorter than the cell — survives `ReadAttribute` + `Trim("\x00")` unchanged -/
theorem strOf_cellOf (size : Nat) (s : Bytes) (hne : s ≠ [])
    (hh1 : s.head? ≠ some 32) (hh0 : s.head? ≠ some 0) (hl0 : s.getLast? ≠ some 0)
    (hl1 : s.getLast? = some 32 → s.length < size) : strOf (cellOf size s) = s := by
  obtain ⟨a, t, rfl⟩ := List.exists_cons_of_ne_nil hne
  have ha1 : a ≠ 32 := by simpa using hh1
  have ha0 : a ≠ 0 := by simpa using hh0
  have hz : ∀ x ∈ List.replicate (size - (a :: t).length) (0 : UInt8), isNul x = true := by
    intro x hx; simp [List.mem_replicate] at hx; simp [isNul, hx.2]
  have h1 : readAttribute (cellOf size (a :: t)) = cellOf size (a :: t) := by
    unfold readAttribute trim cellOf
    have hd : ((a :: t) ++ List.replicate (size - (a :: t).length) 0).dropWhile isSp
        = (a :: t) ++ List.replicate (size - (a :: t).length) 0 := by
      apply dropWhile_id; intro x hx; simp at hx; subst hx; simp [isSp, ha1]
    rw [hd]
    apply rtrim_id
    intro x hx
    rcases getLast?_append_replicate _ _ _ _ hx with ⟨_, rfl⟩ | ⟨hn, hx⟩
    · rfl
    · by_cases hx32 : x = 32
      · subst hx32; have := hl1 hx; omega
      · simp [isSp, hx32]
  unfold strOf
  rw [h1]
  unfold trim cellOf
  have hd : ((a :: t) ++ List.replicate (size - (a :: t).length) 0).dropWhile isNul
      = (a :: t) ++ List.replicate (size - (a :: t).length) 0 := by
    apply dropWhile_id; intro x hx; simp at hx; subst hx; simp [isNul, ha0]
  rw [hd, rtrim_append_cut _ _ _ hz]
  apply rtrim_id
  intro x hx
  have : x ≠ 0 := by intro h0; subst h0; exact hl0 hx
  simp [isNul, this]

theorem strOf_blank (size : Nat) : strOf (cellOf size []) = [] := by
  have hz : ∀ x ∈ List.replicate size (0 : UInt8), isNul x = true := by
    intro x hx; simp [List.mem_replicate] at hx; simp [isNul, hx.2]
  have h1 : readAttribute (cellOf size []) = List.replicate size 0 := by
    unfold readAttribute trim cellOf
    simp only [List.nil_append, List.length_nil, Nat.sub_zero]
    have hd : (List.replicate size (0 : UInt8)).dropWhile isSp = List.replicate size 0 := by
      apply dropWhile_id; intro x hx
      cases size with
      | zero => simp at hx
      | succ n => simp [List.replicate_succ] at hx; subst hx; rfl
    rw [hd]
    apply rtrim_id
    intro x hx
    have := getLast?_append_replicate [] size 0 x (by simpa using hx)
    rcases this with ⟨_, rfl⟩ | ⟨_, h⟩
    · rfl
    · simp at h
  unfold strOf
  rw [h1]
  unfold trim
  rw [dropWhile_all _ _ hz]
  rfl

/-- a text without blanks and NULs at its ends also survives `Trim("\x00 ")` (numeric struct fields) -/
theorem numText_cellOf (size : Nat) (s : Bytes) (hne : s ≠ [])
    (hh : ∀ x, s.head? = some x → x ≠ 32 ∧ x ≠ 0) (hl : ∀ x, s.getLast? = some x → x ≠ 32 ∧ x ≠ 0) :
    numText (cellOf size s) = s := by
  obtain ⟨a, t, rfl⟩ := List.exists_cons_of_ne_nil hne
  have ha := hh a (by simp)
  have hz : ∀ x ∈ List.replicate (size - (a :: t).length) (0 : UInt8), isNulSp x = true := by
    intro x hx; simp [List.mem_replicate] at hx; simp [isNulSp, hx.2]
  have h1 : readAttribute (cellOf size (a :: t)) = cellOf size (a :: t) := by
    unfold readAttribute trim cellOf
    have hd : ((a :: t) ++ List.replicate (size - (a :: t).length) 0).dropWhile isSp
        = (a :: t) ++ List.replicate (size - (a :: t).length) 0 := by
      apply dropWhile_id; intro x hx; simp at hx; subst hx; simp [isSp, ha.1]
    rw [hd]
    apply rtrim_id
    intro x hx
    rcases getLast?_append_replicate _ _ _ _ hx with ⟨_, rfl⟩ | ⟨hn, hx⟩
    · rfl
    · simp [isSp, (hl x hx).1]
  unfold numText
  rw [h1]
  unfold trim cellOf
  have hd : ((a :: t) ++ List.replicate (size - (a :: t).length) 0).dropWhile isNulSp
      = (a :: t) ++ List.replicate (size - (a :: t).length) 0 := by
    apply dropWhile_id; intro x hx; simp at hx; subst hx; simp [isNulSp, ha.1, ha.2]
  rw [hd, rtrim_append_cut _ _ _ hz]
  apply rtrim_id
  intro x hx
  simp [isNulSp, (hl x hx).1, (hl x hx).2]

/-! ## decimal digits -/

theorem digitByte_props : ∀ k, k < 10 →
    isDigitB (digitByte k) = true ∧ (digitByte k).toNat - 48 = k := by
  decide

theorem digit_facts (c : UInt8) (h : isDigitB c = true) : c ≠ 45 ∧ c ≠ 43 ∧ c ≠ 32 ∧ c ≠ 0 ∧ c ≠ 46 := by
  refine ⟨?_, ?_, ?_, ?_, ?_⟩ <;> (intro hc; subst hc; revert h; decide)

theorem natDigits_all (n : Nat) : ∀ c ∈ natDigits n, isDigitB c = true := by
  induction n using natDigits.induct with
  | case1 n h =>
    rw [natDigits]; simp [h]
    exact (digitByte_props n h).1
  | case2 n h ih =>
    rw [natDigits]; simp [h]
    intro c hc
    rcases hc with hc | rfl
    · exact ih c hc
    · exact (digitByte_props (n % 10) (Nat.mod_lt _ (by decide))).1

theorem natDigits_ne_nil (n : Nat) : natDigits n ≠ [] := by
  rw [natDigits]; split <;> simp

theorem digitsValB_append (a : Bytes) (c : UInt8) :
    digitsValB (a ++ [c]) = digitsValB a * 10 + (c.toNat - 48) := by
  simp [digitsValB, List.foldl_append]

theorem digitsValB_natDigits (n : Nat) : digitsValB (natDigits n) = n := by
  induction n using natDigits.induct with
  | case1 n h =>
    rw [natDigits]; simp [h, digitsValB, (digitByte_props n h).2]
  | case2 n h ih =>
    rw [natDigits]; simp only [h, dite_false]
    rw [digitsValB_append, ih, (digitByte_props (n % 10) (Nat.mod_lt _ (by decide))).2]
    omega

theorem natDigits_cons (n : Nat) : ∃ c cs, natDigits n = c :: cs ∧ isDigitB c = true := by
  cases h : natDigits n with
  | nil => exact absurd h (natDigits_ne_nil n)
  | cons c cs => exact ⟨c, cs, rfl, natDigits_all n c (by rw [h]; simp)⟩

theorem all_isDigitB (n : Nat) : (natDigits n).all isDigitB = true := by
  rw [List.all_eq_true]; exact natDigits_all n

/-- `ParseInt(Itoa(i))` for every Go `int` -/
theorem parseInt_fmtInt (i : Int) (h1 : -(2 ^ 63 : Int) ≤ i) (h2 : i < 2 ^ 63) : parseInt (fmtInt i) = some i := by
  by_cases hneg : i < 0
  · have hn : i.natAbs ≤ 2 ^ 63 := by omega
    have he : (natDigits i.natAbs).isEmpty = false := by
      cases h : natDigits i.natAbs with
      | nil => exact absurd h (natDigits_ne_nil _)
      | cons _ _ => rfl
    simp only [fmtInt, hneg, if_true, parseInt, takeSignB, he, all_isDigitB, digitsValB_natDigits, hn]
    simp
    omega
  · obtain ⟨c, cs, hc, hd⟩ := natDigits_cons i.natAbs
    have hf := digit_facts c hd
    have hn : i.natAbs < 2 ^ 63 := by omega
    have hall := all_isDigitB i.natAbs
    have hval := digitsValB_natDigits i.natAbs
    rw [hc] at hall hval
    have hsplit : takeSignB (c :: cs) = (false, c :: cs) := by
      unfold takeSignB
      split
      · rename_i heq; simp at heq; exact absurd heq.1 hf.1
      · rename_i heq; simp at heq; exact absurd heq.1 hf.2.1
      · rfl
    simp only [fmtInt, hneg, if_false, parseInt, hc]
    rw [hsplit]
    simp only [hall, hval, hn]
    simp
    omega

/-! ### what `Trim` can never return, and how much it removes (for the converse of `C16_string`) -/

theorem rtrim_length_le (cut : UInt8 → Bool) : ∀ l : Bytes, (rtrim cut l).length ≤ l.length
  | [] => by simp [rtrim]
  | a :: t => by
    have := rtrim_length_le cut t
    rw [rtrim]
    split
    · split <;> simp
    · rename_i h; simp only [List.length_cons]; omega

theorem dropWhile_length_le (cut : UInt8 → Bool) : ∀ l : Bytes, (l.dropWhile cut).length ≤ l.length
  | [] => by simp
  | a :: t => by
    have := dropWhile_length_le cut t
    by_cases ha : cut a = true
    · rw [List.dropWhile_cons_of_pos ha]; simp only [List.length_cons]; omega
    · rw [List.dropWhile_cons_of_neg ha]; exact Nat.le_refl _

theorem trim_length_le (cut : UInt8 → Bool) (l : Bytes) : (trim cut l).length ≤ l.length := by
  unfold trim
  exact Nat.le_trans (rtrim_length_le cut _) (dropWhile_length_le cut l)

theorem rtrim_getLast (cut : UInt8 → Bool) : ∀ (l : Bytes) (x : UInt8), (rtrim cut l).getLast? = some x → cut x = false
  | [], x, h => by simp [rtrim] at h
  | a :: t, x, h => by
    rw [rtrim] at h
    cases hr : rtrim cut t with
    | nil =>
      rw [hr] at h
      by_cases ha : cut a = true
      · simp [ha] at h
      · simp [ha] at h; subst h; simpa using ha
    | cons b r =>
      rw [hr] at h
      simp only [List.getLast?_cons_cons] at h
      exact rtrim_getLast cut t x (by rw [hr]; exact h)

theorem rtrim_head (cut : UInt8 → Bool) (l : Bytes) : rtrim cut l = [] ∨ (rtrim cut l).head? = l.head? := by
  cases l with
  | nil => left; rfl
  | cons a t =>
    rw [rtrim]
    cases hr : rtrim cut t with
    | nil => by_cases ha : cut a = true <;> simp [ha]
    | cons b r => right; rfl

theorem dropWhile_head (cut : UInt8 → Bool) : ∀ (l : Bytes) (x : UInt8), (l.dropWhile cut).head? = some x → cut x = false
  | [], x, h => by simp at h
  | a :: t, x, h => by
    by_cases ha : cut a = true
    · rw [List.dropWhile_cons_of_pos ha] at h; exact dropWhile_head cut t x h
    · rw [List.dropWhile_cons_of_neg ha] at h; simp at h; subst h; simpa using ha

theorem trim_head (cut : UInt8 → Bool) (l : Bytes) (x : UInt8) (h : (trim cut l).head? = some x) : cut x = false := by
  unfold trim at h
  rcases rtrim_head cut (l.dropWhile cut) with h0 | h1
  · rw [h0] at h; simp at h
  · rw [h1] at h; exact dropWhile_head cut l x h

theorem trim_getLast (cut : UInt8 → Bool) (l : Bytes) (x : UInt8) (h : (trim cut l).getLast? = some x) : cut x = false :=
  rtrim_getLast cut _ x h

theorem rtrim_length_lt (cut : UInt8 → Bool) : ∀ (l : Bytes) (x : UInt8), l.getLast? = some x → cut x = true →
    (rtrim cut l).length < l.length
  | [], x, h, _ => by simp at h
  | [a], x, h, hc => by simp at h; subst h; simp [rtrim, hc]
  | a :: b :: t, x, h, hc => by
    have := rtrim_length_lt cut (b :: t) x (by simpa [List.getLast?_cons_cons] using h) hc
    rw [rtrim]
    split
    · split <;> simp
    · simp only [List.length_cons] at this ⊢; omega

theorem dropWhile_getLast? (cut : UInt8 → Bool) : ∀ (l : Bytes), l.dropWhile cut ≠ [] → (l.dropWhile cut).getLast? = l.getLast?
  | [], h => by simp at h
  | a :: t, h => by
    by_cases ha : cut a = true
    · rw [List.dropWhile_cons_of_pos ha] at h ⊢
      have ih := dropWhile_getLast? cut t h
      rw [ih]
      cases t with
      | nil => simp at h
      | cons b u => simp [List.getLast?_cons_cons]
    · rw [List.dropWhile_cons_of_neg ha]

/-- `dropWhile` runs into the padding only when the text is used up, and stops at its first byte -/
theorem dropWhile_append_stop (cut : UInt8 → Bool) (z : Bytes) (hz : ∀ x, z.head? = some x → cut x = false) :
    ∀ s : Bytes, (s ++ z).dropWhile cut = s.dropWhile cut ++ z
  | [] => by simpa using dropWhile_id cut z hz
  | a :: t => by
    by_cases ha : cut a = true
    · simp only [List.cons_append, List.dropWhile_cons_of_pos ha]; exact dropWhile_append_stop cut z hz t
    · simp only [List.cons_append, List.dropWhile_cons_of_neg ha]

/-- trimming a text followed by padding from the cut set never yields more than the text -/
theorem trim_append_cut_length (cut : UInt8 → Bool) (z : Bytes) (hz : ∀ x ∈ z, cut x = true) :
    ∀ u : Bytes, (trim cut (u ++ z)).length ≤ u.length
  | [] => by simp [trim, dropWhile_all cut z hz, rtrim]
  | a :: t => by
    by_cases ha : cut a = true
    · have := trim_append_cut_length cut z hz t
      unfold trim at this ⊢
      simp only [List.cons_append, List.dropWhile_cons_of_pos ha, List.length_cons]
      omega
    · unfold trim
      simp only [List.cons_append, List.dropWhile_cons_of_neg ha]
      rw [← List.cons_append, rtrim_append_cut cut _ z hz]
      exact rtrim_length_le cut _

theorem mem_of_head? {l : Bytes} {x : UInt8} (h : l.head? = some x) : x ∈ l := by
  cases l <;> simp_all

theorem mem_of_getLast? {l : Bytes} {x : UInt8} (h : l.getLast? = some x) : x ∈ l := by
  induction l with
  | nil => simp at h
  | cons a t ih =>
    cases t with
    | nil => simp_all
    | cons b u =>
      simp only [List.getLast?_cons_cons] at h
      exact List.mem_cons_of_mem _ (ih h)

theorem natDigits_length_le (k : Nat) : ∀ n, n < 10 ^ (k + 1) → (natDigits n).length ≤ k + 1 := by
  induction k with
  | zero => intro n h; rw [natDigits]; simp at h; simp [h]
  | succ k ih =>
    intro n h
    rw [natDigits]
    split
    · simp
    · have : n / 10 < 10 ^ (k + 1) := by
        apply Nat.div_lt_of_lt_mul
        rw [Nat.pow_succ] at h; omega
      have := ih (n / 10) this
      simp; omega

/-- every byte of `Itoa(i)` is a digit or the minus sign -/
theorem fmtInt_solid (i : Int) : ∀ x ∈ fmtInt i, x ≠ 32 ∧ x ≠ 0 := by
  intro x hx
  unfold fmtInt at hx
  split at hx
  · rcases List.mem_cons.mp hx with rfl | hx
    · decide
    · have := digit_facts x (natDigits_all _ x hx); exact ⟨this.2.2.1, this.2.2.2.1⟩
  · have := digit_facts x (natDigits_all _ x hx); exact ⟨this.2.2.1, this.2.2.2.1⟩

theorem fmtInt_ne_nil (i : Int) : fmtInt i ≠ [] := by
  unfold fmtInt; split
  · simp
  · exact natDigits_ne_nil _

/-! ## `getFieldIndices`: the last column with a key wins -/

/-- `c` is the last position of `k` in `keys` -/
def IsLast (keys : List Bytes) (k : Bytes) (c : Nat) : Prop :=
  keys[c]? = some k ∧ ∀ c', c < c' → keys[c']? ≠ some k

theorem lastIdx_go_spec (k : Bytes) : ∀ (xs : List Bytes) (i : Nat) (acc : Option Nat) (c : Nat),
    lastIdx.go k xs i acc = some c ↔
      (∃ j, c = i + j ∧ IsLast xs k j) ∨ (acc = some c ∧ ∀ j : Nat, xs[j]? ≠ some k) := by
  intro xs
  induction xs with
  | nil => intro i acc c; simp [lastIdx.go, IsLast]
  | cons x xs ih =>
    intro i acc c
    rw [lastIdx.go, ih]
    constructor
    · rintro (⟨j, rfl, hj1, hj2⟩ | ⟨hacc, hno⟩)
      · left
        refine ⟨j + 1, by omega, by simpa using hj1, ?_⟩
        intro c' hc'
        cases c' with
        | zero => omega
        | succ c' => simpa using hj2 c' (by omega)
      · by_cases hx : x = k
        · left
          simp [hx] at hacc
          refine ⟨0, by omega, by simp [hx], ?_⟩
          intro c' hc'
          cases c' with
          | zero => omega
          | succ c' => simpa using hno c'
        · right
          simp [hx] at hacc
          refine ⟨hacc, ?_⟩
          intro j
          cases j with
          | zero => simp [hx]
          | succ j => simpa using hno j
    · rintro (⟨j, rfl, hj1, hj2⟩ | ⟨hacc, hno⟩)
      · cases j with
        | zero =>
          right
          have hx : x = k := by simpa using hj1
          refine ⟨by simp [hx], ?_⟩
          intro j
          have := hj2 (j + 1) (by omega)
          simpa using this
        | succ j =>
          left
          refine ⟨j, by omega, by simpa using hj1, ?_⟩
          intro c' hc'
          have := hj2 (c' + 1) (by omega)
          simpa using this
      · right
        have h0 := hno 0
        have hx : x ≠ k := by simpa using h0
        refine ⟨by simp [hx, hacc], ?_⟩
        intro j
        have := hno (j + 1)
        simpa using this

theorem lastIdx_spec (keys : List Bytes) (k : Bytes) (c : Nat) : lastIdx keys k = some c ↔ IsLast keys k c := by
  unfold lastIdx
  rw [lastIdx_go_spec]
  simp

theorem lastIdx_go_none (k : Bytes) : ∀ (xs : List Bytes) (i : Nat) (acc : Option Nat),
    lastIdx.go k xs i acc = none ↔ (acc = none ∧ ∀ j : Nat, xs[j]? ≠ some k) := by
  intro xs
  induction xs with
  | nil => intro i acc; simp [lastIdx.go]
  | cons x xs ih =>
    intro i acc
    rw [lastIdx.go, ih]
    constructor
    · rintro ⟨hacc, hno⟩
      by_cases hx : x = k
      · simp [hx] at hacc
      · simp [hx] at hacc
        refine ⟨hacc, ?_⟩
        intro j
        cases j with
        | zero => simp [hx]
        | succ j => simpa using hno j
    · rintro ⟨hacc, hno⟩
      have hx : x ≠ k := by simpa using hno 0
      refine ⟨by simp [hx, hacc], ?_⟩
      intro j
      simpa using hno (j + 1)

theorem lastIdx_none (keys : List Bytes) (k : Bytes) : lastIdx keys k = none ↔ ∀ j : Nat, keys[j]? ≠ some k := by
  unfold lastIdx
  rw [lastIdx_go_none]
  simp

end GeomV.C16
