import GeomV.C16.Model
/-!
# C16 — byte layout of the `.shp` / `.shx` / `.dbf` files as go-shp writes and reads them

Transcribed from `github.com/jonas-p/go-shp v0.1.2-0.20190401125246-9fd306ae10a6` (the module whose content hash
the harness checks at run time): `writer.go` (`Create`, `SetFields`, `Write`, `writeEmptyRecord`,
`WriteAttribute`, `Close`, `writeHeader`, `writeDbfHeader`), `shapefile.go` (`Box.Extend/ExtendWithPoint`,
`BBoxFromPoints`, `NewPolyLine`, the `write`/`read` methods of `Null`, `Point`, `PolyLine`, `Polygon`,
`MultiPoint`, `Field`), `reader.go` (`readHeaders`, `Next`, `openDbf`, `Fields`, `ReadAttribute`), together with
the byte-level part of `/repo/encoding/shp`: `geom2Shp` incl. the stored `Box` (`geom2multiPoint` uses
`geom.MultiPoint.Bounds()`, i.e. `math.Min/Max` from `(+Inf, -Inf)`), `Encoder.Encode/EncodeFields` with the
encoder's own cursor `e.row`.

Core Lean only (the driver links it). The model is TIED to the real code by comparing, for every case of a run,
the three byte strings computed here with the bytes of the real temporary files after `Encoder.Close()`
(`bytes-…` verdicts of the judge), and PROVED to implement the row-store contract `FileM` of `Model.lean`
(`LayoutProofs.lean`).

What is modelled operationally and what functionally:
* `.dbf`: every write is a positioned write (`Seek(off, SeekStart)` / `Seek(0, SeekEnd)` followed by `Write`), so
  the file is a byte string and each operation is `writeAt` — including the writes past the end of the file that
  the original ordering defect of `Encode` produced.
* `.shp`/`.shx`: `Writer.Write` appends `[num BE][length BE][file's shape type LE][content]` resp.
  `[offset BE][length BE]` (the seeks inside `Write` only patch the length word of the record being appended);
  `Close` puts the 100-byte header in front. The model keeps the appended records and builds the file at `close`.
* widths: `dbfHeaderLength`/`dbfRecordLength` are `int16`, counters `int32` in go-shp; the model uses `Nat` (the
  standing assumption of the check: fewer than 2^15 bytes per attribute row, fewer than 2^31 points/records).
-/
namespace GeomV.C16.Layout
open GeomV GeomV.C16

/-! ## integers and floats as bytes (`encoding/binary`) -/

def zeros (n : Nat) : Bytes := List.replicate n 0

def le16 (n : Nat) : Bytes := [UInt8.ofNat (n % 256), UInt8.ofNat (n / 256 % 256)]
def le32 (n : Nat) : Bytes :=
  [UInt8.ofNat (n % 256), UInt8.ofNat (n / 256 % 256), UInt8.ofNat (n / 65536 % 256), UInt8.ofNat (n / 16777216 % 256)]
def be32 (n : Nat) : Bytes :=
  [UInt8.ofNat (n / 16777216 % 256), UInt8.ofNat (n / 65536 % 256), UInt8.ofNat (n / 256 % 256), UInt8.ofNat (n % 256)]
/-- `math.Float64bits` little endian -/
def le64 (u : UInt64) : Bytes := le32 (u.toNat % 4294967296) ++ le32 (u.toNat / 4294967296)

/-- little-endian value of a byte string -/
def rdLe : Bytes → Nat
  | [] => 0
  | c :: r => c.toNat + 256 * rdLe r
/-- big-endian value of a byte string -/
def rdBe (b : Bytes) : Nat := rdLe b.reverse

/-! ## boxes (float comparisons on bit patterns) -/

structure Box where
  minX : UInt64
  minY : UInt64
  maxX : UInt64
  maxY : UInt64
deriving Repr, DecidableEq, Inhabited

def fneg (u : UInt64) : Bool := u.toNat / 2 ^ 63 == 1
/-- order-preserving key of a non-NaN double (`-0` and `+0` share key 0) -/
def fkey (u : UInt64) : Int := if fneg u then -((u.toNat % 2 ^ 63 : Nat) : Int) else ((u.toNat % 2 ^ 63 : Nat) : Int)
/-- Go `a < b` on float64 -/
def fLt (a b : UInt64) : Bool := !isNaNBits a && !isNaNBits b && decide (fkey a < fkey b)

def posInf : UInt64 := 0x7FF0000000000000
def negInf : UInt64 := 0xFFF0000000000000
/-- `math.NaN()` -/
def nanC : UInt64 := 0x7FF8000000000001

/-- `math.Min` -/
def fmin (x y : UInt64) : UInt64 :=
  if x == negInf || y == negInf then negInf
  else if isNaNBits x || isNaNBits y then nanC
  else if isZeroBits x && isZeroBits y then (if fneg x then x else y)
  else if fLt x y then x else y
/-- `math.Max` -/
def fmax (x y : UInt64) : UInt64 :=
  if x == posInf || y == posInf then posInf
  else if isNaNBits x || isNaNBits y then nanC
  else if isZeroBits x && isZeroBits y then (if fneg x then y else x)
  else if fLt y x then x else y

/-- go-shp `Box.ExtendWithPoint` -/
def extendPt (b : Box) (p : Pt UInt64) : Box :=
  { minX := if fLt p.x b.minX then p.x else b.minX
    minY := if fLt p.y b.minY then p.y else b.minY
    maxX := if fLt b.maxX p.x then p.x else b.maxX
    maxY := if fLt b.maxY p.y then p.y else b.maxY }
/-- go-shp `Box.Extend` -/
def extendBox (b c : Box) : Box := extendPt (extendPt b ⟨c.minX, c.minY⟩) ⟨c.maxX, c.maxY⟩
/-- go-shp `BBoxFromPoints` (the zero box for no points) -/
def bboxFromPoints : List (Pt UInt64) → Box
  | [] => ⟨0, 0, 0, 0⟩
  | p :: ps => ps.foldl extendPt ⟨p.x, p.y, p.x, p.y⟩
/-- `bounds2box(g)` for a `geom.MultiPoint`: `NewBounds()` then `extendPoint` (`math.Min`/`math.Max`) per point -/
def mpBox (ps : List (Pt UInt64)) : Box :=
  ps.foldl (fun b p => ⟨fmin b.minX p.x, fmin b.minY p.y, fmax b.maxX p.x, fmax b.maxY p.y⟩) ⟨posInf, posInf, negInf, negInf⟩

/-! ## shapes as go-shp holds them (with the stored `Box`; `NumParts`/`NumPoints` are the lengths) -/

inductive BShape where
  | null
  | point (p : Pt UInt64)
  | polyLine (box : Box) (parts : List Nat) (points : List (Pt UInt64))
  | polygon (box : Box) (parts : List Nat) (points : List (Pt UInt64))
  | multiPoint (box : Box) (points : List (Pt UInt64))
deriving Repr, Inhabited

/-- what `shp2Geom` looks at -/
def BShape.toShape : BShape → Shape UInt64
  | .null => .null
  | .point p => .point p
  | .polyLine _ parts pts => .polyLine parts pts
  | .polygon _ parts pts => .polygon parts pts
  | .multiPoint _ pts => .multiPoint pts

/-- `shape.BBox()` (recomputed from the points; NOT the stored box) -/
def BShape.bbox : BShape → Box
  | .null => ⟨0, 0, 0, 0⟩
  | .point p => ⟨p.x, p.y, p.x, p.y⟩
  | .polyLine _ _ pts => bboxFromPoints pts
  | .polygon _ _ pts => bboxFromPoints pts
  | .multiPoint _ pts => bboxFromPoints pts

/-- the shape type a shape has on its own (`newShape` of the reader maps it back) -/
def BShape.typ : BShape → Nat
  | .null => 0 | .point _ => 1 | .polyLine _ _ _ => 3 | .polygon _ _ _ => 5 | .multiPoint _ _ => 8

/-- go-shp `NewPolyLine(parts)` with its stored box -/
def newPolyLineB (parts : List (List (Pt UInt64))) : Box × List Nat × List (Pt UInt64) :=
  (bboxFromPoints parts.flatten, offsets 0 parts, parts.flatten)

/-- `geom2Shp` down to the stored box -/
def geom2ShpB : Geom UInt64 → Except Fault BShape
  | .nil => .ok .null
  | .point p => .ok (.point p)
  | .polygon rs => let pl := newPolyLineB (rs.map (closeRing ptEqBits)); .ok (.polygon pl.1 pl.2.1 pl.2.2)
  | .bounds mn mx => let pl := newPolyLineB [rect mn mx]; .ok (.polygon pl.1 pl.2.1 pl.2.2)
  | .lineString l => let pl := newPolyLineB [l]; .ok (.polyLine pl.1 pl.2.1 pl.2.2)
  | .multiLineString ls => let pl := newPolyLineB ls; .ok (.polyLine pl.1 pl.2.1 pl.2.2)
  | .multiPoint ps => .ok (.multiPoint (mpBox ps) ps)
  | .multiPolygon _ => .error .unsupported
  | .collection _ => .error .unsupported

def fieldShapeB : GK → Geom UInt64 → Except Fault BShape
  | .B, .nil => .error .nilDeref
  | _, g => geom2ShpB g

/-! ## `.shp` records -/

def ptBytes (p : Pt UInt64) : Bytes := le64 p.x ++ le64 p.y
def boxBytes (b : Box) : Bytes := le64 b.minX ++ le64 b.minY ++ le64 b.maxX ++ le64 b.maxY

/-- `shape.write(file)` -/
def shapeBytes : BShape → Bytes
  | .null => []
  | .point p => ptBytes p
  | .polyLine box parts pts => boxBytes box ++ le32 parts.length ++ le32 pts.length ++ parts.flatMap le32 ++ pts.flatMap ptBytes
  | .polygon box parts pts => boxBytes box ++ le32 parts.length ++ le32 pts.length ++ parts.flatMap le32 ++ pts.flatMap ptBytes
  | .multiPoint box pts => boxBytes box ++ le32 pts.length ++ pts.flatMap ptBytes

/-- one record as `Writer.Write` leaves it: record number (1-based), content length in 16-bit words
(`floor((finish-start)/2)`), then the FILE's geometry type and the shape's content -/
def recordBytes (t num : Nat) (s : BShape) : Bytes :=
  be32 num ++ be32 ((4 + (shapeBytes s).length) / 2) ++ le32 t ++ shapeBytes s

/-- `writeHeader`: the 100-byte header of `.shp` and `.shx` -/
def mainHeader (fileLen t : Nat) (bbox : Box) : Bytes :=
  be32 9994 ++ zeros 20 ++ be32 (fileLen / 2) ++ le32 1000 ++ le32 t ++ boxBytes bbox ++ zeros 32

/-! ## `.dbf` -/

/-- `binary.Write(ws, LittleEndian, field)`: Name[11], Fieldtype, Addr[4], Size, Precision, Padding[14] -/
def fieldDesc (f : Field) : Bytes :=
  f.name ++ [UInt8.ofNat f.typ] ++ zeros 4 ++ [UInt8.ofNat f.size, UInt8.ofNat f.prec] ++ zeros 14

/-- `dbfHeaderLength = len(fields)*32 + 33` -/
def hdrLen (fs : List Field) : Nat := fs.length * 32 + 33
def sizeSum (fs : List Field) : Nat := (fs.map (·.size)).sum
/-- `dbfRecordLength = 1 + Σ Size` -/
def recLen (fs : List Field) : Nat := 1 + sizeSum fs

/-- `writeDbfHeader` -/
def dbfHeader (num : Nat) (fs : List Field) : Bytes :=
  [3, 24, 5, 3] ++ le32 num ++ le16 (hdrLen fs) ++ le16 (recLen fs) ++ zeros 20 ++ fs.flatMap fieldDesc ++ [13]

/-- a positioned write: `Seek(off, SeekStart)` then `Write(b)`; a gap past the end of the file reads as zeros -/
def writeAt (d : Bytes) (off : Nat) (b : Bytes) : Bytes :=
  let d' := d ++ zeros (off - d.length)
  d'.take off ++ b ++ d'.drop (off + b.length)

/-- `writeEmptyRecord`: `Seek(0, SeekEnd)`, then `dbfRecordLength` bytes, the first one a blank -/
def emptyRecord (fs : List Field) : Bytes := 32 :: zeros (sizeSum fs)

/-- `seekTo` of `WriteAttribute` and `ReadAttribute` -/
def cellOff (fs : List Field) (row field : Nat) : Nat := 1 + hdrLen fs + row * recLen fs + sizeSum (fs.take field)

/-! ## the writer (`shp.Writer` embedded in `shp.Encoder`) -/

structure BW where
  recs : Bytes      -- the `.shp` from offset 100 on
  idx : Bytes       -- the `.shx` from offset 100 on
  dbf : Bytes
  num : Nat         -- `Writer.num`
  bbox : Box
  row : Nat         -- `Encoder.row`
deriving Inhabited

/-- `Create` + `SetFields(fields)` as `NewEncoder`/`NewEncoderFromFields` call them (no shape written yet, so
`SetFields` writes no empty records): the `.dbf` is `dbfHeaderLength` zero bytes -/
def create (fs : List Field) : BW := ⟨[], [], zeros (hdrLen fs), 0, ⟨0, 0, 0, 0⟩, 0⟩

/-- `Writer.Write(shape)` -/
def write (t : Nat) (fs : List Field) (w : BW) (s : BShape) : BW :=
  let num := w.num + 1
  let r := recordBytes t num s
  { recs := w.recs ++ r
    idx := w.idx ++ be32 ((100 + w.recs.length) / 2) ++ be32 ((4 + (shapeBytes s).length) / 2)
    dbf := w.dbf ++ emptyRecord fs
    num := num
    bbox := if w.num = 0 then s.bbox else extendBox w.bbox s.bbox
    row := w.row }

inductive AttrRes where | ok | err | panic
deriving Repr, DecidableEq, Inhabited

/-- `Writer.WriteAttribute(row, field, value)`: index panic on `dbfFields[field]`, the length check, the write -/
def writeAttribute (fs : List Field) (dbf : Bytes) (row field : Nat) (v : Val) : Bytes × AttrRes :=
  match fs[field]? with
  | none => (dbf, .panic)
  | some f =>
    match writeAttr f v with
    | none => (dbf, .err)
    | some buf => (writeAt dbf (cellOff fs row field) buf, .ok)

/-- the attribute loop of `Encode`: `for i, j := range e.fieldIndices { if err := WriteAttribute(row, i, …) … return }`
(one value per column; a missing value leaves the cell as it is — the harness sets every field) -/
def attrsStrict (fs : List Field) (row : Nat) : Nat → List Val → Bytes → Bytes × Bool
  | _, [], dbf => (dbf, true)
  | i, v :: vs, dbf =>
    if i < fs.length then
      match writeAttribute fs dbf row i v with
      | (d, .ok) => attrsStrict fs row (i + 1) vs d
      | (d, _) => (d, false)
    else (dbf, true)

/-- the attribute loop of `EncodeFields`: errors ignored; a value beyond the last column panics -/
def attrsLenient (fs : List Field) (row : Nat) : Nat → List Val → Bytes → Bytes × Bool
  | _, [], dbf => (dbf, true)
  | i, v :: vs, dbf =>
    match writeAttribute fs dbf row i v with
    | (d, .panic) => (d, false)
    | (d, _) => attrsLenient fs row (i + 1) vs d

/-- one call on the encoder, `Encode` (`viaEncode`) or `EncodeFields`; `shape` is the result of `geom2Shp` -/
def encode (t : Nat) (fs : List Field) (w : BW) (viaEncode : Bool) (shape : Except Fault BShape) (vals : List Val) : BW × WRes :=
  match shape with
  | .error .nilDeref => (w, .panic)
  | .error _ => (w, .err)
  | .ok sh =>
    let w1 := write t fs w sh
    if viaEncode then
      -- `row := e.row; e.row++` before the attribute loop
      let r := attrsStrict fs w1.row 0 vals w1.dbf
      ({ w1 with dbf := r.1, row := w1.row + 1 }, if r.2 then .ok else .err)
    else
      let r := attrsLenient fs w1.row 0 vals w1.dbf
      ({ w1 with dbf := r.1, row := if r.2 then w1.row + 1 else w1.row }, if r.2 then .ok else .panic)

structure Files where
  shp : Bytes
  shx : Bytes
  dbf : Bytes
deriving Inhabited

/-- `Writer.Close()`: headers of `.shx` and `.shp` (`filelength == 0 → 100`), then the `.dbf` header over the
zero bytes `SetFields` reserved -/
def close (t : Nat) (fs : List Field) (w : BW) : Files :=
  { shp := mainHeader (100 + w.recs.length) t w.bbox ++ w.recs
    shx := mainHeader (100 + w.idx.length) t w.bbox ++ w.idx
    dbf := writeAt w.dbf 0 (dbfHeader w.num fs) }

/-! ## the `.dbf` in closed form -/

/-- an attribute row as it lies in the `.dbf`: the deletion flag (a blank) and the cells -/
def rowBytes (cells : List Bytes) : Bytes := 32 :: cells.flatten

/-- the `.dbf` after `Close()` in closed form: header, then the rows (`LayoutProofs.lean` shows that the
positioned writes of the writer produce it, record by record) -/
def dbfOf (num : Nat) (fs : List Field) (rows : List (List Bytes)) : Bytes :=
  dbfHeader num fs ++ (rows.map rowBytes).flatten

/-! ## the reader (`shp.Reader` embedded in `shp.Decoder`) -/

def rdU32s : Nat → Bytes → Option (List Nat × Bytes)
  | 0, b => some ([], b)
  | n + 1, b0 :: b1 :: b2 :: b3 :: r =>
    match rdU32s n r with
    | some (xs, r') => some (rdLe [b0, b1, b2, b3] :: xs, r')
    | none => none
  | _ + 1, _ => none

def rdU64 : Bytes → Option (UInt64 × Bytes)
  | b0 :: b1 :: b2 :: b3 :: b4 :: b5 :: b6 :: b7 :: r => some (UInt64.ofNat (rdLe [b0, b1, b2, b3, b4, b5, b6, b7]), r)
  | _ => none

def rdPt (b : Bytes) : Option (Pt UInt64 × Bytes) :=
  match rdU64 b with
  | some (x, r) => (match rdU64 r with | some (y, r') => some (⟨x, y⟩, r') | none => none)
  | none => none

def rdPts : Nat → Bytes → Option (List (Pt UInt64) × Bytes)
  | 0, b => some ([], b)
  | n + 1, b => match rdPt b with
    | some (p, r) => (match rdPts n r with | some (ps, r') => some (p :: ps, r') | none => none)
    | none => none

/-- `binary.Read` of a fixed number of bytes: `none` on a short read -/
def splitAt? (n : Nat) (b : Bytes) : Option (Bytes × Bytes) :=
  if b.length < n then none else some (b.take n, b.drop n)

/-- `newShape(shapetype)` + `shape.read(er)` for the 2-D types: the sequence of `binary.Read` calls (`none`:
unsupported type or short read, which `Next` turns into an error and `false`). Counts are read as unsigned (a
written file has them below 2^31). -/
def parseShape (typ : Nat) (b : Bytes) : Option (Shape UInt64) :=
  if typ = 0 then some .null
  else if typ = 1 then (rdPt b).map fun x => .point x.1
  else if typ = 3 ∨ typ = 5 then
    match splitAt? 32 b with                    -- Box
    | none => none
    | some (_, r0) =>
      match splitAt? 4 r0 with                  -- NumParts
      | none => none
      | some (np, r1) =>
        match splitAt? 4 r1 with                -- NumPoints
        | none => none
        | some (n, r2) =>
          match rdU32s (rdLe np) r2 with        -- Parts
          | none => none
          | some (parts, r3) =>
            match rdPts (rdLe n) r3 with        -- Points
            | none => none
            | some (pts, _) => some (if typ = 3 then .polyLine parts pts else .polygon parts pts)
  else if typ = 8 then
    match splitAt? 32 b with
    | none => none
    | some (_, r0) =>
      match splitAt? 4 r0 with
      | none => none
      | some (n, r1) => (rdPts (rdLe n) r1).map fun x => .multiPoint x.1
  else none

/-- repeated `Reader.Next()` from file position `cur` until `cur >= filelength`: the shapes in file order.
Each step reads number, size (big endian) and the record's own shape type, the shape, and seeks to
`size*2 + cur + 8`. -/
def readShapes (data : Bytes) (cur : Nat) : Option (List (Shape UInt64)) :=
  if _h : cur ≥ data.length then some []
  else
    match splitAt? 4 (data.drop cur) with       -- record number
    | none => none
    | some (_, r0) =>
      match splitAt? 4 r0 with                  -- content length
      | none => none
      | some (size, r1) =>
        match splitAt? 4 r1 with                -- shape type
        | none => none
        | some (typ, r2) =>
          match parseShape (rdLe typ) r2 with
          | none => none
          | some s =>
            match readShapes data (rdBe size * 2 + cur + 8) with
            | some ss => some (s :: ss)
            | none => none
termination_by data.length - cur
decreasing_by omega

def rdField (b : Bytes) : Field :=
  ⟨b.take 11, ((b.drop 11).headD 0).toNat, ((b.drop 16).headD 0).toNat, ((b.drop 17).headD 0).toNat⟩

def rdFields : Nat → Bytes → List Field
  | 0, _ => []
  | n + 1, b => rdField (b.take 32) :: rdFields n (b.drop 32)

/-- what `openDbf` keeps: `dbfHeaderLength`, `dbfRecordLength` and the field descriptors
(`numFields = floor((dbfHeaderLength-33)/32)`) -/
structure DbfInfo where
  hdr : Nat
  recl : Nat
  fields : List Field
deriving Inhabited

def openDbf (dbf : Bytes) : DbfInfo :=
  let hdr := rdLe ((dbf.drop 8).take 2)
  let recl := rdLe ((dbf.drop 10).take 2)
  ⟨hdr, recl, rdFields ((hdr - 33) / 32) (dbf.drop 32)⟩

/-- the bytes `ReadAttribute(row, field)` reads before trimming (a short read leaves zeros in `buf`) -/
def rawCell (dbf : Bytes) (info : DbfInfo) (row field : Nat) : Bytes :=
  let off := 1 + info.hdr + row * info.recl + ((info.fields.take field).map (·.size)).sum
  let size := match info.fields[field]? with | some f => f.size | none => 0
  let got := (dbf.drop off).take size
  got ++ zeros (size - got.length)

/-- everything the Decoder can get out of the two files: the shapes in `Next` order, the field list, and for
record `i` the cells of attribute row `i` -/
def fileOfBytes (shp dbf : Bytes) : Option (FileM UInt64) :=
  match readShapes shp 100 with
  | none => none
  | some shapes =>
    let info := openDbf dbf
    some ⟨rdLe ((shp.drop 32).take 4), info.fields,
      shapes.zipIdx.map fun si => (si.1, (List.range info.fields.length).map (rawCell dbf info si.2))⟩

end GeomV.C16.Layout
