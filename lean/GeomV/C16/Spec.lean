import GeomV.Common.Geom
/-!
# C16 — specification (reads like the property statement; independent of the model)

"Records written through the shapefile Encoder (struct-based or field-based) and read back through the
Decoder come back in the same order and number, with bit-identical coordinates: points, multi-points,
(multi-)line strings part by part, polygons ring by ring with vertex order preserved and unclosed rings
closed, boxes as five-vertex rectangles; integer attributes are equal, NUL-free strings up to 50 bytes are
equal and floats agree to 10 decimal places, matched to struct fields by tag or name case-insensitively."
-/
namespace GeomV.C16.Spec
open GeomV

abbrev Bytes := List UInt8

section geometry
variable {α : Type}

/-- a ring is closed when it is empty or its last vertex equals its first (`eq` is the library's
`Point.Equals`, i.e. float `==`: `-0 = +0`, `NaN ≠ NaN`) -/
def ringClosed (eq : Pt α → Pt α → Bool) (r : List (Pt α)) : Bool :=
  match r.head?, r.getLast? with
  | some a, some b => eq a b
  | _, _ => true

/-- "unclosed rings closed": by repeating the first vertex; vertex order otherwise untouched -/
def closed (eq : Pt α → Pt α → Bool) (r : List (Pt α)) : List (Pt α) :=
  if ringClosed eq r then r else r ++ r.take 1

/-- what a written geometry reads back as; `none`: not a supported geometry type -/
def normal (eq : Pt α → Pt α → Bool) : Geom α → Option (Geom α)
  | .point p => some (.point p)                                   -- points
  | .multiPoint ps => some (.multiPoint ps)                       -- multi-points
  | .lineString l => some (.multiLineString [l])                  -- a line string is a one-part multi-line string
  | .multiLineString ls => some (.multiLineString ls)             -- part by part (empty parts included)
  | .polygon rs => some (.polygon (rs.map (closed eq)))           -- ring by ring, order preserved, rings closed
  | .bounds mn mx => some (.polygon [[mn, ⟨mx.x, mn.y⟩, mx, ⟨mn.x, mx.y⟩, mn]])   -- five-vertex rectangle
  | .nil => some .nil                                             -- no geometry ↦ Null shape ↦ no geometry
  | .multiPolygon _ => none
  | .collection _ => none

end geometry

/-! ## attributes -/

/-- an integer whose decimal rendering fits `w` characters (sign included) -/
def intFits (w : Nat) (i : Int) : Bool :=
  if i < 0 then decide (i.natAbs < 10 ^ (w - 1)) && decide (1 ≤ w) else decide (i.natAbs < 10 ^ w)

/-- "NUL-free strings up to 50 bytes" (up to the column width in general) -/
def strInContract (w : Nat) (s : Bytes) : Bool := decide (s.length ≤ w) && !s.contains 0

/-- the finite value `x` certainly renders with `p` decimals within `w` characters:
`|x| + 1 < 10^k` with `k` integer digits available -/
def floatFits (w p : Nat) (x : Rat) : Bool :=
  let frac := if p = 0 then 0 else p + 1
  let sign := if x < 0 then 1 else 0
  let k := w - frac - sign
  decide (frac + sign < w) && decide ((if x < 0 then -x else x) + 1 < (10 ^ k : Nat))

/-- "agree to p decimal places" -/
def floatClose (p : Nat) (x y : Rat) : Bool :=
  let d := if x < y then y - x else x - y
  decide (d ≤ 1 / (10 ^ p : Nat))

def isDigit (b : UInt8) : Bool := 48 ≤ b && b ≤ 57
def digitsVal (ds : Bytes) : Nat := ds.foldl (fun a c => a * 10 + (c.toNat - 48)) 0

/-- value of a plain decimal text `[-]digits[.digits]` (what a field-based reader receives) -/
def decText (s : Bytes) : Option Rat :=
  let (neg, s) : Bool × Bytes := match s with | 45 :: r => (true, r) | _ => (false, s)
  let ip := s.takeWhile isDigit
  let rest := s.dropWhile isDigit
  let fp : Option Bytes := match rest with
    | [] => some []
    | 46 :: r => if r.all isDigit then some r else none
    | _ => none
  match fp with
  | none => none
  | some fp =>
    if ip.isEmpty then none else
    let v : Rat := (digitsVal (ip ++ fp) : Nat) / (10 ^ fp.length : Nat)
    some (if neg then -v else v)

/-- value of an integer text `[-]digits` -/
def intText (s : Bytes) : Option Int :=
  let (neg, d) : Bool × Bytes := match s with | 45 :: r => (true, r) | _ => (false, s)
  if d.isEmpty || !d.all isDigit then none
  else some (if neg then -(digitsVal d : Int) else (digitsVal d : Int))

/-! ## matching "by tag or name case-insensitively" -/

def lowerB (c : UInt8) : UInt8 := if 65 ≤ c && c ≤ 90 then c + 32 else c
def lower (b : Bytes) : Bytes := b.map lowerB
def sameName (a b : Bytes) : Bool := lower a == lower b

def indicesOf (cols : List Bytes) (n : Bytes) : List Nat :=
  (List.range cols.length).filter fun i => match cols[i]? with | some c => sameName c n | none => false

/-- the column a struct field receives: the one whose name equals the tag, else the one whose name
equals the field name (case-insensitively). `none`: no column; `some none`: the statement does not
decide (several columns carry that name). -/
def columnFor (cols : List Bytes) (tag name : Bytes) : Option (Option Nat) :=
  match (if tag.isEmpty then [] else indicesOf cols tag) with
  | [c] => some (some c)
  | _ :: _ :: _ => some none
  | [] =>
    match indicesOf cols name with
    | [c] => some (some c)
    | _ :: _ :: _ => some none
    | [] => none

/-- column names the file holds unchanged: 1–11 bytes (go-shp's `Field.Name [11]byte` is filled completely by an
11-byte name, written without terminator and read back as is - `C16_name_roundtrip`), no NUL, no blank at either end -/
def nameInContract (n : Bytes) : Bool :=
  decide (1 ≤ n.length) && decide (n.length ≤ 11) && !n.contains 0 && n.head? != some 32 && n.getLast? != some 32
    && n.all (fun c => c < 128)

end GeomV.C16.Spec
