import GeomV.C16.ProofsSchedule
import GeomV.C16.EndToEnd
/-!
# C16 — the struct path end to end ON THE BYTES

`C16_struct_file_roundtrip` (row-store model) composed with `Layout.C16_bytes_in_order` (go-shp's byte-level writer,
`Close()`, go-shp's byte-level reader): ONE statement from the `Encode` calls to the rows `DecodeRow` returns, through
the `.shp` and `.dbf` bytes.
-/
set_option linter.unusedSimpArgs false
set_option linter.unusedVariables false
namespace GeomV.C16.Layout
open GeomV GeomV.C16

/-- the `Encode` calls of a record sequence as the byte-level writer sees them -/
def encodeCalls (recs : List (Geom UInt64 × List Val)) : List CallB :=
  recs.map fun r => ⟨true, geom2ShpB r.1, r.2⟩

/-- **C16_struct_bytes_roundtrip** (the headline for the struct path as ONE statement through the bytes): under the
hypotheses of `C16_struct_file_roundtrip` (coordinates are IEEE bit patterns, `Point.Equals` = `ptEqBits`) and the
decidable size bounds `FileOK` (shapes fit go-shp's 32-bit counters, header and row its 16-bit ones), the `.shp` and `.dbf`
bytes that `NewEncoder` + n × `Encode` + `Close()` leave are parsed by go-shp's reader into a file `F`, every `Encode`
returned nil, and `for d.DecodeRow(&rec)` over `F` returns — no panic, no error — exactly one row per record in call
order with the normal form of its geometry, its integers and strings unchanged and its floats within `10^-10`
(`backField`, `reparse_close`). -/
theorem C16_struct_bytes_roundtrip (sfs : List SField) (e : EncS) (henc : newEncoder sfs = .ok e)
    (hp : ∀ sf ∈ attrsOf sfs, Plain (effName sf))
    (hd : ∀ a b (ha : a < (attrsOf sfs).length) (hb : b < (attrsOf sfs).length),
      keyOf (attrsOf sfs)[a] = keyOf (attrsOf sfs)[b] → a = b)
    (recs : List (Geom UInt64 × List Val)) (N : Geom UInt64 → Geom UInt64)
    (hsup : ∀ r ∈ recs, Spec.normal ptEqBits r.1 = some (N r.1) ∧ r.1 ≠ .nil)
    (hl : ∀ r ∈ recs, e.fields.length = r.2.length)
    (hfit : ∀ r ∈ recs, ∀ i (hi : i < e.fields.length) (hv : i < r.2.length) (ha : i < (attrsOf sfs).length),
      writeAttr e.fields[i] r.2[i] = some (render e.fields[i] r.2[i]) ∧ ValOK e.fields[i] r.2[i] ∧
      valKind r.2[i] = (attrsOf sfs)[i].kind)
    (rfs : List RField) (reuse : Bool)
    (hrd : ∀ rf ∈ rfs, match rf with
      | .geom _ _ k => ∀ r ∈ recs, GeomFieldOK k (N r.1)
      | .attr sf col => ∃ (h : col < (attrsOf sfs).length), sf.kind = (attrsOf sfs)[col].kind ∧
          Matches (attrsOf sfs) sf col)
    (hok : FileOK e.shpType e.fields (encodeCalls recs)) :
    ∃ F, fileOfBytes (close e.shpType e.fields (runB e.shpType e.fields (encodeCalls recs)).1).shp
        (close e.shpType e.fields (runB e.shpType e.fields (encodeCalls recs)).1).dbf = some F ∧
      F.shpType = e.shpType ∧ F.fields = e.fields ∧
      (runB e.shpType e.fields (encodeCalls recs)).2 = recs.map (fun _ => WRes.ok) ∧
      readS 0 F (rfs.map RField.sf) reuse = ⟨recs.map (fun r => rfs.map (backField N r)), false, false⟩ := by
  obtain ⟨S, hw, hS, _⟩ := struct_file_core ptEqBits 0 sfs e henc hp hd recs N hsup hl hfit rfs reuse hrd
  obtain ⟨_, hread⟩ := C16_struct_file_roundtrip ptEqBits 0 sfs e henc hp hd recs N hsup hl hfit rfs reuse hrd
  have hno : NoLeftOver e.fields (encodeCalls recs) := by
    intro c hc hvia
    obtain ⟨r, _, rfl⟩ := List.mem_map.mp hc
    simp at hvia
  obtain ⟨h1, h2⟩ := C16_bytes_in_order e.shpType e.fields (encodeCalls recs) hok hno
  have hcall : ∀ r ∈ recs, rowOfCall e.fields ⟨true, geom2ShpB r.1, r.2⟩ = some (S r.1, (writeStrict e.fields r.2).1) ∧
      resOfCall e.fields ⟨true, geom2ShpB r.1, r.2⟩ = WRes.ok := by
    intro r hr
    obtain ⟨hg, hst⟩ := hS r hr
    have ht := toShape_geom2ShpB r.1
    rw [hg] at ht
    cases hb : geom2ShpB r.1 with
    | error f => rw [hb] at ht; simp [Except.map] at ht
    | ok s =>
      rw [hb] at ht
      simp only [Except.map, Except.ok.injEq] at ht
      simp [rowOfCall, resOfCall, ht, hst]
  have hrows : (encodeCalls recs).filterMap (rowOfCall e.fields) = (writeAllS ptEqBits e recs).1 := by
    rw [hw]
    simp only [encodeCalls, List.filterMap_map]
    have : ∀ (l : List (Geom UInt64 × List Val)), (∀ r ∈ l, r ∈ recs) →
        l.filterMap (rowOfCall e.fields ∘ fun r => ⟨true, geom2ShpB r.1, r.2⟩) = l.map (fun r => (S r.1, (writeStrict e.fields r.2).1)) := by
      intro l
      induction l with
      | nil => intro _; rfl
      | cons a l ih =>
        intro h
        simp only [List.filterMap_cons, Function.comp, (hcall a (h a (by simp))).1, List.map_cons]
        rw [← ih (fun r hr => h r (by simp [hr]))]
        rfl
    exact this recs (fun _ h => h)
  have hres : (encodeCalls recs).map (resOfCall e.fields) = recs.map (fun _ => WRes.ok) := by
    simp only [encodeCalls, List.map_map]
    apply List.map_congr_left
    intro r hr
    exact (hcall r hr).2
  refine ⟨_, h1, rfl, rfl, by rw [h2, hres], ?_⟩
  rw [hrows]
  exact hread

/-! ## any assignment of writer methods to the records, any reading schedule - through the bytes -/

/-- record `i` is written with `Encode` (`vias[i] = true`) or with `EncodeFields(g, vals…)` -/
def mixedCalls : List Bool → List (Geom UInt64 × List Val) → List CallB
  | via :: vias, r :: recs => ⟨via, geom2ShpB r.1, r.2⟩ :: mixedCalls vias recs
  | _, _ => []

theorem mixedCalls_rows (fs : List Field) (S : Geom UInt64 → Shape UInt64) :
    ∀ (vias : List Bool) (recs : List (Geom UInt64 × List Val)), vias.length = recs.length →
      (∀ r ∈ recs, (geom2ShpB r.1).map BShape.toShape = .ok (S r.1) ∧ (writeStrict fs r.2).2 = true ∧
        writeLenient fs r.2 = (writeStrict fs r.2).1 ∧ r.2.length ≤ fs.length) →
      (mixedCalls vias recs).filterMap (rowOfCall fs) = recs.map (fun r => (S r.1, (writeStrict fs r.2).1)) ∧
      (mixedCalls vias recs).map (resOfCall fs) = recs.map (fun _ => WRes.ok) ∧
      NoLeftOver fs (mixedCalls vias recs)
  | [], [], _, _ => ⟨rfl, rfl, by intro c hc; simp [mixedCalls] at hc⟩
  | [], _ :: _, h, _ => by simp at h
  | _ :: _, [], h, _ => by simp at h
  | via :: vias, r :: recs, hlen, h => by
    obtain ⟨hg, hst, hlen', hle⟩ := h r (by simp)
    obtain ⟨ih1, ih2, ih3⟩ := mixedCalls_rows fs S vias recs (by simpa using hlen) (fun r' hr' => h r' (by simp [hr']))
    cases hb : geom2ShpB r.1 with
    | error f => rw [hb] at hg; simp [Except.map] at hg
    | ok s =>
      rw [hb] at hg
      simp only [Except.map, Except.ok.injEq] at hg
      refine ⟨?_, ?_, ?_⟩
      · cases via <;> simp [mixedCalls, rowOfCall, hb, hg, hlen', ih1]
      · cases via <;> simp [mixedCalls, resOfCall, hb, hst, ih2]
      · intro c hc hvia
        simp only [mixedCalls, List.mem_cons] at hc
        rcases hc with rfl | hc
        · exact hle
        · exact ih3 c hc hvia

/-- **C16_written_bytes_schedule** (the headline THROUGH THE BYTES with the values determined, any writer assignment,
any reading schedule): under the hypotheses of `C16_struct_file_roundtrip`, write record `i` with `Encode` or with
`EncodeFields` as `vias[i]` says through go-shp's byte-level writer, `Close()`, parse the `.shp`/`.dbf` bytes with go-shp's
byte-level reader (decidable size bounds `FileOK`): every call returned nil; the file `F` read is the SAME whatever the
assignment; the `DecodeRow` loop into the reader type `rfs` returns exactly the rows of `C16_struct_file_roundtrip`; and ANY
reading schedule `rcalls` on one Decoder (hypotheses of `C16_schedule_written`) returns one row per record, in call order,
no panic, no error, row `i` from record `i`'s own shape and cells. -/
theorem C16_written_bytes_schedule (sfs : List SField) (e : EncS) (henc : newEncoder sfs = .ok e)
    (hp : ∀ sf ∈ attrsOf sfs, Plain (effName sf))
    (hd : ∀ a b (ha : a < (attrsOf sfs).length) (hb : b < (attrsOf sfs).length),
      keyOf (attrsOf sfs)[a] = keyOf (attrsOf sfs)[b] → a = b)
    (recs : List (Geom UInt64 × List Val)) (N : Geom UInt64 → Geom UInt64)
    (hsup : ∀ r ∈ recs, Spec.normal ptEqBits r.1 = some (N r.1) ∧ r.1 ≠ .nil)
    (hl : ∀ r ∈ recs, e.fields.length = r.2.length)
    (hfit : ∀ r ∈ recs, ∀ i (hi : i < e.fields.length) (hv : i < r.2.length) (ha : i < (attrsOf sfs).length),
      writeAttr e.fields[i] r.2[i] = some (render e.fields[i] r.2[i]) ∧ ValOK e.fields[i] r.2[i] ∧
      valKind r.2[i] = (attrsOf sfs)[i].kind)
    (rfs : List RField) (reuse : Bool)
    (hrd : ∀ rf ∈ rfs, match rf with
      | .geom _ _ k => ∀ r ∈ recs, GeomFieldOK k (N r.1)
      | .attr sf col => ∃ (h : col < (attrsOf sfs).length), sf.kind = (attrsOf sfs)[col].kind ∧
          Matches (attrsOf sfs) sf col)
    (rcalls : List RCall) (hne : rcalls ≠ [])
    (hrc : ∀ c ∈ rcalls, match c with
      | .s rfs _ => ∀ rf ∈ rfs, (match rf with
        | .geom _ _ k => ∀ r ∈ recs, GeomFieldOK k (N r.1)
        | .attr sf col => ∃ (h : col < (attrsOf sfs).length), sf.kind = (attrsOf sfs)[col].kind ∧
            Matches (attrsOf sfs) sf col)
      | .f names => ∀ n ∈ names, ∃ j, ∃ (h : j < (attrsOf sfs).length), lower n = keyOf (attrsOf sfs)[j])
    (vias : List Bool) (hv : vias.length = recs.length)
    (hok : FileOK e.shpType e.fields (mixedCalls vias recs)) :
    ∃ F, fileOfBytes (close e.shpType e.fields (runB e.shpType e.fields (mixedCalls vias recs)).1).shp
        (close e.shpType e.fields (runB e.shpType e.fields (mixedCalls vias recs)).1).dbf = some F ∧
      F = ⟨e.shpType, e.fields, (writeAllS ptEqBits e recs).1⟩ ∧
      (runB e.shpType e.fields (mixedCalls vias recs)).2 = recs.map (fun _ => WRes.ok) ∧
      readS 0 F (rfs.map RField.sf) reuse = ⟨recs.map (fun r => rfs.map (backField N r)), false, false⟩ ∧
      ∃ rows, readM 0 F (rcalls.map RCall.call) = ⟨rows, false, false⟩ ∧ rows.length = recs.length ∧
        RowsOf 0 (fileKeys e.fields) geomOf (rcalls.map RCall.call) F.rows 0 rows := by
  obtain ⟨S, hw, hS, _⟩ := struct_file_core ptEqBits 0 sfs e henc hp hd recs N hsup hl hfit rfs reuse hrd
  obtain ⟨_, hread⟩ := C16_struct_file_roundtrip ptEqBits 0 sfs e henc hp hd recs N hsup hl hfit rfs reuse hrd
  obtain ⟨_, rows, hm1, hm2, hm3⟩ := C16_schedule_written ptEqBits 0 sfs e henc hp hd recs N hsup hl hfit rcalls hne hrc
  have hlenA : e.fields.length = (attrsOf sfs).length := by rw [C16_columns sfs e henc]; simp
  obtain ⟨hrows, hres, hno⟩ := mixedCalls_rows e.fields S vias recs hv (fun r hr =>
    ⟨by rw [toShape_geom2ShpB]; exact (hS r hr).1, (hS r hr).2,
     writeLenient_eq_strict e.fields r.2 (hl r hr) (fun i hi hv => (hfit r hr i hi hv (hlenA ▸ hi)).1),
     Nat.le_of_eq (hl r hr).symm⟩)
  obtain ⟨h1, h2⟩ := C16_bytes_in_order e.shpType e.fields (mixedCalls vias recs) hok hno
  have hfile : (⟨e.shpType, e.fields, (mixedCalls vias recs).filterMap (rowOfCall e.fields)⟩ : FileM UInt64)
      = ⟨e.shpType, e.fields, (writeAllS ptEqBits e recs).1⟩ := by rw [hrows, hw]
  refine ⟨_, h1, hfile, by rw [h2, hres], ?_, ?_⟩
  · rw [hfile]; exact hread
  · rw [hfile]; exact ⟨rows, hm1, hm2, hm3⟩

/-- non-vacuity of the additional hypothesis `FileOK` (the others are those of `C16_struct_file_roundtrip`, shown to hold
together in `StructExample`): the example's columns and two line-string records -/
example : FileOK StructExample.enc.shpType StructExample.enc.fields (encodeCalls
    [(.lineString [⟨0, 0⟩, ⟨4607182418800017408, 4607182418800017408⟩], [.int 7, .float 4626744929681408000, .str [97, 108, 112, 104, 97]]),
     (.lineString [], [.int (-8), .float 0, .str []])]) := by
  decide +kernel

/-- the same for a mixed assignment (`Encode`, then `EncodeFields`) -/
example : FileOK StructExample.enc.shpType StructExample.enc.fields (mixedCalls [true, false]
    [(.lineString [⟨0, 0⟩, ⟨4607182418800017408, 4607182418800017408⟩], [.int 7, .float 4626744929681408000, .str [97, 108, 112, 104, 97]]),
     (.lineString [], [.int (-8), .float 0, .str []])]) := by
  decide +kernel

end GeomV.C16.Layout
