import GeomV.C16.Proofs
import GeomV.C16.FloatCert
import GeomV.C17.DecProofs
/-!
# C16 — the float clause without the `FloatFmt` hypothesis

* `C16_float_cert`: conclusion of `C16_float` from the decidable per-cell certificate `floatCellCert`.
* `C16_float_cert_rne`: the value read back is the correctly rounded double of the decimal the text denotes.
-/
set_option linter.unusedSimpArgs false
set_option linter.unusedVariables false
namespace GeomV.C16
open GeomV

/-- **C16_float_cert**: same conclusion as `C16_float`, with the per-cell certificate evaluated by the
judge in place of the universally quantified `FloatFmt` hypothesis. -/
theorem C16_float_cert (p : Nat) (u : UInt64) (size : Nat) (hc : floatCellCert p u = true)
    (hfit : (fmtFloat p u).length ≤ size) :
    (∃ y, parseFloat (numText (cellOf size (fmtFloat p u))) = some y ∧ closeBits p u y = true) ∧
    strOf (cellOf size (fmtFloat p u)) = fmtFloat p u := by
  unfold floatCellCert at hc
  simp only [Bool.and_eq_true, Bool.not_eq_true', List.all_eq_true, bne_iff_ne, ne_eq] at hc
  obtain ⟨⟨hne', hs⟩, hrt⟩ := hc
  have hne : fmtFloat p u ≠ [] := by
    intro h; rw [h] at hne'; simp at hne'
  refine ⟨?_, ?_⟩
  · rw [numText_cellOf size _ hne (fun b hb => hs b (mem_of_head? hb)) (fun b hb => hs b (mem_of_getLast? hb))]
    cases hp : parseFloat (fmtFloat p u) with
    | none => rw [hp] at hrt; exact absurd hrt (by simp)
    | some y => rw [hp] at hrt; exact ⟨y, rfl, hrt⟩
  · apply strOf_cellOf size _ hne
    · intro hb; exact (hs 32 (mem_of_head? hb)).1 rfl
    · intro hb; exact (hs 0 (mem_of_head? hb)).2 rfl
    · intro hb; exact (hs 0 (mem_of_getLast? hb)).2 rfl
    · intro hb; exact absurd rfl (hs 32 (mem_of_getLast? hb)).1

/-! ## the text of a finite value is a plain decimal, none of the three special spellings -/

theorem fmtFixed_shape (neg : Bool) (num den prec : Nat) :
    ∃ c cs, isDigitB c = true ∧
      (fmtFixed neg num den prec = c :: cs ∨ fmtFixed neg num den prec = 45 :: c :: cs) := by
  obtain ⟨c, cs, hc, hd⟩ := natDigits_cons (fixedN num den prec / 10 ^ prec)
  unfold fmtFixed
  simp only [hc]
  by_cases hp : prec = 0
  · cases neg
    · exact ⟨c, cs, hd, Or.inl (by simp [hp])⟩
    · exact ⟨c, cs, hd, Or.inr (by simp [hp])⟩
  · cases neg
    · exact ⟨c, _, hd, Or.inl (by simp only [hp, if_false, Bool.false_eq_true]; rfl)⟩
    · exact ⟨c, _, hd, Or.inr (by simp only [hp, if_false, if_true]; rfl)⟩

theorem fmtFloat_finite_not_special (p : Nat) (u : UInt64) (hfin : decompose u ≠ none) :
    fmtFloat p u ≠ [78, 97, 78] ∧ fmtFloat p u ≠ [43, 73, 110, 102] ∧ fmtFloat p u ≠ [45, 73, 110, 102] := by
  unfold fmtFloat
  cases hd : decompose u with
  | none => exact absurd hd hfin
  | some t =>
    obtain ⟨neg, num, den⟩ := t
    simp only
    obtain ⟨c, cs, hc, h | h⟩ := fmtFixed_shape neg num den p <;> rw [h]
    · have := digit_facts c hc
      refine ⟨?_, ?_, ?_⟩ <;> (intro he; injection he with h1 h2; subst h1; revert hc; decide)
    · refine ⟨?_, ?_, ?_⟩
      · intro he; injection he with h1 h2; revert h1; decide
      · intro he; injection he with h1 h2; revert h1; decide
      · intro he; injection he with h1 h2; injection h2 with h3 h4; subst h3; revert hc; decide

/-- **C16_float_cert_rne**: for a finite `u`, whatever `parseFloat` reads from the rendering is THE IEEE 754
roundTiesToEven double of the decimal number the text denotes (sign and magnitude). -/
theorem C16_float_cert_rne (p : Nat) (u y : UInt64) (hp : parseFloat (fmtFloat p u) = some y)
    (hfin : decompose u ≠ none) :
    ∃ l, Dec.parseLit (bytesToChars (fmtFloat p u)) = some l ∧
      (y.toNat / 2 ^ 63 = if l.neg then 1 else 0) ∧
      (l.mant = 0 → y.toNat % 2 ^ 63 = 0) ∧
      (l.mant ≠ 0 → Dec.IsRNE (Dec.magVal l) (y.toNat % 2 ^ 63)) := by
  obtain ⟨h1, h2, h3⟩ := fmtFloat_finite_not_special p u hfin
  unfold parseFloat at hp
  rw [if_neg h1, if_neg h2, if_neg h3] at hp
  cases ht : Dec.toBits (bytesToChars (fmtFloat p u)) with
  | none => rw [ht] at hp; exact absurd hp (by simp)
  | some y0 =>
    rw [ht] at hp
    simp only at hp
    split at hp
    · injection hp with hp; subst hp
      exact Dec.toBits_sound _ _ ht
    · exact absurd hp (by simp)

/-! ## non-vacuity of the certificate -/

example : floatCellCert 10 0x3FB999999999999A = true := by decide +kernel   -- 0.1
example : floatCellCert 10 0x8000000000000000 = true := by decide +kernel   -- -0
example : floatCellCert 10 0x7FF8000000000001 = true := by decide +kernel   -- NaN
example : floatCellCert 10 0x7FF0000000000000 = true := by decide +kernel   -- +Inf
example : floatCellCert 10 0xFFF0000000000000 = true := by decide +kernel   -- -Inf
example : floatCellCert 10 0x430C6BF526340001 = true := by decide +kernel   -- 1e15 + 0.125
example : floatCellCert 10 0x0000000000000001 = true := by decide +kernel   -- smallest subnormal ↦ 0.0000000000
example : floatCellCert 3 0xC0091EB851EB851F = true := by decide +kernel    -- -3.14 at 3 decimals

/-! ## Step 2 (a): the text of a finite value, read by the literal grammar -/

theorem char_facts : ∀ n, n < 256 →
    (Dec.isDigit (Char.ofNat n) = (decide (48 ≤ n) && decide (n ≤ 57))) ∧ (Char.ofNat n).toNat = n := by
  decide +kernel

theorem isDigit_ch (b : UInt8) : Dec.isDigit (Char.ofNat b.toNat) = isDigitB b := by
  rw [(char_facts b.toNat b.toNat_lt).1]
  unfold isDigitB
  simp [UInt8.le_iff_toNat_le]

theorem digitsVal_bytesToChars (ds : Bytes) : Dec.digitsVal (bytesToChars ds) = digitsValB ds := by
  unfold Dec.digitsVal digitsValB bytesToChars
  rw [List.foldl_map]
  congr 1
  funext a c
  rw [(char_facts c.toNat c.toNat_lt).2]

theorem isDigit_bytesToChars (ds : Bytes) (h : ∀ b ∈ ds, isDigitB b = true) :
    ∀ c ∈ bytesToChars ds, Dec.isDigit c = true := by
  intro c hc
  unfold bytesToChars at hc
  obtain ⟨b, hb, rfl⟩ := List.mem_map.mp hc
  rw [isDigit_ch]; exact h b hb

theorem takeWhile_append_stop {α : Type} (q : α → Bool) (l r : List α) (hl : ∀ x ∈ l, q x = true)
    (hr : ∀ x, r.head? = some x → q x = false) :
    (l ++ r).takeWhile q = l ∧ (l ++ r).dropWhile q = r := by
  induction l with
  | nil =>
    cases r with
    | nil => simp
    | cons a t => have := hr a rfl; simp [List.takeWhile, List.dropWhile, this]
  | cons a t ih =>
    have ha := hl a (by simp)
    have := ih (fun x hx => hl x (by simp [hx]))
    simp [List.takeWhile, List.dropWhile, ha, this]

theorem digitsValB_foldl (b : Bytes) : ∀ acc : Nat,
    b.foldl (fun a c => a * 10 + (c.toNat - 48)) acc = acc * 10 ^ b.length + digitsValB b := by
  induction b with
  | nil => intro acc; simp [digitsValB]
  | cons c t ih =>
    intro acc
    unfold digitsValB
    simp only [List.foldl_cons, List.length_cons]
    rw [ih, ih (0 * 10 + (c.toNat - 48))]
    ring

theorem digitsValB_append' (a b : Bytes) : digitsValB (a ++ b) = digitsValB a * 10 ^ b.length + digitsValB b := by
  unfold digitsValB
  rw [List.foldl_append, digitsValB_foldl]
  rfl

theorem digitsValB_zeros (k : Nat) : digitsValB (List.replicate k 48) = 0 := by
  induction k with
  | zero => rfl
  | succ k ih =>
    rw [List.replicate_succ, show (48 : UInt8) :: List.replicate k 48 = [48] ++ List.replicate k 48 from rfl,
      digitsValB_append', ih]
    simp [digitsValB]

theorem digitsValB_padLeft (w : Nat) (d : Bytes) : digitsValB (padLeft w d) = digitsValB d := by
  unfold padLeft
  rw [digitsValB_append', digitsValB_zeros]; simp

theorem padLeft_all (w : Nat) (d : Bytes) (h : ∀ b ∈ d, isDigitB b = true) : ∀ b ∈ padLeft w d, isDigitB b = true := by
  intro b hb
  unfold padLeft at hb
  rcases List.mem_append.mp hb with hb | hb
  · simp [List.mem_replicate] at hb; obtain ⟨_, rfl⟩ := hb; decide
  · exact h b hb

theorem padLeft_length (w : Nat) (d : Bytes) (h : d.length ≤ w) : (padLeft w d).length = w := by
  unfold padLeft; simp; omega

theorem takeSign_digit (c : Char) (cs : List Char) (hc : Dec.isDigit c = true) :
    Dec.takeSign (c :: cs) = (false, c :: cs) := by
  unfold Dec.takeSign
  split
  · rename_i h; injection h with h1 h2; subst h1; exact absurd hc (by decide)
  · rename_i h; injection h with h1 h2; subst h1; exact absurd hc (by decide)
  · rfl

/-- a sign, a non-empty run of digits and optionally `.` and a run of digits is the literal
`± digits · 10^-(number of fractional digits)` -/
theorem parseLit_plain (neg : Bool) (s ip rest fp : List Char) (hs : Dec.takeSign s = (neg, ip ++ rest))
    (hip : ∀ c ∈ ip, Dec.isDigit c = true) (hne : ip ≠ []) (hfp : ∀ c ∈ fp, Dec.isDigit c = true)
    (hrest : (rest = [] ∧ fp = []) ∨ rest = '.' :: fp) :
    Dec.parseLit s = some ⟨neg, Dec.digitsVal (ip ++ fp), -(fp.length : Int)⟩ := by
  unfold Dec.parseLit
  rw [hs]
  simp only
  have hfp' := takeWhile_append_stop Dec.isDigit fp [] hfp (by simp)
  simp only [List.append_nil] at hfp'
  rcases hrest with ⟨rfl, rfl⟩ | rfl
  · have h := takeWhile_append_stop Dec.isDigit ip [] hip (by simp)
    rw [h.1, h.2]
    simp [hne, Dec.parseExp]
  · have h := takeWhile_append_stop Dec.isDigit ip ('.' :: fp) hip (by
      intro x hx; simp at hx; subst hx; decide)
    rw [h.1, h.2]
    simp only [hfp'.1, hfp'.2]
    simp [hne, Dec.parseExp]

theorem takeSign_body (neg : Bool) (body : Bytes) (c : UInt8) (cs : Bytes) (hb : body = c :: cs)
    (hc : isDigitB c = true) :
    Dec.takeSign (bytesToChars (if neg then 45 :: body else body)) = (neg, bytesToChars body) := by
  cases neg
  · subst hb
    simp only [Bool.false_eq_true, if_false]
    unfold bytesToChars
    rw [List.map_cons]
    apply takeSign_digit
    rw [isDigit_ch]; exact hc
  · simp only [if_true]; rfl

theorem bytesToChars_append (a b : Bytes) : bytesToChars (a ++ b) = bytesToChars a ++ bytesToChars b := by
  unfold bytesToChars; exact List.map_append

/-- **C16_float_text** (Step 2 (a)): the rendering of a finite value is, for the OGC/strconv literal grammar,
exactly the literal `(-1)^neg · N · 10^-p` with `N = fixedN num den p` the printed scaled integer. -/
theorem C16_float_text (neg : Bool) (num den p : Nat) :
    Dec.parseLit (bytesToChars (fmtFixed neg num den p)) = some ⟨neg, fixedN num den p, -(p : Int)⟩ := by
  obtain ⟨c, cs, hc, hd⟩ := natDigits_cons (fixedN num den p / 10 ^ p)
  have hipd := isDigit_bytesToChars _ (natDigits_all (fixedN num den p / 10 ^ p))
  have hne : bytesToChars (natDigits (fixedN num den p / 10 ^ p)) ≠ [] := by
    rw [hc]; simp [bytesToChars]
  unfold fmtFixed
  simp only
  by_cases hp : p = 0
  · subst hp
    simp only [if_true]
    have hs := takeSign_body neg _ c cs hc hd
    have := parseLit_plain neg _ _ [] [] (by rw [List.append_nil]; exact hs) hipd hne (by simp)
      (Or.inl ⟨rfl, rfl⟩)
    rw [this, List.append_nil, digitsVal_bytesToChars, digitsValB_natDigits]
    simp
  · simp only [hp, if_false]
    have hp1 : p - 1 + 1 = p := by omega
    have hfl : (natDigits (fixedN num den p % 10 ^ p)).length ≤ p := by
      have := natDigits_length_le (p - 1) (fixedN num den p % 10 ^ p) (by
        rw [hp1]; exact Nat.mod_lt _ (Nat.pow_pos (by decide)))
      omega
    have hlen := padLeft_length p _ hfl
    have hfpd := isDigit_bytesToChars _ (padLeft_all p _ (natDigits_all (fixedN num den p % 10 ^ p)))
    have hval : digitsValB (padLeft p (natDigits (fixedN num den p % 10 ^ p))) = fixedN num den p % 10 ^ p := by
      rw [digitsValB_padLeft, digitsValB_natDigits]
    generalize padLeft p (natDigits (fixedN num den p % 10 ^ p)) = fpB at hlen hfpd hval
    have hs := takeSign_body neg (natDigits (fixedN num den p / 10 ^ p) ++ 46 :: fpB) c (cs ++ 46 :: fpB)
      (by rw [hc]; rfl) hd
    have hsplit : bytesToChars (natDigits (fixedN num den p / 10 ^ p) ++ 46 :: fpB)
        = bytesToChars (natDigits (fixedN num den p / 10 ^ p)) ++ '.' :: bytesToChars fpB := by
      rw [bytesToChars_append]; rfl
    rw [hsplit] at hs
    have := parseLit_plain neg _ _ _ _ hs hipd hne hfpd (Or.inr rfl)
    rw [this, ← bytesToChars_append, digitsVal_bytesToChars, digitsValB_append', digitsValB_natDigits, hval, hlen,
      Nat.div_add_mod' (fixedN num den p) (10 ^ p)]
    have : (bytesToChars fpB).length = p := by unfold bytesToChars; rw [List.length_map, hlen]
    rw [this]

/-! ## Step 2 (c): the exact value of a finite pattern -/

theorem two_zpow_neg_nat (k : ℕ) : (2 : ℚ) ^ (-(k : ℤ)) = (((2 : ℕ) ^ k : ℕ) : ℚ)⁻¹ := by
  rw [zpow_neg, zpow_natCast]; push_cast; rfl

theorem two_zpow_nat (k : ℕ) : (2 : ℚ) ^ ((k : ℤ)) = (((2 : ℕ) ^ k : ℕ) : ℚ) := by
  rw [zpow_natCast]; push_cast; rfl

/-- `decompose` agrees with the rational reading `Dec.valPos` / `Dec.val64` of bit patterns -/
theorem decompose_val (u : UInt64) (neg : Bool) (num den : Nat) (h : decompose u = some (neg, num, den)) :
    0 < den ∧ (u.toNat / 2 ^ 63 = if neg then 1 else 0) ∧ u.toNat % 2 ^ 63 < Dec.infBits ∧
    Dec.valPos (u.toNat % 2 ^ 63) = (num : ℚ) / den := by
  have hlt : u.toNat < 2 ^ 64 := u.toNat_lt
  unfold decompose at h
  simp only at h
  generalize u.toNat = n at *
  have hb1 : (n % 2 ^ 63) / 2 ^ 52 = (n / 2 ^ 52) % 2048 := by omega
  have hb2 : (n % 2 ^ 63) % 2 ^ 52 = n % 2 ^ 52 := by omega
  have hsign : ∀ b : Bool, b = (n / 2 ^ 63 == 1) → n / 2 ^ 63 = if b then 1 else 0 := by
    intro b hb
    subst hb
    have : n / 2 ^ 63 = 0 ∨ n / 2 ^ 63 = 1 := by omega
    generalize n / 2 ^ 63 = s at this
    rcases this with rfl | rfl <;> decide
  unfold Dec.valPos Dec.infBits
  rw [hb1, hb2]
  generalize (n / 2 ^ 52) % 2048 = e at *
  generalize n % 2 ^ 52 = m at *
  split at h
  · exact absurd h (by simp)
  · rename_i he
    split at h
    · rename_i h0
      injection h with h; injection h with hn h; injection h with hnum hdn
      subst hnum hdn
      refine ⟨Nat.two_pow_pos 1074, hsign _ hn.symm, by omega, ?_⟩
      rw [if_pos h0, show (-1074 : ℤ) = -((1074 : ℕ) : ℤ) by norm_num, two_zpow_neg_nat, div_eq_mul_inv]
    · rename_i h0
      split at h
      · rename_i hge
        injection h with h; injection h with hn h; injection h with hnum hdn
        subst hnum hdn
        refine ⟨Nat.one_pos, hsign _ hn.symm, by omega, ?_⟩
        rw [if_neg h0, show (e : ℤ) - 1075 = ((e - 1075 : ℕ) : ℤ) by omega, two_zpow_nat]
        push_cast; simp
      · rename_i hge
        injection h with h; injection h with hn h; injection h with hnum hdn
        subst hnum hdn
        refine ⟨Nat.pow_pos (by decide), hsign _ hn.symm, by omega, ?_⟩
        rw [if_neg h0, show (e : ℤ) - 1075 = -((1075 - e : ℕ) : ℤ) by omega, two_zpow_neg_nat, div_eq_mul_inv]

/-- every finite pattern is at most `MaxFloat64 = (2^53 − 1)·2^971` -/
theorem valPos_le_max (c : Nat) (hc : c < Dec.infBits) : Dec.valPos c ≤ (2 ^ 53 - 1) * (2 : ℚ) ^ (971 : ℤ) := by
  unfold Dec.infBits at hc
  unfold Dec.valPos
  have hr : c % 2 ^ 52 < 2 ^ 52 := Nat.mod_lt _ (by norm_num)
  have hk : c / 2 ^ 52 ≤ 2046 := by omega
  generalize c % 2 ^ 52 = r at *
  generalize c / 2 ^ 52 = k at *
  have hr' : (r : ℚ) ≤ 2 ^ 52 - 1 := by
    have : r + 1 ≤ 2 ^ 52 := hr
    have : ((r + 1 : ℕ) : ℚ) ≤ ((2 ^ 52 : ℕ) : ℚ) := Nat.cast_le.mpr this
    push_cast at this; linarith
  split
  · have hz : (2 : ℚ) ^ (-1074 : ℤ) ≤ (2 : ℚ) ^ (971 : ℤ) := zpow_le_zpow_right₀ (by norm_num) (by norm_num)
    have h0 : (0 : ℚ) ≤ r := Nat.cast_nonneg r
    exact mul_le_mul (by linarith) hz (by positivity) (by norm_num)
  · have hz : (2 : ℚ) ^ ((k : ℤ) - 1075) ≤ (2 : ℚ) ^ (971 : ℤ) := zpow_le_zpow_right₀ (by norm_num) (by omega)
    have : ((2 ^ 52 + r : ℕ) : ℚ) ≤ 2 ^ 53 - 1 := by push_cast; linarith
    exact mul_le_mul this hz (by positivity) (by norm_num)

/-! ## Step 2 (b),(d),(e): the contract for all finite doubles -/

/-- the printed decimal `N/10^p` is within half a unit of the last printed place of `num/den` -/
theorem fixedN_close (num den p : Nat) (hden : 0 < den) :
    |(fixedN num den p : ℚ) / (10 : ℚ) ^ p - (num : ℚ) / den| ≤ 1 / (2 * (10 : ℚ) ^ p) := by
  obtain ⟨_, _, b1, b2⟩ := C16_float_render false num den p hden
  have hT : (0 : ℚ) < (10 : ℚ) ^ p := by positivity
  have hD : (0 : ℚ) < (den : ℚ) := Nat.cast_pos.mpr hden
  have b1' : 2 * (fixedN num den p : ℚ) * den ≤ 2 * ((num : ℚ) * (10 : ℚ) ^ p) + den := by exact_mod_cast b1
  have b2' : 2 * ((num : ℚ) * (10 : ℚ) ^ p) ≤ 2 * (fixedN num den p : ℚ) * den + den := by exact_mod_cast b2
  set T := (10 : ℚ) ^ p
  set D := (den : ℚ)
  set q := (fixedN num den p : ℚ) / T with hq
  set x := (num : ℚ) / D with hx
  have hN : (fixedN num den p : ℚ) = q * T := by rw [hq]; field_simp
  have hnum : (num : ℚ) = x * D := by rw [hx]; field_simp
  rw [hN, hnum] at b1' b2'
  have c1 : 2 * q * T ≤ 2 * x * T + 1 := by
    have : (2 * q * T) * D ≤ (2 * x * T + 1) * D := by linarith
    exact le_of_mul_le_mul_right this hD
  have c2 : 2 * x * T ≤ 2 * q * T + 1 := by
    have : (2 * x * T) * D ≤ (2 * q * T + 1) * D := by linarith
    exact le_of_mul_le_mul_right this hD
  rw [abs_le]
  constructor
  · have : -(q - x) ≤ 1 / (2 * T) := by rw [le_div_iff₀ (by positivity)]; linarith
    linarith
  · rw [le_div_iff₀ (by positivity)]; linarith

/-- **C16_float_universal** (Step 2): for EVERY finite double `u` and every precision `p ≤ 5000`, the
rendering `FormatFloat(u,'f',p,64)` is read back by `ParseFloat` and the value read differs from `u` by at
most `10^-p` — the `roundtrip` clause of `FloatFmt`, proved for the model's formatter and `Dec.toBits`. -/
theorem C16_float_universal (p : Nat) (hp5 : p ≤ 5000) (u : UInt64) (neg : Bool) (num den : Nat)
    (hfin : decompose u = some (neg, num, den)) :
    ∃ y, parseFloat (fmtFloat p u) = some y ∧ |Dec.val64 y - Dec.val64 u| ≤ 1 / (10 : ℚ) ^ p := by
  obtain ⟨hden, hsgn, hulim, hxv⟩ := decompose_val u neg num den hfin
  have htext := C16_float_text neg num den p
  have hfmt : fmtFloat p u = fmtFixed neg num den p := by unfold fmtFloat; rw [hfin]
  obtain ⟨h1, h2, h3⟩ := fmtFloat_finite_not_special p u (by rw [hfin]; simp)
  have hclose := fixedN_close num den p hden
  have hT : (0 : ℚ) < (10 : ℚ) ^ p := by positivity
  generalize hN : fixedN num den p = N at *
  cases hl : Dec.litToBits ⟨neg, N, -(p : Int)⟩ with
  | none =>
    exfalso
    unfold Dec.litToBits at hl
    split at hl
    · rename_i h; simp only [Int.natAbs_neg, Int.natAbs_natCast] at h; omega
    · simp at hl
  | some y0 =>
    have htb : Dec.toBits (bytesToChars (fmtFloat p u)) = some y0 := by
      unfold Dec.toBits; rw [hfmt, htext]; exact hl
    obtain ⟨ysgn, yzero, yrne⟩ := Dec.litToBits_sound _ _ hl
    simp only at ysgn yzero yrne
    have hmag : Dec.magVal ⟨neg, N, -(p : Int)⟩ = (N : ℚ) / (10 : ℚ) ^ p := by
      unfold Dec.magVal; simp only; rw [zpow_neg, zpow_natCast, div_eq_mul_inv]
    -- magnitude read: finite and within 10^-p of the magnitude written
    have key : y0.toNat % 2 ^ 63 < Dec.infBits ∧
        |Dec.valPos (y0.toNat % 2 ^ 63) - Dec.valPos (u.toNat % 2 ^ 63)| ≤ 1 / (10 : ℚ) ^ p := by
      rw [hxv]
      by_cases hN0 : N = 0
      · rw [yzero hN0]
        refine ⟨by unfold Dec.infBits; norm_num, ?_⟩
        rw [Dec.valPos_sub 0 (by norm_num)]
        subst hN0
        have : (1 : ℚ) / (2 * (10 : ℚ) ^ p) ≤ 1 / (10 : ℚ) ^ p :=
          one_div_le_one_div_of_le hT (by linarith)
        simp only [Nat.cast_zero, zero_div, zero_mul] at hclose ⊢
        linarith
      · have r := yrne hN0
        rw [hmag] at r
        have hlt : y0.toNat % 2 ^ 63 < Dec.infBits := by
          rcases Nat.lt_or_ge (y0.toNat % 2 ^ 63) Dec.infBits with h | h
          · exact h
          · exfalso
            have hov := r.overflow.mp (Nat.le_antisymm r.le_inf h)
            have hmax := valPos_le_max _ hulim
            rw [hxv] at hmax
            rw [Dec.ov1, Dec.z971] at hov
            rw [Dec.z971] at hmax
            have hP : (1 : ℚ) ≤ 2 ^ 970 := one_le_pow₀ (by norm_num)
            have hhalf : (1 : ℚ) / (2 * (10 : ℚ) ^ p) ≤ 1 / 2 := by
              apply one_div_le_one_div_of_le (by norm_num)
              have : (1 : ℚ) ≤ (10 : ℚ) ^ p := one_le_pow₀ (by norm_num)
              linarith
            have := (abs_le.mp hclose).2
            generalize (2 : ℚ) ^ 970 = P at *
            nlinarith
        refine ⟨hlt, ?_⟩
        have hn := r.nearest hlt _ hulim
        rw [hxv] at hn
        have e : Dec.valPos (y0.toNat % 2 ^ 63) - (num : ℚ) / den
            = -((N : ℚ) / (10 : ℚ) ^ p - Dec.valPos (y0.toNat % 2 ^ 63)) + ((N : ℚ) / (10 : ℚ) ^ p - (num : ℚ) / den) := by
          ring
        rw [e]
        have hsum : (1 : ℚ) / (10 : ℚ) ^ p = 1 / (2 * (10 : ℚ) ^ p) + 1 / (2 * (10 : ℚ) ^ p) := by
          field_simp; ring
        calc |(-((N : ℚ) / (10 : ℚ) ^ p - Dec.valPos (y0.toNat % 2 ^ 63)) + ((N : ℚ) / (10 : ℚ) ^ p - (num : ℚ) / den))|
            ≤ |(-((N : ℚ) / (10 : ℚ) ^ p - Dec.valPos (y0.toNat % 2 ^ 63)))| + |((N : ℚ) / (10 : ℚ) ^ p - (num : ℚ) / den)| :=
              abs_add_le _ _
          _ ≤ 1 / (10 : ℚ) ^ p := by rw [abs_neg, hsum]; linarith
    obtain ⟨hylim, hdist⟩ := key
    have hyfin : Dec.isFiniteBits y0 = true := by
      unfold Dec.isFiniteBits
      unfold Dec.infBits at hylim
      simp only [bne_iff_ne, ne_eq]
      omega
    refine ⟨y0, ?_, ?_⟩
    · unfold parseFloat
      rw [if_neg h1, if_neg h2, if_neg h3, htb]
      simp only [hyfin, if_true]
    · unfold Dec.val64
      rw [ysgn, hsgn]
      cases neg
      · simpa using hdist
      · simp only [if_true]
        rw [show -Dec.valPos (y0.toNat % 2 ^ 63) - -Dec.valPos (u.toNat % 2 ^ 63)
          = -(Dec.valPos (y0.toNat % 2 ^ 63) - Dec.valPos (u.toNat % 2 ^ 63)) by ring, abs_neg]
        exact hdist

/-! ## the certificate always holds; `FloatFmt` instance -/

theorem bitsToRat_eq_decompose (u : UInt64) :
    bitsToRat u = (decompose u).map fun t =>
      mkRat (if t.1 then -(Int.ofNat t.2.1) else Int.ofNat t.2.1) t.2.2 := by
  unfold bitsToRat decompose
  simp only
  split
  · rfl
  · split
    · simp only [Option.map_some]
    · split <;> rfl

theorem val64_of_decompose (u : UInt64) (neg : Bool) (num den : Nat) (h : decompose u = some (neg, num, den)) :
    bitsToRat u = some (Dec.val64 u) := by
  obtain ⟨hden, hsgn, hulim, hxv⟩ := decompose_val u neg num den h
  rw [bitsToRat_eq_decompose, h]
  simp only [Option.map_some]
  congr 1
  unfold Dec.val64
  rw [hsgn, hxv, Rat.mkRat_eq_div]
  cases neg <;> simp
  ring

theorem decompose_of_finite (y : UInt64) (h : Dec.isFiniteBits y = true) : ∃ t, decompose y = some t := by
  unfold Dec.isFiniteBits at h
  simp only [bne_iff_ne, ne_eq] at h
  unfold decompose
  simp only
  rw [if_neg h]
  split
  · exact ⟨_, rfl⟩
  · split <;> exact ⟨_, rfl⟩

theorem parseFloat_plain (s : Bytes) (y : UInt64) (h1 : s ≠ [78, 97, 78]) (h2 : s ≠ [43, 73, 110, 102])
    (h3 : s ≠ [45, 73, 110, 102]) (hp : parseFloat s = some y) :
    Dec.isFiniteBits y = true ∧ Dec.toBits (bytesToChars s) = some y := by
  unfold parseFloat at hp
  rw [if_neg h1, if_neg h2, if_neg h3] at hp
  cases ht : Dec.toBits (bytesToChars s) with
  | none => rw [ht] at hp; exact absurd hp (by simp)
  | some y0 =>
    rw [ht] at hp
    simp only at hp
    split at hp
    · rename_i hf; injection hp with hp; subst hp; exact ⟨hf, rfl⟩
    · exact absurd hp (by simp)

theorem closeBits_of_val (p : Nat) (u y : UInt64) (a b : ℚ) (ha : bitsToRat u = some a) (hb : bitsToRat y = some b)
    (h : |b - a| ≤ 1 / (10 : ℚ) ^ p) : closeBits p u y = true := by
  unfold closeBits
  rw [ha, hb]
  simp only
  unfold Spec.floatClose
  simp only [decide_eq_true_eq]
  have hc : (((10 ^ p : Nat) : Rat)) = (10 : ℚ) ^ p := by push_cast; rfl
  rw [hc]
  split
  · exact le_trans (le_abs_self _) h
  · have : a - b = -(b - a) := by ring
    rw [this]; exact le_trans (neg_le_abs _) h

/-- assembling the certificate from its parts -/
theorem cert_of (p : Nat) (u y : UInt64) (t : Bytes) (ht : fmtFloat p u = t) (hne : t ≠ [])
    (hsolid : ∀ b ∈ t, b ≠ 32 ∧ b ≠ 0) (hparse : parseFloat t = some y) (hclose : closeBits p u y = true) :
    floatCellCert p u = true := by
  unfold floatCellCert
  simp only [ht, hparse, hclose, Bool.and_true, Bool.and_eq_true, Bool.not_eq_true', List.all_eq_true,
    bne_iff_ne, ne_eq]
  refine ⟨?_, hsolid⟩
  cases t with
  | nil => exact absurd rfl hne
  | cons a t => rfl

theorem bitsToRat_none_of (u : UInt64) (h : decompose u = none) : bitsToRat u = none := by
  rw [bitsToRat_eq_decompose, h]; rfl

/-- a non-finite pattern that is not a NaN is one of the two infinities -/
theorem inf_cases (u : UInt64) (h : decompose u = none) (hn : isNaNBits u = false) :
    (u.toNat / 2 ^ 63 = 0 ∧ u = 0x7FF0000000000000) ∨ (u.toNat / 2 ^ 63 = 1 ∧ u = 0xFFF0000000000000) := by
  have hlt : u.toNat < 2 ^ 64 := u.toNat_lt
  have he : (u.toNat / 2 ^ 52) % 2048 = 2047 := by
    unfold decompose at h
    simp only at h
    by_contra hc
    rw [if_neg hc] at h
    split at h
    · nomatch h
    · split at h <;> nomatch h
  have hm : u.toNat % 2 ^ 52 = 0 := by
    unfold isNaNBits at hn
    rw [he] at hn
    simpa using hn
  have : u.toNat = 2047 * 2 ^ 52 ∨ u.toNat = 2 ^ 63 + 2047 * 2 ^ 52 := by omega
  rcases this with h0 | h0
  · left
    refine ⟨by omega, ?_⟩
    apply UInt64.toNat_inj.mp
    rw [h0]; rfl
  · right
    refine ⟨by omega, ?_⟩
    apply UInt64.toNat_inj.mp
    rw [h0]; rfl

/-- **C16_floatCellCert_all**: the per-cell certificate holds for EVERY bit pattern (finite, ±0, subnormal,
NaN with any payload, ±Inf) at every precision `p ≤ 5000` — the judge's check can never fail on the model. -/
theorem C16_floatCellCert_all (p : Nat) (hp5 : p ≤ 5000) (u : UInt64) : floatCellCert p u = true := by
  cases hd : decompose u with
  | some t =>
    obtain ⟨neg, num, den⟩ := t
    obtain ⟨y, hy, hdist⟩ := C16_float_universal p hp5 u neg num den hd
    obtain ⟨hden, _, _, _⟩ := decompose_val u neg num den hd
    have hfmt : fmtFloat p u = fmtFixed neg num den p := by unfold fmtFloat; rw [hd]
    obtain ⟨hne, hsolid, _, _⟩ := C16_float_render neg num den p hden
    obtain ⟨h1, h2, h3⟩ := fmtFloat_finite_not_special p u (by rw [hd]; simp)
    rw [hfmt] at h1 h2 h3 hy
    obtain ⟨hyf, _⟩ := parseFloat_plain _ y h1 h2 h3 hy
    obtain ⟨⟨neg', num', den'⟩, hdy⟩ := decompose_of_finite y hyf
    exact cert_of p u y _ hfmt hne hsolid hy
      (closeBits_of_val p u y _ _ (val64_of_decompose u _ _ _ hd) (val64_of_decompose y _ _ _ hdy) hdist)
  | none =>
    have hbu := bitsToRat_none_of u hd
    by_cases hn : isNaNBits u = true
    · have hfmt : fmtFloat p u = [78, 97, 78] := by unfold fmtFloat; rw [hd]; simp only [hn, if_true]
      refine cert_of p u 0x7FF8000000000001 _ hfmt (by simp) (by decide) (by decide) ?_
      unfold closeBits
      rw [hbu, show bitsToRat 0x7FF8000000000001 = none by decide]
      have hc : isNaNBits 0x7FF8000000000001 = true := by decide
      simp [hn, hc]
    · have hn' : isNaNBits u = false := by simpa using hn
      rcases inf_cases u hd hn' with ⟨hs, hu⟩ | ⟨hs, hu⟩
      · have hfmt : fmtFloat p u = [43, 73, 110, 102] := by
          unfold fmtFloat; rw [hd]; simp only [hn', hs]; decide
        refine cert_of p u 0x7FF0000000000000 _ hfmt (by simp) (by decide) (by decide) ?_
        subst hu
        unfold closeBits
        rw [hbu]; simp only []; decide
      · have hfmt : fmtFloat p u = [45, 73, 110, 102] := by
          unfold fmtFloat; rw [hd]; simp only [hn', hs]; decide
        refine cert_of p u 0xFFF0000000000000 _ hfmt (by simp) (by decide) (by decide) ?_
        subst hu
        unfold closeBits
        rw [hbu]; simp only []; decide

/-- **C16_floatFmt_instance**: the `FloatFmt` contract assumed by `C16_float` holds for the model's
`FormatFloat(·,'f',p,64)` / `ParseFloat` pair on ALL of `UInt64` with `closeBits p` as closeness. -/
theorem C16_floatFmt_instance (p : Nat) (hp5 : p ≤ 5000) :
    FloatFmt (fmtFloat p) parseFloat (fun u y => closeBits p u y = true) := by
  have hall := C16_floatCellCert_all p hp5
  have hparts : ∀ u, fmtFloat p u ≠ [] ∧ (∀ b ∈ fmtFloat p u, b ≠ 32 ∧ b ≠ 0) ∧
      ∃ y, parseFloat (fmtFloat p u) = some y ∧ closeBits p u y = true := by
    intro u
    have hc := hall u
    unfold floatCellCert at hc
    simp only [Bool.and_eq_true, Bool.not_eq_true', List.all_eq_true, bne_iff_ne, ne_eq] at hc
    obtain ⟨⟨hne', hs⟩, hrt⟩ := hc
    refine ⟨by intro h; rw [h] at hne'; simp at hne', hs, ?_⟩
    cases hp : parseFloat (fmtFloat p u) with
    | none => rw [hp] at hrt; exact absurd hrt (by simp)
    | some y => rw [hp] at hrt; exact ⟨y, rfl, hrt⟩
  exact ⟨fun u => (hparts u).1, fun u => (hparts u).2.1, fun u => (hparts u).2.2⟩

/-- **C16_float_unconditional**: the conclusion of `C16_float` for every bit pattern, no hypothesis on the
formatter/parser left (only that the rendering fits the column, and `p ≤ 5000`). -/
theorem C16_float_unconditional (p : Nat) (hp5 : p ≤ 5000) (u : UInt64) (size : Nat)
    (hfit : (fmtFloat p u).length ≤ size) :
    (∃ y, parseFloat (numText (cellOf size (fmtFloat p u))) = some y ∧ closeBits p u y = true) ∧
    strOf (cellOf size (fmtFloat p u)) = fmtFloat p u :=
  C16_float_cert p u size (C16_floatCellCert_all p hp5 u) hfit

/-- the non-finite patterns: every NaN is written `NaN` and read as the quiet NaN `0x7FF8000000000001`;
`+Inf` / `-Inf` are read back as themselves -/
theorem C16_float_nonfinite (p : Nat) (u : UInt64) (h : decompose u = none) :
    parseFloat (fmtFloat p u) = some (if isNaNBits u then 0x7FF8000000000001 else u) := by
  by_cases hn : isNaNBits u = true
  · have hfmt : fmtFloat p u = [78, 97, 78] := by unfold fmtFloat; rw [h]; simp only [hn, if_true]
    rw [hfmt, if_pos hn]; decide
  · have hn' : isNaNBits u = false := by simpa using hn
    rw [if_neg hn]
    rcases inf_cases u h hn' with ⟨hs, hu⟩ | ⟨hs, hu⟩
    · have hfmt : fmtFloat p u = [43, 73, 110, 102] := by
        unfold fmtFloat; rw [h]; simp only [hn', hs]; decide
      rw [hfmt, hu]; decide
    · have hfmt : fmtFloat p u = [45, 73, 110, 102] := by
        unfold fmtFloat; rw [h]; simp only [hn', hs]; decide
      rw [hfmt, hu]; decide

example : floatCellCert 10 0x7FEFFFFFFFFFFFFF = true := by decide +kernel   -- MaxFloat64 (309 integer digits)
example : floatCellCert 10 0xFFEFFFFFFFFFFFFF = true := by decide +kernel   -- -MaxFloat64
example : floatCellCert 0 0x4004000000000000 = true := by decide +kernel    -- 2.5 at 0 decimals ↦ "2"
example : closeBits 10 0x3FB999999999999A 0x3FB999999999999B = true ∧
    closeBits 10 0x3FF0000000000000 0x3FF0000001000000 = false ∧
    closeBits 10 0x7FF0000000000000 0xFFF0000000000000 = false ∧
    closeBits 10 0x7FF8000000000001 0x7FF0000000000000 = false := by decide +kernel

end GeomV.C16
