import GeomV.C07.LemmasCost
import GeomV.C07.ModelStream
/-! `readP` interpreted on a byte slice IS `readC` (result and cost); simulation of a scripted reader
by a byte slice (`sim`). -/
set_option linter.unusedSimpArgs false
set_option linter.unusedVariables false
namespace GeomV.C07
open GeomV GeomV.C05

/-! ### `takeF` -/

theorem takeF_append {k : Nat} {h : Bytes} (t : Bytes) (hl : h.length = k) : takeF k (h ++ t) = some (h, t) := by
  subst hl
  induction h with
  | nil => simp [takeF]
  | cons b h ih => simp [takeF, ih]

theorem takeF_some {k : Nat} {bs h t : Bytes} (e : takeF k bs = some (h, t)) : bs = h ++ t ∧ h.length = k := by
  rw [takeF_eq] at e
  split at e
  · cases e
  · cases e
    refine ⟨(List.take_append_drop k bs).symm, ?_⟩
    simp [List.length_take]; omega

theorem takeF_none {k : Nat} {bs : Bytes} (e : takeF k bs = none) : bs.length < k := by
  rw [takeF_eq] at e
  split at e
  · assumption
  · cases e

theorem takeF_short {k : Nat} {bs : Bytes} (h : bs.length < k) : takeF k bs = none := by
  rw [takeF_eq]; simp [h]

/-! ### `runB` rewrite rules -/

variable {α β : Type}

theorem cm_ext {ε : Type} {a b : CM ε α} (h1 : a.res = b.res) (h2 : a.cost = b.cost) : a = b := by
  cases a; cases b; simp_all

theorem runB_bind (p : Prog α) (f : α → Prog β) : ∀ bs : Bytes,
    runB (p.bind f) bs = (runB p bs >>= fun x => runB (f x.1) x.2) := by
  induction p with
  | ret a => intro bs; simp [Prog.bind, runB, bind_def, CM.bind']
  | fail e => intro bs; simp [Prog.bind, runB, bind_def, CM.bind']
  | req k c ih =>
    intro bs
    simp only [Prog.bind, runB]
    cases h : takeF k bs with
    | none => simp [bind_def, CM.bind']
    | some r => obtain ⟨hd, t⟩ := r; simp only; exact ih hd t
  | alloc n c ih =>
    intro bs
    simp only [Prog.bind, runB, ih bs, bind_def, CM.bind']
    cases h : (runB c bs).res with
    | error e => simp
    | ok a => simp [Nat.add_assoc]

theorem runB_ret (a : α) (bs : Bytes) : runB (.ret a) bs = pure (a, bs) := rfl
theorem runB_fail (e : Err) (bs : Bytes) : runB (.fail e : Prog α) bs = lift (.error e) := rfl
theorem runB_alloc (n : Nat) (c : Prog α) (bs : Bytes) :
    runB (.alloc n c) bs = (alloc n >>= fun _ => runB c bs) := rfl

theorem runB_ofExcept_bind (r : Except Err α) (f : α → Prog β) (bs : Bytes) :
    runB ((Prog.ofExcept r).bind f) bs = (lift r >>= fun a => runB (f a) bs) := by
  cases r with
  | error e => simp [Prog.ofExcept, Prog.bind, runB, bind_def, CM.bind', lift]
  | ok a =>
    simp only [Prog.ofExcept, Prog.bind, bind_def, CM.bind', lift]
    exact cm_ext rfl (by simp)

theorem runB_req1 (f : Bytes → Prog α) (bs : Bytes) :
    runB (.req 1 f) bs = (lift (takeNF 1 bs) >>= fun x => runB (f x.1) x.2) := by
  simp only [runB, takeNF, bind_def, CM.bind', lift]
  cases h : takeF 1 bs with
  | none => rfl
  | some r => obtain ⟨hd, t⟩ := r; exact cm_ext rfl (by simp)

theorem runB_u32P (bo : BO) (bs : Bytes) : runB (u32P bo) bs = lift (readU32F bo bs) := by
  simp only [u32P, runB, readU32F, readNatF, takeNF, lift]
  cases h : takeF 4 bs with
  | none => rfl
  | some r => obtain ⟨hd, t⟩ := r; rfl

/-! ### points: one request of 16·k bytes is k point reads -/

theorem readPointF_short (bo : BO) {bs : Bytes} (h : bs.length < 16) : readPointF bo bs = .error .eof := by
  simp only [readPointF, readU64F, readNatF, takeNF, bind, Except.bind, pure, Except.pure]
  cases h1 : takeF 8 bs with
  | none => rfl
  | some r =>
    obtain ⟨h8, t⟩ := r
    obtain ⟨e1, e2⟩ := takeF_some h1
    have : t.length < 8 := by subst e1; simp at h; omega
    simp [takeF_short this]

theorem readPointF_frame (bo : BO) {h : Bytes} (hl : h.length = 16) :
    ∃ p, ∀ t, readPointF bo (h ++ t) = .ok (p, t) := by
  have e : h = h.take 8 ++ h.drop 8 := (List.take_append_drop 8 h).symm
  have l1 : (h.take 8).length = 8 := by simp [List.length_take]; omega
  have l2 : (h.drop 8).length = 8 := by simp [List.length_drop]; omega
  refine ⟨⟨UInt64.ofNat (valBytes bo (h.take 8)), UInt64.ofNat (valBytes bo (h.drop 8))⟩, fun t => ?_⟩
  rw [e, List.append_assoc]
  simp only [readPointF, readU64F, readNatF, takeNF, bind, Except.bind, pure, Except.pure,
    takeF_append _ l1, takeF_append _ l2]
  simp [← e]

theorem readManyPts_short (bo : BO) : ∀ (k : Nat) (bs : Bytes), bs.length < 16 * k →
    readMany (readPointF bo) k bs = .error .eof := by
  intro k
  induction k with
  | zero => intro bs h; omega
  | succ k ih =>
    intro bs h
    simp only [readMany, bind, Except.bind]
    by_cases h16 : bs.length < 16
    · simp [readPointF_short bo h16]
    · have hs : takeF 16 bs ≠ none := fun e => h16 (takeF_none e)
      cases h1 : takeF 16 bs with
      | none => exact (hs h1).elim
      | some r =>
        obtain ⟨hd, t⟩ := r
        obtain ⟨e1, e2⟩ := takeF_some h1
        obtain ⟨p, hp⟩ := readPointF_frame bo e2
        have hlt : t.length < 16 * k := by subst e1; simp at h; omega
        subst e1
        simp [hp t, ih t hlt]

theorem readManyPts_frame (bo : BO) : ∀ (k : Nat) (h : Bytes), h.length = 16 * k →
    ∃ ps, ∀ t, readMany (readPointF bo) k (h ++ t) = .ok (ps, t) := by
  intro k
  induction k with
  | zero =>
    intro h hl
    have : h = [] := List.eq_nil_of_length_eq_zero (by omega)
    subst this
    exact ⟨[], fun t => by simp [readMany]⟩
  | succ k ih =>
    intro h hl
    have e : h = h.take 16 ++ h.drop 16 := (List.take_append_drop 16 h).symm
    have l1 : (h.take 16).length = 16 := by simp [List.length_take]; omega
    have l2 : (h.drop 16).length = 16 * k := by simp [List.length_drop]; omega
    obtain ⟨p, hp⟩ := readPointF_frame bo l1
    obtain ⟨ps, hps⟩ := ih _ l2
    refine ⟨p :: ps, fun t => ?_⟩
    rw [e, List.append_assoc]
    simp only [readMany, bind, Except.bind, pure, Except.pure, hp, hps]

theorem runB_ptsP (bo : BO) (k : Nat) (bs : Bytes) :
    runB (ptsP bo k) bs = lift (readMany (readPointF bo) k bs) := by
  simp only [ptsP, runB]
  cases h : takeF (16 * k) bs with
  | none => simp only [readManyPts_short bo k bs (takeF_none h)]; rfl
  | some r =>
    obtain ⟨hd, t⟩ := r
    obtain ⟨e1, e2⟩ := takeF_some h
    obtain ⟨ps, hps⟩ := readManyPts_frame bo k hd e2
    have h0 := hps []
    rw [List.append_nil] at h0
    subst e1
    simp only [runB, parsePts, h0, hps t]
    rfl

theorem runB_pointP (bo : BO) (bs : Bytes) : runB (pointP bo) bs = lift (readPointF bo bs) := by
  simp only [pointP, runB]
  cases h : takeF 16 bs with
  | none => simp only [readPointF_short bo (takeF_none h)]; rfl
  | some r =>
    obtain ⟨hd, t⟩ := r
    obtain ⟨e1, e2⟩ := takeF_some h
    obtain ⟨p, hp⟩ := readPointF_frame bo e2
    have h0 := hp []
    rw [List.append_nil] at h0
    subst e1
    simp only [h0, hp t, Except.map, Prog.ofExcept, runB]
    rfl

/-! ### the program is the cost-instrumented reader -/

theorem runB_chunksP (pol : Policy) (bo : BO) : ∀ (f rem : Nat) (bs : Bytes),
    runB (chunksP pol bo f rem) bs = readChunks pol bo f rem bs := by
  intro f
  induction f with
  | zero =>
    intro rem bs
    cases rem with
    | zero => simp only [chunksP, readChunks, runB_ret]
    | succ rem => simp only [chunksP, readChunks, runB_fail]
  | succ f ih =>
    intro rem bs
    cases rem with
    | zero => simp only [chunksP, readChunks, runB_ret]
    | succ rem =>
      simp only [chunksP, readChunks, runB_alloc, runB_bind, runB_ptsP, runB_ret, ih]

theorem runB_pointsP (pol : Policy) (bo : BO) (bs : Bytes) :
    runB (pointsP pol bo) bs = readPointsC pol bo bs := by
  simp only [pointsP, readPointsC, runB_bind, runB_u32P, runB_alloc, runB_chunksP]

theorem runB_manyP {β : Type} (pol : Policy) (slot : Nat) (rd : Prog β) (rdC : Bytes → W (β × Bytes))
    (h : ∀ bs, runB rd bs = rdC bs) : ∀ (n : Nat) (bs : Bytes),
    runB (manyP pol slot rd n) bs = readManyC pol slot rdC n bs := by
  intro n
  induction n with
  | zero => intro bs; simp only [manyP, readManyC, runB_ret]
  | succ n ih =>
    intro bs
    simp only [manyP, readManyC, runB_bind, runB_alloc, runB_ret, h, ih]

theorem runB_asP {β : Type} (rd : Prog BGeom) (rdC : Bytes → W (BGeom × Bytes)) (cast : BGeom → Except Err β)
    (h : ∀ bs, runB rd bs = rdC bs) (bs : Bytes) : runB (asP rd cast) bs = readAsC rdC cast bs := by
  simp only [asP, readAsC, runB_bind, h]
  congr 1
  funext x
  obtain ⟨g, b1⟩ := x
  simp only
  cases cast g with
  | error e => rfl
  | ok v => exact cm_ext rfl (by simp [Prog.ofExcept, runB, bind_def, CM.bind', lift, pure_def, CM.pure'])

theorem runB_ite (c : Prop) [Decidable c] (a b : Prog α) (bs : Bytes) :
    runB (if c then a else b) bs = if c then runB a bs else runB b bs := by split <;> rfl

/-- **the decoder written over `io.ReadFull` requests, run on a byte slice, is `readC`** — same
result, same rest, same cost, for every policy, budget and input. -/
theorem readP_runB (pol : Policy) : ∀ (fuel : Nat) (bs : Bytes), runB (readP pol fuel) bs = readC pol fuel bs := by
  intro fuel
  induction fuel with
  | zero => intro bs; simp only [readP, readC, runB_fail]
  | succ f ih =>
    intro bs
    simp only [readP, readC, runB_req1]
    congr 1; funext x; obtain ⟨fl, b1⟩ := x; simp only
    rw [runB_ofExcept_bind]
    congr 1; funext bo
    rw [runB_bind, runB_u32P]
    congr 1; funext x; obtain ⟨code, b2⟩ := x; simp only [runB_ite]
    refine ite_congr rfl (fun _ => ?_) (fun _ => ?_)
    · simp only [runB_bind, runB_pointP, runB_ret]
    refine ite_congr rfl (fun _ => ?_) (fun _ => ?_)
    · simp only [runB_bind, runB_pointsP, runB_ret]
    refine ite_congr rfl (fun _ => ?_) (fun _ => ?_)
    · simp only [runB_bind, runB_u32P, runB_alloc, runB_ret,
        runB_manyP pol 24 _ _ (runB_pointsP pol bo)]
    refine ite_congr rfl (fun _ => ?_) (fun _ => ?_)
    · simp only [runB_bind, runB_u32P, runB_alloc, runB_ret,
        runB_manyP pol 16 _ _ (runB_asP _ _ asPoint ih)]
    refine ite_congr rfl (fun _ => ?_) (fun _ => ?_)
    · simp only [runB_bind, runB_u32P, runB_alloc, runB_ret,
        runB_manyP pol 24 _ _ (runB_asP _ _ asLine ih)]
    refine ite_congr rfl (fun _ => ?_) (fun _ => ?_)
    · simp only [runB_bind, runB_u32P, runB_alloc, runB_ret,
        runB_manyP pol 24 _ _ (runB_asP _ _ asPoly ih)]
    refine ite_congr rfl (fun _ => ?_) (fun _ => ?_)
    · simp only [runB_bind, runB_u32P, runB_alloc, runB_ret,
        runB_manyP pol 16 _ _ ih]
    · simp only [runB_fail]

/-! ### `io.ReadFull` on a scripted reader -/

theorem eofish_cases (g : Bytes) (e : RErr) : eofish g e = e ∨ (e = .eof ∧ eofish g e = .unexpectedEOF) := by
  unfold eofish
  split
  · rename_i h
    simp only [Bool.and_eq_true, beq_iff_eq] at h
    exact .inr ⟨h.2, rfl⟩
  · exact .inl rfl

theorem mem_errsOf_cons_of_tail {ev : Ev} {r : List Ev} {e : RErr} (h : e ∈ errsOf r) : e ∈ errsOf (ev :: r) := by
  simp only [errsOf, List.mem_append]; exact .inr h

theorem readFull_ok (fin : RErr) : ∀ (s : List Ev) (need : Nat) (acc h : Bytes) (s' : List Ev),
    readFull fin need acc s = .ok (h, s') →
    ∃ h', h = acc ++ h' ∧ h'.length = need ∧ dataOf s = h' ++ dataOf s' ∧ (∀ e ∈ errsOf s', e ∈ errsOf s) := by
  intro s
  induction s with
  | nil => intro need acc h s' e; simp [readFull] at e
  | cons ev r ih =>
    intro need acc h s' e
    simp only [readFull] at e
    split at e
    · rename_i hlt
      cases e
      refine ⟨ev.data.take need, rfl, by simp [List.length_take]; omega, ?_, ?_⟩
      · simp only [dataOf, ← List.append_assoc, List.take_append_drop]
      · intro e he; simpa [errsOf] using he
    · split at e
      · rename_i _ heq
        cases e
        exact ⟨ev.data, rfl, heq.symm, rfl, fun e he => mem_errsOf_cons_of_tail he⟩
      · rename_i hn1 hn2
        cases hE : ev.err with
        | some e1 => rw [hE] at e; cases e
        | none =>
          rw [hE] at e
          simp only at e
          obtain ⟨h'', e1, e2, e3, e4⟩ := ih _ _ _ _ e
          refine ⟨ev.data ++ h'', by rw [e1, List.append_assoc], by simp [e2]; omega, ?_, fun x hx => mem_errsOf_cons_of_tail (e4 x hx)⟩
          simp only [dataOf, e3, List.append_assoc]

theorem readFull_err (fin : RErr) : ∀ (s : List Ev) (need : Nat) (acc : Bytes) (e : RErr), 0 < need →
    readFull fin need acc s = .error e →
    ∃ c tl e0, dataOf s = c ++ tl ∧ c.length < need ∧ e = eofish (acc ++ c) e0 ∧
      ((e0 = fin ∧ tl = []) ∨ e0 ∈ errsOf s) := by
  intro s
  induction s with
  | nil =>
    intro need acc e hn h
    simp only [readFull] at h
    cases h
    exact ⟨[], [], fin, rfl, hn, by simp, .inl ⟨rfl, rfl⟩⟩
  | cons ev r ih =>
    intro need acc e hn h
    simp only [readFull] at h
    split at h
    · cases h
    · split at h
      · cases h
      · rename_i hn1 hn2
        cases hE : ev.err with
        | some e1 =>
          rw [hE] at h
          cases h
          refine ⟨ev.data, dataOf r, e1, rfl, by omega, rfl, .inr ?_⟩
          simp [errsOf, hE]
        | none =>
          rw [hE] at h
          simp only at h
          obtain ⟨c, tl, e0, e1, e2, e3, e4⟩ := ih _ _ _ (by omega) h
          refine ⟨ev.data ++ c, tl, e0, by simp [dataOf, e1], by simp; omega, by rw [e3, List.append_assoc], ?_⟩
          rcases e4 with e4 | e4
          · exact .inl e4
          · exact .inr (mem_errsOf_cons_of_tail e4)

/-! ### simulation: a program on a scripted reader behaves like the same program on a byte slice -/

/-- What a run of `p` on the scripted reader `(s, fin)` has to do with runs of `p` on byte slices:
* success: it consumed a prefix `c` of the script's data, and on ANY slice that starts with `c` the
  program succeeds with the same value, the same cost, and the rest of the slice left over;
* an error made by the program itself: the same error, at the same cost, on any slice that starts with the
  prefix `c` consumed so far;
* an error `e` of the reader: the slice `c` of everything DELIVERED so far ends too early for the program
  (`Err.eof`, same cost); `e` is an error value `e0` of the script (or `fin`, and then `c` is ALL the data),
  or `ErrUnexpectedEOF` in place of `EOF`. -/
def Sim {α : Type} (fin : RErr) (p : Prog α) (s : List Ev) : Prop :=
  match (runS fin p s).res with
  | .ok (a, s') => ∃ c, dataOf s = c ++ dataOf s' ∧ (∀ e ∈ errsOf s', e ∈ errsOf s) ∧
      ∀ rest, (runB p (c ++ rest)).res = .ok (a, rest) ∧ (runB p (c ++ rest)).cost = (runS fin p s).cost
  | .error (.wkb x) => ∃ c tl, dataOf s = c ++ tl ∧
      ∀ rest, (runB p (c ++ rest)).res = .error x ∧ (runB p (c ++ rest)).cost = (runS fin p s).cost
  | .error (.reader e) => ∃ c tl e0, dataOf s = c ++ tl ∧
      (runB p c).res = .error .eof ∧ (runB p c).cost = (runS fin p s).cost ∧
      (e = e0 ∨ (e0 = .eof ∧ e = .unexpectedEOF)) ∧ ((e0 = fin ∧ tl = []) ∨ e0 ∈ errsOf s)

theorem sim {α : Type} (fin : RErr) (p : Prog α) : ∀ s, Sim fin p s := by
  induction p with
  | ret a => intro s; exact ⟨[], rfl, fun _ h => h, fun rest => ⟨rfl, rfl⟩⟩
  | fail x => intro s; exact ⟨[], dataOf s, rfl, fun rest => ⟨rfl, rfl⟩⟩
  | alloc n c ih =>
    intro s
    have h := ih s
    unfold Sim at h ⊢
    simp only [runS, runB]
    cases hr : (runS fin c s).res with
    | ok r =>
      obtain ⟨a, s'⟩ := r
      rw [hr] at h
      obtain ⟨c', h1, h2, h3⟩ := h
      exact ⟨c', h1, h2, fun rest => ⟨(h3 rest).1, by rw [(h3 rest).2]⟩⟩
    | error e =>
      rw [hr] at h
      cases e with
      | wkb x =>
        obtain ⟨c', tl, h1, h3⟩ := h
        exact ⟨c', tl, h1, fun rest => ⟨(h3 rest).1, by rw [(h3 rest).2]⟩⟩
      | reader e =>
        obtain ⟨c', tl, e0, h1, h2, h3, h4⟩ := h
        exact ⟨c', tl, e0, h1, h2, by rw [h3], h4⟩
  | req k cont ih =>
    intro s
    unfold Sim
    simp only [runS]
    cases hq : reqS fin k s with
    | error e =>
      simp only
      have hk : 0 < k := by
        rcases Nat.eq_zero_or_pos k with h0 | h0
        · subst h0; simp [reqS] at hq
        · exact h0
      have hq' : readFull fin k [] s = .error e := by simpa [reqS, Nat.ne_of_gt hk] using hq
      obtain ⟨c, tl, e0, e1, e2, e3, e4⟩ := readFull_err fin s k [] e hk hq'
      refine ⟨c, tl, e0, e1, ?_, ?_, ?_, e4⟩
      · simp only [runB, takeF_short e2]
      · simp only [runB, takeF_short e2]
      · rw [e3]
        rcases eofish_cases ([] ++ c) e0 with h | h
        · exact .inl h
        · exact .inr h
    | ok r =>
      obtain ⟨hd, s1⟩ := r
      simp only
      have hfr : dataOf s = hd ++ dataOf s1 ∧ hd.length = k ∧ (∀ e ∈ errsOf s1, e ∈ errsOf s) := by
        by_cases h0 : k = 0
        · subst h0; simp [reqS] at hq; obtain ⟨rfl, rfl⟩ := hq; exact ⟨rfl, rfl, fun _ h => h⟩
        · have hq' : readFull fin k [] s = .ok (hd, s1) := by simpa [reqS, h0] using hq
          obtain ⟨h', e1, e2, e3, e4⟩ := readFull_ok fin s k [] hd s1 hq'
          simp only [List.nil_append] at e1
          subst e1
          exact ⟨e3, e2, e4⟩
      obtain ⟨f1, f2, f3⟩ := hfr
      have h := ih hd s1
      unfold Sim at h
      have hB : ∀ rest, runB (.req k cont) (hd ++ rest) = runB (cont hd) rest := by
        intro rest; simp only [runB, takeF_append rest f2]
      cases hr : (runS fin (cont hd) s1).res with
      | ok r =>
        obtain ⟨a, s'⟩ := r
        rw [hr] at h
        obtain ⟨c', h1, h2, h3⟩ := h
        refine ⟨hd ++ c', by rw [f1, h1, List.append_assoc], fun e he => f3 e (h2 e he), fun rest => ?_⟩
        rw [List.append_assoc, hB]; exact h3 rest
      | error e =>
        rw [hr] at h
        cases e with
        | wkb x =>
          obtain ⟨c', tl, h1, h3⟩ := h
          refine ⟨hd ++ c', tl, by rw [f1, h1, List.append_assoc], fun rest => ?_⟩
          rw [List.append_assoc, hB]; exact h3 rest
        | reader e =>
          obtain ⟨c', tl, e0, h1, h2, h3, h4, h5⟩ := h
          refine ⟨hd ++ c', tl, e0, by rw [f1, h1, List.append_assoc], ?_, ?_, h4, ?_⟩
          · rw [hB]; exact h2
          · rw [hB]; exact h3
          · rcases h5 with h5 | h5
            · exact .inl h5
            · exact .inr (f3 e0 h5)

/-! ### the decoder never MAKES an end-of-input error: `Err.eof` only ever comes from a request -/

/-- no `fail .eof` is reachable when every request is answered with a buffer of the requested length -/
def noEof {α : Type} : Prog α → Prop
  | .ret _ => True
  | .fail e => e ≠ .eof
  | .req k c => ∀ h : Bytes, h.length = k → noEof (c h)
  | .alloc _ c => noEof c

theorem noEof_bind {α β : Type} (p : Prog α) (f : α → Prog β) (hp : noEof p) (hf : ∀ a, noEof (f a)) :
    noEof (p.bind f) := by
  induction p with
  | ret a => exact hf a
  | fail e => exact hp
  | req k c ih => intro h hl; exact ih h (hp h hl)
  | alloc n c ih => exact ih hp

theorem noEof_u32P (bo : BO) : noEof (u32P bo) := fun _ _ => trivial
theorem noEof_ptsP (bo : BO) (k : Nat) : noEof (ptsP bo k) := fun _ _ => trivial
theorem noEof_pointP (bo : BO) : noEof (pointP bo) := by
  intro h hl
  obtain ⟨p, hp⟩ := readPointF_frame bo hl
  have h0 := hp []
  rw [List.append_nil] at h0
  simp [h0, Except.map, Prog.ofExcept, noEof]

theorem noEof_chunksP (pol : Policy) (bo : BO) : ∀ f rem, noEof (chunksP pol bo f rem) := by
  intro f
  induction f with
  | zero => intro rem; cases rem <;> simp [chunksP, noEof]
  | succ f ih =>
    intro rem
    cases rem with
    | zero => simp [chunksP, noEof]
    | succ rem =>
      simp only [chunksP, noEof]
      exact noEof_bind _ _ (noEof_ptsP _ _) fun ps => noEof_bind _ _ (ih _) fun _ => trivial

theorem noEof_pointsP (pol : Policy) (bo : BO) : noEof (pointsP pol bo) :=
  noEof_bind _ _ (noEof_u32P bo) fun n => noEof_chunksP pol bo n n

theorem noEof_manyP {β : Type} (pol : Policy) (slot : Nat) (rd : Prog β) (h : noEof rd) :
    ∀ n, noEof (manyP pol slot rd n) := by
  intro n
  induction n with
  | zero => trivial
  | succ n ih => exact noEof_bind _ _ h fun a => noEof_bind _ _ ih fun _ => trivial

theorem noEof_asP {β : Type} (rd : Prog BGeom) (cast : BGeom → Except Err β) (h : noEof rd)
    (hc : ∀ g x, cast g = .error x → x = .unexpected) : noEof (asP rd cast) := by
  refine noEof_bind _ _ h fun g => ?_
  cases hg : cast g with
  | ok v => trivial
  | error x => have := hc g x hg; subst this; simp [Prog.ofExcept, noEof]

theorem noEof_readP (pol : Policy) : ∀ fuel, noEof (readP pol fuel) := by
  intro fuel
  induction fuel with
  | zero => simp [readP, noEof]
  | succ f ih =>
    intro fl hl
    match fl, hl with
    | [b], _ =>
      refine noEof_bind _ _ ?_ fun bo => noEof_bind _ _ (noEof_u32P bo) fun code => ?_
      · show noEof (Prog.ofExcept (if b = 0 then .ok BO.xdr else if b = 1 then .ok BO.ndr else .error .badOrder))
        split
        · trivial
        · split
          · trivial
          · simp [Prog.ofExcept, noEof]
      · split
        · exact noEof_bind _ _ (noEof_pointP bo) fun _ => trivial
        split
        · exact noEof_bind _ _ (noEof_pointsP pol bo) fun _ => trivial
        split
        · exact noEof_bind _ _ (noEof_u32P bo) fun n =>
            noEof_bind _ _ (noEof_manyP pol 24 _ (noEof_pointsP pol bo) n) fun _ => trivial
        split
        · exact noEof_bind _ _ (noEof_u32P bo) fun n =>
            noEof_bind _ _ (noEof_manyP pol 16 _ (noEof_asP _ _ ih (fun g x h => asPoint_err h)) n) fun _ => trivial
        split
        · exact noEof_bind _ _ (noEof_u32P bo) fun n =>
            noEof_bind _ _ (noEof_manyP pol 24 _ (noEof_asP _ _ ih (fun g x h => asLine_err h)) n) fun _ => trivial
        split
        · exact noEof_bind _ _ (noEof_u32P bo) fun n =>
            noEof_bind _ _ (noEof_manyP pol 24 _ (noEof_asP _ _ ih (fun g x h => asPoly_err h)) n) fun _ => trivial
        split
        · exact noEof_bind _ _ (noEof_u32P bo) fun n =>
            noEof_bind _ _ (noEof_manyP pol 16 _ ih n) fun _ => trivial
        · simp [noEof]

/-- on a scripted reader a program without `fail .eof` never reports `Err.eof` as its own error -/
theorem runS_noEof {α : Type} (fin : RErr) (p : Prog α) (hp : noEof p) : ∀ s, (runS fin p s).res ≠ .error (.wkb .eof) := by
  induction p with
  | ret a => intro s h; cases h
  | fail e => intro s h; simp only [runS] at h; cases h; exact hp rfl
  | alloc n c ih => intro s; exact ih hp s
  | req k cont ih =>
    intro s
    simp only [runS]
    cases hq : reqS fin k s with
    | error e => intro h; cases h
    | ok r =>
      obtain ⟨hd, s1⟩ := r
      have hl : hd.length = k := by
        by_cases h0 : k = 0
        · subst h0; simp [reqS] at hq; rw [hq.1]; rfl
        · have hq' : readFull fin k [] s = .ok (hd, s1) := by simpa [reqS, h0] using hq
          obtain ⟨h', e1, e2, _, _⟩ := readFull_ok fin s k [] hd s1 hq'
          simp only [List.nil_append] at e1
          subst e1; exact e2
      exact ih hd (hp hd hl) s1


/-! ### the final error together with the LAST piece is the final error alone -/

/-- the script with the error of its last event removed when that error is `fin` itself -/
def normLast (fin : RErr) : List Ev → List Ev
  | [] => []
  | [ev] => [⟨ev.data, if ev.err = some fin then none else ev.err⟩]
  | ev :: e2 :: r => ev :: normLast fin (e2 :: r)

theorem dataOf_normLast (fin : RErr) : ∀ s, dataOf (normLast fin s) = dataOf s
  | [] => rfl
  | [ev] => rfl
  | ev :: e2 :: r => by simp only [normLast, dataOf, dataOf_normLast fin (e2 :: r)]

def mapRest {α : Type} (fin : RErr) (x : α × List Ev) : α × List Ev := (x.1, normLast fin x.2)

theorem readFull_normLast (fin : RErr) : ∀ (s : List Ev) (need : Nat) (acc : Bytes),
    readFull fin need acc (normLast fin s) = (readFull fin need acc s).map (mapRest fin) := by
  intro s
  induction s with
  | nil => intro need acc; simp [normLast, readFull, Except.map]
  | cons ev r ih =>
    intro need acc
    cases r with
    | nil =>
      simp only [normLast, readFull]
      split
      · simp [Except.map, mapRest, normLast]
      · split
        · simp [Except.map, mapRest, normLast]
        · cases hE : ev.err with
          | none => simp [readFull, Except.map]
          | some e =>
            by_cases he : e = fin
            · subst he; simp [readFull, Except.map]
            · simp [he, Except.map]
    | cons e2 r =>
      simp only [normLast, readFull]
      split
      · simp [Except.map, mapRest, normLast]
      · split
        · simp [Except.map, mapRest]
        · cases hE : ev.err with
          | none => simp only; exact ih _ _
          | some e => simp [Except.map]

theorem reqS_normLast (fin : RErr) (k : Nat) (s : List Ev) :
    reqS fin k (normLast fin s) = (reqS fin k s).map (mapRest fin) := by
  unfold reqS
  split
  · simp [Except.map, mapRest]
  · exact readFull_normLast fin s k []

theorem runS_normLast {α : Type} (fin : RErr) (p : Prog α) : ∀ s,
    (runS fin p (normLast fin s)).res = (runS fin p s).res.map (mapRest fin) ∧
    (runS fin p (normLast fin s)).cost = (runS fin p s).cost := by
  induction p with
  | ret a => intro s; exact ⟨rfl, rfl⟩
  | fail e => intro s; exact ⟨rfl, rfl⟩
  | alloc n c ih => intro s; exact ⟨(ih s).1, by simp only [runS, (ih s).2]⟩
  | req k cont ih =>
    intro s
    simp only [runS, reqS_normLast]
    cases hq : reqS fin k s with
    | error e => exact ⟨rfl, rfl⟩
    | ok r => obtain ⟨hd, s1⟩ := r; simp only [Except.map, mapRest]; exact ih hd s1

end GeomV.C07
