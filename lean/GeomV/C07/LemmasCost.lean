import GeomV.C07.LemmasRead
/-! Cost monad: erasure to the C05 reader, and the allocation invariant. -/
set_option linter.unusedSimpArgs false
set_option linter.unusedVariables false
namespace GeomV.C07
open GeomV GeomV.C05

variable {ε α β : Type}

theorem bind_def (m : CM ε α) (f : α → CM ε β) : (m >>= f) = CM.bind' m f := rfl
theorem pure_def (a : α) : (pure a : CM ε α) = CM.pure' a := rfl

theorem bind_ok {m : CM ε α} {f : α → CM ε β} {a : α} (h : m.res = .ok a) :
    (m >>= f).res = (f a).res ∧ (m >>= f).cost = m.cost + (f a).cost := by
  simp [bind_def, CM.bind', h]

theorem bind_err {m : CM ε α} {f : α → CM ε β} {e : ε} (h : m.res = .error e) :
    (m >>= f).res = .error e ∧ (m >>= f).cost = m.cost := by
  simp [bind_def, CM.bind', h]

@[simp] theorem bind_res (m : CM ε α) (f : α → CM ε β) :
    (m >>= f).res = (m.res >>= fun a => (f a).res) := by
  cases h : m.res with
  | error e => rw [(bind_err (f := f) h).1]; rfl
  | ok a => rw [(bind_ok (f := f) h).1]; rfl

@[simp] theorem ite_res (c : Prop) [Decidable c] (a b : CM ε α) :
    (if c then a else b).res = if c then a.res else b.res := by split <;> rfl
@[simp] theorem pure_res (a : α) : (pure a : CM ε α).res = .ok a := rfl
@[simp] theorem pure_cost (a : α) : (pure a : CM ε α).cost = 0 := rfl
@[simp] theorem lift_res (r : Except ε α) : (lift r).res = r := rfl
@[simp] theorem lift_cost (r : Except ε α) : (lift r).cost = 0 := rfl
@[simp] theorem alloc_res (n : Nat) : (alloc n : CM ε Unit).res = .ok () := rfl
@[simp] theorem alloc_cost (n : Nat) : (alloc n : CM ε Unit).cost = n := rfl

/-! ### erasure -/

theorem readMany_add {β : Type} (rd : Bytes → Except Err (β × Bytes)) (a b : Nat) (bs : Bytes) :
    readMany rd (a + b) bs = (do
      let (xs, bs) ← readMany rd a bs
      let (ys, bs) ← readMany rd b bs
      pure (xs ++ ys, bs)) := by
  induction a generalizing bs with
  | zero =>
    simp only [Nat.zero_add, readMany, bind, Except.bind, pure, Except.pure]
    cases readMany rd b bs <;> simp
  | succ a ih =>
    rw [Nat.succ_add]
    simp only [readMany, bind, Except.bind, pure, Except.pure]
    cases h1 : rd bs with
    | error e => rfl
    | ok r1 =>
      obtain ⟨x, b1⟩ := r1
      simp only [ih b1, bind, Except.bind, pure, Except.pure]
      cases h2 : readMany rd a b1 with
      | error e => rfl
      | ok r2 =>
        obtain ⟨xs, b2⟩ := r2
        simp only
        cases h3 : readMany rd b b2 with
        | error e => rfl
        | ok r3 => simp

theorem readChunks_res (pol : Policy) (bo : BO) (hc : 0 < pol.chunk) :
    ∀ (f rem : Nat) (bs : Bytes), rem ≤ f →
      (readChunks pol bo f rem bs).res = readMany (readPoint bo) rem bs := by
  intro f
  induction f with
  | zero =>
    intro rem bs h
    have : rem = 0 := by omega
    subst this
    simp [readChunks, readMany]
  | succ f ih =>
    intro rem bs h
    cases rem with
    | zero => simp [readChunks, readMany]
    | succ rem =>
      have hk : min (rem + 1) pol.chunk ≤ rem + 1 := Nat.min_le_left _ _
      have hk0 : 0 < min (rem + 1) pol.chunk := by
        rw [Nat.lt_min]; exact ⟨by omega, hc⟩
      have hsplit : rem + 1 = min (rem + 1) pol.chunk + (rem + 1 - min (rem + 1) pol.chunk) := by omega
      have ih' : ∀ bs, (readChunks pol bo f (rem + 1 - min (rem + 1) pol.chunk) bs).res
          = readMany (readPoint bo) (rem + 1 - min (rem + 1) pol.chunk) bs := fun bs => ih _ bs (by omega)
      simp only [readChunks, bind_res, alloc_res, lift_res, readPointF_eq, pure_res, ih']
      conv => rhs; rw [hsplit, readMany_add]
      simp only [bind, Except.bind, pure, Except.pure]


theorem readPointsC_res (pol : Policy) (bo : BO) (hc : 0 < pol.chunk) (bs : Bytes) :
    (readPointsC pol bo bs).res = readPoints bo bs := by
  simp only [readPointsC, readPoints, bind_res, lift_res, alloc_res, readU32F_eq]
  simp only [bind, Except.bind]
  cases h : readU32 bo bs with
  | error e => rfl
  | ok r =>
    obtain ⟨n, b1⟩ := r
    simp only [readChunks_res pol bo hc n n b1 (Nat.le_refl _)]

theorem readManyC_res {β : Type} (pol : Policy) (slot : Nat) (rdC : Bytes → W (β × Bytes))
    (rd : Bytes → Except Err (β × Bytes)) (h : ∀ bs, (rdC bs).res = rd bs) :
    ∀ (n : Nat) (bs : Bytes), (readManyC pol slot rdC n bs).res = readMany rd n bs := by
  intro n
  induction n with
  | zero => intro bs; simp [readManyC, readMany]
  | succ n ih =>
    intro bs
    simp only [readManyC, readMany, bind_res, alloc_res, pure_res, h, ih]
    simp only [bind, Except.bind, pure, Except.pure]

theorem readAsC_res {β : Type} (rdC : Bytes → W (BGeom × Bytes)) (rd : Bytes → Except Err (BGeom × Bytes))
    (cast : BGeom → Except Err β) (h : ∀ bs, (rdC bs).res = rd bs) (bs : Bytes) :
    (readAsC rdC cast bs).res = readAs rd cast bs := by
  simp only [readAsC, readAs, bind_res, lift_res, pure_res, h]
  simp only [bind, Except.bind, pure, Except.pure]

/-- forgetting the cost gives back the C05 reader, whatever the allocation policy -/
theorem readC_res (pol : Policy) (hc : 0 < pol.chunk) :
    ∀ (fuel : Nat) (bs : Bytes), (readC pol fuel bs).res = C05.read fuel bs := by
  intro fuel
  induction fuel with
  | zero => intro bs; simp [readC, C05.read]
  | succ f ih =>
    intro bs
    rw [read_succ]
    simp only [readC, bind_res, ite_res, lift_res, alloc_res, pure_res, takeNF_eq, readU32F_eq, readPointF_eq,
      readPointsC_res pol _ hc,
      readManyC_res pol _ _ _ (readPointsC_res pol _ hc),
      readManyC_res pol _ _ _ (readAsC_res _ _ asPoint ih),
      readManyC_res pol _ _ _ (readAsC_res _ _ asLine ih),
      readManyC_res pol _ _ _ (readAsC_res _ _ asPoly ih),
      readManyC_res pol _ _ _ ih, readBody, flagOf]
    simp only [bind, Except.bind, pure, Except.pure]
    rfl

theorem decodeC_res (pol : Policy) (hc : 0 < pol.chunk) (bs : Bytes) :
    (decodeC pol bs).res = C05.decode bs := by
  simp only [decodeC, C05.decode, bind_res, pure_res, readC_res pol hc]
  simp only [bind, Except.bind, Functor.map, Except.map]
  try (cases C05.read (bs.length + 1) bs <;> rfl)


/-! ### allocation invariant -/

theorem bind_cost (m : CM ε α) (f : α → CM ε β) :
    (m >>= f).cost = m.cost + (match m.res with | .ok a => (f a).cost | .error _ => 0) := by
  cases h : m.res with
  | error e => simp [(bind_err (f := f) h).2]
  | ok a => simp [(bind_ok (f := f) h).2]

/-- Hoare-style statement about the result and the cost of a computation -/
def Sp (r : CM ε α) (Pok : α → Nat → Prop) (Perr : Nat → Prop) : Prop :=
  match r.res with
  | .ok a => Pok a r.cost
  | .error _ => Perr r.cost

theorem sp_bind {m : CM ε α} {f : α → CM ε β} {Q : α → Nat → Prop} {R : Nat → Prop}
    {Pok : β → Nat → Prop} {Perr : Nat → Prop}
    (h1 : Sp m Q R) (h3 : ∀ c, R c → Perr c)
    (h2 : ∀ a c, Q a c → Sp (f a) (fun b c' => Pok b (c + c')) (fun c' => Perr (c + c'))) :
    Sp (m >>= f) Pok Perr := by
  unfold Sp at *
  cases h : m.res with
  | error e =>
    rw [h] at h1
    rw [(bind_err (f := f) h).1, (bind_err (f := f) h).2]
    exact h3 _ h1
  | ok a =>
    rw [h] at h1
    rw [(bind_ok (f := f) h).1, (bind_ok (f := f) h).2]
    have := h2 a _ h1
    cases h' : (f a).res with
    | error e => rw [h'] at this; exact this
    | ok b => rw [h'] at this; exact this

theorem sp_lift {r : Except ε α} {Pok : α → Nat → Prop} {Perr : Nat → Prop}
    (hok : ∀ a, r = .ok a → Pok a 0) (herr : ∀ e, r = .error e → Perr 0) : Sp (lift r) Pok Perr := by
  unfold Sp
  cases r with
  | error e => exact herr e rfl
  | ok a => exact hok a rfl

theorem sp_alloc {n : Nat} {Pok : Unit → Nat → Prop} {Perr : Nat → Prop} (h : Pok () n) :
    Sp (alloc n : CM ε Unit) Pok Perr := h

theorem sp_pure {a : α} {Pok : α → Nat → Prop} {Perr : Nat → Prop} (h : Pok a 0) :
    Sp (pure a : CM ε α) Pok Perr := h

theorem sp_mono {r : CM ε α} {P P' : α → Nat → Prop} {R R' : Nat → Prop} (h : Sp r P R)
    (h1 : ∀ a c, P a c → P' a c) (h2 : ∀ c, R c → R' c) : Sp r P' R' := by
  unfold Sp at *
  cases h' : r.res with
  | error e => rw [h'] at h; exact h2 _ h
  | ok a => rw [h'] at h; exact h1 _ _ h

/-- chunk loop of the fixed `readPoints`: a success costs exactly the bytes it consumed; a failure
costs at most the input plus one chunk -/
theorem readChunks_sp (bo : BO) : ∀ (f rem : Nat) (bs : Bytes), rem ≤ f →
    Sp (readChunks fixed bo f rem bs)
      (fun r c => c = 16 * rem ∧ r.2.length + 16 * rem ≤ bs.length)
      (fun c => c ≤ bs.length + 16384) := by
  intro f
  induction f with
  | zero =>
    intro rem bs h
    have : rem = 0 := by omega
    subst this
    simp only [readChunks]
    exact sp_pure ⟨rfl, by simp⟩
  | succ f ih =>
    intro rem bs h
    cases rem with
    | zero => simp only [readChunks]; exact sp_pure ⟨rfl, by simp⟩
    | succ rem =>
      simp only [readChunks]
      have hk : min (rem + 1) fixed.chunk ≤ rem + 1 := Nat.min_le_left _ _
      have hk2 : min (rem + 1) fixed.chunk ≤ 1024 := Nat.min_le_right _ _
      have hk0 : 0 < min (rem + 1) fixed.chunk := by
        rw [Nat.lt_min]; exact ⟨by omega, by decide⟩
      generalize min (rem + 1) fixed.chunk = k at *
      refine sp_bind (Q := fun _ c => c = 16 * k) (R := fun _ => False) (sp_alloc rfl) (fun _ h => h.elim) ?_
      intro _ c hc
      subst hc
      refine sp_bind (Q := fun r c => c = 0 ∧ r.2.length + 16 * k ≤ bs.length) (R := fun c => c = 0)
        (sp_lift ?_ ?_) ?_ ?_
      · intro a ha
        obtain ⟨ps, t⟩ := a
        rw [readPointF_eq] at ha
        obtain ⟨_, i2, _⟩ := readMany_ok (m := 16) (fun _ => True)
          (fun bs a t h => ⟨by have := readPoint_ok h; omega, trivial⟩) k bs ps t ha
        exact ⟨rfl, by omega⟩
      · intro e _; rfl
      · intro c hc; subst hc; omega
      · intro a c hc
        obtain ⟨ps, b1⟩ := a
        obtain ⟨rfl, hl⟩ := hc
        simp only at hl
        refine sp_bind (ih (rem + 1 - k) b1 (by omega)) ?_ ?_
        · intro c hc; omega
        · intro a c hc
          obtain ⟨qs, b2⟩ := a
          obtain ⟨rfl, hl2⟩ := hc
          simp only at hl2
          refine sp_pure ⟨by omega, ?_⟩
          simp only; omega

/-- `readPoints` (fixed): on success `cost + 24 + 6·rest ≤ 6·input`; on failure `cost ≤ 6·input + 32 KiB` -/
theorem readPointsC_sp (bo : BO) (bs : Bytes) :
    Sp (readPointsC fixed bo bs)
      (fun r c => c + 24 + 6 * r.2.length ≤ 6 * bs.length)
      (fun c => c ≤ 6 * bs.length + 32768) := by
  simp only [readPointsC]
  refine sp_bind (Q := fun r c => c = 0 ∧ r.2.length + 4 = bs.length) (R := fun c => c = 0) (sp_lift ?_ ?_) ?_ ?_
  · intro a ha
    obtain ⟨n, t⟩ := a
    rw [readU32F_eq] at ha
    exact ⟨rfl, (readU32_ok ha).2⟩
  · intro e _; rfl
  · intro c hc; subst hc; omega
  · intro a c hc
    obtain ⟨n, b1⟩ := a
    obtain ⟨rfl, hl⟩ := hc
    simp only at hl
    have hp : fixed.pointsPre n ≤ n ∧ fixed.pointsPre n ≤ 1024 := ⟨Nat.min_le_left _ _, Nat.min_le_right _ _⟩
    refine sp_bind (Q := fun _ c => c = 16 * fixed.pointsPre n) (R := fun _ => False) (sp_alloc rfl) (fun _ h => h.elim) ?_
    intro _ c hc; subst hc
    refine sp_mono (readChunks_sp bo n n b1 (Nat.le_refl _)) ?_ ?_
    · intro a c hc
      obtain ⟨h1, h2⟩ := hc
      subst h1
      omega
    · intro c hc; omega


/-- the invariant every member reader satisfies -/
def ElemSp {α : Type} (rd : Bytes → W (α × Bytes)) : Prop :=
  ∀ bs, Sp (rd bs) (fun r c => c + 24 + 6 * r.2.length ≤ 6 * bs.length) (fun c => c ≤ 6 * bs.length + 32768)

theorem readManyC_sp {β : Type} (slot : Nat) (hs : slot ≤ 24) (rd : Bytes → W (β × Bytes)) (h : ElemSp rd) :
    ∀ (n : Nat) (bs : Bytes), Sp (readManyC fixed slot rd n bs)
      (fun r c => c + 6 * r.2.length ≤ 6 * bs.length) (fun c => c ≤ 6 * bs.length + 32768) := by
  intro n
  induction n with
  | zero => intro bs; simp only [readManyC]; exact sp_pure (by simp)
  | succ n ih =>
    intro bs
    simp only [readManyC]
    refine sp_bind (h bs) (fun c hc => hc) ?_
    intro a c hc
    obtain ⟨x, b1⟩ := a
    simp only at hc
    refine sp_bind (Q := fun _ c => c = slot) (R := fun _ => False) (sp_alloc rfl) (fun _ h => h.elim) ?_
    intro _ c' hc'; subst hc'
    refine sp_bind (ih b1) ?_ ?_
    · intro c' hc'; omega
    · intro a c' hc'
      obtain ⟨xs, b2⟩ := a
      simp only at hc'
      refine sp_pure ?_
      simp only; omega

theorem readAsC_sp {β : Type} (rd : Bytes → W (BGeom × Bytes)) (cast : BGeom → Except Err β)
    (h : ElemSp rd) : ElemSp (readAsC rd cast) := by
  intro bs
  simp only [readAsC]
  refine sp_bind (h bs) (fun c hc => hc) ?_
  intro a c hc
  obtain ⟨g, b1⟩ := a
  simp only at hc
  refine sp_bind (Q := fun _ c => c = 0) (R := fun c => c = 0) (sp_lift (fun _ _ => rfl) (fun _ _ => rfl)) ?_ ?_
  · intro c' hc'; subst hc'; omega
  · intro v c' hc'; subst hc'
    refine sp_pure ?_
    simp only; omega

/-- a count field followed by a loop over members, after `used` bytes of header -/
theorem counted_sp {β : Type} (bo : BO) (slot : Nat) (hs : slot ≤ 24) (rd : Bytes → W (β × Bytes))
    (h : ElemSp rd) (k : List β → BGeom) (bs b2 : Bytes) (hl : b2.length + 5 = bs.length) :
    Sp (do
        let (n, bs) ← lift (readU32F bo b2)
        alloc (slot * fixed.pre n)
        let (r, bs) ← readManyC fixed slot rd n bs
        pure (k r, bs) : W (BGeom × Bytes))
      (fun r c => c + 24 + 6 * r.2.length ≤ 6 * bs.length) (fun c => c ≤ 6 * bs.length + 32768) := by
  refine sp_bind (Q := fun r c => c = 0 ∧ r.2.length + 4 = b2.length) (R := fun c => c = 0) (sp_lift ?_ ?_) ?_ ?_
  · intro a ha
    obtain ⟨n, t⟩ := a
    rw [readU32F_eq] at ha
    exact ⟨rfl, (readU32_ok ha).2⟩
  · intro e _; rfl
  · intro c hc; subst hc; omega
  · intro a c hc
    obtain ⟨n, b3⟩ := a
    obtain ⟨rfl, hl3⟩ := hc
    simp only at hl3
    refine sp_bind (Q := fun _ c => c = 0) (R := fun _ => False) (sp_alloc (by simp [fixed])) (fun _ h => h.elim) ?_
    intro _ c hc; subst hc
    refine sp_bind (readManyC_sp slot hs rd h n b3) ?_ ?_
    · intro c hc; omega
    · intro a c hc
      obtain ⟨r, b4⟩ := a
      simp only at hc
      refine sp_pure ?_
      simp only; omega

theorem readC_sp : ∀ (fuel : Nat), ElemSp (readC fixed fuel) := by
  intro fuel
  induction fuel with
  | zero => intro bs; simp only [readC]; exact sp_lift (fun _ h => by cases h) (fun _ _ => by omega)
  | succ f ih =>
    intro bs
    simp only [readC]
    refine sp_bind (Q := fun r c => c = 0 ∧ r.2.length + 1 = bs.length) (R := fun c => c = 0) (sp_lift ?_ ?_) ?_ ?_
    · intro a ha
      obtain ⟨fl, t⟩ := a
      rw [takeNF_eq] at ha
      exact ⟨rfl, (takeN_ok ha).2⟩
    · intro e _; rfl
    · intro c hc; subst hc; omega
    intro a c hc
    obtain ⟨fl, b1⟩ := a
    obtain ⟨rfl, hl1⟩ := hc
    simp only at hl1
    refine sp_bind (Q := fun _ c => c = 0) (R := fun c => c = 0) (sp_lift (fun _ _ => rfl) (fun _ _ => rfl)) ?_ ?_
    · intro c hc; subst hc; omega
    intro bo c hc; subst hc
    refine sp_bind (Q := fun r c => c = 0 ∧ r.2.length + 4 = b1.length) (R := fun c => c = 0) (sp_lift ?_ ?_) ?_ ?_
    · intro a ha
      obtain ⟨n, t⟩ := a
      rw [readU32F_eq] at ha
      exact ⟨rfl, (readU32_ok ha).2⟩
    · intro e _; rfl
    · intro c hc; subst hc; omega
    intro a c hc
    obtain ⟨code, b2⟩ := a
    obtain ⟨rfl, hl2⟩ := hc
    simp only at hl2
    have hl : b2.length + 5 = bs.length := by omega
    simp only [Nat.zero_add, Nat.add_zero]
    split
    · -- point
      refine sp_bind (Q := fun r c => c = 0 ∧ r.2.length + 16 = b2.length) (R := fun c => c = 0) (sp_lift ?_ ?_) ?_ ?_
      · intro a ha
        obtain ⟨p, t⟩ := a
        rw [readPointF_eq] at ha
        exact ⟨rfl, readPoint_ok ha⟩
      · intro e _; rfl
      · intro c hc; subst hc; omega
      · intro a c hc
        obtain ⟨p, b3⟩ := a
        obtain ⟨rfl, h3⟩ := hc
        simp only at h3
        refine sp_pure ?_
        simp only; omega
    split
    · -- linestring
      refine sp_bind (readPointsC_sp bo b2) ?_ ?_
      · intro c hc; omega
      · intro a c hc
        obtain ⟨p, b3⟩ := a
        simp only at hc
        refine sp_pure ?_
        simp only; omega
    split
    · have := counted_sp bo 24 (by omega) (readPointsC fixed bo) (readPointsC_sp bo) .polygon bs b2 hl
      simpa using this
    split
    · have := counted_sp bo 16 (by omega) _ (readAsC_sp _ asPoint ih) .multiPoint bs b2 hl
      simpa using this
    split
    · have := counted_sp bo 24 (by omega) _ (readAsC_sp _ asLine ih) .multiLineString bs b2 hl
      simpa using this
    split
    · have := counted_sp bo 24 (by omega) _ (readAsC_sp _ asPoly ih) .multiPolygon bs b2 hl
      simpa using this
    split
    · have := counted_sp bo 16 (by omega) _ ih .collection bs b2 hl
      simpa using this
    · exact sp_lift (fun _ h => by cases h) (fun _ _ => by omega)

/-- cost of `wkb.Decode` after the fix -/
theorem decodeC_cost (bs : Bytes) : (decodeC fixed bs).cost ≤ 6 * bs.length + 32768 := by
  have h := readC_sp (bs.length + 1) bs
  simp only [decodeC, bind_cost, pure_cost]
  unfold Sp at h
  cases h' : (readC fixed (bs.length + 1) bs).res with
  | error e => rw [h'] at h; simp; omega
  | ok a => rw [h'] at h; simp; omega

end GeomV.C07
