import GeomV.C05.Model
/-!
# C07 model: the decoders as total functions WITH A COST

* WKB (`encoding/wkb` readers, after the `fix:` commit that stops trusting count fields): the C05
  reader re-stated in a cost monad `CM` whose second component is the number of bytes the Go code
  asks the allocator for *at the point where it allocates* (`make` of a chunk before the chunk is
  read, one slot per `append`).  The allocation `Policy` is a parameter so that the same definition
  also describes the code BEFORE the fix (`unfixed`: `make([]T, count)` up front), for which the
  allocation bound is refuted in Proofs.lean.  `readC_erase` (Lemmas) shows that forgetting the cost
  gives back exactly `C05.read`, so all C05 theorems apply to the result component.
* hex: `hex.Decode` = `encoding/hex.DecodeString` then `wkb.Decode`.
* GeoJSON: `FromGeoJSON` over ARBITRARY Go values held in `Geometry.Coordinates` (`GoVal`: what
  `encoding/json` produces — nil, float64, string, bool, []interface{}, map[string]interface{} — and
  anything else a caller can put there: ints, typed slices, geom values → `other`).  Every type
  assertion, every index expression and every explicit `panic` of decode.go is a partial operation
  here; panics are values (`PanicVal`) and `recover` + `e.(error)` is modelled literally.
Core Lean only.
-/
namespace GeomV.C07
open GeomV GeomV.C05

/-! ## cost monad -/

/-- result of a call together with the bytes it requested from the allocator (also when it fails) -/
structure CM (ε α : Type) where
  res : Except ε α
  cost : Nat

namespace CM
variable {ε α β : Type}
@[inline] def pure' (a : α) : CM ε α := ⟨.ok a, 0⟩
@[inline] def bind' (m : CM ε α) (f : α → CM ε β) : CM ε β :=
  match m.res with
  | .error e => ⟨.error e, m.cost⟩
  | .ok a => let r := f a; ⟨r.res, m.cost + r.cost⟩
instance : Monad (CM ε) where
  pure := pure'
  bind := bind'
end CM

/-- `make(...)` / one `append` slot: `n` bytes requested -/
@[inline] def alloc {ε : Type} (n : Nat) : CM ε Unit := ⟨.ok (), n⟩
/-- an operation that allocates nothing in this package (reads, comparisons, type assertions) -/
@[inline] def lift {ε α : Type} (r : Except ε α) : CM ε α := ⟨r, 0⟩

/-! ## WKB readers -/

/-- How the readers size their slices.
`chunk`: points allocated per `binary.Read` in `readPoints` (`maxChunk`);
`pointsPre n`: capacity given to the result slice of `readPoints` before anything is read;
`pre n`: slots allocated up front by the polygon / multi* / collection readers for an announced count `n`;
`grow s`: bytes requested when one member is appended (slot size `s`). -/
structure Policy where
  chunk : Nat
  pointsPre : Nat → Nat
  pre : Nat → Nat
  grow : Nat → Nat

/-- the code after the fix: chunks of 1024 points, `append` for everything else -/
def fixed : Policy := ⟨1024, fun n => min n 1024, fun _ => 0, fun s => s⟩
/-- the code before the fix: `make([]T, count)` with the count read from the input -/
def unfixed : Policy := ⟨2^32, fun _ => 0, fun n => n, fun _ => 0⟩

abbrev W := CM Err

/-! ### linear-time primitives
`C05.takeN` measures the whole remaining input on every call (quadratic on 64 KiB inputs with
thousands of members); the driver uses these equivalents (`takeNF_eq` … `readPointF_eq` in Lemmas). -/

def takeF : Nat → Bytes → Option (Bytes × Bytes)
  | 0, bs => some ([], bs)
  | _+1, [] => none
  | k+1, b :: bs => match takeF k bs with
    | some (h, t) => some (b :: h, t)
    | none => none

def takeNF (k : Nat) (bs : Bytes) : Except Err (Bytes × Bytes) :=
  match takeF k bs with
  | some r => .ok r
  | none => .error .eof

def readNatF (bo : BO) (k : Nat) (bs : Bytes) : Except Err (Nat × Bytes) := do
  let (h, t) ← takeNF k bs
  pure (valBytes bo h, t)

def readU32F (bo : BO) := readNatF bo 4
def readU64F (bo : BO) (bs : Bytes) : Except Err (UInt64 × Bytes) := do
  let (n, t) ← readNatF bo 8 bs
  pure (UInt64.ofNat n, t)

def readPointF (bo : BO) (bs : Bytes) : Except Err (Pt UInt64 × Bytes) := do
  let (x, bs) ← readU64F bo bs
  let (y, bs) ← readU64F bo bs
  pure (⟨x, y⟩, bs)

/-- chunk loop of `readPoints`; `rem` points are still to be read (first argument: loop budget) -/
def readChunks (pol : Policy) (bo : BO) : Nat → Nat → Bytes → W (List (Pt UInt64) × Bytes)
  | _, 0, bs => pure ([], bs)
  | 0, _+1, _ => lift (.error .fuel)
  | f+1, rem+1, bs => do
      let k := min (rem+1) pol.chunk
      alloc (16 * k)                                        -- chunk := make([]geom.Point, k)
      let (ps, bs) ← lift (readMany (readPointF bo) k bs)   -- binary.Read(r, byteOrder, &chunk)
      let (qs, bs) ← readChunks pol bo f (rem + 1 - k) bs   -- points = append(points, chunk...)
      pure (ps ++ qs, bs)

/-- `readPoints` -/
def readPointsC (pol : Policy) (bo : BO) (bs : Bytes) : W (List (Pt UInt64) × Bytes) := do
  let (n, bs) ← lift (readU32F bo bs)
  alloc (16 * pol.pointsPre n)                              -- make([]geom.Point, 0, min(n, maxChunk))
  readChunks pol bo n n bs

/-- a count-prefixed loop that appends one member (slot size `slot`) per iteration -/
def readManyC {β : Type} (pol : Policy) (slot : Nat) (rd : Bytes → W (β × Bytes)) :
    Nat → Bytes → W (List β × Bytes)
  | 0, bs => pure ([], bs)
  | n+1, bs => do
      let (a, bs) ← rd bs
      alloc (pol.grow slot)                                 -- xs = append(xs, a)
      let (as, bs) ← readManyC pol slot rd n bs
      pure (a :: as, bs)

def readAsC {β : Type} (rd : Bytes → W (BGeom × Bytes)) (cast : BGeom → Except Err β)
    (bs : Bytes) : W (β × Bytes) := do
  let (g, bs) ← rd bs
  let v ← lift (cast g)
  pure (v, bs)

/-- `wkb.Read` with cost; `fuel` bounds the recursion Read → reader → Read (goroutine stack). -/
def readC (pol : Policy) : Nat → Bytes → W (BGeom × Bytes)
  | 0, _ => lift (.error .fuel)
  | fuel+1, bs => do
    let (fl, bs) ← lift (takeNF 1 bs)
    let bo ← lift (match fl with
      | [b] => if b = 0 then .ok BO.xdr else if b = 1 then .ok BO.ndr else .error .badOrder
      | _ => .error .eof : Except Err BO)
    let (code, bs) ← lift (readU32F bo bs)
    if code = 1 then do
      let (p, bs) ← lift (readPointF bo bs); pure (.point p, bs)
    else if code = 2 then do
      let (p, bs) ← readPointsC pol bo bs; pure (.lineString p, bs)
    else if code = 3 then do
      let (n, bs) ← lift (readU32F bo bs)
      alloc (24 * pol.pre n)
      let (r, bs) ← readManyC pol 24 (readPointsC pol bo) n bs; pure (.polygon r, bs)
    else if code = 4 then do
      let (n, bs) ← lift (readU32F bo bs)
      alloc (16 * pol.pre n)
      let (r, bs) ← readManyC pol 16 (readAsC (readC pol fuel) asPoint) n bs; pure (.multiPoint r, bs)
    else if code = 5 then do
      let (n, bs) ← lift (readU32F bo bs)
      alloc (24 * pol.pre n)
      let (r, bs) ← readManyC pol 24 (readAsC (readC pol fuel) asLine) n bs; pure (.multiLineString r, bs)
    else if code = 6 then do
      let (n, bs) ← lift (readU32F bo bs)
      alloc (24 * pol.pre n)
      let (r, bs) ← readManyC pol 24 (readAsC (readC pol fuel) asPoly) n bs; pure (.multiPolygon r, bs)
    else if code = 7 then do
      let (n, bs) ← lift (readU32F bo bs)
      alloc (16 * pol.pre n)
      let (r, bs) ← readManyC pol 16 (readC pol fuel) n bs; pure (.collection r, bs)
    else lift (.error .badType)

/-- `wkb.Decode` with cost (recursion budget = input length + 1, as in C05). -/
def decodeC (pol : Policy) (bs : Bytes) : W BGeom := do
  let (g, _) ← readC pol (bs.length + 1) bs
  pure g

/-! ## hex -/

inductive HErr
  | hex                -- encoding/hex: odd length or a non-hex byte
  | wkb (e : Err)
deriving DecidableEq, Repr

/-- `hex.Decode`: `hex.DecodeString` allocates `len(s)/2` bytes for the result (also when it then
finds a bad digit), then `wkb.Decode`. -/
def hexDecodeC (pol : Policy) (s : List Char) : CM HErr BGeom :=
  match C05.hexDecode s with
  | none => ⟨.error .hex, s.length / 2⟩
  | some bs =>
    let r := decodeC pol bs
    ⟨match r.res with | .ok g => .ok g | .error e => .error (.wkb e), s.length / 2 + r.cost⟩

/-! ## GeoJSON: arbitrary `Geometry` values -/

/-- A Go value of static type `interface{}`.  This is a finite tree type; a CYCLIC Go value (a
hand-built `[]interface{}` that contains itself) is represented by its unfolding to a depth beyond
what the decoder inspects (four levels of arrays and the kind of the fifth-level elements): see
`unfold` in Main.lean.  All theorems quantify over every `GoVal`, hence over every such unfolding. -/
inductive GoVal where
  | nil
  | num (bits : UInt64)                              -- float64
  | arr (xs : List GoVal)                            -- []interface{}
  | str (s : String)
  | bool (b : Bool)
  | obj (keys : List String) (vals : List GoVal)     -- map[string]interface{}
  | other (desc : String)                            -- any other dynamic type: int, []float64, geom.Point, ...
deriving Inhabited

mutual
/-- number of nodes (the size of the input for the allocation bound) -/
def GoVal.size : GoVal → Nat
  | .arr xs => 1 + GoVal.sizeList xs
  | .obj _ vs => 1 + GoVal.sizeList vs
  | _ => 1
def GoVal.sizeList : List GoVal → Nat
  | [] => 0
  | v :: vs => v.size + GoVal.sizeList vs
end

/-- what is passed to `panic` -/
inductive PanicVal
  | invalidGeometry                 -- &InvalidGeometryError{}: implements error
  | unsupportedType (t : String)    -- &UnsupportedGeometryError{t}: implements error
  | runtimeError (what : String)    -- nil dereference / index out of range: runtime.Error, implements error
  | nonError (what : String)        -- a value that does not implement error (none in the current source)
deriving DecidableEq, Repr

def PanicVal.isError : PanicVal → Bool
  | .nonError _ => false
  | _ => true

abbrev J := CM PanicVal

def panic {α : Type} (p : PanicVal) : J α := ⟨.error p, 0⟩

/-- `xs[i]` -/
def idx {α : Type} (xs : List α) (i : Nat) : J α :=
  match xs[i]? with
  | some a => pure a
  | none => panic (.runtimeError "index out of range")

/-- `for i, element := range array { out[i] = f(element) }` (stops at the first panic) -/
def mapC {α β : Type} (f : α → J β) : List α → J (List β)
  | [] => pure []
  | a :: as => do
      let b ← f a
      let bs ← mapC f as
      pure (b :: bs)

/-- `element.(float64)` -/
def asFloat : GoVal → J UInt64
  | .num b => pure b
  | _ => panic .invalidGeometry

/-- `jsonCoordinates.([]interface{})` -/
def asArray : GoVal → J (List GoVal)
  | .arr xs => pure xs
  | _ => panic .invalidGeometry

def decodeCoordinates (v : GoVal) : J (List UInt64) := do
  let array ← asArray v
  alloc (8 * array.length)                  -- make([]float64, len(array))
  mapC asFloat array

def decodeCoordinates2 (v : GoVal) : J (List (List UInt64)) := do
  let array ← asArray v
  alloc (24 * array.length)                 -- make([][]float64, len(array))
  mapC decodeCoordinates array

def decodeCoordinates3 (v : GoVal) : J (List (List (List UInt64))) := do
  let array ← asArray v
  alloc (24 * array.length)
  mapC decodeCoordinates2 array

def decodeCoordinates4 (v : GoVal) : J (List (List (List (List UInt64)))) := do
  let array ← asArray v
  alloc (24 * array.length)
  mapC decodeCoordinates3 array

def makePoint (element : List UInt64) : J (Pt UInt64) :=
  if element.length = 2 then do
    let x ← idx element 0
    let y ← idx element 1
    pure ⟨x, y⟩
  else panic .invalidGeometry

def makeLinearRing (coordinates : List (List UInt64)) : J (List (Pt UInt64)) := do
  alloc (16 * coordinates.length)           -- make(geom.Path, len(coordinates))
  mapC makePoint coordinates

def makeLinearRings (coordinates : List (List (List UInt64))) : J (List (List (Pt UInt64))) := do
  alloc (24 * coordinates.length)           -- make([]geom.Path, len(coordinates))
  mapC makeLinearRing coordinates

/-- `doFromGeoJSON`; `none` is the nil `*Geometry`. -/
def doFromGeoJSON (g : Option (String × GoVal)) : J BGeom :=
  match g with
  | none => panic (.runtimeError "nil pointer dereference")
  | some (typ, c) =>
    if typ = "Point" then do
      let coordinates ← decodeCoordinates c
      if coordinates.length = 2 then do
        let x ← idx coordinates 0
        let y ← idx coordinates 1
        pure (.point ⟨x, y⟩)
      else panic .invalidGeometry
    else if typ = "MultiPoint" then do
      let coordinates ← decodeCoordinates2 c
      if coordinates.length = 0 then panic .invalidGeometry else do
      let c0 ← idx coordinates 0
      if c0.length = 2 then do
        let ps ← makeLinearRing coordinates
        pure (.multiPoint ps)
      else panic .invalidGeometry
    else if typ = "LineString" then do
      let coordinates ← decodeCoordinates2 c
      if coordinates.length = 0 then panic .invalidGeometry else do
      let c0 ← idx coordinates 0
      if c0.length = 2 then do
        let ps ← makeLinearRing coordinates
        pure (.lineString ps)
      else panic .invalidGeometry
    else if typ = "MultiLineString" then do
      let coordinates ← decodeCoordinates3 c
      if coordinates.length = 0 then panic .invalidGeometry else do
      let c0 ← idx coordinates 0
      if c0.length = 0 then panic .invalidGeometry else do
      let c00 ← idx c0 0
      if c00.length = 2 then do
        alloc (24 * coordinates.length)     -- make(geom.MultiLineString, len(coordinates))
        let ls ← mapC makeLinearRing coordinates
        pure (.multiLineString ls)
      else panic .invalidGeometry
    else if typ = "Polygon" then do
      let coordinates ← decodeCoordinates3 c
      if coordinates.length = 0 then panic .invalidGeometry else do
      let c0 ← idx coordinates 0
      if c0.length = 0 then panic .invalidGeometry else do
      let c00 ← idx c0 0
      if c00.length = 2 then do
        let rs ← makeLinearRings coordinates
        pure (.polygon rs)
      else panic .invalidGeometry
    else if typ = "MultiPolygon" then do
      let coordinates ← decodeCoordinates4 c
      if coordinates.length = 0 then panic .invalidGeometry else do
      let c0 ← idx coordinates 0
      if c0.length = 0 then panic .invalidGeometry else do
      let c00 ← idx c0 0
      if c00.length = 0 then panic .invalidGeometry else do
      let c000 ← idx c00 0
      if c000.length = 2 then do
        alloc (24 * coordinates.length)     -- make(geom.MultiPolygon, len(coordinates))
        let ps ← mapC makeLinearRings coordinates
        pure (.multiPolygon ps)
      else panic .invalidGeometry
    else panic (.unsupportedType typ)

/-- error classes a GeoJSON decoder call can return -/
inductive JErr
  | json           -- json.Unmarshal failed (syntax, type mismatch, number out of range)
  | invalid        -- InvalidGeometryError
  | unsupported    -- UnsupportedGeometryError
  | runtime        -- a runtime.Error converted by the deferred recover
deriving DecidableEq, Repr

/-- outcome of a call: a returned error, or a panic that leaves the call -/
inductive Fault
  | err (e : JErr)
  | panic (what : String)
deriving DecidableEq, Repr

/-- `FromGeoJSON`: `defer func() { if e := recover(); e != nil { g = nil; err = e.(error) } }()`.
The conversion `e.(error)` itself panics when the recovered value is not an error. -/
def fromGeoJSON (g : Option (String × GoVal)) : CM Fault BGeom :=
  let r := doFromGeoJSON g
  ⟨match r.res with
    | .ok v => .ok v
    | .error .invalidGeometry => .error (.err .invalid)
    | .error (.unsupportedType _) => .error (.err .unsupported)
    | .error (.runtimeError _) => .error (.err .runtime)
    | .error (.nonError w) => .error (.panic ("interface conversion: " ++ w ++ " is not error")),
   r.cost⟩

/-! ### re-encoding (`ToGeoJSON` + the shape of `json.Marshal`/`json.Unmarshal`) -/

/-- IEEE-754 binary64 pattern is finite (exponent field not all ones) -/
def finiteBits (u : UInt64) : Bool := (u.toNat / 2^52) % 2048 != 2047

def ptVal (p : Pt UInt64) : GoVal := .arr [.num p.x, .num p.y]
def ptsVal (ps : List (Pt UInt64)) : GoVal := .arr (ps.map ptVal)
def ptssVal (pss : List (List (Pt UInt64))) : GoVal := .arr (pss.map ptsVal)
def ptsssVal (psss : List (List (List (Pt UInt64)))) : GoVal := .arr (psss.map ptssVal)

def ptFinite (p : Pt UInt64) : Bool := finiteBits p.x && finiteBits p.y

/-- all coordinates finite (`json.Marshal` refuses NaN and ±Inf) -/
def allFinite : BGeom → Bool
  | .point p => ptFinite p
  | .multiPoint ps => ps.all ptFinite
  | .lineString ps => ps.all ptFinite
  | .multiLineString ls => ls.all (·.all ptFinite)
  | .polygon ls => ls.all (·.all ptFinite)
  | .multiPolygon ps => ps.all (·.all (·.all ptFinite))
  | _ => true

/-- `ToGeoJSON` followed by Marshal/Unmarshal as trees (numbers travel by the stdlib contract
`parse (format x) = x` for finite `x`).  `none`: the encoder returns an error. -/
def reencode (g : BGeom) : Option (String × GoVal) :=
  if !allFinite g then none else
  match g with
  | .point p => some ("Point", ptVal p)
  | .multiPoint ps => some ("MultiPoint", ptsVal ps)
  | .lineString ps => some ("LineString", ptsVal ps)
  | .multiLineString ls => some ("MultiLineString", ptssVal ls)
  | .polygon ls => some ("Polygon", ptssVal ls)
  | .multiPolygon ps => some ("MultiPolygon", ptsssVal ps)
  | _ => none

end GeomV.C07
