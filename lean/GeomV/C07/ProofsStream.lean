import GeomV.C07.ProofsIO
import GeomV.C07.LemmasStream
import GeomV.C05.ProofsFuel
/-!
# C07 — property theorems, part 3: `wkb.Read` on ANY reader (errors sticky or not)

`streamAnyC` = `wkb.Read` written over `io.ReadFull` requests with the request boundaries of the Go
code (`readP`), run on a scripted reader whose every `Read` answer — data, an error, both, neither —
is arbitrary (`runS`, `readFull` = the loop of `io.ReadAtLeast`).

* `C07_stream_program_is_decoder`  on a byte slice the program IS the cost-instrumented decoder `readC`
* `C07_stream_any_total`   every reader: a geometry (the one `wkb.Decode` finds in the script's data), one of the
                           THREE errors the decoder makes itself, or an error value of the reader (EOF possibly
                           turned into ErrUnexpectedEOF) — and then the data DELIVERED so far is a truncated
                           encoding; never the recursion-budget fault; allocation ≤ 6·data + 32 KiB
* `C07_stream_sticky`      a reader that returns no error before its final one: exactly `streamDecodeC` —
                           what ModelIO DEFINES by reduction is PROVED from the `io.ReadFull` loop
* `C07_stream_sticky_last`  the same when the final error arrives TOGETHER with the last piece (modes D/X of `wkbs`)
* `C07_stream_error_dropped`, `C07_stream_error_kept`  the two behaviours of a non-sticky error, by `decide`
-/
set_option linter.unusedSimpArgs false
set_option linter.unusedVariables false
namespace GeomV.C07
open GeomV GeomV.C05

/-- **C07_stream_program_is_decoder.** The decoder written as a program over `io.ReadFull` requests
(1, 4, 4, 16, 16·k bytes), interpreted on a byte slice, is `readC`: same geometry, same rest, same
cost — for both allocation policies, every recursion budget and every input. -/
theorem C07_stream_program_is_decoder (pol : Policy) (fuel : Nat) (bs : Bytes) :
    runB (readP pol fuel) bs = readC pol fuel bs := readP_runB pol fuel bs

theorem decodeC_of_read_ok {pol : Policy} {bs t : Bytes} {g : BGeom}
    (h : (readC pol (bs.length + 1) bs).res = .ok (g, t)) :
    (decodeC pol bs).res = .ok g ∧ (decodeC pol bs).cost = (readC pol (bs.length + 1) bs).cost := by
  have := bind_ok (f := fun (x : BGeom × Bytes) => (pure x.1 : W BGeom)) h
  exact ⟨this.1, by rw [show (decodeC pol bs).cost = _ from this.2]; simp⟩

theorem decodeC_of_read_err {pol : Policy} {bs : Bytes} {x : Err}
    (h : (readC pol (bs.length + 1) bs).res = .error x) :
    (decodeC pol bs).res = .error x ∧ (decodeC pol bs).cost = (readC pol (bs.length + 1) bs).cost :=
  bind_err (f := fun (x : BGeom × Bytes) => (pure x.1 : W BGeom)) h

/-- **C07_stream_any_total.** `wkb.Read` on ANY reader — each `Read` call may return data, an error,
both or neither, in any order; errors need not be sticky; after the script the reader answers `fin`
for ever.  With `D` = all data the script holds, the call returns
* a geometry: then it is the geometry `wkb.Decode D` returns (errors the reader raised on the way
  were dropped by `io.ReadFull` because they arrived with the last bytes of a request);
* or one of the three errors the decoder makes itself (order flag, type code, member type), the
  same as `wkb.Decode D`;
* or an error of the reader: a value `e0` from the script (or `fin`, and then ALL data was delivered),
  with `EOF` turned into `ErrUnexpectedEOF` when the failing request had received some bytes — and
  the data `c` delivered up to that point is a truncated input (`wkb.Decode c` = end of input).
Never a panic or the recursion-budget fault, and the bytes requested are ≤ 6·|D| + 32 KiB. -/
theorem C07_stream_any_total (s : List Ev) (fin : RErr) :
    ((∃ g, (streamAnyC fixed s fin).res = .ok g ∧ C05.decode (dataOf s) = .ok g) ∨
     (∃ x, (streamAnyC fixed s fin).res = .error (.wkb x) ∧ C05.decode (dataOf s) = .error x ∧
        (x = .badOrder ∨ x = .badType ∨ x = .unexpected)) ∨
     (∃ e e0 c tl, (streamAnyC fixed s fin).res = .error (.reader e) ∧ dataOf s = c ++ tl ∧
        C05.decode c = .error .eof ∧ (e = e0 ∨ (e0 = .eof ∧ e = .unexpectedEOF)) ∧
        ((e0 = fin ∧ tl = []) ∨ e0 ∈ errsOf s))) ∧
    (streamAnyC fixed s fin).cost ≤ 6 * (dataOf s).length + 32768 := by
  have hs := sim fin (readP fixed ((dataOf s).length + 1)) s
  have hne := runS_noEof fin _ (noEof_readP fixed ((dataOf s).length + 1)) s
  unfold Sim at hs
  simp only [streamAnyC]
  cases hr : (runS fin (readP fixed ((dataOf s).length + 1)) s).res with
  | ok r =>
    obtain ⟨g, s'⟩ := r
    rw [hr] at hs
    obtain ⟨c, h1, _, h3⟩ := hs
    have h4 := h3 (dataOf s')
    rw [← h1, readP_runB] at h4
    obtain ⟨d1, d2⟩ := decodeC_of_read_ok h4.1
    refine ⟨.inl ⟨g, rfl, ?_⟩, ?_⟩
    · rw [← (C07_wkb_erase (dataOf s)).1]; exact d1
    · rw [← h4.2, ← d2]; exact C07_wkb_alloc _
  | error e =>
    rw [hr] at hs
    cases e with
    | wkb x =>
      obtain ⟨c, tl, h1, h3⟩ := hs
      have h4 := h3 tl
      rw [← h1, readP_runB] at h4
      obtain ⟨d1, d2⟩ := decodeC_of_read_err h4.1
      have hd : C05.decode (dataOf s) = .error x := by rw [← (C07_wkb_erase (dataOf s)).1]; exact d1
      refine ⟨.inr (.inl ⟨x, rfl, hd, ?_⟩), ?_⟩
      · rcases C07_wkb_total (dataOf s) with ⟨g, hg, _⟩ | ⟨y, hy, hc⟩
        · rw [hd] at hg; cases hg
        · rw [hd] at hy; cases hy
          rcases hc with h | h | h | h
          · subst h; exact (hne hr).elim
          · exact .inl h
          · exact .inr (.inl h)
          · exact .inr (.inr h)
      · rw [← h4.2, ← d2]; exact C07_wkb_alloc _
    | reader e =>
      obtain ⟨c, tl, e0, h1, h2, h3, h4, h5⟩ := hs
      rw [readP_runB] at h2 h3
      have hlen : c.length ≤ (dataOf s).length := by rw [h1]; simp
      refine ⟨.inr (.inr ⟨e, e0, c, tl, rfl, h1, ?_, h4, h5⟩), ?_⟩
      · rw [C05.Fuel.decode_eq_read ((dataOf s).length + 1) c (by omega), ← readC_res fixed (by decide), h2]; rfl
      · have hsp := readC_sp ((dataOf s).length + 1) c
        unfold Sp at hsp
        rw [h2] at hsp
        simp only at hsp
        rw [← h3]; omega

/-- **C07_stream_sticky.** A reader that returns NO error before its final one (any piece sizes, any
number of empty reads; then `fin` for ever — the readers of `C07_stream_total`): `wkb.Read` returns
exactly what `streamDecodeC` says, at exactly its cost.  The reduction to the byte-slice decoder by
which ModelIO DEFINES `streamDecodeC` is hereby proved from the loop of `io.ReadAtLeast`. -/
theorem C07_stream_sticky (s : List Ev) (fin : RErr) (h : errsOf s = []) :
    (match (streamAnyC fixed s fin).res with | .ok g => .ok g | .error e => .error e.toSErr)
        = (streamDecodeC fixed (dataOf s) fin.toREnd).res ∧
      (streamAnyC fixed s fin).cost = (streamDecodeC fixed (dataOf s) fin.toREnd).cost := by
  have hs := sim fin (readP fixed ((dataOf s).length + 1)) s
  have hne := runS_noEof fin _ (noEof_readP fixed ((dataOf s).length + 1)) s
  unfold Sim at hs
  simp only [streamAnyC, streamDecodeC]
  cases hr : (runS fin (readP fixed ((dataOf s).length + 1)) s).res with
  | ok r =>
    obtain ⟨g, s'⟩ := r
    rw [hr] at hs
    obtain ⟨c, h1, _, h3⟩ := hs
    have h4 := h3 (dataOf s')
    rw [← h1, readP_runB] at h4
    obtain ⟨d1, d2⟩ := decodeC_of_read_ok h4.1
    simp only [d1]
    exact ⟨trivial, by rw [d2, h4.2]⟩
  | error e =>
    rw [hr] at hs
    cases e with
    | wkb x =>
      obtain ⟨c, tl, h1, h3⟩ := hs
      have h4 := h3 tl
      rw [← h1, readP_runB] at h4
      obtain ⟨d1, d2⟩ := decodeC_of_read_err h4.1
      have hx : x ≠ .eof := fun hx => by subst hx; exact hne hr
      simp only [d1]
      refine ⟨?_, by rw [d2, h4.2]⟩
      cases x <;> first | rfl | exact (hx rfl).elim
    | reader e =>
      obtain ⟨c, tl, e0, h1, h2, h3, h4, h5⟩ := hs
      rw [h] at h5
      rcases h5 with ⟨h5, h6⟩ | h5
      · subst h6
        rw [List.append_nil] at h1
        subst h1
        rw [readP_runB] at h2 h3
        obtain ⟨d1, d2⟩ := decodeC_of_read_err h2
        simp only [d1]
        refine ⟨?_, by rw [d2, h3]⟩
        subst h5
        rcases h4 with h4 | ⟨h4, h4'⟩
        · subst h4; cases e <;> rfl
        · subst h4; subst h4'; rfl
      · cases h5

/-! ### non-vacuity, and what a NON-sticky error does

`pt12` is POINT(1 2) in NDR (21 bytes).  The requests are 1 + 4 + 16 bytes. -/

def pt12 : Bytes := [1, 1,0,0,0, 0,0,0,0,0,0,0xf0,0x3f, 0,0,0,0,0,0,0,0x40]
def isPt12 (r : Except AErr BGeom) : Bool :=
  match r with | .ok g => Geom.beq g (.point ⟨0x3ff0000000000000, 0x4000000000000000⟩) | .error _ => false
def errIs (r : Except AErr BGeom) (e : AErr) : Bool :=
  match r with | .ok _ => false | .error x => x == e

/-- `wkb.Read` cannot tell a final error that arrives together with the last piece from the same error
arriving alone afterwards -/
theorem streamAnyC_normLast (s : List Ev) (fin : RErr) :
    streamAnyC fixed (normLast fin s) fin = streamAnyC fixed s fin := by
  have h := runS_normLast fin (readP fixed ((dataOf s).length + 1)) s
  simp only [streamAnyC, dataOf_normLast]
  refine cm_ext ?_ h.2
  simp only [h.1]
  cases (runS fin (readP fixed ((dataOf s).length + 1)) s).res with
  | error e => rfl
  | ok r => rfl

/-- **C07_stream_sticky_last.** The sticky readers of `C07_stream_total` in full — no error before the
final one, and the final error `fin` either alone or TOGETHER WITH THE LAST PIECE (modes D and X of the
`wkbs` lines): result and cost are exactly `streamDecodeC`'s. -/
theorem C07_stream_sticky_last (s : List Ev) (fin : RErr) (h : errsOf (normLast fin s) = []) :
    (match (streamAnyC fixed s fin).res with | .ok g => .ok g | .error e => .error e.toSErr)
        = (streamDecodeC fixed (dataOf s) fin.toREnd).res ∧
      (streamAnyC fixed s fin).cost = (streamDecodeC fixed (dataOf s) fin.toREnd).cost := by
  have := C07_stream_sticky (normLast fin s) fin h
  rwa [streamAnyC_normLast, dataOf_normLast] at this

/-- the hypothesis is satisfiable by a script that is NOT error-free: EOF together with the last piece -/
example : errsOf [⟨pt12.take 7, none⟩, ⟨pt12.drop 7, some .eof⟩] ≠ [] ∧
    errsOf (normLast .eof [⟨pt12.take 7, none⟩, ⟨pt12.drop 7, some .eof⟩]) = [] := by decide

/-- sticky reader, pieces of 2 + 19 bytes with an empty read in between: the hypothesis of
`C07_stream_sticky` is satisfiable and the call succeeds -/
example : errsOf [⟨pt12.take 2, none⟩, ⟨[], none⟩, ⟨pt12.drop 2, none⟩] = [] ∧
    isPt12 (streamAnyC fixed [⟨pt12.take 2, none⟩, ⟨[], none⟩, ⟨pt12.drop 2, none⟩] .eof).res = true := by
  decide +kernel

/-- **C07_stream_error_dropped.** A non-sticky error that arrives TOGETHER with the last byte of a
request (here: the reader's own error with the 5th byte, the end of the type code) is dropped by
`io.ReadFull`; the reader recovers, and the call returns the geometry. -/
theorem C07_stream_error_dropped :
    isPt12 (streamAnyC fixed [⟨pt12.take 5, some .custom⟩, ⟨pt12.drop 5, none⟩] .eof).res = true := by
  decide +kernel

/-- **C07_stream_error_kept.** The same error one byte earlier (with the 4th byte, in the middle of the
type-code request) ends the call with that error although the reader would have delivered the rest;
and an `EOF` in that place is reported as `ErrUnexpectedEOF`. -/
theorem C07_stream_error_kept :
    errIs (streamAnyC fixed [⟨pt12.take 4, some .custom⟩, ⟨pt12.drop 4, none⟩] .eof).res (.reader .custom) = true ∧
    errIs (streamAnyC fixed [⟨pt12.take 4, some .eof⟩, ⟨pt12.drop 4, none⟩] .eof).res (.reader .unexpectedEOF) = true ∧
    errIs (streamAnyC fixed [⟨pt12.take 5, none⟩, ⟨[], some .eof⟩, ⟨pt12.drop 5, none⟩] .custom).res (.reader .eof) = true := by
  decide +kernel

/-! ### goroutine stack -/

/-- **C07_wkb_stack_frames.** `wkb.Decode` never needs more than `len/9 + 1` nested `Read` frames: run
with THAT recursion budget the decoder returns exactly what `wkb.Decode` returns (geometry or error,
never the budget fault) — every nesting level costs a 5-byte header and a 4-byte count. -/
theorem C07_wkb_stack_frames (bs : Bytes) :
    C05.decode bs = (C05.read (bs.length / 9 + 1) bs).map (·.1) ∧
    C05.read (bs.length / 9 + 1) bs ≠ .error .fuel := by
  have hne := C07_wkb_depth (bs.length / 9 + 1) bs (by omega)
  refine ⟨?_, hne⟩
  have := C05.Fuel.read_fuel_mono_le bs (show bs.length / 9 + 1 ≤ bs.length + 1 by omega) hne
  simp only [C05.decode, this]

/-- **C07_wkb_stack_spec.** … hence, with the measured frame size (512 bytes per level, stack
doubling included), the goroutine stack stays within the bound the specification demands
(128·len + 1 MiB) for EVERY input. -/
theorem C07_wkb_stack_spec (n : Nat) : Spec.stackOK n (stackModel n) = true := by
  have : 512 * (n / 9 + 1) ≤ 128 * n + 1048576 := by omega
  simp only [Spec.stackOK, Spec.stackBound, stackModel, frameBytes]
  exact decide_eq_true this

/-- the depth bound is attained: a chain of `k` nested one-member collections (9 bytes each) closed
by an empty collection needs `k + 1` frames -/
example : (match C05.read 2 [1,7,0,0,0,1,0,0,0, 1,7,0,0,0,1,0,0,0, 1,7,0,0,0,0,0,0,0] with
      | .error e => decide (e = .fuel) | .ok _ => false) = true ∧
    (C05.read 3 [1,7,0,0,0,1,0,0,0, 1,7,0,0,0,1,0,0,0, 1,7,0,0,0,0,0,0,0]).toBool = true := by
  decide +kernel

end GeomV.C07
