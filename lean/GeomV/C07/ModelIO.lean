import GeomV.C07.Model
/-!
# C07 model, part 2: WHICH error, and readers that are not byte slices

* `hexDecodeE` = `encoding/hex.Decode` (Go 1.23) with its two error values: pairs are examined from
  the front (first digit, then second digit of a pair → `InvalidByteError(thatByte)`); only after all
  pairs the trailing byte of an odd-length string is looked at (`InvalidByteError` if it is no digit,
  `ErrLength` otherwise).  `hexDecodeFullC` = `hex.Decode` of this package with that error detail.
* `streamDecodeC`: `wkb.Read(r)` on an `io.Reader` that is not a byte slice.  Every field is read with
  `binary.Read` = `io.ReadFull`: short reads and `(0, nil)` reads are retried, an error delivered
  TOGETHER with the last bytes of a request is dropped for that request.  For a reader whose error is
  sticky (once it has returned an error it keeps returning it — `io.EOF` at the end of a file, a closed
  connection) the call therefore sees exactly the bytes `delivered` before the error, and the end of
  `delivered` looks like the reader's error instead of `io.EOF`.
Core Lean only.
-/
namespace GeomV.C07
open GeomV GeomV.C05

/-! ## encoding/hex errors -/

inductive HexErr
  | invalidByte (c : Char)   -- hex.InvalidByteError(c)
  | length                   -- hex.ErrLength
deriving DecidableEq, Repr

def isHexDigit (c : Char) : Bool := (hexDigitVal c).isSome

/-- `encoding/hex.Decode` (the loop over pairs, then the odd trailing byte) -/
def hexDecodeE : List Char → Except HexErr Bytes
  | [] => .ok []
  | [a] => if isHexDigit a then .error .length else .error (.invalidByte a)
  | a :: b :: r =>
    match hexDigitVal a with
    | none => .error (.invalidByte a)
    | some x =>
      match hexDigitVal b with
      | none => .error (.invalidByte b)
      | some y =>
        match hexDecodeE r with
        | .ok t => .ok (UInt8.ofNat (x * 16 + y) :: t)
        | .error e => .error e

inductive HErr2
  | hex (e : HexErr)
  | wkb (e : Err)
deriving DecidableEq, Repr

/-- `hex.Decode` of this package, keeping WHICH hex error was returned -/
def hexDecodeFullC (pol : Policy) (s : List Char) : CM HErr2 BGeom :=
  match hexDecodeE s with
  | .error e => ⟨.error (.hex e), s.length / 2⟩
  | .ok bs =>
    let r := decodeC pol bs
    ⟨match r.res with | .ok g => .ok g | .error e => .error (.wkb e), s.length / 2 + r.cost⟩

/-! ## wkb.Read on a reader with a sticky error -/

/-- what the reader answers once its data is exhausted -/
inductive REnd
  | eof      -- io.EOF (or io.ErrUnexpectedEOF): a file / buffer that simply ends
  | custom   -- any other error value (connection reset, context cancelled, …)
deriving DecidableEq, Repr

inductive SErr
  | reader           -- the reader's own (non-EOF) error, passed through unchanged
  | wkb (e : Err)
deriving DecidableEq, Repr

/-- `wkb.Read(r)` where `r` delivers `delivered` (in pieces of any size, with any number of empty
reads in between) and then fails with `e` for ever. -/
def streamDecodeC (pol : Policy) (delivered : Bytes) (e : REnd) : CM SErr BGeom :=
  let r := decodeC pol delivered
  ⟨match r.res with
    | .ok g => .ok g
    | .error .eof => (match e with | .eof => .error (.wkb .eof) | .custom => .error .reader)
    | .error x => .error (.wkb x), r.cost⟩

end GeomV.C07
