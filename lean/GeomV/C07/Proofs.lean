import GeomV.C07.LemmasCost
import GeomV.C07.LemmasJsonCost
import GeomV.C07.Spec
import GeomV.C07.Gen
/-!
# C07 — property theorems

WKB / hex (model: `readC`/`decodeC`, the C05 reader with allocation cost; `fixed` = the code in /repo
after commit 96798da, `unfixed` = the code before it):
* `C07_wkb_erase`        forgetting the cost gives exactly `C05.decode` (so C05's theorems apply)
* `C07_wkb_total`        every byte string decodes to a geometry or one of the four documented errors;
                         the recursion budget `length + 1` is never exhausted ("never a crash")
* `C07_wkb_depth`        recursion depth ≤ length/9 + 1 (stack use is proportional to the input)
* `C07_wkb_alloc`        bytes requested ≤ 6·length + 32 KiB            ("count fields are not trusted")
* `C07_wkb_alloc_spec`   … hence within the Spec bound 64·length + 64 KiB
* `C07_wkb_alloc_unfixed_false`  the same bound is FALSE for the code before the fix (9-byte witness)
* `C07_hex_total`, `C07_hex_alloc`
* `C07_wkb_decoded_encodable`, `C07_reencode_stable`   decoded values re-encode and decode to themselves
GeoJSON: see the second half of the file.
-/
set_option linter.unusedSimpArgs false
set_option linter.unusedVariables false
namespace GeomV.C07
open GeomV GeomV.C05 GeomV.C05.Ogc

/-- **C07_wkb_erase.** The cost-instrumented decoder returns exactly what the C05 model of
`wkb.Decode` returns, for the fixed and for the unfixed allocation policy. -/
theorem C07_wkb_erase (bs : Bytes) :
    (decodeC fixed bs).res = C05.decode bs ∧ (decodeC unfixed bs).res = C05.decode bs :=
  ⟨decodeC_res fixed (by decide) bs, decodeC_res unfixed (by decide) bs⟩

/-- **C07_wkb_depth.** With a recursion budget of `fuel` nested `Read` calls the decoder can only run
out of budget on inputs of at least `9·fuel` bytes: every nesting level consumes a 5-byte header and
a 4-byte count. So the goroutine stack needed is at most `length/9 + 1` frames of `Read`. -/
theorem C07_wkb_depth (fuel : Nat) (bs : Bytes) (h : bs.length < 9 * fuel) :
    C05.read fuel bs ≠ .error .fuel := by
  intro e
  rcases (read_inv fuel bs).2 _ e with hg | ⟨_, hl⟩
  · rcases hg with h | h | h | h <;> cases h
  · omega

/-- **C07_wkb_total.** For EVERY byte string, `wkb.Decode` returns a geometry whose member counts all
fit the format (in particular no nil / unsupported member at any depth) or one of the four errors of
the Go code (EOF, invalid byte order, unsupported type, unexpected member type). The model's
recursion budget `length + 1` is never exhausted, and there is no other outcome. -/
theorem C07_wkb_total (bs : Bytes) :
    (∃ g, C05.decode bs = .ok g ∧ Encodable g) ∨
    (∃ e, C05.decode bs = .error e ∧ (e = .eof ∨ e = .badOrder ∨ e = .badType ∨ e = .unexpected)) := by
  simp only [C05.decode]
  cases h : C05.read (bs.length + 1) bs with
  | ok r =>
    obtain ⟨g, t⟩ := r
    exact .inl ⟨g, rfl, ((read_inv _ bs).1 g t h).2⟩
  | error e =>
    right
    refine ⟨e, rfl, ?_⟩
    rcases (read_inv _ bs).2 _ h with hg | ⟨_, hl⟩
    · exact hg
    · omega

/-- **C07_wkb_alloc.** For EVERY byte string the fixed decoder requests at most `6·length + 32768`
bytes from the allocator (explicit constants: 6 = worst ratio, a polygon of empty rings: 24-byte
slot per 4-byte count; 32768 = one pre-sized result slice plus one chunk of 1024 points that a lying
count can waste before the input runs out). -/
theorem C07_wkb_alloc (bs : Bytes) : (decodeC fixed bs).cost ≤ 6 * bs.length + 32768 :=
  decodeC_cost bs

/-- **C07_wkb_alloc_spec.** … which is within the bound the specification demands of the implementation. -/
theorem C07_wkb_alloc_spec (bs : Bytes) :
    Spec.allocOK .wkb bs.length (decodeC fixed bs).cost = true := by
  have := C07_wkb_alloc bs
  have h : (decodeC fixed bs).cost ≤ 64 * bs.length + 65536 := by omega
  simp only [Spec.allocOK, Spec.allocBound]
  exact decide_eq_true h

/-- the 9-byte message `01 02000000 ffffffff`: a LineString announcing 2^32−1 points -/
def witness : Bytes := [1, 2, 0, 0, 0, 0xff, 0xff, 0xff, 0xff]

/-- **C07_wkb_alloc_unfixed_false.** The allocation bound does NOT hold for the code before the fix:
on the 9-byte witness it requests 16·(2^32−1) bytes (64 GiB) before looking at the payload. -/
theorem C07_wkb_alloc_unfixed_false :
    ¬ ∀ bs : Bytes, (decodeC unfixed bs).cost ≤ 64 * bs.length + 65536 := by
  intro h
  have := h witness
  revert this
  decide

example : (decodeC unfixed witness).cost = 68719476720 := by decide
example : (decodeC fixed witness).cost = 32768 := by decide


/-- **C07_wkb_decoded_encodable.** Whatever `Decode` returns can be written back: all its member
counts were read from 4-byte fields, so they fit 4-byte fields. -/
theorem C07_wkb_decoded_encodable (bs : Bytes) (g : BGeom) (h : C05.decode bs = .ok g) : Encodable g := by
  rcases C07_wkb_total bs with ⟨g', h1, h2⟩ | ⟨e, h1, _⟩
  · rw [h] at h1; cases h1; exact h2
  · rw [h] at h1; cases h1

/-- **C07_reencode_stable** (WKB). Whenever decoding succeeds, re-encoding the result in either byte
order and decoding again yields the same geometry — for every byte string, including those with
mixed byte orders, trailing bytes, NaN payloads. -/
theorem C07_reencode_stable (bs : Bytes) (g : BGeom) (h : C05.decode bs = .ok g) (bo : BO) :
    ∃ bs', C05.encode bo g = .ok bs' ∧ C05.decode bs' = .ok g :=
  C05_roundtrip bo g (C07_wkb_decoded_encodable bs g h)

/-! ### hex -/

theorem hexDecode_length : ∀ (n : Nat) (s : List Char) (bs : Bytes), s.length ≤ n →
    C05.hexDecode s = some bs → 2 * bs.length = s.length := by
  intro n
  induction n using Nat.strongRecOn with
  | _ n ih =>
    intro s bs hn h
    match s, h with
    | [], h => simp [C05.hexDecode] at h; subst h; rfl
    | [_], h => simp [C05.hexDecode] at h
    | a :: b :: r, h =>
      simp only [C05.hexDecode, bind, Option.bind] at h
      cases hx : hexDigitVal a with
      | none => rw [hx] at h; cases h
      | some x =>
        rw [hx] at h; simp only at h
        cases hy : hexDigitVal b with
        | none => rw [hy] at h; cases h
        | some y =>
          rw [hy] at h; simp only at h
          cases ht : C05.hexDecode r with
          | none => rw [ht] at h; cases h
          | some t =>
            rw [ht] at h; simp only [pure] at h; cases h
            have := ih (r.length) (by simp at hn; omega) r t (Nat.le_refl _) ht
            simp; omega

/-- **C07_hex_total.** For EVERY string, `hex.Decode` returns a geometry, the hex error, or one of the
four WKB errors; never a recursion-budget fault. -/
theorem C07_hex_total (s : List Char) :
    (∃ g, (hexDecodeC fixed s).res = .ok g) ∨ (hexDecodeC fixed s).res = .error .hex ∨
    (∃ e, (hexDecodeC fixed s).res = .error (.wkb e) ∧ (e = .eof ∨ e = .badOrder ∨ e = .badType ∨ e = .unexpected)) := by
  simp only [hexDecodeC]
  cases h : C05.hexDecode s with
  | none => exact .inr (.inl rfl)
  | some bs =>
    simp only [(C07_wkb_erase bs).1]
    rcases C07_wkb_total bs with ⟨g, h1, _⟩ | ⟨e, h1, h2⟩
    · rw [h1]; exact .inl ⟨g, rfl⟩
    · rw [h1]; exact .inr (.inr ⟨e, rfl, h2⟩)

/-- **C07_hex_alloc.** For EVERY string of length `n`, `hex.Decode` requests at most `4·n + 32768` bytes. -/
theorem C07_hex_alloc (s : List Char) :
    (hexDecodeC fixed s).cost ≤ 4 * s.length + 32768 ∧
    Spec.allocOK .hex s.length (hexDecodeC fixed s).cost = true := by
  have key : (hexDecodeC fixed s).cost ≤ 4 * s.length + 32768 := by
    simp only [hexDecodeC]
    cases h : C05.hexDecode s with
    | none => simp only; omega
    | some bs =>
      simp only
      have := hexDecode_length _ s bs (Nat.le_refl _) h
      have := C07_wkb_alloc bs
      omega
  refine ⟨key, ?_⟩
  simp only [Spec.allocOK, Spec.allocBound]
  exact decide_eq_true (by omega)


/-! ## GeoJSON -/

/-- outcome of `fromGeoJSON` in terms of what `doFromGeoJSON` raised -/
theorem fromGeoJSON_res (g : Option (String × GoVal)) :
    (fromGeoJSON g).res = (match (doFromGeoJSON g).res with
      | .ok v => .ok v
      | .error .invalidGeometry => .error (.err .invalid)
      | .error (.unsupportedType _) => .error (.err .unsupported)
      | .error (.runtimeError _) => .error (.err .runtime)
      | .error (.nonError w) => .error (.panic ("interface conversion: " ++ w ++ " is not error"))) := rfl

/-- **C07_json_guards.** For every non-nil `*Geometry` — ANY type string and ANY Go value in
`Coordinates` (nil, numbers, strings, maps, ragged or wrongly nested arrays, typed slices, ints …) —
`FromGeoJSON` returns a geometry, `InvalidGeometryError` or `UnsupportedGeometryError`. In particular
no index expression of decode.go can go out of range: the `len(...) == 0` guards are sufficient. -/
theorem C07_json_guards (typ : String) (c : GoVal) :
    (∃ g, (fromGeoJSON (some (typ, c))).res = .ok g) ∨
    (fromGeoJSON (some (typ, c))).res = .error (.err .invalid) ∨
    (fromGeoJSON (some (typ, c))).res = .error (.err .unsupported) := by
  rw [fromGeoJSON_res]
  have h := raises_doFrom typ c
  cases hr : (doFromGeoJSON (some (typ, c))).res with
  | ok v => exact .inl ⟨v, rfl⟩
  | error p =>
    rcases h p hr with rfl | ⟨t, rfl⟩
    · exact .inr (.inl rfl)
    · exact .inr (.inr rfl)

/-- **C07_json_total.** For EVERY `*Geometry` value, nil included, the deferred
`recover(); err = e.(error)` of `FromGeoJSON` never itself panics: every value the decoder can raise
implements `error`. So the call returns a geometry or a non-nil error; no panic leaves it. -/
theorem C07_json_total (g : Option (String × GoVal)) (w : String) :
    (fromGeoJSON g).res ≠ .error (.panic w) := by
  cases g with
  | none => simp [fromGeoJSON_res, doFromGeoJSON, panic]
  | some tc =>
    obtain ⟨typ, c⟩ := tc
    rcases C07_json_guards typ c with ⟨g, h⟩ | h | h <;> rw [h] <;> simp

/-- **C07_json_text_total.** For EVERY byte string, `geojson.Decode` returns a geometry or an error
(a `json` error, `InvalidGeometryError` or `UnsupportedGeometryError`); no panic, and no runtime
error either. -/
theorem C07_json_text_total (bs : List UInt8) :
    (∃ g, (decodeJSON bs).res = .ok g) ∨ (decodeJSON bs).res = .error (.err .json) ∨
    (decodeJSON bs).res = .error (.err .invalid) ∨ (decodeJSON bs).res = .error (.err .unsupported) := by
  simp only [decodeJSON]
  cases h : unmarshalGeometry bs with
  | none => exact .inr (.inl rfl)
  | some tc =>
    obtain ⟨typ, c⟩ := tc
    rcases C07_json_guards typ c with h | h | h
    · exact .inl h
    · exact .inr (.inr (.inl h))
    · exact .inr (.inr (.inr h))


/-- **C07_json_alloc.** For EVERY type string and EVERY Go value `c` in `Coordinates`, the decoder
requests at most `48 · nodes(c)` bytes: it only mirrors the arrays it is given (≤ 24 bytes per node
while type-checking the tree, ≤ 24 per node while building paths). `json.Unmarshal`'s own tree is
proportional to the text by the library contract and is measured by the correspondence run. -/
theorem C07_json_alloc (typ : String) (c : GoVal) :
    (fromGeoJSON (some (typ, c))).cost ≤ 48 * c.size ∧
    Spec.allocOK .value c.size (fromGeoJSON (some (typ, c))).cost = true := by
  have key : (fromGeoJSON (some (typ, c))).cost ≤ 48 * c.size := doFrom_cost typ c
  refine ⟨key, ?_⟩
  simp only [Spec.allocOK, Spec.allocBound]
  exact decide_eq_true (by omega)

/-- the nil pointer costs nothing -/
example : (fromGeoJSON none).cost = 0 := rfl


/-! ### re-encoding a decoded GeoJSON value -/

/-- every value the computation can return satisfies `P` -/
def Returns {α : Type} (P : α → Prop) (m : J α) : Prop := ∀ a, m.res = .ok a → P a

theorem returns_bind {α β : Type} (P : β → Prop) {m : J α} {f : α → J β} (h : ∀ a, Returns P (f a)) :
    Returns P (m >>= f) := by
  intro b hb
  cases hm : m.res with
  | error e => rw [(bind_err (f := f) hm).1] at hb; cases hb
  | ok a => rw [(bind_ok (f := f) hm).1] at hb; exact h a b hb

theorem returns_pure {α : Type} (P : α → Prop) (a : α) (h : P a) : Returns P (pure a : J α) := by
  intro b hb; cases hb; exact h

theorem returns_panic {α : Type} (P : α → Prop) (p : PanicVal) : Returns P (panic p : J α) := by
  intro b hb; cases hb

/-- the six GeoJSON geometry kinds of this package -/
def IsSix : BGeom → Prop
  | .point _ | .multiPoint _ | .lineString _ | .multiLineString _ | .polygon _ | .multiPolygon _ => True
  | _ => False

theorem doFrom_returns_six (g : Option (String × GoVal)) : Returns IsSix (doFromGeoJSON g) := by
  cases g with
  | none => exact returns_panic _ _
  | some tc =>
    obtain ⟨typ, c⟩ := tc
    have pn : ∀ p, Returns IsSix (panic p : J BGeom) := fun p => returns_panic _ p
    simp only [doFromGeoJSON]
    split
    · refine returns_bind _ (fun cs => ?_)
      split
      · exact returns_bind _ (fun _ => returns_bind _ (fun _ => returns_pure _ _ trivial))
      · exact pn _
    split
    · refine returns_bind _ (fun cs => ?_)
      split
      · exact pn _
      · refine returns_bind _ (fun c0 => ?_)
        split
        · exact returns_bind _ (fun _ => returns_pure _ _ trivial)
        · exact pn _
    split
    · refine returns_bind _ (fun cs => ?_)
      split
      · exact pn _
      · refine returns_bind _ (fun c0 => ?_)
        split
        · exact returns_bind _ (fun _ => returns_pure _ _ trivial)
        · exact pn _
    split
    · refine returns_bind _ (fun cs => ?_)
      split
      · exact pn _
      · refine returns_bind _ (fun c0 => ?_)
        split
        · exact pn _
        · refine returns_bind _ (fun c00 => ?_)
          split
          · exact returns_bind _ (fun _ => returns_bind _ (fun _ => returns_pure _ _ trivial))
          · exact pn _
    split
    · refine returns_bind _ (fun cs => ?_)
      split
      · exact pn _
      · refine returns_bind _ (fun c0 => ?_)
        split
        · exact pn _
        · refine returns_bind _ (fun c00 => ?_)
          split
          · exact returns_bind _ (fun _ => returns_pure _ _ trivial)
          · exact pn _
    split
    · refine returns_bind _ (fun cs => ?_)
      split
      · exact pn _
      · refine returns_bind _ (fun c0 => ?_)
        split
        · exact pn _
        · refine returns_bind _ (fun c00 => ?_)
          split
          · exact pn _
          · refine returns_bind _ (fun c000 => ?_)
            split
            · exact returns_bind _ (fun _ => returns_bind _ (fun _ => returns_pure _ _ trivial))
            · exact pn _
    · exact pn _

/-- **C07_json_reencode_exact.** Exact characterisation of the decodable-but-not-re-encodable values:
whenever `FromGeoJSON` succeeds (on ANY Geometry value), the result is one of the six GeoJSON kinds,
and it has a GeoJSON encoding (`ToGeoJSON` + `json.Marshal` succeed) if and only if all its
coordinates are finite. Non-finite coordinates cannot come out of `Decode([]byte)` — JSON text has
no NaN/Inf and out-of-range numbers make `Unmarshal` fail — only out of a hand-built `Geometry`. -/
theorem C07_json_reencode_exact (g : Option (String × GoVal)) (v : BGeom)
    (h : (fromGeoJSON g).res = .ok v) :
    IsSix v ∧ ((reencode v).isSome = true ↔ allFinite v = true) := by
  have hv : (doFromGeoJSON g).res = .ok v := by
    rw [fromGeoJSON_res] at h
    cases hr : (doFromGeoJSON g).res with
    | ok w => rw [hr] at h; simp at h; rw [h]
    | error p => rw [hr] at h; cases p <;> simp at h
  have six := doFrom_returns_six g v hv
  refine ⟨six, ?_⟩
  cases v <;> simp [IsSix] at six <;> simp only [reencode] <;> cases hf : allFinite _ <;> simp [hf]

end GeomV.C07
