import GeomV.C07.JsonText
import GeomV.C07.Spec
namespace GeomV.C07
end GeomV.C07
