import GeomV.C07.LemmasJson
/-! GeoJSON decoder: allocation is proportional to the number of nodes of the value it is given. -/
set_option linter.unusedSimpArgs false
set_option linter.unusedVariables false
namespace GeomV.C07
open GeomV GeomV.C05

variable {α β : Type}

theorem size_pos (v : GoVal) : 1 ≤ v.size := by
  cases v <;> simp [GoVal.size] <;> omega

theorem length_le_sizeList (xs : List GoVal) : xs.length ≤ GoVal.sizeList xs := by
  induction xs with
  | nil => simp [GoVal.sizeList]
  | cons x xs ih => have := size_pos x; simp [GoVal.sizeList]; omega

/-- weight of a decoded list: one per member plus the members' weights -/
def sumW (m : β → Nat) : List β → Nat
  | [] => 0
  | b :: bs => 1 + m b + sumW m bs

theorem length_le_sumW (m : β → Nat) (bs : List β) : bs.length ≤ sumW m bs := by
  induction bs with
  | nil => simp [sumW]
  | cons b bs ih => simp [sumW]; omega

def m0 : UInt64 → Nat := fun _ => 0
def m1 := sumW m0
def m2 := sumW m1
def m3 := sumW m2
def m4 := sumW m3

/-- the statement proved of every `decodeCoordinates*` level -/
def LevelSp (f : GoVal → J β) (m : β → Nat) : Prop :=
  ∀ x, Sp (f x) (fun b c => c + 24 ≤ 24 * x.size ∧ 1 + m b ≤ x.size) (fun c => c + 24 ≤ 24 * x.size)

theorem mapC_level (f : GoVal → J β) (m : β → Nat) (h : LevelSp f m) :
    ∀ xs, Sp (mapC f xs)
      (fun bs c => c + 24 * xs.length ≤ 24 * GoVal.sizeList xs ∧ sumW m bs ≤ GoVal.sizeList xs)
      (fun c => c + 24 * xs.length ≤ 24 * GoVal.sizeList xs) := by
  intro xs
  induction xs with
  | nil => simp only [mapC]; exact sp_pure (by simp [GoVal.sizeList, sumW])
  | cons x xs ih =>
    simp only [mapC]
    have hl := length_le_sizeList xs
    refine sp_bind (h x) ?_ ?_
    · intro c hc; simp [GoVal.sizeList]; omega
    · intro b c hc
      refine sp_bind ih ?_ ?_
      · intro c' hc'; simp [GoVal.sizeList]; omega
      · intro bs c' hc'
        refine sp_pure ?_
        simp [GoVal.sizeList, sumW]; omega

theorem level_sp (k : Nat) (hk : k ≤ 24) (f : GoVal → J β) (m : β → Nat) (h : LevelSp f m) :
    LevelSp (fun v => do
      let array ← asArray v
      alloc (k * array.length)
      mapC f array) (sumW m) := by
  intro v
  have hp := size_pos v
  cases v with
  | arr xs =>
    have hl := length_le_sizeList xs
    have hkl : k * xs.length ≤ 24 * xs.length := Nat.mul_le_mul_right _ hk
    simp only [asArray]
    refine sp_bind (Q := fun a c => a = xs ∧ c = 0) (R := fun _ => False) (sp_pure ⟨rfl, rfl⟩) (fun _ h => h.elim) ?_
    intro a c hc
    obtain ⟨rfl, rfl⟩ := hc
    refine sp_bind (Q := fun _ c => c = k * a.length) (R := fun _ => False) (sp_alloc rfl) (fun _ h => h.elim) ?_
    intro _ c hc; subst hc
    refine sp_mono (mapC_level f m h a) ?_ ?_
    · intro bs c hc; simp only [GoVal.size]; omega
    · intro c hc; simp only [GoVal.size]; omega
  | _ =>
    simp only [asArray]
    refine sp_bind (Q := fun _ _ => False) (R := fun c => c = 0) ?_ ?_ (fun _ _ h => h.elim)
    · show Sp (panic _) _ _
      simp [Sp, panic]
    · intro c hc; subst hc; omega

theorem asFloat_level : LevelSp asFloat m0 := by
  intro x
  have := size_pos x
  cases x <;> simp [asFloat, Sp, panic, m0, pure_def, CM.pure'] <;> omega

theorem dc1_level : LevelSp decodeCoordinates m1 := by
  exact level_sp 8 (by omega) asFloat m0 asFloat_level

theorem dc2_level : LevelSp decodeCoordinates2 m2 := by
  exact level_sp 24 (by omega) _ m1 dc1_level

theorem dc3_level : LevelSp decodeCoordinates3 m3 := by
  exact level_sp 24 (by omega) _ m2 dc2_level

theorem dc4_level : LevelSp decodeCoordinates4 m4 := by
  exact level_sp 24 (by omega) _ m3 dc3_level

/-! ### second phase: building the geometry from the decoded number lists -/

theorem bind_cost_le {ε : Type} {m : CM ε α} {f : α → CM ε β} {A B : Nat} (h1 : m.cost ≤ A) (h2 : ∀ a, (f a).cost ≤ B) :
    (m >>= f).cost ≤ A + B := by
  rw [bind_cost]
  cases m.res with
  | error e => simp; omega
  | ok a => have := h2 a; simp; omega

def sumG (g : α → Nat) : List α → Nat
  | [] => 0
  | a :: as => g a + sumG g as

theorem mapC_cost_le (f : α → J β) (g : α → Nat) (h : ∀ a, (f a).cost ≤ g a) :
    ∀ xs, (mapC f xs).cost ≤ sumG g xs := by
  intro xs
  induction xs with
  | nil => simp [mapC, sumG]
  | cons a as ih =>
    simp only [mapC, sumG]
    refine bind_cost_le (h a) (fun b => ?_)
    have := bind_cost_le (f := fun bs => (pure (b :: bs) : J (List β))) ih (fun _ => Nat.le_refl 0)
    simpa using this

theorem idx_cost (xs : List α) (i : Nat) : (idx xs i).cost = 0 := by
  simp only [idx]; split <;> rfl

theorem makePoint_cost (e : List UInt64) : (makePoint e).cost ≤ 0 := by
  simp only [makePoint]
  split
  · have := bind_cost_le (f := fun x => (idx e 1 >>= fun y => (pure ⟨x, y⟩ : J (Pt UInt64))))
      (Nat.le_of_eq (idx_cost e 0)) (B := 0) (fun x => by
        have := bind_cost_le (f := fun y => (pure ⟨x, y⟩ : J (Pt UInt64))) (Nat.le_of_eq (idx_cost e 1)) (B := 0) (fun _ => Nat.le_refl 0)
        simpa using this)
    simpa using this
  · simp [panic]

theorem sumG_zero (xs : List α) : sumG (fun _ => 0) xs = 0 := by
  induction xs with
  | nil => rfl
  | cons a as ih => simp [sumG, ih]

theorem ring_cost (cs : List (List UInt64)) : (makeLinearRing cs).cost ≤ 16 * cs.length := by
  simp only [makeLinearRing]
  have h := mapC_cost_le makePoint (fun _ => 0) makePoint_cost cs
  rw [sumG_zero] at h
  have := bind_cost_le (m := (alloc (16 * cs.length) : J Unit)) (f := fun _ => mapC makePoint cs) (Nat.le_refl _) (B := 0) (fun _ => h)
  simpa using this

theorem sumG_ring (css : List (List (List UInt64))) :
    sumG (fun cs => 16 * cs.length) css + 24 * css.length ≤ 24 * m3 css := by
  induction css with
  | nil => simp [sumG, m3, sumW]
  | cons cs css ih =>
    have := length_le_sumW m1 cs
    simp only [sumG, m3, m2, sumW, List.length_cons] at *
    omega

theorem mapC_ring_cost (css : List (List (List UInt64))) :
    (mapC makeLinearRing css).cost + 24 * css.length ≤ 24 * m3 css := by
  have := mapC_cost_le makeLinearRing _ ring_cost css
  have := sumG_ring css
  omega

theorem rings_cost (css : List (List (List UInt64))) : (makeLinearRings css).cost ≤ 24 * m3 css := by
  simp only [makeLinearRings]
  have h := mapC_ring_cost css
  have := bind_cost_le (m := (alloc (24 * css.length) : J Unit)) (f := fun _ => mapC makeLinearRing css)
    (Nat.le_refl _) (fun _ => Nat.le_refl _)
  simp only [alloc_cost] at this
  omega

theorem sumG_rings (ps : List (List (List (List UInt64)))) :
    sumG (fun css => 24 * m3 css) ps + 24 * ps.length ≤ 24 * m4 ps := by
  induction ps with
  | nil => simp [sumG, m4, sumW]
  | cons p ps ih =>
    simp only [sumG, m4, m3, sumW, List.length_cons] at *
    omega

theorem mapC_rings_cost (ps : List (List (List (List UInt64)))) :
    (mapC makeLinearRings ps).cost + 24 * ps.length ≤ 24 * m4 ps := by
  have := mapC_cost_le makeLinearRings _ rings_cost ps
  have := sumG_rings ps
  omega


theorem sp_of_cost_le {ε : Type} (r : CM ε α) (B : Nat) (h : r.cost ≤ B) :
    Sp r (fun _ c => c ≤ B) (fun c => c ≤ B) := by
  unfold Sp; cases r.res <;> exact h

theorem cost_idx_bind (xs : List α) (i : Nat) (f : α → J β) (B : Nat) (h : ∀ a, (f a).cost ≤ B) :
    (idx xs i >>= f).cost ≤ B := by
  have := bind_cost_le (Nat.le_of_eq (idx_cost xs i)) h
  omega

theorem cost_bind_pure (m : J α) (k : α → β) (B : Nat) (h : m.cost ≤ B) :
    (m >>= fun a => (pure (k a) : J β)).cost ≤ B := by
  have := bind_cost_le (f := fun a => (pure (k a) : J β)) h (B := 0) (fun _ => Nat.le_refl 0)
  omega

theorem cost_panic (p : PanicVal) : (panic p : J α).cost = 0 := rfl

/-- what happens after the coordinates have been decoded, per geometry type: cost bounds -/
theorem rest_point (cs : List UInt64) :
    (if cs.length = 2 then do
        let x ← idx cs 0
        let y ← idx cs 1
        pure (Geom.point ⟨x, y⟩)
      else panic .invalidGeometry : J BGeom).cost ≤ 0 := by
  split
  · exact cost_idx_bind _ _ _ _ (fun x => cost_idx_bind _ _ _ _ (fun y => Nat.le_refl 0))
  · exact Nat.le_refl 0

theorem rest_points (k : List (Pt UInt64) → BGeom) (cs : List (List UInt64)) :
    (if cs.length = 0 then panic .invalidGeometry else do
      let c0 ← idx cs 0
      if c0.length = 2 then do
        let ps ← makeLinearRing cs
        pure (k ps)
      else panic .invalidGeometry : J BGeom).cost ≤ 24 * m2 cs := by
  have h1 := ring_cost cs
  have h2 := length_le_sumW m1 cs
  have hb : 16 * cs.length ≤ 24 * m2 cs := by simp only [m2]; omega
  split
  · exact Nat.zero_le _
  · refine cost_idx_bind _ _ _ _ (fun c0 => ?_)
    split
    · exact cost_bind_pure _ _ _ (by omega)
    · exact Nat.zero_le _

theorem rest_mls (cs : List (List (List UInt64))) :
    (if cs.length = 0 then panic .invalidGeometry else do
      let c0 ← idx cs 0
      if c0.length = 0 then panic .invalidGeometry else do
      let c00 ← idx c0 0
      if c00.length = 2 then do
        alloc (24 * cs.length)
        let ls ← mapC makeLinearRing cs
        pure (Geom.multiLineString ls)
      else panic .invalidGeometry : J BGeom).cost ≤ 24 * m3 cs := by
  have h1 := mapC_ring_cost cs
  split
  · exact Nat.zero_le _
  · refine cost_idx_bind _ _ _ _ (fun c0 => ?_)
    split
    · exact Nat.zero_le _
    · refine cost_idx_bind _ _ _ _ (fun c00 => ?_)
      split
      · have := bind_cost_le (m := (alloc (24 * cs.length) : J Unit))
          (f := fun _ => mapC makeLinearRing cs >>= fun ls => (pure (Geom.multiLineString ls) : J BGeom))
          (Nat.le_refl _) (fun _ => cost_bind_pure _ _ _ (Nat.le_refl _))
        simp only [alloc_cost] at this
        omega
      · exact Nat.zero_le _

theorem rest_polygon (cs : List (List (List UInt64))) :
    (if cs.length = 0 then panic .invalidGeometry else do
      let c0 ← idx cs 0
      if c0.length = 0 then panic .invalidGeometry else do
      let c00 ← idx c0 0
      if c00.length = 2 then do
        let rs ← makeLinearRings cs
        pure (Geom.polygon rs)
      else panic .invalidGeometry : J BGeom).cost ≤ 24 * m3 cs := by
  have h1 := rings_cost cs
  split
  · exact Nat.zero_le _
  · refine cost_idx_bind _ _ _ _ (fun c0 => ?_)
    split
    · exact Nat.zero_le _
    · refine cost_idx_bind _ _ _ _ (fun c00 => ?_)
      split
      · exact cost_bind_pure _ _ _ h1
      · exact Nat.zero_le _

theorem rest_mpg (cs : List (List (List (List UInt64)))) :
    (if cs.length = 0 then panic .invalidGeometry else do
      let c0 ← idx cs 0
      if c0.length = 0 then panic .invalidGeometry else do
      let c00 ← idx c0 0
      if c00.length = 0 then panic .invalidGeometry else do
      let c000 ← idx c00 0
      if c000.length = 2 then do
        alloc (24 * cs.length)
        let ps ← mapC makeLinearRings cs
        pure (Geom.multiPolygon ps)
      else panic .invalidGeometry : J BGeom).cost ≤ 24 * m4 cs := by
  have h1 := mapC_rings_cost cs
  split
  · exact Nat.zero_le _
  · refine cost_idx_bind _ _ _ _ (fun c0 => ?_)
    split
    · exact Nat.zero_le _
    · refine cost_idx_bind _ _ _ _ (fun c00 => ?_)
      split
      · exact Nat.zero_le _
      · refine cost_idx_bind _ _ _ _ (fun c000 => ?_)
        split
        · have := bind_cost_le (m := (alloc (24 * cs.length) : J Unit))
            (f := fun _ => mapC makeLinearRings cs >>= fun ps => (pure (Geom.multiPolygon ps) : J BGeom))
            (Nat.le_refl _) (fun _ => cost_bind_pure _ _ _ (Nat.le_refl _))
          simp only [alloc_cost] at this
          omega
        · exact Nat.zero_le _

/-- a decode level followed by a construction phase whose cost is bounded by the decoded weight -/
theorem two_phase (f : GoVal → J β) (m : β → Nat) (h : LevelSp f m) (rest : β → J BGeom)
    (hr : ∀ b, (rest b).cost ≤ 24 * m b) (c : GoVal) : (f c >>= rest).cost ≤ 48 * c.size := by
  have key : Sp (f c >>= rest) (fun _ k => k ≤ 48 * c.size) (fun k => k ≤ 48 * c.size) := by
    refine sp_bind (h c) (fun k hk => by omega) ?_
    intro b k hk
    refine sp_mono (sp_of_cost_le (rest b) _ (hr b)) ?_ ?_ <;> intro _ <;> (try intro _) <;> omega
  unfold Sp at key
  cases h' : (f c >>= rest).res with
  | error e => rw [h'] at key; exact key
  | ok a => rw [h'] at key; exact key

theorem doFrom_cost (typ : String) (c : GoVal) : (doFromGeoJSON (some (typ, c))).cost ≤ 48 * c.size := by
  simp only [doFromGeoJSON]
  split
  · exact two_phase _ m1 dc1_level _ (fun cs => by have := rest_point cs; omega) c
  split
  · exact two_phase _ m2 dc2_level _ (rest_points .multiPoint) c
  split
  · exact two_phase _ m2 dc2_level _ (rest_points .lineString) c
  split
  · exact two_phase _ m3 dc3_level _ rest_mls c
  split
  · exact two_phase _ m3 dc3_level _ rest_polygon c
  split
  · exact two_phase _ m4 dc4_level _ rest_mpg c
  · exact Nat.zero_le _

end GeomV.C07
