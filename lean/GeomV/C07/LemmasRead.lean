import GeomV.C07.Lemmas
/-! Invariants of the C05 reader on ARBITRARY input (C05 proves facts about well-formed input only). -/
set_option linter.unusedSimpArgs false
set_option linter.unusedVariables false
namespace GeomV.C07
open GeomV GeomV.C05 GeomV.C05.Ogc

/-- the errors `wkb.Read` can return -/
def Good (x : Err) : Prop := x = .eof ∨ x = .badOrder ∨ x = .badType ∨ x = .unexpected

/-- what follows the header in `Read` -/
def readBody (f : Nat) (bo : BO) (code : Nat) (bs : Bytes) : Except Err (BGeom × Bytes) :=
  if code = 1 then do
    let (p, bs) ← readPoint bo bs; pure (.point p, bs)
  else if code = 2 then do
    let (p, bs) ← readPoints bo bs; pure (.lineString p, bs)
  else if code = 3 then do
    let (n, bs) ← readU32 bo bs
    let (r, bs) ← readMany (readPoints bo) n bs; pure (.polygon r, bs)
  else if code = 4 then do
    let (n, bs) ← readU32 bo bs
    let (r, bs) ← readMany (readAs (C05.read f) asPoint) n bs; pure (.multiPoint r, bs)
  else if code = 5 then do
    let (n, bs) ← readU32 bo bs
    let (r, bs) ← readMany (readAs (C05.read f) asLine) n bs; pure (.multiLineString r, bs)
  else if code = 6 then do
    let (n, bs) ← readU32 bo bs
    let (r, bs) ← readMany (readAs (C05.read f) asPoly) n bs; pure (.multiPolygon r, bs)
  else if code = 7 then do
    let (n, bs) ← readU32 bo bs
    let (r, bs) ← readMany (C05.read f) n bs; pure (.collection r, bs)
  else .error .badType

def flagOf (fl : Bytes) : Except Err BO :=
  match fl with
  | [b] => if b = 0 then .ok BO.xdr else if b = 1 then .ok BO.ndr else .error .badOrder
  | _ => .error .eof

theorem read_succ (f : Nat) (bs : Bytes) : C05.read (f+1) bs = (do
    let (fl, bs) ← takeN 1 bs
    let bo ← flagOf fl
    let (code, bs) ← readU32 bo bs
    readBody f bo code bs) := by
  simp only [C05.read, readBody, flagOf]
  rfl

/-- header inversion: success -/
theorem read_succ_ok {f : Nat} {bs t : Bytes} {g : BGeom} (e : C05.read (f+1) bs = .ok (g, t)) :
    ∃ bo code b2, b2.length + 5 = bs.length ∧ readBody f bo code b2 = .ok (g, t) := by
  rw [read_succ] at e
  simp only [bind, Except.bind] at e
  cases h1 : takeN 1 bs with
  | error y => rw [h1] at e; cases e
  | ok r1 =>
    obtain ⟨fl, b1⟩ := r1
    rw [h1] at e; simp only at e
    cases h2 : flagOf fl with
    | error y => rw [h2] at e; cases e
    | ok bo =>
      rw [h2] at e; simp only at e
      cases h3 : readU32 bo b1 with
      | error y => rw [h3] at e; cases e
      | ok r3 =>
        obtain ⟨code, b2⟩ := r3
        rw [h3] at e; simp only at e
        have := takeN_ok h1; have := readU32_ok h3
        exact ⟨bo, code, b2, by omega, e⟩

/-- header inversion: failure -/
theorem read_succ_err {f : Nat} {bs : Bytes} {x : Err} (e : C05.read (f+1) bs = .error x) :
    Good x ∨ ∃ bo code b2, b2.length + 5 = bs.length ∧ readBody f bo code b2 = .error x := by
  rw [read_succ] at e
  simp only [bind, Except.bind] at e
  cases h1 : takeN 1 bs with
  | error y => rw [h1] at e; cases e; exact .inl (.inl (takeN_err h1))
  | ok r1 =>
    obtain ⟨fl, b1⟩ := r1
    rw [h1] at e; simp only at e
    cases h2 : flagOf fl with
    | error y =>
      rw [h2] at e; cases e
      left
      simp only [flagOf] at h2
      split at h2
      · split at h2
        · cases h2
        · split at h2
          · cases h2
          · cases h2; exact .inr (.inl rfl)
      · cases h2; exact .inl rfl
    | ok bo =>
      rw [h2] at e; simp only at e
      cases h3 : readU32 bo b1 with
      | error y => rw [h3] at e; cases e; exact .inl (.inl (readU32_err h3))
      | ok r3 =>
        obtain ⟨code, b2⟩ := r3
        rw [h3] at e; simp only at e
        have := takeN_ok h1; have := readU32_ok h3
        exact .inr ⟨bo, code, b2, by omega, e⟩

theorem readAs_ok {β : Type} {rd : Bytes → Except Err (BGeom × Bytes)} {cast : BGeom → Except Err β}
    {bs t : Bytes} {v : β} (e : readAs rd cast bs = .ok (v, t)) :
    ∃ g, rd bs = .ok (g, t) ∧ cast g = .ok v := by
  simp only [readAs, bind, Except.bind] at e
  cases h1 : rd bs with
  | error y => rw [h1] at e; cases e
  | ok r1 =>
    obtain ⟨g, b1⟩ := r1
    rw [h1] at e; simp only at e
    cases h2 : cast g with
    | error y => rw [h2] at e; cases e
    | ok v' => rw [h2] at e; simp only [pure, Except.pure] at e; cases e; exact ⟨g, rfl, h2⟩

theorem readAs_err {β : Type} {rd : Bytes → Except Err (BGeom × Bytes)} {cast : BGeom → Except Err β}
    {bs : Bytes} {x : Err} (e : readAs rd cast bs = .error x) :
    rd bs = .error x ∨ ∃ g t, rd bs = .ok (g, t) ∧ cast g = .error x := by
  simp only [readAs, bind, Except.bind] at e
  cases h1 : rd bs with
  | error y => rw [h1] at e; cases e; exact .inl rfl
  | ok r1 =>
    obtain ⟨g, b1⟩ := r1
    rw [h1] at e; simp only at e
    cases h2 : cast g with
    | error y => rw [h2] at e; cases e; exact .inr ⟨g, b1, rfl, h2⟩
    | ok v' => rw [h2] at e; cases e

theorem asPoint_ok {g : BGeom} {p} (e : asPoint g = .ok p) : g = .point p := by
  cases g <;> simp [asPoint] at e; subst e; rfl
theorem asLine_ok {g : BGeom} {p} (e : asLine g = .ok p) : g = .lineString p := by
  cases g <;> simp [asLine] at e; subst e; rfl
theorem asPoly_ok {g : BGeom} {p} (e : asPoly g = .ok p) : g = .polygon p := by
  cases g <;> simp [asPoly] at e; subst e; rfl
theorem asPoint_err {g : BGeom} {x} (e : asPoint g = .error x) : x = .unexpected := by
  cases g <;> simp [asPoint] at e <;> exact e.symm
theorem asLine_err {g : BGeom} {x} (e : asLine g = .error x) : x = .unexpected := by
  cases g <;> simp [asLine] at e <;> exact e.symm
theorem asPoly_err {g : BGeom} {x} (e : asPoly g = .error x) : x = .unexpected := by
  cases g <;> simp [asPoly] at e <;> exact e.symm

theorem encodableList_of_forall (gs : List BGeom) (h : ∀ g ∈ gs, Encodable g) : EncodableList gs := by
  induction gs with
  | nil => simp [EncodableList]
  | cons g gs ih =>
    simp only [EncodableList]
    exact ⟨h g (by simp), ih (fun x hx => h x (by simp [hx]))⟩

/-- two-step inversion of `do let (n, bs) ← readU32 ..; let (r, bs) ← loop n bs; pure (k r, bs)` -/
theorem counted_ok {β : Type} {bo : BO} {loop : Nat → Bytes → Except Err (List β × Bytes)}
    {k : List β → BGeom} {bs t : Bytes} {g : BGeom}
    (e : (do let (n, bs) ← readU32 bo bs; let (r, bs) ← loop n bs; pure (k r, bs) : Except Err (BGeom × Bytes)) = .ok (g, t)) :
    ∃ n b1 r, n < 2^32 ∧ b1.length + 4 = bs.length ∧ loop n b1 = .ok (r, t) ∧ g = k r := by
  simp only [bind, Except.bind] at e
  cases h1 : readU32 bo bs with
  | error y => rw [h1] at e; cases e
  | ok r1 =>
    obtain ⟨n, b1⟩ := r1
    rw [h1] at e; simp only at e
    cases h2 : loop n b1 with
    | error y => rw [h2] at e; cases e
    | ok r2 =>
      obtain ⟨r, b2⟩ := r2
      rw [h2] at e; simp only [pure, Except.pure] at e; cases e
      obtain ⟨a, b⟩ := readU32_ok h1
      exact ⟨n, b1, r, a, b, h2, rfl⟩

theorem counted_err {β : Type} {bo : BO} {loop : Nat → Bytes → Except Err (List β × Bytes)}
    {k : List β → BGeom} {bs : Bytes} {x : Err}
    (e : (do let (n, bs) ← readU32 bo bs; let (r, bs) ← loop n bs; pure (k r, bs) : Except Err (BGeom × Bytes)) = .error x) :
    x = .eof ∨ ∃ n b1, b1.length + 4 = bs.length ∧ loop n b1 = .error x := by
  simp only [bind, Except.bind] at e
  cases h1 : readU32 bo bs with
  | error y => rw [h1] at e; cases e; exact .inl (readU32_err h1)
  | ok r1 =>
    obtain ⟨n, b1⟩ := r1
    rw [h1] at e; simp only at e
    cases h2 : loop n b1 with
    | error y => rw [h2] at e; cases e; exact .inr ⟨n, b1, (readU32_ok h1).2, h2⟩
    | ok r2 => rw [h2] at e; cases e

/-- **the invariant of `C05.read` on arbitrary input**, by induction on the recursion budget -/
theorem read_inv (fuel : Nat) : ∀ bs : Bytes,
    (∀ g t, C05.read fuel bs = .ok (g, t) → t.length + 5 ≤ bs.length ∧ Encodable g) ∧
    (∀ x, C05.read fuel bs = .error x → Good x ∨ (x = .fuel ∧ 9 * fuel ≤ bs.length)) := by
  induction fuel with
  | zero =>
    intro bs
    refine ⟨fun g t e => by simp [C05.read] at e, fun x e => ?_⟩
    simp [C05.read] at e; subst e; exact .inr ⟨rfl, by omega⟩
  | succ f ih =>
    intro bs
    have ihok : ∀ bs g t, C05.read f bs = .ok (g, t) → t.length + 5 ≤ bs.length ∧ Encodable g :=
      fun bs g t => (ih bs).1 g t
    have iherr : ∀ bs x, C05.read f bs = .error x → Good x ∨ (x = .fuel ∧ 9 * f ≤ bs.length) :=
      fun bs x => (ih bs).2 x
    -- member readers
    have okAs : ∀ {β : Type} (cast : BGeom → Except Err β) (P : β → Prop),
        (∀ g v, cast g = .ok v → Encodable g → P v) →
        ∀ bs a t, readAs (C05.read f) cast bs = .ok (a, t) → t.length + 5 ≤ bs.length ∧ P a := by
      intro β cast P hc bs a t e
      obtain ⟨g, h1, h2⟩ := readAs_ok e
      obtain ⟨l, en⟩ := ihok _ _ _ h1
      exact ⟨l, hc g a h2 en⟩
    have errAs : ∀ {β : Type} (cast : BGeom → Except Err β), (∀ g x, cast g = .error x → x = .unexpected) →
        ∀ bs x, readAs (C05.read f) cast bs = .error x → Good x ∨ (x = .fuel ∧ 9 * f ≤ bs.length) := by
      intro β cast hc bs x e
      rcases readAs_err e with h | ⟨g, t, _, h2⟩
      · exact iherr _ _ h
      · exact .inl (.inr (.inr (.inr (hc _ _ h2))))
    have leAs : ∀ {β : Type} (cast : BGeom → Except Err β) bs a t,
        readAs (C05.read f) cast bs = .ok (a, t) → t.length ≤ bs.length := by
      intro β cast bs a t e
      obtain ⟨g, h1, _⟩ := readAs_ok e
      have := (ihok _ _ _ h1).1; omega
    -- error of a loop over members, given the bytes left after header and count
    have loopErr : ∀ {β : Type} (rd : Bytes → Except Err (β × Bytes)),
        (∀ bs a t, rd bs = .ok (a, t) → t.length ≤ bs.length) →
        (∀ bs x, rd bs = .error x → Good x ∨ (x = .fuel ∧ 9 * f ≤ bs.length)) →
        ∀ n b1 x, b1.length + 9 = bs.length → readMany rd n b1 = .error x →
          Good x ∨ (x = .fuel ∧ 9 * (f + 1) ≤ bs.length) := by
      intro β rd hle herr n b1 x hl e
      refine readMany_err (fun x => Good x ∨ (x = .fuel ∧ 9 * (f + 1) ≤ bs.length)) b1.length hle ?_ n b1 x (Nat.le_refl _) e
      intro bs' x' hl' e'
      rcases herr _ _ e' with h | ⟨h1, h2⟩
      · exact .inl h
      · exact .inr ⟨h1, by omega⟩
    constructor
    · -- success
      intro g t e
      obtain ⟨bo, code, b2, hl, e⟩ := read_succ_ok e
      simp only [readBody] at e
      split at e
      · -- point
        simp only [bind, Except.bind] at e
        cases h1 : readPoint bo b2 with
        | error y => rw [h1] at e; cases e
        | ok r1 =>
          obtain ⟨p, b3⟩ := r1
          rw [h1] at e; simp only [pure, Except.pure] at e; cases e
          have := readPoint_ok h1
          exact ⟨by omega, by simp [Encodable]⟩
      split at e
      · -- linestring
        simp only [bind, Except.bind] at e
        cases h1 : readPoints bo b2 with
        | error y => rw [h1] at e; cases e
        | ok r1 =>
          obtain ⟨p, b3⟩ := r1
          rw [h1] at e; simp only [pure, Except.pure] at e; cases e
          have := readPoints_ok h1
          exact ⟨by omega, by simp [Encodable, fits]; exact this.1⟩
      split at e
      · -- polygon
        obtain ⟨n, b3, r, hn, hl3, hloop, rfl⟩ := counted_ok e
        obtain ⟨i1, i2, i3⟩ := readMany_ok (m := 4) (fun (l : List (Pt UInt64)) => l.length < 2^32)
          (fun bs a t h => by have := readPoints_ok h; exact ⟨by omega, this.1⟩) n b3 r t hloop
        refine ⟨by omega, ?_⟩
        simp only [Encodable, fits]
        exact ⟨by omega, i3⟩
      split at e
      · -- multipoint
        obtain ⟨n, b3, r, hn, hl3, hloop, rfl⟩ := counted_ok e
        obtain ⟨i1, i2, i3⟩ := readMany_ok (m := 5) (fun (_ : Pt UInt64) => True)
          (okAs asPoint _ (fun _ _ _ _ => trivial)) n b3 r t hloop
        refine ⟨by omega, ?_⟩
        simp only [Encodable, fits]; omega
      split at e
      · -- multilinestring
        obtain ⟨n, b3, r, hn, hl3, hloop, rfl⟩ := counted_ok e
        obtain ⟨i1, i2, i3⟩ := readMany_ok (m := 5) (fun (l : List (Pt UInt64)) => l.length < 2^32)
          (okAs asLine _ (fun g v hc he => by
            have := asLine_ok hc; subst this; simpa [Encodable, fits] using he)) n b3 r t hloop
        refine ⟨by omega, ?_⟩
        simp only [Encodable, fits]
        exact ⟨by omega, i3⟩
      split at e
      · -- multipolygon
        obtain ⟨n, b3, r, hn, hl3, hloop, rfl⟩ := counted_ok e
        obtain ⟨i1, i2, i3⟩ := readMany_ok (m := 5)
          (fun (p : List (List (Pt UInt64))) => p.length < 2^32 ∧ ∀ r ∈ p, r.length < 2^32)
          (okAs asPoly _ (fun g v hc he => by
            have := asPoly_ok hc; subst this; simpa [Encodable, fits] using he)) n b3 r t hloop
        refine ⟨by omega, ?_⟩
        simp only [Encodable, fits]
        exact ⟨by omega, i3⟩
      split at e
      · -- collection
        obtain ⟨n, b3, r, hn, hl3, hloop, rfl⟩ := counted_ok e
        obtain ⟨i1, i2, i3⟩ := readMany_ok (m := 5) Encodable
          (fun bs a t h => ihok _ _ _ h) n b3 r t hloop
        refine ⟨by omega, ?_⟩
        simp only [Encodable, fits, listLen_eq]
        exact ⟨by omega, encodableList_of_forall _ i3⟩
      · cases e
    · -- failure
      intro x e
      rcases read_succ_err e with h | ⟨bo, code, b2, hl, e⟩
      · exact .inl h
      simp only [readBody] at e
      split at e
      · simp only [bind, Except.bind] at e
        cases h1 : readPoint bo b2 with
        | error y => rw [h1] at e; cases e; exact .inl (.inl (readPoint_err h1))
        | ok r1 => rw [h1] at e; cases e
      split at e
      · simp only [bind, Except.bind] at e
        cases h1 : readPoints bo b2 with
        | error y => rw [h1] at e; cases e; exact .inl (.inl (readPoints_err h1))
        | ok r1 => rw [h1] at e; cases e
      split at e
      · rcases counted_err e with h | ⟨n, b3, hl3, hloop⟩
        · exact .inl (.inl h)
        · left; left
          exact readMany_err (fun x => x = .eof) b3.length
            (fun bs a t h => by have := readPoints_ok h; omega)
            (fun bs x _ h => readPoints_err h) n b3 x (Nat.le_refl _) hloop
      split at e
      · rcases counted_err e with h | ⟨n, b3, hl3, hloop⟩
        · exact .inl (.inl h)
        · exact loopErr _ (leAs asPoint) (errAs asPoint (fun _ _ => asPoint_err)) n b3 x (by omega) hloop
      split at e
      · rcases counted_err e with h | ⟨n, b3, hl3, hloop⟩
        · exact .inl (.inl h)
        · exact loopErr _ (leAs asLine) (errAs asLine (fun _ _ => asLine_err)) n b3 x (by omega) hloop
      split at e
      · rcases counted_err e with h | ⟨n, b3, hl3, hloop⟩
        · exact .inl (.inl h)
        · exact loopErr _ (leAs asPoly) (errAs asPoly (fun _ _ => asPoly_err)) n b3 x (by omega) hloop
      split at e
      · rcases counted_err e with h | ⟨n, b3, hl3, hloop⟩
        · exact .inl (.inl h)
        · exact loopErr _ (fun bs a t h => by have := (ihok _ _ _ h).1; omega) iherr n b3 x (by omega) hloop
      · cases e; exact .inl (.inr (.inr (.inl rfl)))

end GeomV.C07
