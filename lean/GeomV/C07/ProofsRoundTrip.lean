import GeomV.C06.DecodeProofs
import GeomV.C07.Proofs
/-!
# C07 — the GeoJSON round-trip clause, by composition with C06

C06 and C07 each contain a model of `encoding/geojson/decode.go`, written independently:
`C06.fromGeoJSON` (plain `Except`, JSON trees `C06.Tree`) and `C07.doFromGeoJSON` (cost monad, ARBITRARY
Go values `GoVal`, every index expression and panic explicit).  This file

* translates Go values to JSON trees (`tr`; a value of any other dynamic type fails the two type
  assertions `.([]interface{})` and `.(float64)` exactly as `nil` does, so it is sent to `null`),
* proves that the two models agree on EVERY type string and EVERY Go value, errors included
  (`C07_json_bridge_C06`),
* shows that C07's re-encoding is C06's document (`tr_reencode_docOf`, `allFinite_eq_C06`),
* and derives the round-trip clause of C07 from C06's decoder theorems (`C07_json_roundtrip`,
  `C07_json_text_roundtrip`).
Core Lean only.
-/
set_option linter.unusedSimpArgs false
set_option linter.unusedVariables false
namespace GeomV.C07
open GeomV GeomV.C05

/-! ## translation of Go values to JSON trees -/

mutual
/-- the JSON tree a Go value of static type `interface{}` is, as far as decode.go can tell: the decoder only
asks `.([]interface{})` and `.(float64)`, which `nil` and every value of another dynamic type fail alike -/
def tr : GoVal → C06.Tree UInt64
  | .nil => .null
  | .num b => .num b
  | .arr xs => .arr (trList xs)
  | .str s => .str s
  | .bool b => .bool b
  | .obj ks vs => .obj (ks.zip (trList vs))
  | .other _ => .null
def trList : List GoVal → List (C06.Tree UInt64)
  | [] => []
  | v :: vs => tr v :: trList vs
end

theorem trList_eq (xs : List GoVal) : trList xs = xs.map tr := by
  induction xs with
  | nil => rfl
  | cons v vs ih => simp [trList, ih]

/-! ## results of the cost monad vs `Except` -/

/-- every C06 decoding error inside the helpers is the explicit `panic(&InvalidGeometryError{})` -/
def lft {α : Type} : Except C06.Err α → Except PanicVal α
  | .ok a => .ok a
  | .error _ => .error .invalidGeometry

/-- C06's error classes as the panic values of decode.go -/
def lftT {α : Type} (ty : String) : Except C06.Err α → Except PanicVal α
  | .ok a => .ok a
  | .error .unsupported => .error (.unsupportedType ty)
  | .error _ => .error .invalidGeometry

/-- the computation can fail with `invalid` only -/
def OnlyInvalid {α : Type} (r : Except C06.Err α) : Prop := ∀ e, r = .error e → e = .invalid

theorem lftT_of_onlyInvalid {α : Type} (ty : String) (r : Except C06.Err α) (h : OnlyInvalid r) :
    lftT ty r = lft r := by
  cases r with
  | ok a => rfl
  | error e => have := h e rfl; subst this; rfl

theorem mapE_onlyInvalid {α β : Type} (f : α → Except C06.Err β) (h : ∀ x, OnlyInvalid (f x))
    (xs : List α) : OnlyInvalid (C06.mapE f xs) := by
  induction xs with
  | nil => intro e he; simp [C06.mapE] at he
  | cons a as ih =>
    intro e he
    simp only [C06.mapE] at he
    cases ha : f a with
    | error e' =>
      simp [ha, bind, Except.bind] at he
      subst he; exact h a _ ha
    | ok b =>
      cases hr : C06.mapE f as with
      | error e' =>
        simp [ha, hr, bind, Except.bind] at he
        subst he; exact ih _ hr
      | ok bs => simp [ha, hr, bind, Except.bind, pure, Except.pure] at he

theorem mapC_res {α α' β : Type} (f : α → J β) (g : α' → Except C06.Err β) (t : α → α')
    (h : ∀ x, (f x).res = lft (g (t x))) (xs : List α) :
    (mapC f xs).res = lft (C06.mapE g (xs.map t)) := by
  induction xs with
  | nil => rfl
  | cons a as ih =>
    simp only [mapC, bind_res, h a, ih, List.map_cons, C06.mapE, pure_res]
    cases g (t a) with
    | error e => rfl
    | ok b =>
      cases C06.mapE g (as.map t) with
      | error e => rfl
      | ok bs => rfl

/-! ## the helpers of decode.go in the two models -/

theorem mapC_res_id {α β : Type} (f : α → J β) (g : α → Except C06.Err β)
    (h : ∀ x, (f x).res = lft (g x)) (xs : List α) :
    (mapC f xs).res = lft (C06.mapE g xs) := by
  simpa using mapC_res f g id h xs

theorem dc1_res (v : GoVal) : (decodeCoordinates v).res = lft (C06.decodeCoordinates (tr v)) := by
  cases v with
  | arr xs =>
    simp only [decodeCoordinates, asArray, bind_res, pure_res, alloc_res, tr, C06.decodeCoordinates,
      trList_eq]
    exact mapC_res asFloat _ tr (fun x => by cases x <;> rfl) xs
  | _ => rfl

theorem dc2_res (v : GoVal) : (decodeCoordinates2 v).res = lft (C06.decodeCoordinates2 (tr v)) := by
  cases v with
  | arr xs =>
    simp only [decodeCoordinates2, asArray, bind_res, pure_res, alloc_res, tr, C06.decodeCoordinates2,
      trList_eq]
    exact mapC_res decodeCoordinates _ tr dc1_res xs
  | _ => rfl

theorem dc3_res (v : GoVal) : (decodeCoordinates3 v).res = lft (C06.decodeCoordinates3 (tr v)) := by
  cases v with
  | arr xs =>
    simp only [decodeCoordinates3, asArray, bind_res, pure_res, alloc_res, tr, C06.decodeCoordinates3,
      trList_eq]
    exact mapC_res decodeCoordinates2 _ tr dc2_res xs
  | _ => rfl

theorem dc4_res (v : GoVal) : (decodeCoordinates4 v).res = lft (C06.decodeCoordinates4 (tr v)) := by
  cases v with
  | arr xs =>
    simp only [decodeCoordinates4, asArray, bind_res, pure_res, alloc_res, tr, C06.decodeCoordinates4,
      trList_eq]
    exact mapC_res decodeCoordinates3 _ tr dc3_res xs
  | _ => rfl

theorem dc1_onlyInvalid (t : C06.Tree UInt64) : OnlyInvalid (C06.decodeCoordinates t) := by
  cases t with
  | arr xs =>
    exact mapE_onlyInvalid _ (fun x e he => by split at he <;> simp at he; exact he.symm) xs
  | _ => intro e he; simp [C06.decodeCoordinates] at he; exact he.symm

theorem dc2_onlyInvalid (t : C06.Tree UInt64) : OnlyInvalid (C06.decodeCoordinates2 t) := by
  cases t with
  | arr xs => exact mapE_onlyInvalid _ dc1_onlyInvalid xs
  | _ => intro e he; simp [C06.decodeCoordinates2] at he; exact he.symm

theorem dc3_onlyInvalid (t : C06.Tree UInt64) : OnlyInvalid (C06.decodeCoordinates3 t) := by
  cases t with
  | arr xs => exact mapE_onlyInvalid _ dc2_onlyInvalid xs
  | _ => intro e he; simp [C06.decodeCoordinates3] at he; exact he.symm

theorem dc4_onlyInvalid (t : C06.Tree UInt64) : OnlyInvalid (C06.decodeCoordinates4 t) := by
  cases t with
  | arr xs => exact mapE_onlyInvalid _ dc3_onlyInvalid xs
  | _ => intro e he; simp [C06.decodeCoordinates4] at he; exact he.symm

theorem ring_res (cs : List (List UInt64)) : (makeLinearRing cs).res = lft (C06.makeLinearRing cs) := by
  simp only [makeLinearRing, bind_res, alloc_res, C06.makeLinearRing]
  refine (mapC_res_id makePoint _ (fun e => ?_) cs)
  rcases e with _ | ⟨x, _ | ⟨y, _ | ⟨z, r⟩⟩⟩ <;>
    simp [makePoint, idx, panic, lft, bind, Except.bind, pure, Except.pure, CM.bind', CM.pure']

theorem mapRing_res (css : List (List (List UInt64))) :
    (mapC makeLinearRing css).res = lft (C06.mapE C06.makeLinearRing css) :=
  mapC_res_id makeLinearRing _ ring_res css

theorem rings_res (css : List (List (List UInt64))) :
    (makeLinearRings css).res = lft (C06.makeLinearRings css) := by
  simp only [makeLinearRings, bind_res, alloc_res, C06.makeLinearRings]
  exact mapRing_res css

theorem mapRings_res (csss : List (List (List (List UInt64)))) :
    (mapC makeLinearRings csss).res = lft (C06.mapE C06.makeLinearRings csss) :=
  mapC_res_id makeLinearRings _ rings_res csss

theorem ring_onlyInvalid (cs : List (List UInt64)) : OnlyInvalid (C06.makeLinearRing cs) :=
  mapE_onlyInvalid _ (fun x e he => by split at he <;> simp at he; exact he.symm) cs

theorem rings_onlyInvalid (css : List (List (List UInt64))) : OnlyInvalid (C06.makeLinearRings css) :=
  mapE_onlyInvalid _ ring_onlyInvalid css

theorem mapRings_onlyInvalid (csss : List (List (List (List UInt64)))) :
    OnlyInvalid (C06.mapE C06.makeLinearRings csss) :=
  mapE_onlyInvalid _ rings_onlyInvalid csss

/-! ## the bridge, type by type -/

theorem bridge_point (c : GoVal) :
    (doFromGeoJSON (some ("Point", c))).res = lftT "Point" (C06.fromGeoJSON "Point" (tr c)) := by
  simp only [doFromGeoJSON, C06.fromGeoJSON, ↓reduceIte, bind_res, ite_res, dc1_res]
  have hi := dc1_onlyInvalid (tr c)
  cases h : C06.decodeCoordinates (tr c) with
  | error e => have := hi e h; subst this; rfl
  | ok cs =>
    rcases cs with _ | ⟨x, _ | ⟨y, _ | ⟨z, r⟩⟩⟩ <;>
      simp [lft, lftT, idx, panic, bind, Except.bind, pure, Except.pure, CM.bind', CM.pure']

/-- unfold both monads on a goal whose case analysis has been done -/
local macro "jsimp" "[" ts:Lean.Parser.Tactic.simpLemma,* "]" : tactic =>
  `(tactic| simp [lft, lftT, idx, panic, C06.ok_bind, bind, Except.bind, pure, Except.pure, CM.pure', CM.bind',
      Functor.map, Except.map, $ts,*])

theorem bridge_multiPoint (c : GoVal) :
    (doFromGeoJSON (some ("MultiPoint", c))).res =
      lftT "MultiPoint" (C06.fromGeoJSON "MultiPoint" (tr c)) := by
  simp [doFromGeoJSON, C06.fromGeoJSON, dc2_res]
  have hi := dc2_onlyInvalid (tr c)
  cases h : C06.decodeCoordinates2 (tr c) with
  | error e => have := hi e h; subst this; rfl
  | ok cs =>
    rcases cs with _ | ⟨c0, rest⟩
    · jsimp []
    · have hr := ring_onlyInvalid (c0 :: rest)
      by_cases hl : c0.length = 2
      · cases h2 : C06.makeLinearRing (c0 :: rest) with
        | error e => have := hr e h2; subst this; jsimp [ring_res, hl, h2]
        | ok ps => jsimp [ring_res, hl, h2]
      · jsimp [hl]

theorem bridge_lineString (c : GoVal) :
    (doFromGeoJSON (some ("LineString", c))).res =
      lftT "LineString" (C06.fromGeoJSON "LineString" (tr c)) := by
  simp [doFromGeoJSON, C06.fromGeoJSON, dc2_res]
  have hi := dc2_onlyInvalid (tr c)
  cases h : C06.decodeCoordinates2 (tr c) with
  | error e => have := hi e h; subst this; rfl
  | ok cs =>
    rcases cs with _ | ⟨c0, rest⟩
    · jsimp []
    · have hr := ring_onlyInvalid (c0 :: rest)
      by_cases hl : c0.length = 2
      · cases h2 : C06.makeLinearRing (c0 :: rest) with
        | error e => have := hr e h2; subst this; jsimp [ring_res, hl, h2]
        | ok ps => jsimp [ring_res, hl, h2]
      · jsimp [hl]

theorem bridge_multiLineString (c : GoVal) :
    (doFromGeoJSON (some ("MultiLineString", c))).res =
      lftT "MultiLineString" (C06.fromGeoJSON "MultiLineString" (tr c)) := by
  simp [doFromGeoJSON, C06.fromGeoJSON, dc3_res]
  have hi := dc3_onlyInvalid (tr c)
  cases h : C06.decodeCoordinates3 (tr c) with
  | error e => have := hi e h; subst this; rfl
  | ok cs =>
    rcases cs with _ | ⟨_ | ⟨c00, r0⟩, rest⟩
    · jsimp []
    · jsimp []
    · have hr := mapE_onlyInvalid _ ring_onlyInvalid ((c00 :: r0) :: rest)
      by_cases hl : c00.length = 2
      · cases h2 : C06.mapE C06.makeLinearRing ((c00 :: r0) :: rest) with
        | error e => have := hr e h2; subst this; jsimp [mapRing_res, hl, h2]
        | ok ps => jsimp [mapRing_res, hl, h2]
      · jsimp [hl]

theorem bridge_polygon (c : GoVal) :
    (doFromGeoJSON (some ("Polygon", c))).res =
      lftT "Polygon" (C06.fromGeoJSON "Polygon" (tr c)) := by
  simp [doFromGeoJSON, C06.fromGeoJSON, dc3_res]
  have hi := dc3_onlyInvalid (tr c)
  cases h : C06.decodeCoordinates3 (tr c) with
  | error e => have := hi e h; subst this; rfl
  | ok cs =>
    rcases cs with _ | ⟨_ | ⟨c00, r0⟩, rest⟩
    · jsimp []
    · jsimp []
    · have hr := rings_onlyInvalid ((c00 :: r0) :: rest)
      by_cases hl : c00.length = 2
      · cases h2 : C06.makeLinearRings ((c00 :: r0) :: rest) with
        | error e => have := hr e h2; subst this; jsimp [rings_res, hl, h2]
        | ok ps => jsimp [rings_res, hl, h2]
      · jsimp [hl]

theorem bridge_multiPolygon (c : GoVal) :
    (doFromGeoJSON (some ("MultiPolygon", c))).res =
      lftT "MultiPolygon" (C06.fromGeoJSON "MultiPolygon" (tr c)) := by
  simp [doFromGeoJSON, C06.fromGeoJSON, dc4_res]
  have hi := dc4_onlyInvalid (tr c)
  cases h : C06.decodeCoordinates4 (tr c) with
  | error e => have := hi e h; subst this; rfl
  | ok cs =>
    rcases cs with _ | ⟨_ | ⟨_ | ⟨c000, r00⟩, r0⟩, rest⟩
    · jsimp []
    · jsimp []
    · jsimp []
    · have hr := mapRings_onlyInvalid (((c000 :: r00) :: r0) :: rest)
      by_cases hl : c000.length = 2
      · cases h2 : C06.mapE C06.makeLinearRings (((c000 :: r00) :: r0) :: rest) with
        | error e => have := hr e h2; subst this; jsimp [mapRings_res, hl, h2]
        | ok ps => jsimp [mapRings_res, hl, h2]
      · jsimp [hl]

/-- **C07_json_bridge_C06** (the two independently written models of decode.go agree): for EVERY type string and
EVERY Go value held in `Geometry.Coordinates`, the outcome of `doFromGeoJSON` in the C07 model (cost monad,
explicit index expressions, panics as values) is the outcome of `C06.fromGeoJSON` on the JSON tree of that value
— the same geometry on success; `UnsupportedGeometryError{ty}` for C06's `unsupported`; `InvalidGeometryError`
for every other C06 error.  Hence every C06 decoder theorem transfers to the C07 model and vice versa. -/
theorem C07_json_bridge_C06 (ty : String) (c : GoVal) :
    (doFromGeoJSON (some (ty, c))).res =
      match C06.fromGeoJSON ty (tr c) with
      | .ok v => .ok v
      | .error .unsupported => .error (.unsupportedType ty)
      | .error _ => .error .invalidGeometry := by
  refine Eq.trans (b := lftT ty (C06.fromGeoJSON ty (tr c))) ?_
    (by cases C06.fromGeoJSON ty (tr c) with
        | ok v => rfl
        | error e => cases e <;> rfl)
  by_cases h1 : ty = "Point"
  · subst h1; exact bridge_point c
  by_cases h2 : ty = "MultiPoint"
  · subst h2; exact bridge_multiPoint c
  by_cases h3 : ty = "LineString"
  · subst h3; exact bridge_lineString c
  by_cases h4 : ty = "MultiLineString"
  · subst h4; exact bridge_multiLineString c
  by_cases h5 : ty = "Polygon"
  · subst h5; exact bridge_polygon c
  by_cases h6 : ty = "MultiPolygon"
  · subst h6; exact bridge_multiPolygon c
  simp [doFromGeoJSON, C06.fromGeoJSON, h1, h2, h3, h4, h5, h6, panic, lftT]

/-! ## C07's re-encoding is C06's document -/

theorem tr_ptVal (p : Pt UInt64) : tr (ptVal p) = C06.t1 (C06.pointCoordinates p) := rfl

theorem tr_ptsVal (ps : List (Pt UInt64)) : tr (ptsVal ps) = C06.t2 (C06.pointsCoordinates ps) := by
  simp only [ptsVal, tr, trList_eq, C06.t2, C06.pointsCoordinates, List.map_map]
  congr 1 <;> exact List.map_congr_left (fun p _ => tr_ptVal p)

theorem tr_ptssVal (pss : List (List (Pt UInt64))) :
    tr (ptssVal pss) = C06.t3 (C06.pointssCoordinates pss) := by
  simp only [ptssVal, tr, trList_eq, C06.t3, C06.pointssCoordinates, List.map_map]
  congr 1 <;> exact List.map_congr_left (fun p _ => tr_ptsVal p)

theorem tr_ptsssVal (psss : List (List (List (Pt UInt64)))) :
    tr (ptsssVal psss) = C06.t4 (C06.pointsssCoordinates psss) := by
  simp only [ptsssVal, tr, trList_eq, C06.t4, C06.pointsssCoordinates, List.map_map]
  congr 1 <;> exact List.map_congr_left (fun p _ => tr_ptssVal p)

/-- C07's finiteness predicate on geometries is C06's, instantiated with the IEEE-754 bit test -/
theorem allFinite_eq_C06 (v : BGeom) : allFinite v = C06.Rfc.allFinite finiteBits v := by
  cases v <;> rfl

/-- the JSON tree of what C07's `reencode` produces is exactly the document of C06's encoder model
(`C06.docOf`, which `C06_encode_total` shows to be the result of `Encode` on supported finite geometries) -/
theorem tr_reencode_docOf (v : BGeom) (ty : String) (c : GoVal) (h : reencode v = some (ty, c)) :
    C06.docOf v = .obj [("type", .str ty), ("coordinates", tr c)] := by
  unfold reencode at h
  split at h
  · simp at h
  · cases v <;> simp at h <;> obtain ⟨rfl, rfl⟩ := h
    · simp [C06.docOf, tr_ptVal]
    · simp [C06.docOf, tr_ptsVal]
    · simp [C06.docOf, tr_ptsVal]
    · simp [C06.docOf, tr_ptssVal]
    · simp [C06.docOf, tr_ptssVal]
    · simp [C06.docOf, tr_ptsssVal]

/-- C07's `reencode` succeeds exactly where C06's encoder model does, with the same document up to `tr` -/
theorem reencode_toTree (v : BGeom) (ty : String) (c : GoVal) (h : reencode v = some (ty, c)) :
    C06.toTree finiteBits v = .ok (.obj [("type", .str ty), ("coordinates", tr c)]) := by
  have hd := tr_reencode_docOf v ty c h
  rw [C06.C06_encode_total, ← allFinite_eq_C06, ← hd]
  unfold reencode at h
  split at h
  · simp at h
  · rename_i hf
    cases v <;> simp at h <;> simp [C06.Rfc.supported] <;> simpa using hf

/-! ## the round-trip clause -/

theorem doFrom_ok_of_from_ok (g : Option (String × GoVal)) (v : BGeom) (h : (fromGeoJSON g).res = .ok v) :
    (doFromGeoJSON g).res = .ok v := by
  rw [fromGeoJSON_res] at h
  cases hr : (doFromGeoJSON g).res with
  | ok w => rw [hr] at h; simp at h; rw [h]
  | error p => rw [hr] at h; cases p <;> simp at h

/-- success of the C07 decoder model is success of the C06 decoder model on the translated value -/
theorem doFrom_ok_iff (ty : String) (c : GoVal) (v : BGeom) :
    (doFromGeoJSON (some (ty, c))).res = .ok v ↔ C06.fromGeoJSON ty (tr c) = .ok v := by
  rw [C07_json_bridge_C06]
  cases C06.fromGeoJSON ty (tr c) with
  | ok w => simp
  | error e => cases e <;> simp

/-- **C07_json_roundtrip** (clause "whenever decoding succeeds, re-encoding the result and decoding again yields
the same geometry"): for EVERY `*Geometry` value — the nil pointer, any type string, any Go value in
`Coordinates` — on which `FromGeoJSON` succeeds with a geometry `v` whose coordinates are all finite, the encoder
has an output `e` for `v` (`ToGeoJSON` + Marshal/Unmarshal as trees) and `FromGeoJSON` of `e` succeeds with exactly
`v`.  (A result with a non-finite coordinate has NO encoding: `C07_json_reencode_exact`.)  Proved by composition:
`C07_json_bridge_C06` carries the success to the C06 model, `C06.fromGeoJSON_inv` says a decoded geometry is
supported with a non-empty first member, `tr_reencode_docOf` identifies `e` with C06's document, and
`C06.C06_decode_iff` decodes that document back to `v`. -/
theorem C07_json_roundtrip (g : Option (String × GoVal)) (v : BGeom)
    (h : (fromGeoJSON g).res = .ok v) (hf : allFinite v = true) :
    ∃ e, reencode v = some e ∧ (fromGeoJSON (some e)).res = .ok v := by
  have hd := doFrom_ok_of_from_ok g v h
  cases g with
  | none => simp [doFromGeoJSON, panic] at hd
  | some tc =>
    obtain ⟨ty, c⟩ := tc
    have h6 := (doFrom_ok_iff ty c v).1 hd
    obtain ⟨hs, hne, _⟩ := C06.fromGeoJSON_inv ty (tr c) v h6
    have hsome : (reencode v).isSome = true := ((C07_json_reencode_exact _ v h).2).2 hf
    cases he : reencode v with
    | none => rw [he] at hsome; simp at hsome
    | some e =>
      obtain ⟨ty', c'⟩ := e
      refine ⟨(ty', c'), rfl, ?_⟩
      have hdoc := tr_reencode_docOf v ty' c' he
      have h6' : C06.fromGeoJSON ty' (tr c') = .ok v := (C06.C06_decode_iff ty' (tr c') v).2 ⟨hs, hne, hdoc⟩
      have hd' := (doFrom_ok_iff ty' c' v).2 h6'
      rw [fromGeoJSON_res, hd']

/-- **C07_json_text_roundtrip** (the same clause for `geojson.Decode` on JSON TEXT): for every byte string that
`Decode` turns into a geometry `v` with finite coordinates, the encoder has an output for `v` and decoding that
output gives exactly `v`. -/
theorem C07_json_text_roundtrip (bs : List UInt8) (v : BGeom)
    (h : (decodeJSON bs).res = .ok v) (hf : allFinite v = true) :
    ∃ e, reencode v = some e ∧ (fromGeoJSON (some e)).res = .ok v := by
  unfold decodeJSON at h
  split at h
  · simp at h
  · exact C07_json_roundtrip _ v h hf

/-! ## non-vacuity -/

/-- a concrete Polygon (second ring empty: only the FIRST member is guarded) is decoded … -/
example : (fromGeoJSON (some ("Polygon",
      .arr [.arr [.arr [.num 0, .num 1], .arr [.num 2, .num 3], .arr [.num 0, .num 1]], .arr []]))).res =
    .ok (.polygon [[⟨0, 1⟩, ⟨2, 3⟩, ⟨0, 1⟩], []]) := rfl

/-- … its coordinates are finite, so the hypotheses of `C07_json_roundtrip` hold and its conclusion is the
expected concrete fact -/
example : ∃ e, reencode (.polygon [[⟨0, 1⟩, ⟨2, 3⟩, ⟨0, 1⟩], []]) = some e ∧
    (fromGeoJSON (some e)).res = .ok (.polygon [[⟨0, 1⟩, ⟨2, 3⟩, ⟨0, 1⟩], []]) :=
  C07_json_roundtrip (some ("Polygon",
      .arr [.arr [.arr [.num 0, .num 1], .arr [.num 2, .num 3], .arr [.num 0, .num 1]], .arr []])) _
    rfl (by decide)

end GeomV.C07
