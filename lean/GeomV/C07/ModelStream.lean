import GeomV.C07.ModelIO
/-!
# C07 model, part 3: `wkb.Read` on ANY reader — `io.ReadFull` modelled literally

`streamDecodeC` (ModelIO) is DEFINED by reduction to the byte-slice decoder, which is what
`io.ReadFull` guarantees for a reader whose error is sticky.  Here the reduction is replaced by an
operational model, so that it can be PROVED, and so that readers whose error is NOT sticky (an error
together with data, or alone, and then more data) are inside the model too:

* `Prog` — the decoder as a program over two primitives, exactly the ones the Go code uses:
  `req k` = `binary.Read` of a value of `k` bytes = ONE `io.ReadFull(r, buf[:k])`, and `alloc n`.
  `readP` is `wkb.Read` written in that language with the REQUEST BOUNDARIES of the Go code: 1 byte
  (order flag), 4 (type code), 4 (every count), 16 (a Point), 16·k (one chunk of `readPoints`).
* `runB` interprets a program on a byte slice (`bytes.Buffer`); `readP_runB` (LemmasStream) proves
  `runB (readP pol fuel) bs = readC pol fuel bs` — result AND cost — so `readP` is the same decoder.
* `Ev`/`readFull`/`runS` interpret a program on a SCRIPTED reader: a list of events, each `Read`
  call answering with (some bytes of) the next event's data and, once its data is used up, the
  event's error if it has one; after the script the reader answers `(0, fin)` for ever.
  `readFull` is the loop of `io.ReadAtLeast` (Go 1.23), line by line:
      for n < min && err == nil { nn, err = r.Read(buf[n:]); n += nn }
      if n >= min { err = nil } else if n > 0 && err == EOF { err = ErrUnexpectedEOF }
Core Lean only.
-/
namespace GeomV.C07
open GeomV GeomV.C05

/-! ## the decoder as a program over `io.ReadFull` requests -/

inductive Prog (α : Type) : Type
  | ret (a : α)
  | fail (e : Err)                          -- return nil, <an error made by the decoder itself>
  | req (k : Nat) (cont : Bytes → Prog α)   -- one io.ReadFull of k bytes
  | alloc (n : Nat) (cont : Prog α)         -- make / append slot of n bytes

namespace Prog
variable {α β : Type}
def bind : Prog α → (α → Prog β) → Prog β
  | .ret a, f => f a
  | .fail e, _ => .fail e
  | .req k c, f => .req k (fun b => (c b).bind f)
  | .alloc n c, f => .alloc n (c.bind f)
def ofExcept : Except Err α → Prog α
  | .ok a => .ret a
  | .error e => .fail e
end Prog

/-- a program on a byte slice (`bytes.NewBuffer(buf)`): a request of `k` bytes gets the next `k`
bytes or fails with EOF / ErrUnexpectedEOF (one class, `Err.eof`, as in C05) -/
def runB {α : Type} : Prog α → Bytes → W (α × Bytes)
  | .ret a, bs => ⟨.ok (a, bs), 0⟩
  | .fail e, _ => ⟨.error e, 0⟩
  | .req k c, bs =>
    match takeF k bs with
    | some (h, t) => runB (c h) t
    | none => ⟨.error .eof, 0⟩
  | .alloc n c, bs => let r := runB c bs; ⟨r.res, n + r.cost⟩

/-- the points in a buffer of `16·k` bytes (what `binary.Read(r, bo, &chunk)` stores into the chunk) -/
def parsePts (bo : BO) (k : Nat) (h : Bytes) : List (Pt UInt64) :=
  match readMany (readPointF bo) k h with
  | .ok (ps, _) => ps
  | .error _ => []

def u32P (bo : BO) : Prog Nat := .req 4 (fun h => .ret (valBytes bo h))
/-- `binary.Read(r, bo, &chunk)` with `len(chunk) = k`: ONE request of 16·k bytes -/
def ptsP (bo : BO) (k : Nat) : Prog (List (Pt UInt64)) := .req (16 * k) (fun h => .ret (parsePts bo k h))
/-- `binary.Read(r, bo, &point)`: ONE request of 16 bytes -/
def pointP (bo : BO) : Prog (Pt UInt64) :=
  .req 16 (fun h => Prog.ofExcept ((readPointF bo h).map (·.1)))

/-- chunk loop of `readPoints` -/
def chunksP (pol : Policy) (bo : BO) : Nat → Nat → Prog (List (Pt UInt64))
  | _, 0 => .ret []
  | 0, _+1 => .fail .fuel
  | f+1, rem+1 =>
      let k := min (rem+1) pol.chunk
      .alloc (16 * k) ((ptsP bo k).bind fun ps => (chunksP pol bo f (rem + 1 - k)).bind fun qs => .ret (ps ++ qs))

def pointsP (pol : Policy) (bo : BO) : Prog (List (Pt UInt64)) :=
  (u32P bo).bind fun n => .alloc (16 * pol.pointsPre n) (chunksP pol bo n n)

def manyP {β : Type} (pol : Policy) (slot : Nat) (rd : Prog β) : Nat → Prog (List β)
  | 0 => .ret []
  | n+1 => rd.bind fun a => .alloc (pol.grow slot) ((manyP pol slot rd n).bind fun as => .ret (a :: as))

def asP {β : Type} (rd : Prog BGeom) (cast : BGeom → Except Err β) : Prog β :=
  rd.bind fun g => Prog.ofExcept (cast g)

/-- `wkb.Read` as a program; same structure, same allocation points as `readC` -/
def readP (pol : Policy) : Nat → Prog BGeom
  | 0 => .fail .fuel
  | fuel+1 =>
    .req 1 fun fl =>
    (Prog.ofExcept (match fl with
      | [b] => if b = 0 then .ok BO.xdr else if b = 1 then .ok BO.ndr else .error .badOrder
      | _ => .error .eof : Except Err BO)).bind fun bo =>
    (u32P bo).bind fun code =>
    if code = 1 then (pointP bo).bind fun p => .ret (.point p)
    else if code = 2 then (pointsP pol bo).bind fun p => .ret (.lineString p)
    else if code = 3 then (u32P bo).bind fun n => .alloc (24 * pol.pre n)
      ((manyP pol 24 (pointsP pol bo) n).bind fun r => .ret (.polygon r))
    else if code = 4 then (u32P bo).bind fun n => .alloc (16 * pol.pre n)
      ((manyP pol 16 (asP (readP pol fuel) asPoint) n).bind fun r => .ret (.multiPoint r))
    else if code = 5 then (u32P bo).bind fun n => .alloc (24 * pol.pre n)
      ((manyP pol 24 (asP (readP pol fuel) asLine) n).bind fun r => .ret (.multiLineString r))
    else if code = 6 then (u32P bo).bind fun n => .alloc (24 * pol.pre n)
      ((manyP pol 24 (asP (readP pol fuel) asPoly) n).bind fun r => .ret (.multiPolygon r))
    else if code = 7 then (u32P bo).bind fun n => .alloc (16 * pol.pre n)
      ((manyP pol 16 (readP pol fuel) n).bind fun r => .ret (.collection r))
    else .fail .badType

/-! ## scripted readers and `io.ReadFull` -/

/-- error values a reader can return -/
inductive RErr
  | eof             -- io.EOF
  | unexpectedEOF   -- io.ErrUnexpectedEOF
  | custom          -- any other error value
deriving DecidableEq, Repr

/-- one step of a reader's behaviour: `data` is handed out (over as many `Read` calls as the
caller's buffers make necessary); the call that hands out its last byte also returns `err` if there
is one.  `⟨[], none⟩` is an empty read `(0, nil)`; `⟨[], some e⟩` is `(0, e)`. -/
structure Ev where
  data : Bytes
  err : Option RErr
deriving Repr

def dataOf : List Ev → Bytes
  | [] => []
  | ev :: r => ev.data ++ dataOf r

def errsOf : List Ev → List RErr
  | [] => []
  | ev :: r => (match ev.err with | some e => [e] | none => []) ++ errsOf r

/-- `if n > 0 && err == EOF { err = ErrUnexpectedEOF }` -/
def eofish (got : Bytes) (e : RErr) : RErr :=
  if !got.isEmpty && e == .eof then .unexpectedEOF else e

/-- the loop of `io.ReadAtLeast(r, buf, min)` with `min = len(buf) = need + len(acc)`, `acc` = the
`n` bytes already in the buffer, `need > 0` bytes still missing.  `fin`: the reader's answer once the
script is exhausted (for ever). -/
def readFull (fin : RErr) : Nat → Bytes → List Ev → Except RErr (Bytes × List Ev)
  | _, acc, [] => .error (eofish acc fin)                       -- Read returns (0, fin): loop ends, n < min
  | need, acc, ev :: r =>
    if need < ev.data.length then                               -- Read fills buf[n:], err == nil: n == min
      .ok (acc ++ ev.data.take need, ⟨ev.data.drop need, ev.err⟩ :: r)
    else if need = ev.data.length then                          -- n == min: `err = nil`, the event's error is DROPPED
      .ok (acc ++ ev.data, r)
    else match ev.err with
      | none => readFull fin (need - ev.data.length) (acc ++ ev.data) r     -- err == nil, n < min: next Read
      | some e => .error (eofish (acc ++ ev.data) e)                         -- loop ends with n < min

/-- `io.ReadFull(r, buf)` with `len(buf) = k` (`k = 0`: returns at once without calling `Read`) -/
def reqS (fin : RErr) (k : Nat) (s : List Ev) : Except RErr (Bytes × List Ev) :=
  if k = 0 then .ok ([], s) else readFull fin k [] s

inductive AErr
  | reader (e : RErr)   -- the error value `io.ReadFull` returned, passed through unchanged by binary.Read and wkb.Read
  | wkb (e : Err)       -- an error made by the decoder (bad order flag, bad type code, wrong member type)
deriving DecidableEq, Repr

/-- a program on a scripted reader -/
def runS {α : Type} (fin : RErr) : Prog α → List Ev → CM AErr (α × List Ev)
  | .ret a, s => ⟨.ok (a, s), 0⟩
  | .fail e, _ => ⟨.error (.wkb e), 0⟩
  | .req k c, s =>
    match reqS fin k s with
    | .ok (h, s') => runS fin (c h) s'
    | .error e => ⟨.error (.reader e), 0⟩
  | .alloc n c, s => let r := runS fin c s; ⟨r.res, n + r.cost⟩

/-- `wkb.Read(r)` for the scripted reader `(s, fin)`.  The recursion budget is that of `decodeC` on
all the data the script holds. -/
def streamAnyC (pol : Policy) (s : List Ev) (fin : RErr) : CM AErr BGeom :=
  let r := runS fin (readP pol ((dataOf s).length + 1)) s
  ⟨match r.res with | .ok (g, _) => .ok g | .error e => .error e, r.cost⟩

/-- a reader error as `streamDecodeC` classifies it -/
def RErr.toREnd : RErr → REnd
  | .custom => .custom
  | _ => .eof

/-- the error classes of `streamDecodeC` (EOF and ErrUnexpectedEOF are one class, as in C05) -/
def AErr.toSErr : AErr → SErr
  | .reader .custom => .reader
  | .reader _ => .wkb .eof
  | .wkb e => .wkb e

/-! ## goroutine stack -/

/-- bytes of goroutine stack per nesting level of `wkb.Read` (Read → member reader → Read), INCLUDING
the factor the runtime adds by doubling stacks — a measured constant: 288 B/level at 7281 levels
(2 MiB), 419 at 10 000 (4 MiB), 335 at 100 000, 268 at 1 000 000; the judge holds every measured
stack growth against `stackModel` (`DIFF stack-envelope`). -/
def frameBytes : Nat := 512

/-- stack needed for an input of `n` bytes: at most `n/9 + 1` nested `Read` frames (`C07_wkb_stack_frames`) -/
def stackModel (n : Nat) : Nat := frameBytes * (n / 9 + 1)

end GeomV.C07
