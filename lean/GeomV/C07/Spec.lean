import GeomV.Common.Geom
/-!
# C07 specification (independent of the model; reads like the property statement)

"For any byte string given to the WKB decoder, any string given to the hex decoder and any byte
string or Geometry value given to the GeoJSON decoder, the call returns either a well-formed
geometry or a non-nil error; it never panics and the memory it allocates is bounded by a constant
multiple of the input length plus a fixed allowance (count fields in the input are not trusted).
Whenever decoding succeeds, re-encoding the result and decoding again yields the same geometry."

The judge evaluates these predicates on what the IMPLEMENTATION did (status, measured
`runtime.MemStats.TotalAlloc` delta, decoded value, re-decoded values), never on the model.
Core Lean only.
-/
namespace GeomV.C07.Spec
open GeomV

/-- what one call did, as observed from outside -/
inductive Status
  | ok        -- (geometry, nil)
  | err       -- (nil, non-nil error)
  | both      -- a geometry AND an error
  | neither   -- (nil, nil)
  | panic     -- a panic left the call
  | oom       -- the process died: out of memory
  | crash     -- the process died otherwise (stack overflow, fatal error)
  | timeout   -- no answer within the watchdog period
deriving DecidableEq, Repr

/-- "returns either a geometry or a non-nil error; it never panics" -/
def total (s : Status) : Bool := s = .ok || s = .err

inductive Family
  | wkb      -- wkb.Decode / wkb.Read on n input bytes
  | hex      -- hex.Decode on a string of n bytes
  | json     -- geojson.Decode on n input bytes
  | value    -- geojson.FromGeoJSON on a Geometry value with n nodes
deriving DecidableEq, Repr

/-- "bounded by a constant multiple of the input length plus a fixed allowance": the constants.
64 bytes per input byte and 64 KiB for the binary decoders; 128 per byte for JSON text because
`encoding/json` itself spends up to ~75 bytes per input byte on documents like `{"":{"":{…}}}`. -/
def allocBound : Family → Nat → Nat
  | .json, n => 128 * n + 65536
  | _, n => 64 * n + 65536

def allocOK (f : Family) (n measured : Nat) : Bool := measured ≤ allocBound f n

/-- goroutine stack growth (not part of TotalAlloc): Go doubles stacks, so twice the need.  The
measurement (`MemStats.StackInuse`) is process-wide, so the fixed allowance has to cover the stacks
of the collector's background workers that may start during the call (128 KiB observed): 1 MiB. -/
def stackBound (n : Nat) : Nat := 128 * n + 1048576
def stackOK (n measured : Nat) : Bool := measured ≤ stackBound n

mutual
/-- "a well-formed geometry": one of the seven value types, with no nil or `*Bounds` member at any depth -/
def wellFormed : BGeom → Bool
  | .collection gs => wellFormedList gs
  | .bounds _ _ => false
  | .nil => false
  | _ => true
def wellFormedList : List BGeom → Bool
  | [] => true
  | g :: gs => wellFormed g && wellFormedList gs
end

/-- GeoJSON has no collections in this package -/
def wellFormedJson : BGeom → Bool
  | .collection _ => false
  | g => wellFormed g

/-- exponent field of a binary64 pattern not all ones -/
def finite (u : UInt64) : Bool := (u.toNat / 2^52) % 2048 != 2047
def ptFinite (p : Pt UInt64) : Bool := finite p.x && finite p.y

/-- JSON text cannot carry NaN or ±Inf (RFC 8259), so only finite geometries have a GeoJSON encoding -/
def jsonEncodable : BGeom → Bool
  | .point p => ptFinite p
  | .multiPoint ps => ps.all ptFinite
  | .lineString ps => ps.all ptFinite
  | .multiLineString ls => ls.all (·.all ptFinite)
  | .polygon ls => ls.all (·.all ptFinite)
  | .multiPolygon ps => ps.all (·.all (·.all ptFinite))
  | _ => false

/-- result of "re-encode, then decode again" as observed -/
inductive Re
  | same (g : BGeom)     -- decoded again to g
  | encErr               -- the encoder returned an error
  | decErr               -- the second decode returned an error

/-- "re-encoding the result and decoding again yields the same geometry" -/
def reStable (g : BGeom) : Re → Bool
  | .same g' => Geom.beq g g'
  | _ => false

/-- For a Geometry VALUE the clause is demanded in full — a decoded value that cannot be re-encoded
violates it — with ONE exception keyed on the INPUT, not on the result: when the caller's value
itself holds a non-finite float64 leaf (NaN/±Inf, which no JSON text can carry: garbage in), the
decoded geometry may be non-finite and then the encoder must answer with an error. A decoder that
MANUFACTURES a non-finite coordinate from an input without one (e.g. from the number text `1e400`
carried as a json.Number) gets no such excuse. -/
def reStableValue (inputHasNonFiniteFloat : Bool) (g : BGeom) (r : Re) : Bool :=
  if jsonEncodable g then reStable g r
  else inputHasNonFiniteFloat && (match r with | .encErr => true | _ => false)

/-! ### encodings that are alive at the same time

The round-trip clause speaks about "the result" of re-encoding. A caller may hold several such
results at once, so the clause is also evaluated *late*: a whole batch of decoded geometries is
re-encoded first, the returned byte strings are KEPT, and only after the last encoder call is each
kept string looked at. -/

/-- what the encoder returned must still be what it returned: bit-identical to a private copy taken
right after the call (an encoder must not hand out memory that a later call overwrites) -/
def keptIntact (kept copy : List UInt8) : Bool := kept == copy

/-- the late form of `reStable`: decoding the KEPT encoding yields the geometry it was made from -/
def reStableLate (g : BGeom) (r : Re) : Bool := reStable g r

end GeomV.C07.Spec
