import GeomV.C07.JsonText
/-!
# C07 model: what `json.Unmarshal(data, &Geometry{})` ALLOCATES, at node granularity (Go 1.23)

`JsonText.lean` states WHAT encoding/json returns; this file states what it ALLOCATES while doing so,
one allocation class per JSON value kind, as an upper bound that the correspondence run compares with
the measured `TotalAlloc` of every generated document (`DIFF … json-cost` when the real allocation
exceeds `jsonAllocModel`, or when the model exceeds the envelope `6 · measured + 16 · len + 4096`,
i.e. is not vacuous).  The classes (decode.go: `valueInterface`, `arrayInterface`, `objectInterface`,
`literalInterface`; scanner.go: `pushParseState`; runtime: `growslice`, `makemap_small`/`hashGrow`,
size classes of `mallocgc`):

* `null`, `true`, `false` in an `interface{}`: nothing (static values);
* number: the float64 boxed into the interface (8) + the literal copied for `strconv` (`string(item)`,
  ≤ 16 bytes charged here, longer literals are charged to the text-proportional term `2·len`);
* string: the string header boxed into the interface (16) + its UTF-8 bytes rounded up to a size class;
* array: the slice header boxed into the interface (24) + every backing array `append` ever allocated:
  each growth step multiplies the capacity by a factor in [1.25, 2] (+ size-class rounding), so the sum of
  all of them is at most 7 slots of 16 bytes per element (`slotCost = 112`);
* object: `hmap` (48); with ≥ 1 entry one bucket of 8 entries (8 tophash + 8×16 keys + 8×16 values +
  overflow pointer = 272 → size class 288); beyond 8 entries the table doubles at load factor 6.5, all
  bucket arrays ever allocated (incl. overflow buckets) ≤ 176 bytes per entry; + every key as a string;
* every container: one `int` on the scanner's parse-state stack, grown by `append` (≤ 5 × 8 bytes);
* into the STRUCT `Geometry`: only the members that are stored allocate — `type` (the string's bytes),
  `coordinates` (an `interface{}` tree as above; every duplicate is decoded and allocated again),
  a `type` member of the wrong kind or a non-object document (an `*UnmarshalTypeError`, ≤ 160 bytes);
  other members are skipped (parse-state stack only).
A text that is not valid JSON is rejected by `checkValid` before anything is stored: parse-state stack
only (≤ 40 bytes per `[`/`{` byte) + the error value.
Core Lean only.
-/
namespace GeomV.C07

def utf8Len (c : Nat) : Nat := if c < 0x80 then 1 else if c < 0x800 then 2 else if c < 0x10000 then 3 else 4

def strBytes : List Nat → Nat
  | [] => 0
  | c :: cs => utf8Len c + strBytes cs

/-- bytes `mallocgc` hands out for a request of `n` bytes: size classes waste < 25 % + 16 -/
def roundUp (n : Nat) : Nat := if n = 0 then 0 else n + n / 4 + 16

def numCost : Nat := 24
def strCost (s : List Nat) : Nat := 16 + roundUp (strBytes s)
def keyCost (s : List Nat) : Nat := roundUp (strBytes s)
def frameCost : Nat := 40
def slotCost : Nat := 112
def arrHdr : Nat := 24
def mapCost (n : Nat) : Nat := if n = 0 then 48 else if n ≤ 8 then 336 else 336 + 176 * n
def typeErrCost : Nat := 160

mutual
/-- `d.valueInterface()`: the value as an `interface{}` tree -/
def ifaceCost : JV → Nat
  | .null => 0
  | .bool _ => 0
  | .num _ => numCost
  | .str s => strCost s
  | .arr xs => arrHdr + frameCost + slotCost * xs.length + ifaceCostL xs
  | .obj ks vs => mapCost vs.length + frameCost + ifaceCostKV ks vs
def ifaceCostL : List JV → Nat
  | [] => 0
  | v :: vs => ifaceCost v + ifaceCostL vs
def ifaceCostKV : List (List Nat) → List JV → Nat
  | k :: ks, v :: vs => keyCost k + ifaceCost v + ifaceCostKV ks vs
  | [], v :: vs => ifaceCost v + ifaceCostKV [] vs
  | _, [] => 0
end

mutual
/-- a value that is scanned but not stored (`d.skip()`): parse-state stack only -/
def skipCost : JV → Nat
  | .arr xs => frameCost + skipCostL xs
  | .obj _ vs => frameCost + skipCostL vs
  | _ => 0
def skipCostL : List JV → Nat
  | [] => 0
  | v :: vs => skipCost v + skipCostL vs
end

/-- members of the top-level object, decoded into the struct fields (mirrors `unmarshalMembers`) -/
def membersCost : List (List Nat) → List JV → Nat
  | k :: ks, v :: vs =>
    (if keyIs "type" k then
      match v with
      | .str s => roundUp (strBytes s)
      | .null => 0
      | _ => typeErrCost + skipCost v
    else if keyIs "coordinates" k then ifaceCost v
    else skipCost v) + membersCost ks vs
  | _, _ => 0

/-- the whole document -/
def docCost : JV → Nat
  | .null => 0
  | .obj ks vs => frameCost + membersCost ks vs
  | v => typeErrCost + skipCost v

def isOpen (b : UInt8) : Bool := b = 0x5b || b = 0x7b

def opens : B → Nat
  | [] => 0
  | b :: bs => (if isOpen b then 1 else 0) + opens bs

/-- fixed allowance: `decodeState`, the error value, the result struct -/
def jsonFixed : Nat := 2048

/-- what `json.Unmarshal(data, &Geometry{})` allocates, as an upper bound: the tree classes above, plus
`2·len` for copies proportional to the text itself (number literals longer than 16 bytes, folded keys), plus the fixed allowance -/
def jsonStdCost (bs : B) : Nat :=
  (match parseDoc bs with
   | none => frameCost * opens bs
   | some v => docCost v) + 2 * bs.length + jsonFixed

/-- `geojson.Decode`: encoding/json's part + this package's part (`fromGeoJSON`'s requests, doubled for
size-class rounding and boxing as in the value envelope) -/
def jsonAllocModel (bs : B) : Nat := jsonStdCost bs + 2 * (decodeJSON bs).cost

end GeomV.C07
