import GeomV.C07.Model
/-!
# C07 model, text level: `geojson.Decode(data)` = `json.Unmarshal(data, &Geometry{})` + `FromGeoJSON`

The behaviour of `encoding/json` is a *contract of the Go standard library* (trusted base); this
file states the part of that contract `Decode` depends on, executable, so that the correspondence
run can compare it with the real library on every generated document:

* RFC 8259 syntax exactly as Go's scanner accepts it (no leading zeros, no trailing commas, control
  characters not allowed in strings, invalid UTF-8 inside strings tolerated, nesting ≤ 10000);
* numbers → float64 by correctly rounded decimal→binary conversion (round half to even), an
  out-of-range number being an error *only where a number is stored* (under a `coordinates` key);
* struct decoding of `Geometry{Type string; Coordinates interface{}}`: keys match exactly or under
  simple case folding (`ſ` U+017F folds to `S`, `K` U+212A to `K`), unknown keys are skipped without
  converting their numbers, duplicate keys: the last one wins, `null` leaves a string field
  untouched and sets an interface field to nil, a non-string `type` is an error, the top level must
  be an object or `null`.
Core Lean only.
-/
namespace GeomV.C07
open GeomV GeomV.C05

/-- JSON value as parsed: strings are code-point lists, numbers already converted
(`none` = magnitude too large for float64). -/
inductive JV where
  | null
  | bool (b : Bool)
  | num (v : Option UInt64)
  | str (s : List Nat)
  | arr (xs : List JV)
  | obj (keys : List (List Nat)) (vals : List JV)
deriving Inhabited

/-! ### decimal → binary64, correctly rounded -/

/-- bits of the double nearest to `num / den` (ties to even), sign excluded; `none` on overflow.
Requires `num > 0`, `den > 0`. -/
def ratToBits (num den : Nat) : Option UInt64 :=
  -- e with 2^e ≤ num/den < 2^(e+1)
  let e0 : Int := (Nat.log2 num : Int) - (Nat.log2 den : Int)
  -- correct e0 (it is within 1 of the true exponent)
  let ge (e : Int) : Bool :=   -- num/den ≥ 2^e
    if e ≥ 0 then num ≥ den * 2 ^ e.toNat else num * 2 ^ (-e).toNat ≥ den
  let e : Int := if ge e0 then (if ge (e0 + 1) then e0 + 1 else e0) else e0 - 1
  let s : Int := if e - 52 < -1074 then -1074 else e - 52      -- exponent of one ulp
  let (n, d) := if s ≥ 0 then (num, den * 2 ^ s.toNat) else (num * 2 ^ (-s).toNat, den)
  let q := n / d
  let r := n % d
  let q := if 2 * r > d ∨ (2 * r = d ∧ q % 2 = 1) then q + 1 else q
  let bits := (s + 1074).toNat * 2 ^ 52 + q
  if bits ≥ 0x7FF0000000000000 then none else some (UInt64.ofNat bits)

/-- value `(-1)^neg · mant · 10^exp10` → float64 bits -/
def decToBits (neg : Bool) (mant : Nat) (exp10 : Int) : Option UInt64 :=
  let sign : UInt64 := if neg then 0x8000000000000000 else 0
  -- 10^(exp10+dl-1) ≤ value < 10^(exp10+dl), dl = number of decimal digits of mant
  let dl : Int := ((Nat.toDigits 10 mant).length : Int)
  if mant = 0 then some sign
  else if exp10 + dl - 1 ≥ 310 then none             -- ≥ 10^310 > max float64: overflow
  else if exp10 + dl ≤ -330 then some sign           -- < 10^-330 < half the smallest subnormal: zero
  else
    let r := if exp10 ≥ 0 then ratToBits (mant * 10 ^ exp10.toNat) 1 else ratToBits mant (10 ^ (-exp10).toNat)
    r.map (· ||| sign)

/-! ### parser -/

abbrev B := List UInt8

def isWs (b : UInt8) : Bool := b = 0x20 || b = 0x09 || b = 0x0a || b = 0x0d
def isDigit (b : UInt8) : Bool := 0x30 ≤ b && b ≤ 0x39

def skipWs : B → B
  | b :: r => if isWs b then skipWs r else b :: r
  | [] => []

def takeDigits : B → Nat → Nat → (Nat × Nat × B)    -- accumulated value, count, rest
  | b :: r, acc, n => if isDigit b then takeDigits r (acc * 10 + (b.toNat - 0x30)) (n + 1) else (acc, n, b :: r)
  | [], acc, n => (acc, n, [])

/-- number := -? (0 | [1-9][0-9]*) (\. [0-9]+)? ([eE] [+-]? [0-9]+)? -/
def parseNumber (bs : B) : Option (Option UInt64 × B) :=
  let (neg, bs) := match bs with | 0x2d :: r => (true, r) | _ => (false, bs)
  match bs with
  | [] => none
  | b :: _ =>
    if !isDigit b then none else
    let (ip, ni, r) := takeDigits bs 0 0
    if b = 0x30 ∧ ni > 1 then none else      -- leading zero
    let fracPart : Option (Nat × Nat × B) := match r with
      | 0x2e :: r' =>
        let (m, nf, r'') := takeDigits r' ip 0
        if nf = 0 then none else some (m, nf, r'')
      | _ => some (ip, 0, r)
    match fracPart with
    | none => none
    | some (mant, nf, r) =>
      let expPart : Option (Int × B) := match r with
        | b :: r' =>
          if b = 0x65 ∨ b = 0x45 then
            let (eneg, r'') := match r' with
              | 0x2d :: t => (true, t)
              | 0x2b :: t => (false, t)
              | _ => (false, r')
            let (ev, ne, r''') := takeDigits r'' 0 0
            if ne = 0 then none else some (if eneg then -(ev : Int) else (ev : Int), r''')
          else some (0, r)
        | [] => some (0, r)
      match expPart with
      | none => none
      | some (ex, r) => some (decToBits neg mant (ex - (nf : Int)), r)

def hexVal (b : UInt8) : Option Nat :=
  if 0x30 ≤ b ∧ b ≤ 0x39 then some (b.toNat - 0x30)
  else if 0x61 ≤ b ∧ b ≤ 0x66 then some (b.toNat - 0x61 + 10)
  else if 0x41 ≤ b ∧ b ≤ 0x46 then some (b.toNat - 0x41 + 10)
  else none

def hex4 : B → Option (Nat × B)
  | a :: b :: c :: d :: r => do
    let a ← hexVal a; let b ← hexVal b; let c ← hexVal c; let d ← hexVal d
    pure (((a * 16 + b) * 16 + c) * 16 + d, r)
  | _ => none

/-- one UTF-8 sequence starting at lead byte `b` (≥ 0x80); invalid → U+FFFD consuming one byte -/
def utf8Rune (b : UInt8) (r : B) : Nat × B :=
  let cont (x : UInt8) : Bool := 0x80 ≤ x && x ≤ 0xBF
  let bad := (0xFFFD, r)
  if 0xC2 ≤ b ∧ b ≤ 0xDF then
    match r with
    | x :: r' => if cont x then ((b.toNat - 0xC0) * 64 + (x.toNat - 0x80), r') else bad
    | _ => bad
  else if 0xE0 ≤ b ∧ b ≤ 0xEF then
    match r with
    | x :: y :: r' =>
      let cp := ((b.toNat - 0xE0) * 64 + (x.toNat - 0x80)) * 64 + (y.toNat - 0x80)
      if cont x ∧ cont y ∧ cp ≥ 0x800 ∧ ¬ (0xD800 ≤ cp ∧ cp ≤ 0xDFFF) then (cp, r') else bad
    | _ => bad
  else if 0xF0 ≤ b ∧ b ≤ 0xF4 then
    match r with
    | x :: y :: z :: r' =>
      let cp := (((b.toNat - 0xF0) * 64 + (x.toNat - 0x80)) * 64 + (y.toNat - 0x80)) * 64 + (z.toNat - 0x80)
      if cont x ∧ cont y ∧ cont z ∧ cp ≥ 0x10000 ∧ cp ≤ 0x10FFFF then (cp, r') else bad
    | _ => bad
  else bad

/-- string body after the opening quote; `fuel` ≥ remaining length -/
def parseStr : Nat → B → List Nat → Option (List Nat × B)
  | 0, _, _ => none
  | _+1, [], _ => none
  | f+1, b :: r, acc =>
    if b = 0x22 then some (acc.reverse, r)
    else if b < 0x20 then none
    else if b = 0x5c then
      match r with
      | [] => none
      | c :: r' =>
        if c = 0x75 then
          match hex4 r' with
          | none => none
          | some (u, r'') =>
            if 0xD800 ≤ u ∧ u ≤ 0xDBFF then
              -- high surrogate: combine with a following \uDC00..DFFF, else U+FFFD
              match r'' with
              | 0x5c :: 0x75 :: r3 =>
                match hex4 r3 with
                | some (v, r4) =>
                  if 0xDC00 ≤ v ∧ v ≤ 0xDFFF then
                    parseStr f r4 ((0x10000 + (u - 0xD800) * 1024 + (v - 0xDC00)) :: acc)
                  else parseStr f r'' (0xFFFD :: acc)
                | none => parseStr f r'' (0xFFFD :: acc)
              | _ => parseStr f r'' (0xFFFD :: acc)
            else if 0xDC00 ≤ u ∧ u ≤ 0xDFFF then parseStr f r'' (0xFFFD :: acc)
            else parseStr f r'' (u :: acc)
        else
          let e : Option Nat :=
            if c = 0x22 then some 0x22 else if c = 0x5c then some 0x5c else if c = 0x2f then some 0x2f
            else if c = 0x62 then some 8 else if c = 0x66 then some 12 else if c = 0x6e then some 10
            else if c = 0x72 then some 13 else if c = 0x74 then some 9 else none
          match e with
          | none => none
          | some v => parseStr f r' (v :: acc)
    else if b < 0x80 then parseStr f r (b.toNat :: acc)
    else
      let (cp, r') := utf8Rune b r
      parseStr f r' (cp :: acc)

def maxDepth : Nat := 10000

def expect (lit : List UInt8) (bs : B) : Option B :=
  if lit.isPrefixOf bs then some (bs.drop lit.length) else none

mutual
/-- a value with leading white space already skipped; `depth` = open containers -/
def parseValue : Nat → Nat → B → Option (JV × B)
  | 0, _, _ => none
  | _+1, _, [] => none
  | f+1, depth, b :: r =>
    if b = 0x7b then
      if depth + 1 > maxDepth then none else
      match skipWs r with
      | 0x7d :: r' => some (.obj [] [], r')
      | r' => parseMembers f (depth + 1) r' [] []
    else if b = 0x5b then
      if depth + 1 > maxDepth then none else
      match skipWs r with
      | 0x5d :: r' => some (.arr [], r')
      | r' => parseElems f (depth + 1) r' []
    else if b = 0x22 then
      match parseStr f r [] with          -- f ≥ r.length + 1 (the budget starts above the input length)
      | some (s, r') => some (.str s, r')
      | none => none
    else if b = 0x74 then (expect [0x72, 0x75, 0x65] r).map fun r' => (.bool true, r')
    else if b = 0x66 then (expect [0x61, 0x6c, 0x73, 0x65] r).map fun r' => (.bool false, r')
    else if b = 0x6e then (expect [0x75, 0x6c, 0x6c] r).map fun r' => (.null, r')
    else match parseNumber (b :: r) with
      | some (v, r') => some (.num v, r')
      | none => none
/-- elements of an array after `[`, at least one expected; input starts at the element -/
def parseElems : Nat → Nat → B → List JV → Option (JV × B)
  | 0, _, _, _ => none
  | f+1, depth, bs, acc =>
    match parseValue f depth bs with
    | none => none
    | some (v, r) =>
      match skipWs r with
      | 0x2c :: r' => parseElems f depth (skipWs r') (v :: acc)
      | 0x5d :: r' => some (.arr (v :: acc).reverse, r')
      | _ => none
/-- members of an object after `{`, at least one expected; input starts at the key's quote -/
def parseMembers : Nat → Nat → B → List (List Nat) → List JV → Option (JV × B)
  | 0, _, _, _, _ => none
  | f+1, depth, bs, ks, vs =>
    match bs with
    | 0x22 :: r =>
      match parseStr f r [] with
      | none => none
      | some (k, r) =>
        match skipWs r with
        | 0x3a :: r =>
          match parseValue f depth (skipWs r) with
          | none => none
          | some (v, r) =>
            match skipWs r with
            | 0x2c :: r' => parseMembers f depth (skipWs r') (k :: ks) (v :: vs)
            | 0x7d :: r' => some (.obj (k :: ks).reverse (v :: vs).reverse, r')
            | _ => none
        | _ => none
    | _ => none
end

/-- a complete document: one value surrounded by optional white space -/
def parseDoc (bs : B) : Option JV :=
  match parseValue (bs.length + 1) 0 (skipWs bs) with
  | some (v, r) => if (skipWs r).isEmpty then some v else none
  | none => none

/-! ### Unmarshal into `Geometry` -/

def foldCp (c : Nat) : Nat :=
  if 0x61 ≤ c ∧ c ≤ 0x7a then c - 32 else if c = 0x17F then 0x53 else if c = 0x212A then 0x4B else c

def cps (s : String) : List Nat := s.toList.map Char.toNat

/-- struct-field match: exact, else equal under folding -/
def keyIs (name : String) (k : List Nat) : Bool :=
  k == cps name || k.map foldCp == (cps name).map foldCp

def cpsToString (s : List Nat) : String := String.ofList (s.map fun c => Char.ofNat c)

mutual
/-- interface{} target: `none` when a number is out of range (Unmarshal reports an error) -/
def toGoVal : JV → Option GoVal
  | .null => some .nil
  | .bool b => some (.bool b)
  | .num v => v.map .num
  | .str s => some (.str (cpsToString s))
  | .arr xs => (toGoVals xs).map .arr
  | .obj ks vs => (toGoVals vs).map (.obj (ks.map cpsToString))
def toGoVals : List JV → Option (List GoVal)
  | [] => some []
  | v :: vs => do
    let a ← toGoVal v
    let b ← toGoVals vs
    pure (a :: b)
end

/-- fields of the struct while the object's members are processed in order -/
def unmarshalMembers : List (List Nat) → List JV → (String × GoVal × Bool) → (String × GoVal × Bool)
  | k :: ks, v :: vs, (t, c, ok) =>
    if keyIs "type" k then
      match v with
      | .str s => unmarshalMembers ks vs (cpsToString s, c, ok)
      | .null => unmarshalMembers ks vs (t, c, ok)
      | _ => unmarshalMembers ks vs (t, c, false)             -- UnmarshalTypeError, decoding continues
    else if keyIs "coordinates" k then
      match toGoVal v with
      | some g => unmarshalMembers ks vs (t, g, ok)
      | none => unmarshalMembers ks vs (t, c, false)          -- number out of range
    else unmarshalMembers ks vs (t, c, ok)                    -- unknown key: skipped unread
  | _, _, acc => acc

/-- `json.Unmarshal(data, &geom)`; `none` = error -/
def unmarshalGeometry (bs : B) : Option (String × GoVal) :=
  match parseDoc bs with
  | none => none
  | some .null => some ("", .nil)
  | some (.obj ks vs) =>
    let (t, c, ok) := unmarshalMembers ks vs ("", .nil, true)
    if ok then some (t, c) else none
  | some _ => none

/-- `geojson.Decode`. The cost counts this package's allocations only (see `fromGeoJSON`); what
`encoding/json` itself allocates is proportional to the input by the library contract and is
measured by the correspondence run. -/
def decodeJSON (bs : B) : CM Fault BGeom :=
  match unmarshalGeometry bs with
  | none => ⟨.error (.err .json), 0⟩
  | some g => fromGeoJSON (some g)

end GeomV.C07
