import GeomV.C07.Proofs
import GeomV.C07.ModelIO
/-!
# C07 — property theorems, part 2: error classes of the hex decoder, readers that are not slices

* `C07_hex_ok_iff`        `hexDecodeE` succeeds exactly where the C05 hex decoder does, with the same bytes
* `C07_hex_error_length`  `ErrLength` ⇔ odd length and every byte a hex digit
* `C07_hex_error_byte`    `InvalidByteError(c)` ⇔ `c` is the FIRST byte of the string that is no hex digit
* `C07_hex_full_total`    `hex.Decode` on every string: a geometry, one of the two hex errors, or one of the
                          four WKB errors; same cost as `hexDecodeC` (so `C07_hex_alloc` applies)
* `C07_stream_total`      `wkb.Read` on a reader with a sticky error: a geometry, the reader's error, or one of
                          the four WKB errors; allocation ≤ 6·delivered + 32 KiB — whatever the reader does
-/
set_option linter.unusedSimpArgs false
set_option linter.unusedVariables false
namespace GeomV.C07
open GeomV GeomV.C05

theorem isHexDigit_none {c : Char} (h : hexDigitVal c = none) : isHexDigit c = false := by
  simp [isHexDigit, h]
theorem isHexDigit_some {c : Char} {x : Nat} (h : hexDigitVal c = some x) : isHexDigit c = true := by
  simp [isHexDigit, h]

/-- the first byte of the string that is not a hexadecimal digit -/
def firstNonHex (s : List Char) : Option Char := s.find? (fun c => !isHexDigit c)

/-- **C07_hex_ok_iff.** `encoding/hex.Decode` succeeds exactly on the strings the C05 hex decoder
accepts (even length, hex digits only), with the same bytes. -/
theorem C07_hex_ok_iff (s : List Char) (bs : Bytes) :
    hexDecodeE s = .ok bs ↔ C05.hexDecode s = some bs := by
  induction s using hexDecodeE.induct generalizing bs with
  | case1 => simp [hexDecodeE, C05.hexDecode]
  | case2 a h => simp [hexDecodeE, C05.hexDecode, h]
  | case3 a h => simp [hexDecodeE, C05.hexDecode, h]
  | case4 a b r ha => simp [hexDecodeE, C05.hexDecode, ha, bind, Option.bind]
  | case5 a b r x ha hb => simp [hexDecodeE, C05.hexDecode, ha, hb, bind, Option.bind]
  | case6 a b r x ha y hb t ht ih =>
    have := (ih t).1 ht
    simp [hexDecodeE, C05.hexDecode, ha, hb, ht, this, bind, Option.bind, pure]
  | case7 a b r x ha y hb e he ih =>
    have hn : C05.hexDecode r = none := by
      cases h : C05.hexDecode r with
      | none => rfl
      | some t => have := (ih t).2 h; rw [he] at this; cases this
    simp [hexDecodeE, C05.hexDecode, ha, hb, he, hn, bind, Option.bind]

/-- **C07_hex_error_length.** `hex.ErrLength` is returned exactly for strings of odd length all of
whose bytes are hex digits. -/
theorem C07_hex_error_length (s : List Char) :
    hexDecodeE s = .error .length ↔ s.length % 2 = 1 ∧ firstNonHex s = none := by
  induction s using hexDecodeE.induct with
  | case1 => simp [hexDecodeE]
  | case2 a h => simp [hexDecodeE, firstNonHex, h]
  | case3 a h => simp [hexDecodeE, firstNonHex, h]
  | case4 a b r ha => simp [hexDecodeE, firstNonHex, ha, isHexDigit_none ha]
  | case5 a b r x ha hb => simp [hexDecodeE, firstNonHex, ha, hb, isHexDigit_some ha, isHexDigit_none hb]
  | case6 a b r x ha y hb t ht ih =>
    rw [ht] at ih
    have e1 : (a :: b :: r).length % 2 = r.length % 2 := by simp [List.length]; omega
    have e2 : firstNonHex (a :: b :: r) = firstNonHex r := by
      simp [firstNonHex, isHexDigit_some ha, isHexDigit_some hb]
    rw [e1, e2, ← ih]; simp [hexDecodeE, ha, hb, ht]
  | case7 a b r x ha y hb e he ih =>
    rw [he] at ih
    have e1 : (a :: b :: r).length % 2 = r.length % 2 := by simp [List.length]; omega
    have e2 : firstNonHex (a :: b :: r) = firstNonHex r := by
      simp [firstNonHex, isHexDigit_some ha, isHexDigit_some hb]
    rw [e1, e2, ← ih]; simp [hexDecodeE, ha, hb, he]

/-- **C07_hex_error_byte.** `hex.InvalidByteError(c)` is returned exactly when `c` is the FIRST byte
of the string that is not a hex digit (whatever the length). -/
theorem C07_hex_error_byte (s : List Char) (c : Char) :
    hexDecodeE s = .error (.invalidByte c) ↔ firstNonHex s = some c := by
  induction s using hexDecodeE.induct with
  | case1 => simp [hexDecodeE, firstNonHex]
  | case2 a h => simp [hexDecodeE, firstNonHex, h]
  | case3 a h => simp [hexDecodeE, firstNonHex, h]
  | case4 a b r ha => simp [hexDecodeE, firstNonHex, ha, isHexDigit_none ha]
  | case5 a b r x ha hb => simp [hexDecodeE, firstNonHex, ha, hb, isHexDigit_some ha, isHexDigit_none hb]
  | case6 a b r x ha y hb t ht ih =>
    rw [ht] at ih
    have e2 : firstNonHex (a :: b :: r) = firstNonHex r := by
      simp [firstNonHex, isHexDigit_some ha, isHexDigit_some hb]
    rw [e2, ← ih]; simp [hexDecodeE, ha, hb, ht]
  | case7 a b r x ha y hb e he ih =>
    rw [he] at ih
    have e2 : firstNonHex (a :: b :: r) = firstNonHex r := by
      simp [firstNonHex, isHexDigit_some ha, isHexDigit_some hb]
    rw [e2, ← ih]; simp [hexDecodeE, ha, hb, he]

/-- the three outcomes are exhaustive and decided by length parity and the first non-digit -/
example : hexDecodeE "01z".toList = .error (.invalidByte 'z') ∧ hexDecodeE "011".toList = .error .length ∧
    hexDecodeE "0g1".toList = .error (.invalidByte 'g') ∧ hexDecodeE "zz".toList = .error (.invalidByte 'z') ∧
    hexDecodeE "0A".toList = .ok [10] := ⟨rfl, rfl, rfl, rfl, rfl⟩

/-- **C07_hex_full_total.** For EVERY string, `hex.Decode` returns a geometry, one of the two
`encoding/hex` errors (characterised above), or one of the four WKB errors; it costs exactly what
`hexDecodeC` costs (so `C07_hex_alloc` bounds it) and agrees with it on success. -/
theorem C07_hex_full_total (s : List Char) :
    ((∃ g, (hexDecodeFullC fixed s).res = .ok g ∧ (hexDecodeC fixed s).res = .ok g) ∨
     (∃ e, (hexDecodeFullC fixed s).res = .error (.hex e) ∧ (hexDecodeC fixed s).res = .error .hex) ∨
     (∃ e, (hexDecodeFullC fixed s).res = .error (.wkb e) ∧ (hexDecodeC fixed s).res = .error (.wkb e) ∧
        (e = .eof ∨ e = .badOrder ∨ e = .badType ∨ e = .unexpected))) ∧
    (hexDecodeFullC fixed s).cost = (hexDecodeC fixed s).cost := by
  cases h : hexDecodeE s with
  | error e =>
    have hn : C05.hexDecode s = none := by
      cases h' : C05.hexDecode s with
      | none => rfl
      | some t => have := (C07_hex_ok_iff s t).2 h'; rw [h] at this; cases this
    simp [hexDecodeFullC, hexDecodeC, h, hn]
  | ok bs =>
    have hs := (C07_hex_ok_iff s bs).1 h
    have ht := C07_hex_total s
    simp only [hexDecodeFullC, hexDecodeC, h, hs] at ht ⊢
    refine ⟨?_, trivial⟩
    cases hr : (decodeC fixed bs).res with
    | ok g => exact .inl ⟨g, rfl, rfl⟩
    | error e =>
      rw [hr] at ht
      rcases ht with ⟨g, hg⟩ | hg | ⟨e', he', hc⟩
      · cases hg
      · cases hg
      · cases he'; exact .inr (.inr ⟨e, rfl, rfl, hc⟩)

/-- **C07_stream_total.** `wkb.Read` on ANY reader with a sticky error — whatever the sizes of its
reads, however many empty reads, whether the error arrives together with data or alone: the call
returns a geometry (then it is the geometry `wkb.Decode` finds in the delivered bytes, and it is
encodable), the reader's own error (only if the reader's error is not EOF), or one of the four WKB
errors; never the recursion-budget fault; and it requests at most `6·delivered + 32 KiB` bytes. -/
theorem C07_stream_total (delivered : Bytes) (e : REnd) :
    ((∃ g, (streamDecodeC fixed delivered e).res = .ok g ∧ C05.decode delivered = .ok g) ∨
     ((streamDecodeC fixed delivered e).res = .error .reader ∧ e = .custom ∧ C05.decode delivered = .error .eof) ∨
     (∃ x, (streamDecodeC fixed delivered e).res = .error (.wkb x) ∧ C05.decode delivered = .error x ∧
        (x = .eof ∧ e = .eof ∨ x = .badOrder ∨ x = .badType ∨ x = .unexpected))) ∧
    (streamDecodeC fixed delivered e).cost ≤ 6 * delivered.length + 32768 := by
  refine ⟨?_, C07_wkb_alloc delivered⟩
  have he := (C07_wkb_erase delivered).1
  have ht := C07_wkb_total delivered
  simp only [streamDecodeC, he]
  rcases ht with ⟨g, h1, _⟩ | ⟨x, h1, h2⟩
  · rw [h1]; exact .inl ⟨g, rfl, rfl⟩
  · rw [h1]
    rcases h2 with h | h | h | h <;> subst h
    · cases e
      · exact .inr (.inr ⟨.eof, rfl, rfl, .inl ⟨rfl, rfl⟩⟩)
      · exact .inr (.inl ⟨rfl, rfl, rfl⟩)
    · exact .inr (.inr ⟨_, rfl, rfl, by simp⟩)
    · exact .inr (.inr ⟨_, rfl, rfl, by simp⟩)
    · exact .inr (.inr ⟨_, rfl, rfl, by simp⟩)

end GeomV.C07
