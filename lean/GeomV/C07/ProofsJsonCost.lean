import GeomV.C07.JsonCost
import GeomV.C07.Proofs
/-!
# C07 — the node-granular allocation model of encoding/json is linear in the text length
-/
set_option linter.unusedSimpArgs false
set_option linter.unusedVariables false
namespace GeomV.C07
open GeomV GeomV.C05

/-! ## A. minimal text width of a parsed value -/

mutual
/-- least number of bytes any JSON text of this value occupies (literals and numbers counted as 1) -/
def jvW : JV → Nat
  | .null => 1
  | .bool _ => 1
  | .num _ => 1
  | .str s => 2 + s.length
  | .arr xs => 1 + jvWL xs + (if xs.isEmpty then 1 else 0)
  | .obj ks vs => 1 + jvWKV ks vs + (if vs.isEmpty then 1 else 0)
/-- elements, each with its separator / closing bracket -/
def jvWL : List JV → Nat
  | [] => 0
  | x :: xs => jvW x + 1 + jvWL xs
/-- members: two quotes, colon, separator / closing brace -/
def jvWKV : List (List Nat) → List JV → Nat
  | k :: ks, v :: vs => k.length + 4 + jvW v + jvWKV ks vs
  | [], v :: vs => 4 + jvW v + jvWKV [] vs
  | _, [] => 0
end

mutual
/-- nesting depth: containers add 1 -/
def jvDepth : JV → Nat
  | .arr xs => 1 + jvDepthL xs
  | .obj _ vs => 1 + jvDepthL vs
  | _ => 0
def jvDepthL : List JV → Nat
  | [] => 0
  | x :: xs => max (jvDepth x) (jvDepthL xs)
end

/-- induction over `JV` with the list hypotheses in `∀ x ∈ xs` form -/
theorem JV.ind {P : JV → Prop} (hnull : P .null) (hbool : ∀ b, P (.bool b)) (hnum : ∀ n, P (.num n))
    (hstr : ∀ s, P (.str s)) (harr : ∀ xs, (∀ x ∈ xs, P x) → P (.arr xs))
    (hobj : ∀ ks vs, (∀ x ∈ vs, P x) → P (.obj ks vs)) : ∀ v, P v
  | .null => hnull
  | .bool b => hbool b
  | .num n => hnum n
  | .str s => hstr s
  | .arr xs => harr xs (fun x hx => JV.ind hnull hbool hnum hstr harr hobj x)
  | .obj ks vs => hobj ks vs (fun x hx => JV.ind hnull hbool hnum hstr harr hobj x)
termination_by v => sizeOf v
decreasing_by
  all_goals simp_wf
  · have := List.sizeOf_lt_of_mem hx; omega
  · have := List.sizeOf_lt_of_mem hx; omega

theorem jvW_pos (v : JV) : 1 ≤ jvW v := by
  cases v <;> simp [jvW] <;> omega

/-! ## B. the parser consumes at least the width -/

theorem skipWs_le : ∀ r : B, (skipWs r).length ≤ r.length
  | [] => by simp [skipWs]
  | b :: r => by
    simp only [skipWs]
    split
    · have := skipWs_le r; simp; omega
    · simp

theorem takeDigits_le : ∀ (bs : B) (a n : Nat), (takeDigits bs a n).2.2.length ≤ bs.length
  | [], a, n => by simp [takeDigits]
  | b :: r, a, n => by
    simp only [takeDigits]
    split
    · have := takeDigits_le r (a * 10 + (b.toNat - 0x30)) (n + 1); simp; omega
    · simp

theorem takeDigits_lt (b : UInt8) (r : B) (a n : Nat) (h : isDigit b = true) :
    (takeDigits (b :: r) a n).2.2.length + 1 ≤ (b :: r).length := by
  simp only [takeDigits, h, if_true]
  have := takeDigits_le r (a * 10 + (b.toNat - 0x30)) (n + 1); simp; omega

def numSign (bs : B) : Bool × B := match bs with | 0x2d :: r => (true, r) | _ => (false, bs)
def numFrac (ip : Nat) (r : B) : Option (Nat × Nat × B) :=
  match r with
  | 0x2e :: r' =>
    let (m, nf, r'') := takeDigits r' ip 0
    if nf = 0 then none else some (m, nf, r'')
  | _ => some (ip, 0, r)
def numExp (r : B) : Option (Int × B) :=
  match r with
  | b :: r' =>
    if b = 0x65 ∨ b = 0x45 then
      let (eneg, r'') := match r' with
        | 0x2d :: t => (true, t)
        | 0x2b :: t => (false, t)
        | _ => (false, r')
      let (ev, ne, r''') := takeDigits r'' 0 0
      if ne = 0 then none else some (if eneg then -(ev : Int) else (ev : Int), r''')
    else some (0, r)
  | [] => some (0, r)

theorem parseNumber_eq (bs : B) : parseNumber bs =
    match (numSign bs).2 with
    | [] => none
    | b :: t =>
      if !isDigit b then none else
      let q := takeDigits (numSign bs).2 0 0
      if b = 0x30 ∧ q.2.1 > 1 then none else
      match numFrac q.1 q.2.2 with
      | none => none
      | some (mant, nf, r) =>
        match numExp r with
        | none => none
        | some (ex, r) => some (decToBits (numSign bs).1 mant (ex - (nf : Int)), r) := by
  rfl

theorem numSign_le (bs : B) : (numSign bs).2.length ≤ bs.length := by
  unfold numSign; split <;> simp

theorem numFrac_le (ip : Nat) (r : B) (m nf : Nat) (r' : B) (h : numFrac ip r = some (m, nf, r')) :
    r'.length ≤ r.length := by
  unfold numFrac at h
  split at h
  · rename_i t
    simp only [] at h
    split at h
    · simp at h
    · simp only [Option.some.injEq, Prod.mk.injEq] at h
      have := takeDigits_le t ip 0
      rw [h.2.2] at this; simp; omega
  · simp only [Option.some.injEq, Prod.mk.injEq] at h
    rw [h.2.2]; omega

theorem numExp_le (r : B) (e : Int) (r' : B) (h : numExp r = some (e, r')) :
    r'.length ≤ r.length := by
  unfold numExp at h
  split at h
  · rename_i b t
    split at h
    · simp only [] at h
      split at h <;> simp only [] at h <;> split at h <;>
        simp only [Option.some.injEq, Prod.mk.injEq, reduceCtorEq] at h <;>
        (obtain ⟨_, rfl⟩ := h; exact Nat.le_trans (takeDigits_le _ 0 0) (by simp; try omega))
    · simp only [Option.some.injEq, Prod.mk.injEq] at h
      rw [h.2]; omega
  · simp only [Option.some.injEq, Prod.mk.injEq] at h
    rw [h.2]; omega

theorem parseNumber_lt (bs : B) (v : Option UInt64) (r : B) (h : parseNumber bs = some (v, r)) :
    r.length + 1 ≤ bs.length := by
  rw [parseNumber_eq] at h
  have hs := numSign_le bs
  generalize numSign bs = p at h hs
  obtain ⟨neg, bs'⟩ := p
  simp only [] at h hs
  split at h
  · simp at h
  · rename_i b t
    split at h
    · simp at h
    rename_i hd
    have h1 := takeDigits_lt b t 0 0 (by simpa using hd)
    generalize takeDigits (b :: t) 0 0 = q at h h1
    obtain ⟨ip, ni, r1⟩ := q
    simp only [] at h h1
    split at h
    · simp at h
    split at h
    · simp at h
    rename_i mant nf r2 hf
    have h2 := numFrac_le _ _ _ _ _ hf
    split at h
    · simp at h
    rename_i ex r3 he
    have h3 := numExp_le _ _ _ he
    simp only [Option.some.injEq, Prod.mk.injEq] at h
    rw [← h.2]
    omega

theorem hex4_len (bs : B) (u : Nat) (r : B) (h : hex4 bs = some (u, r)) : r.length + 4 = bs.length := by
  unfold hex4 at h
  split at h
  · rename_i a b c d r0
    cases ha : hexVal a <;> cases hb : hexVal b <;> cases hc : hexVal c <;> cases hd : hexVal d <;>
      simp [ha, hb, hc, hd] at h
    simp [← h.2]
  · simp at h

theorem utf8Rune_le (b : UInt8) (r : B) : (utf8Rune b r).2.length ≤ r.length := by
  unfold utf8Rune
  simp only []
  repeat' split
  all_goals simp
  all_goals omega

set_option maxHeartbeats 2000000 in
theorem parseStr_len : ∀ (f : Nat) (r : B) (acc : List Nat) (s : List Nat) (r' : B),
    parseStr f r acc = some (s, r') → s.length + r'.length + 1 ≤ acc.length + r.length := by
  intro f
  induction f with
  | zero => intro r acc s r' h; simp [parseStr] at h
  | succ f ih =>
    intro r acc s r' h
    cases r with
    | nil => simp [parseStr] at h
    | cons b r =>
      simp only [parseStr] at h
      split at h
      · simp at h; obtain ⟨rfl, rfl⟩ := h; simp; omega
      split at h
      · simp at h
      split at h
      · -- escape
        split at h
        · simp at h
        rename_i c r1
        split at h
        · -- \u
          split at h
          · simp at h
          rename_i u r2 hh
          have e1 := hex4_len _ _ _ hh
          split at h
          · split at h
            · rename_i r3
              split at h
              · rename_i v r4 hh2
                have e2 := hex4_len _ _ _ hh2
                split at h
                · have := ih _ _ _ _ h; simp only [List.length_cons] at *; omega
                · have := ih _ _ _ _ h; simp only [List.length_cons] at *; omega
              · have := ih _ _ _ _ h; simp only [List.length_cons] at *; omega
            · have := ih _ _ _ _ h; simp only [List.length_cons] at *; omega
          · split at h <;> (have := ih _ _ _ _ h; simp only [List.length_cons] at *; omega)
        · split at h
          · simp at h
          · have := ih _ _ _ _ h; simp only [List.length_cons] at *; omega
      split at h
      · have := ih _ _ _ _ h; simp only [List.length_cons] at *; omega
      · have := ih _ _ _ _ h; have := utf8Rune_le b r; simp only [List.length_cons] at *; omega

theorem expect_len (lit bs r : B) (h : expect lit bs = some r) : r.length + lit.length ≤ bs.length := by
  unfold expect at h
  split at h
  · rename_i hp
    have := (List.isPrefixOf_iff_prefix.mp hp).length_le
    simp at h; subst h; simp; omega
  · simp at h

set_option maxHeartbeats 2000000 in
theorem parse_width (f : Nat) :
    (∀ d bs v r, parseValue f d bs = some (v, r) → jvW v + r.length ≤ bs.length) ∧
    (∀ d bs acc v r, parseElems f d bs acc = some (v, r) →
      ∃ xs, v = .arr (acc.reverse ++ xs) ∧ xs ≠ [] ∧ jvWL xs + r.length ≤ bs.length) ∧
    (∀ d bs ks vs v r, parseMembers f d bs ks vs = some (v, r) →
      ∃ ks' vs', v = .obj (ks.reverse ++ ks') (vs.reverse ++ vs') ∧ vs' ≠ [] ∧
        jvWKV ks' vs' + r.length ≤ bs.length) := by
  induction f with
  | zero => refine ⟨?_, ?_, ?_⟩ <;> intros <;> simp [parseValue, parseElems, parseMembers] at *
  | succ f ih =>
    obtain ⟨ihV, ihE, ihM⟩ := ih
    refine ⟨?_, ?_, ?_⟩
    · intro d bs v r h
      cases bs with
      | nil => simp [parseValue] at h
      | cons b t =>
        simp only [parseValue] at h
        have hwt := skipWs_le t
        split at h
        · -- object
          split at h
          · simp at h
          split at h
          · rename_i r' hw
            simp only [Option.some.injEq, Prod.mk.injEq] at h
            obtain ⟨rfl, rfl⟩ := h
            rw [hw] at hwt
            simp only [jvW, jvWKV, List.length_cons, List.isEmpty_nil, if_true] at *; omega
          · have ⟨ks', vs', hv, hne, hl⟩ := ihM _ _ _ _ _ _ h
            subst hv
            cases vs' with
            | nil => exact absurd rfl hne
            | cons x xs => simp [jvW] at *; omega
        split at h
        · -- array
          split at h
          · simp at h
          split at h
          · rename_i r' hw
            simp only [Option.some.injEq, Prod.mk.injEq] at h
            obtain ⟨rfl, rfl⟩ := h
            rw [hw] at hwt
            simp only [jvW, jvWL, List.length_cons, List.isEmpty_nil, if_true] at *; omega
          · have ⟨xs, hv, hne, hl⟩ := ihE _ _ _ _ _ h
            subst hv
            cases xs with
            | nil => exact absurd rfl hne
            | cons x xs => simp [jvW] at *; omega
        split at h
        · -- string
          split at h
          · rename_i s r' hs
            have := parseStr_len _ _ _ _ _ hs
            simp only [Option.some.injEq, Prod.mk.injEq] at h
            obtain ⟨rfl, rfl⟩ := h
            simp [jvW] at *; omega
          · simp at h
        split at h
        · cases he : expect [0x72, 0x75, 0x65] t <;> simp [he] at h
          obtain ⟨rfl, rfl⟩ := h
          have := expect_len _ _ _ he
          simp [jvW] at *; omega
        split at h
        · cases he : expect [0x61, 0x6c, 0x73, 0x65] t <;> simp [he] at h
          obtain ⟨rfl, rfl⟩ := h
          have := expect_len _ _ _ he
          simp [jvW] at *; omega
        split at h
        · cases he : expect [0x75, 0x6c, 0x6c] t <;> simp [he] at h
          obtain ⟨rfl, rfl⟩ := h
          have := expect_len _ _ _ he
          simp [jvW] at *; omega
        split at h
        · rename_i n r' hn
          have := parseNumber_lt _ _ _ hn
          simp only [Option.some.injEq, Prod.mk.injEq] at h
          obtain ⟨rfl, rfl⟩ := h
          simp [jvW] at *; omega
        · simp at h
    · intro d bs acc v r h
      simp only [parseElems] at h
      split at h
      · simp at h
      rename_i v1 r1 hv
      have h1 := ihV _ _ _ _ hv
      have hw := skipWs_le r1
      split at h
      · rename_i r2 hs
        have ⟨xs, hx, hne, hl⟩ := ihE _ _ _ _ _ h
        refine ⟨v1 :: xs, ?_, by simp, ?_⟩
        · rw [hx]; simp
        · have := skipWs_le r2; rw [hs] at hw; simp only [List.length_cons, jvWL] at *; omega
      · rename_i r2 hs
        simp only [Option.some.injEq, Prod.mk.injEq] at h
        obtain ⟨rfl, rfl⟩ := h
        refine ⟨[v1], by simp, by simp, ?_⟩
        rw [hs] at hw; simp only [List.length_cons, jvWL] at *; omega
      · simp at h
    · intro d bs ks vs v r h
      simp only [parseMembers] at h
      split at h
      · rename_i r0
        split at h
        · simp at h
        rename_i k r1 hk
        have h0 := parseStr_len _ _ _ _ _ hk
        have hw1 := skipWs_le r1
        split at h
        · rename_i r2 hs1
          split at h
          · simp at h
          rename_i v1 r3 hv
          have h1 := ihV _ _ _ _ hv
          have hw2 := skipWs_le r2
          have hw3 := skipWs_le r3
          split at h
          · rename_i r4 hs3
            have ⟨ks', vs', hx, hne, hl⟩ := ihM _ _ _ _ _ _ h
            have hw4 := skipWs_le r4
            refine ⟨k :: ks', v1 :: vs', ?_, by simp, ?_⟩
            · rw [hx]; simp
            · rw [hs1] at hw1; rw [hs3] at hw3
              simp only [List.length_cons, List.length_nil, jvWKV] at *; omega
          · rename_i r4 hs3
            simp only [Option.some.injEq, Prod.mk.injEq] at h
            obtain ⟨rfl, rfl⟩ := h
            refine ⟨[k], [v1], by simp, by simp, ?_⟩
            rw [hs1] at hw1; rw [hs3] at hw3
            simp only [List.length_cons, List.length_nil, jvWKV] at *; omega
          · simp at h
        · simp at h
      · simp at h

end GeomV.C07
