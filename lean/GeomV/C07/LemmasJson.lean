import GeomV.C07.LemmasCost
/-! GeoJSON decoder: which panics can be raised. -/
set_option linter.unusedSimpArgs false
set_option linter.unusedVariables false
namespace GeomV.C07
open GeomV GeomV.C05

variable {α β : Type}

/-- every panic the computation can raise satisfies `Q` -/
def Raises (Q : PanicVal → Prop) (m : J α) : Prop := ∀ p, m.res = .error p → Q p

theorem raises_pure (Q : PanicVal → Prop) (a : α) : Raises Q (pure a : J α) := by
  intro p h; cases h

theorem raises_alloc (Q : PanicVal → Prop) (n : Nat) : Raises Q (alloc n : J Unit) := by
  intro p h; cases h

theorem raises_panic (Q : PanicVal → Prop) (p : PanicVal) (h : Q p) : Raises Q (panic p : J α) := by
  intro q hq; cases hq; exact h

theorem raises_bind (Q : PanicVal → Prop) {m : J α} {f : α → J β}
    (h1 : Raises Q m) (h2 : ∀ a, m.res = .ok a → Raises Q (f a)) : Raises Q (m >>= f) := by
  intro p hp
  cases h : m.res with
  | error e => rw [(bind_err (f := f) h).1] at hp; cases hp; exact h1 _ h
  | ok a => rw [(bind_ok (f := f) h).1] at hp; exact h2 a h _ hp

theorem raises_mapC (Q : PanicVal → Prop) (f : α → J β) (h : ∀ a, Raises Q (f a)) :
    ∀ xs : List α, Raises Q (mapC f xs) := by
  intro xs
  induction xs with
  | nil => exact raises_pure Q _
  | cons a as ih =>
    simp only [mapC]
    exact raises_bind Q (h a) (fun _ _ => raises_bind Q ih (fun _ _ => raises_pure Q _))

theorem idx_lt {xs : List α} {i : Nat} (h : i < xs.length) : idx xs i = pure (xs[i]) := by
  simp [idx, List.getElem?_eq_getElem h]

theorem raises_idx_lt (Q : PanicVal → Prop) {xs : List α} {i : Nat} (h : i < xs.length) : Raises Q (idx xs i) := by
  rw [idx_lt h]; exact raises_pure Q _

/-- the panics of decode.go that are not index/nil faults -/
def Declared (p : PanicVal) : Prop := p = .invalidGeometry ∨ ∃ t, p = .unsupportedType t

theorem raises_asFloat (v : GoVal) : Raises Declared (asFloat v) := by
  cases v <;> first | exact raises_pure _ _ | exact raises_panic _ _ (.inl rfl)

theorem raises_asArray (v : GoVal) : Raises Declared (asArray v) := by
  cases v <;> first | exact raises_pure _ _ | exact raises_panic _ _ (.inl rfl)

theorem raises_dc1 (v : GoVal) : Raises Declared (decodeCoordinates v) := by
  simp only [decodeCoordinates]
  exact raises_bind _ (raises_asArray v) (fun _ _ => raises_bind _ (raises_alloc _ _)
    (fun _ _ => raises_mapC _ _ raises_asFloat _))

theorem raises_dc2 (v : GoVal) : Raises Declared (decodeCoordinates2 v) := by
  simp only [decodeCoordinates2]
  exact raises_bind _ (raises_asArray v) (fun _ _ => raises_bind _ (raises_alloc _ _)
    (fun _ _ => raises_mapC _ _ raises_dc1 _))

theorem raises_dc3 (v : GoVal) : Raises Declared (decodeCoordinates3 v) := by
  simp only [decodeCoordinates3]
  exact raises_bind _ (raises_asArray v) (fun _ _ => raises_bind _ (raises_alloc _ _)
    (fun _ _ => raises_mapC _ _ raises_dc2 _))

theorem raises_dc4 (v : GoVal) : Raises Declared (decodeCoordinates4 v) := by
  simp only [decodeCoordinates4]
  exact raises_bind _ (raises_asArray v) (fun _ _ => raises_bind _ (raises_alloc _ _)
    (fun _ _ => raises_mapC _ _ raises_dc3 _))

theorem raises_makePoint (e : List UInt64) : Raises Declared (makePoint e) := by
  simp only [makePoint]
  split
  · rename_i h
    exact raises_bind _ (raises_idx_lt _ (by omega)) (fun _ _ =>
      raises_bind _ (raises_idx_lt _ (by omega)) (fun _ _ => raises_pure _ _))
  · exact raises_panic _ _ (.inl rfl)

theorem raises_ring (c : List (List UInt64)) : Raises Declared (makeLinearRing c) := by
  simp only [makeLinearRing]
  exact raises_bind _ (raises_alloc _ _) (fun _ _ => raises_mapC _ _ raises_makePoint _)

theorem raises_rings (c : List (List (List UInt64))) : Raises Declared (makeLinearRings c) := by
  simp only [makeLinearRings]
  exact raises_bind _ (raises_alloc _ _) (fun _ _ => raises_mapC _ _ raises_ring _)

theorem pos_of_ne {n : Nat} (h : ¬ n = 0) : 0 < n := Nat.pos_of_ne_zero h

/-- With a non-nil `*Geometry`, every panic `doFromGeoJSON` can raise is one of the two declared error
values: the `len(...) == 0` guards make every index expression safe. -/
theorem raises_doFrom (typ : String) (c : GoVal) : Raises Declared (doFromGeoJSON (some (typ, c))) := by
  simp only [doFromGeoJSON]
  split
  · refine raises_bind _ (raises_dc1 c) (fun cs _ => ?_)
    split
    · rename_i h
      exact raises_bind _ (raises_idx_lt _ (by omega)) (fun _ _ =>
        raises_bind _ (raises_idx_lt _ (by omega)) (fun _ _ => raises_pure _ _))
    · exact raises_panic _ _ (.inl rfl)
  split
  · refine raises_bind _ (raises_dc2 c) (fun cs _ => ?_)
    split
    · exact raises_panic _ _ (.inl rfl)
    · rename_i h
      refine raises_bind _ (raises_idx_lt _ (pos_of_ne h)) (fun c0 _ => ?_)
      split
      · exact raises_bind _ (raises_ring _) (fun _ _ => raises_pure _ _)
      · exact raises_panic _ _ (.inl rfl)
  split
  · refine raises_bind _ (raises_dc2 c) (fun cs _ => ?_)
    split
    · exact raises_panic _ _ (.inl rfl)
    · rename_i h
      refine raises_bind _ (raises_idx_lt _ (pos_of_ne h)) (fun c0 _ => ?_)
      split
      · exact raises_bind _ (raises_ring _) (fun _ _ => raises_pure _ _)
      · exact raises_panic _ _ (.inl rfl)
  split
  · refine raises_bind _ (raises_dc3 c) (fun cs _ => ?_)
    split
    · exact raises_panic _ _ (.inl rfl)
    · rename_i h
      refine raises_bind _ (raises_idx_lt _ (pos_of_ne h)) (fun c0 _ => ?_)
      split
      · exact raises_panic _ _ (.inl rfl)
      · rename_i h0
        refine raises_bind _ (raises_idx_lt _ (pos_of_ne h0)) (fun c00 _ => ?_)
        split
        · exact raises_bind _ (raises_alloc _ _) (fun _ _ =>
            raises_bind _ (raises_mapC _ _ raises_ring _) (fun _ _ => raises_pure _ _))
        · exact raises_panic _ _ (.inl rfl)
  split
  · refine raises_bind _ (raises_dc3 c) (fun cs _ => ?_)
    split
    · exact raises_panic _ _ (.inl rfl)
    · rename_i h
      refine raises_bind _ (raises_idx_lt _ (pos_of_ne h)) (fun c0 _ => ?_)
      split
      · exact raises_panic _ _ (.inl rfl)
      · rename_i h0
        refine raises_bind _ (raises_idx_lt _ (pos_of_ne h0)) (fun c00 _ => ?_)
        split
        · exact raises_bind _ (raises_rings _) (fun _ _ => raises_pure _ _)
        · exact raises_panic _ _ (.inl rfl)
  split
  · refine raises_bind _ (raises_dc4 c) (fun cs _ => ?_)
    split
    · exact raises_panic _ _ (.inl rfl)
    · rename_i h
      refine raises_bind _ (raises_idx_lt _ (pos_of_ne h)) (fun c0 _ => ?_)
      split
      · exact raises_panic _ _ (.inl rfl)
      · rename_i h0
        refine raises_bind _ (raises_idx_lt _ (pos_of_ne h0)) (fun c00 _ => ?_)
        split
        · exact raises_panic _ _ (.inl rfl)
        · rename_i h00
          refine raises_bind _ (raises_idx_lt _ (pos_of_ne h00)) (fun c000 _ => ?_)
          split
          · exact raises_bind _ (raises_alloc _ _) (fun _ _ =>
              raises_bind _ (raises_mapC _ _ raises_rings _) (fun _ _ => raises_pure _ _))
          · exact raises_panic _ _ (.inl rfl)
  · exact raises_panic _ _ (.inr ⟨_, rfl⟩)

end GeomV.C07
