import GeomV.C07.JsonText
import GeomV.C05.Proofs
/-! Helper lemmas for C07. -/
set_option linter.unusedSimpArgs false
set_option linter.unusedVariables false
namespace GeomV.C07
open GeomV GeomV.C05

/-! ### the linear-time primitives are the C05 primitives -/

theorem takeF_eq (k : Nat) (bs : Bytes) :
    takeF k bs = if bs.length < k then none else some (bs.take k, bs.drop k) := by
  induction k generalizing bs with
  | zero => simp [takeF]
  | succ k ih =>
    cases bs with
    | nil => simp [takeF]
    | cons b bs =>
      simp only [takeF, ih bs, List.length_cons, Nat.add_lt_add_iff_right, List.take_succ_cons, List.drop_succ_cons]
      split <;> simp_all

theorem takeNF_eq (k : Nat) (bs : Bytes) : takeNF k bs = takeN k bs := by
  simp only [takeNF, takeN, takeF_eq]
  split <;> simp_all

theorem readNatF_eq (bo : BO) (k : Nat) (bs : Bytes) : readNatF bo k bs = readNat bo k bs := by
  simp [readNatF, readNat, takeNF_eq]

theorem readU32F_eq (bo : BO) (bs : Bytes) : readU32F bo bs = readU32 bo bs := by
  simp [readU32F, readU32, readNatF_eq]

theorem readU64F_eq (bo : BO) (bs : Bytes) : readU64F bo bs = readU64 bo bs := by
  simp [readU64F, readU64, readNatF_eq]

theorem readPointF_eq (bo : BO) : readPointF bo = readPoint bo := by
  funext bs
  simp [readPointF, readPoint, readU64F_eq]


/-! ### how much input the primitives consume -/

theorem takeN_ok {k : Nat} {bs h t : Bytes} (e : takeN k bs = .ok (h, t)) :
    h.length = k ∧ t.length + k = bs.length := by
  simp only [takeN] at e
  split at e
  · cases e
  · cases e
    simp [List.length_take, List.length_drop]; omega

theorem takeN_err {k : Nat} {bs : Bytes} {x : Err} (e : takeN k bs = .error x) : x = .eof := by
  simp only [takeN] at e
  split at e
  · cases e; rfl
  · cases e

theorem leVal_lt (bs : Bytes) : leVal bs < 256 ^ bs.length := by
  induction bs with
  | nil => simp [leVal]
  | cons b bs ih =>
    have := b.toNat_lt
    simp only [leVal, List.length_cons, Nat.pow_succ]
    omega

theorem valBytes_lt (bo : BO) (bs : Bytes) : valBytes bo bs < 256 ^ bs.length := by
  cases bo
  · simpa [valBytes] using leVal_lt bs.reverse
  · simpa [valBytes] using leVal_lt bs

theorem readNat_ok {bo : BO} {k n : Nat} {bs t : Bytes} (e : readNat bo k bs = .ok (n, t)) :
    n < 256 ^ k ∧ t.length + k = bs.length := by
  simp only [readNat, bind, Except.bind] at e
  cases h : takeN k bs with
  | error x => rw [h] at e; cases e
  | ok r =>
    obtain ⟨hd, tl⟩ := r
    rw [h] at e
    simp only [pure, Except.pure] at e
    cases e
    have := takeN_ok h
    have := valBytes_lt bo hd
    simp_all

theorem readNat_err {bo : BO} {k : Nat} {bs : Bytes} {x : Err} (e : readNat bo k bs = .error x) : x = .eof := by
  simp only [readNat, bind, Except.bind] at e
  cases h : takeN k bs with
  | error y => rw [h] at e; cases e; exact takeN_err h
  | ok r => rw [h] at e; cases e

theorem readU32_ok {bo : BO} {n : Nat} {bs t : Bytes} (e : readU32 bo bs = .ok (n, t)) :
    n < 2 ^ 32 ∧ t.length + 4 = bs.length := by
  have := readNat_ok e
  simpa using this

theorem readU32_err {bo : BO} {bs : Bytes} {x : Err} (e : readU32 bo bs = .error x) : x = .eof :=
  readNat_err e

theorem readU64_ok {bo : BO} {u : UInt64} {bs t : Bytes} (e : readU64 bo bs = .ok (u, t)) :
    t.length + 8 = bs.length := by
  simp only [readU64, bind, Except.bind] at e
  cases h : readNat bo 8 bs with
  | error y => rw [h] at e; cases e
  | ok r =>
    obtain ⟨n, tl⟩ := r
    rw [h] at e; simp only [pure, Except.pure] at e; cases e
    exact (readNat_ok h).2

theorem readU64_err {bo : BO} {bs : Bytes} {x : Err} (e : readU64 bo bs = .error x) : x = .eof := by
  simp only [readU64, bind, Except.bind] at e
  cases h : readNat bo 8 bs with
  | error y => rw [h] at e; cases e; exact readNat_err h
  | ok r => rw [h] at e; cases e

theorem readPoint_ok {bo : BO} {p : Pt UInt64} {bs t : Bytes} (e : readPoint bo bs = .ok (p, t)) :
    t.length + 16 = bs.length := by
  simp only [readPoint, bind, Except.bind] at e
  cases h1 : readU64 bo bs with
  | error y => rw [h1] at e; cases e
  | ok r1 =>
    obtain ⟨x, b1⟩ := r1
    rw [h1] at e; simp only at e
    cases h2 : readU64 bo b1 with
    | error y => rw [h2] at e; cases e
    | ok r2 =>
      obtain ⟨y, b2⟩ := r2
      rw [h2] at e; simp only [pure, Except.pure] at e; cases e
      have := readU64_ok h1; have := readU64_ok h2; omega

theorem readPoint_err {bo : BO} {bs : Bytes} {x : Err} (e : readPoint bo bs = .error x) : x = .eof := by
  simp only [readPoint, bind, Except.bind] at e
  cases h1 : readU64 bo bs with
  | error y => rw [h1] at e; cases e; exact readU64_err h1
  | ok r1 =>
    obtain ⟨x, b1⟩ := r1
    rw [h1] at e; simp only at e
    cases h2 : readU64 bo b1 with
    | error y => rw [h2] at e; cases e; exact readU64_err h2
    | ok r2 => rw [h2] at e; cases e

/-- generic facts about a count-prefixed loop -/
theorem readMany_ok {β : Type} {rd : Bytes → Except Err (β × Bytes)} {m : Nat} (P : β → Prop)
    (hrd : ∀ bs a t, rd bs = .ok (a, t) → t.length + m ≤ bs.length ∧ P a) :
    ∀ (n : Nat) (bs : Bytes) (xs : List β) (t : Bytes), readMany rd n bs = .ok (xs, t) →
      xs.length = n ∧ t.length + m * n ≤ bs.length ∧ ∀ x ∈ xs, P x := by
  intro n
  induction n with
  | zero => intro bs xs t e; simp [readMany] at e; obtain ⟨rfl, rfl⟩ := e; simp
  | succ n ih =>
    intro bs xs t e
    simp only [readMany, bind, Except.bind] at e
    cases h1 : rd bs with
    | error y => rw [h1] at e; cases e
    | ok r1 =>
      obtain ⟨a, b1⟩ := r1
      rw [h1] at e; simp only at e
      cases h2 : readMany rd n b1 with
      | error y => rw [h2] at e; cases e
      | ok r2 =>
        obtain ⟨as, b2⟩ := r2
        rw [h2] at e; simp only [pure, Except.pure] at e; cases e
        obtain ⟨l1, l2⟩ := hrd _ _ _ h1
        obtain ⟨i1, i2, i3⟩ := ih _ _ _ h2
        refine ⟨by simp [i1], ?_, ?_⟩
        · rw [Nat.mul_succ]; omega
        · intro x hx
          simp only [List.mem_cons] at hx
          rcases hx with rfl | hx
          · exact l2
          · exact i3 x hx

/-- a loop fails only with an error one of its iterations failed with -/
theorem readMany_err {β : Type} {rd : Bytes → Except Err (β × Bytes)} (Q : Err → Prop) (L : Nat)
    (hle : ∀ bs a t, rd bs = .ok (a, t) → t.length ≤ bs.length)
    (herr : ∀ bs x, bs.length ≤ L → rd bs = .error x → Q x) :
    ∀ (n : Nat) (bs : Bytes) (x : Err), bs.length ≤ L → readMany rd n bs = .error x → Q x := by
  intro n
  induction n with
  | zero => intro bs x _ e; simp [readMany] at e
  | succ n ih =>
    intro bs x hl e
    simp only [readMany, bind, Except.bind] at e
    cases h1 : rd bs with
    | error y => rw [h1] at e; cases e; exact herr _ _ hl h1
    | ok r1 =>
      obtain ⟨a, b1⟩ := r1
      rw [h1] at e; simp only at e
      cases h2 : readMany rd n b1 with
      | error y =>
        rw [h2] at e; cases e
        exact ih _ _ (Nat.le_trans (hle _ _ _ h1) hl) h2
      | ok r2 => rw [h2] at e; cases e

theorem readPoints_ok {bo : BO} {ps : List (Pt UInt64)} {bs t : Bytes} (e : readPoints bo bs = .ok (ps, t)) :
    ps.length < 2 ^ 32 ∧ t.length + 4 + 16 * ps.length ≤ bs.length := by
  simp only [readPoints, bind, Except.bind] at e
  cases h1 : readU32 bo bs with
  | error y => rw [h1] at e; cases e
  | ok r1 =>
    obtain ⟨n, b1⟩ := r1
    rw [h1] at e; simp only at e
    obtain ⟨hn, hl⟩ := readU32_ok h1
    obtain ⟨i1, i2, _⟩ := readMany_ok (m := 16) (fun _ => True)
      (fun bs a t h => ⟨by have := readPoint_ok h; omega, trivial⟩) n b1 ps t e
    subst i1
    exact ⟨hn, by omega⟩

theorem readPoints_err {bo : BO} {bs : Bytes} {x : Err} (e : readPoints bo bs = .error x) : x = .eof := by
  simp only [readPoints, bind, Except.bind] at e
  cases h1 : readU32 bo bs with
  | error y => rw [h1] at e; cases e; exact readU32_err h1
  | ok r1 =>
    obtain ⟨n, b1⟩ := r1
    rw [h1] at e; simp only at e
    exact readMany_err (fun x => x = .eof) b1.length
      (fun bs a t h => by have := readPoint_ok h; omega)
      (fun bs x _ h => readPoint_err h) n b1 x (Nat.le_refl _) e

end GeomV.C07
