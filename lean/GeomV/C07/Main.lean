import GeomV.C07.Spec
import GeomV.C07.JsonText
import GeomV.C07.ModelIO
import GeomV.C07.JsonCost
import GeomV.C07.ModelStream
/-!
Driver for C07.  `geomv_c07 judge` reads `<input> => <what the implementation did>` lines and prints
one verdict per line:
  OK <class>            implementation total, within the allocation bound, re-encode stable, and equal to the model
  SPEC <class> <why>    the implementation's behaviour violates the specification (Spec.lean)
  DIFF <class> <why>    the implementation differs from the model (result, error class or cost envelope)
`geomv_c07 cost` prints `<kind> <input size> <measured alloc> <model cost>` (calibration aid).
-/
namespace GeomV.C07
open GeomV GeomV.C05 GeomV.C07.Spec

structure Obs where
  status : Status
  cls : String := ""
  alloc : Nat := 0
  stack : Nat := 0
  geom : Option BGeom := none
  res : List Re := []

def splitBar (t : Tok) : List Tok :=
  let rec go : Tok → Tok → List Tok → List Tok
    | [], cur, acc => (cur.reverse :: acc).reverse
    | x :: xs, cur, acc => if x = "|" then go xs [] (cur.reverse :: acc) else go xs (x :: cur) acc
  go t [] []

def natAfter (pfx : String) (t : Tok) : Nat :=
  match t.find? (·.startsWith pfx) with
  | some s => ((s.drop pfx.length).toString.toNat?).getD 0
  | none => 0

def parseRe (t : Tok) : Option Re :=
  match t with
  | "ok" :: g => (Proto.pGeom 100000 g).map fun (g, _) => .same g
  | ["encerr"] => some .encErr
  | [e] => if e.startsWith "err:" then some .decErr else none
  | _ => none

def parseObs (rhs : Tok) : Option Obs :=
  match rhs with
  | [] => none
  | t0 :: rest =>
    let a := natAfter "A=" rest
    let s := natAfter "S=" rest
    if t0 = "oom" then some { status := .oom }
    else if t0 = "timeout" then some { status := .timeout }
    else if t0.startsWith "crash" then some { status := .crash, cls := t0 }
    else if t0 = "nilnil" then some { status := .neither, alloc := a, stack := s }
    else if t0.startsWith "both:" then some { status := .both, cls := (t0.drop 5).toString, alloc := a, stack := s }
    else if t0.startsWith "panic:" then some { status := .panic, cls := (t0.drop 6).toString, alloc := a, stack := s }
    else if t0.startsWith "err:" then some { status := .err, cls := (t0.drop 4).toString, alloc := a, stack := s }
    else if t0 = "ok" then
      match splitBar rest with
      -- the worker does not transport the result of a call that allocated more than 16 MiB (more
      -- than the Spec allows for ANY input of at most 64 KiB); the allocation clause decides
      | [_, ["big"]] => some { status := .ok, alloc := a, stack := s }
      | _ :: g :: res =>
        match Proto.pGeom 100000 g, res.mapM parseRe with
        | some (g, _), some rs => some { status := .ok, alloc := a, stack := s, geom := some g, res := rs }
        | _, _ => none
      | _ => none
    else none

def geomClass : BGeom → String
  | .point _ => "point" | .multiPoint _ => "multipoint" | .lineString _ => "linestring"
  | .multiLineString _ => "multilinestring" | .polygon _ => "polygon" | .multiPolygon _ => "multipolygon"
  | .collection _ => "collection" | .bounds _ _ => "bounds" | .nil => "nil"

def errName : Err → String
  | .eof => "eof" | .badOrder => "order" | .badType => "type" | .unexpected => "unexpected"
  | .unsupported => "unsupported" | .fuel => "fuel"

def jerrName : JErr → String
  | .json => "json" | .invalid => "invalid" | .unsupported => "unsupported" | .runtime => "runtime"

/-- model prediction: error class or geometry, and cost -/
structure Pred where
  cls : String            -- "ok" or the error class, "panic" if the model says the call panics
  geom : Option BGeom := none
  cost : Nat := 0

def predWkb (bs : Bytes) : Pred :=
  let r := decodeC fixed bs
  match r.res with
  | .ok g => { cls := "ok", geom := some g, cost := r.cost }
  | .error e => { cls := errName e, cost := r.cost }

/-- class of an `encoding/hex` error as the harness prints it: `hexlen` / `hexbyte:<the byte, two hex digits>` -/
def hexErrName : HexErr → String
  | .length => "hexlen"
  | .invalidByte c => "hexbyte:" ++ String.ofList [hexDigitChar (c.toNat / 16 % 16), hexDigitChar (c.toNat % 16)]

def predHex (s : List Char) : Pred :=
  let r := hexDecodeFullC fixed s
  match r.res with
  | .ok g => { cls := "ok", geom := some g, cost := r.cost }
  | .error (.hex e) => { cls := hexErrName e, cost := r.cost }
  | .error (.wkb e) => { cls := errName e, cost := r.cost }

/-- `wkb.Read` on a scripted reader: `delivered` in pieces, then a sticky error -/
def predStream (bs : Bytes) (e : REnd) : Pred :=
  let r := streamDecodeC fixed bs e
  match r.res with
  | .ok g => { cls := "ok", geom := some g, cost := r.cost }
  | .error .reader => { cls := "reader", cost := r.cost }
  | .error (.wkb e) => { cls := errName e, cost := r.cost }

/-- `wkb.Read` on a scripted reader whose errors need not be sticky (`wkbn` lines): the program
`readP` on the script, `io.ReadFull` modelled literally; EOF and ErrUnexpectedEOF are told apart -/
def predAny (s : List Ev) (fin : RErr) : Pred :=
  let r := streamAnyC fixed s fin
  match r.res with
  | .ok g => { cls := "ok", geom := some g, cost := r.cost }
  | .error (.reader .custom) => { cls := "reader", cost := r.cost }
  | .error (.reader .eof) => { cls := "eof", cost := r.cost }
  | .error (.reader .unexpectedEOF) => { cls := "ueof", cost := r.cost }
  | .error (.wkb e) => { cls := errName e, cost := r.cost }

def rerrOf (c : Char) : Option RErr :=
  if c = 'c' ∨ c = 'C' then some .custom else if c = 'e' ∨ c = 'E' then some .eof
  else if c = 'u' ∨ c = 'U' then some .unexpectedEOF else none

def parseEv (t : String) : Option Ev :=
  match t.toList with
  | k :: _ => (hexToBytes (t.drop 1).toString).map fun bs => ⟨bs, rerrOf k⟩
  | [] => none

def predJ (r : CM Fault BGeom) : Pred :=
  match r.res with
  | .ok g => { cls := "ok", geom := some g, cost := r.cost }
  | .error (.err e) => { cls := jerrName e, cost := r.cost }
  | .error (.panic _) => { cls := "panic", cost := r.cost }

/-! goval tokens -/
def hexStrTok (t : String) : Option String :=
  if t = "-" then some "" else (hexToBytes t).map fun bs => String.ofList (bs.map fun b => Char.ofNat b.toNat)

mutual
def pGoVal : Nat → Tok → Option (GoVal × Tok)
  | 0, _ => none
  | f+1, tag :: t =>
    match tag with
    | "n" => some (.nil, t)
    | "f" => match t with | x :: t => (parseU64 x).map fun u => (.num u, t) | _ => none
    | "a" => match t with
      | k :: t => do let n ← k.toNat?; let (xs, t) ← pGoVals f n t; pure (.arr xs, t)
      | _ => none
    | "s" => match t with | x :: t => (hexStrTok x).map fun s => (.str s, t) | _ => none
    | "t" => some (.bool true, t)
    | "u" => some (.bool false, t)
    | "i" => match t with | x :: t => some (.other ("int " ++ x), t) | _ => none
    | "o" => match t with
      | k :: t => do let n ← k.toNat?; let (ks, vs, t) ← pGoKVs f n t; pure (.obj ks vs, t)
      | _ => none
    | "F1" => match t with
      | k :: t => do let n ← k.toNat?; pure (.other "[]float64", t.drop n)
      | _ => none
    | "F2" => match t with
      | k :: t => do let n ← k.toNat?; let t ← skipF1s n t; pure (.other "[][]float64", t)
      | _ => none
    | "PT" => some (.other "geom.Point", t.drop 2)
    | "jn" => some (.other "json.Number", t.drop 1)
    | "ref" => match t with | k :: t => some (.other ("ref:" ++ k), t) | _ => none
    | _ => none
  | _+1, [] => none
def pGoVals : Nat → Nat → Tok → Option (List GoVal × Tok)
  | 0, _, _ => none
  | _+1, 0, t => some ([], t)
  | f+1, n+1, t => do
    let (v, t) ← pGoVal f t
    let (vs, t) ← pGoVals f n t
    pure (v :: vs, t)
def pGoKVs : Nat → Nat → Tok → Option (List String × List GoVal × Tok)
  | 0, _, _ => none
  | _+1, 0, t => some ([], [], t)
  | f+1, n+1, k :: t => do
    let key ← hexStrTok k
    let (v, t) ← pGoVal f t
    let (ks, vs, t) ← pGoKVs f n t
    pure (key :: ks, v :: vs, t)
  | _+1, _+1, [] => none
def skipF1s : Nat → Tok → Option Tok
  | 0, t => some t
  | n+1, k :: t => do let m ← k.toNat?; skipF1s n (t.drop m)
  | _+1, [] => none
end

/-! Cyclic values. A hand-built `[]interface{}` can contain itself (`x[0] = x`); `GoVal` is a finite
tree type, so a cyclic value is represented by its UNFOLDING: `ref k` (the k-th enclosing array) is
replaced by a copy of that array, repeatedly, to a depth at which the decoder cannot tell the
difference — `decodeCoordinates4` inspects at most four levels of arrays plus the kind of the
elements at the fifth; below the unfolding budget everything is `other`. The budget is 12 because a
`ref` step consumes one unit as well (≥ 6 real levels). The unpatched decoder must return on the
cyclic value exactly what the model returns on this unfolding. -/
mutual
def unfold : Nat → List GoVal → GoVal → GoVal
  | 0, _, _ => .other "deep"
  | d+1, st, .arr xs => .arr (unfoldL d (.arr xs :: st) xs)
  | d+1, st, .obj ks vs => .obj ks (unfoldL d st vs)
  | d+1, st, .other s =>
    if s.startsWith "ref:" then
      match (s.drop 4).toString.toNat? with
      | some k => match st.drop k with
        | a :: rest => unfold d rest a
        | [] => .nil
      | none => .nil
    else .other s
  | _+1, _, v => v
def unfoldL : Nat → List GoVal → List GoVal → List GoVal
  | 0, _, _ => []
  | d+1, st, v :: vs => unfold d st v :: unfoldL (d+1) st vs
  | _+1, _, [] => []
end

mutual
/-- the caller's value holds a NaN/±Inf float64 leaf -/
def hasNonFinite : GoVal → Bool
  | .num b => !Spec.finite b
  | .arr xs => hasNonFiniteL xs
  | .obj _ vs => hasNonFiniteL vs
  | _ => false
def hasNonFiniteL : List GoVal → Bool
  | [] => false
  | v :: vs => hasNonFinite v || hasNonFiniteL vs
end

structure Case where
  kind : String
  family : Family
  size : Nat
  pred : Pred
  nonFiniteInput : Bool := false
  /-- JSON text: the node-granular allocation model `jsonAllocModel` (an upper bound) -/
  upper : Option Nat := none

def parseCase (lhs : Tok) : Option Case :=
  match lhs with
  | ["wkb", h] => (hexToBytes (h.drop 1).toString).map fun bs => ⟨"wkb", .wkb, bs.length, predWkb bs, false, none⟩
  | ["wkbr", _, h] => (hexToBytes (h.drop 1).toString).map fun bs => ⟨"wkbr", .wkb, bs.length, predWkb bs, false, none⟩
  | ["wkbs", m, _, h] => (hexToBytes (h.drop 1).toString).map fun bs =>
      ⟨"wkbs", .wkb, bs.length, predStream bs (if m.startsWith "C" || m.startsWith "X" then .custom else .eof), false, none⟩
  | "wkbn" :: f :: evs =>
    match evs.mapM parseEv, f.toList.head?.bind rerrOf with
    | some s, some fin => some ⟨"wkbn", .wkb, (dataOf s).length, predAny s fin, false, none⟩
    | _, _ => none
  | ["hex", h] => (hexToBytes (h.drop 1).toString).map fun bs =>
      ⟨"hex", .hex, bs.length, predHex (bs.map fun b => Char.ofNat b.toNat), false, none⟩
  | ["json", h] => (hexToBytes (h.drop 1).toString).map fun bs => ⟨"json", .json, bs.length, predJ (decodeJSON bs), false, some (jsonAllocModel bs)⟩
  | ["gj", "NILPTR"] => some ⟨"gj", .value, 1, predJ (fromGeoJSON none), false, none⟩
  | "gj" :: t :: v =>
    match hexStrTok (t.drop 1).toString, pGoVal 100000 v with
    | some typ, some (raw, _) =>
      let c := unfold 12 [] raw
      some ⟨"gj", .value, c.size, predJ (fromGeoJSON (some (typ, c))), hasNonFinite c, none⟩
    | _, _ => none
  | _ => none

/-- envelope tying the measured allocation to the model's cost: everything the model counts is
really requested (lower bound), and what the runtime/stdlib add on top (append growth, binary.Read's
scratch buffer, boxing of members, the JSON tree) is a bounded multiple of cost and input size. -/
def costEnvelope (f : Family) (size cost measured : Nat) : Bool :=
  match f with
  | .json => cost ≤ measured
  | .value => cost ≤ measured ∧ measured ≤ 2 * cost + 16 * size + 4096
  | _ => cost ≤ measured ∧ measured ≤ 8 * cost + 16 * size + 8192

/-- JSON text: the measured allocation never exceeds the node-granular model (`JsonCost.lean`), and the
model is not vacuous: it stays within `6·measured + 16·len + 4096`.  Stated slack of the upper side:
16 KiB, because `TotalAlloc` is process-wide — the worker's heap watchdog (`metrics.Read` every 5 ms) and
the collector's workers are charged to whatever call is running (9 KiB observed once on a 38-byte text,
296 bytes on every repetition). -/
def jsonSlack : Nat := 16384
def jsonEnvelope (size upper measured : Nat) : Bool :=
  measured ≤ upper + jsonSlack ∧ upper ≤ 6 * measured + 16 * size + 4096

/-! batch lines: `batch <fam> x.. x.. => batch || m i <status> [| geom | tag k.. c.. late]...` -/

def splitOn2 (t : Tok) (sep : String) : List Tok :=
  let rec go : Tok → Tok → List Tok → List Tok
    | [], cur, acc => (cur.reverse :: acc).reverse
    | x :: xs, cur, acc => if x = sep then go xs [] (cur.reverse :: acc) else go xs (x :: cur) acc
  go t [] []

def predOf (fam : String) (bs : Bytes) : Pred :=
  if fam = "wkb" then predWkb bs
  else if fam = "hex" then predHex (bs.map fun b => Char.ofNat b.toNat)
  else predJ (decodeJSON bs)

/-- one kept encoding: `tag encerr` or `tag k<hex> c<hex> <late decode>` -/
def judgeEnc (g : BGeom) (t : Tok) : Option String :=
  match t with
  | [_, "encerr"] => some "reencode-unstable encoder-error"
  | _ :: k :: c :: late =>
    match hexToBytes (k.drop 1).toString, hexToBytes (c.drop 1).toString with
    | some kb, some cb =>
      if !keptIntact kb cb then some "encode-result-aliased kept-bytes-changed-after-later-encode-calls"
      else match parseRe late with
        | some r => if reStableLate g r then none else some "reencode-unstable-late"
        | none => if (late.headD "").startsWith "panic:" then some "not-total:panic-in-late-decode" else some "reencode-unstable-late unparsable"
    | _, _ => some "reencode-unstable-late unparsable-hex"
  | _ => some "reencode-unstable-late unparsable"

def judgeMember (fam : String) (inp : String) (seg : Tok) : Option (String × String) :=   -- (kind, why)
  match hexToBytes (inp.drop 1).toString with
  | none => some ("DIFF", "unparsable-input")
  | some bs =>
    let p := predOf fam bs
    match splitBar seg with
    | ("m" :: _ :: st :: _) :: rest =>
      if st.startsWith "panic:" then some ("SPEC", "not-total:panic " ++ st)
      else if st = "nilnil" then some ("SPEC", "not-total:nil-nil")
      else if st.startsWith "err:" then
        if p.cls == (st.drop 4).toString then none else some ("DIFF", s!"model={p.cls} impl={st}")
      else if st = "ok" then
        match rest with
        | gt :: encs =>
          match Proto.pGeom 100000 gt with
          | some (g, _) =>
            match encs.filterMap (judgeEnc g) with
            | why :: _ => some ("SPEC", why)
            | [] =>
              if encs.isEmpty then some ("SPEC", "reencode-unstable no-encoding")
              else match p.geom with
                | some mg => if Geom.beq g mg then none else some ("DIFF", "decoded-geometry-differs-from-model")
                | none => some ("DIFF", s!"model={p.cls} impl=ok")
          | none => some ("DIFF", "unparsable-geometry")
        | [] => some ("DIFF", "unparsable-member")
      else some ("DIFF", "unparsable-status " ++ st)
    | _ => some ("DIFF", "unparsable-member")

def judgeBatch (lhs rhs : Tok) : String :=
  match lhs with
  | _ :: fam :: inputs =>
    let cls := "batch-" ++ fam
    match rhs with
    | "batch" :: rest =>
      let segs := (splitOn2 rest "||").drop 1
      if segs.length != inputs.length then s!"SPEC {cls} not-total:members-missing {segs.length}/{inputs.length}"
      else
        let vs := (inputs.zip segs).filterMap fun (i, s) => judgeMember fam i s
        match vs.find? (·.1 == "SPEC") with
        | some (_, why) => s!"SPEC {cls} {why}"
        | none => match vs with
          | (k, why) :: _ => s!"{k} {cls} {why}"
          | [] => s!"OK {cls}"
    | t0 :: _ =>
      if t0 = "oom" ∨ t0 = "timeout" ∨ t0.startsWith "crash" then s!"SPEC {cls} not-total:{t0}"
      else s!"DIFF {cls} unparsable-result"
    | [] => s!"DIFF {cls} empty-result"
  | _ => "DIFF bad-line unparsable-batch"

/-! history lines: `hist <fam> <reps> x.. x.. => hist || m i <status> A=<max> F=<first> K=<call> n=<calls> same|changed:<st> [| geom]`
(state carried across calls: ~10 000 calls in one process on one line, the allocation clause judged
for EVERY call — `A` is the largest allocation any call on that member made) -/

def famOf (fam : String) : Family := if fam = "hex" then .hex else if fam = "json" then .json else .wkb

def judgeHistMember (fam : String) (inp : String) (seg : Tok) : Option (String × String) :=
  match hexToBytes (inp.drop 1).toString with
  | none => some ("DIFF", "unparsable-input")
  | some bs =>
    match splitBar seg with
    | ("m" :: _ :: st :: meas) :: rest =>
      let calls := natAfter "n=" meas
      if calls = 0 then none else        -- the history was stopped before this member's first call
      let a := natAfter "A=" meas
      let changed := (meas.find? (·.startsWith "changed:")).map fun s => (s.drop 8).toString
      let bad (s : String) : Bool := !(s = "ok" || s.startsWith "err:")
      if bad st then some ("SPEC", s!"not-total:{st} size={bs.length}")
      else if (match changed with | some c => bad c | none => false) then
        some ("SPEC", s!"not-total:{changed.getD ""} in-a-later-call-of-the-history size={bs.length}")
      else if !allocOK (famOf fam) bs.length a then
        some ("SPEC", s!"allocation {a} exceeds bound {allocBound (famOf fam) bs.length} for input size {bs.length} in call {natAfter "K=" meas} of the history (first call on this input: {natAfter "F=" meas})")
      else
        let p := predOf fam bs
        if changed.isSome then some ("DIFF", s!"result-changed-across-calls first={st} later={changed.getD ""}")
        else if st.startsWith "err:" then
          if p.cls == (st.drop 4).toString then none else some ("DIFF", s!"model={p.cls} impl={st}")
        else match rest with
          | gt :: _ =>
            match Proto.pGeom 100000 gt with
            | some (g, _) =>
              let wf := if fam = "json" then wellFormedJson g else wellFormed g
              if !wf then some ("SPEC", "result-not-well-formed")
              else match p.geom with
                | some mg => if Geom.beq g mg then none else some ("DIFF", "decoded-geometry-differs-from-model")
                | none => some ("DIFF", s!"model={p.cls} impl=ok")
            | none => some ("DIFF", "unparsable-geometry")
          | [] => some ("DIFF", "unparsable-member")
    | _ => some ("DIFF", "unparsable-member")

def judgeHist (lhs rhs : Tok) : String :=
  match lhs with
  | _ :: fam :: _ :: inputs =>
    let cls := "hist-" ++ fam
    match rhs with
    | "hist" :: rest =>
      let segs := (splitOn2 rest "||").drop 1
      if segs.length != inputs.length then s!"SPEC {cls} not-total:members-missing {segs.length}/{inputs.length}"
      else
        let vs := (inputs.zip segs).filterMap fun (i, s) => judgeHistMember fam i s
        match vs.find? (·.1 == "SPEC") with
        | some (_, why) => s!"SPEC {cls} {why}"
        | none => match vs with
          | (k, why) :: _ => s!"{k} {cls} {why}"
          | [] => s!"OK {cls}"
    | t0 :: _ =>
      if t0 = "oom" ∨ t0 = "timeout" ∨ t0.startsWith "crash" then s!"SPEC {cls} not-total:{t0} somewhere-in-the-history"
      else s!"DIFF {cls} unparsable-result"
    | [] => s!"DIFF {cls} empty-result"
  | _ => "DIFF bad-line unparsable-hist"

def statusName : Status → String
  | .ok => "ok" | .err => "err" | .both => "geometry-and-error" | .neither => "nil-nil" | .panic => "panic"
  | .oom => "out-of-memory" | .crash => "crash" | .timeout => "timeout"

def judgeLine (line : String) : String :=
  let (lhs, rhs) := splitArrow (tokens line)
  -- not run: the supervisor stops after 25 worker deaths (each of them a SPEC verdict above this line)
  if rhs == ["skipped"] then "OK skipped" else
  if lhs.head? == some "batch" then judgeBatch lhs rhs else
  if lhs.head? == some "hist" then judgeHist lhs rhs else
  -- the supervisor ran a failing line again, ALONE in a fresh process, and there it did not fail: the
  -- failure belongs to the history, not to this input (the self-contained failing inputs are the `hist` lines)
  if (rhs.headD "").startsWith "statedep:" then
    s!"DIFF {lhs.headD "?"}-statedep result-depends-on-earlier-calls after-history={((rhs.headD "").drop 9).toString} alone={(rhs.drop 1).headD ""}" else
  match parseCase lhs, parseObs rhs with
  | none, _ => "DIFF bad-line unparsable-input"
  | some c, none => s!"DIFF {c.kind}-bad-result unparsable-result {" ".intercalate (rhs.take 3)}"
  | some c, some o =>
    let p := c.pred
    let cls := c.kind ++ "-" ++ (match p.geom with | some g => "ok-" ++ geomClass g | none => (p.cls.takeWhile (· != ':')).toString)
    -- 1. the specification, on what the implementation did
    if !total o.status then s!"SPEC {cls} not-total:{statusName o.status} {o.cls} size={c.size}"
    else if !allocOK c.family c.size o.alloc then
      s!"SPEC {cls} allocation {o.alloc} exceeds bound {allocBound c.family c.size} for input size {c.size}"
    else if !stackOK c.size o.stack then
      s!"SPEC {cls} stack growth {o.stack} exceeds bound {stackBound c.size} for input size {c.size}"
    else
      let specGeom : Option String := match o.geom with
        | none => none
        | some g =>
          let wf := if c.family == .json || c.family == .value then wellFormedJson g else wellFormed g
          if !wf then some "result-not-well-formed"
          else if c.family == .value then
            (if o.res.all (reStableValue c.nonFiniteInput g) && !o.res.isEmpty then none
             else some (if jsonEncodable g then "reencode-unstable" else "reencode-unstable result-has-non-finite-coordinate-not-present-in-the-input"))
          else if o.res.all (reStable g) && !o.res.isEmpty then none else some "reencode-unstable"
      match specGeom with
      | some why => s!"SPEC {cls} {why}"
      | none =>
        -- 2. the model
        let implCls := if o.status == .ok then "ok" else o.cls
        if implCls != p.cls then s!"DIFF {cls} model={p.cls} impl={implCls}"
        else if (match o.geom, p.geom with | some a, some b => !Geom.beq a b | none, none => false | _, _ => true) then
          s!"DIFF {cls} decoded-geometry-differs-from-model"
        else if !costEnvelope c.family c.size p.cost o.alloc then
          s!"DIFF {cls} cost-envelope model-cost={p.cost} measured={o.alloc} size={c.size}"
        else if (c.family == .wkb || c.family == .hex) && !(o.stack ≤ stackModel c.size + 1048576) then
          -- the measured frame size: `frameBytes` per nesting level, at most size/9 + 1 levels (C07_wkb_stack_frames)
          s!"DIFF {cls} stack-envelope measured={o.stack} model={stackModel c.size} size={c.size}"
        else if (match c.upper with | some u => !jsonEnvelope c.size u o.alloc | none => false) then
          s!"DIFF {cls} json-cost measured={o.alloc} node-model={c.upper.getD 0} size={c.size}"
        else s!"OK {cls}"

def costLine (line : String) : String :=
  let (lhs, rhs) := splitArrow (tokens line)
  match parseCase lhs, parseObs rhs with
  | some c, some o => s!"{c.kind} {c.size} {o.alloc} {c.pred.cost} {c.pred.cls} {c.upper.getD 0}"
  | _, _ => "?"

end GeomV.C07

open GeomV GeomV.C07 in
def main (args : List String) : IO Unit := do
  let out ← IO.getStdout
  match args with
  | ["judge"] => forEachLine fun l => out.putStrLn (judgeLine l)
  | ["cost"] => forEachLine fun l => out.putStrLn (costLine l)
  | _ => IO.eprintln "usage: geomv_c07 judge|cost"
