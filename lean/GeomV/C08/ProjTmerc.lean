import GeomV.C08.ProjCommon
/-! # proj/tmerc.go and proj/utm.go -/
namespace GeomV.C08
open RNum RTrans
variable {α : Type} [RTrans α]

structure TmercC (α : Type) where
  sr : SR α
  e0 : α
  e1 : α
  e2 : α
  e3 : α
  ml0 : α

def initTmerc (s : SR α) : Except Err (TmercC α) :=
  let e0 := e0fn s.es
  let e1 := e1fn s.es
  let e2 := e2fn s.es
  let e3 := e3fn s.es
  .ok ⟨s, e0, e1, e2, e3, s.a * mlfn e0 e1 e2 e3 s.lat0⟩

/-- `UTM` overwrites Lat0, Long0, X0, Y0, K0 and then calls `TMerc` -/
def initUtm (s : SR α) : Except Err (TmercC α) :=
  if isNaN s.zone then .error .utmZone else
  let s := { s with lat0 := 0.0, long0 := (6.0 * abs s.zone - 183.0) * deg2rad, x0 := 500000.0,
                    y0 := if s.utmSouth then 10000000.0 else 0.0, k0 := 0.9996 }
  initTmerc s

def fwdTmerc (c : TmercC α) (lon lat : α) : Except Err (α × α) :=
  let s := c.sr
  let delta_lon := adjustLon (lon - s.long0)
  let sin_phi := sin lat
  let cos_phi := cos lat
  if s.sphere then
    let b := cos_phi * sin delta_lon
    if lt (abs (abs b - 1.0)) 0.0000000001 then .error .tmercB else
    let x := 0.5 * s.a * s.k0 * log ((1.0 + b) / (1.0 - b))
    -- after fix a75488e: atan2 instead of acos of the rounded quotient
    let con := atan2 (abs sin_phi) (cos_phi * cos delta_lon)
    let con := if lt lat 0.0 then -con else con
    -- NB: the spherical branch does not add X0/Y0 (as in proj4js)
    .ok (x, s.a * s.k0 * (con - s.lat0))
  else
    let al := cos_phi * delta_lon
    let als := pow al 2.0
    let cc := s.ep2 * pow cos_phi 2.0
    let tq := tan lat
    let t := pow tq 2.0
    let con := 1.0 - s.es * pow sin_phi 2.0
    let n := s.a / sqrt con
    let ml := s.a * mlfn c.e0 c.e1 c.e2 c.e3 lat
    .ok (s.k0 * n * al * (1.0 + als / 6.0 * (1.0 - t + cc + als / 20.0 * (5.0 - 18.0 * t + pow t 2.0 + 72.0 * cc - 58.0 * s.ep2))) + s.x0,
         s.k0 * (ml - c.ml0 + n * tq * (als * (0.5 + als / 24.0 * (5.0 - t + 9.0 * cc + 4.0 * pow cc 2.0 + als / 30.0 * (61.0 - 58.0 * t + pow t 2.0 + 600.0 * cc - 330.0 * s.ep2))))) + s.y0)

/-- the update of the footpoint-latitude iteration of the ellipsoidal inverse -/
def tmercPhiStep (c : TmercC α) (con phi : α) : α :=
  (con + c.e1 * sin (2.0 * phi) - c.e2 * sin (4.0 * phi) + c.e3 * sin (6.0 * phi)) / c.e0 - phi

/-- `for { …; if |dphi| <= epsln break; if i >= max_iter error; i++ }` with `max_iter = 6`:
at most 7 updates, error when the 7th does not meet the test -/
def tmercPhiLoop (c : TmercC α) (con : α) : Nat → α → Except Err α
  | 0, _ => .error .tmercIter
  | n+1, phi =>
    let d := tmercPhiStep c con phi
    let phi := phi + d
    if le (abs d) epsln then .ok phi else tmercPhiLoop c con n phi

def invTmerc (c : TmercC α) (x y : α) : Except Err (α × α) := do
  let s := c.sr
  if s.sphere then
    let f := exp (x / (s.a * s.k0))
    let g := 0.5 * (f - 1.0 / f)
    let temp := s.lat0 + y / (s.a * s.k0)
    let h := cos temp
    let sin_temp := sin temp
    let con := sqrt (sin_temp * sin_temp / (1.0 + g * g))
    let lat := asinz con
    let lat := if lt temp 0.0 then -lat else lat
    let lon := if eq g 0.0 && eq h 0.0 then s.long0 else adjustLon (atan2 g h + s.long0)
    pure (lon, lat)
  else
    let x := x - s.x0
    let y := y - s.y0
    let con := (c.ml0 + y / s.k0) / s.a
    let phi ← tmercPhiLoop c con 7 con
    if lt (abs phi) halfPi then
      let sin_phi := sin phi
      let cos_phi := cos phi
      let tan_phi := tan phi
      let cc := s.ep2 * pow cos_phi 2.0
      let cs := pow cc 2.0
      let t := pow tan_phi 2.0
      let ts := pow t 2.0
      let con := 1.0 - s.es * pow sin_phi 2.0
      let n := s.a / sqrt con
      let r := n * (1.0 - s.es) / con
      let d := x / (n * s.k0)
      let ds := pow d 2.0
      let lat := phi - (n * tan_phi * ds / r) * (0.5 - ds / 24.0 * (5.0 + 3.0 * t + 10.0 * cc - 4.0 * cs - 9.0 * s.ep2 - ds / 30.0 * (61.0 + 90.0 * t + 298.0 * cc + 45.0 * ts - 252.0 * s.ep2 - 3.0 * cs)))
      let lon := adjustLon (s.long0 + (d * (1.0 - ds / 6.0 * (1.0 + 2.0 * t + cc - ds / 20.0 * (5.0 - 2.0 * cc + 28.0 * t - 3.0 * cs + 8.0 * s.ep2 + 24.0 * ts))) / cos_phi))
      pure (lon, lat)
    else
      pure (s.long0, halfPi * sign y)

end GeomV.C08
