/-!
# Go string helpers the pipeline's decisions use: `strings.EqualFold` against an ASCII string, the axis constant `enu`
(core Lean only)
-/
namespace GeomV.C08

/-- one rune of `strings.EqualFold(s, t)` for an ASCII rune `t`: equal, or the other ASCII case, or
the non-ASCII members of `t`'s `unicode.SimpleFold` orbit — the Kelvin sign U+212A for `K`/`k`,
the long s U+017F for `S`/`s` (no other ASCII letter has a third member). -/
def foldEqAscii (c t : Char) : Bool :=
  c == t || (t.isUpper && c == t.toLower) || (t.isLower && c == t.toUpper)
    || ((t == 'K' || t == 'k') && c == Char.ofNat 0x212A)
    || ((t == 'S' || t == 's') && c == Char.ofNat 0x17F)

def equalFoldAscii : List Char → List Char → Bool
  | [], [] => true
  | c :: cs, t :: ts => foldEqAscii c t && equalFoldAscii cs ts
  | _, _ => false

/-- Go `strings.EqualFold(s, t)` for an ASCII `t` (rune by rune under simple case folding; a
different number of runes is `false`) -/
def goEqualFold (s t : String) : Bool := equalFoldAscii s.toList t.toList

/-- `const enu = "enu"` (transform.go) -/
def enu : List Char := ['e', 'n', 'u']

end GeomV.C08
