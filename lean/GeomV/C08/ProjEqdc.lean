import GeomV.C08.ProjCommon
/-! # proj/eqdc.go -/
namespace GeomV.C08
open RNum RTrans
variable {α : Type} [RTrans α]

structure EqdcC (α : Type) where
  sr : SR α
  e0 : α
  e1 : α
  e2 : α
  e3 : α
  ns : α
  g : α
  rh : α

/-- `EqdC` overwrites `this.Es`, `this.E` (and `Lat2` when unset, after the parallels test) -/
def initEqdc (s : SR α) : Except Err (EqdcC α) :=
  if lt (abs (s.lat1 + s.lat2)) epsln then .error .eqdcParallels else
  let s := if isNaN s.lat2 then { s with lat2 := s.lat1 } else s
  let temp := s.b / s.a
  let es := 1.0 - pow temp 2.0
  let s := { s with es := es, e := sqrt es }
  let e0 := e0fn s.es
  let e1 := e1fn s.es
  let e2 := e2fn s.es
  let e3 := e3fn s.es
  let sinphi := sin s.lat1
  let cosphi := cos s.lat1
  let ms1 := msfnz s.e sinphi cosphi
  let ml1 := mlfn e0 e1 e2 e3 s.lat1
  let ns :=
    if lt (abs (s.lat1 - s.lat2)) epsln then sinphi
    else
      let sinphi := sin s.lat2
      let cosphi := cos s.lat2
      let ms2 := msfnz s.e sinphi cosphi
      let ml2 := mlfn e0 e1 e2 e3 s.lat2
      (ms1 - ms2) / (ml2 - ml1)
  let g := ml1 + ms1 / ns
  let ml0 := mlfn e0 e1 e2 e3 s.lat0
  let rh := s.a * (g - ml0)
  .ok ⟨s, e0, e1, e2, e3, ns, g, rh⟩

def fwdEqdc (c : EqdcC α) (lon lat : α) : Except Err (α × α) :=
  let s := c.sr
  let rh1 := if s.sphere then s.a * (c.g - lat) else s.a * (c.g - mlfn c.e0 c.e1 c.e2 c.e3 lat)
  let theta := c.ns * adjustLon (lon - s.long0)
  .ok (s.x0 + rh1 * sin theta, s.y0 + c.rh - rh1 * cos theta)

def invEqdc (c : EqdcC α) (x y : α) : Except Err (α × α) := do
  let s := c.sr
  let x := x - s.x0
  let y := c.rh - y + s.y0
  let (rh1, con) : α × α :=
    if ge c.ns 0.0 then (sqrt (x * x + y * y), 1.0) else (-(sqrt (x * x + y * y)), -1.0)
  let theta : α := if ne rh1 0.0 then atan2 (con * x) (con * y) else 0.0
  if s.sphere then
    pure (adjustLon (s.long0 + theta / c.ns), adjustLat (c.g - rh1 / s.a))
  else
    let ml := c.g - rh1 / s.a
    let lat ← imlfn ml c.e0 c.e1 c.e2 c.e3
    pure (adjustLon (s.long0 + theta / c.ns), lat)

end GeomV.C08
