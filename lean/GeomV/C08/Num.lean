/-!
# Number classes for the real-valued code of package `proj` (DESIGN §4.1)

Every projection is written ONCE, generic over `RTrans α`.  Instances:
* `Float` (below; executable — the correspondence run and the numeric checks),
* `ℝ` (`GeomV/C08/RealInst.lean`, Mathlib; noncomputable — the proofs).

Core Lean only.  Literals in generic code are scientific literals (`2.0`, `0.5`, `1.0e-10`): for
`Float` they are correctly rounded decimal constants (as Go's typed constants are), for `ℝ` they are
the exact rationals (`norm_num` evaluates them).
-/
namespace GeomV.C08

/-- field operations, comparisons to `Bool`, `abs`, NaN test (always `false` over ℝ), literals -/
class RNum (α : Type) extends Add α, Sub α, Mul α, Div α, Neg α, OfScientific α where
  lt : α → α → Bool
  le : α → α → Bool
  eq : α → α → Bool
  abs : α → α
  isNaN : α → Bool
  /-- Go's `math.NaN()`; an arbitrary value over ℝ (never produced on the paths the theorems cover) -/
  nan : α

/-- transcendental functions used by package `proj` -/
class RTrans (α : Type) extends RNum α where
  pi : α
  sqrt : α → α
  sin : α → α
  cos : α → α
  tan : α → α
  asin : α → α
  acos : α → α
  atan : α → α
  atan2 : α → α → α
  exp : α → α
  log : α → α
  pow : α → α → α

instance : RNum Float where
  lt a b := decide (a < b)
  le a b := decide (a ≤ b)
  eq a b := a == b
  abs := Float.abs
  isNaN := Float.isNaN
  nan := 0.0 / 0.0

instance : RTrans Float where
  pi := 3.14159265358979323846264338327950288
  sqrt := Float.sqrt
  sin := Float.sin
  cos := Float.cos
  tan := Float.tan
  asin := Float.asin
  acos := Float.acos
  atan := Float.atan
  atan2 := Float.atan2
  exp := Float.exp
  log := Float.log
  pow := Float.pow

namespace RNum
variable {α : Type} [RNum α]
/-- `a > b` -/
@[inline] def gt (a b : α) : Bool := lt b a
/-- `a >= b` -/
@[inline] def ge (a b : α) : Bool := le b a
/-- `a != b` (IEEE: true when either is NaN) -/
@[inline] def ne (a b : α) : Bool := !(eq a b)
end RNum

end GeomV.C08
