import GeomV.C08.ProofsConic
/-!
# C08 — geodetic ↔ geocentric: the Hannover iteration is stationary at the truth; exact round trip at h = 0
-/
set_option linter.unusedSimpArgs false
namespace GeomV.C08
open Real

/-- **geodetic_fixed**: with `P = (Rn+h) cos φ`, `Z = (Rn(1−es)+h) sin φ` (the geocentric coordinates of
latitude φ, height h), one step of the iteration in `geocentric_to_geodetic` started at
`(cos φ, sin φ)` returns `(cos φ, sin φ)`, the height `h`, and `SDPHI = 0`. -/
theorem C08_geodetic_fixed (d : Datum ℝ) (phi h : ℝ) (ha : 0 < d.a) (hes0 : 0 ≤ d.es) (hes : d.es < 1)
    (hphi : |phi| < π / 2)
    (hN : 0 < d.a / sqrt (1 - d.es * sin phi * sin phi) + h)
    (hM : 0 < d.a / sqrt (1 - d.es * sin phi * sin phi) * (1 - d.es) + h) :
    let rn := d.a / sqrt (1 - d.es * sin phi * sin phi)
    let p := (rn + h) * cos phi
    let z := (rn * (1 - d.es) + h) * sin phi
    let rr := sqrt (p * p + z * z)
    geodeticStep d p z (z / rr) (p / rr) (cos phi) (sin phi) = (cos phi, sin phi, h, 0) := by
  intro rn p z rr
  obtain ⟨h1, h2⟩ := abs_lt.mp hphi
  have hcos : 0 < cos phi := cos_pos_of_mem_Ioo ⟨h1, h2⟩
  have hp : 0 < p := mul_pos hN hcos
  have hpp : 0 < p * p + z * z := by nlinarith [mul_pos hp hp, mul_self_nonneg z]
  have hrr : 0 < rr := Real.sqrt_pos.mpr hpp
  have hrr2 : rr * rr = p * p + z * z := Real.mul_self_sqrt hpp.le
  have hw : 0 < 1 - d.es * sin phi * sin phi := by nlinarith [sin_sq_add_cos_sq phi, mul_self_nonneg (cos phi), mul_self_nonneg (sin phi)]
  have hsw : 0 < sqrt (1 - d.es * sin phi * sin phi) := Real.sqrt_pos.mpr hw
  have hrn : 0 < rn := div_pos ha hsw
  -- height
  have hheight : p * cos phi + z * sin phi - rn * (1 - d.es * sin phi * sin phi) = h := by
    show (rn + h) * cos phi * cos phi + (rn * (1 - d.es) + h) * sin phi * sin phi - rn * (1 - d.es * sin phi * sin phi) = h
    have := sin_sq_add_cos_sq phi
    nlinarith [this]
  set N := rn + h with hNdef
  set M := rn * (1 - d.es) + h with hMdef
  have hrk : 1 - d.es * rn / N = M / N := by
    have : N ≠ 0 := hN.ne'
    field_simp; rw [hNdef, hMdef]; ring
  -- the radicand of RX
  have hrad : 1 - d.es * rn / N * (2 - d.es * rn / N) * (p / rr) * (p / rr) = (M / rr) * (M / rr) := by
    have e : d.es * rn / N = 1 - M / N := by linarith
    rw [e]
    have hN0 : N ≠ 0 := hN.ne'
    have hr0 : rr ≠ 0 := hrr.ne'
    have hpz : rr * rr = N * cos phi * (N * cos phi) + M * sin phi * (M * sin phi) := hrr2
    have hpz' : rr ^ 2 = (N * cos phi) ^ 2 + (M * sin phi) ^ 2 := by rw [sq, hpz]; ring
    have hpdef : p = N * cos phi := rfl
    field_simp
    rw [hpz', hpdef]
    linear_combination (N ^ 2 * M ^ 2) * sin_sq_add_cos_sq phi
  have hMrr : 0 < M / rr := div_pos hM hrr
  have hsq : sqrt ((M / rr) * (M / rr)) = M / rr := Real.sqrt_mul_self hMrr.le
  simp only [geodeticStep, sqrt_real, lit_one, lit_two]
  rw [show d.a / sqrt (1 - d.es * sin phi * sin phi) = rn from rfl, hheight, ← hNdef, hrad, hsq, hrk]
  have hN0 : N ≠ 0 := hN.ne'
  have hr0 : rr ≠ 0 := hrr.ne'
  have hM0 : M ≠ 0 := hM.ne'
  refine Prod.ext ?_ (Prod.ext ?_ (Prod.ext rfl ?_))
  · show p / rr * (M / N) * (1 / (M / rr)) = cos phi
    field_simp; rfl
  · show z / rr * (1 / (M / rr)) = sin phi
    field_simp; rfl
  · show z / rr * (1 / (M / rr)) * cos phi - p / rr * (M / N) * (1 / (M / rr)) * sin phi = 0
    field_simp; ring

/-- `C08_geodetic_fixed` with the geocentric coordinates as explicit arguments -/
theorem geodetic_fixed' (d : Datum ℝ) (phi h rn p z rr : ℝ) (ha : 0 < d.a) (hes0 : 0 ≤ d.es) (hes : d.es < 1)
    (hphi : |phi| < π / 2) (hrn : rn = d.a / sqrt (1 - d.es * sin phi * sin phi))
    (hN : 0 < rn + h) (hM : 0 < rn * (1 - d.es) + h)
    (hp : p = (rn + h) * cos phi) (hz : z = (rn * (1 - d.es) + h) * sin phi) (hrr : rr = sqrt (p * p + z * z)) :
    geodeticStep d p z (z / rr) (p / rr) (cos phi) (sin phi) = (cos phi, sin phi, h, 0) := by
  subst hrr; subst hp; subst hz; subst hrn
  exact C08_geodetic_fixed d phi h ha hes0 hes hphi hN hM

/-- a stationary state stops the loop at once -/
theorem geodeticLoop_stationary (d : Datum ℝ) (p z ct st c s hgt : ℝ) (n : ℕ)
    (h : geodeticStep d p z ct st c s = (c, s, hgt, 0)) :
    geodeticLoop d p z ct st (n + 1) c s = (c, s, hgt) := by
  have h24 : ¬ ((1.0e-24 : ℝ) < 0 * 0) := by norm_num
  simp only [geodeticLoop, h, gt_real, h24, decide_false, Bool.false_and, if_false, Bool.false_eq_true]

/-- **geodetic ↔ geocentric stage of the pipeline algebra** (height 0, which is what the 2-D pipeline
feeds): `geocentric_to_geodetic (geodetic_to_geocentric (λ, φ, 0)) = (λ, φ, 0)` for `0 ≤ es < 1`, `a > 0`,
`|φ| < π/2` with `cos φ ≥ 1e-12` (the code's own polar cut-off), `λ ∈ (−π, π]`: the start value of the
Hannover iteration IS the true latitude when h = 0, and the iteration is stationary there. -/
theorem C08_geodetic_roundtrip_h0 (d : Datum ℝ) (lon lat : ℝ) (ha : 0 < d.a) (hes0 : 0 ≤ d.es) (hes : d.es < 1)
    (hlat : |lat| < π / 2) (hc12 : (1.0e-12 : ℝ) ≤ cos lat) (hl1 : -π < lon) (hl2 : lon ≤ π) :
    (geodeticToGeocentric d lon lat 0).map (fun q => geocentricToGeodetic d q.1 q.2.1 q.2.2) = .ok (lon, lat, 0) := by
  obtain ⟨h1, h2⟩ := abs_lt.mp hlat
  have hcos : 0 < cos lat := cos_pos_of_mem_Ioo ⟨h1, h2⟩
  have hw : 0 < 1 - d.es * sin lat * sin lat := by
    nlinarith [sin_sq_add_cos_sq lat, mul_self_nonneg (cos lat), mul_self_nonneg (sin lat)]
  have hw1 : 1 - d.es * sin lat * sin lat ≤ 1 := by nlinarith [mul_self_nonneg (sin lat)]
  have hsw : 0 < sqrt (1 - d.es * sin lat * sin lat) := Real.sqrt_pos.mpr hw
  have hsw1 : sqrt (1 - d.es * sin lat * sin lat) ≤ 1 := by
    calc sqrt (1 - d.es * sin lat * sin lat) ≤ sqrt 1 := Real.sqrt_le_sqrt hw1
      _ = 1 := Real.sqrt_one
  set rn := d.a / sqrt (1 - d.es * sin lat * sin lat) with hrn_def
  have hrn : 0 < rn := div_pos ha hsw
  have hrna : d.a ≤ rn := by rw [hrn_def, le_div_iff₀ hsw]; nlinarith
  have hN : 0 < rn + 0 := by linarith
  have hM : 0 < rn * (1 - d.es) + 0 := by nlinarith
  simp only [add_zero] at hN hM
  set p := rn * cos lat with hp_def
  set z := rn * (1 - d.es) * sin lat with hz_def
  have hp : 0 < p := mul_pos hrn hcos
  have hpp : 0 < p * p + z * z := by nlinarith [mul_pos hp hp, mul_self_nonneg z]
  set rr := sqrt (p * p + z * z) with hrr_def
  have hrr : 0 < rr := Real.sqrt_pos.mpr hpp
  -- the guards of geodetic_to_geocentric
  have g1 : ¬ (lat < -(π / 2)) := by linarith
  have g2 : ¬ (π / 2 < lat) := by linarith
  have g3 : ¬ (π < lon) := by linarith
  have hsp : sqrt (p * p) = p := Real.sqrt_mul_self hp.le
  have hpole : ¬ (p / d.a < (1.0e-12 : ℝ)) := by
    rw [not_lt, le_div_iff₀ ha]
    calc (1.0e-12 : ℝ) * d.a ≤ cos lat * rn := by nlinarith
      _ = p := by rw [hp_def]; ring
  have harg : Complex.arg ⟨rn * cos lat * cos lon, rn * cos lat * sin lon⟩ = lon := arg_polar (rn * cos lat) lon hp hl1 hl2
  -- start value = truth
  have hrr2 : rr * rr = p * p + z * z := Real.mul_self_sqrt hpp.le
  have hMrr : 0 < rn * (1 - d.es) / rr := div_pos hM hrr
  have hrad : 1 - d.es * (2 - d.es) * (p / rr) * (p / rr) = (rn * (1 - d.es) / rr) * (rn * (1 - d.es) / rr) := by
    have hr0 : rr ≠ 0 := hrr.ne'
    have hpz' : rr ^ 2 = (rn * cos lat) ^ 2 + (rn * (1 - d.es) * sin lat) ^ 2 := by rw [sq, hrr2]; ring
    field_simp
    rw [hpz', hp_def]
    linear_combination (rn ^ 2 * (1 - d.es) ^ 2) * sin_sq_add_cos_sq lat
  have hsq : sqrt ((rn * (1 - d.es) / rr) * (rn * (1 - d.es) / rr)) = rn * (1 - d.es) / rr := Real.sqrt_mul_self hMrr.le
  have hc0 : p / rr * (1 - d.es) * (1 / (rn * (1 - d.es) / rr)) = cos lat := by
    have hr0 : rr ≠ 0 := hrr.ne'
    have : rn * (1 - d.es) ≠ 0 := hM.ne'
    have h1e : (1 : ℝ) - d.es ≠ 0 := by linarith
    rw [hp_def]; field_simp
  have hs0 : z / rr * (1 / (rn * (1 - d.es) / rr)) = sin lat := by
    have hr0 : rr ≠ 0 := hrr.ne'
    have : rn * (1 - d.es) ≠ 0 := hM.ne'
    have h1e : (1 : ℝ) - d.es ≠ 0 := by linarith
    rw [hz_def]; field_simp
  simp only [geodeticToGeocentric, geocentricToGeodetic, lt_real, gt_real, halfPi_real, pi_real, g1, g2, g3,
    decide_false, Bool.false_and, Bool.and_false, Bool.false_or, Bool.or_false, if_false, Bool.false_eq_true,
    bind, Except.bind, pure, Except.pure, Except.map, sin_real, cos_real, sqrt_real, atan2_real, atan_real, abs_real,
    lit_one, lit_two, lit_zero, add_zero]
  rw [show d.es * (sin lat * sin lat) = d.es * sin lat * sin lat by ring, ← hrn_def]
  simp only [← hp_def, ← hz_def]
  have hxy' : p * cos lon * (p * cos lon) + p * sin lon * (p * sin lon) = p * p := by
    linear_combination (p * p) * sin_sq_add_cos_sq lon
  have harg' : Complex.arg ⟨p * cos lon, p * sin lon⟩ = lon := arg_polar p lon hp hl1 hl2
  have hfix : geodeticStep d p z (z / rr) (p / rr) (cos lat) (sin lat) = (cos lat, sin lat, 0, 0) :=
    geodetic_fixed' d lat 0 rn p z rr ha hes0 hes hlat hrn_def (by linarith) (by linarith)
      (by rw [hp_def]; ring) (by rw [hz_def]; ring) hrr_def
  have hloop : geodeticLoop d p z (z / rr) (p / rr) 30 (cos lat) (sin lat) = (cos lat, sin lat, 0) :=
    geodeticLoop_stationary d p z (z / rr) (p / rr) (cos lat) (sin lat) 0 29 hfix
  simp only [hxy', hsp, hpole, decide_false, Bool.false_and, if_false, Bool.false_eq_true, harg', ← hrr_def,
    hrad, hsq, hc0, hs0, hloop]
  rw [abs_of_pos hcos, ← tan_eq_sin_div_cos, arctan_tan h1 h2]

end GeomV.C08
