import GeomV.C08.Proofs
/-!
# C08 — exact inverses of the spherical conics, south cones; spherical LCC; spherical TM
-/
set_option linter.unusedSimpArgs false
namespace GeomV.C08
open Real

theorem arg_polar_neg (R θ : ℝ) (hr : R < 0) (h1 : -π < θ) (h2 : θ ≤ π) :
    Complex.arg ⟨-1 * (R * cos θ), -1 * (R * sin θ)⟩ = θ := by
  have := arg_polar (-R) θ (by linarith) h1 h2
  rw [show -1 * (R * cos θ) = -R * cos θ by ring, show -1 * (R * sin θ) = -R * sin θ by ring]
  exact this

theorem sqrt_polar_neg (R θ : ℝ) (hr : R < 0) :
    sqrt (R * sin θ * (R * sin θ) + R * cos θ * (R * cos θ)) = -R := by
  have := sqrt_polar (-R) θ (by linarith)
  rw [show R * sin θ * (R * sin θ) + R * cos θ * (R * cos θ)
      = -R * sin θ * (-R * sin θ) + -R * cos θ * (-R * cos θ) by ring]
  exact this

/-- **eqdc_sphere_inv, south cone** (`ns < 0`, apex beyond the south pole: `g < φ`). -/
theorem C08_eqdc_sphere_inv_south (c : EqdcC ℝ) (hs : c.sr.sphere = true) (ha : 0 < c.sr.a) (hn : c.ns < 0)
    (lon lat : ℝ) (hlat : |lat| < π / 2) (hg : c.g < lat) (hlon : |lon| ≤ sPi)
    (hdl : |lon - c.sr.long0| ≤ sPi) (h1 : -π < c.ns * (lon - c.sr.long0)) (h2 : c.ns * (lon - c.sr.long0) ≤ π) :
    (fwdEqdc c lon lat).bind (fun q => invEqdc c q.1 q.2) = .ok (lon, lat) := by
  have hr : c.sr.a * (c.g - lat) < 0 := mul_neg_of_pos_of_neg ha (by linarith)
  have hsq := sqrt_polar_neg (c.sr.a * (c.g - lat)) (c.ns * (lon - c.sr.long0)) hr
  have harg := arg_polar_neg (c.sr.a * (c.g - lat)) (c.ns * (lon - c.sr.long0)) hr h1 h2
  have hn' : ¬ (0 ≤ c.ns) := not_le.mpr hn
  simp only [fwdEqdc, invEqdc, hs, if_true, adjustLon_id hdl, Except.bind, bind, pure, Except.pure,
    ge_real, ne_real, sin_real, cos_real, sqrt_real, atan2_real, lit_zero, hn', decide_false, lit_one,
    if_false, Bool.false_eq_true]
  have ex : c.sr.x0 + c.sr.a * (c.g - lat) * sin (c.ns * (lon - c.sr.long0)) - c.sr.x0
      = c.sr.a * (c.g - lat) * sin (c.ns * (lon - c.sr.long0)) := by ring
  have ey : c.rh - (c.sr.y0 + c.rh - c.sr.a * (c.g - lat) * cos (c.ns * (lon - c.sr.long0))) + c.sr.y0
      = c.sr.a * (c.g - lat) * cos (c.ns * (lon - c.sr.long0)) := by ring
  have hn0 : c.ns ≠ 0 := hn.ne
  simp only [ex, ey, hsq, harg, hr.ne, decide_false, Bool.not_false, if_true, lit_zero, neg_neg]
  have e1 : c.sr.long0 + c.ns * (lon - c.sr.long0) / c.ns = lon := by field_simp; ring
  have e2 : c.g - c.sr.a * (c.g - lat) / c.sr.a = lat := by field_simp; ring
  rw [e1, e2, adjustLon_id hlon, adjustLat_id hlat]

/-- **aea_sphere_inv, south cone** (`ns0 < 0`). -/
theorem C08_aea_sphere_inv_south (k : AeaC ℝ) (hs : k.sr.sphere = true) (he : k.e3 ≤ 1.0e-7) (ha : 0 < k.sr.a)
    (hn : k.ns0 < 0) (lon lat : ℝ) (hlat : |lat| ≤ π / 2) (hpos : 0 < k.c - k.ns0 * (2 * sin lat))
    (hlon : |lon| ≤ sPi) (hdl : |lon - k.sr.long0| ≤ sPi)
    (h1 : -π < k.ns0 * (lon - k.sr.long0)) (h2 : k.ns0 * (lon - k.sr.long0) ≤ π) :
    (fwdAea k lon lat).bind (fun q => invAea k q.1 q.2) = .ok (lon, lat) := by
  obtain ⟨hl1, hl2⟩ := abs_le.mp hlat
  set R := k.sr.a * sqrt (k.c - k.ns0 * (2 * sin lat)) / k.ns0 with hR
  have hsqrt : 0 < sqrt (k.c - k.ns0 * (2 * sin lat)) := Real.sqrt_pos.mpr hpos
  have hr : R < 0 := div_neg_of_pos_of_neg (mul_pos ha hsqrt) hn
  have hsq := sqrt_polar_neg R (k.ns0 * (lon - k.sr.long0)) hr
  have harg := arg_polar_neg R (k.ns0 * (lon - k.sr.long0)) hr h1 h2
  have hq : ¬ ((1.0e-7 : ℝ) < k.e3) := not_lt.mpr he
  have hn' : ¬ (0 ≤ k.ns0) := not_le.mpr hn
  have hn0 : k.ns0 ≠ 0 := hn.ne
  simp only [fwdAea, invAea, hs, if_true, adjustLon_id hdl, Except.bind, bind, pure, Except.pure,
    ge_real, ne_real, gt_real, sin_real, cos_real, sqrt_real, atan2_real, asin_real, qsfnz, hq, lit_zero,
    hn', decide_true, decide_false, lit_one, lit_two, if_false, Bool.false_eq_true, ← hR]
  have ex : R * sin (k.ns0 * (lon - k.sr.long0)) + k.sr.x0 - k.sr.x0 = R * sin (k.ns0 * (lon - k.sr.long0)) := by ring
  have ey : k.rh - (k.rh - R * cos (k.ns0 * (lon - k.sr.long0)) + k.sr.y0) + k.sr.y0
      = R * cos (k.ns0 * (lon - k.sr.long0)) := by ring
  simp only [ex, ey, hsq, harg, hr.ne, decide_false, Bool.not_false, if_true, lit_zero, neg_neg]
  have e1 : k.ns0 * (lon - k.sr.long0) / k.ns0 + k.sr.long0 = lon := by field_simp; ring
  have e2 : (k.c - R * k.ns0 / k.sr.a * (R * k.ns0 / k.sr.a)) / (2 * k.ns0) = sin lat := by
    have : R * k.ns0 / k.sr.a = sqrt (k.c - k.ns0 * (2 * sin lat)) := by rw [hR]; field_simp
    rw [this, Real.mul_self_sqrt hpos.le]; field_simp; ring
  rw [e1, e2, adjustLon_id hlon, Real.arcsin_sin hl1 hl2]

/-! ## Lambert conformal conic -/

theorem tsfnz_pos (e phi : ℝ) (hphi : |phi| < π / 2) (he : |e * sin phi| < 1) : 0 < tsfnz e phi (sin phi) := by
  obtain ⟨h1, h2⟩ := abs_lt.mp hphi
  have hP := conPow_pos (e * sin phi) (0.5 * e) he
  simp only [tsfnz, halfPi_real, tan_real, pow_real, lit_one]
  exact div_pos (tan_pos_of_pos_of_lt_pi_div_two (by linarith) (by linarith)) hP

/-- the guards of `fwdLcc` inside `|φ| ≤ 1.5` -/
theorem lcc_guards (lat : ℝ) (hlat : |lat| ≤ 1.5) :
    ¬ (|2 * |lat| - π| ≤ (1.0e-10 : ℝ)) ∧ (1.0e-10 : ℝ) < |(|lat| - π / 2)| := by
  have hpi : (3.14 : ℝ) < π := pi_gt_d2
  constructor
  · have : 2 * |lat| - π < -0.14 := by linarith
    rw [abs_of_neg (by linarith)]; norm_num; linarith
  · have : |lat| - π / 2 < -0.07 := by linarith
    rw [abs_of_neg (by linarith)]; norm_num; linarith

/-- **lcc chain** (any eccentricity): inside the usable region the inverse of the forward is
`(λ, phi2z e (tsfnz e φ sin φ))` — everything except the latitude iteration is exact.
`sgn` covers both cone signs: north `0 < ns ∧ 0 < a·F0`, south `ns < 0 ∧ a·F0 < 0`. -/
theorem lcc_chain (c : LccC ℝ) (hk : c.sr.k0 ≠ 0)
    (sgn : (0 < c.ns ∧ 0 < c.sr.a * c.f0) ∨ (c.ns < 0 ∧ c.sr.a * c.f0 < 0))
    (lon lat : ℝ) (hlat : |lat| ≤ 1.5) (he : |c.e * sin lat| < 1) (hlon : |lon| ≤ sPi)
    (hdl : |lon - c.sr.long0| ≤ sPi) (h1 : -π < c.ns * (lon - c.sr.long0)) (h2 : c.ns * (lon - c.sr.long0) ≤ π) :
    (fwdLcc c lon lat).bind (fun q => invLcc c q.1 q.2) =
      (phi2z c.e (tsfnz c.e lat (sin lat))).map (fun phi => (lon, phi)) := by
  have hpi : (3.14 : ℝ) < π := pi_gt_d2
  obtain ⟨g1, g2⟩ := lcc_guards lat hlat
  have hlt : |lat| < π / 2 := by linarith
  have hts := tsfnz_pos c.e lat hlt he
  set ts := tsfnz c.e lat (sin lat) with hts_def
  have hpw : 0 < ts ^ c.ns := rpow_pos_of_pos hts _
  set R := c.sr.a * c.f0 * ts ^ c.ns with hR
  have hn0 : c.ns ≠ 0 := by rcases sgn with h | h <;> [exact h.1.ne'; exact h.1.ne]
  have haf : c.sr.a * c.f0 ≠ 0 := by rcases sgn with h | h <;> [exact h.2.ne'; exact h.2.ne]
  have hback : (R / (c.sr.a * c.f0)) ^ (1 / c.ns) = ts := by
    rw [hR, mul_div_cancel_left₀ _ haf, ← Real.rpow_mul hts.le, mul_one_div_cancel hn0, Real.rpow_one]
  have ex : (c.sr.k0 * (R * sin (c.ns * (lon - c.sr.long0))) + c.sr.x0 - c.sr.x0) / c.sr.k0
      = R * sin (c.ns * (lon - c.sr.long0)) := by field_simp; ring
  have ey : c.rh - (c.sr.k0 * (c.rh - R * cos (c.ns * (lon - c.sr.long0))) + c.sr.y0 - c.sr.y0) / c.sr.k0
      = R * cos (c.ns * (lon - c.sr.long0)) := by field_simp; ring
  have e1 : c.ns * (lon - c.sr.long0) / c.ns + c.sr.long0 = lon := by field_simp; ring
  simp only [fwdLcc, invLcc, le_real, gt_real, abs_real, halfPi_real, epsln_real, pi_real, lit_two, g1, g2,
    decide_false, decide_true, if_false, if_true, Bool.false_eq_true, sin_real, cos_real, pow_real,
    adjustLon_id hdl, bind, Except.bind, pure, Except.pure, ← hts_def, ← hR, ex, ey, sqrt_real,
    atan2_real, ne_real, lit_zero, lit_one]
  rcases sgn with ⟨hn, haf'⟩ | ⟨hn, haf'⟩
  · have hr : 0 < R := mul_pos haf' hpw
    have hsq := sqrt_polar R (c.ns * (lon - c.sr.long0)) hr
    have harg := arg_polar R (c.ns * (lon - c.sr.long0)) hr h1 h2
    simp only [hn, decide_true, if_true, hsq, one_mul, harg, hr.ne', decide_false, Bool.not_false,
      Bool.true_or, Bool.or_true, hback, e1, adjustLon_id hlon]
    cases phi2z c.e ts <;> rfl
  · have hr : R < 0 := mul_neg_of_neg_of_pos haf' hpw
    have hsq := sqrt_polar_neg R (c.ns * (lon - c.sr.long0)) hr
    have harg := arg_polar_neg R (c.ns * (lon - c.sr.long0)) hr h1 h2
    have hn' : ¬ (0 < c.ns) := not_lt.mpr hn.le
    simp only [hn', decide_false, if_false, Bool.false_eq_true, hsq, neg_neg, harg, hr.ne, Bool.not_false,
      Bool.true_or, Bool.or_true, Bool.or_false, if_true, hback, e1, adjustLon_id hlon]
    cases phi2z c.e ts <;> rfl

/-- on a sphere (`e = 0`) `phi2z` returns the true latitude at once -/
theorem phi2z_sphere (phi : ℝ) (hphi : |phi| < π / 2) : phi2z (0 : ℝ) (tsfnz 0 phi (sin phi)) = .ok phi := by
  obtain ⟨h1, h2⟩ := abs_lt.mp hphi
  have he : |(0 : ℝ) * sin phi| < 1 := by simp
  have hstart : (halfPi : ℝ) - 2.0 * RTrans.atan (tsfnz 0 phi (sin phi)) = phi := by
    simp only [tsfnz, halfPi_real, tan_real, pow_real, atan_real, lit_one, lit_two]
    norm_num
    rw [arctan_tan (by linarith [pi_pos]) (by linarith [pi_pos])]; ring
  unfold phi2z
  rw [hstart]
  exact C08_phi2z_returns_fixed 0 phi 15 hphi he

/-- **lcc_sphere_inv**: spherical Lambert conformal conic (`e = 0`), both cone signs:
inverse(forward(λ, φ)) = (λ, φ) for `|φ| ≤ 1.5` rad, `|λ|, |λ−λ₀| ≤ sPi`, `ns·(λ−λ₀) ∈ (−π, π]`,
any `k0 ≠ 0`, false origin, `a·F0` of the sign of `ns`. -/
theorem C08_lcc_sphere_inv (c : LccC ℝ) (he0 : c.e = 0) (hk : c.sr.k0 ≠ 0)
    (sgn : (0 < c.ns ∧ 0 < c.sr.a * c.f0) ∨ (c.ns < 0 ∧ c.sr.a * c.f0 < 0))
    (lon lat : ℝ) (hlat : |lat| ≤ 1.5) (hlon : |lon| ≤ sPi)
    (hdl : |lon - c.sr.long0| ≤ sPi) (h1 : -π < c.ns * (lon - c.sr.long0)) (h2 : c.ns * (lon - c.sr.long0) ≤ π) :
    (fwdLcc c lon lat).bind (fun q => invLcc c q.1 q.2) = .ok (lon, lat) := by
  have hpi : (3.14 : ℝ) < π := pi_gt_d2
  have he : |c.e * sin lat| < 1 := by rw [he0]; simp
  rw [lcc_chain c hk sgn lon lat hlat he hlon hdl h1 h2, he0, phi2z_sphere lat (by linarith)]
  rfl

/-- **lcc_inv_of_converged** (ellipsoid; conditional on convergence on purpose): if `phi2z` stops at a
latitude `φ'` where its update is exactly zero, un-projecting returns `(λ, φ')` and projecting
`(λ, φ')` again reproduces the projected coordinates EXACTLY. -/
theorem C08_lcc_inv_of_converged (c : LccC ℝ) (hk : c.sr.k0 ≠ 0)
    (sgn : (0 < c.ns ∧ 0 < c.sr.a * c.f0) ∨ (c.ns < 0 ∧ c.sr.a * c.f0 < 0))
    (lon lat lat' : ℝ) (hlat : |lat| ≤ 1.5) (hlat' : |lat'| ≤ 1.5) (he : |c.e * sin lat| < 1)
    (he' : |c.e * sin lat'| < 1) (hlon : |lon| ≤ sPi)
    (hdl : |lon - c.sr.long0| ≤ sPi) (h1 : -π < c.ns * (lon - c.sr.long0)) (h2 : c.ns * (lon - c.sr.long0) ≤ π)
    (hconv : phi2z c.e (tsfnz c.e lat (sin lat)) = .ok lat')
    (hstat : phi2zStep c.e (tsfnz c.e lat (sin lat)) lat' = 0) :
    (fwdLcc c lon lat).bind (fun q => invLcc c q.1 q.2) = .ok (lon, lat') ∧
    fwdLcc c lon lat' = fwdLcc c lon lat := by
  refine ⟨by rw [lcc_chain c hk sgn lon lat hlat he hlon hdl h1 h2, hconv]; rfl, ?_⟩
  have hts' := tsfnz_of_stationary c.e _ lat' he' hstat
  obtain ⟨g1, g2⟩ := lcc_guards lat hlat
  obtain ⟨g1', g2'⟩ := lcc_guards lat' hlat'
  simp only [fwdLcc, le_real, gt_real, abs_real, halfPi_real, epsln_real, pi_real, lit_two, g1, g2, g1', g2',
    decide_false, decide_true, if_false, if_true, Bool.false_eq_true, sin_real, hts']

/-! ## Albers, ellipsoid -/

/-- **aea chain** (ellipsoid, both cone signs): inverse ∘ forward = `(λ, aeaPhi1z e (qsfnz e sin φ))`;
everything except the latitude iteration is exact (needs a positive cone radius `c − ns0·qs > 0`). -/
theorem aea_chain (k : AeaC ℝ) (hs : k.sr.sphere = false) (ha : 0 < k.sr.a) (hn : k.ns0 ≠ 0)
    (lon lat : ℝ) (hpos : 0 < k.c - k.ns0 * qsfnz k.e3 (sin lat))
    (hlon : |lon| ≤ sPi) (hdl : |lon - k.sr.long0| ≤ sPi)
    (h1 : -π < k.ns0 * (lon - k.sr.long0)) (h2 : k.ns0 * (lon - k.sr.long0) ≤ π) :
    (fwdAea k lon lat).bind (fun q => invAea k q.1 q.2) =
      (aeaPhi1z k.e3 (qsfnz k.e3 (sin lat))).map (fun phi => (lon, phi)) := by
  set qs := qsfnz k.e3 (sin lat) with hqs
  set R := k.sr.a * sqrt (k.c - k.ns0 * qs) / k.ns0 with hR
  have hsqrt : 0 < sqrt (k.c - k.ns0 * qs) := Real.sqrt_pos.mpr hpos
  have ex : R * sin (k.ns0 * (lon - k.sr.long0)) + k.sr.x0 - k.sr.x0 = R * sin (k.ns0 * (lon - k.sr.long0)) := by ring
  have ey : k.rh - (k.rh - R * cos (k.ns0 * (lon - k.sr.long0)) + k.sr.y0) + k.sr.y0
      = R * cos (k.ns0 * (lon - k.sr.long0)) := by ring
  have e1 : k.ns0 * (lon - k.sr.long0) / k.ns0 + k.sr.long0 = lon := by field_simp; ring
  have e2 : (k.c - R * k.ns0 / k.sr.a * (R * k.ns0 / k.sr.a)) / k.ns0 = qs := by
    have : R * k.ns0 / k.sr.a = sqrt (k.c - k.ns0 * qs) := by rw [hR]; field_simp
    rw [this, Real.mul_self_sqrt hpos.le]; field_simp; ring
  simp only [fwdAea, invAea, hs, if_false, Bool.false_eq_true, adjustLon_id hdl, Except.bind, bind, pure,
    Except.pure, ge_real, ne_real, sin_real, cos_real, sqrt_real, atan2_real, lit_zero, lit_one, ← hqs, ← hR, ex, ey]
  rcases lt_or_gt_of_ne hn with hneg | hposn
  · have hr : R < 0 := div_neg_of_pos_of_neg (mul_pos ha hsqrt) hneg
    have hsq := sqrt_polar_neg R (k.ns0 * (lon - k.sr.long0)) hr
    have harg := arg_polar_neg R (k.ns0 * (lon - k.sr.long0)) hr h1 h2
    have hn' : ¬ (0 ≤ k.ns0) := not_le.mpr hneg
    simp only [hn', decide_false, if_false, Bool.false_eq_true, hsq, neg_neg, harg, hr.ne, Bool.not_false, if_true,
      e1, e2, adjustLon_id hlon]
    cases aeaPhi1z k.e3 qs <;> rfl
  · have hr : 0 < R := div_pos (mul_pos ha hsqrt) hposn
    have hsq := sqrt_polar R (k.ns0 * (lon - k.sr.long0)) hr
    have harg := arg_polar R (k.ns0 * (lon - k.sr.long0)) hr h1 h2
    simp only [hposn.le, decide_true, if_true, hsq, one_mul, harg, hr.ne', decide_false, Bool.not_false,
      e1, e2, adjustLon_id hlon]
    cases aeaPhi1z k.e3 qs <;> rfl

/-- a stationary point of the `aeaPhi1z` update (away from the poles) has authalic `q` exactly `qs` -/
theorem qsfnz_of_stationary (e qs phi' : ℝ) (he : 1.0e-7 < e) (he1 : e < 1) (hcos : cos phi' ≠ 0)
    (hcom : 1 - e * sin phi' * (e * sin phi') ≠ 0) (h : aeaPhi1zStep e qs phi' = 0) :
    qsfnz e (sin phi') = qs := by
  have hpos : (0 : ℝ) < e := lt_trans (by norm_num) he
  have hne : (1 : ℝ) - e * e ≠ 0 := by nlinarith
  simp only [aeaPhi1zStep, qsfnz, gt_real, he, decide_true, if_true, sin_real, cos_real, log_real, lit_one] at h ⊢
  have hfac : 0.5 * (1 - e * sin phi' * (e * sin phi')) * (1 - e * sin phi' * (e * sin phi')) / cos phi' ≠ 0 := by
    apply div_ne_zero _ hcos
    exact mul_ne_zero (mul_ne_zero (by norm_num) hcom) hcom
  have hb := (mul_eq_zero.mp h).resolve_left hfac
  have : qs / (1 - e * e) = sin phi' / (1 - e * sin phi' * (e * sin phi')) - 0.5 / e * log ((1 - e * sin phi') / (1 + e * sin phi')) := by
    linarith
  rw [← this]; exact mul_div_cancel₀ _ hne

/-- **aea_inv_of_converged** (ellipsoid; conditional on convergence on purpose). -/
theorem C08_aea_inv_of_converged (k : AeaC ℝ) (hs : k.sr.sphere = false) (ha : 0 < k.sr.a) (hn : k.ns0 ≠ 0)
    (he : 1.0e-7 < k.e3) (he1 : k.e3 < 1)
    (lon lat lat' : ℝ) (hpos : 0 < k.c - k.ns0 * qsfnz k.e3 (sin lat))
    (hlon : |lon| ≤ sPi) (hdl : |lon - k.sr.long0| ≤ sPi)
    (h1 : -π < k.ns0 * (lon - k.sr.long0)) (h2 : k.ns0 * (lon - k.sr.long0) ≤ π)
    (hcos : cos lat' ≠ 0) (hcom : 1 - k.e3 * sin lat' * (k.e3 * sin lat') ≠ 0)
    (hconv : aeaPhi1z k.e3 (qsfnz k.e3 (sin lat)) = .ok lat')
    (hstat : aeaPhi1zStep k.e3 (qsfnz k.e3 (sin lat)) lat' = 0) :
    (fwdAea k lon lat).bind (fun q => invAea k q.1 q.2) = .ok (lon, lat') ∧
    fwdAea k lon lat' = fwdAea k lon lat := by
  refine ⟨by rw [aea_chain k hs ha hn lon lat hpos hlon hdl h1 h2, hconv]; rfl, ?_⟩
  have hq := qsfnz_of_stationary k.e3 _ lat' he he1 hcos hcom hstat
  simp only [fwdAea, sin_real, hq]

end GeomV.C08
