import GeomV.C08.ProjCommon
/-! # proj/datum.go and proj/datum_transform.go -/
namespace GeomV.C08
open RNum RTrans
variable {α : Type} [RTrans α]

def pjd3Param : Nat := 1
def pjd7Param : Nat := 2
def pjdGridShift : Nat := 3
def pjdWGS84 : Nat := 4
def pjdNoDatum : Nat := 5

/-- `compare_datums` (grid-shift names are not modelled: grid shifts are an error in this port) -/
def compareDatums (s d : Datum α) : Bool :=
  if s.dtype ≠ d.dtype then false
  else if ne s.a d.a || gt (abs (s.es - d.es)) 0.000000000050 then false
  else if s.dtype = pjd3Param then eq s.p0 d.p0 && eq s.p1 d.p1 && eq s.p2 d.p2
  else if s.dtype = pjd7Param then
    eq s.p0 d.p0 && eq s.p1 d.p1 && eq s.p2 d.p2 && eq s.p3 d.p3 && eq s.p4 d.p4 && eq s.p5 d.p5 && eq s.p6 d.p6
  else true

def geodeticToGeocentric (d : Datum α) (lon lat h : α) : Except Err (α × α × α) := do
  let lat ←
    if lt lat (-halfPi) && gt lat (-1.001 * halfPi) then pure (-halfPi)
    else if gt lat halfPi && lt lat (1.001 * halfPi) then pure halfPi
    else if lt lat (-halfPi) || gt lat halfPi then throw Err.latRange
    else pure lat
  let lon := if gt lon pi then lon - 2.0 * pi else lon
  let sinLat := sin lat
  let cosLat := cos lat
  let sin2 := sinLat * sinLat
  let rn := d.a / sqrt (1.0e0 - d.es * sin2)
  pure ((rn + h) * cosLat * cos lon, (rn + h) * cosLat * sin lon, (rn * (1.0 - d.es) + h) * sinLat)

/-- state of the Hannover iteration: (CPHI0, SPHI0) ↦ (CPHI, SPHI, Height, SDPHI) -/
def geodeticStep (d : Datum α) (p z ct st cphi0 sphi0 : α) : α × α × α × α :=
  let rn := d.a / sqrt (1.0 - d.es * sphi0 * sphi0)
  let height := p * cphi0 + z * sphi0 - rn * (1.0 - d.es * sphi0 * sphi0)
  let rk := d.es * rn / (rn + height)
  let rx := 1.0 / sqrt (1.0 - rk * (2.0 - rk) * st * st)
  let cphi := st * (1.0 - rk) * rx
  let sphi := ct * rx
  let sdphi := sphi * cphi0 - cphi * sphi0
  (cphi, sphi, height, sdphi)

/-- `for { iter++; …; if !(SDPHI*SDPHI > genau2 && iter < maxiter) break }`, maxiter = 30 -/
def geodeticLoop (d : Datum α) (p z ct st : α) : Nat → α → α → α × α × α
  | 0, c, s => (c, s, 0.0)
  | n+1, cphi0, sphi0 =>
    let (cphi, sphi, height, sdphi) := geodeticStep d p z ct st cphi0 sphi0
    if gt (sdphi * sdphi) (1.0e-24) && n ≠ 0 then
      geodeticLoop d p z ct st n cphi sphi
    else (cphi, sphi, height)

def geocentricToGeodetic (d : Datum α) (x y z : α) : α × α × α :=
  let genau : α := 1.0e-12
  let p := sqrt (x * x + y * y)
  let rr := sqrt (x * x + y * y + z * z)
  let atPole := lt (p / d.a) genau
  if atPole && lt (rr / d.a) genau then (0.0, halfPi, -d.b) else
  let lon : α := if atPole then 0.0 else atan2 y x
  let ct := z / rr
  let st := p / rr
  let rx := 1.0 / sqrt (1.0 - d.es * (2.0 - d.es) * st * st)
  let cphi0 := st * (1.0 - d.es) * rx
  let sphi0 := ct * rx
  let (cphi, sphi, height) := geodeticLoop d p z ct st 30 cphi0 sphi0
  (lon, atan (sphi / abs cphi), height)

def geocentricToWgs84 (d : Datum α) (x y z : α) : α × α × α :=
  if d.dtype = pjd3Param then (x + d.p0, y + d.p1, z + d.p2)
  else if d.dtype = pjd7Param then
    (d.p6 * (x - d.p5 * y + d.p4 * z) + d.p0,
     d.p6 * (d.p5 * x + y - d.p3 * z) + d.p1,
     d.p6 * (-d.p4 * x + d.p3 * y + z) + d.p2)
  else (x, y, z)

def geocentricFromWgs84 (d : Datum α) (x y z : α) : α × α × α :=
  if d.dtype = pjd3Param then (x - d.p0, y - d.p1, z - d.p2)
  else if d.dtype = pjd7Param then
    let xt := (x - d.p0) / d.p6
    let yt := (y - d.p1) / d.p6
    let zt := (z - d.p2) / d.p6
    (xt + d.p5 * yt - d.p4 * zt, -d.p5 * xt + yt + d.p3 * zt, d.p4 * xt - d.p3 * yt + zt)
  else (x, y, z)

def checkDatumParams (t : Nat) : Bool := t = pjd3Param || t = pjd7Param

/-- `datumTransform` (the saved/restored `a`, `es` only change on the grid-shift paths, which
return an error before they are used) -/
def datumTransform (s d : Datum α) (x y z : α) : Except Err (α × α × α) := do
  if compareDatums s d then return (x, y, z)
  if s.dtype = pjdNoDatum || d.dtype = pjdNoDatum then return (x, y, z)
  if s.dtype = pjdGridShift then throw Err.gridShift
  let (da, des) : α × α := if d.dtype = pjdGridShift then (6378137.0, 0.006694379990141316) else (d.a, d.es)
  let d' := { d with a := da, es := des }
  let (x, y, z) ←
    if ne s.es d'.es || ne s.a d'.a || checkDatumParams s.dtype || checkDatumParams d'.dtype then do
      let (x, y, z) ← geodeticToGeocentric s x y z
      let (x, y, z) := if checkDatumParams s.dtype then geocentricToWgs84 s x y z else (x, y, z)
      let (x, y, z) := if checkDatumParams d'.dtype then geocentricFromWgs84 d' x y z else (x, y, z)
      pure (geocentricToGeodetic d' x y z)
    else pure (x, y, z)
  if d.dtype = pjdGridShift then throw Err.gridShift
  return (x, y, z)

end GeomV.C08
