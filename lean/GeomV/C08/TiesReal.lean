import GeomV.C08.RealInst
import GeomV.C08.ProjPipeline
import GeomV.C08.Gen.GoProj
import Mathlib.Tactic.NormNum
/-!
# C08 tie T1, part 3: krovak.go over ℝ

The Go compiler folds the untyped constant expressions `S90 - Uq`, `0.7417649320975901 - 0.308341501185665` and
`S0/2 + S45` EXACTLY before rounding, and the model carries the folded decimals.  Over ℝ (where the theorems of
ProofsKrovak / ProofsConverge live) the regenerated, unfolded expressions are equal to the model's constants by
`norm_num`, and with these three facts the constructor, the forward and the inverse of the real-valued model are the
regenerated definitions (`rfl` after rewriting).  The Float side of the same constants is tied by the
correspondence run (bit patterns checked in Lean and Go).
-/
namespace GeomV.C08.Ties
open GeomV.C08 RNum RTrans

theorem krovak_long0_real : (Gen.krovak_Krovak_thisLong0_1 : ℝ) = 0.4334234309119251 := by
  unfold Gen.krovak_Krovak_thisLong0_1; norm_num

theorem krovak_ad_real :
    Gen.krovak_Krovak_Ad_1 (Gen.krovak_Krovak_constS90_1 (Gen.krovak_Krovak_constS45_1 : ℝ)) Gen.krovak_Krovak_constUq_1
      = 0.528627762990156 := by
  unfold Gen.krovak_Krovak_Ad_1 Gen.krovak_Krovak_constS90_1 Gen.krovak_Krovak_constS45_1 Gen.krovak_Krovak_constUq_1
  norm_num

theorem krovak_s0half_real : (s0K : ℝ) / 2.0 + s45 = s0half45 := by
  unfold s0K s45 s0half45; norm_num

theorem tie_initKrovak_real (s : SR ℝ) :
    initKrovak s =
      (let s := { s with a := Gen.krovak_Krovak_thisA_1, es := Gen.krovak_Krovak_thisEs_1 }
       let s := { s with e := Gen.krovak_Krovak_thisE_1 s }
       let s := if isNaN s.lat0 then { s with lat0 := Gen.krovak_Krovak_thisLat0_1 } else s
       let s := if isNaN s.long0 then { s with long0 := Gen.krovak_Krovak_thisLong0_1 } else s
       let s := if isNaN s.k0 then { s with k0 := Gen.krovak_Krovak_thisK0_1 } else s
       let fi0 := Gen.krovak_Krovak_Fi0_1 s
       let e2 := Gen.krovak_Krovak_E2_1 s
       let s := { s with e := Gen.krovak_Krovak_thisE_2 e2 }
       let alfa := Gen.krovak_Krovak_Alfa_1 e2 fi0
       let u0 := Gen.krovak_Krovak_U0_1 fi0 alfa
       let g := Gen.krovak_Krovak_G_1 s fi0 alfa
       let k := Gen.krovak_Krovak_K_1 u0 Gen.krovak_Krovak_constS45_1 fi0 alfa g
       let k1 := Gen.krovak_Krovak_K1_1 s
       let n0 := Gen.krovak_Krovak_N0_1 s e2 fi0
       let n := Gen.krovak_Krovak_N_1 Gen.krovak_Krovak_constS0_1
       let ro0 := Gen.krovak_Krovak_Ro0_1 k1 n0 Gen.krovak_Krovak_constS0_1
       let ad := Gen.krovak_Krovak_Ad_1 (Gen.krovak_Krovak_constS90_1 Gen.krovak_Krovak_constS45_1) Gen.krovak_Krovak_constUq_1
       .ok ⟨s, alfa, k, n, ro0, ad⟩) := by
  rw [krovak_ad_real, krovak_long0_real]; rfl

theorem krovak_forward_ro_real (ro0 n s : ℝ) :
    Gen.krovak_forward_ro_1 ro0 Gen.krovak_Krovak_constS0_1 Gen.krovak_Krovak_constS45_1 n s
      = ro0 * pow (tan (s0half45 : ℝ)) n / pow (tan (s / 2.0 + s45)) n := by
  unfold Gen.krovak_forward_ro_1
  rw [← krovak_s0half_real]; rfl

theorem krovak_inverse_s_real (ro0 ro n : ℝ) :
    Gen.krovak_inverse_s_1 ro0 ro n Gen.krovak_Krovak_constS0_1 Gen.krovak_Krovak_constS45_1
      = 2.0 * (atan (pow (ro0 / ro) (1.0 / n) * tan (s0half45 : ℝ)) - s45) := by
  unfold Gen.krovak_inverse_s_1
  rw [← krovak_s0half_real]; rfl

theorem tie_fwdKrovak_real (c : KrovakC ℝ) (lon lat : ℝ) :
    fwdKrovak c lon lat =
      (let s := c.sr
       let delta_lon := Gen.krovak_forward_delta_lon_1 s lon
       let gfi := Gen.krovak_forward_gfi_1 s lat c.alfa
       let u := Gen.krovak_forward_u_1 c.k lat Gen.krovak_Krovak_constS45_1 c.alfa gfi
       let deltav := Gen.krovak_forward_deltav_1 delta_lon c.alfa
       let ss := Gen.krovak_forward_s_1 c.ad u deltav
       let d := Gen.krovak_forward_d_1 u deltav ss
       let eps := Gen.krovak_forward_eps_1 c.n d
       let ro := Gen.krovak_forward_ro_1 c.ro0 Gen.krovak_Krovak_constS0_1 Gen.krovak_Krovak_constS45_1 c.n ss
       let y := Gen.krovak_forward_y_1 ro eps
       let x := Gen.krovak_forward_x_1 ro eps
       if !s.czech then .ok (Gen.krovak_forward_x_2 x, Gen.krovak_forward_y_2 y) else .ok (x, y)) := by
  simp only [krovak_forward_ro_real]; rfl

theorem tie_invKrovakVals_real (c : KrovakC ℝ) (x y : ℝ) :
    invKrovakVals c x y =
      (let s := c.sr
       let (x, y) := (y, x)
       let (x, y) : ℝ × ℝ := if !s.czech then (Gen.krovak_inverse_x_1 x, Gen.krovak_inverse_y_1 y) else (x, y)
       let ro := Gen.krovak_inverse_ro_1 x y
       let eps := Gen.krovak_inverse_eps_1 y x
       let d := Gen.krovak_inverse_d_1 eps Gen.krovak_Krovak_constS0_1
       let ss := Gen.krovak_inverse_s_1 c.ro0 ro c.n Gen.krovak_Krovak_constS0_1 Gen.krovak_Krovak_constS45_1
       let u := Gen.krovak_inverse_u_1 c.ad ss d
       let deltav := Gen.krovak_inverse_deltav_1 ss d u
       let lonv := Gen.krovak_inverse_x_2 s deltav c.alfa
       let (latv, iter) := krovakLatLoop c u Gen.krovak_inverse_cond_lt_1_rnat (Gen.krovak_inverse_fi1_1 u) y Gen.krovak_inverse_natiter_1
       (lonv, if iter ≥ Gen.krovak_inverse_cond_ge_1_rnat then none else some latv)) := by
  simp only [krovak_inverse_s_real]; rfl

/-- datum.go's `genau`, `genau2` over ℝ (`1e-12` vs the model's `1.0e-12`, `genau*genau` vs `1.0e-24`) -/
theorem datum_genau_real :
    (Gen.datum_geocentric_to_geodetic_constgenau_1 : ℝ) = 1.0e-12 ∧
    Gen.datum_geocentric_to_geodetic_constgenau2_1 (Gen.datum_geocentric_to_geodetic_constgenau_1 : ℝ) = 1.0e-24 := by
  unfold Gen.datum_geocentric_to_geodetic_constgenau2_1 Gen.datum_geocentric_to_geodetic_constgenau_1
  constructor <;> norm_num

end GeomV.C08.Ties
