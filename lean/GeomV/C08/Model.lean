import GeomV.Common.Geom
import GeomV.C08.ProjPipeline
/-!
# C08 model: package `proj` (eight projections, datum code, the NewTransform pipeline)

The model proper lives in `Num.lean` (number classes), `ProjCommon.lean` (common.go, records),
`ProjMerc/Lcc/Aea/Eqdc/Tmerc/Krovak.lean`, `ProjDatum.lean`, `ProjPipeline.lean` — every function
written once, generic over `RTrans α`.  This file instantiates it at `Float` for the driver and
reads the `*SR` dump that the harness prints right after `proj.Parse`.
-/
namespace GeomV.C08
open GeomV

/-- the names `registerTrans` registers (lower-cased; the harness prints ' ' as '~') -/
def pnameOf : String → PName
  | "longlat" => .longlat
  | "merc" | "mercator" | "popular~visualisation~pseudo~mercator" | "mercator_1sp"
  | "mercator_auxiliary_sphere" => .merc
  | "lcc" | "lambert~tangential~conformal~conic~projection" | "lambert_conformal_conic"
  | "lambert_conformal_conic_2sp" => .lcc
  | "aea" | "albers_conic_equal_area" | "albers" => .aea
  | "eqdc" | "equidistant_conic" => .eqdc
  | "tmerc" | "transverse_mercator" | "transverse~mercator" => .tmerc
  | "utm" | "universal~transverse~mercator~system" => .utm
  | "krovak" => .krovak
  | _ => .other

def hexF (s : String) : Option Float := (parseU64 s).map Float.ofBits

def takeFloats : Nat → Tok → Option (List Float × Tok)
  | 0, t => some ([], t)
  | n+1, s :: t => do
    let f ← hexF s
    let (fs, r) ← takeFloats n t
    pure (f :: fs, r)
  | _, [] => none

/-- number of tokens of one SR dump -/
def dumpLen : Nat := 38

/-- parse the harness's SR dump (see harness/cmd/c08/main.go `srDump`) -/
def parseSR (t : Tok) : Option (SR Float × Tok) :=
  match t with
  | name :: t => do
    let (f, t) ← takeFloats 18 t
    match f, t with
    | [lat0, lat1, lat2, latTS, long0, x0, y0, k0, k, a, b, rf, es, e, ep2, zone, toMeter, fromGreenwich],
      sph :: ra :: south :: czech :: axis :: wgs :: dtype :: t => do
      let (d, t) ← takeFloats 4 t
      match d, t with
      | [da, db, des, dep2], np :: t => do
        let (p, t) ← takeFloats 7 t
        match p with
        | [p0, p1, p2, p3, p4, p5, p6] =>
          let dat : Datum Float := ⟨dtype.toNat?.getD 0, da, db, des, dep2, np.toNat?.getD 0, p0, p1, p2, p3, p4, p5, p6⟩
          some ({ name := pnameOf name, lat0, lat1, lat2, latTS, long0, x0, y0, k0, k, a, b, rf, es, e, ep2,
                  zone, toMeter, fromGreenwich, sphere := sph == "1", ra := ra == "1",
                  utmSouth := south == "1", czech := czech == "1", axis := axis.toList,
                  datumCode := (if wgs == "-" then "" else wgs), datum := dat }, t)
        | _ => none
      | _, _ => none
    | _, _ => none
  | [] => none

/-- the executable pipeline -/
def transformF (source dest : SR Float) (x y : Float) : Except Err (Float × Float) :=
  transform (wgs84SR : SR Float) source dest x y

end GeomV.C08
