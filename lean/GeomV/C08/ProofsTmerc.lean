import GeomV.C08.ProofsConic
/-!
# C08 — spherical transverse Mercator (after fix fc8adbb: atan2 / sin² form): exact inverse
-/
set_option linter.unusedSimpArgs false
namespace GeomV.C08
open Real

/-- facts about `b = cos φ sin Δ`, `D = √(1 − b²)`, `f = exp(½ log((1+b)/(1−b)))`, `g = ½(f − 1/f)` -/
theorem tm_core (phi dl : ℝ) (hb : |cos phi * sin dl| < 1) :
    let b := cos phi * sin dl
    let D := sqrt (1 - b * b)
    let f := exp (0.5 * log ((1 + b) / (1 - b)))
    let g := 0.5 * (f - 1 / f)
    0 < D ∧ D * D = (cos phi * cos dl) ^ 2 + (sin phi) ^ 2 ∧ g = b / D ∧ 1 + g * g = 1 / (D * D) := by
  intro b D f g
  obtain ⟨hb1, hb2⟩ := abs_lt.mp hb
  have h1b : 0 < 1 - b := by linarith
  have h1pb : 0 < 1 + b := by linarith
  have hDD : 0 < 1 - b * b := by nlinarith
  have hD : 0 < D := Real.sqrt_pos.mpr hDD
  have hD2 : D * D = 1 - b * b := Real.mul_self_sqrt hDD.le
  have hu : 0 < (1 + b) / (1 - b) := div_pos h1pb h1b
  have hf : 0 < f := exp_pos _
  have hff : f * f = (1 + b) / (1 - b) := by
    show exp _ * exp _ = _
    rw [← exp_add, show (0.5 : ℝ) * log ((1 + b) / (1 - b)) + 0.5 * log ((1 + b) / (1 - b)) = log ((1 + b) / (1 - b)) by ring,
      exp_log hu]
  -- (1 - b) f = D  (both positive, equal squares)
  have hfD : (1 - b) * f = D := by
    have hpos : 0 < (1 - b) * f := mul_pos h1b hf
    have hsq : ((1 - b) * f) * ((1 - b) * f) = D * D := by
      rw [hD2, show ((1 - b) * f) * ((1 - b) * f) = (1 - b) * (1 - b) * (f * f) by ring, hff]
      field_simp; ring
    nlinarith [mul_self_eq_mul_self_iff.mp hsq]
  have hg : g = b / D := by
    show 0.5 * (f - 1 / f) = b / D
    rw [← hfD]
    have : f ≠ 0 := hf.ne'
    have h1 : (1 : ℝ) - b ≠ 0 := h1b.ne'
    field_simp
    have : f ^ 2 = (1 + b) / (1 - b) := by rw [sq]; exact hff
    rw [this]; field_simp; ring
  refine ⟨hD, ?_, hg, ?_⟩
  · rw [hD2]; show 1 - cos phi * sin dl * (cos phi * sin dl) = _
    nlinarith [sin_sq_add_cos_sq phi, sin_sq_add_cos_sq dl]
  · rw [hg]; have := hD.ne'
    field_simp; nlinarith [hD2]

/-- the northing angle `atan2(|sin φ|, cos φ cos Δ)` : its cosine, sine and sign -/
theorem tm_angle (phi dl : ℝ) (hb : |cos phi * sin dl| < 1) :
    let z : ℂ := ⟨cos phi * cos dl, |sin phi|⟩
    let D := sqrt (1 - cos phi * sin dl * (cos phi * sin dl))
    cos z.arg = cos phi * cos dl / D ∧ sin z.arg = |sin phi| / D ∧ 0 ≤ z.arg ∧ (sin phi ≠ 0 → 0 < z.arg) := by
  intro z D
  obtain ⟨hD, hD2, _, _⟩ := tm_core phi dl hb
  have hnorm : ‖z‖ = D := by
    rw [Complex.norm_eq_sqrt_sq_add_sq]
    show sqrt ((cos phi * cos dl) ^ 2 + |sin phi| ^ 2) = D
    rw [sq_abs, ← hD2]; exact Real.sqrt_mul_self hD.le
  have hz : z ≠ 0 := by
    intro h; rw [h, norm_zero] at hnorm; exact hD.ne hnorm
  refine ⟨by rw [Complex.cos_arg hz, hnorm], by rw [Complex.sin_arg, hnorm], ?_, ?_⟩
  · exact Complex.arg_nonneg_iff.mpr (abs_nonneg _)
  · intro hs
    have h0 : 0 ≤ z.arg := Complex.arg_nonneg_iff.mpr (abs_nonneg _)
    rcases h0.lt_or_eq with h | h
    · exact h
    · exfalso
      have := (Complex.arg_eq_zero_iff.mp h.symm).2
      exact hs (abs_eq_zero.mp this)

/-- **tmerc_sphere_inv**: spherical transverse Mercator (code after fix fc8adbb), for `|φ| < π/2`,
`|cos φ sin(λ−λ₀)| ≤ 1 − 1e-10` (the code's own guard), `λ−λ₀ ∈ (−π, π]`, `|λ|, |λ−λ₀| ≤ sPi`,
`a·k0 > 0`, any `lat_0`: inverse(forward(λ, φ)) = (λ, φ). -/
theorem C08_tmerc_sphere_inv (c : TmercC ℝ) (hs : c.sr.sphere = true) (hak : 0 < c.sr.a * c.sr.k0)
    (lon lat : ℝ) (hlat : |lat| < π / 2) (hb : |cos lat * sin (lon - c.sr.long0)| ≤ 1 - 1.0e-10)
    (hlon : |lon| ≤ sPi) (hdl : |lon - c.sr.long0| ≤ sPi)
    (h1 : -π < lon - c.sr.long0) (h2 : lon - c.sr.long0 ≤ π) :
    (fwdTmerc c lon lat).bind (fun q => invTmerc c q.1 q.2) = .ok (lon, lat) := by
  obtain ⟨hl1, hl2⟩ := abs_lt.mp hlat
  set dl := lon - c.sr.long0 with hdl_def
  have hb' : |cos lat * sin dl| < 1 := lt_of_le_of_lt hb (by norm_num)
  have hcos : 0 < cos lat := cos_pos_of_mem_Ioo ⟨hl1, hl2⟩
  obtain ⟨hD, hD2, hg, hg2⟩ := tm_core lat dl hb'
  obtain ⟨hca, hsa, ha0, hapos⟩ := tm_angle lat dl hb'
  have hguard : ¬ (|(|cos lat * sin dl| - 1)| < (0.0000000001 : ℝ)) := by
    rw [abs_of_nonpos (by linarith)]; norm_num at hb ⊢; linarith
  simp only [fwdTmerc, invTmerc, hs, if_true, adjustLon_id hdl, ← hdl_def, sin_real, cos_real, lt_real, abs_real,
    lit_one, lit_zero, hguard, decide_false, if_false, Bool.false_eq_true, log_real, atan2_real, exp_real,
    sqrt_real, bind, Except.bind, pure, Except.pure, eq_real]
  have hak0 : c.sr.a * c.sr.k0 ≠ 0 := hak.ne'
  have ha' : c.sr.a ≠ 0 := left_ne_zero_of_mul hak0
  have hk' : c.sr.k0 ≠ 0 := right_ne_zero_of_mul hak0
  have ex : 0.5 * c.sr.a * c.sr.k0 * log ((1 + cos lat * sin dl) / (1 - cos lat * sin dl)) / (c.sr.a * c.sr.k0)
      = 0.5 * log ((1 + cos lat * sin dl) / (1 - cos lat * sin dl)) := by field_simp
  have et : ∀ w : ℝ, c.sr.lat0 + c.sr.a * c.sr.k0 * (w - c.sr.lat0) / (c.sr.a * c.sr.k0) = w := by
    intro w; field_simp; ring
  simp only [ex, et, hg]
  set A := Complex.arg ⟨cos lat * cos dl, |sin lat|⟩ with hA
  set D := sqrt (1 - cos lat * sin dl * (cos lat * sin dl)) with hDdef
  have hcs : ∀ w : ℝ, (w = A ∨ w = -A) → cos w = cos lat * cos dl / D ∧ sin w * sin w = sin lat * sin lat / (D * D) := by
    intro w hw
    rcases hw with h | h <;> subst h
    · rw [hca, hsa]; refine ⟨rfl, ?_⟩
      rw [div_mul_div_comm, abs_mul_abs_self]
    · rw [cos_neg, sin_neg, hca, hsa]; refine ⟨rfl, ?_⟩
      rw [neg_mul_neg, div_mul_div_comm, abs_mul_abs_self]
  have hg2' : 1 + cos lat * sin dl / D * (cos lat * sin dl / D) = 1 / (D * D) := by rw [← hg]; exact hg2
  have hDne : D ≠ 0 := hD.ne'
  have hr : 0 < cos lat / D := div_pos hcos hD
  have harg : Complex.arg ⟨cos lat * cos dl / D, cos lat * sin dl / D⟩ = dl := by
    have := arg_polar (cos lat / D) dl hr h1 h2
    rw [show cos lat * cos dl / D = cos lat / D * cos dl by ring, show cos lat * sin dl / D = cos lat / D * sin dl by ring]
    exact this
  have hnot : ∀ w : ℝ, cos w = cos lat * cos dl / D →
      ¬ ((decide (cos lat * sin dl / D = 0) && decide (cos w = 0)) = true) := by
    intro w hw h
    simp only [Bool.and_eq_true, decide_eq_true_eq] at h
    obtain ⟨hb0, hc0⟩ := h
    rw [hw] at hc0
    have hs0 : sin dl = 0 := by
      have := (div_eq_zero_iff.mp hb0).resolve_right hDne
      exact (mul_eq_zero.mp this).resolve_left hcos.ne'
    have hc0' : cos dl = 0 := by
      have := (div_eq_zero_iff.mp hc0).resolve_right hDne
      exact (mul_eq_zero.mp this).resolve_left hcos.ne'
    have := sin_sq_add_cos_sq dl
    rw [hs0, hc0'] at this; norm_num at this
  have hsqrt : ∀ w : ℝ, sin w * sin w = sin lat * sin lat / (D * D) →
      sqrt (sin w * sin w / (1 + cos lat * sin dl / D * (cos lat * sin dl / D))) = |sin lat| := by
    intro w hw
    rw [hw, hg2', show sin lat * sin lat / (D * D) / (1 / (D * D)) = sin lat * sin lat by field_simp]
    exact Real.sqrt_mul_self_eq_abs _
  have hasinz : asinz |sin lat| = arcsin |sin lat| := by
    have : ¬ ((1.0 : ℝ) < |sin lat|) := by rw [lit_one]; exact not_lt.mpr (abs_sin_le_one lat)
    simp [asinz, this]
  have e1 : dl + c.sr.long0 = lon := by rw [hdl_def]; ring
  have hnot0 : ¬ ((decide (cos lat * sin dl / D = 0) && decide (cos lat * cos dl / D = 0)) = true) := by
    have := hnot A (hcs A (Or.inl rfl)).1
    rwa [(hcs A (Or.inl rfl)).1] at this
  by_cases hneg : lat < 0
  · have hsl : sin lat < 0 := by
      have := sin_pos_of_pos_of_lt_pi (x := -lat) (by linarith) (by linarith [pi_pos])
      rw [sin_neg] at this; linarith
    have hApos := hapos hsl.ne
    obtain ⟨hcW, hsW⟩ := hcs (-A) (Or.inr rfl)
    simp only [hneg, decide_true, if_true, hcW, hnot0, if_false, harg, hsqrt (-A) hsW, hasinz,
      show (-A < 0) from by linarith, e1, adjustLon_id hlon]
    rw [abs_of_neg hsl, ← sin_neg, arcsin_sin (by linarith) (by linarith)]; simp
  · have hge : 0 ≤ lat := not_lt.mp hneg
    have hsl : 0 ≤ sin lat := sin_nonneg_of_nonneg_of_le_pi hge (by linarith [pi_pos])
    obtain ⟨hcW, hsW⟩ := hcs A (Or.inl rfl)
    simp only [hneg, decide_false, if_false, Bool.false_eq_true, hcW, hnot0, harg, hsqrt A hsW, hasinz,
      show ¬ (A < 0) from not_lt.mpr ha0, e1, adjustLon_id hlon]
    rw [abs_of_nonneg hsl, arcsin_sin (by linarith) (by linarith)]

/-- **utm_sphere_inv**: UTM on a sphere is the spherical transverse Mercator with `lat_0 = 0`,
`lon_0 = (6·|zone| − 183)·deg2rad`, `k0 = 0.9996` (the constructor overwrites the record and calls `TMerc`): for every
zone and every `a > 0` the constructor succeeds and inverse(forward(λ, φ)) = (λ, φ) under the conditions of
`C08_tmerc_sphere_inv` stated with the zone's central meridian. -/
theorem C08_utm_sphere_inv (s : SR ℝ) (hs : s.sphere = true) (ha : 0 < s.a) :
    ∃ c : TmercC ℝ, initUtm s = .ok c ∧ c.sr.long0 = (6.0 * |s.zone| - 183.0) * deg2rad ∧ c.sr.k0 = 0.9996 ∧
      c.sr.lat0 = 0 ∧
      ∀ lon lat : ℝ, |lat| < π / 2 → |cos lat * sin (lon - c.sr.long0)| ≤ 1 - 1.0e-10 → |lon| ≤ sPi →
        |lon - c.sr.long0| ≤ sPi → -π < lon - c.sr.long0 → lon - c.sr.long0 ≤ π →
        (fwdTmerc c lon lat).bind (fun q => invTmerc c q.1 q.2) = .ok (lon, lat) := by
  refine ⟨_, by simp only [initUtm, isNaN_real, Bool.false_eq_true, if_false, initTmerc]; rfl, rfl, rfl, by norm_num, ?_⟩
  intro lon lat h1 h2 h3 h4 h5 h6
  apply C08_tmerc_sphere_inv _ hs _ lon lat h1 h2 h3 h4 h5 h6
  show 0 < s.a * 0.9996
  exact mul_pos ha (by norm_num)

end GeomV.C08
