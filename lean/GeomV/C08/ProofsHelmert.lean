import GeomV.C08.Proofs
import Mathlib.Tactic.Positivity
/-!
# C08 — the 7-parameter (Helmert) stage: `geocentric_from_wgs84 ∘ geocentric_to_wgs84` is NOT the identity

`to`  : v ↦ M·(I + Ω)v + t,  Ω = [ω]ₓ the small-angle rotation, ω = (rx, ry, rz) = (p3, p4, p5), M = p6;
`from`: w ↦ (I − Ω)((w − t)/M).  Hence `from(to v) = (I − Ω²)v = v + |ω|²v − (ω·v)ω` EXACTLY: the residual is
second order in the rotation, perpendicular to ω, of length `|ω|·|ω × v| ≤ |ω|²·|v|`.
This is the a-priori bound the judge uses for the known finding `helmert-small-angle`
(`2·6.4e6·(|rx|+|ry|+|rz|)²` on the ground; `|ω|² ≤ (|rx|+|ry|+|rz|)²`, `|v| ≤ 6.4e6`).
-/
set_option linter.unusedSimpArgs false
namespace GeomV.C08
open Real

/-- **helmert_residual** (exact): for a 7-parameter datum with scale `p6 ≠ 0`, ANY translation and rotation,
`geocentric_from_wgs84 (geocentric_to_wgs84 v) = v + |ω|²·v − (ω·v)·ω`. -/
theorem C08_helmert_residual (d : Datum ℝ) (x y z : ℝ) (hd : d.dtype = pjd7Param) (h6 : d.p6 ≠ 0) :
    (let (x1, y1, z1) := geocentricToWgs84 d x y z; geocentricFromWgs84 d x1 y1 z1) =
      (x + (d.p3 ^ 2 + d.p4 ^ 2 + d.p5 ^ 2) * x - (d.p3 * x + d.p4 * y + d.p5 * z) * d.p3,
       y + (d.p3 ^ 2 + d.p4 ^ 2 + d.p5 ^ 2) * y - (d.p3 * x + d.p4 * y + d.p5 * z) * d.p4,
       z + (d.p3 ^ 2 + d.p4 ^ 2 + d.p5 ^ 2) * z - (d.p3 * x + d.p4 * y + d.p5 * z) * d.p5) := by
  have h12 : pjd7Param ≠ pjd3Param := by decide
  simp only [geocentricToWgs84, geocentricFromWgs84, hd, h12, if_false, if_true]
  ext <;> simp <;> field_simp <;> ring

/-- **helmert_residual_bound**: the residual of the small-angle inverse has squared length
`|ω|²·(|ω|²|v|² − (ω·v)²) ≤ (|ω|²)²·|v|²`, i.e. it is at most `|ω|²·|v|` long (0.6 mm for the built-in
7-parameter datums at the Earth's surface). -/
theorem C08_helmert_residual_bound (d : Datum ℝ) (x y z : ℝ) (hd : d.dtype = pjd7Param) (h6 : d.p6 ≠ 0) :
    let r := (let (x1, y1, z1) := geocentricToWgs84 d x y z; geocentricFromWgs84 d x1 y1 z1)
    (r.1 - x) ^ 2 + (r.2.1 - y) ^ 2 + (r.2.2 - z) ^ 2
      ≤ ((d.p3 ^ 2 + d.p4 ^ 2 + d.p5 ^ 2) ^ 2) * (x ^ 2 + y ^ 2 + z ^ 2) := by
  intro r
  have hr : r = _ := C08_helmert_residual d x y z hd h6
  rw [hr]
  simp only
  have key : (x + (d.p3 ^ 2 + d.p4 ^ 2 + d.p5 ^ 2) * x - (d.p3 * x + d.p4 * y + d.p5 * z) * d.p3 - x) ^ 2
      + (y + (d.p3 ^ 2 + d.p4 ^ 2 + d.p5 ^ 2) * y - (d.p3 * x + d.p4 * y + d.p5 * z) * d.p4 - y) ^ 2
      + (z + (d.p3 ^ 2 + d.p4 ^ 2 + d.p5 ^ 2) * z - (d.p3 * x + d.p4 * y + d.p5 * z) * d.p5 - z) ^ 2
      = (d.p3 ^ 2 + d.p4 ^ 2 + d.p5 ^ 2) ^ 2 * (x ^ 2 + y ^ 2 + z ^ 2)
        - (d.p3 ^ 2 + d.p4 ^ 2 + d.p5 ^ 2) * (d.p3 * x + d.p4 * y + d.p5 * z) ^ 2 := by ring
  rw [key]
  have : 0 ≤ (d.p3 ^ 2 + d.p4 ^ 2 + d.p5 ^ 2) * (d.p3 * x + d.p4 * y + d.p5 * z) ^ 2 := by positivity
  linarith

/-- `|ω|² ≤ (|rx| + |ry| + |rz|)²`: the judge's rotation sum dominates -/
theorem rot_sq_le_sum_sq (a b c : ℝ) : a ^ 2 + b ^ 2 + c ^ 2 ≤ (|a| + |b| + |c|) ^ 2 := by
  have ha := sq_abs a; have hb := sq_abs b; have hc := sq_abs c
  nlinarith [abs_nonneg a, abs_nonneg b, abs_nonneg c, mul_nonneg (abs_nonneg a) (abs_nonneg b),
    mul_nonneg (abs_nonneg a) (abs_nonneg c), mul_nonneg (abs_nonneg b) (abs_nonneg c)]

/-- **helmert_not_identity** (the negation, with the built-in datum of largest rotation as the witness shape):
whenever ω ≠ 0 and v is not parallel to ω the round trip moves v. Concrete witness: ω = (0, 0, 1e-5), v = (1, 0, 0). -/
theorem C08_helmert_not_identity :
    ∃ (d : Datum ℝ) (x y z : ℝ), d.dtype = pjd7Param ∧ d.p6 ≠ 0 ∧
      (let (x1, y1, z1) := geocentricToWgs84 d x y z; geocentricFromWgs84 d x1 y1 z1) ≠ (x, y, z) := by
  refine ⟨⟨pjd7Param, 1, 1, 0, 0, 7, 0, 0, 0, 0, 0, 1e-5, 1⟩, 1, 0, 0, rfl, by norm_num, ?_⟩
  rw [C08_helmert_residual _ _ _ _ rfl (by norm_num)]
  intro h
  have := congrArg Prod.fst h
  norm_num at this

end GeomV.C08
