import GeomV.C08.ProofsConverge
import Mathlib.Topology.Order.IntermediateValue
/-!
# C08 — phase 3, wave 2: existence of the footpoint latitude (the hypothesis `mlfn p = con` of
`C08_tmerc_footpoint_converges` is now a theorem)
-/
set_option linter.unusedSimpArgs false
namespace GeomV.C08
open Real Set

theorem mlfn_continuous (e0 e1 e2 e3 : ℝ) : Continuous (fun x => mlfn e0 e1 e2 e3 x) :=
  continuous_iff_continuousAt.mpr fun x => (mlfn_hasDerivAt e0 e1 e2 e3 x).continuousAt

theorem mlfn_near_linear (e0 e1 e2 e3 x : ℝ) : |mlfn e0 e1 e2 e3 x - e0 * x| ≤ |e1| + |e2| + |e3| := by
  have e : mlfn e0 e1 e2 e3 x - e0 * x = -(e1 * sin (2 * x)) + e2 * sin (4 * x) - e3 * sin (6 * x) := by
    simp only [mlfn, sin_real]; norm_num; ring
  have b : ∀ (a t : ℝ), |a * sin t| ≤ |a| := fun a t => by
    rw [abs_mul]; exact mul_le_of_le_one_right (abs_nonneg _) (abs_sin_le_one _)
  rw [e]
  calc |-(e1 * sin (2 * x)) + e2 * sin (4 * x) - e3 * sin (6 * x)|
      ≤ |-(e1 * sin (2 * x)) + e2 * sin (4 * x)| + |e3 * sin (6 * x)| := abs_sub _ _
    _ ≤ |-(e1 * sin (2 * x))| + |e2 * sin (4 * x)| + |e3 * sin (6 * x)| := by
        have := abs_add_le (-(e1 * sin (2 * x))) (e2 * sin (4 * x)); linarith
    _ ≤ |e1| + |e2| + |e3| := by
        rw [abs_neg]; have := b e1 (2 * x); have := b e2 (4 * x); have := b e3 (6 * x); linarith

/-- **tmerc_footpoint_exists** (existence of the footpoint latitude): for `e0 > 0` EVERY value `con` of the rectified
meridian distance is the `mlfn` of some latitude `p`, and `p` lies within `(|e1|+|e2|+|e3|)/e0` of `con/e0`
(intermediate value theorem; `mlfn` is continuous and within `|e1|+|e2|+|e3|` of `e0·φ`). -/
theorem C08_tmerc_footpoint_exists (e0 e1 e2 e3 con : ℝ) (h0 : 0 < e0) :
    ∃ p, mlfn e0 e1 e2 e3 p = con ∧ |p - con / e0| ≤ (|e1| + |e2| + |e3|) / e0 := by
  set D := |e1| + |e2| + |e3| with hD
  have hD0 : 0 ≤ D := by positivity
  have hab : (con - D) / e0 ≤ (con + D) / e0 := div_le_div_of_nonneg_right (by linarith) h0.le
  have hfa : mlfn e0 e1 e2 e3 ((con - D) / e0) ≤ con := by
    have := abs_le.mp (mlfn_near_linear e0 e1 e2 e3 ((con - D) / e0))
    have e : e0 * ((con - D) / e0) = con - D := by field_simp
    linarith [this.2]
  have hfb : con ≤ mlfn e0 e1 e2 e3 ((con + D) / e0) := by
    have := abs_le.mp (mlfn_near_linear e0 e1 e2 e3 ((con + D) / e0))
    have e : e0 * ((con + D) / e0) = con + D := by field_simp
    linarith [this.1]
  obtain ⟨p, hp, hpc⟩ := intermediate_value_Icc hab (mlfn_continuous e0 e1 e2 e3).continuousOn ⟨hfa, hfb⟩
  refine ⟨p, hpc, ?_⟩
  rw [abs_le]
  have e1' : (con - D) / e0 = con / e0 - D / e0 := by ring
  have e2' : (con + D) / e0 = con / e0 + D / e0 := by ring
  constructor <;> linarith [hp.1, hp.2]

/-- **tmerc_footpoint_converges_all** (no hypothesis about the footpoint any more): `0.9 ≤ e0 ≤ 1.1`, the series
dominated by a factor 100 (Earth: 200) and `|con| ≤ 2` (a meridian distance over `a` is below `π/2·e0`): the footpoint
latitude EXISTS, is UNIQUE, and the loop of the ellipsoidal TM/UTM inverse started at `con` returns within its 7
updates, within 1.1e-12 rad of it. -/
theorem C08_tmerc_footpoint_converges_all (c : TmercC ℝ) (hlo : 0.9 ≤ c.e0) (hhi : c.e0 ≤ 1.1)
    (hdom : 100 * (2 * |c.e1| + 4 * |c.e2| + 6 * |c.e3|) ≤ c.e0) (con : ℝ) (hcon : |con| ≤ 2) :
    ∃ p, mlfn c.e0 c.e1 c.e2 c.e3 p = con ∧ (∀ p', mlfn c.e0 c.e1 c.e2 c.e3 p' = con → p' = p) ∧
      ∃ r, tmercPhiLoop c con 7 con = .ok r ∧ |r - p| ≤ 1.1e-12 := by
  have h0 : 0 < c.e0 := by linarith
  obtain ⟨p, hp, hnear⟩ := C08_tmerc_footpoint_exists c.e0 c.e1 c.e2 c.e3 con h0
  have hmono := mlfn_strictMono c.e0 c.e1 c.e2 c.e3 (by
    have : 0 ≤ 2 * |c.e1| + 4 * |c.e2| + 6 * |c.e3| := by positivity
    linarith)
  refine ⟨p, hp, fun p' hp' => hmono.injective (by simp only [hp, hp']), ?_⟩
  apply C08_tmerc_footpoint_converges c h0 hdom con p hp
  -- |con - p| ≤ |con - con/e0| + D/e0
  have hD : (|c.e1| + |c.e2| + |c.e3|) / c.e0 ≤ 0.005 := by
    rw [div_le_iff₀ h0]
    have := abs_nonneg c.e1; have := abs_nonneg c.e2; have := abs_nonneg c.e3
    linarith
  have hsc : |con - con / c.e0| ≤ 0.25 := by
    have e : con - con / c.e0 = con * ((c.e0 - 1) / c.e0) := by field_simp
    rw [e, abs_mul]
    have h1 : |(c.e0 - 1) / c.e0| ≤ 0.125 := by
      rw [abs_div, abs_of_pos h0, div_le_iff₀ h0, abs_le]; constructor <;> linarith
    calc |con| * |(c.e0 - 1) / c.e0| ≤ 2 * 0.125 := mul_le_mul hcon h1 (abs_nonneg _) (by norm_num)
      _ = 0.25 := by norm_num
  have : |con - p| ≤ |con - con / c.e0| + |p - con / c.e0| := by
    have := abs_sub_le con (con / c.e0) p
    rwa [abs_sub_comm (con / c.e0) p] at this
  linarith

/-- non-vacuity (GRS80: e0 = 0.998324…, e1 = 0.002514…, e2 = 2.6e-6, e3 = 3.4e-9) -/
example : ∃ c : TmercC ℝ, 0.9 ≤ c.e0 ∧ c.e0 ≤ 1.1 ∧ 100 * (2 * |c.e1| + 4 * |c.e2| + 6 * |c.e3|) ≤ c.e0 :=
  ⟨⟨default, 0.998324, 0.002514, 0.0000026, 0.0000000034, 0⟩,
    by norm_num, by norm_num, by norm_num [abs_of_pos]⟩

end GeomV.C08
