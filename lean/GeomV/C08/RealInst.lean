import GeomV.C08.Num
import Mathlib.Analysis.SpecialFunctions.Trigonometric.Arctan
import Mathlib.Analysis.SpecialFunctions.Trigonometric.Inverse
import Mathlib.Analysis.SpecialFunctions.Pow.Real
import Mathlib.Analysis.SpecialFunctions.Complex.Arg
import Mathlib.Analysis.SpecialFunctions.Exp
import Mathlib.Analysis.SpecialFunctions.Log.Basic
/-!
# The `ℝ` instance of the number classes (proof side)

`isNaN` is `false` (there is no NaN over ℝ: every `*SR` field is set), comparisons are the
classical decisions, `atan2 y x` is `Complex.arg (x + y i)`, `pow` is `Real.rpow`.
-/
namespace GeomV.C08
open Classical

noncomputable instance instRNumReal : RNum ℝ where
  toAdd := inferInstance
  toSub := inferInstance
  toMul := inferInstance
  toDiv := inferInstance
  toNeg := inferInstance
  toOfScientific := inferInstance
  lt a b := decide (a < b)
  le a b := decide (a ≤ b)
  eq a b := decide (a = b)
  abs a := |a|
  isNaN _ := false
  nan := 0

noncomputable instance instRTransReal : RTrans ℝ where
  toRNum := instRNumReal
  pi := Real.pi
  sqrt := Real.sqrt
  sin := Real.sin
  cos := Real.cos
  tan := Real.tan
  asin := Real.arcsin
  acos := Real.arccos
  atan := Real.arctan
  atan2 y x := Complex.arg ⟨x, y⟩
  exp := Real.exp
  log := Real.log
  pow x y := x ^ y

section
variable (a b : ℝ)
@[simp] theorem lt_real : RNum.lt a b = decide (a < b) := rfl
@[simp] theorem le_real : RNum.le a b = decide (a ≤ b) := rfl
@[simp] theorem eq_real : RNum.eq a b = decide (a = b) := rfl
@[simp] theorem gt_real : RNum.gt a b = decide (b < a) := rfl
@[simp] theorem ge_real : RNum.ge a b = decide (b ≤ a) := rfl
@[simp] theorem ne_real : RNum.ne a b = !decide (a = b) := rfl
@[simp] theorem abs_real : RNum.abs a = |a| := rfl
@[simp] theorem isNaN_real : RNum.isNaN a = false := rfl
@[simp] theorem pi_real : (RTrans.pi : ℝ) = Real.pi := rfl
@[simp] theorem sqrt_real : RTrans.sqrt a = Real.sqrt a := rfl
@[simp] theorem sin_real : RTrans.sin a = Real.sin a := rfl
@[simp] theorem cos_real : RTrans.cos a = Real.cos a := rfl
@[simp] theorem tan_real : RTrans.tan a = Real.tan a := rfl
@[simp] theorem asin_real : RTrans.asin a = Real.arcsin a := rfl
@[simp] theorem acos_real : RTrans.acos a = Real.arccos a := rfl
@[simp] theorem atan_real : RTrans.atan a = Real.arctan a := rfl
@[simp] theorem atan2_real : RTrans.atan2 a b = Complex.arg ⟨b, a⟩ := rfl
@[simp] theorem exp_real : RTrans.exp a = Real.exp a := rfl
@[simp] theorem log_real : RTrans.log a = Real.log a := rfl
@[simp] theorem pow_real : RTrans.pow a b = a ^ b := rfl
end

end GeomV.C08
