import GeomV.C08.ProjCommon
/-! # proj/merc.go and proj/longlat.go -/
namespace GeomV.C08
open RNum RTrans
variable {α : Type} [RTrans α]

/-- what `Merc(this)` computes once: the mutated `*SR` (Long0, X0, Y0 defaulted) and the locals `E` and `K0`.
After /repo fix aa8e2e6 the closures use the constructor's own `E = sqrt(1 − (b/a)²)` (as merc.js does), NOT
`this.E` of DeriveConstants (which with `+R_A` belongs to the ellipsoid before `a` is replaced). -/
structure MercC (α : Type) where
  sr : SR α
  e : α
  k0 : α

/-- `Merc`: the mutation of `*SR` made explicit -/
def initMerc (s : SR α) : Except Err (MercC α) :=
  let s := if isNaN s.long0 then { s with long0 := 0.0 } else s
  let con := s.b / s.a
  let es := 1.0 - con * con
  let s := if isNaN s.x0 then { s with x0 := 0.0 } else s
  let s := if isNaN s.y0 then { s with y0 := 0.0 } else s
  let e := sqrt es
  let k0 :=
    if !(isNaN s.latTS) then
      (if s.sphere then cos s.latTS else msfnz e (sin s.latTS) (cos s.latTS))
    else if isNaN s.k0 then (if !(isNaN s.k) then s.k else 1.0) else s.k0
  .ok ⟨s, e, k0⟩

def fwdMerc (c : MercC α) (lon lat : α) : Except Err (α × α) :=
  let s := c.sr
  -- after fix 9065ba8 the longitude range is not tested (adjust_lon wraps lon - long0)
  if isNaN lat || isNaN lon || gt (lat * r2d) 90.0 || lt (lat * r2d) (-90.0) then .error .mercRange
  else if le (abs (abs lat - halfPi)) epsln then .error .mercPole
  else if s.sphere then
    .ok (s.x0 + s.a * c.k0 * adjustLon (lon - s.long0),
         s.y0 + s.a * c.k0 * log (tan (fortPi + 0.5 * lat)))
  else
    let sinphi := sin lat
    let ts := tsfnz c.e lat sinphi
    .ok (s.x0 + s.a * c.k0 * adjustLon (lon - s.long0), s.y0 - s.a * c.k0 * log ts)

def invMerc (c : MercC α) (x y : α) : Except Err (α × α) := do
  let s := c.sr
  let x := x - s.x0
  let y := y - s.y0
  let lat ← if s.sphere then pure (halfPi - 2.0 * atan (exp (-y / (s.a * c.k0))))
            else phi2z c.e (exp (-y / (s.a * c.k0)))
  pure (adjustLon (s.long0 + x / (s.a * c.k0)), lat)

/-! ## longlat: both closures are the identity -/
def fwdLongLat (lon lat : α) : Except Err (α × α) := .ok (lon, lat)
def invLongLat (x y : α) : Except Err (α × α) := .ok (x, y)

end GeomV.C08
