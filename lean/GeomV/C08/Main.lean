import GeomV.C08.Model
import GeomV.C08.Spec
/-!
Driver for C08.  `geomv_c08 judge` reads the harness's lines
  rt <class> <A def> <B def> <n> (<lon> <lat>)*n => A <srdump> B <srdump> T <nilAB> <nilBA> H <hist> R (<q> <p2> <q2>)*n
and prints one verdict per line:
  OK <class>            every position satisfies the Spec and the Float model agrees with the code
  DIFF <class> <why>    the code's answer differs from the Float model beyond the stated tolerance
  SPEC <class> <why>    the code's answer violates the Spec on some position of the line
The class is `<projection>-<sph|ell>-<datum route>`.
-/
namespace GeomV.C08
open GeomV GeomV.C08.Spec

def fmt (x : Float) : String := toString x

/-- datum route of a pair, from the dumps (mirrors the decisions of NewTransform/datumTransform) -/
def route (a b : SR Float) : String :=
  let hop := checkNotWGS a b || checkNotWGS b a
  let same := compareDatums a.datum b.datum
  if a.datum.dtype = pjdNoDatum || b.datum.dtype = pjdNoDatum then (if hop then "hopnone" else "none")
  else if same then (if hop then "hopsame" else "same")
  else if hop then "hop" else "shift"

def classOf (a b : SR Float) : String :=
  let nm := match b.name with
    | .longlat => "longlat" | .merc => "merc" | .lcc => "lcc" | .aea => "aea" | .eqdc => "eqdc"
    | .tmerc => "tmerc" | .utm => "utm" | .krovak => "krovak" | .other => "other"
  let ra := if (b.name == .tmerc || b.name == .utm) && b.ra && !b.sphere then "ra-" else ""
  s!"{nm}-{if b.sphere then "sph" else "ell"}-{ra}{route a b}"

/-- size of a datum's shift to WGS84 in metres (translation + rotation and scale over one Earth radius) -/
def shiftSize (d : Datum Float) : Float :=
  let r : Float := 6.4e6
  if d.dtype = pjd3Param then (d.p0 * d.p0 + d.p1 * d.p1 + d.p2 * d.p2).sqrt
  else if d.dtype = pjd7Param then
    (d.p0 * d.p0 + d.p1 * d.p1 + d.p2 * d.p2).sqrt + r * (d.p3.abs + d.p4.abs + d.p5.abs) + r * (d.p6 - 1.0).abs
  else 0.0

def flattening (d : Datum Float) : Float := 1.0 - (1.0 - d.es).sqrt

/-- A-priori bound (metres on the ground) for what a 2-D round trip through two DIFFERENT datums can
lose because the ellipsoidal height produced by the first shift is not part of the 2-D result:
`2 · |h'|max · tilt`, `|h'|max ≤ |Δa| + |Δb| + T_A + T_B`, tilt of the normals
`≤ (T_A+T_B)/R + 2|Δf| + rotations`; plus the second-order term of the small-angle Helmert inverse. -/
def heightLossBound (a b : Datum Float) : Float :=
  let r : Float := 6.3e6
  let t := shiftSize a + shiftSize b
  let hmax := (a.a - b.a).abs + (a.a * (1.0 - flattening a) - b.a * (1.0 - flattening b)).abs + t + 1.0
  let tilt := t / r + 2.0 * (flattening a - flattening b).abs
  let rot (d : Datum Float) : Float := if d.dtype = pjd7Param then d.p3.abs + d.p4.abs + d.p5.abs + (d.p6 - 1.0).abs else 0.0
  let second := 6.4e6 * (rot a + rot b) * (rot a + rot b) * 2.0
  2.0 * hmax * tilt + second + 0.001

structure Pos where
  lon : Float
  lat : Float

def parsePositions : Nat → Tok → Option (List Pos)
  | 0, _ => some []
  | n+1, a :: b :: t => do
    let lon ← hexF a
    let lat ← hexF b
    let r ← parsePositions n t
    pure (⟨lon, lat⟩ :: r)
  | _, _ => none

def parseTrips : List Pos → Tok → Option (List (Trip × String))
  | [], _ => some []
  | p :: ps, qx :: qy :: e1 :: px :: py :: e2 :: rx :: ry :: e3 :: t => do
    let qx ← hexF qx; let qy ← hexF qy; let px ← hexF px; let py ← hexF py; let rx ← hexF rx; let ry ← hexF ry
    let r ← parseTrips ps t
    let errs := if e1 != "ok" then "leg=1 " ++ e1 else if e2 != "ok" then "leg=2 " ++ e2 else if e3 != "ok" then "leg=3 " ++ e3 else ""
    pure ((⟨(p.lon, p.lat), (qx, qy), e1 == "ok", (px, py), e2 == "ok", (rx, ry), e3 == "ok"⟩, errs) :: r)
  | _, _ => none

/-- base tolerance of the correspondence on projected coordinates: 1e-9 relative (floor: 1 km) -/
def closeM0 (impl model : Float) : Bool :=
  (impl - model).abs ≤ 1.0e-9 * (max model.abs 1000.0)

/-- What the correspondence may differ by BEYOND the base tolerance (3e-12 rad / 1e-9 relative), derived
from the code, never a fitted number.  Two sources, both only for the conic projections:

(1) CONDITIONING OF THE CONE CONSTANT.  `AEA`/`LCC`/`EqdC` compute the cone constant as a quotient of two
differences, `ns0 = (ms1² − ms2²)/(qs2 − qs1)` (aea), `log(ms1/ms2)/log(ts1/ts2)` (lcc), `(ms1 − ms2)/(ml2 − ml1)`
(eqdc).  Go's `math.Sin/Cos/Log/Pow` and libm's (the Float model) may differ by an ulp; with parallels that are close
but not equal the differences cancel and the relative difference of the two `ns` is `u·κ`,
`κ = (|p|+|q|)/|p − q|` summed over numerator and denominator, `u = 2^-53` (replayed case C08-aea_ell_hopnone-bc06f22e:
lat_1 = 29.868, lat_2 = 30.087, κ = 756, ms1 and ms2 one ulp apart in opposite directions, `ns0` 908 ulps apart).
Each operand may differ by up to 2 ulps after squaring, so `δ := |Δns/ns| ≤ 4uκ`.  Downstream, `theta/ns`, `rh`, `c`
inherit `δ` with a factor ≤ (1 + 1/|ns|): `cone = 4 u κ (1 + 1/|ns|)` radians (×a: metres); longitude and metres are
allowed 4·cone, the lcc/eqdc latitude 8·cone (|log ts| ≤ 5 at 89°).  For aea, `qs = ms1²/ns0 + qs1 − (rh1/a)² ns0` with
`rh1` measured from the apex at distance `rh`: `|Δqs| ≤ δ (2ms1² + |ns0|(|qs1|+|qs|) + 4ρ²)/|ns0|`, `ρ² = c − ns0·qs ≤ 1 + 4|ns0|`,
`ms1² ≤ 1`, `|qs| ≤ 2`: `≤ 26 δ (1 + 1/|ns0|)`, and the latitude is `q⁻¹(qs)` with `q' = 2(1−e²)cos φ/(1−e²sin²φ)² ≥ 1.9 cos φ`:
`|Δφ| ≤ 14·cone/cos φ` (largest seen in 7 200 lines of the close-parallels stratum, 12 thorough seeds: 1.3·cone/cos φ, on the
hemisphere opposite to the parallels where ρ² is largest).
(2) STOP-TEST STRADDLE of `aeaPhi1z` (`|dphi| <= 1e-7`, exact Newton on the authalic q): if rounding puts the two
sides on different sides of the test they differ by one more Newton step, `≤ M dphi²` with
`M = |q''/(2q')| ≤ tan|φ|/2 + 2e²/(1−e²)` (`q''/q' = −tan φ + 4e² sin φ cos φ/(1−e² sin²φ)`), i.e.
`≤ 1.5·(tan|φ|/2 + 2e²/(1−e²))·1e-14` rad (1.5: `M` is taken at the result, not along the step): 4.3e-13 at 89°.
In well-conditioned cases (κ ≤ 100) both stay below the base tolerance, which then applies unchanged. -/
structure Slack where
  /-- `4 u κ (1 + 1/|ns|)`; 0 when the destination is not a conic -/
  cone : Float
  /-- aea: latitude slack is `cone/cos φ` plus the Newton straddle term -/
  aea : Bool
  /-- `2e²/(1−e²)` of the aea's own eccentricity (0 on a sphere: no iteration) -/
  e2term : Float
  a : Float

def noSlack : Slack := ⟨0.0, false, 0.0, 0.0⟩

def coneSlack (b : SR Float) : Slack :=
  let u : Float := 1.1102230246251565e-16
  let rc (p q : Float) : Float := (p.abs + q.abs) / (p - q).abs
  let mk (κ ns : Float) (aea : Bool) (e : Float) : Slack :=
    let s := 4.0 * u * κ * (1.0 + 1.0 / ns.abs)
    let e2 := if aea && e ≥ 1.0e-10 then 2.0 * e * e / (1.0 - e * e) else 0.0
    if s.isNaN || s.isInf then ⟨0.0, aea, e2, b.a⟩ else ⟨s, aea, e2, b.a⟩
  match b.name with
  | .aea =>
    let k := initAea b
    let κ :=
      if (b.lat1 - b.lat2).abs > 1.0e-10 then
        let ms1 := msfnz k.e3 b.lat1.sin b.lat1.cos
        let ms2 := msfnz k.e3 b.lat2.sin b.lat2.cos
        rc (ms1 * ms1) (ms2 * ms2) + rc (qsfnz k.e3 b.lat2.sin) (qsfnz k.e3 b.lat1.sin)
      else 1.0
    mk κ k.ns0 true (if b.sphere then 0.0 else k.e3)
  | .lcc =>
    match initLcc b with
    | .ok k =>
      let s := k.sr
      let κ :=
        if (s.lat1 - s.lat2).abs > 1.0e-10 then
          let ms1 := msfnz k.e s.lat1.sin s.lat1.cos
          let ms2 := msfnz k.e s.lat2.sin s.lat2.cos
          let ts1 := tsfnz k.e s.lat1 s.lat1.sin
          let ts2 := tsfnz k.e s.lat2 s.lat2.sin
          2.0 / (ms1 / ms2).log.abs + 2.0 / (ts1 / ts2).log.abs
        else 1.0
      mk κ k.ns false 0.0
    | .error _ => noSlack
  | .eqdc =>
    match initEqdc b with
    | .ok k =>
      let s := k.sr
      let κ :=
        if (s.lat1 - s.lat2).abs ≥ 1.0e-10 then
          rc (msfnz s.e s.lat1.sin s.lat1.cos) (msfnz s.e s.lat2.sin s.lat2.cos)
            + rc (mlfn k.e0 k.e1 k.e2 k.e3 s.lat2) (mlfn k.e0 k.e1 k.e2 k.e3 s.lat1)
        else 1.0
      mk κ k.ns false 0.0
    | .error _ => noSlack
  | _ => noSlack

/-- projected coordinates: base tolerance, or the cone slack in metres -/
def closeM (sl : Slack) (impl model : Float) : Bool :=
  closeM0 impl model || (impl - model).abs ≤ 4.0 * sl.cone * sl.a

/-- latitude tolerance in radians at model latitude `phi` (radians) -/
def latTolRad (sl : Slack) (phi : Float) : Float :=
  let base : Float := 3.0e-12
  if sl.aea then
    let c := max 1.0e-6 phi.cos
    let straddle := if sl.e2term > 0.0 then 1.5e-14 * (0.5 * phi.sin.abs / c + sl.e2term) else 0.0
    max base (straddle + 14.0 * sl.cone / c)
  else max base (8.0 * sl.cone)

/-- longitude tolerance in radians of arc on the ground -/
def lonTolRad (sl : Slack) : Float := max 3.0e-12 (4.0 * sl.cone)

/-- scientific notation with 4 significant digits (core `toString` prints 6 decimals only) -/
def sci (x : Float) : String :=
  if x == 0.0 || x.isNaN || x.isInf then toString x else
  let e := (x.abs.log10).floor
  let m := x / (10.0 : Float).pow e
  s!"{(m * 1000.0).round / 1000.0}e{e.toInt64}"

/-- angles in degrees; longitudes are compared exactly (NOT mod 360, except +180 against -180) on the ground, i.e.
scaled by cos(lat); base tolerance 3e-12 rad (1.72e-10 degrees), widened only by the derived `Slack` -/
def closePt (sl : Slack) (geographic : Bool) (impl model : Float × Float) : Bool :=
  if geographic then
    let r2d : Float := 57.29577951308232
    let phi := model.2 * Spec.pi / 180.0
    let c := max 0.01 phi.cos
    let anti := impl.1.abs ≥ 180.0 - 1.0e-9 && model.1.abs ≥ 180.0 - 1.0e-9   -- +180 vs -180
    let dl := if anti then Spec.lonDist impl.1 model.1 else (impl.1 - model.1).abs
    dl * c ≤ max 1.72e-10 (lonTolRad sl * r2d) && (impl.2 - model.2).abs ≤ max 1.72e-10 (latTolRad sl phi * r2d)
  else closeM sl impl.1 model.1 && closeM sl impl.2 model.2

def showRes : Except Err (Float × Float) → String
  | .ok (x, y) => s!"({x},{y})"
  | .error e => "err:" ++ e.tag

/-- model vs implementation on one leg; `none` = agree -/
def legDiff (sl : Slack) (geographic : Bool) (m : Except Err (Float × Float)) (impl : Float × Float) (implOk : Bool) : Option String :=
  match m, implOk with
  | .ok v, true => if closePt sl geographic impl v then none else some s!"impl=({impl.1},{impl.2}) model=({v.1},{v.2}) delta=({sci (impl.1 - v.1)},{sci (impl.2 - v.2)})"
  | .error _, false => none
  | .ok v, false => some s!"impl=err model=({v.1},{v.2})"
  | .error e, true => some s!"impl=({impl.1},{impl.2}) model=err:{e.tag}"

/-- verdict on one position: the Spec's (`none` = holds; the Bool says whether the violation is
explained by a recorded finding) and the correspondence's (`none` = model and code agree) -/
structure V where
  spec : Option (String × Bool)
  diff : Option String
  wrapped : Bool

def judgeTrip (a b : SR Float) (nilAB nilBA : Bool) (t : Trip) (errs : String) : V :=
  let geoB := b.name == .longlat
  let sl := coneSlack b
  let u := unitOf geoB b.toMeter b.a t.p.2
  -- correspondence: the Float model on the same inputs, leg by leg
  let m1 := if nilAB then .ok t.p else transformF a b t.p.1 t.p.2
  let m2 := if nilBA || !t.ok1 then .ok t.p2 else transformF b a t.q.1 t.q.2
  let m3 := if nilAB || !t.ok2 then .ok t.q2 else transformF a b t.p2.1 t.p2.2
  let diff : Option String :=
    match legDiff sl geoB m1 t.q t.ok1, legDiff sl true m2 t.p2 (t.ok2 || !t.ok1), legDiff sl geoB m3 t.q2 (t.ok3 || !t.ok2) with
    | some w, _, _ => some ("leg1 " ++ w)
    | _, some w, _ => some ("leg2 " ++ w)
    | _, _, some w => some ("leg3 " ++ w)
    | none, none, none => none
  -- Spec verdict on the implementation's answer
  let spec : Option (String × Bool) :=
    if !noError t then some (s!"error-reported {if errs == "" then "nan-without-error" else errs} p=({t.p.1},{t.p.2})", false)
    else
      let rt := route a b
      let lossy := rt == "shift" || rt == "hop" || rt == "hopnone"
      let w : Datum Float := (wgs84SR : SR Float).datum
      let da := if a.datum.dtype = pjdNoDatum then w else a.datum
      let db := if b.datum.dtype = pjdNoDatum then w else b.datum
      let bound := heightLossBound da db
      -- the bound is computed from the datum records the implementation built: a scale factor further than 1000 ppm from 1
      -- (the generator writes at most 20 ppm; seeded C08-h1 leaves 0) would inflate it to an Earth radius and accept anything
      let saneScale (d : Datum Float) : Bool := !(d.dtype = pjd7Param) || (d.p6 - 1.0).abs ≤ 1.0e-3
      let coslat := max 1.0e-3 ((t.p.2 * pi / 180.0).cos)
      -- displacement p -> p2 on the ground, in metres
      let ground := 111200.0 * (max (dLon t * coslat) (dLat t)) * 1.5
      -- same 7-parameter datum on both sides through the WGS84 hop: geocentric_from_wgs84 is the
      -- small-angle inverse of geocentric_to_wgs84 (as in PROJ.4/proj4js), off by R·|θ|² on the ground
      let rotSum (d : Datum Float) : Float := d.p3.abs + d.p4.abs + d.p5.abs
      let helmert := rt == "hopsame" && a.datum.dtype = pjd7Param && ground ≤ 6.4e6 * rotSum a.datum * rotSum a.datum * 2.0 + 1.0e-4
      let (explained, known) : String × Bool :=
        if lossy && saneScale da && saneScale db && ground ≤ bound then ("height-lost-2D", true) else if helmert then ("helmert-small-angle", true)
        else ("unexplained", false)
      if !angleOK t then
        some (s!"angle-off {explained} dlon={dLon t} dlat={dLat t} p=({t.p.1},{t.p.2}) p2=({t.p2.1},{t.p2.2})", known)
      else if !metresOK u t then
        some (s!"metres-off {explained} d={dMetres u t} p=({t.p.1},{t.p.2}) q=({t.q.1},{t.q.2}) q2=({t.q2.1},{t.q2.2})", known)
      else none
  ⟨spec, diff, (t.p.1 - t.p2.1).abs > 180.0⟩

/-- one in-region occurrence on the reused closure pair: Spec verdict and correspondence -/
def judgeClosureTrip (sl : Slack) (fwd inv : Tr Float) (geo : Bool) (after : Bool) (t : Trip) (errs : String) : V :=
  let m1 := fwd t.p.1 t.p.2
  let m2 := if !t.ok1 then .ok t.p2 else inv t.q.1 t.q.2
  let m3 := if !t.ok2 then .ok t.q2 else fwd t.p2.1 t.p2.2
  -- angles in radians: 3e-12 rad (plus the derived slack of an ill-conditioned cone), longitude scaled by cos(lat)
  let closeRad (impl model : Float × Float) : Bool :=
    let c := max 0.01 model.2.cos
    (impl.1 - model.1).abs * c ≤ lonTolRad sl && (impl.2 - model.2).abs ≤ latTolRad sl model.2
  let leg (ang : Bool) (m : Except Err (Float × Float)) (impl : Float × Float) (ok : Bool) : Option String :=
    match m, ok with
    | .ok v, true =>
      if (if ang then closeRad impl v else closeM sl impl.1 v.1 && closeM sl impl.2 v.2) then none
      else some s!"impl=({impl.1},{impl.2}) model=({v.1},{v.2}) delta=({sci (impl.1 - v.1)},{sci (impl.2 - v.2)})"
    | .error _, false => none
    | .ok v, false => some s!"impl=err model=({v.1},{v.2})"
    | .error e, true => some s!"impl=({impl.1},{impl.2}) model=err:{e.tag}"
  let diff : Option String :=
    match leg geo m1 t.q t.ok1, leg true m2 t.p2 (t.ok2 || !t.ok1), leg geo m3 t.q2 (t.ok3 || !t.ok2) with
    | some w, _, _ => some ("leg1 " ++ w)
    | _, some w, _ => some ("leg2 " ++ w)
    | _, _, some w => some ("leg3 " ++ w)
    | none, none, none => none
  let ph := if after then "after-rejected-calls" else "first-pass"
  let spec : Option (String × Bool) :=
    if !noError t then
      some (s!"{if after then "error-sticks-after-rejected-call" else "error-reported"} {if errs == "" then "nan-without-error" else errs} p=({t.p.1},{t.p.2}) q=({t.q.1},{t.q.2})", false)
    else if !closureAngleOK t then
      some (s!"angle-off unexplained {ph} dlon={lonDistRad t.p.1 t.p2.1} dlat={(t.p.2 - t.p2.2).abs} p=({t.p.1},{t.p.2}) p2=({t.p2.1},{t.p2.2})", false)
    else if closureMetres t > lenTol then
      some (s!"metres-off unexplained d={closureMetres t} {ph} p=({t.p.1},{t.p.2}) q=({t.q.1},{t.q.2}) q2=({t.q2.1},{t.q2.2})", false)
    else none
  ⟨spec, diff, false⟩

def judgeClosures (n : String) (pts rhs : Tok) : String :=
  match rhs with
  | "B" :: r =>
    match parseSR r with
    | some (b, "J" :: _rej :: "H" :: hist :: "R" :: r) =>
      let ra := if (b.name == .tmerc || b.name == .utm) && b.ra && !b.sphere then "ra-" else ""
      let nm := (classOf b b).splitOn "-" |>.headD "other"
      let cls := s!"{nm}-{if b.sphere then "sph" else "ell"}-{ra}closures"
      match parsePositions (n.toNat?.getD 0) pts with
      | none => "BAD positions"
      | some ps =>
        match parseTrips (ps ++ ps) r with
        | none => "BAD trips"
        | some ts =>
          match transformers b with
          | .error e => s!"DIFF {cls} model-constructor-fails-{e.tag}-impl-does-not"
          | .ok (fwd, inv) =>
            let k := ps.length
            let vs : List V := (ts.zip (List.range ts.length)).map fun (te, i) =>
              judgeClosureTrip (coneSlack b) fwd inv (b.name == PName.longlat) (decide (i ≥ k)) te.1 te.2
            let specs : List String := vs.filterMap fun v => v.spec.map (·.1)
            let diffs : List String := (vs.filterMap fun v => v.diff) ++
              (if hist == "1" then ["history-dependent reused-closure-answer-differs-from-fresh-closure"] else [])
            -- a sticking error is the more specific diagnosis
            let stick : List String := specs.filter fun (w : String) => (w.splitOn "error-sticks").length > 1
            match stick, specs, diffs with
            | w :: _, _, _ => s!"SPEC {cls} {w}"
            | [], w :: _, _ => s!"SPEC {cls} {w}"
            | [], [], w :: _ => s!"DIFF {cls} {w}"
            | [], [], [] => s!"OK {cls}"
    | some (b, "newerr" :: r) =>
      match transformers b with
      | .error _ => "OK closures-constructor-rejects"
      | .ok _ => s!"SPEC closures constructor-error {" ".intercalate r}"
    | _ => "BAD dump-B"
  | "parseerr" :: r => s!"SPEC parse definition-rejected {" ".intercalate r}"
  | "panic" :: r => s!"SPEC panic panicked {" ".intercalate r}"
  | "crash" :: r => s!"SPEC crash crashed {" ".intercalate r}"
  | "timeout" :: r => s!"SPEC timeout timed-out {" ".intercalate r}"
  | _ => "BAD result"

/-- the model's WGS84 record must be what `proj.Parse("+proj=longlat +datum=WGS84")` derives -/
def wgsCheck (a : SR Float) (adef : String) : Option String :=
  if adef == "+proj=longlat~+datum=WGS84" then
    let w : SR Float := wgs84SR
    if w.a == a.a && w.b == a.b && w.es == a.es && w.e == a.e && w.ep2 == a.ep2 && w.datum.dtype == a.datum.dtype
        && w.datum.a == a.datum.a && w.datum.b == a.datum.b && w.datum.es == a.datum.es && a.datumCode == "WGS84"
        && a.axis == enu && a.toMeter == 1.0 && a.fromGreenwich.isNaN
    then none else some "WGS84-constants-differ"
  else none

/-- the fields the model reads agree bit for bit (NaN = NaN), except the datum code, which must be equal or
fold to WGS84 on both sides; `toMeter` of a longlat reference is never read by `transform3`; the datum
parameters only under the datum types that read them -/
def srSameButCode (x y : SR Float) : Bool :=
  let f (u v : Float) : Bool := u.toBits == v.toBits
  x.name == y.name && f x.lat0 y.lat0 && f x.lat1 y.lat1 && f x.lat2 y.lat2 && f x.latTS y.latTS && f x.long0 y.long0
  && f x.x0 y.x0 && f x.y0 y.y0 && f x.k0 y.k0 && f x.k y.k && f x.a y.a && f x.b y.b && f x.rf y.rf && f x.es y.es
  && f x.e y.e && f x.ep2 y.ep2 && f x.zone y.zone && (x.name == .longlat || f x.toMeter y.toMeter)
  && f x.fromGreenwich y.fromGreenwich && x.sphere == y.sphere && x.ra == y.ra && x.utmSouth == y.utmSouth
  && x.czech == y.czech && x.axis == y.axis
  && (x.datumCode == y.datumCode || (goEqualFold x.datumCode "WGS84" && goEqualFold y.datumCode "WGS84"))
  && x.datum.dtype == y.datum.dtype && f x.datum.a y.datum.a && f x.datum.b y.datum.b && f x.datum.es y.datum.es
  && f x.datum.ep2 y.datum.ep2
  && (!(x.datum.dtype == pjd3Param || x.datum.dtype == pjd7Param)
      || (f x.datum.p0 y.datum.p0 && f x.datum.p1 y.datum.p1 && f x.datum.p2 y.datum.p2))
  && (!(x.datum.dtype == pjd7Param)
      || (f x.datum.p3 y.datum.p3 && f x.datum.p4 y.datum.p4 && f x.datum.p5 y.datum.p5 && f x.datum.p6 y.datum.p6))

/-- `tw` lines: `W A <dump> B <dump> K <k> <first>` — the twin pair (lower-case `wgs84` side written as
`+datum=WGS84`).  When the twin records are the same but for the case of the datum code, the model's
route decision is the same for both pairs (`goEqualFold`), so the code's answers must be bit-identical:
Returns the class PREFIX (`twin-` compared, `notwin-` records differ: not compared) and the differences. -/
def judgeTwin (a b : SR Float) (rhs : Tok) : String × List String :=
  match rhs.dropWhile (· ≠ "W") with
  | "W" :: "A" :: r =>
    match parseSR r with
    | some (a2, "B" :: r) =>
      match parseSR r with
      | some (b2, "K" :: k :: first) =>
        if srSameButCode a a2 && srSameButCode b b2 then
          ("twin-", if k == "0" then [] else
            [s!"route-differs-from-twin {k} positions answered differently (bit patterns) by the pair with datum codes ({a.datumCode},{b.datumCode}) and by its twin ({a2.datumCode},{b2.datumCode}); first {" ".intercalate first}"])
        else ("notwin-", [])
      | _ => ("notwin-", ["BAD twin-dump-B"])
    | _ => ("notwin-", ["BAD twin-dump-A"])
  | "W" :: "twinerr" :: r => ("notwin-", [s!"twin-definition-rejected {" ".intercalate r}"])
  | _ => ("", [])

def judgeLine (line : String) : String :=
  let (lhs, rhs) := splitArrow (tokens line)
  match lhs with
  | "cl" :: _gcls :: _bdef :: n :: pts => judgeClosures n pts rhs
  | "tw" :: gcls :: adef :: bdef :: _a2 :: _b2 :: n :: pts => judgePair "tw" gcls adef bdef n pts rhs
  | "il" :: gcls :: adef :: _b1 :: b2def :: n :: pts => judgePair "il" gcls adef b2def n pts rhs
  | kind :: gcls :: adef :: bdef :: n :: pts => judgePair kind gcls adef bdef n pts rhs
  | _ => "BAD line"
where
  judgePair (_kind _gcls adef _bdef n : String) (pts rhs : Tok) : String :=
    -- `cc` lines carry, after the trips, `X <number of concurrent answers that differ from the
    -- sequential answer for the same input> <first differing position>`
    let conc : List String :=
      match rhs.dropWhile (· ≠ "X") with
      | _ :: nd :: rest => if nd == "0" then [] else
          [s!"concurrent-use-differs {nd} answers of goroutines sharing one transformer differ from the sequential answers; first {" ".intercalate rest}"]
      | _ => []
    match rhs with
    | "A" :: r =>
      match parseSR r with
      | some (a, "B" :: r) =>
        match parseSR r with
        | some (b, "T" :: nab :: nba :: "H" :: hist :: "R" :: r) =>
          let (twSuffix, twDiffs) := if _kind == "tw" then judgeTwin a b r else ("", [])
          let cls := (if _kind == "il" then "interleaved-" else "") ++ twSuffix ++ classOf a b ++ (if _kind == "cc" then "-concurrent" else "")
          match parsePositions (n.toNat?.getD 0) pts with
          | none => "BAD positions"
          | some ps =>
            match parseTrips ps r with
            | none => "BAD trips"
            | some ts =>
              let vs := ts.map fun (t, e) => judgeTrip a b (nab == "1") (nba == "1") t e
              let unexpl := conc ++ vs.filterMap fun v => match v.spec with | some (w, false) => some w | _ => none
              let expl := vs.filterMap fun v => match v.spec with | some (w, true) => some w | _ => none
              -- the reused transformers' answers must be those of transformers built fresh per call
              let diffs := (vs.filterMap fun v => v.diff) ++
                (if hist == "1" then [if _kind == "il"
                  then "history-dependent answers-of-a-transformer-pair-used-in-turn-with-another-system-differ-from-its-answers-alone"
                  else "history-dependent reused-transformer-answer-differs-from-fresh-transformer"] else []) ++ twDiffs
              -- an unexplained violation outranks a correspondence difference, which outranks a
              -- violation that a recorded finding explains (so that a finding never hides a change)
              match unexpl, diffs, expl, wgsCheck a adef with
              | w :: _, _, _, _ => s!"SPEC {cls} {w}"
              | [], w :: _, _, _ => s!"DIFF {cls} {w}"
              | [], [], w :: _, _ => s!"SPEC {cls} {w}"
              | [], [], [], some w => s!"DIFF {cls} {w}"
              | [], [], [], none =>
                let wr := vs.any fun v => v.wrapped
                s!"OK {cls}{if wr then "-wrapped" else ""}"
        | _ => "BAD dump-B"
      | _ => "BAD dump-A"
    | "parseerr" :: r => s!"SPEC parse definition-rejected {" ".intercalate r}"
    | "panic" :: r => s!"SPEC panic panicked {" ".intercalate r}"
    | "crash" :: r => s!"SPEC crash crashed {" ".intercalate r}"
    | "timeout" :: r => s!"SPEC timeout timed-out {" ".intercalate r}"
    | _ => "BAD result"

end GeomV.C08

open GeomV GeomV.C08 in
def main (args : List String) : IO Unit := do
  let out ← IO.getStdout
  match args with
  | ["judge"] => forEachLine fun l => out.putStrLn (judgeLine l)
  | _ => IO.eprintln "usage: geomv_c08 judge"
