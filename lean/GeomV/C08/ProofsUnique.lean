import GeomV.C08.ProofsConic
import Mathlib.Analysis.Calculus.Deriv.MeanValue
import Mathlib.Analysis.SpecialFunctions.Log.Deriv
/-!
# C08 — uniqueness of the fixed point of `phi2z`: `tsfnz` is injective in the latitude
-/
set_option linter.unusedSimpArgs false
namespace GeomV.C08
open Real Set

/-- `log ts` as a function of `s = sin φ` -/
noncomputable def logTs (e s : ℝ) : ℝ :=
  (1 / 2) * (log (1 - s) - log (1 + s)) - (e / 2) * (log (1 - e * s) - log (1 + e * s))

theorem logTs_hasDerivAt (e s : ℝ) (he0 : 0 ≤ e) (he1 : e < 1) (hs : s ∈ Ioo (-1 : ℝ) 1) :
    HasDerivAt (logTs e) (-(1 - e ^ 2) / ((1 - s ^ 2) * (1 - e ^ 2 * s ^ 2))) s := by
  obtain ⟨hs1, hs2⟩ := hs
  have hes1 : 0 < 1 - e * s := by nlinarith
  have hes2 : 0 < 1 + e * s := by nlinarith
  have h1 : HasDerivAt (fun x : ℝ => log (1 - x)) (-1 / (1 - s)) s :=
    ((hasDerivAt_id s).const_sub 1).log (by simp; linarith)
  have h2 : HasDerivAt (fun x : ℝ => log (1 + x)) (1 / (1 + s)) s :=
    ((hasDerivAt_id s).const_add 1).log (by simp; linarith)
  have h3 : HasDerivAt (fun x : ℝ => log (1 - e * x)) (-(e * 1) / (1 - e * s)) s :=
    (((hasDerivAt_id s).const_mul e).const_sub 1).log (by simpa using hes1.ne')
  have h4 : HasDerivAt (fun x : ℝ => log (1 + e * x)) ((e * 1) / (1 + e * s)) s :=
    (((hasDerivAt_id s).const_mul e).const_add 1).log (by simpa using hes2.ne')
  have h := ((h1.sub h2).const_mul (1 / 2)).sub ((h3.sub h4).const_mul (e / 2))
  have a1 : (1 : ℝ) - s ≠ 0 := by linarith
  have a2 : (1 : ℝ) + s ≠ 0 := by linarith
  have a3 : (1 : ℝ) - s ^ 2 ≠ 0 := by nlinarith
  have a4 : (1 : ℝ) - e ^ 2 * s ^ 2 ≠ 0 := by nlinarith
  have key : 1 / 2 * (-1 / (1 - s) - 1 / (1 + s)) - e / 2 * (-(e * 1) / (1 - e * s) - e * 1 / (1 + e * s))
      = -(1 - e ^ 2) / ((1 - s ^ 2) * (1 - e ^ 2 * s ^ 2)) := by
    have b1 : (1 : ℝ) - e * s ≠ 0 := hes1.ne'
    have b2 : (1 : ℝ) + e * s ≠ 0 := hes2.ne'
    have b1' : (1 : ℝ) - s * e ≠ 0 := by rw [mul_comm]; exact b1
    have b2' : (1 : ℝ) + s * e ≠ 0 := by rw [mul_comm]; exact b2
    rw [show (1 : ℝ) - s ^ 2 = (1 - s) * (1 + s) by ring, show (1 : ℝ) - e ^ 2 * s ^ 2 = (1 - s * e) * (1 + s * e) by ring,
      show e * s = s * e by ring]
    field_simp
    ring
  rw [← key]
  exact h

theorem logTs_strictAnti (e : ℝ) (he0 : 0 ≤ e) (he1 : e < 1) : StrictAntiOn (logTs e) (Ioo (-1 : ℝ) 1) := by
  apply strictAntiOn_of_deriv_neg (convex_Ioo _ _)
  · intro s hs
    exact (logTs_hasDerivAt e s he0 he1 hs).continuousAt.continuousWithinAt
  · intro s hs
    rw [interior_Ioo] at hs
    rw [(logTs_hasDerivAt e s he0 he1 hs).deriv]
    obtain ⟨hs1, hs2⟩ := hs
    have a3 : 0 < 1 - s ^ 2 := by nlinarith
    have a4 : 0 < 1 - e ^ 2 * s ^ 2 := by nlinarith
    have a5 : 0 < 1 - e ^ 2 := by nlinarith
    apply div_neg_of_neg_of_pos (by linarith) (mul_pos a3 a4)

theorem sin_mem_Ioo (phi : ℝ) (hphi : |phi| < π / 2) : sin phi ∈ Ioo (-1 : ℝ) 1 := by
  obtain ⟨h1, h2⟩ := abs_lt.mp hphi
  constructor
  · have := sin_lt_sin_of_lt_of_le_pi_div_two (x := -(π / 2)) (y := phi) le_rfl h2.le h1
    rwa [sin_neg, sin_pi_div_two] at this
  · have := sin_lt_sin_of_lt_of_le_pi_div_two (x := phi) (y := π / 2) h1.le le_rfl h2
    rwa [sin_pi_div_two] at this

/-- `tan²(π/4 − φ/2) = (1 − sin φ)/(1 + sin φ)` -/
theorem tan_sq_quarter (phi : ℝ) (hphi : |phi| < π / 2) :
    tan (0.5 * (π / 2 - phi)) ^ 2 = (1 - sin phi) / (1 + sin phi) := by
  obtain ⟨h1, h2⟩ := abs_lt.mp hphi
  obtain ⟨hs1, hs2⟩ := sin_mem_Ioo phi hphi
  set u := 0.5 * (π / 2 - phi) with hu
  have h2u : 2 * u = π / 2 - phi := by rw [hu]; ring
  have hc : cos (2 * u) = sin phi := by rw [h2u, cos_pi_div_two_sub]
  have hs2 : sin u ^ 2 = 1 / 2 - cos (2 * u) / 2 := sin_sq_eq_half_sub u
  have hc2 : cos u ^ 2 = 1 / 2 + cos (2 * u) / 2 := cos_sq u
  rw [tan_eq_sin_div_cos, div_pow, hs2, hc2, hc]
  have : (1 : ℝ) + sin phi ≠ 0 := by linarith
  field_simp

/-- `log (tsfnz e φ (sin φ)) = logTs e (sin φ)` -/
theorem log_tsfnz (e phi : ℝ) (he0 : 0 ≤ e) (he1 : e < 1) (hphi : |phi| < π / 2) :
    log (tsfnz e phi (sin phi)) = logTs e (sin phi) := by
  obtain ⟨h1, h2⟩ := abs_lt.mp hphi
  obtain ⟨hs1, hs2⟩ := sin_mem_Ioo phi hphi
  have hes1 : 0 < 1 - e * sin phi := by nlinarith
  have hes2 : 0 < 1 + e * sin phi := by nlinarith
  have hq : 0 < (1 - e * sin phi) / (1 + e * sin phi) := div_pos hes1 hes2
  have hT : 0 < tan (0.5 * (π / 2 - phi)) :=
    tan_pos_of_pos_of_lt_pi_div_two (by linarith) (by linarith)
  have hlogT : log (tan (0.5 * (π / 2 - phi))) = (1 / 2) * (log (1 - sin phi) - log (1 + sin phi)) := by
    have := congrArg log (tan_sq_quarter phi hphi)
    rw [Real.log_pow, Real.log_div (by linarith) (by linarith)] at this
    push_cast at this
    linarith
  simp only [tsfnz, halfPi_real, tan_real, pow_real, lit_one]
  rw [Real.log_div hT.ne' (rpow_pos_of_pos hq _).ne', Real.log_rpow hq, hlogT,
    Real.log_div hes1.ne' hes2.ne', logTs]
  ring

/-- **tsfnz is injective in the latitude** on (−π/2, π/2), for 0 ≤ e < 1 -/
theorem tsfnz_injective (e phi1 phi2 : ℝ) (he0 : 0 ≤ e) (he1 : e < 1) (h1 : |phi1| < π / 2) (h2 : |phi2| < π / 2)
    (h : tsfnz e phi1 (sin phi1) = tsfnz e phi2 (sin phi2)) : phi1 = phi2 := by
  have hl : logTs e (sin phi1) = logTs e (sin phi2) := by
    rw [← log_tsfnz e phi1 he0 he1 h1, ← log_tsfnz e phi2 he0 he1 h2, h]
  have hs : sin phi1 = sin phi2 :=
    (logTs_strictAnti e he0 he1).injOn (sin_mem_Ioo phi1 h1) (sin_mem_Ioo phi2 h2) hl
  obtain ⟨a1, a2⟩ := abs_lt.mp h1
  obtain ⟨b1, b2⟩ := abs_lt.mp h2
  exact injOn_sin ⟨a1.le, a2.le⟩ ⟨b1.le, b2.le⟩ hs

/-- **uniqueness of the fixed point of `phi2z`**: a latitude `φ'` in (−π/2, π/2) at which the update
vanishes for `ts = tsfnz e φ (sin φ)` IS the true latitude `φ` (0 ≤ e < 1). -/
theorem C08_phi2z_fixed_unique (e phi phi' : ℝ) (he0 : 0 ≤ e) (he1 : e < 1) (hphi : |phi| < π / 2)
    (hphi' : |phi'| < π / 2) (h : phi2zStep e (tsfnz e phi (sin phi)) phi' = 0) : phi' = phi := by
  have hes : |e * sin phi'| < 1 := by
    rw [abs_mul, abs_of_nonneg he0]
    calc e * |sin phi'| ≤ e * 1 := mul_le_mul_of_nonneg_left (abs_sin_le_one _) he0
      _ < 1 := by linarith
  exact tsfnz_injective e phi' phi he0 he1 hphi' hphi (tsfnz_of_stationary e _ phi' hes h)

/-- **merc chain** (ellipsoid): inverse ∘ forward = `(λ, phi2z e (tsfnz e φ sin φ))` -/
theorem merc_chain (c : MercC ℝ) (hs : c.sr.sphere = false) (ha : 0 < c.sr.a) (hk : 0 < c.k0)
    (lon lat : ℝ) (hlat : |lat| ≤ 1.5) (he : |c.e * sin lat| < 1) (hlon : |lon| ≤ sPi)
    (hdl : |lon - c.sr.long0| ≤ sPi) :
    (fwdMerc c lon lat).bind (fun q => invMerc c q.1 q.2) =
      (phi2z c.e (tsfnz c.e lat (sin lat))).map (fun phi => (lon, phi)) := by
  have hpi : (3.14 : ℝ) < π := pi_gt_d2
  have hak : c.sr.a * c.k0 ≠ 0 := (mul_pos ha hk).ne'
  have hts := tsfnz_pos c.e lat (by linarith) he
  rw [fwdMerc_ell c hs lon lat hlat, adjustLon_id hdl]
  have hexp : exp (-(c.sr.y0 - c.sr.a * c.k0 * log (tsfnz c.e lat (sin lat)) - c.sr.y0) / (c.sr.a * c.k0))
      = tsfnz c.e lat (sin lat) := by
    rw [show -(c.sr.y0 - c.sr.a * c.k0 * log (tsfnz c.e lat (sin lat)) - c.sr.y0) / (c.sr.a * c.k0)
      = log (tsfnz c.e lat (sin lat)) by field_simp; ring, exp_log hts]
  have hl : c.sr.long0 + (c.sr.x0 + c.sr.a * c.k0 * (lon - c.sr.long0) - c.sr.x0) / (c.sr.a * c.k0) = lon := by
    field_simp; ring
  simp only [Except.bind, invMerc, hs, Bool.false_eq_true, if_false, bind, pure, Except.pure, exp_real, hexp, hl,
    adjustLon_id hlon]
  cases phi2z c.e (tsfnz c.e lat (sin lat)) <;> rfl

/-- **merc_ell_inv_exact** (ellipsoid, 0 ≤ e < 1): if `phi2z` stops at a latitude in (−π/2, π/2) where its
update is exactly zero, then inverse(forward(λ, φ)) = (λ, φ): it RETURNS THE ORIGINAL LATITUDE
(uniqueness of the fixed point). -/
theorem C08_merc_ell_inv_exact (c : MercC ℝ) (hs : c.sr.sphere = false) (ha : 0 < c.sr.a) (hk : 0 < c.k0)
    (he0 : 0 ≤ c.e) (he1 : c.e < 1) (lon lat lat' : ℝ) (hlat : |lat| ≤ 1.5) (hlat' : |lat'| < π / 2)
    (hlon : |lon| ≤ sPi) (hdl : |lon - c.sr.long0| ≤ sPi)
    (hconv : phi2z c.e (tsfnz c.e lat (sin lat)) = .ok lat')
    (hstat : phi2zStep c.e (tsfnz c.e lat (sin lat)) lat' = 0) :
    (fwdMerc c lon lat).bind (fun q => invMerc c q.1 q.2) = .ok (lon, lat) := by
  have hpi : (3.14 : ℝ) < π := pi_gt_d2
  have hlt : |lat| < π / 2 := by linarith
  have he : |c.e * sin lat| < 1 := by
    rw [abs_mul, abs_of_nonneg he0]
    calc c.e * |sin lat| ≤ c.e * 1 := mul_le_mul_of_nonneg_left (abs_sin_le_one _) he0
      _ < 1 := by linarith
  rw [merc_chain c hs ha hk lon lat hlat he hlon hdl, hconv,
    C08_phi2z_fixed_unique c.e lat lat' he0 he1 hlt hlat' hstat]
  rfl

/-- **lcc_inv_exact** (ellipsoid, 0 ≤ e < 1, both cone signs): same conclusion for the Lambert conformal conic. -/
theorem C08_lcc_inv_exact (c : LccC ℝ) (hk : c.sr.k0 ≠ 0)
    (sgn : (0 < c.ns ∧ 0 < c.sr.a * c.f0) ∨ (c.ns < 0 ∧ c.sr.a * c.f0 < 0))
    (he0 : 0 ≤ c.e) (he1 : c.e < 1) (lon lat lat' : ℝ) (hlat : |lat| ≤ 1.5) (hlat' : |lat'| < π / 2)
    (hlon : |lon| ≤ sPi) (hdl : |lon - c.sr.long0| ≤ sPi)
    (h1 : -π < c.ns * (lon - c.sr.long0)) (h2 : c.ns * (lon - c.sr.long0) ≤ π)
    (hconv : phi2z c.e (tsfnz c.e lat (sin lat)) = .ok lat')
    (hstat : phi2zStep c.e (tsfnz c.e lat (sin lat)) lat' = 0) :
    (fwdLcc c lon lat).bind (fun q => invLcc c q.1 q.2) = .ok (lon, lat) := by
  have hpi : (3.14 : ℝ) < π := pi_gt_d2
  have hlt : |lat| < π / 2 := by linarith
  have he : |c.e * sin lat| < 1 := by
    rw [abs_mul, abs_of_nonneg he0]
    calc c.e * |sin lat| ≤ c.e * 1 := mul_le_mul_of_nonneg_left (abs_sin_le_one _) he0
      _ < 1 := by linarith
  rw [lcc_chain c hk sgn lon lat hlat he hlon hdl h1 h2, hconv,
    C08_phi2z_fixed_unique c.e lat lat' he0 he1 hlt hlat' hstat]
  rfl

/-! ## eqdc / imlfn: the meridian distance is strictly increasing -/

theorem mlfn_hasDerivAt (e0 e1 e2 e3 phi : ℝ) :
    HasDerivAt (fun x => mlfn e0 e1 e2 e3 x)
      (e0 - 2 * e1 * cos (2 * phi) + 4 * e2 * cos (4 * phi) - 6 * e3 * cos (6 * phi)) phi := by
  have hk : ∀ k : ℝ, HasDerivAt (fun x : ℝ => sin (k * x)) (cos (k * phi) * (k * 1)) phi := fun k =>
    ((hasDerivAt_id phi).const_mul k).sin
  have h := ((((hasDerivAt_id phi).const_mul e0).sub ((hk 2).const_mul e1)).add ((hk 4).const_mul e2)).sub
    ((hk 6).const_mul e3)
  have key : e0 * 1 - e1 * (cos (2 * phi) * (2 * 1)) + e2 * (cos (4 * phi) * (4 * 1)) - e3 * (cos (6 * phi) * (6 * 1))
      = e0 - 2 * e1 * cos (2 * phi) + 4 * e2 * cos (4 * phi) - 6 * e3 * cos (6 * phi) := by ring
  rw [← key]
  have hf : (fun x => mlfn e0 e1 e2 e3 x) =
      (fun x => e0 * x - e1 * sin (2 * x) + e2 * sin (4 * x) - e3 * sin (6 * x)) := by
    funext x; simp only [mlfn, sin_real, lit_two]; norm_num
  rw [hf]
  exact h

/-- `mlfn` is strictly increasing when `e0` dominates: `2|e1| + 4|e2| + 6|e3| < e0`
(true for every eccentricity of a planet: e0 ≈ 1, e1 ≈ 0.0025, e2 ≈ 3e-6, e3 ≈ 4e-9 for WGS84) -/
theorem mlfn_strictMono (e0 e1 e2 e3 : ℝ) (hdom : 2 * |e1| + 4 * |e2| + 6 * |e3| < e0) :
    StrictMono (fun x => mlfn e0 e1 e2 e3 x) := by
  apply strictMono_of_deriv_pos
  intro phi
  rw [(mlfn_hasDerivAt e0 e1 e2 e3 phi).deriv]
  have b1 : |e1 * cos (2 * phi)| ≤ |e1| := by
    rw [abs_mul]; exact mul_le_of_le_one_right (abs_nonneg _) (abs_cos_le_one _)
  have b2 : |e2 * cos (4 * phi)| ≤ |e2| := by
    rw [abs_mul]; exact mul_le_of_le_one_right (abs_nonneg _) (abs_cos_le_one _)
  have b3 : |e3 * cos (6 * phi)| ≤ |e3| := by
    rw [abs_mul]; exact mul_le_of_le_one_right (abs_nonneg _) (abs_cos_le_one _)
  have c1 := abs_le.mp b1
  have c2 := abs_le.mp b2
  have c3 := abs_le.mp b3
  nlinarith [c1.1, c1.2, c2.1, c2.2, c3.1, c3.2]

/-- **uniqueness of the fixed point of `imlfn`** and with it **eqdc_inv_exact**: if the Newton update
vanishes at `φ'` for `ml = mlfn φ` (and the derivative is non-singular, which `hdom` implies), then
`φ' = φ`. -/
theorem C08_imlfn_fixed_unique (e0 e1 e2 e3 phi phi' : ℝ) (hdom : 2 * |e1| + 4 * |e2| + 6 * |e3| < e0)
    (h : imlfnStep (mlfn e0 e1 e2 e3 phi) e0 e1 e2 e3 phi' = 0) : phi' = phi := by
  have hd : e0 - 2.0 * e1 * cos (2.0 * phi') + 4.0 * e2 * cos (4.0 * phi') - 6.0 * e3 * cos (6.0 * phi') ≠ 0 := by
    have b1 : |e1 * cos (2 * phi')| ≤ |e1| := by
      rw [abs_mul]; exact mul_le_of_le_one_right (abs_nonneg _) (abs_cos_le_one _)
    have b2 : |e2 * cos (4 * phi')| ≤ |e2| := by
      rw [abs_mul]; exact mul_le_of_le_one_right (abs_nonneg _) (abs_cos_le_one _)
    have b3 : |e3 * cos (6 * phi')| ≤ |e3| := by
      rw [abs_mul]; exact mul_le_of_le_one_right (abs_nonneg _) (abs_cos_le_one _)
    have c1 := abs_le.mp b1
    have c2 := abs_le.mp b2
    have c3 := abs_le.mp b3
    norm_num
    nlinarith [c1.1, c1.2, c2.1, c2.2, c3.1, c3.2]
  have := C08_imlfn_stationary (mlfn e0 e1 e2 e3 phi) e0 e1 e2 e3 phi' hd h
  exact (mlfn_strictMono e0 e1 e2 e3 hdom).injective this

/-- **eqdc chain** (ellipsoid, both cone signs; `R = a (g − mlfn φ)` has the sign of `ns`):
inverse ∘ forward = `(λ, imlfn (mlfn φ))`. -/
theorem eqdc_chain (c : EqdcC ℝ) (hs : c.sr.sphere = false) (ha : 0 < c.sr.a)
    (lon lat : ℝ)
    (sgn : (0 < c.ns ∧ mlfn c.e0 c.e1 c.e2 c.e3 lat < c.g) ∨ (c.ns < 0 ∧ c.g < mlfn c.e0 c.e1 c.e2 c.e3 lat))
    (hlon : |lon| ≤ sPi) (hdl : |lon - c.sr.long0| ≤ sPi)
    (h1 : -π < c.ns * (lon - c.sr.long0)) (h2 : c.ns * (lon - c.sr.long0) ≤ π) :
    (fwdEqdc c lon lat).bind (fun q => invEqdc c q.1 q.2) =
      (imlfn (mlfn c.e0 c.e1 c.e2 c.e3 lat) c.e0 c.e1 c.e2 c.e3).map (fun phi => (lon, phi)) := by
  set ml := mlfn c.e0 c.e1 c.e2 c.e3 lat with hml
  set R := c.sr.a * (c.g - ml) with hR
  have ex : c.sr.x0 + R * sin (c.ns * (lon - c.sr.long0)) - c.sr.x0 = R * sin (c.ns * (lon - c.sr.long0)) := by ring
  have ey : c.rh - (c.sr.y0 + c.rh - R * cos (c.ns * (lon - c.sr.long0))) + c.sr.y0
      = R * cos (c.ns * (lon - c.sr.long0)) := by ring
  have hn0 : c.ns ≠ 0 := by rcases sgn with h | h <;> [exact h.1.ne'; exact h.1.ne]
  have e1 : c.sr.long0 + c.ns * (lon - c.sr.long0) / c.ns = lon := by field_simp; ring
  have e2 : c.g - R / c.sr.a = ml := by rw [hR]; field_simp; ring
  simp only [fwdEqdc, invEqdc, hs, if_false, Bool.false_eq_true, adjustLon_id hdl, Except.bind, bind, pure,
    Except.pure, ge_real, ne_real, sin_real, cos_real, sqrt_real, atan2_real, lit_zero, lit_one, ← hml, ← hR, ex, ey]
  rcases sgn with ⟨hn, hg⟩ | ⟨hn, hg⟩
  · have hr : 0 < R := mul_pos ha (by linarith)
    have hsq := sqrt_polar R (c.ns * (lon - c.sr.long0)) hr
    have harg := arg_polar R (c.ns * (lon - c.sr.long0)) hr h1 h2
    simp only [hn.le, decide_true, if_true, hsq, one_mul, harg, hr.ne', decide_false, Bool.not_false, e1, e2,
      adjustLon_id hlon]
    cases imlfn ml c.e0 c.e1 c.e2 c.e3 <;> rfl
  · have hr : R < 0 := mul_neg_of_pos_of_neg ha (by linarith)
    have hsq := sqrt_polar_neg R (c.ns * (lon - c.sr.long0)) hr
    have harg := arg_polar_neg R (c.ns * (lon - c.sr.long0)) hr h1 h2
    have hn' : ¬ (0 ≤ c.ns) := not_le.mpr hn
    simp only [hn', decide_false, if_false, Bool.false_eq_true, hsq, neg_neg, harg, hr.ne, Bool.not_false, if_true,
      e1, e2, adjustLon_id hlon]
    cases imlfn ml c.e0 c.e1 c.e2 c.e3 <;> rfl

/-- **eqdc_inv_exact** (ellipsoid, `e0` dominating): if `imlfn` stops where its update is exactly zero,
inverse(forward(λ, φ)) = (λ, φ). -/
theorem C08_eqdc_inv_exact (c : EqdcC ℝ) (hs : c.sr.sphere = false) (ha : 0 < c.sr.a)
    (hdom : 2 * |c.e1| + 4 * |c.e2| + 6 * |c.e3| < c.e0) (lon lat lat' : ℝ)
    (sgn : (0 < c.ns ∧ mlfn c.e0 c.e1 c.e2 c.e3 lat < c.g) ∨ (c.ns < 0 ∧ c.g < mlfn c.e0 c.e1 c.e2 c.e3 lat))
    (hlon : |lon| ≤ sPi) (hdl : |lon - c.sr.long0| ≤ sPi)
    (h1 : -π < c.ns * (lon - c.sr.long0)) (h2 : c.ns * (lon - c.sr.long0) ≤ π)
    (hconv : imlfn (mlfn c.e0 c.e1 c.e2 c.e3 lat) c.e0 c.e1 c.e2 c.e3 = .ok lat')
    (hstat : imlfnStep (mlfn c.e0 c.e1 c.e2 c.e3 lat) c.e0 c.e1 c.e2 c.e3 lat' = 0) :
    (fwdEqdc c lon lat).bind (fun q => invEqdc c q.1 q.2) = .ok (lon, lat) := by
  rw [eqdc_chain c hs ha lon lat sgn hlon hdl h1 h2, hconv,
    C08_imlfn_fixed_unique c.e0 c.e1 c.e2 c.e3 lat lat' hdom hstat]
  rfl

/-! ## aea / aeaPhi1z: the authalic `q` is strictly increasing in sin φ -/

/-- `qsfnz e s` for `e > 1e-7`, as a function of `s` -/
noncomputable def qOf (e s : ℝ) : ℝ :=
  (1 - e * e) * (s / (1 - e * s * (e * s)) - (0.5 / e) * (log (1 - e * s) - log (1 + e * s)))

theorem qOf_hasDerivAt (e s : ℝ) (he0 : 0 < e) (he1 : e < 1) (hs : s ∈ Icc (-1 : ℝ) 1) :
    HasDerivAt (qOf e) ((1 - e * e) * 2 / ((1 - e * s) * (1 + e * s)) ^ 2) s := by
  obtain ⟨hs1, hs2⟩ := hs
  have hes1 : 0 < 1 - e * s := by nlinarith
  have hes2 : 0 < 1 + e * s := by nlinarith
  have hden : 1 - e * s * (e * s) ≠ 0 := by
    have : 1 - e * s * (e * s) = (1 - e * s) * (1 + e * s) := by ring
    rw [this]; exact (mul_pos hes1 hes2).ne'
  have hnum : HasDerivAt (fun x : ℝ => 1 - e * x * (e * x)) (-(e * 1 * (e * s) + e * s * (e * 1))) s :=
    ((((hasDerivAt_id s).const_mul e).mul ((hasDerivAt_id s).const_mul e))).const_sub 1
  have h0 : HasDerivAt (fun x : ℝ => x / (1 - e * x * (e * x)))
      ((1 * (1 - e * s * (e * s)) - s * (-(e * 1 * (e * s) + e * s * (e * 1)))) / (1 - e * s * (e * s)) ^ 2) s :=
    (hasDerivAt_id s).div hnum hden
  have h3 : HasDerivAt (fun x : ℝ => log (1 - e * x)) (-(e * 1) / (1 - e * s)) s :=
    (((hasDerivAt_id s).const_mul e).const_sub 1).log (by simpa using hes1.ne')
  have h4 : HasDerivAt (fun x : ℝ => log (1 + e * x)) ((e * 1) / (1 + e * s)) s :=
    (((hasDerivAt_id s).const_mul e).const_add 1).log (by simpa using hes2.ne')
  have h := (h0.sub ((h3.sub h4).const_mul (0.5 / e))).const_mul (1 - e * e)
  have key : (1 - e * e) * ((1 * (1 - e * s * (e * s)) - s * (-(e * 1 * (e * s) + e * s * (e * 1)))) / (1 - e * s * (e * s)) ^ 2
        - 0.5 / e * (-(e * 1) / (1 - e * s) - e * 1 / (1 + e * s)))
      = (1 - e * e) * 2 / ((1 - e * s) * (1 + e * s)) ^ 2 := by
    have b1 : (1 : ℝ) - e * s ≠ 0 := hes1.ne'
    have b2 : (1 : ℝ) + e * s ≠ 0 := hes2.ne'
    rw [show (1 : ℝ) - e * s * (e * s) = (1 - e * s) * (1 + e * s) by ring]
    field_simp
    ring
  rw [← key]
  exact h

theorem qOf_strictMono (e : ℝ) (he0 : 0 < e) (he1 : e < 1) : StrictMonoOn (qOf e) (Icc (-1 : ℝ) 1) := by
  apply strictMonoOn_of_deriv_pos (convex_Icc _ _)
  · intro s hs
    exact (qOf_hasDerivAt e s he0 he1 hs).continuousAt.continuousWithinAt
  · intro s hs
    rw [interior_Icc] at hs
    rw [(qOf_hasDerivAt e s he0 he1 ⟨hs.1.le, hs.2.le⟩).deriv]
    have hes1 : 0 < 1 - e * s := by nlinarith [hs.1, hs.2]
    have hes2 : 0 < 1 + e * s := by nlinarith [hs.1, hs.2]
    have : 0 < 1 - e * e := by nlinarith
    positivity

theorem qsfnz_eq_qOf (e s : ℝ) (he : 1.0e-7 < e) (hes1 : 0 < 1 - e * s) (hes2 : 0 < 1 + e * s) :
    qsfnz e s = qOf e s := by
  simp only [qsfnz, qOf, gt_real, he, decide_true, if_true, log_real, lit_one]
  rw [Real.log_div hes1.ne' hes2.ne']

/-- **uniqueness of the fixed point of `aeaPhi1z`**: a stationary `φ'` with `|φ'| < π/2` at
`qs = qsfnz e (sin φ)` is the true latitude (1e-7 < e < 1, |φ| ≤ π/2). -/
theorem C08_aeaPhi1z_fixed_unique (e phi phi' : ℝ) (he : 1.0e-7 < e) (he1 : e < 1) (hphi : |phi| ≤ π / 2)
    (hphi' : |phi'| < π / 2) (h : aeaPhi1zStep e (qsfnz e (sin phi)) phi' = 0) : phi' = phi := by
  have he0 : (0 : ℝ) < e := lt_trans (by norm_num) he
  obtain ⟨a1, a2⟩ := abs_lt.mp hphi'
  obtain ⟨b1, b2⟩ := abs_le.mp hphi
  have hcos : cos phi' ≠ 0 := (cos_pos_of_mem_Ioo ⟨a1, a2⟩).ne'
  have hsb : ∀ x : ℝ, 0 < 1 - e * sin x ∧ 0 < 1 + e * sin x := by
    intro x; constructor <;> nlinarith [sin_le_one x, neg_one_le_sin x]
  have hcom : 1 - e * sin phi' * (e * sin phi') ≠ 0 := by
    have : 1 - e * sin phi' * (e * sin phi') = (1 - e * sin phi') * (1 + e * sin phi') := by ring
    rw [this]; exact (mul_pos (hsb phi').1 (hsb phi').2).ne'
  have hq := qsfnz_of_stationary e _ phi' he he1 hcos hcom h
  rw [qsfnz_eq_qOf e _ he (hsb phi').1 (hsb phi').2, qsfnz_eq_qOf e _ he (hsb phi).1 (hsb phi).2] at hq
  have hs : sin phi' = sin phi :=
    (qOf_strictMono e he0 he1).injOn ⟨neg_one_le_sin _, sin_le_one _⟩ ⟨neg_one_le_sin _, sin_le_one _⟩ hq
  exact injOn_sin ⟨a1.le, a2.le⟩ ⟨b1, b2⟩ hs

/-- **aea_inv_exact** (ellipsoid, 1e-7 < e < 1, both cone signs): if `aeaPhi1z` stops in (−π/2, π/2)
where its update is exactly zero, inverse(forward(λ, φ)) = (λ, φ). -/
theorem C08_aea_inv_exact (k : AeaC ℝ) (hs : k.sr.sphere = false) (ha : 0 < k.sr.a) (hn : k.ns0 ≠ 0)
    (he : 1.0e-7 < k.e3) (he1 : k.e3 < 1) (lon lat lat' : ℝ) (hlat : |lat| ≤ π / 2) (hlat' : |lat'| < π / 2)
    (hpos : 0 < k.c - k.ns0 * qsfnz k.e3 (sin lat))
    (hlon : |lon| ≤ sPi) (hdl : |lon - k.sr.long0| ≤ sPi)
    (h1 : -π < k.ns0 * (lon - k.sr.long0)) (h2 : k.ns0 * (lon - k.sr.long0) ≤ π)
    (hconv : aeaPhi1z k.e3 (qsfnz k.e3 (sin lat)) = .ok lat')
    (hstat : aeaPhi1zStep k.e3 (qsfnz k.e3 (sin lat)) lat' = 0) :
    (fwdAea k lon lat).bind (fun q => invAea k q.1 q.2) = .ok (lon, lat) := by
  rw [aea_chain k hs ha hn lon lat hpos hlon hdl h1 h2, hconv,
    C08_aeaPhi1z_fixed_unique k.e3 lat lat' he he1 hlat hlat' hstat]
  rfl

end GeomV.C08
