import GeomV.C08.ProofsUnique
/-!
# C08 — `aeaPhi1z` is a MONOTONE Newton iteration with an explicit quadratic remainder

`aeaPhi1z` solves `q(φ) = qs` for the authalic `q(φ) = qOf e (sin φ)` by Newton's method in `φ`:
`dphi = (qs − q(φ))/q'(φ)`, `q'(φ) = qD e φ = 2(1−e²) cos φ/(1−e² sin²φ)²` (`aeaStep_eq`).
For `e² ≤ 1/4` the derivative `qD e` is decreasing on `[0, π/2]` (`qD_antitone`, algebraic: in `c = cos φ` it is
`2a·c/(a + b c²)²`, `a = 1−e²`, `b = e²`, and `c₂(a+bc₁²)² − c₁(a+bc₂²)² = (c₂−c₁)(a² − 2ab c₁c₂ − b²c₁c₂(c₁²+c₁c₂+c₂²))
≥ (c₂−c₁)(1−4e²)`), i.e. `q` is concave there, and Lipschitz with constant `2/(1−e²)` (`qD_lipschitz`).  Hence, from
any `φ` with `0 ≤ φ ≤ p < π/2` and `qs = q(p)`:

* `C08_aea_newton_monotone`: the next iterate `φ'` satisfies `φ ≤ φ' ≤ p` (never overshoots) and
  `p − φ' ≤ (1 − q'(p)/q'(φ))(p − φ)` (linear rate);
* `C08_aea_newton_quadratic`: `p − φ' ≤ (p − φ)²/((1−e²) q'(p))` — at 89° on the Earth ellipsoids the constant is
  28.7 = tan 89°/2, the value measured in the traced run (increments 1.47e-6 → 6.2e-11);
* `C08_aea_straddle`: the increment AFTER a pass from `φ` is `≤ (p−φ)²/((1−e²) q'(p))`: what two runs that fall on
  different sides of the stop test `|dphi| <= 1e-7` can differ by — the judge's straddle term.

Still missing for "returns within 25 passes": the start `asin(qs/2)` lies in `[0, p]` (needs `q(s) ≤ 2s`) and the
count of the linear phase near the pole.
-/
set_option linter.unusedSimpArgs false
namespace GeomV.C08
open Real Set

/-- `q'(φ)`: derivative of the authalic `q` in the latitude -/
noncomputable def qD (e phi : ℝ) : ℝ :=
  (1 - e * e) * 2 / ((1 - e * sin phi) * (1 + e * sin phi)) ^ 2 * cos phi

theorem qPhi_hasDerivAt (e phi : ℝ) (he0 : 0 < e) (he1 : e < 1) :
    HasDerivAt (fun x => qOf e (sin x)) (qD e phi) phi := by
  have h := (qOf_hasDerivAt e (sin phi) he0 he1 ⟨neg_one_le_sin _, sin_le_one _⟩).comp phi (hasDerivAt_sin phi)
  exact h

theorem esin_pos (e x : ℝ) (he0 : 0 < e) (he1 : e < 1) : 0 < 1 - e * sin x ∧ 0 < 1 + e * sin x := by
  constructor <;> nlinarith [sin_le_one x, neg_one_le_sin x]

theorem qD_pos (e phi : ℝ) (he0 : 0 < e) (he1 : e < 1) (h1 : -(π / 2) < phi) (h2 : phi < π / 2) : 0 < qD e phi := by
  obtain ⟨a, b⟩ := esin_pos e phi he0 he1
  have hc := cos_pos_of_mem_Ioo ⟨h1, h2⟩
  have : 0 < 1 - e * e := by nlinarith
  unfold qD; positivity

theorem qD_nonneg (e phi : ℝ) (he0 : 0 < e) (he1 : e < 1) (h1 : -(π / 2) ≤ phi) (h2 : phi ≤ π / 2) : 0 ≤ qD e phi := by
  obtain ⟨a, b⟩ := esin_pos e phi he0 he1
  have hc := cos_nonneg_of_mem_Icc ⟨h1, h2⟩
  have : 0 < 1 - e * e := by nlinarith
  unfold qD; positivity

/-- the Newton form of the update -/
theorem aeaStep_eq (e qs phi : ℝ) (he : 1.0e-7 < e) (he1 : e < 1) (hc : cos phi ≠ 0) :
    aeaPhi1zStep e qs phi = (qs - qOf e (sin phi)) / qD e phi := by
  have he0 : (0 : ℝ) < e := lt_trans (by norm_num) he
  obtain ⟨a, b⟩ := esin_pos e phi he0 he1
  have hne : (1 : ℝ) - e * e ≠ 0 := by nlinarith
  simp only [aeaPhi1zStep, qOf, qD, sin_real, cos_real, log_real, lit_one]
  rw [Real.log_div a.ne' b.ne']
  rw [show (1 : ℝ) - e * sin phi * (e * sin phi) = (1 - e * sin phi) * (1 + e * sin phi) by ring]
  have a' := a.ne'
  have b' := b.ne'
  have e' := he0.ne'
  have hne2 : (1 : ℝ) - e ^ 2 ≠ 0 := by rw [pow_two]; exact hne
  field_simp
  ring

/-- `qD` in terms of `c = cos φ` -/
theorem qD_cos (e phi : ℝ) :
    qD e phi = 2 * (1 - e * e) * (cos phi / ((1 - e * e) + e * e * cos phi ^ 2) ^ 2) := by
  unfold qD
  have : (1 - e * sin phi) * (1 + e * sin phi) = (1 - e * e) + e * e * cos phi ^ 2 := by
    have := sin_sq_add_cos_sq phi
    nlinarith
  rw [this]; ring

/-- the algebraic core: `c ↦ c/(a + b c²)²` is increasing on [0, 1] for `a = 1 − b`, `0 ≤ b ≤ 1/4`, with slope ≤ 1/a² -/
theorem gfun_mono (b c1 c2 : ℝ) (hb0 : 0 ≤ b) (hb : b ≤ 1 / 4) (h0 : 0 ≤ c1) (h12 : c1 ≤ c2) (h1 : c2 ≤ 1) :
    c1 / ((1 - b) + b * c1 ^ 2) ^ 2 ≤ c2 / ((1 - b) + b * c2 ^ 2) ^ 2 ∧
    c2 / ((1 - b) + b * c2 ^ 2) ^ 2 - c1 / ((1 - b) + b * c1 ^ 2) ^ 2 ≤ (c2 - c1) / (1 - b) ^ 2 := by
  have ha : 0 < 1 - b := by linarith
  have hc2 : 0 ≤ c2 := le_trans h0 h12
  have hc1 : c1 ≤ 1 := le_trans h12 h1
  set a := 1 - b with hadef
  have hd1 : 0 < a + b * c1 ^ 2 := by positivity
  have hd2 : 0 < a + b * c2 ^ 2 := by positivity
  have hd1a : a ≤ a + b * c1 ^ 2 := by nlinarith [sq_nonneg c1]
  have hd2a : a ≤ a + b * c2 ^ 2 := by nlinarith [sq_nonneg c2]
  set m := c1 * c2 with hm
  set t := c1 ^ 2 + c1 * c2 + c2 ^ 2 with ht
  have hm0 : 0 ≤ m := mul_nonneg h0 hc2
  have hm1 : m ≤ 1 := by nlinarith
  have ht0 : 0 ≤ t := by positivity
  have ht3 : t ≤ 3 := by nlinarith
  have hmt : m * t ≤ 3 := by nlinarith
  have hmt0 : 0 ≤ m * t := mul_nonneg hm0 ht0
  -- the bracket
  have hB0 : 0 ≤ a ^ 2 - 2 * a * b * m - b ^ 2 * (m * t) := by
    have h1 : a ^ 2 - 2 * a * b - 3 * b ^ 2 = (a - 3 * b) * (a + b) := by ring
    have h2 : 0 ≤ (a - 3 * b) * (a + b) := by
      apply mul_nonneg <;> simp only [hadef] <;> linarith
    have h3 : 2 * a * b * m ≤ 2 * a * b := by
      have : 0 ≤ 2 * a * b := by positivity
      nlinarith
    have h4 : b ^ 2 * (m * t) ≤ 3 * b ^ 2 := by nlinarith [sq_nonneg b]
    linarith
  have hBa : a ^ 2 - 2 * a * b * m - b ^ 2 * (m * t) ≤ a ^ 2 := by
    have : 0 ≤ 2 * a * b * m := by positivity
    have : 0 ≤ b ^ 2 * (m * t) := by positivity
    linarith
  have key : c2 * (a + b * c1 ^ 2) ^ 2 - c1 * (a + b * c2 ^ 2) ^ 2
      = (c2 - c1) * (a ^ 2 - 2 * a * b * m - b ^ 2 * (m * t)) := by
    simp only [hm, ht]; ring
  have hdiff : c2 / (a + b * c2 ^ 2) ^ 2 - c1 / (a + b * c1 ^ 2) ^ 2
      = (c2 - c1) * (a ^ 2 - 2 * a * b * m - b ^ 2 * (m * t)) / ((a + b * c1 ^ 2) ^ 2 * (a + b * c2 ^ 2) ^ 2) := by
    rw [← key]; field_simp
  have hnum0 : 0 ≤ (c2 - c1) * (a ^ 2 - 2 * a * b * m - b ^ 2 * (m * t)) :=
    mul_nonneg (by linarith) hB0
  have hden : 0 < (a + b * c1 ^ 2) ^ 2 * (a + b * c2 ^ 2) ^ 2 := by positivity
  constructor
  · have : 0 ≤ c2 / (a + b * c2 ^ 2) ^ 2 - c1 / (a + b * c1 ^ 2) ^ 2 := by
      rw [hdiff]; exact div_nonneg hnum0 hden.le
    linarith
  · rw [hdiff]
    have hden4 : a ^ 2 * a ^ 2 ≤ (a + b * c1 ^ 2) ^ 2 * (a + b * c2 ^ 2) ^ 2 := by
      apply mul_le_mul <;> first | positivity | nlinarith
    have hnum : (c2 - c1) * (a ^ 2 - 2 * a * b * m - b ^ 2 * (m * t)) ≤ (c2 - c1) * a ^ 2 :=
      mul_le_mul_of_nonneg_left hBa (by linarith)
    calc (c2 - c1) * (a ^ 2 - 2 * a * b * m - b ^ 2 * (m * t)) / ((a + b * c1 ^ 2) ^ 2 * (a + b * c2 ^ 2) ^ 2)
        ≤ (c2 - c1) * a ^ 2 / ((a + b * c1 ^ 2) ^ 2 * (a + b * c2 ^ 2) ^ 2) :=
          div_le_div_of_nonneg_right hnum hden.le
      _ ≤ (c2 - c1) * a ^ 2 / (a ^ 2 * a ^ 2) := by
          apply div_le_div_of_nonneg_left _ (by positivity) hden4
          exact mul_nonneg (by linarith) (by positivity)
      _ = (c2 - c1) / a ^ 2 := by field_simp

/-- `cos` is 1-Lipschitz: `cos x − cos y ≤ y − x` for `x ≤ y` -/
theorem cos_sub_le (x y : ℝ) (hxy : x ≤ y) : cos x - cos y ≤ y - x := by
  have h := Convex.mul_sub_le_image_sub_of_le_deriv (convex_univ) (f := cos) (C := -1)
    continuous_cos.continuousOn differentiable_cos.differentiableOn
    (by intro t _; rw [Real.deriv_cos]; linarith [sin_le_one t]) x (mem_univ x) y (mem_univ y) hxy
  linarith

/-- for `e² ≤ 1/4` the derivative of `q` is decreasing on [0, π/2] (q is concave), and Lipschitz with `2/(1−e²)` -/
theorem qD_antitone (e x y : ℝ) (he0 : 0 < e) (he2 : e * e ≤ 1 / 4) (hx : 0 ≤ x) (hxy : x ≤ y) (hy : y ≤ π / 2) :
    qD e y ≤ qD e x ∧ qD e x - qD e y ≤ 2 / (1 - e * e) * (y - x) := by
  have hcy : 0 ≤ cos y := cos_nonneg_of_mem_Icc ⟨by linarith [pi_pos], hy⟩
  have hcxy : cos y ≤ cos x := cos_le_cos_of_nonneg_of_le_pi hx (by linarith [pi_pos]) hxy
  have hcx1 : cos x ≤ 1 := cos_le_one x
  obtain ⟨g1, g2⟩ := gfun_mono (e * e) (cos y) (cos x) (by positivity) he2 hcy hcxy hcx1
  have ha : 0 < 1 - e * e := by linarith
  rw [qD_cos, qD_cos]
  constructor
  · have : 0 ≤ 2 * (1 - e * e) := by linarith
    exact mul_le_mul_of_nonneg_left g1 this
  · have hcos := cos_sub_le x y hxy
    have h1 : 2 * (1 - e * e) * (cos x / ((1 - e * e) + e * e * cos x ^ 2) ^ 2)
        - 2 * (1 - e * e) * (cos y / ((1 - e * e) + e * e * cos y ^ 2) ^ 2)
        ≤ 2 * (1 - e * e) * ((cos x - cos y) / (1 - e * e) ^ 2) := by
      have : 0 ≤ 2 * (1 - e * e) := by linarith
      nlinarith [mul_le_mul_of_nonneg_left g2 this]
    have h2 : 2 * (1 - e * e) * ((cos x - cos y) / (1 - e * e) ^ 2) = 2 / (1 - e * e) * (cos x - cos y) := by
      field_simp
    have h3 : 2 / (1 - e * e) * (cos x - cos y) ≤ 2 / (1 - e * e) * (y - x) :=
      mul_le_mul_of_nonneg_left hcos (by positivity)
    linarith

/-- mean value bounds of `q` on `[φ, p] ⊆ [0, π/2)`: concavity and the quadratic lower bound -/
theorem qPhi_bounds (e phi p : ℝ) (he0 : 0 < e) (he2 : e * e ≤ 1 / 4) (h0 : 0 ≤ phi) (hpp : phi ≤ p) (hp : p ≤ π / 2) :
    qD e p * (p - phi) ≤ qOf e (sin p) - qOf e (sin phi)
    ∧ qOf e (sin p) - qOf e (sin phi) ≤ qD e phi * (p - phi)
    ∧ qD e phi * (p - phi) - (p - phi) ^ 2 / (1 - e * e) ≤ qOf e (sin p) - qOf e (sin phi) := by
  have he1 : e < 1 := by nlinarith
  have ha : 0 < 1 - e * e := by linarith
  have hF : ∀ x : ℝ, HasDerivAt (fun x => qOf e (sin x)) (qD e x) x := fun x => qPhi_hasDerivAt e x he0 he1
  have hcont : ContinuousOn (fun x => qOf e (sin x)) (Icc phi p) :=
    fun x _ => (hF x).continuousAt.continuousWithinAt
  have hdiff : DifferentiableOn ℝ (fun x => qOf e (sin x)) (interior (Icc phi p)) :=
    fun x _ => (hF x).differentiableAt.differentiableWithinAt
  refine ⟨?_, ?_, ?_⟩
  · have h := Convex.mul_sub_le_image_sub_of_le_deriv (convex_Icc phi p) hcont hdiff (C := qD e p)
      (by
        intro t ht
        rw [interior_Icc] at ht
        rw [(hF t).deriv]
        exact (qD_antitone e t p he0 he2 (by linarith [ht.1]) ht.2.le hp).1)
      phi (left_mem_Icc.mpr hpp) p (right_mem_Icc.mpr hpp) hpp
    exact h
  · have h := Convex.image_sub_le_mul_sub_of_deriv_le (convex_Icc phi p) hcont hdiff (C := qD e phi)
      (by
        intro t ht
        rw [interior_Icc] at ht
        rw [(hF t).deriv]
        exact (qD_antitone e phi t he0 he2 h0 ht.1.le (by linarith [ht.2])).1)
      phi (left_mem_Icc.mpr hpp) p (right_mem_Icc.mpr hpp) hpp
    exact h
  · -- G(t) = q(t) − q'(φ) t + (t − φ)²/(1−e²) is increasing on [φ, p]
    set L := 1 / (1 - e * e) with hL
    have hG : ∀ x : ℝ, HasDerivAt (fun x => qOf e (sin x) - qD e phi * x + L * (x - phi) ^ 2)
        (qD e x - qD e phi * 1 + L * (2 * (x - phi) ^ (2 - 1) * 1)) x := by
      intro x
      exact ((hF x).sub ((hasDerivAt_id x).const_mul (qD e phi))).add
        ((((hasDerivAt_id x).sub_const phi).pow 2).const_mul L)
    have hcontG : ContinuousOn (fun x => qOf e (sin x) - qD e phi * x + L * (x - phi) ^ 2) (Icc phi p) :=
      fun x _ => (hG x).continuousAt.continuousWithinAt
    have hdiffG : DifferentiableOn ℝ (fun x => qOf e (sin x) - qD e phi * x + L * (x - phi) ^ 2) (interior (Icc phi p)) :=
      fun x _ => (hG x).differentiableAt.differentiableWithinAt
    have h := Convex.mul_sub_le_image_sub_of_le_deriv (convex_Icc phi p) hcontG hdiffG (C := 0)
      (by
        intro t ht
        rw [interior_Icc] at ht
        rw [(hG t).deriv]
        have hl := (qD_antitone e phi t he0 he2 h0 ht.1.le (by linarith [ht.2])).2
        have : 2 / (1 - e * e) * (t - phi) = L * (2 * (t - phi)) := by rw [hL]; ring
        simp only [pow_one, Nat.add_one_sub_one] at *
        nlinarith)
      phi (left_mem_Icc.mpr hpp) p (right_mem_Icc.mpr hpp) hpp
    simp only [sub_self, zero_mul] at h
    have : L * (p - phi) ^ 2 = (p - phi) ^ 2 / (1 - e * e) := by rw [hL]; ring
    have h' : 0 ≤ qOf e (sin p) - qD e phi * p + L * (p - phi) ^ 2 - (qOf e (sin phi) - qD e phi * phi + L * (phi - phi) ^ 2) := by
      simpa using h
    nlinarith

/-- **monotone Newton**: from `0 ≤ φ ≤ p < π/2` one pass of `aeaPhi1z` at `qs = qsfnz e (sin p)` moves up, does not
pass the root, and contracts the error by `1 − q'(p)/q'(φ)` (1e-7 < e, e² ≤ 1/4). -/
theorem C08_aea_newton_monotone (e p phi : ℝ) (he : 1.0e-7 < e) (he2 : e * e ≤ 1 / 4)
    (h0 : 0 ≤ phi) (hpp : phi ≤ p) (hp : p < π / 2) :
    0 ≤ aeaPhi1zStep e (qsfnz e (sin p)) phi
    ∧ phi + aeaPhi1zStep e (qsfnz e (sin p)) phi ≤ p
    ∧ p - (phi + aeaPhi1zStep e (qsfnz e (sin p)) phi) ≤ (1 - qD e p / qD e phi) * (p - phi) := by
  have he0 : (0 : ℝ) < e := lt_trans (by norm_num) he
  have he1 : e < 1 := by nlinarith
  have hphi2 : phi < π / 2 := lt_of_le_of_lt hpp hp
  have hDphi := qD_pos e phi he0 he1 (by linarith [pi_pos]) hphi2
  have hDp := qD_pos e p he0 he1 (by linarith [pi_pos]) hp
  have hc : cos phi ≠ 0 := (cos_pos_of_mem_Ioo ⟨by linarith [pi_pos], hphi2⟩).ne'
  obtain ⟨b1, b2, _⟩ := qPhi_bounds e phi p he0 he2 h0 hpp hp.le
  rw [qsfnz_eq_qOf e _ he (esin_pos e p he0 he1).1 (esin_pos e p he0 he1).2, aeaStep_eq e _ phi he he1 hc]
  have hpos : 0 ≤ p - phi := by linarith
  refine ⟨div_nonneg (le_trans (mul_nonneg hDp.le hpos) b1) hDphi.le, ?_, ?_⟩
  · have : (qOf e (sin p) - qOf e (sin phi)) / qD e phi ≤ p - phi := by
      rw [div_le_iff₀ hDphi]; linarith
    linarith
  · have : qD e p / qD e phi * (p - phi) ≤ (qOf e (sin p) - qOf e (sin phi)) / qD e phi := by
      rw [div_mul_eq_mul_div, div_le_div_iff_of_pos_right hDphi]; exact b1
    nlinarith

/-- **quadratic remainder**: `p − φ' ≤ (p − φ)²/((1−e²) q'(p))`. -/
theorem C08_aea_newton_quadratic (e p phi : ℝ) (he : 1.0e-7 < e) (he2 : e * e ≤ 1 / 4)
    (h0 : 0 ≤ phi) (hpp : phi ≤ p) (hp : p < π / 2) :
    p - (phi + aeaPhi1zStep e (qsfnz e (sin p)) phi) ≤ (p - phi) ^ 2 / ((1 - e * e) * qD e p) := by
  have he0 : (0 : ℝ) < e := lt_trans (by norm_num) he
  have he1 : e < 1 := by nlinarith
  have ha : 0 < 1 - e * e := by linarith
  have hphi2 : phi < π / 2 := lt_of_le_of_lt hpp hp
  have hDphi := qD_pos e phi he0 he1 (by linarith [pi_pos]) hphi2
  have hDp := qD_pos e p he0 he1 (by linarith [pi_pos]) hp
  have hc : cos phi ≠ 0 := (cos_pos_of_mem_Ioo ⟨by linarith [pi_pos], hphi2⟩).ne'
  obtain ⟨_, _, b3⟩ := qPhi_bounds e phi p he0 he2 h0 hpp hp.le
  have hanti := (qD_antitone e phi p he0 he2 h0 hpp hp.le).1
  rw [qsfnz_eq_qOf e _ he (esin_pos e p he0 he1).1 (esin_pos e p he0 he1).2, aeaStep_eq e _ phi he he1 hc]
  have h1 : p - (phi + (qOf e (sin p) - qOf e (sin phi)) / qD e phi)
      = (qD e phi * (p - phi) - (qOf e (sin p) - qOf e (sin phi))) / qD e phi := by
    field_simp; ring
  rw [h1]
  have h2 : qD e phi * (p - phi) - (qOf e (sin p) - qOf e (sin phi)) ≤ (p - phi) ^ 2 / (1 - e * e) := by linarith
  have hsq : 0 ≤ (p - phi) ^ 2 / (1 - e * e) := by positivity
  calc (qD e phi * (p - phi) - (qOf e (sin p) - qOf e (sin phi))) / qD e phi
      ≤ ((p - phi) ^ 2 / (1 - e * e)) / qD e phi := div_le_div_of_nonneg_right h2 hDphi.le
    _ ≤ ((p - phi) ^ 2 / (1 - e * e)) / qD e p := div_le_div_of_nonneg_left hsq hDp hanti
    _ = (p - phi) ^ 2 / ((1 - e * e) * qD e p) := by rw [div_div]

/-- **what a straddled stop test costs**: after a pass from `φ ∈ [0, p]` the NEXT increment is non-negative and at most
`(p − φ)²/((1−e²) q'(p))` — two runs that stop one pass apart differ by no more than that. -/
theorem C08_aea_straddle (e p phi : ℝ) (he : 1.0e-7 < e) (he2 : e * e ≤ 1 / 4)
    (h0 : 0 ≤ phi) (hpp : phi ≤ p) (hp : p < π / 2) :
    0 ≤ aeaPhi1zStep e (qsfnz e (sin p)) (phi + aeaPhi1zStep e (qsfnz e (sin p)) phi)
    ∧ aeaPhi1zStep e (qsfnz e (sin p)) (phi + aeaPhi1zStep e (qsfnz e (sin p)) phi)
        ≤ (p - phi) ^ 2 / ((1 - e * e) * qD e p) := by
  obtain ⟨m1, m2, _⟩ := C08_aea_newton_monotone e p phi he he2 h0 hpp hp
  have q := C08_aea_newton_quadratic e p phi he he2 h0 hpp hp
  obtain ⟨n1, n2, _⟩ := C08_aea_newton_monotone e p (phi + aeaPhi1zStep e (qsfnz e (sin p)) phi) he he2
    (by linarith) m2 hp
  exact ⟨n1, by linarith⟩

/-- non-vacuity: the hypotheses hold on the Earth ellipsoids (e = 0.0818) at 89° from the traced start -/
example : (1.0e-7 : ℝ) < 0.0818 ∧ (0.0818 : ℝ) * 0.0818 ≤ 1 / 4 ∧ (0 : ℝ) ≤ 1.5135 ∧ (1.5135 : ℝ) ≤ 1.5533 := by
  norm_num

end GeomV.C08
