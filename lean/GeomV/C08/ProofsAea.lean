import GeomV.C08.ProofsUnique
/-!
# C08 — `aeaPhi1z` is a MONOTONE Newton iteration with an explicit quadratic remainder

`aeaPhi1z` solves `q(φ) = qs` for the authalic `q(φ) = qOf e (sin φ)` by Newton's method in `φ`:
`dphi = (qs − q(φ))/q'(φ)`, `q'(φ) = qD e φ = 2(1−e²) cos φ/(1−e² sin²φ)²` (`aeaStep_eq`).
For `e² ≤ 1/4` the derivative `qD e` is decreasing on `[0, π/2]` (`qD_antitone`, algebraic: in `c = cos φ` it is
`2a·c/(a + b c²)²`, `a = 1−e²`, `b = e²`, and `c₂(a+bc₁²)² − c₁(a+bc₂²)² = (c₂−c₁)(a² − 2ab c₁c₂ − b²c₁c₂(c₁²+c₁c₂+c₂²))
≥ (c₂−c₁)(1−4e²)`), i.e. `q` is concave there, and Lipschitz with constant `2/(1−e²)` (`qD_lipschitz`).  Hence, from
any `φ` with `0 ≤ φ ≤ p < π/2` and `qs = q(p)`:

* `C08_aea_newton_monotone`: the next iterate `φ'` satisfies `φ ≤ φ' ≤ p` (never overshoots) and
  `p − φ' ≤ (1 − q'(p)/q'(φ))(p − φ)` (linear rate);
* `C08_aea_newton_quadratic`: `p − φ' ≤ (p − φ)²/((1−e²) q'(p))` — at 89° on the Earth ellipsoids the constant is
  28.7 = tan 89°/2, the value measured in the traced run (increments 1.47e-6 → 6.2e-11);
* `C08_aea_straddle`: the increment AFTER a pass from `φ` is `≤ (p−φ)²/((1−e²) q'(p))`: what two runs that fall on
  different sides of the stop test `|dphi| <= 1e-7` can differ by — the judge's straddle term.

* `C08_aeaPhi1zLoop_close`, `C08_aeaPhi1z_close`, `C08_aea_inv_close`: WHATEVER the loop / `aeaPhi1z` / the Albers inverse
  returns (start `asin(qs/2) ∈ [0, p]` by `qOf_le_two_mul`: `q(s) ≤ 2s`) lies in `[0, p]` within
  `(1e-7·q'(0)/q'(p))²/((1−e²) q'(p))` of `p` — 1.2e-9 rad at 89° (`aea_bound_numeric`): the 1e-6 degree clause;
* `C08_aeaPhi1zLoop_ok`, `C08_aeaPhi1z_converges_partial`, `C08_aea_inv_within_partial`: it DOES return within its 25
  passes for `0 ≤ p ≤ 60°` (linear rate against `q'(0)` alone).

Still missing: "returns within 25 passes" between 60° and 89° (needs the linear rate against `q'(φ₀)` with a lower bound
of the start, then the quadratic phase), and negative latitudes (the iteration is odd in `(qs, φ)`).
-/
set_option linter.unusedSimpArgs false
namespace GeomV.C08
open Real Set

/-- `q'(φ)`: derivative of the authalic `q` in the latitude -/
noncomputable def qD (e phi : ℝ) : ℝ :=
  (1 - e * e) * 2 / ((1 - e * sin phi) * (1 + e * sin phi)) ^ 2 * cos phi

theorem qPhi_hasDerivAt (e phi : ℝ) (he0 : 0 < e) (he1 : e < 1) :
    HasDerivAt (fun x => qOf e (sin x)) (qD e phi) phi := by
  have h := (qOf_hasDerivAt e (sin phi) he0 he1 ⟨neg_one_le_sin _, sin_le_one _⟩).comp phi (hasDerivAt_sin phi)
  exact h

theorem esin_pos (e x : ℝ) (he0 : 0 < e) (he1 : e < 1) : 0 < 1 - e * sin x ∧ 0 < 1 + e * sin x := by
  constructor <;> nlinarith [sin_le_one x, neg_one_le_sin x]

theorem qD_pos (e phi : ℝ) (he0 : 0 < e) (he1 : e < 1) (h1 : -(π / 2) < phi) (h2 : phi < π / 2) : 0 < qD e phi := by
  obtain ⟨a, b⟩ := esin_pos e phi he0 he1
  have hc := cos_pos_of_mem_Ioo ⟨h1, h2⟩
  have : 0 < 1 - e * e := by nlinarith
  unfold qD; positivity

theorem qD_nonneg (e phi : ℝ) (he0 : 0 < e) (he1 : e < 1) (h1 : -(π / 2) ≤ phi) (h2 : phi ≤ π / 2) : 0 ≤ qD e phi := by
  obtain ⟨a, b⟩ := esin_pos e phi he0 he1
  have hc := cos_nonneg_of_mem_Icc ⟨h1, h2⟩
  have : 0 < 1 - e * e := by nlinarith
  unfold qD; positivity

/-- the Newton form of the update -/
theorem aeaStep_eq (e qs phi : ℝ) (he : 1.0e-7 < e) (he1 : e < 1) (hc : cos phi ≠ 0) :
    aeaPhi1zStep e qs phi = (qs - qOf e (sin phi)) / qD e phi := by
  have he0 : (0 : ℝ) < e := lt_trans (by norm_num) he
  obtain ⟨a, b⟩ := esin_pos e phi he0 he1
  have hne : (1 : ℝ) - e * e ≠ 0 := by nlinarith
  simp only [aeaPhi1zStep, qOf, qD, sin_real, cos_real, log_real, lit_one]
  rw [Real.log_div a.ne' b.ne']
  rw [show (1 : ℝ) - e * sin phi * (e * sin phi) = (1 - e * sin phi) * (1 + e * sin phi) by ring]
  have a' := a.ne'
  have b' := b.ne'
  have e' := he0.ne'
  have hne2 : (1 : ℝ) - e ^ 2 ≠ 0 := by rw [pow_two]; exact hne
  field_simp
  ring

/-- `qD` in terms of `c = cos φ` -/
theorem qD_cos (e phi : ℝ) :
    qD e phi = 2 * (1 - e * e) * (cos phi / ((1 - e * e) + e * e * cos phi ^ 2) ^ 2) := by
  unfold qD
  have : (1 - e * sin phi) * (1 + e * sin phi) = (1 - e * e) + e * e * cos phi ^ 2 := by
    have := sin_sq_add_cos_sq phi
    nlinarith
  rw [this]; ring

/-- the algebraic core: `c ↦ c/(a + b c²)²` is increasing on [0, 1] for `a = 1 − b`, `0 ≤ b ≤ 1/4`, with slope ≤ 1/a² -/
theorem gfun_mono (b c1 c2 : ℝ) (hb0 : 0 ≤ b) (hb : b ≤ 1 / 4) (h0 : 0 ≤ c1) (h12 : c1 ≤ c2) (h1 : c2 ≤ 1) :
    c1 / ((1 - b) + b * c1 ^ 2) ^ 2 ≤ c2 / ((1 - b) + b * c2 ^ 2) ^ 2 ∧
    c2 / ((1 - b) + b * c2 ^ 2) ^ 2 - c1 / ((1 - b) + b * c1 ^ 2) ^ 2 ≤ (c2 - c1) / (1 - b) ^ 2 := by
  have ha : 0 < 1 - b := by linarith
  have hc2 : 0 ≤ c2 := le_trans h0 h12
  have hc1 : c1 ≤ 1 := le_trans h12 h1
  set a := 1 - b with hadef
  have hd1 : 0 < a + b * c1 ^ 2 := by positivity
  have hd2 : 0 < a + b * c2 ^ 2 := by positivity
  have hd1a : a ≤ a + b * c1 ^ 2 := by nlinarith [sq_nonneg c1]
  have hd2a : a ≤ a + b * c2 ^ 2 := by nlinarith [sq_nonneg c2]
  set m := c1 * c2 with hm
  set t := c1 ^ 2 + c1 * c2 + c2 ^ 2 with ht
  have hm0 : 0 ≤ m := mul_nonneg h0 hc2
  have hm1 : m ≤ 1 := by nlinarith
  have ht0 : 0 ≤ t := by positivity
  have ht3 : t ≤ 3 := by nlinarith
  have hmt : m * t ≤ 3 := by nlinarith
  have hmt0 : 0 ≤ m * t := mul_nonneg hm0 ht0
  -- the bracket
  have hB0 : 0 ≤ a ^ 2 - 2 * a * b * m - b ^ 2 * (m * t) := by
    have h1 : a ^ 2 - 2 * a * b - 3 * b ^ 2 = (a - 3 * b) * (a + b) := by ring
    have h2 : 0 ≤ (a - 3 * b) * (a + b) := by
      apply mul_nonneg <;> simp only [hadef] <;> linarith
    have h3 : 2 * a * b * m ≤ 2 * a * b := by
      have : 0 ≤ 2 * a * b := by positivity
      nlinarith
    have h4 : b ^ 2 * (m * t) ≤ 3 * b ^ 2 := by nlinarith [sq_nonneg b]
    linarith
  have hBa : a ^ 2 - 2 * a * b * m - b ^ 2 * (m * t) ≤ a ^ 2 := by
    have : 0 ≤ 2 * a * b * m := by positivity
    have : 0 ≤ b ^ 2 * (m * t) := by positivity
    linarith
  have key : c2 * (a + b * c1 ^ 2) ^ 2 - c1 * (a + b * c2 ^ 2) ^ 2
      = (c2 - c1) * (a ^ 2 - 2 * a * b * m - b ^ 2 * (m * t)) := by
    simp only [hm, ht]; ring
  have hdiff : c2 / (a + b * c2 ^ 2) ^ 2 - c1 / (a + b * c1 ^ 2) ^ 2
      = (c2 - c1) * (a ^ 2 - 2 * a * b * m - b ^ 2 * (m * t)) / ((a + b * c1 ^ 2) ^ 2 * (a + b * c2 ^ 2) ^ 2) := by
    rw [← key]; field_simp
  have hnum0 : 0 ≤ (c2 - c1) * (a ^ 2 - 2 * a * b * m - b ^ 2 * (m * t)) :=
    mul_nonneg (by linarith) hB0
  have hden : 0 < (a + b * c1 ^ 2) ^ 2 * (a + b * c2 ^ 2) ^ 2 := by positivity
  constructor
  · have : 0 ≤ c2 / (a + b * c2 ^ 2) ^ 2 - c1 / (a + b * c1 ^ 2) ^ 2 := by
      rw [hdiff]; exact div_nonneg hnum0 hden.le
    linarith
  · rw [hdiff]
    have hden4 : a ^ 2 * a ^ 2 ≤ (a + b * c1 ^ 2) ^ 2 * (a + b * c2 ^ 2) ^ 2 := by
      apply mul_le_mul <;> first | positivity | nlinarith
    have hnum : (c2 - c1) * (a ^ 2 - 2 * a * b * m - b ^ 2 * (m * t)) ≤ (c2 - c1) * a ^ 2 :=
      mul_le_mul_of_nonneg_left hBa (by linarith)
    calc (c2 - c1) * (a ^ 2 - 2 * a * b * m - b ^ 2 * (m * t)) / ((a + b * c1 ^ 2) ^ 2 * (a + b * c2 ^ 2) ^ 2)
        ≤ (c2 - c1) * a ^ 2 / ((a + b * c1 ^ 2) ^ 2 * (a + b * c2 ^ 2) ^ 2) :=
          div_le_div_of_nonneg_right hnum hden.le
      _ ≤ (c2 - c1) * a ^ 2 / (a ^ 2 * a ^ 2) := by
          apply div_le_div_of_nonneg_left _ (by positivity) hden4
          exact mul_nonneg (by linarith) (by positivity)
      _ = (c2 - c1) / a ^ 2 := by field_simp

/-- `cos` is 1-Lipschitz: `cos x − cos y ≤ y − x` for `x ≤ y` -/
theorem cos_sub_le (x y : ℝ) (hxy : x ≤ y) : cos x - cos y ≤ y - x := by
  have h := Convex.mul_sub_le_image_sub_of_le_deriv (convex_univ) (f := cos) (C := -1)
    continuous_cos.continuousOn differentiable_cos.differentiableOn
    (by intro t _; rw [Real.deriv_cos]; linarith [sin_le_one t]) x (mem_univ x) y (mem_univ y) hxy
  linarith

/-- for `e² ≤ 1/4` the derivative of `q` is decreasing on [0, π/2] (q is concave), and Lipschitz with `2/(1−e²)` -/
theorem qD_antitone (e x y : ℝ) (he0 : 0 < e) (he2 : e * e ≤ 1 / 4) (hx : 0 ≤ x) (hxy : x ≤ y) (hy : y ≤ π / 2) :
    qD e y ≤ qD e x ∧ qD e x - qD e y ≤ 2 / (1 - e * e) * (y - x) := by
  have hcy : 0 ≤ cos y := cos_nonneg_of_mem_Icc ⟨by linarith [pi_pos], hy⟩
  have hcxy : cos y ≤ cos x := cos_le_cos_of_nonneg_of_le_pi hx (by linarith [pi_pos]) hxy
  have hcx1 : cos x ≤ 1 := cos_le_one x
  obtain ⟨g1, g2⟩ := gfun_mono (e * e) (cos y) (cos x) (by positivity) he2 hcy hcxy hcx1
  have ha : 0 < 1 - e * e := by linarith
  rw [qD_cos, qD_cos]
  constructor
  · have : 0 ≤ 2 * (1 - e * e) := by linarith
    exact mul_le_mul_of_nonneg_left g1 this
  · have hcos := cos_sub_le x y hxy
    have h1 : 2 * (1 - e * e) * (cos x / ((1 - e * e) + e * e * cos x ^ 2) ^ 2)
        - 2 * (1 - e * e) * (cos y / ((1 - e * e) + e * e * cos y ^ 2) ^ 2)
        ≤ 2 * (1 - e * e) * ((cos x - cos y) / (1 - e * e) ^ 2) := by
      have : 0 ≤ 2 * (1 - e * e) := by linarith
      nlinarith [mul_le_mul_of_nonneg_left g2 this]
    have h2 : 2 * (1 - e * e) * ((cos x - cos y) / (1 - e * e) ^ 2) = 2 / (1 - e * e) * (cos x - cos y) := by
      field_simp
    have h3 : 2 / (1 - e * e) * (cos x - cos y) ≤ 2 / (1 - e * e) * (y - x) :=
      mul_le_mul_of_nonneg_left hcos (by positivity)
    linarith

/-- mean value bounds of `q` on `[φ, p] ⊆ [0, π/2)`: concavity and the quadratic lower bound -/
theorem qPhi_bounds (e phi p : ℝ) (he0 : 0 < e) (he2 : e * e ≤ 1 / 4) (h0 : 0 ≤ phi) (hpp : phi ≤ p) (hp : p ≤ π / 2) :
    qD e p * (p - phi) ≤ qOf e (sin p) - qOf e (sin phi)
    ∧ qOf e (sin p) - qOf e (sin phi) ≤ qD e phi * (p - phi)
    ∧ qD e phi * (p - phi) - (p - phi) ^ 2 / (1 - e * e) ≤ qOf e (sin p) - qOf e (sin phi) := by
  have he1 : e < 1 := by nlinarith
  have ha : 0 < 1 - e * e := by linarith
  have hF : ∀ x : ℝ, HasDerivAt (fun x => qOf e (sin x)) (qD e x) x := fun x => qPhi_hasDerivAt e x he0 he1
  have hcont : ContinuousOn (fun x => qOf e (sin x)) (Icc phi p) :=
    fun x _ => (hF x).continuousAt.continuousWithinAt
  have hdiff : DifferentiableOn ℝ (fun x => qOf e (sin x)) (interior (Icc phi p)) :=
    fun x _ => (hF x).differentiableAt.differentiableWithinAt
  refine ⟨?_, ?_, ?_⟩
  · have h := Convex.mul_sub_le_image_sub_of_le_deriv (convex_Icc phi p) hcont hdiff (C := qD e p)
      (by
        intro t ht
        rw [interior_Icc] at ht
        rw [(hF t).deriv]
        exact (qD_antitone e t p he0 he2 (by linarith [ht.1]) ht.2.le hp).1)
      phi (left_mem_Icc.mpr hpp) p (right_mem_Icc.mpr hpp) hpp
    exact h
  · have h := Convex.image_sub_le_mul_sub_of_deriv_le (convex_Icc phi p) hcont hdiff (C := qD e phi)
      (by
        intro t ht
        rw [interior_Icc] at ht
        rw [(hF t).deriv]
        exact (qD_antitone e phi t he0 he2 h0 ht.1.le (by linarith [ht.2])).1)
      phi (left_mem_Icc.mpr hpp) p (right_mem_Icc.mpr hpp) hpp
    exact h
  · -- G(t) = q(t) − q'(φ) t + (t − φ)²/(1−e²) is increasing on [φ, p]
    set L := 1 / (1 - e * e) with hL
    have hG : ∀ x : ℝ, HasDerivAt (fun x => qOf e (sin x) - qD e phi * x + L * (x - phi) ^ 2)
        (qD e x - qD e phi * 1 + L * (2 * (x - phi) ^ (2 - 1) * 1)) x := by
      intro x
      exact ((hF x).sub ((hasDerivAt_id x).const_mul (qD e phi))).add
        ((((hasDerivAt_id x).sub_const phi).pow 2).const_mul L)
    have hcontG : ContinuousOn (fun x => qOf e (sin x) - qD e phi * x + L * (x - phi) ^ 2) (Icc phi p) :=
      fun x _ => (hG x).continuousAt.continuousWithinAt
    have hdiffG : DifferentiableOn ℝ (fun x => qOf e (sin x) - qD e phi * x + L * (x - phi) ^ 2) (interior (Icc phi p)) :=
      fun x _ => (hG x).differentiableAt.differentiableWithinAt
    have h := Convex.mul_sub_le_image_sub_of_le_deriv (convex_Icc phi p) hcontG hdiffG (C := 0)
      (by
        intro t ht
        rw [interior_Icc] at ht
        rw [(hG t).deriv]
        have hl := (qD_antitone e phi t he0 he2 h0 ht.1.le (by linarith [ht.2])).2
        have : 2 / (1 - e * e) * (t - phi) = L * (2 * (t - phi)) := by rw [hL]; ring
        simp only [pow_one, Nat.add_one_sub_one] at *
        nlinarith)
      phi (left_mem_Icc.mpr hpp) p (right_mem_Icc.mpr hpp) hpp
    simp only [sub_self, zero_mul] at h
    have : L * (p - phi) ^ 2 = (p - phi) ^ 2 / (1 - e * e) := by rw [hL]; ring
    have h' : 0 ≤ qOf e (sin p) - qD e phi * p + L * (p - phi) ^ 2 - (qOf e (sin phi) - qD e phi * phi + L * (phi - phi) ^ 2) := by
      simpa using h
    nlinarith

/-- **monotone Newton**: from `0 ≤ φ ≤ p < π/2` one pass of `aeaPhi1z` at `qs = qsfnz e (sin p)` moves up, does not
pass the root, and contracts the error by `1 − q'(p)/q'(φ)` (1e-7 < e, e² ≤ 1/4). -/
theorem C08_aea_newton_monotone (e p phi : ℝ) (he : 1.0e-7 < e) (he2 : e * e ≤ 1 / 4)
    (h0 : 0 ≤ phi) (hpp : phi ≤ p) (hp : p < π / 2) :
    0 ≤ aeaPhi1zStep e (qsfnz e (sin p)) phi
    ∧ phi + aeaPhi1zStep e (qsfnz e (sin p)) phi ≤ p
    ∧ p - (phi + aeaPhi1zStep e (qsfnz e (sin p)) phi) ≤ (1 - qD e p / qD e phi) * (p - phi) := by
  have he0 : (0 : ℝ) < e := lt_trans (by norm_num) he
  have he1 : e < 1 := by nlinarith
  have hphi2 : phi < π / 2 := lt_of_le_of_lt hpp hp
  have hDphi := qD_pos e phi he0 he1 (by linarith [pi_pos]) hphi2
  have hDp := qD_pos e p he0 he1 (by linarith [pi_pos]) hp
  have hc : cos phi ≠ 0 := (cos_pos_of_mem_Ioo ⟨by linarith [pi_pos], hphi2⟩).ne'
  obtain ⟨b1, b2, _⟩ := qPhi_bounds e phi p he0 he2 h0 hpp hp.le
  rw [qsfnz_eq_qOf e _ he (esin_pos e p he0 he1).1 (esin_pos e p he0 he1).2, aeaStep_eq e _ phi he he1 hc]
  have hpos : 0 ≤ p - phi := by linarith
  refine ⟨div_nonneg (le_trans (mul_nonneg hDp.le hpos) b1) hDphi.le, ?_, ?_⟩
  · have : (qOf e (sin p) - qOf e (sin phi)) / qD e phi ≤ p - phi := by
      rw [div_le_iff₀ hDphi]; linarith
    linarith
  · have : qD e p / qD e phi * (p - phi) ≤ (qOf e (sin p) - qOf e (sin phi)) / qD e phi := by
      rw [div_mul_eq_mul_div, div_le_div_iff_of_pos_right hDphi]; exact b1
    nlinarith

/-- **quadratic remainder**: `p − φ' ≤ (p − φ)²/((1−e²) q'(p))`. -/
theorem C08_aea_newton_quadratic (e p phi : ℝ) (he : 1.0e-7 < e) (he2 : e * e ≤ 1 / 4)
    (h0 : 0 ≤ phi) (hpp : phi ≤ p) (hp : p < π / 2) :
    p - (phi + aeaPhi1zStep e (qsfnz e (sin p)) phi) ≤ (p - phi) ^ 2 / ((1 - e * e) * qD e p) := by
  have he0 : (0 : ℝ) < e := lt_trans (by norm_num) he
  have he1 : e < 1 := by nlinarith
  have ha : 0 < 1 - e * e := by linarith
  have hphi2 : phi < π / 2 := lt_of_le_of_lt hpp hp
  have hDphi := qD_pos e phi he0 he1 (by linarith [pi_pos]) hphi2
  have hDp := qD_pos e p he0 he1 (by linarith [pi_pos]) hp
  have hc : cos phi ≠ 0 := (cos_pos_of_mem_Ioo ⟨by linarith [pi_pos], hphi2⟩).ne'
  obtain ⟨_, _, b3⟩ := qPhi_bounds e phi p he0 he2 h0 hpp hp.le
  have hanti := (qD_antitone e phi p he0 he2 h0 hpp hp.le).1
  rw [qsfnz_eq_qOf e _ he (esin_pos e p he0 he1).1 (esin_pos e p he0 he1).2, aeaStep_eq e _ phi he he1 hc]
  have h1 : p - (phi + (qOf e (sin p) - qOf e (sin phi)) / qD e phi)
      = (qD e phi * (p - phi) - (qOf e (sin p) - qOf e (sin phi))) / qD e phi := by
    field_simp; ring
  rw [h1]
  have h2 : qD e phi * (p - phi) - (qOf e (sin p) - qOf e (sin phi)) ≤ (p - phi) ^ 2 / (1 - e * e) := by linarith
  have hsq : 0 ≤ (p - phi) ^ 2 / (1 - e * e) := by positivity
  calc (qD e phi * (p - phi) - (qOf e (sin p) - qOf e (sin phi))) / qD e phi
      ≤ ((p - phi) ^ 2 / (1 - e * e)) / qD e phi := div_le_div_of_nonneg_right h2 hDphi.le
    _ ≤ ((p - phi) ^ 2 / (1 - e * e)) / qD e p := div_le_div_of_nonneg_left hsq hDp hanti
    _ = (p - phi) ^ 2 / ((1 - e * e) * qD e p) := by rw [div_div]

/-- **what a straddled stop test costs**: after a pass from `φ ∈ [0, p]` the NEXT increment is non-negative and at most
`(p − φ)²/((1−e²) q'(p))` — two runs that stop one pass apart differ by no more than that. -/
theorem C08_aea_straddle (e p phi : ℝ) (he : 1.0e-7 < e) (he2 : e * e ≤ 1 / 4)
    (h0 : 0 ≤ phi) (hpp : phi ≤ p) (hp : p < π / 2) :
    0 ≤ aeaPhi1zStep e (qsfnz e (sin p)) (phi + aeaPhi1zStep e (qsfnz e (sin p)) phi)
    ∧ aeaPhi1zStep e (qsfnz e (sin p)) (phi + aeaPhi1zStep e (qsfnz e (sin p)) phi)
        ≤ (p - phi) ^ 2 / ((1 - e * e) * qD e p) := by
  obtain ⟨m1, m2, _⟩ := C08_aea_newton_monotone e p phi he he2 h0 hpp hp
  have q := C08_aea_newton_quadratic e p phi he he2 h0 hpp hp
  obtain ⟨n1, n2, _⟩ := C08_aea_newton_monotone e p (phi + aeaPhi1zStep e (qsfnz e (sin p)) phi) he he2
    (by linarith) m2 hp
  exact ⟨n1, by linarith⟩

/-! ## the loop: whatever it returns from a start in `[0, p]`, and when it cannot run out of passes -/

theorem qD_zero (e : ℝ) : qD e 0 = (1 - e * e) * 2 := by simp [qD]

/-- `q'(p)/q'(0) = cos p/(1−e² sin²p)² ≥ cos p` -/
theorem qD_ratio_ge_cos (e p : ℝ) (he0 : 0 < e) (he1 : e < 1) (hp0 : 0 ≤ p) (hp : p ≤ π / 2) :
    cos p ≤ qD e p / qD e 0 := by
  obtain ⟨a, b⟩ := esin_pos e p he0 he1
  have hc : 0 ≤ cos p := cos_nonneg_of_mem_Icc ⟨by linarith [pi_pos], hp⟩
  have ha : 0 < 1 - e * e := by nlinarith
  have hs0 : 0 ≤ sin p := sin_nonneg_of_nonneg_of_le_pi hp0 (by linarith [pi_pos])
  have hden : (1 - e * sin p) * (1 + e * sin p) ≤ 1 := by nlinarith [mul_nonneg he0.le hs0]
  have hden0 : 0 < (1 - e * sin p) * (1 + e * sin p) := mul_pos a b
  have hsq : ((1 - e * sin p) * (1 + e * sin p)) ^ 2 ≤ 1 := by nlinarith
  rw [qD_zero, qD]
  have : (1 - e * e) * 2 / ((1 - e * sin p) * (1 + e * sin p)) ^ 2 * cos p / ((1 - e * e) * 2)
      = cos p / ((1 - e * sin p) * (1 + e * sin p)) ^ 2 := by
    have hne2 : (1 : ℝ) - e ^ 2 ≠ 0 := by rw [pow_two]; exact ha.ne'
    have hne : (1 : ℝ) - e * e ≠ 0 := ha.ne'
    field_simp
  rw [this]
  rw [le_div_iff₀ (by positivity)]
  nlinarith

/-- **whatever the loop returns** from a start in `[0, p]`, `p < π/2`, lies in `[start, p]` and is within
`(1e-7·q'(0)/q'(p))²/((1−e²) q'(p))` of `p` — the stop test bounds the last error by `1e-7·q'(0)/q'(p)` (linear rate),
the quadratic remainder does the rest.  At 89° on the Earth: 9.4e-10 rad (5.4e-8 degrees); at 85°: 7.5e-12 rad. -/
theorem C08_aeaPhi1zLoop_close (e p : ℝ) (he : 1.0e-7 < e) (he2 : e * e ≤ 1 / 4) (hp : p < π / 2) :
    ∀ (n : ℕ) (phi r : ℝ), 0 ≤ phi → phi ≤ p → aeaPhi1zLoop e (qsfnz e (sin p)) n phi = .ok r →
      phi ≤ r ∧ r ≤ p ∧ p - r ≤ (1e-7 * qD e 0 / qD e p) ^ 2 / ((1 - e * e) * qD e p) := by
  have he0 : (0 : ℝ) < e := lt_trans (by norm_num) he
  have he1 : e < 1 := by nlinarith
  have ha : 0 < 1 - e * e := by linarith
  intro n
  induction n with
  | zero => intro phi r _ _ h; simp [aeaPhi1zLoop] at h
  | succ n ih =>
    intro phi r h0 hpp h
    obtain ⟨m1, m2, m3⟩ := C08_aea_newton_monotone e p phi he he2 h0 hpp hp
    have hq := C08_aea_newton_quadratic e p phi he he2 h0 hpp hp
    rw [aeaPhi1zLoop] at h
    simp only [le_real, abs_real, decide_eq_true_eq] at h
    split_ifs at h with hs
    · -- stopped here
      have hr : r = phi + aeaPhi1zStep e (qsfnz e (sin p)) phi := by
        injection h with h; exact h.symm
      have hDp := qD_pos e p he0 he1 (by linarith [pi_pos]) hp
      have hDphi := qD_pos e phi he0 he1 (by linarith [pi_pos]) (lt_of_le_of_lt hpp hp)
      have hD0 : 0 < qD e 0 := qD_pos e 0 he0 he1 (by linarith [pi_pos]) (by linarith [pi_pos])
      have hanti := (qD_antitone e 0 phi he0 he2 le_rfl h0 (by linarith)).1
      have hE0 : 0 ≤ p - phi := by linarith
      -- E·(q'(p)/q'(0)) ≤ step ≤ 1e-7
      have hρ : qD e p / qD e 0 ≤ qD e p / qD e phi := div_le_div_of_nonneg_left hDp.le hDphi hanti
      have hstep : qD e p / qD e phi * (p - phi) ≤ aeaPhi1zStep e (qsfnz e (sin p)) phi := by nlinarith
      have hE : (p - phi) ≤ 1e-7 * qD e 0 / qD e p := by
        have h1 : qD e p / qD e 0 * (p - phi) ≤ 1e-7 := by
          have := abs_le.mp hs
          nlinarith [mul_le_mul_of_nonneg_right hρ hE0]
        rw [le_div_iff₀ hDp]
        have h2 : qD e p / qD e 0 * (p - phi) = (p - phi) * qD e p / qD e 0 := by ring
        rw [h2, div_le_iff₀ hD0] at h1
        linarith
      refine ⟨by rw [hr]; linarith, by rw [hr]; exact m2, ?_⟩
      rw [hr]
      have hsq : (p - phi) ^ 2 ≤ (1e-7 * qD e 0 / qD e p) ^ 2 := pow_le_pow_left₀ hE0 hE 2
      calc p - (phi + aeaPhi1zStep e (qsfnz e (sin p)) phi)
          ≤ (p - phi) ^ 2 / ((1 - e * e) * qD e p) := hq
        _ ≤ (1e-7 * qD e 0 / qD e p) ^ 2 / ((1 - e * e) * qD e p) :=
            div_le_div_of_nonneg_right hsq (by positivity)
    · obtain ⟨i1, i2, i3⟩ := ih (phi + aeaPhi1zStep e (qsfnz e (sin p)) phi) r (by linarith) m2 h
      exact ⟨by linarith, i2, i3⟩

/-- **the loop does not run out of passes** when `(1 − q'(p)/q'(0))^n (p − start) ≤ 1e-7` (linear rate alone) -/
theorem C08_aeaPhi1zLoop_ok (e p : ℝ) (he : 1.0e-7 < e) (he2 : e * e ≤ 1 / 4) (hp0 : 0 ≤ p) (hp : p < π / 2) :
    ∀ (n : ℕ) (phi : ℝ), 0 ≤ phi → phi ≤ p → (1 - qD e p / qD e 0) ^ n * (p - phi) ≤ 1e-7 →
      ∃ r, aeaPhi1zLoop e (qsfnz e (sin p)) (n + 1) phi = .ok r := by
  have he0 : (0 : ℝ) < e := lt_trans (by norm_num) he
  have he1 : e < 1 := by nlinarith
  have hDp := qD_pos e p he0 he1 (by linarith [pi_pos]) hp
  have hD0 : 0 < qD e 0 := qD_pos e 0 he0 he1 (by linarith [pi_pos]) (by linarith [pi_pos])
  intro n
  induction n with
  | zero =>
    intro phi h0 hpp hx
    obtain ⟨m1, m2, _⟩ := C08_aea_newton_monotone e p phi he he2 h0 hpp hp
    have hs : |aeaPhi1zStep e (qsfnz e (sin p)) phi| ≤ 1e-7 := by
      rw [abs_of_nonneg m1]; simp at hx; linarith
    exact ⟨phi + aeaPhi1zStep e (qsfnz e (sin p)) phi, by simp [aeaPhi1zLoop, hs]⟩
  | succ n ih =>
    intro phi h0 hpp hx
    obtain ⟨m1, m2, m3⟩ := C08_aea_newton_monotone e p phi he he2 h0 hpp hp
    by_cases hs : |aeaPhi1zStep e (qsfnz e (sin p)) phi| ≤ 1e-7
    · exact ⟨phi + aeaPhi1zStep e (qsfnz e (sin p)) phi, by simp [aeaPhi1zLoop, hs]⟩
    · have hDphi := qD_pos e phi he0 he1 (by linarith [pi_pos]) (lt_of_le_of_lt hpp hp)
      have hanti := (qD_antitone e 0 phi he0 he2 le_rfl h0 (by linarith)).1
      have hρ : qD e p / qD e 0 ≤ qD e p / qD e phi := div_le_div_of_nonneg_left hDp.le hDphi hanti
      have hanti2 := (qD_antitone e 0 p he0 he2 le_rfl (le_trans h0 hpp) hp.le).1
      have hk0 : 0 ≤ 1 - qD e p / qD e 0 := by
        have : qD e p / qD e 0 ≤ 1 := by rw [div_le_one hD0]; exact hanti2
        linarith
      have hE0 : 0 ≤ p - phi := by linarith
      have hnext : (1 - qD e p / qD e 0) ^ n * (p - (phi + aeaPhi1zStep e (qsfnz e (sin p)) phi)) ≤ 1e-7 := by
        have h1 : p - (phi + aeaPhi1zStep e (qsfnz e (sin p)) phi) ≤ (1 - qD e p / qD e 0) * (p - phi) := by
          nlinarith [mul_le_mul_of_nonneg_right hρ hE0]
        calc (1 - qD e p / qD e 0) ^ n * (p - (phi + aeaPhi1zStep e (qsfnz e (sin p)) phi))
            ≤ (1 - qD e p / qD e 0) ^ n * ((1 - qD e p / qD e 0) * (p - phi)) :=
              mul_le_mul_of_nonneg_left h1 (pow_nonneg hk0 n)
          _ = (1 - qD e p / qD e 0) ^ (n + 1) * (p - phi) := by ring
          _ ≤ 1e-7 := hx
      obtain ⟨r, hr⟩ := ih (phi + aeaPhi1zStep e (qsfnz e (sin p)) phi) (by linarith) m2 hnext
      refine ⟨r, ?_⟩
      rw [aeaPhi1zLoop]
      simp only [le_real, abs_real, hs, decide_false, Bool.false_eq_true, if_false]
      exact hr

/-! ## the start `asin(qs/2)` lies in `[0, p]`: `q(s) ≤ 2s` -/

/-- `log x ≤ (x − 1/x)/2` for `x ≥ 1` -/
theorem log_le_half_sub_inv (x : ℝ) (hx : 1 ≤ x) : log x ≤ (x - x⁻¹) / 2 := by
  have hd : ∀ y : ℝ, 0 < y → HasDerivAt (fun y => (y - y⁻¹) / 2 - log y) ((1 - -(y ^ 2)⁻¹) / 2 - y⁻¹) y := by
    intro y hy
    exact (((hasDerivAt_id y).sub (hasDerivAt_inv hy.ne')).div_const 2).sub (hasDerivAt_log hy.ne')
  have hmono : MonotoneOn (fun y => (y - y⁻¹) / 2 - log y) (Ici (1 : ℝ)) := by
    apply monotoneOn_of_deriv_nonneg (convex_Ici 1)
    · intro y hy
      exact (hd y (lt_of_lt_of_le one_pos hy)).continuousAt.continuousWithinAt
    · intro y hy
      rw [interior_Ici] at hy
      exact (hd y (lt_trans one_pos hy)).differentiableAt.differentiableWithinAt
    · intro y hy
      rw [interior_Ici] at hy
      have hy0 : 0 < y := lt_trans one_pos hy
      rw [(hd y hy0).deriv]
      have : (1 - -(y ^ 2)⁻¹) / 2 - y⁻¹ = (y - 1) ^ 2 / (2 * y ^ 2) := by
        field_simp; ring
      rw [this]; positivity
  have h := hmono (Set.mem_Ici.mpr le_rfl) hx hx
  simp at h
  linarith

/-- `q(s) ≤ 2s` on `[0, 1]` (with `atanh u ≤ u/(1−u²)` from the previous lemma) -/
theorem qOf_le_two_mul (e s : ℝ) (he0 : 0 < e) (he1 : e < 1) (hs0 : 0 ≤ s) (hs1 : s ≤ 1) : qOf e s ≤ 2 * s := by
  have hu0 : 0 ≤ e * s := mul_nonneg he0.le hs0
  have hu1 : e * s < 1 := by nlinarith
  have h1 : 0 < 1 - e * s := by linarith
  have h2 : 0 < 1 + e * s := by linarith
  have hx : 1 ≤ (1 + e * s) / (1 - e * s) := by rw [le_div_iff₀ h1]; linarith
  have hlog := log_le_half_sub_inv _ hx
  rw [Real.log_div h2.ne' h1.ne'] at hlog
  have hinv : ((1 + e * s) / (1 - e * s) - ((1 + e * s) / (1 - e * s))⁻¹) / 2 = 2 * (e * s) / ((1 - e * s) * (1 + e * s)) := by
    rw [inv_div]; field_simp; ring
  rw [hinv] at hlog
  have ha : 0 < 1 - e * e := by nlinarith
  have hden : 0 < (1 - e * s) * (1 + e * s) := mul_pos h1 h2
  -- q = (1−e²)(s/D + (0.5/e)(log(1+es) − log(1−es))) ≤ (1−e²)(s/D + s/D)
  have hq : qOf e s ≤ (1 - e * e) * (2 * s / ((1 - e * s) * (1 + e * s))) := by
    unfold qOf
    rw [show (1 : ℝ) - e * s * (e * s) = (1 - e * s) * (1 + e * s) by ring]
    apply mul_le_mul_of_nonneg_left _ ha.le
    have h3 : -(0.5 / e * (log (1 - e * s) - log (1 + e * s))) ≤ 0.5 / e * (2 * (e * s) / ((1 - e * s) * (1 + e * s))) := by
      have : 0 ≤ 0.5 / e := by positivity
      nlinarith [mul_le_mul_of_nonneg_left hlog this]
    have h4 : 0.5 / e * (2 * (e * s) / ((1 - e * s) * (1 + e * s))) = s / ((1 - e * s) * (1 + e * s)) := by
      field_simp; ring
    have h5 : 2 * s / ((1 - e * s) * (1 + e * s)) = s / ((1 - e * s) * (1 + e * s)) + s / ((1 - e * s) * (1 + e * s)) := by ring
    linarith
  have hle : (1 - e * e) * (2 * s / ((1 - e * s) * (1 + e * s))) ≤ 2 * s := by
    rw [mul_div_assoc', div_le_iff₀ hden]
    have : (1 - e * s) * (1 + e * s) = 1 - e * e * (s * s) := by ring
    rw [this]
    have hss : s * s ≤ 1 := by nlinarith
    nlinarith [mul_nonneg hs0 (mul_nonneg (mul_nonneg he0.le he0.le) (sub_nonneg.mpr hss))]
  linarith

theorem qOf_zero (e : ℝ) : qOf e 0 = 0 := by simp [qOf]

/-- the start of `aeaPhi1z` at `qs = qsfnz e (sin p)`, `0 ≤ p ≤ π/2`, is `arcsin(qs/2) ∈ [0, p]` -/
theorem aea_start_mem (e p : ℝ) (he : 1.0e-7 < e) (he1 : e < 1) (hp0 : 0 ≤ p) (hp : p ≤ π / 2) :
    asinz (0.5 * qsfnz e (sin p)) = arcsin (0.5 * qsfnz e (sin p))
    ∧ 0 ≤ arcsin (0.5 * qsfnz e (sin p)) ∧ arcsin (0.5 * qsfnz e (sin p)) ≤ p := by
  have he0 : (0 : ℝ) < e := lt_trans (by norm_num) he
  have hs0 : 0 ≤ sin p := sin_nonneg_of_nonneg_of_le_pi hp0 (by linarith [pi_pos])
  have hs1 : sin p ≤ 1 := sin_le_one p
  rw [qsfnz_eq_qOf e _ he (esin_pos e p he0 he1).1 (esin_pos e p he0 he1).2]
  have hq2 := qOf_le_two_mul e (sin p) he0 he1 hs0 hs1
  have hq0 : 0 ≤ qOf e (sin p) := by
    have := (qOf_strictMono e he0 he1).monotoneOn ⟨by norm_num, by norm_num⟩ ⟨by linarith, hs1⟩ hs0
    rw [qOf_zero] at this; exact this
  have hle : 0.5 * qOf e (sin p) ≤ sin p := by linarith
  have hge : 0 ≤ 0.5 * qOf e (sin p) := by positivity
  refine ⟨?_, arcsin_nonneg.mpr hge, ?_⟩
  · have : ¬ ((1.0 : ℝ) < |0.5 * qOf e (sin p)|) := by
      rw [lit_one, abs_of_nonneg hge]; linarith
    simp only [asinz, gt_real, abs_real, asin_real, this, decide_false, Bool.false_eq_true, if_false]
  · calc arcsin (0.5 * qOf e (sin p)) ≤ arcsin (sin p) := arcsin_le_arcsin hle
      _ = p := arcsin_sin (by linarith [pi_pos]) hp

/-- **`aeaPhi1z`: whatever it returns** at `qs = qsfnz e (sin p)`, `0 ≤ p < π/2`, `1e-7 < e`, `e² ≤ 1/4`, is below `p`
by at most `(1e-7·q'(0)/q'(p))²/((1−e²) q'(p))` — no hypothesis on the start or on convergence. -/
theorem C08_aeaPhi1z_close (e p r : ℝ) (he : 1.0e-7 < e) (he2 : e * e ≤ 1 / 4) (hp0 : 0 ≤ p) (hp : p < π / 2)
    (h : aeaPhi1z e (qsfnz e (sin p)) = .ok r) :
    0 ≤ r ∧ r ≤ p ∧ p - r ≤ (1e-7 * qD e 0 / qD e p) ^ 2 / ((1 - e * e) * qD e p) := by
  have he0 : (0 : ℝ) < e := lt_trans (by norm_num) he
  have he1 : e < 1 := by nlinarith
  obtain ⟨s1, s2, s3⟩ := aea_start_mem e p he he1 hp0 hp.le
  have hne : ¬ (e < (epsln : ℝ)) := by
    have : (epsln : ℝ) = 1.0e-10 := rfl
    rw [this]; intro hc
    have : (1.0e-10 : ℝ) < 1.0e-7 := by norm_num
    linarith
  simp only [aeaPhi1z, lt_real, hne, decide_false, Bool.false_eq_true, if_false, s1] at h
  obtain ⟨c1, c2, c3⟩ := C08_aeaPhi1zLoop_close e p he he2 hp 25 _ r s2 s3 h
  exact ⟨le_trans s2 c1, c2, c3⟩

/-- **`aeaPhi1z` converges within its 25 passes** for `0 ≤ p ≤ π/3` (60°): returns `.ok r`, `0 ≤ p − r ≤` the bound above.
PARTIAL: the full statement is for `0 ≤ p ≤ 89°` (and by oddness for negative `p`); missing is the count of the linear
phase near the pole, where the contraction `1 − q'(p)/q'(φ₀)` needs a lower bound of the start `φ₀` (the linear rate
against `q'(0)` used here gives `(1 − cos p)^24 p ≤ 1e-7` only up to 60°). -/
theorem C08_aeaPhi1z_converges_partial (e p : ℝ) (he : 1.0e-7 < e) (he2 : e * e ≤ 1 / 4) (hp0 : 0 ≤ p) (hp : p ≤ π / 3) :
    ∃ r, aeaPhi1z e (qsfnz e (sin p)) = .ok r ∧ 0 ≤ r ∧ r ≤ p
      ∧ p - r ≤ (1e-7 * qD e 0 / qD e p) ^ 2 / ((1 - e * e) * qD e p) := by
  have he0 : (0 : ℝ) < e := lt_trans (by norm_num) he
  have he1 : e < 1 := by nlinarith
  have hp2 : p < π / 2 := by linarith [pi_pos]
  obtain ⟨s1, s2, s3⟩ := aea_start_mem e p he he1 hp0 hp2.le
  have hcos : 1 / 2 ≤ cos p := by
    rw [← Real.cos_pi_div_three]
    exact cos_le_cos_of_nonneg_of_le_pi hp0 (by linarith [pi_pos]) hp
  have hρ := qD_ratio_ge_cos e p he0 he1 hp0 hp2.le
  have hD0 : 0 < qD e 0 := qD_pos e 0 he0 he1 (by linarith [pi_pos]) (by linarith [pi_pos])
  have hanti2 := (qD_antitone e 0 p he0 he2 le_rfl hp0 hp2.le).1
  have hk0 : 0 ≤ 1 - qD e p / qD e 0 := by
    have : qD e p / qD e 0 ≤ 1 := by rw [div_le_one hD0]; exact hanti2
    linarith
  have hk : 1 - qD e p / qD e 0 ≤ 1 / 2 := by linarith
  have hE : 0 ≤ p - arcsin (0.5 * qsfnz e (sin p)) := by linarith
  have hE2 : p - arcsin (0.5 * qsfnz e (sin p)) ≤ 1.05 := by
    have : π < 3.15 := pi_lt_d2
    linarith
  have hcount : (1 - qD e p / qD e 0) ^ 24 * (p - arcsin (0.5 * qsfnz e (sin p))) ≤ 1e-7 := by
    have h1 : (1 - qD e p / qD e 0) ^ 24 ≤ (1 / 2 : ℝ) ^ 24 := pow_le_pow_left₀ hk0 hk 24
    calc (1 - qD e p / qD e 0) ^ 24 * (p - arcsin (0.5 * qsfnz e (sin p)))
        ≤ (1 / 2 : ℝ) ^ 24 * 1.05 := mul_le_mul h1 hE2 hE (by positivity)
      _ ≤ 1e-7 := by norm_num
  obtain ⟨r, hr⟩ := C08_aeaPhi1zLoop_ok e p he he2 hp0 hp2 24 _ s2 s3 hcount
  have hne : ¬ (e < (epsln : ℝ)) := by
    have : (epsln : ℝ) = 1.0e-10 := rfl
    rw [this]; intro hc
    have : (1.0e-10 : ℝ) < 1.0e-7 := by norm_num
    linarith
  have hall : aeaPhi1z e (qsfnz e (sin p)) = .ok r := by
    simp only [aeaPhi1z, lt_real, hne, decide_false, Bool.false_eq_true, if_false, s1]
    exact hr
  obtain ⟨c1, c2, c3⟩ := C08_aeaPhi1z_close e p r he he2 hp0 hp2 hall
  exact ⟨r, hall, c1, c2, c3⟩

/-! ## the Albers pair -/

/-- **aea_inv_close** (ellipsoidal Albers, both cone signs, `1e-7 < e`, `e² ≤ 1/4`, `0 ≤ φ < π/2`): if inverse(forward(λ, φ))
returns at all, it returns `λ` exactly and a latitude `φ' ∈ [0, φ]` within `(1e-7·q'(0)/q'(φ))²/((1−e²) q'(φ))` of `φ`
(5.4e-8 degrees at 89° on the Earth ellipsoids: the 1e-6 degree clause) — NO convergence hypothesis. -/
theorem C08_aea_inv_close (k : AeaC ℝ) (hs : k.sr.sphere = false) (ha : 0 < k.sr.a) (hn : k.ns0 ≠ 0)
    (he : 1.0e-7 < k.e3) (he2 : k.e3 * k.e3 ≤ 1 / 4)
    (lon lat : ℝ) (hlat0 : 0 ≤ lat) (hlat : lat < π / 2) (hpos : 0 < k.c - k.ns0 * qsfnz k.e3 (sin lat))
    (hlon : |lon| ≤ sPi) (hdl : |lon - k.sr.long0| ≤ sPi)
    (h1 : -π < k.ns0 * (lon - k.sr.long0)) (h2 : k.ns0 * (lon - k.sr.long0) ≤ π)
    (res : ℝ × ℝ) (h : (fwdAea k lon lat).bind (fun q => invAea k q.1 q.2) = .ok res) :
    res.1 = lon ∧ 0 ≤ res.2 ∧ res.2 ≤ lat
      ∧ lat - res.2 ≤ (1e-7 * qD k.e3 0 / qD k.e3 lat) ^ 2 / ((1 - k.e3 * k.e3) * qD k.e3 lat) := by
  rw [aea_chain k hs ha hn lon lat hpos hlon hdl h1 h2] at h
  cases hr : aeaPhi1z k.e3 (qsfnz k.e3 (sin lat)) with
  | error err => rw [hr] at h; simp [Except.map] at h
  | ok r =>
    rw [hr] at h
    simp only [Except.map] at h
    injection h with h
    obtain ⟨c1, c2, c3⟩ := C08_aeaPhi1z_close k.e3 lat r he he2 hlat0 hlat hr
    subst h
    exact ⟨rfl, c1, c2, c3⟩

/-- **aea_inv_within_partial** (the same pair, `0 ≤ φ ≤ 60°`): inverse(forward(λ, φ)) DOES return, `.ok (λ, φ')`, with the
bound above — no "didn't converge" error.  PARTIAL in the latitude range only (see `C08_aeaPhi1z_converges_partial`). -/
theorem C08_aea_inv_within_partial (k : AeaC ℝ) (hs : k.sr.sphere = false) (ha : 0 < k.sr.a) (hn : k.ns0 ≠ 0)
    (he : 1.0e-7 < k.e3) (he2 : k.e3 * k.e3 ≤ 1 / 4)
    (lon lat : ℝ) (hlat0 : 0 ≤ lat) (hlat : lat ≤ π / 3) (hpos : 0 < k.c - k.ns0 * qsfnz k.e3 (sin lat))
    (hlon : |lon| ≤ sPi) (hdl : |lon - k.sr.long0| ≤ sPi)
    (h1 : -π < k.ns0 * (lon - k.sr.long0)) (h2 : k.ns0 * (lon - k.sr.long0) ≤ π) :
    ∃ lat', (fwdAea k lon lat).bind (fun q => invAea k q.1 q.2) = .ok (lon, lat') ∧ 0 ≤ lat' ∧ lat' ≤ lat
      ∧ lat - lat' ≤ (1e-7 * qD k.e3 0 / qD k.e3 lat) ^ 2 / ((1 - k.e3 * k.e3) * qD k.e3 lat) := by
  obtain ⟨r, hr, c1, c2, c3⟩ := C08_aeaPhi1z_converges_partial k.e3 lat he he2 hlat0 hlat
  refine ⟨r, ?_, c1, c2, c3⟩
  rw [aea_chain k hs ha hn lon lat hpos hlon hdl h1 h2, hr]
  rfl

/-- the bound in numbers: on an Earth-like ellipsoid (`e² ≤ 0.007`) at `cos φ ≥ 0.0174` (89°) it is below 1.2e-9 rad
(6.9e-8 degrees, 7.6 mm of meridian arc) -/
theorem aea_bound_numeric (e phi : ℝ) (he0 : 0 < e) (he2 : e * e ≤ 0.007) (hphi0 : 0 ≤ phi) (hphi : phi ≤ π / 2)
    (hcos : 0.0174 ≤ cos phi) :
    (1e-7 * qD e 0 / qD e phi) ^ 2 / ((1 - e * e) * qD e phi) ≤ 1.2e-9 := by
  have he1 : e < 1 := by nlinarith
  have ha : 0.993 ≤ 1 - e * e := by linarith
  have hD0 : 0 < qD e 0 := qD_pos e 0 he0 he1 (by linarith [pi_pos]) (by linarith [pi_pos])
  have hρ := qD_ratio_ge_cos e phi he0 he1 hphi0 hphi
  have hρ' : 0.0174 ≤ qD e phi / qD e 0 := le_trans hcos hρ
  have hDphi : 0 < qD e phi := by
    by_contra hc
    have : qD e phi / qD e 0 ≤ 0 := div_nonpos_of_nonpos_of_nonneg (not_lt.mp hc) hD0.le
    linarith
  -- q'(φ) ≥ 0.0174 q'(0) = 0.0174·2(1−e²) ≥ 0.03455
  have hlow : 0.0174 * qD e 0 ≤ qD e phi := by
    rw [le_div_iff₀ hD0] at hρ'; exact hρ'
  have hD0v : 1.986 ≤ qD e 0 := by rw [qD_zero]; linarith
  have hDlow : 0.03455 ≤ qD e phi := by nlinarith
  have hfrac : 1e-7 * qD e 0 / qD e phi ≤ 1e-7 / 0.0174 := by
    rw [div_le_div_iff₀ hDphi (by norm_num)]
    nlinarith
  have hfrac0 : 0 ≤ 1e-7 * qD e 0 / qD e phi := by positivity
  have hsq : (1e-7 * qD e 0 / qD e phi) ^ 2 ≤ (1e-7 / 0.0174) ^ 2 := pow_le_pow_left₀ hfrac0 hfrac 2
  have hden : 0.993 * 0.03455 ≤ (1 - e * e) * qD e phi := by nlinarith
  calc (1e-7 * qD e 0 / qD e phi) ^ 2 / ((1 - e * e) * qD e phi)
      ≤ (1e-7 / 0.0174) ^ 2 / ((1 - e * e) * qD e phi) := div_le_div_of_nonneg_right hsq (by positivity)
    _ ≤ (1e-7 / 0.0174) ^ 2 / (0.993 * 0.03455) := div_le_div_of_nonneg_left (by positivity) (by norm_num) hden
    _ ≤ 1.2e-9 := by norm_num

/-! ## all the way to 89°: a linear phase against `q'(φ₀)`, then the quadratic phase -/

/-- `2u ≤ log(1+u) − log(1−u)` (`atanh u ≥ u`) for `0 ≤ u < 1` -/
theorem two_mul_le_log_ratio (u : ℝ) (hu0 : 0 ≤ u) (hu1 : u < 1) : 2 * u ≤ log (1 + u) - log (1 - u) := by
  have hd : ∀ y : ℝ, -1 < y → y < 1 →
      HasDerivAt (fun y => log (1 + y) - log (1 - y) - 2 * y) (1 / (1 + y) - (-1) / (1 - y) - 2 * 1) y := by
    intro y h1 h2
    have a1 : HasDerivAt (fun y : ℝ => log (1 + y)) (1 / (1 + y)) y :=
      ((hasDerivAt_id y).const_add 1).log (by simp; linarith)
    have a2 : HasDerivAt (fun y : ℝ => log (1 - y)) ((-1) / (1 - y)) y :=
      ((hasDerivAt_id y).const_sub 1).log (by simp; linarith)
    exact (a1.sub a2).sub ((hasDerivAt_id y).const_mul 2)
  have hmono : MonotoneOn (fun y => log (1 + y) - log (1 - y) - 2 * y) (Ico (0 : ℝ) 1) := by
    apply monotoneOn_of_deriv_nonneg (convex_Ico 0 1)
    · intro y hy
      exact (hd y (by linarith [hy.1]) hy.2).continuousAt.continuousWithinAt
    · intro y hy
      rw [interior_Ico] at hy
      exact (hd y (by linarith [hy.1]) hy.2).differentiableAt.differentiableWithinAt
    · intro y hy
      rw [interior_Ico] at hy
      rw [(hd y (by linarith [hy.1]) hy.2).deriv]
      have h1 : 0 < 1 + y := by linarith [hy.1]
      have h2 : 0 < 1 - y := by linarith [hy.2]
      have : 1 / (1 + y) - (-1) / (1 - y) - 2 * 1 = 2 * y ^ 2 / ((1 + y) * (1 - y)) := by
        field_simp; ring
      rw [this]; positivity
  have h := hmono (⟨le_rfl, one_pos⟩ : (0 : ℝ) ∈ Ico (0 : ℝ) 1) ⟨hu0, hu1⟩ hu0
  simp at h
  linarith

/-- `q(s) ≥ 2(1−e²)s` on `[0, 1]` -/
theorem qOf_ge (e s : ℝ) (he0 : 0 < e) (he1 : e < 1) (hs0 : 0 ≤ s) (hs1 : s ≤ 1) : 2 * (1 - e * e) * s ≤ qOf e s := by
  have hu0 : 0 ≤ e * s := mul_nonneg he0.le hs0
  have hu1 : e * s < 1 := by nlinarith
  have hlog := two_mul_le_log_ratio (e * s) hu0 hu1
  have ha : 0 < 1 - e * e := by nlinarith
  have hden : 0 < 1 - e * s * (e * s) := by nlinarith
  have hden1 : 1 - e * s * (e * s) ≤ 1 := by nlinarith [mul_nonneg hu0 hu0]
  unfold qOf
  have h1 : s ≤ s / (1 - e * s * (e * s)) := by
    rw [le_div_iff₀ hden]; nlinarith
  have h2 : s ≤ -(0.5 / e * (log (1 - e * s) - log (1 + e * s))) := by
    have : 0 ≤ 0.5 / e := by positivity
    have h3 := mul_le_mul_of_nonneg_left hlog this
    have h4 : 0.5 / e * (2 * (e * s)) = s := by field_simp; ring
    linarith
  nlinarith

/-- the quadratic phase: from `p − φ ≤ t·K`, `K = (1−e²) q'(p)`, the error squares (`t ↦ t²`) on every pass -/
theorem aeaLoop_quad (e p : ℝ) (he : 1.0e-7 < e) (he2 : e * e ≤ 1 / 4) (hp : p < π / 2) :
    ∀ (j : ℕ) (phi t : ℝ), 0 ≤ phi → phi ≤ p → 0 ≤ t → p - phi ≤ t * ((1 - e * e) * qD e p) →
      t ^ (2 ^ j) * ((1 - e * e) * qD e p) ≤ 1e-7 → ∃ r, aeaPhi1zLoop e (qsfnz e (sin p)) (j + 1) phi = .ok r := by
  have he0 : (0 : ℝ) < e := lt_trans (by norm_num) he
  have he1 : e < 1 := by nlinarith
  have ha : 0 < 1 - e * e := by linarith
  intro j
  induction j with
  | zero =>
    intro phi t h0 hpp ht hE hfin
    obtain ⟨m1, m2, _⟩ := C08_aea_newton_monotone e p phi he he2 h0 hpp hp
    have hs : |aeaPhi1zStep e (qsfnz e (sin p)) phi| ≤ 1e-7 := by
      rw [abs_of_nonneg m1]; simp at hfin; linarith
    exact ⟨phi + aeaPhi1zStep e (qsfnz e (sin p)) phi, by simp [aeaPhi1zLoop, hs]⟩
  | succ j ih =>
    intro phi t h0 hpp ht hE hfin
    obtain ⟨m1, m2, _⟩ := C08_aea_newton_monotone e p phi he he2 h0 hpp hp
    have hq := C08_aea_newton_quadratic e p phi he he2 h0 hpp hp
    by_cases hs : |aeaPhi1zStep e (qsfnz e (sin p)) phi| ≤ 1e-7
    · exact ⟨phi + aeaPhi1zStep e (qsfnz e (sin p)) phi, by simp [aeaPhi1zLoop, hs]⟩
    · have hDp := qD_pos e p he0 he1 (by linarith [pi_pos]) hp
      have hK : 0 < (1 - e * e) * qD e p := mul_pos ha hDp
      have hE0 : 0 ≤ p - phi := by linarith
      have hnext : p - (phi + aeaPhi1zStep e (qsfnz e (sin p)) phi) ≤ t ^ 2 * ((1 - e * e) * qD e p) := by
        have h1 : (p - phi) ^ 2 ≤ (t * ((1 - e * e) * qD e p)) ^ 2 := pow_le_pow_left₀ hE0 hE 2
        calc p - (phi + aeaPhi1zStep e (qsfnz e (sin p)) phi)
            ≤ (p - phi) ^ 2 / ((1 - e * e) * qD e p) := hq
          _ ≤ (t * ((1 - e * e) * qD e p)) ^ 2 / ((1 - e * e) * qD e p) := div_le_div_of_nonneg_right h1 hK.le
          _ = t ^ 2 * ((1 - e * e) * qD e p) := by field_simp
      have hfin' : (t ^ 2) ^ (2 ^ j) * ((1 - e * e) * qD e p) ≤ 1e-7 := by
        rw [← pow_mul, show 2 * 2 ^ j = 2 ^ (j + 1) by ring]; exact hfin
      obtain ⟨r, hr⟩ := ih (phi + aeaPhi1zStep e (qsfnz e (sin p)) phi) (t ^ 2) (by linarith) m2 (by positivity) hnext hfin'
      refine ⟨r, ?_⟩
      rw [aeaPhi1zLoop]
      simp only [le_real, abs_real, hs, decide_false, Bool.false_eq_true, if_false]
      exact hr

/-- `n` linear passes at rate `1 − q'(p)/q'(φs)` (all iterates stay above `φs`), then `j + 1` quadratic ones -/
theorem aeaLoop_lin_quad (e p phis : ℝ) (he : 1.0e-7 < e) (he2 : e * e ≤ 1 / 4) (hp : p < π / 2) (hs0 : 0 ≤ phis) :
    ∀ (n j : ℕ) (phi t : ℝ), phis ≤ phi → phi ≤ p → 0 ≤ t →
      (1 - qD e p / qD e phis) ^ n * (p - phi) ≤ t * ((1 - e * e) * qD e p) →
      t ^ (2 ^ j) * ((1 - e * e) * qD e p) ≤ 1e-7 →
      ∃ r, aeaPhi1zLoop e (qsfnz e (sin p)) (n + j + 1) phi = .ok r := by
  have he0 : (0 : ℝ) < e := lt_trans (by norm_num) he
  have he1 : e < 1 := by nlinarith
  intro n
  induction n with
  | zero =>
    intro j phi t h1 hpp ht hE hfin
    simp only [pow_zero, one_mul] at hE
    rw [Nat.zero_add]
    exact aeaLoop_quad e p he he2 hp j phi t (le_trans hs0 h1) hpp ht hE hfin
  | succ n ih =>
    intro j phi t h1 hpp ht hE hfin
    have h0 : 0 ≤ phi := le_trans hs0 h1
    obtain ⟨m1, m2, m3⟩ := C08_aea_newton_monotone e p phi he he2 h0 hpp hp
    have hidx : n + 1 + j + 1 = (n + j + 1) + 1 := by omega
    rw [hidx]
    by_cases hs : |aeaPhi1zStep e (qsfnz e (sin p)) phi| ≤ 1e-7
    · exact ⟨phi + aeaPhi1zStep e (qsfnz e (sin p)) phi, by simp [aeaPhi1zLoop, hs]⟩
    · have hp0 : 0 ≤ p := le_trans h0 hpp
      have hDp := qD_pos e p he0 he1 (by linarith [pi_pos]) hp
      have hDphi := qD_pos e phi he0 he1 (by linarith [pi_pos]) (lt_of_le_of_lt hpp hp)
      have hDs := qD_pos e phis he0 he1 (by linarith [pi_pos]) (lt_of_le_of_lt (le_trans h1 hpp) hp)
      have hanti := (qD_antitone e phis phi he0 he2 hs0 h1 (by linarith)).1
      have hρ : qD e p / qD e phis ≤ qD e p / qD e phi := div_le_div_of_nonneg_left hDp.le hDphi hanti
      have hanti2 := (qD_antitone e phis p he0 he2 hs0 (le_trans h1 hpp) hp.le).1
      have hk0 : 0 ≤ 1 - qD e p / qD e phis := by
        have : qD e p / qD e phis ≤ 1 := by rw [div_le_one hDs]; exact hanti2
        linarith
      have hE0 : 0 ≤ p - phi := by linarith
      have hnext : (1 - qD e p / qD e phis) ^ n * (p - (phi + aeaPhi1zStep e (qsfnz e (sin p)) phi))
          ≤ t * ((1 - e * e) * qD e p) := by
        have h2 : p - (phi + aeaPhi1zStep e (qsfnz e (sin p)) phi) ≤ (1 - qD e p / qD e phis) * (p - phi) := by
          nlinarith [mul_le_mul_of_nonneg_right hρ hE0]
        calc (1 - qD e p / qD e phis) ^ n * (p - (phi + aeaPhi1zStep e (qsfnz e (sin p)) phi))
            ≤ (1 - qD e p / qD e phis) ^ n * ((1 - qD e p / qD e phis) * (p - phi)) :=
              mul_le_mul_of_nonneg_left h2 (pow_nonneg hk0 n)
          _ = (1 - qD e p / qD e phis) ^ (n + 1) * (p - phi) := by ring
          _ ≤ t * ((1 - e * e) * qD e p) := hE
      obtain ⟨r, hr⟩ := ih j (phi + aeaPhi1zStep e (qsfnz e (sin p)) phi) t (by linarith) m2 ht hnext hfin
      refine ⟨r, ?_⟩
      rw [aeaPhi1zLoop]
      simp only [le_real, abs_real, hs, decide_false, Bool.false_eq_true, if_false]
      exact hr

/-- `q'(φ) ≤ 2 cos φ/(1−e²)` -/
theorem qD_le_cos (e phi : ℝ) (he0 : 0 < e) (he1 : e < 1) (hc : 0 ≤ cos phi) : qD e phi ≤ 2 * cos phi / (1 - e * e) := by
  obtain ⟨a, b⟩ := esin_pos e phi he0 he1
  have hapos : 0 < 1 - e * e := by nlinarith
  have hss : sin phi * sin phi ≤ 1 := by
    have := Real.sin_sq_le_one phi
    rw [pow_two] at this; exact this
  have hden : 1 - e * e ≤ (1 - e * sin phi) * (1 + e * sin phi) := by
    have h1 : (1 - e * sin phi) * (1 + e * sin phi) = 1 - e * e * (sin phi * sin phi) := by ring
    rw [h1]
    have h2 : e * e * (sin phi * sin phi) ≤ e * e * 1 := mul_le_mul_of_nonneg_left hss (mul_nonneg he0.le he0.le)
    linarith
  have hden2 : (1 - e * e) ^ 2 ≤ ((1 - e * sin phi) * (1 + e * sin phi)) ^ 2 :=
    pow_le_pow_left₀ hapos.le hden 2
  have hstep1 : qD e phi ≤ (1 - e * e) * 2 / (1 - e * e) ^ 2 * cos phi := by
    unfold qD
    apply mul_le_mul_of_nonneg_right _ hc
    exact div_le_div_of_nonneg_left (by positivity) (by positivity) hden2
  have hstep2 : (1 - e * e) * 2 / (1 - e * e) ^ 2 * cos phi = 2 * cos phi / (1 - e * e) := by
    field_simp
  rw [hstep2] at hstep1
  exact hstep1


/-- one latitude band `clo ≤ cos p ≤ chi` on an Earth-like ellipsoid (`e² ≤ 0.007`): the start satisfies
`cos φ₀ ≤ Chi` (`Chi² ≥ chi² + 2e²`), hence the linear rate is at most `kb ≥ 1 − 0.986·clo/Chi`, the first error at most
`1.5708·Chi`, and 19 linear + 6 quadratic passes are enough when `kb^19·1.5708·Chi ≤ ½·1.972·clo`. -/
theorem aea_band (e p : ℝ) (he : 1.0e-7 < e) (he2 : e * e ≤ 0.007) (hp0 : 0 ≤ p) (hp : p < π / 2)
    (clo chi Chi kb : ℝ) (hclo : 0 < clo) (h1 : clo ≤ cos p) (h2 : cos p ≤ chi) (hChi : 0 < Chi)
    (hC : chi ^ 2 + 0.014 ≤ Chi ^ 2) (hkb : 1 - 0.986 * clo / Chi ≤ kb)
    (hnum : kb ^ 19 * (1.5708 * Chi) ≤ 1 / 2 * (1.972 * clo)) :
    ∃ r, aeaPhi1z e (qsfnz e (sin p)) = .ok r := by
  have he0 : (0 : ℝ) < e := lt_trans (by norm_num) he
  have he1 : e < 1 := by nlinarith
  have he2' : e * e ≤ 1 / 4 := by linarith
  have ha : 0.993 ≤ 1 - e * e := by linarith
  obtain ⟨s1, s2, s3⟩ := aea_start_mem e p he he1 hp0 hp.le
  set phi0 := arcsin (0.5 * qsfnz e (sin p)) with hphi0
  have hsp0 : 0 ≤ sin p := sin_nonneg_of_nonneg_of_le_pi hp0 (by linarith [pi_pos])
  have hsp1 : sin p ≤ 1 := sin_le_one p
  have hcp0 : 0 < cos p := lt_of_lt_of_le hclo h1
  have hQ : qsfnz e (sin p) = qOf e (sin p) := qsfnz_eq_qOf e _ he (esin_pos e p he0 he1).1 (esin_pos e p he0 he1).2
  -- cos φ₀ ≤ Chi
  have hx_lo : (1 - e * e) * sin p ≤ 0.5 * qsfnz e (sin p) := by
    rw [hQ]; linarith [qOf_ge e (sin p) he0 he1 hsp0 hsp1]
  have hx_hi : 0.5 * qsfnz e (sin p) ≤ 1 := by
    rw [hQ]; linarith [qOf_le_two_mul e (sin p) he0 he1 hsp0 hsp1]
  have hcos0 : cos phi0 ≤ Chi := by
    rw [hphi0, Real.cos_arcsin]
    have hy0 : 0 ≤ (1 - e * e) * sin p := mul_nonneg (by linarith) hsp0
    have hsq : ((1 - e * e) * sin p) ^ 2 ≤ (0.5 * qsfnz e (sin p)) ^ 2 := pow_le_pow_left₀ hy0 hx_lo 2
    have hsc := sin_sq_add_cos_sq p
    have hc2 : cos p ^ 2 ≤ chi ^ 2 := pow_le_pow_left₀ hcp0.le h2 2
    have hle : 1 - (0.5 * qsfnz e (sin p)) ^ 2 ≤ Chi ^ 2 := by
      have ha0 : 0 ≤ e * e := mul_nonneg he0.le he0.le
      have hS0 : 0 ≤ sin p ^ 2 := sq_nonneg _
      have hS1 : sin p ^ 2 ≤ 1 := by nlinarith [sq_nonneg (cos p)]
      have hexp : 1 - ((1 - e * e) * sin p) ^ 2 = cos p ^ 2 + (2 * (e * e) - (e * e) ^ 2) * sin p ^ 2 := by
        have : cos p ^ 2 = 1 - sin p ^ 2 := by linarith
        rw [this]; ring
      have hb : (2 * (e * e) - (e * e) ^ 2) * sin p ^ 2 ≤ 2 * (e * e) := by
        have g1 : (2 * (e * e) - (e * e) ^ 2) * sin p ^ 2 ≤ (2 * (e * e)) * sin p ^ 2 := by
          apply mul_le_mul_of_nonneg_right _ hS0
          nlinarith [sq_nonneg (e * e)]
        have g2 : (2 * (e * e)) * sin p ^ 2 ≤ 2 * (e * e) * 1 := mul_le_mul_of_nonneg_left hS1 (by positivity)
        linarith
      have h3 : 1 - ((1 - e * e) * sin p) ^ 2 ≤ cos p ^ 2 + 2 * (e * e) := by rw [hexp]; linarith
      linarith
    calc sqrt (1 - (0.5 * qsfnz e (sin p)) ^ 2) ≤ sqrt (Chi ^ 2) := Real.sqrt_le_sqrt hle
      _ = Chi := Real.sqrt_sq hChi.le
  have hphi0_2 : phi0 < π / 2 := lt_of_le_of_lt s3 hp
  have hcos0pos : 0 < cos phi0 := cos_pos_of_mem_Ioo ⟨by linarith [pi_pos], hphi0_2⟩
  -- q'(φ₀) ≤ 2 cos φ₀/(1−e²), q'(p) ≥ 2(1−e²) cos p
  have hD0 : 0 < qD e 0 := qD_pos e 0 he0 he1 (by linarith [pi_pos]) (by linarith [pi_pos])
  have hDp := qD_pos e p he0 he1 (by linarith [pi_pos]) hp
  have hDphi0 := qD_pos e phi0 he0 he1 (by linarith [pi_pos]) hphi0_2
  have hDp_lo : 1.986 * clo ≤ qD e p := by
    have hρ := qD_ratio_ge_cos e p he0 he1 hp0 hp.le
    rw [le_div_iff₀ hD0, qD_zero] at hρ
    have g : clo * 0.993 ≤ cos p * (1 - e * e) := mul_le_mul h1 ha (by norm_num) hcp0.le
    linarith
  have hDp_hi : qD e p ≤ 2 := by
    have := (qD_antitone e 0 p he0 he2' le_rfl hp0 hp.le).1
    rw [qD_zero] at this; linarith [mul_nonneg he0.le he0.le]
  have hDphi0_hi : qD e phi0 ≤ 2 * Chi / 0.993 := by
    have hq := qD_le_cos e phi0 he0 he1 hcos0pos.le
    have hapos : 0 < 1 - e * e := by linarith
    have hstep3 : 2 * cos phi0 / (1 - e * e) ≤ 2 * Chi / 0.993 := by
      rw [div_le_div_iff₀ hapos (by norm_num)]
      have g : cos phi0 * 0.993 ≤ Chi * (1 - e * e) := mul_le_mul hcos0 ha (by norm_num) hChi.le
      linarith
    linarith
  -- the linear rate
  have hρ : 0.986 * clo / Chi ≤ qD e p / qD e phi0 := by
    rw [div_le_div_iff₀ hChi hDphi0]
    have h3 : qD e phi0 * 0.993 ≤ 2 * Chi := by
      rw [le_div_iff₀ (by norm_num)] at hDphi0_hi; exact hDphi0_hi
    have a1 := mul_le_mul_of_nonneg_left h3 (by positivity : (0 : ℝ) ≤ 0.986 * clo)
    have a2 : 1.986 * clo * Chi ≤ qD e p * Chi := mul_le_mul_of_nonneg_right hDp_lo hChi.le
    have a3 : 0 ≤ clo * Chi := mul_nonneg hclo.le hChi.le
    linarith
  have hanti2 := (qD_antitone e phi0 p he0 he2' s2 s3 hp.le).1
  have hk0 : 0 ≤ 1 - qD e p / qD e phi0 := by
    have : qD e p / qD e phi0 ≤ 1 := by rw [div_le_one hDphi0]; exact hanti2
    linarith
  have hk : 1 - qD e p / qD e phi0 ≤ kb := by linarith
  -- the first error
  have hE0 : 0 ≤ p - phi0 := by linarith
  have hE : p - phi0 ≤ 1.5708 * Chi := by
    have hj := Real.mul_le_sin hE0 (by linarith)
    have hsin : sin (p - phi0) ≤ cos phi0 := by
      rw [Real.sin_sub]
      have hs0 : 0 ≤ sin phi0 := sin_nonneg_of_nonneg_of_le_pi s2 (by linarith [pi_pos])
      have t1 : sin p * cos phi0 ≤ 1 * cos phi0 := mul_le_mul_of_nonneg_right hsp1 hcos0pos.le
      have t2 : 0 ≤ cos p * sin phi0 := mul_nonneg hcp0.le hs0
      linarith
    have hpi : π < 3.1416 := Real.pi_lt_d4
    have h4 : p - phi0 ≤ π / 2 * sin (p - phi0) := by
      have : 2 / π * (p - phi0) ≤ sin (p - phi0) := hj
      rw [div_mul_eq_mul_div, div_le_iff₀ pi_pos] at this
      linarith
    have h5 : 0 ≤ sin (p - phi0) := sin_nonneg_of_nonneg_of_le_pi hE0 (by linarith [pi_pos])
    have h8 : π / 2 * sin (p - phi0) ≤ 1.5708 * sin (p - phi0) := mul_le_mul_of_nonneg_right (by linarith) h5
    linarith
  -- K = (1−e²) q'(p)
  have hK_lo : 1.972 * clo ≤ (1 - e * e) * qD e p := by
    have g : 0.993 * (1.986 * clo) ≤ (1 - e * e) * qD e p := mul_le_mul ha hDp_lo (by positivity) (by linarith)
    linarith
  have hK_hi : (1 - e * e) * qD e p ≤ 2 := by
    have g : (1 - e * e) * qD e p ≤ 1 * 2 :=
      mul_le_mul (by linarith [mul_nonneg he0.le he0.le]) hDp_hi hDp.le (by norm_num)
    linarith
  have hcount : (1 - qD e p / qD e phi0) ^ 19 * (p - phi0) ≤ 1 / 2 * ((1 - e * e) * qD e p) := by
    have hkb0 : 0 ≤ kb := le_trans hk0 hk
    have h6 : (1 - qD e p / qD e phi0) ^ 19 ≤ kb ^ 19 := pow_le_pow_left₀ hk0 hk 19
    calc (1 - qD e p / qD e phi0) ^ 19 * (p - phi0) ≤ kb ^ 19 * (1.5708 * Chi) :=
          mul_le_mul h6 hE hE0 (pow_nonneg hkb0 19)
      _ ≤ 1 / 2 * (1.972 * clo) := hnum
      _ ≤ 1 / 2 * ((1 - e * e) * qD e p) := by linarith
  have hfin : ((1 : ℝ) / 2) ^ (2 ^ 5) * ((1 - e * e) * qD e p) ≤ 1e-7 := by
    have : ((1 : ℝ) / 2) ^ (2 ^ 5) * ((1 - e * e) * qD e p) ≤ ((1 : ℝ) / 2) ^ (2 ^ 5) * 2 :=
      mul_le_mul_of_nonneg_left hK_hi (by positivity)
    have h7 : ((1 : ℝ) / 2) ^ (2 ^ 5) * 2 ≤ 1e-7 := by norm_num
    linarith
  obtain ⟨r, hr⟩ := aeaLoop_lin_quad e p phi0 he he2' hp s2 19 5 phi0 (1 / 2) le_rfl s3 (by norm_num) hcount hfin
  have hne : ¬ (e < (epsln : ℝ)) := by
    have : (epsln : ℝ) = 1.0e-10 := rfl
    rw [this]; intro hc
    have : (1.0e-10 : ℝ) < 1.0e-7 := by norm_num
    linarith
  refine ⟨r, ?_⟩
  simp only [aeaPhi1z, lt_real, hne, decide_false, Bool.false_eq_true, if_false, s1]
  exact hr

/-- **`aeaPhi1z` converges within its 25 passes** on every Earth-like ellipsoid (`1e-7 < e`, `e² ≤ 0.007`) for every
latitude `0 ≤ p` with `cos p ≥ 0.0174` (up to 89.003°, the border of the usable region): it returns `.ok r` (never
"didn't converge") with `0 ≤ r ≤ p` and `p − r ≤ 1.2e-9` rad (6.9e-8 degrees). -/
theorem C08_aeaPhi1z_converges (e p : ℝ) (he : 1.0e-7 < e) (he2 : e * e ≤ 0.007) (hp0 : 0 ≤ p) (hp : p < π / 2)
    (hcos : 0.0174 ≤ cos p) :
    ∃ r, aeaPhi1z e (qsfnz e (sin p)) = .ok r ∧ 0 ≤ r ∧ r ≤ p ∧ p - r ≤ 1.2e-9 := by
  have he0 : (0 : ℝ) < e := lt_trans (by norm_num) he
  have hex : ∃ r, aeaPhi1z e (qsfnz e (sin p)) = .ok r := by
    have hc1 : cos p ≤ 1 := cos_le_one p
    by_cases b1 : cos p ≤ 0.03
    · exact aea_band e p he he2 hp0 hp 0.0174 0.03 0.1221 0.86 (by norm_num) hcos b1 (by norm_num) (by norm_num)
        (by norm_num) (by norm_num)
    by_cases b2 : cos p ≤ 0.06
    · exact aea_band e p he he2 hp0 hp 0.03 0.06 0.1327 0.78 (by norm_num) (by linarith) b2 (by norm_num) (by norm_num)
        (by norm_num) (by norm_num)
    by_cases b3 : cos p ≤ 0.15
    · exact aea_band e p he he2 hp0 hp 0.06 0.15 0.1911 0.70 (by norm_num) (by linarith) b3 (by norm_num) (by norm_num)
        (by norm_num) (by norm_num)
    · exact aea_band e p he he2 hp0 hp 0.15 1 1.007 0.86 (by norm_num) (by linarith) hc1 (by norm_num) (by norm_num)
        (by norm_num) (by norm_num)
  obtain ⟨r, hr⟩ := hex
  obtain ⟨c1, c2, c3⟩ := C08_aeaPhi1z_close e p r he (by linarith) hp0 hp hr
  exact ⟨r, hr, c1, c2, le_trans c3 (aea_bound_numeric e p he0 he2 hp0 hp.le hcos)⟩

/-- **aea_inv_within** (ellipsoidal Albers, both cone signs, Earth-like ellipsoid, `0 ≤ φ`, `cos φ ≥ 0.0174`, NO convergence
hypothesis): inverse(forward(λ, φ)) reports no error, returns `λ` exactly and a latitude within 1.2e-9 rad below `φ`. -/
theorem C08_aea_inv_within (k : AeaC ℝ) (hs : k.sr.sphere = false) (ha : 0 < k.sr.a) (hn : k.ns0 ≠ 0)
    (he : 1.0e-7 < k.e3) (he2 : k.e3 * k.e3 ≤ 0.007)
    (lon lat : ℝ) (hlat0 : 0 ≤ lat) (hlat : lat < π / 2) (hcos : 0.0174 ≤ cos lat)
    (hpos : 0 < k.c - k.ns0 * qsfnz k.e3 (sin lat))
    (hlon : |lon| ≤ sPi) (hdl : |lon - k.sr.long0| ≤ sPi)
    (h1 : -π < k.ns0 * (lon - k.sr.long0)) (h2 : k.ns0 * (lon - k.sr.long0) ≤ π) :
    ∃ lat', (fwdAea k lon lat).bind (fun q => invAea k q.1 q.2) = .ok (lon, lat') ∧ |lat' - lat| ≤ 1.2e-9 := by
  obtain ⟨r, hr, c1, c2, c3⟩ := C08_aeaPhi1z_converges k.e3 lat he he2 hlat0 hlat hcos
  refine ⟨r, ?_, ?_⟩
  · rw [aea_chain k hs ha hn lon lat hpos hlon hdl h1 h2, hr]; rfl
  · rw [abs_le]; constructor <;> linarith

/-- non-vacuity: the hypotheses hold on the Earth ellipsoids (e = 0.0818) at 89° from the traced start -/
example : (1.0e-7 : ℝ) < 0.0818 ∧ (0.0818 : ℝ) * 0.0818 ≤ 1 / 4 ∧ (0 : ℝ) ≤ 1.5135 ∧ (1.5135 : ℝ) ≤ 1.5533 := by
  norm_num

end GeomV.C08
