import GeomV.C08.ProjPipeline
import GeomV.C08.Gen.GoAxis
/-!
Tie T1, part 6: `proj/adjust_axis.go`.  `Gen/GoAxis.lean` is regenerated from the current source on every run: the loop
bound, the skip condition of the third letter for a 2-vector, the (read, written) index pair per loop index, the switch
table in source order, and a count of definitions that grows when the function gains a statement the extractor does not
know.  `goAdjustAxis2` runs the Go loop for a 2-vector from exactly these pieces; `tie_adjustAxis`: the hand model
`adjustAxis` (ProjPipeline) IS that loop.
-/
namespace GeomV.C08.Ties
open GeomV.C08 RNum
variable {α : Type} [RTrans α]

/-- what a switch-table entry does to a 2-vector: `some (false, n)` is `point[t] = ±v`; `some (true, _)` touches the third
component only (`if len(point) == 3`); `none` is the error return -/
def axisActOf : Option (Bool × Bool) → Except Err Bool
  | some (false, n) => .ok n
  | some (true, _) => .ok false
  | none => .error .axis

/-- the model's letter table is the source's switch, case by case, for EVERY character -/
theorem tie_axisSign (c : Char) : axisSign c = axisActOf (Gen.adjust_axis_case c) := by
  unfold axisSign Gen.adjust_axis_case
  by_cases he : c = 'e'
  · simp [he, axisActOf]
  by_cases hw : c = 'w'
  · subst hw; simp [axisActOf]
  by_cases hn : c = 'n'
  · subst hn; simp [axisActOf]
  by_cases hs : c = 's'
  · subst hs; simp [axisActOf]
  by_cases hu : c = 'u'
  · subst hu; simp [axisActOf]
  by_cases hd : c = 'd'
  · subst hd; simp [axisActOf]
  simp [he, hw, hn, hs, hu, hd, axisActOf]

/-- loop bound 3, the third letter is skipped exactly for a 2-vector, loop index i reads and writes element i, the switch
is on `crs.Axis[i]`, the function ends in `return point, nil`, and it has no statement beyond these -/
theorem tie_axis_shape :
    Gen.adjust_axis_for = 3 ∧ Gen.adjust_axis_defs = 6 ∧ Gen.adjust_axis_switch_tag = "crs.Axis[i]"
    ∧ Gen.adjust_axis_returns_point = true
    ∧ (Gen.adjust_axis_skip 0 2 = false ∧ Gen.adjust_axis_skip 1 2 = false ∧ Gen.adjust_axis_skip 2 2 = true
        ∧ Gen.adjust_axis_skip 2 3 = false)
    ∧ (Gen.adjust_axis_slot 0 = (0, 0) ∧ Gen.adjust_axis_slot 1 = (1, 1) ∧ Gen.adjust_axis_slot 2 = (2, 2)) := by
  decide

/-- one pass of the Go loop body on a 2-vector `p`, from the regenerated pieces -/
def goAxisStep (axis : List Char) (p : α × α) (i : Nat) : Except Err (α × α) :=
  if Gen.adjust_axis_skip i 2 then .ok p else
  match axis[i]? with
  | none => .error .axis
  | some c =>
    let rt := Gen.adjust_axis_slot i
    let v := if rt.1 = 0 then p.1 else p.2
    match Gen.adjust_axis_case c with
    | none => .error .axis
    | some (true, _) => .ok p
    | some (false, neg) =>
      let w := if neg then -v else v
      .ok (if rt.2 = 0 then (w, p.2) else (p.1, w))

/-- `adjust_axis` on a 2-vector: `for i := 0; i < 3; i++ { … }` -/
def goAdjustAxis2 (axis : List Char) (x y : α) : Except Err (α × α) :=
  (List.range Gen.adjust_axis_for).foldlM (goAxisStep axis) (x, y)

theorem tie_adjustAxis (c0 c1 c2 : Char) (x y : α) :
    adjustAxis [c0, c1, c2] x y = goAdjustAxis2 [c0, c1, c2] x y := by
  have h0 := tie_axisSign c0
  have h1 := tie_axisSign c1
  unfold adjustAxis goAdjustAxis2
  simp only [show Gen.adjust_axis_for = 3 from rfl, List.range_succ, List.range_zero, List.nil_append, List.cons_append,
    List.foldlM_cons, List.foldlM_nil, goAxisStep, Gen.adjust_axis_skip, Gen.adjust_axis_slot, h0, h1]
  rcases hc0 : Gen.adjust_axis_case c0 with _ | ⟨⟨b0, n0⟩⟩ <;> rcases hc1 : Gen.adjust_axis_case c1 with _ | ⟨⟨b1, n1⟩⟩ <;>
    (try cases b0) <;> (try cases b1) <;> (try cases n0) <;> (try cases n1) <;>
    simp [axisActOf, hc0, hc1, bind, Except.bind, pure, Except.pure]

end GeomV.C08.Ties
