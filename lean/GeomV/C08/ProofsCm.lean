import GeomV.C08.ProofsAea2
import GeomV.C08.ProofsConverge
import GeomV.C08.ProofsBounds
/-!
# C08 — two more instances of the 1 cm clause over ℝ: Albers in the property's own words; TM/UTM on the central meridian

`C08_aea_reproject_within` bounds each coordinate by `a·3.4e-11/√(c − ns0·q(φ))`.  Here the bound is evaluated: on an Earth-sized
ellipsoid (`a ≤ 6.4e6` m) and wherever `√(c − ns0·q(φ)) ≥ 0.0311` (the point is at least `0.0311·a/|ns0|` ≈ 200 km/|ns0| from the cone
apex — for the CONUS Albers, ns0 = 0.6, the apex is the image of the pole and every latitude up to 86.9° qualifies) the EUCLIDEAN distance
between the projected coordinates and their project∘un-project∘project image is at most 1 cm.
-/
set_option linter.unusedSimpArgs false
namespace GeomV.C08
open Real

/-- **aea_reproject_1cm**: ellipsoidal Albers, both cone signs, both hemispheres, `a ≤ 6.4e6`, `√(c − ns0 q(φ)) ≥ 0.0311`:
project, un-project and project again all succeed and `(x' − x)² + (y' − y)² ≤ (0.01)²` — "reproduces the projected coordinates to
within a centimetre", over ℝ, no convergence hypothesis. -/
theorem C08_aea_reproject_1cm (k : AeaC ℝ) (hs : k.sr.sphere = false) (ha : 0 < k.sr.a) (ha2 : k.sr.a ≤ 6.4e6) (hn : k.ns0 ≠ 0)
    (he : 1.0e-7 < k.e3) (he2 : k.e3 * k.e3 ≤ 0.007)
    (lon lat : ℝ) (hlat1 : -(π / 2) < lat) (hlat2 : lat < π / 2) (hcos : 0.0174 ≤ cos lat)
    (hapex : 0.0311 ≤ sqrt (k.c - k.ns0 * qsfnz k.e3 (sin lat)))
    (hlon : |lon| ≤ sPi) (hdl : |lon - k.sr.long0| ≤ sPi)
    (h1 : -π < k.ns0 * (lon - k.sr.long0)) (h2 : k.ns0 * (lon - k.sr.long0) ≤ π) :
    ∃ x y lat' x' y', fwdAea k lon lat = .ok (x, y) ∧ invAea k x y = .ok (lon, lat') ∧
      fwdAea k lon lat' = .ok (x', y') ∧ (x' - x) ^ 2 + (y' - y) ^ 2 ≤ 0.01 ^ 2 := by
  have hsq0 : 0 < sqrt (k.c - k.ns0 * qsfnz k.e3 (sin lat)) := by linarith
  have hpos : 0 < k.c - k.ns0 * qsfnz k.e3 (sin lat) := Real.sqrt_pos.mp hsq0
  obtain ⟨x, y, lat', x', y', f1, f2, f3, bx, b_y⟩ :=
    C08_aea_reproject_within k hs ha hn he he2 lon lat hlat1 hlat2 hcos hpos hlon hdl h1 h2
  refine ⟨x, y, lat', x', y', f1, f2, f3, ?_⟩
  have hB : k.sr.a * 3.4e-11 / sqrt (k.c - k.ns0 * qsfnz k.e3 (sin lat)) ≤ 0.007 := by
    rw [div_le_iff₀ hsq0]
    nlinarith
  have hx : |x' - x| ≤ 0.007 := le_trans bx hB
  have hy : |y' - y| ≤ 0.007 := le_trans b_y hB
  have hx2 : (x' - x) ^ 2 ≤ 0.007 ^ 2 := by
    rw [← sq_abs]; exact pow_le_pow_left₀ (abs_nonneg _) hx 2
  have hy2 : (y' - y) ^ 2 ≤ 0.007 ^ 2 := by
    rw [← sq_abs]; exact pow_le_pow_left₀ (abs_nonneg _) hy 2
  have : (0.007 : ℝ) ^ 2 + 0.007 ^ 2 ≤ 0.01 ^ 2 := by norm_num
  linarith

/-- non-vacuity: GRS80 semi-axis, CONUS Albers cone constant 0.6 at 60° N: `c − ns0 q ≈ 0.39`, `√ ≈ 0.62 ≥ 0.0311` -/
example : (6378137 : ℝ) ≤ 6.4e6 ∧ (0.0311 : ℝ) ≤ 0.62 := by norm_num

/-! ## ellipsoidal transverse Mercator / UTM on the central meridian -/

/-- **tmerc_central_meridian_reproject** (ellipsoidal TM / UTM, positions ON the central meridian — where the truncated series
are exact —, hypotheses of `C08_tmerc_ell_central_meridian_inv`): project, un-project and project again all succeed; the easting is
reproduced EXACTLY (`x0`) and the northing within `|k0|·a·(|e0| + 2|e1| + 4|e2| + 6|e3|)·1.1e-12` (7 µm for a = 6.4e6 m). -/
theorem C08_tmerc_central_meridian_reproject (c : TmercC ℝ) (hs : c.sr.sphere = false) (ha : 0 < c.sr.a) (hk : c.sr.k0 ≠ 0)
    (h0 : 0 < c.e0) (hdom : 100 * (2 * |c.e1| + 4 * |c.e2| + 6 * |c.e3|) ≤ c.e0) (lat : ℝ) (hlat : |lat| ≤ 1.5)
    (hcp : |mlfn c.e0 c.e1 c.e2 c.e3 lat - lat| ≤ 1) (hl0 : |c.sr.long0| ≤ sPi) :
    ∃ y lat' y', fwdTmerc c c.sr.long0 lat = .ok (c.sr.x0, y) ∧ invTmerc c c.sr.x0 y = .ok (c.sr.long0, lat') ∧
      fwdTmerc c c.sr.long0 lat' = .ok (c.sr.x0, y') ∧
      |y' - y| ≤ |c.sr.k0| * c.sr.a * (|c.e0| + (2 * |c.e1| + 4 * |c.e2| + 6 * |c.e3|)) * 1.1e-12 := by
  obtain ⟨lat', hinv, hb⟩ := C08_tmerc_ell_central_meridian_inv c hs ha hk h0 hdom lat hlat hcp hl0
  have hz : (0 : ℝ) ^ (2 : ℝ) = 0 := Real.zero_rpow two_ne_zero
  have hadj0 : adjustLon (0 : ℝ) = 0 := adjustLon_id (by rw [abs_zero]; exact sPi_pos.le)
  have hf : ∀ t, fwdTmerc c c.sr.long0 t = .ok (c.sr.x0, c.sr.k0 * (c.sr.a * mlfn c.e0 c.e1 c.e2 c.e3 t - c.ml0) + c.sr.y0) := by
    intro t
    simp only [fwdTmerc, hs, Bool.false_eq_true, if_false, sub_self, hadj0, mul_zero, pow_real, lit_two, hz,
      zero_div, zero_mul, add_zero, zero_add]
  rw [hf lat] at hinv
  simp only [Except.bind] at hinv
  refine ⟨_, lat', _, hf lat, hinv, hf lat', ?_⟩
  set L := |c.e0| + (2 * |c.e1| + 4 * |c.e2| + 6 * |c.e3|) with hL
  have hL0 : 0 ≤ L := by positivity
  have hm := mlfn_lipschitz c.e0 c.e1 c.e2 c.e3 lat' lat
  have hm2 : |mlfn c.e0 c.e1 c.e2 c.e3 lat' - mlfn c.e0 c.e1 c.e2 c.e3 lat| ≤ L * 1.1e-12 :=
    le_trans hm (mul_le_mul_of_nonneg_left hb hL0)
  have e : c.sr.k0 * (c.sr.a * mlfn c.e0 c.e1 c.e2 c.e3 lat' - c.ml0) + c.sr.y0
      - (c.sr.k0 * (c.sr.a * mlfn c.e0 c.e1 c.e2 c.e3 lat - c.ml0) + c.sr.y0)
      = c.sr.k0 * c.sr.a * (mlfn c.e0 c.e1 c.e2 c.e3 lat' - mlfn c.e0 c.e1 c.e2 c.e3 lat) := by ring
  rw [e, abs_mul, abs_mul, abs_of_pos ha]
  calc |c.sr.k0| * c.sr.a * |mlfn c.e0 c.e1 c.e2 c.e3 lat' - mlfn c.e0 c.e1 c.e2 c.e3 lat|
      ≤ |c.sr.k0| * c.sr.a * (L * 1.1e-12) := mul_le_mul_of_nonneg_left hm2 (by positivity)
    _ = |c.sr.k0| * c.sr.a * L * 1.1e-12 := by ring

/-! ## the tilt of two ellipsoid normals (the second factor of the judge's `heightLossBound`) -/

/-- **tilt_le**: for the unit normals at geodetic `(λ, φ)` and `(λ', φ')`, `sin²(tilt) = 1 − (n·n')² ≤ (φ' − φ)² + (λ' − λ)²`:
the tangential part of the lost height (`C08_height_loss_exact`) is at most `|h'|·√(Δφ² + Δλ²)` — the tilt is bounded by the change
of the GEODETIC coordinates across the datum shift (which the judge estimates as `T/R + 2|Δf|`: still an estimate). -/
theorem C08_tilt_le (lon lat lon' lat' : ℝ) :
    let na := normalAt lon lat
    let nb := normalAt lon' lat'
    1 - (na.1 * nb.1 + na.2.1 * nb.2.1 + na.2.2 * nb.2.2) ^ 2 ≤ (lat' - lat) ^ 2 + (lon' - lon) ^ 2 := by
  intro na nb
  set dot := na.1 * nb.1 + na.2.1 * nb.2.1 + na.2.2 * nb.2.2 with hdot
  -- n·n' = cos(φ' − φ) − cos φ cos φ' (1 − cos(λ' − λ))
  have hd : dot = cos (lat' - lat) - cos lat * cos lat' * (1 - cos (lon' - lon)) := by
    simp only [hdot, na, nb, normalAt]
    rw [cos_sub, cos_sub]
    ring
  have h1 := Real.one_sub_sq_div_two_le_cos (x := lat' - lat)
  have h2 := Real.one_sub_sq_div_two_le_cos (x := lon' - lon)
  have hc1 : cos (lon' - lon) ≤ 1 := cos_le_one _
  have hcc : cos lat * cos lat' ≤ 1 := by
    have a1 := abs_cos_le_one lat
    have a2 := abs_cos_le_one lat'
    calc cos lat * cos lat' ≤ |cos lat * cos lat'| := le_abs_self _
      _ = |cos lat| * |cos lat'| := abs_mul _ _
      _ ≤ 1 * 1 := mul_le_mul a1 a2 (abs_nonneg _) (by norm_num)
      _ = 1 := by ring
  -- 1 − dot ≤ (Δφ² + Δλ²)/2
  have hlow : 1 - dot ≤ ((lat' - lat) ^ 2 + (lon' - lon) ^ 2) / 2 := by
    rw [hd]
    have : cos lat * cos lat' * (1 - cos (lon' - lon)) ≤ 1 * (1 - cos (lon' - lon)) :=
      mul_le_mul_of_nonneg_right hcc (by linarith)
    linarith
  -- |dot| ≤ 1 (Cauchy–Schwarz for unit vectors)
  have ua := normalAt_unit lon lat
  have ub := normalAt_unit lon' lat'
  have hle : dot ≤ 1 := by
    nlinarith [sq_nonneg (na.1 - nb.1), sq_nonneg (na.2.1 - nb.2.1), sq_nonneg (na.2.2 - nb.2.2)]
  have hge : -1 ≤ dot := by
    nlinarith [sq_nonneg (na.1 + nb.1), sq_nonneg (na.2.1 + nb.2.1), sq_nonneg (na.2.2 + nb.2.2)]
  have : 1 - dot ^ 2 = (1 - dot) * (1 + dot) := by ring
  rw [this]
  have h0 : 0 ≤ 1 - dot := by linarith
  calc (1 - dot) * (1 + dot) ≤ (1 - dot) * 2 := mul_le_mul_of_nonneg_left (by linarith) h0
    _ ≤ ((lat' - lat) ^ 2 + (lon' - lon) ^ 2) / 2 * 2 := mul_le_mul_of_nonneg_right hlow (by norm_num)
    _ = _ := by ring

/-! ## the lost height is at most the distance to the destination ellipsoid (first factor of `heightLossBound`) -/

/-- weighted Cauchy–Schwarz (Lagrange identity): the tangent plane supports the ellipsoid -/
theorem ellipsoid_support (k a w x y z A B s : ℝ) (hk0 : 0 < k) (haw : 0 ≤ a * w)
    (hS : k * x ^ 2 + k * y ^ 2 + z ^ 2 = a ^ 2 * k) (hq : A ^ 2 + B ^ 2 + k * s ^ 2 = w * w) :
    x * A + y * B + z * s ≤ a * w := by
  have hlag : (k * x ^ 2 + k * y ^ 2 + z ^ 2) * (A ^ 2 + B ^ 2 + k * s ^ 2) - k * (x * A + y * B + z * s) ^ 2
      = k * (x * B - y * A) ^ 2 + (k * x * s - z * A) ^ 2 + (k * y * s - z * B) ^ 2 := by ring
  have h1 : 0 ≤ k * (x * B - y * A) ^ 2 + (k * x * s - z * A) ^ 2 + (k * y * s - z * B) ^ 2 := by positivity
  rw [← hlag, hS, hq] at h1
  have h2 : k * (x * A + y * B + z * s) ^ 2 ≤ k * (a * w) ^ 2 := by
    have : a ^ 2 * k * (w * w) = k * (a * w) ^ 2 := by ring
    linarith
  have hsq : (x * A + y * B + z * s) ^ 2 ≤ (a * w) ^ 2 := le_of_mul_le_mul_left h2 hk0
  exact (abs_le_of_sq_le_sq' hsq haw).2

/-- expansion of `|P0 + h·n − S|²` for a unit `n = (A, B, s)` -/
theorem dist_expand (rn k h x y z A B s : ℝ) (hu : A ^ 2 + B ^ 2 + s ^ 2 = 1) :
    ((rn + h) * A - x) ^ 2 + ((rn + h) * B - y) ^ 2 + ((rn * k + h) * s - z) ^ 2
      = (rn * A - x) ^ 2 + (rn * B - y) ^ 2 + (rn * k * s - z) ^ 2
        + 2 * h * ((rn * (A ^ 2 + B ^ 2) + rn * k * s ^ 2) - (x * A + y * B + z * s)) + h ^ 2 := by
  have : ((rn + h) * A - x) ^ 2 + ((rn + h) * B - y) ^ 2 + ((rn * k + h) * s - z) ^ 2
      = (rn * A - x) ^ 2 + (rn * B - y) ^ 2 + (rn * k * s - z) ^ 2
        + 2 * h * ((rn * (A ^ 2 + B ^ 2) + rn * k * s ^ 2) - (x * A + y * B + z * s)) + h ^ 2 * (A ^ 2 + B ^ 2 + s ^ 2) := by
    ring
  rw [this, hu, mul_one]

/-- **height_le_distance**: a point at geodetic height `h ≥ 0` above an ellipsoid (`a > 0`, `0 ≤ es < 1`; coordinates as
`geodetic_to_geocentric` computes them, `geodeticToGeocentric_eq`) is at least `h` away from EVERY point `S` of that ellipsoid
(`(1−es)(x² + y²) + z² = a²(1−es)`): the foot of the normal is the nearest point (convexity: the tangent plane supports the ellipsoid,
weighted Cauchy–Schwarz).  Hence the height `h' ≥ 0` that the forward shift produces is at most the distance from the shifted point to
ANY point of the destination ellipsoid — e.g. the point with the same geodetic coordinates, which is what the judge's
`hmax = |Δa| + |Δb| + T_A + T_B` estimates.  (Heights below the ellipsoid, `h' < 0`, need the curvature radius and are not covered.) -/
theorem C08_height_le_distance (d : Datum ℝ) (ha : 0 < d.a) (hes0 : 0 ≤ d.es) (hes : d.es < 1) (lon lat h : ℝ) (hh : 0 ≤ h)
    (x y z : ℝ) (hS : (1 - d.es) * (x ^ 2 + y ^ 2) + z ^ 2 = d.a ^ 2 * (1 - d.es)) :
    h ^ 2 ≤ ((d.a / sqrt (1 - d.es * (sin lat * sin lat)) + h) * cos lat * cos lon - x) ^ 2
          + ((d.a / sqrt (1 - d.es * (sin lat * sin lat)) + h) * cos lat * sin lon - y) ^ 2
          + ((d.a / sqrt (1 - d.es * (sin lat * sin lat)) * (1 - d.es) + h) * sin lat - z) ^ 2 := by
  have hk0 : 0 < 1 - d.es := by linarith
  have hcs : sin lat ^ 2 + cos lat ^ 2 = 1 := sin_sq_add_cos_sq lat
  have hll : sin lon ^ 2 + cos lon ^ 2 = 1 := sin_sq_add_cos_sq lon
  have hAB : (cos lat * cos lon) ^ 2 + (cos lat * sin lon) ^ 2 = cos lat ^ 2 := by
    have : (cos lat * cos lon) ^ 2 + (cos lat * sin lon) ^ 2 = cos lat ^ 2 * (sin lon ^ 2 + cos lon ^ 2) := by ring
    rw [this, hll, mul_one]
  have hw2 : 0 < 1 - d.es * (sin lat * sin lat) := by nlinarith [sq_nonneg (cos lat), sq_nonneg (sin lat)]
  have hw0 : 0 < sqrt (1 - d.es * (sin lat * sin lat)) := Real.sqrt_pos.mpr hw2
  have hww : sqrt (1 - d.es * (sin lat * sin lat)) * sqrt (1 - d.es * (sin lat * sin lat)) = 1 - d.es * (sin lat * sin lat) :=
    Real.mul_self_sqrt hw2.le
  have hq : (cos lat * cos lon) ^ 2 + (cos lat * sin lon) ^ 2 + (1 - d.es) * sin lat ^ 2
      = sqrt (1 - d.es * (sin lat * sin lat)) * sqrt (1 - d.es * (sin lat * sin lat)) := by
    rw [hAB, hww]; linarith
  have hS' : (1 - d.es) * x ^ 2 + (1 - d.es) * y ^ 2 + z ^ 2 = d.a ^ 2 * (1 - d.es) := by rw [← hS]; ring
  have hSn := ellipsoid_support (1 - d.es) d.a (sqrt (1 - d.es * (sin lat * sin lat))) x y z (cos lat * cos lon) (cos lat * sin lon)
    (sin lat) hk0 (by positivity) hS' hq
  have hu : (cos lat * cos lon) ^ 2 + (cos lat * sin lon) ^ 2 + sin lat ^ 2 = 1 := by rw [hAB]; linarith
  -- P0·n = a·w
  have hP0n : d.a / sqrt (1 - d.es * (sin lat * sin lat)) * ((cos lat * cos lon) ^ 2 + (cos lat * sin lon) ^ 2)
      + d.a / sqrt (1 - d.es * (sin lat * sin lat)) * (1 - d.es) * sin lat ^ 2
      = d.a * sqrt (1 - d.es * (sin lat * sin lat)) := by
    have e : d.a / sqrt (1 - d.es * (sin lat * sin lat)) * ((cos lat * cos lon) ^ 2 + (cos lat * sin lon) ^ 2)
        + d.a / sqrt (1 - d.es * (sin lat * sin lat)) * (1 - d.es) * sin lat ^ 2
        = d.a / sqrt (1 - d.es * (sin lat * sin lat))
          * ((cos lat * cos lon) ^ 2 + (cos lat * sin lon) ^ 2 + (1 - d.es) * sin lat ^ 2) := by ring
    rw [e, hq]
    field_simp
  have hexp := dist_expand (d.a / sqrt (1 - d.es * (sin lat * sin lat))) (1 - d.es) h x y z (cos lat * cos lon) (cos lat * sin lon)
    (sin lat) hu
  have hre : ((d.a / sqrt (1 - d.es * (sin lat * sin lat)) + h) * cos lat * cos lon - x) ^ 2
          + ((d.a / sqrt (1 - d.es * (sin lat * sin lat)) + h) * cos lat * sin lon - y) ^ 2
          + ((d.a / sqrt (1 - d.es * (sin lat * sin lat)) * (1 - d.es) + h) * sin lat - z) ^ 2
      = ((d.a / sqrt (1 - d.es * (sin lat * sin lat)) + h) * (cos lat * cos lon) - x) ^ 2
          + ((d.a / sqrt (1 - d.es * (sin lat * sin lat)) + h) * (cos lat * sin lon) - y) ^ 2
          + ((d.a / sqrt (1 - d.es * (sin lat * sin lat)) * (1 - d.es) + h) * sin lat - z) ^ 2 := by ring
  rw [hre, hexp, hP0n]
  have h3 : 0 ≤ 2 * h * (d.a * sqrt (1 - d.es * (sin lat * sin lat))
      - (x * (cos lat * cos lon) + y * (cos lat * sin lon) + z * sin lat)) :=
    mul_nonneg (mul_nonneg (by norm_num) hh) (sub_nonneg.mpr hSn)
  have e1 := sq_nonneg (d.a / sqrt (1 - d.es * (sin lat * sin lat)) * (cos lat * cos lon) - x)
  have e2 := sq_nonneg (d.a / sqrt (1 - d.es * (sin lat * sin lat)) * (cos lat * sin lon) - y)
  have e3 := sq_nonneg (d.a / sqrt (1 - d.es * (sin lat * sin lat)) * (1 - d.es) * sin lat - z)
  linarith only [e1, e2, e3, h3]

/-- non-vacuity: WGS84 (`a = 6378137`, `es = 0.00669438`) and the point (a, 0, 0) of its surface -/
example : (1 - (0.00669438 : ℝ)) * ((6378137 : ℝ) ^ 2 + 0 ^ 2) + 0 ^ 2 = (6378137 : ℝ) ^ 2 * (1 - 0.00669438) := by ring

/-- **height_loss_bound** (product form with both factors explicit): the tangential part of the offset `h'·n_b` of
`C08_height_loss_exact`, measured against the source normal `n_a`, is at most `|h'|·√(Δφ² + Δλ²)` long, `(Δφ, Δλ)` the change of the
geodetic coordinates across the forward shift (squared). -/
theorem C08_height_loss_bound (h' lon lat lon' lat' : ℝ) :
    let na := normalAt lon lat
    let nb := normalAt lon' lat'
    let dot := na.1 * nb.1 + na.2.1 * nb.2.1 + na.2.2 * nb.2.2
    (h' * nb.1 - h' * dot * na.1) ^ 2 + (h' * nb.2.1 - h' * dot * na.2.1) ^ 2 + (h' * nb.2.2 - h' * dot * na.2.2) ^ 2
      ≤ h' ^ 2 * ((lat' - lat) ^ 2 + (lon' - lon) ^ 2) := by
  intro na nb dot
  have h1 := C08_tangent_part_sq h' na.1 na.2.1 na.2.2 nb.1 nb.2.1 nb.2.2 (normalAt_unit lon lat) (normalAt_unit lon' lat')
  have h2 := C08_tilt_le lon lat lon' lat'
  simp only at h1 h2
  rw [h1]
  exact mul_le_mul_of_nonneg_left h2 (sq_nonneg h')

end GeomV.C08
