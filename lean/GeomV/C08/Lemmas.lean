import GeomV.C08.RealInst
import GeomV.C08.ProjPipeline
import Mathlib.Tactic.Ring
import Mathlib.Tactic.Linarith
import Mathlib.Tactic.FieldSimp
import Mathlib.Tactic.NormNum
import Mathlib.Analysis.Real.Pi.Bounds
/-!
# Helper lemmas over ℝ for the C08 theorems
-/
set_option linter.unusedSimpArgs false
namespace GeomV.C08
open Real

/-- the constants at ℝ -/
theorem halfPi_real : (halfPi : ℝ) = π / 2 := by simp [halfPi]; norm_num
theorem fortPi_real : (fortPi : ℝ) = π / 4 := by simp [fortPi]; norm_num
theorem twoPi_real : (twoPi : ℝ) = π * 2 := by simp [twoPi]; norm_num
theorem sPi_real : (sPi : ℝ) = 3.14159265359 := rfl
theorem epsln_real : (epsln : ℝ) = 1.0e-10 := rfl

theorem sPi_pos : (0 : ℝ) < sPi := by rw [sPi_real]; norm_num

/-- `adjust_lon` is the identity on `[-sPi, sPi]` -/
theorem adjustLon_id {x : ℝ} (h : |x| ≤ sPi) : adjustLon x = x := by
  simp [adjustLon, h]

/-- `π/2 - 2·atan(exp(-log(tan(π/4 + φ/2)))) = φ` for `|φ| < π/2` : the spherical Mercator latitude -/
theorem merc_lat_inv {phi : ℝ} (h1 : -(π / 2) < phi) (h2 : phi < π / 2) :
    π / 2 - 2 * arctan (exp (-(log (tan (π / 4 + 0.5 * phi))))) = phi := by
  have hu1 : -(π / 2) < π / 4 + 0.5 * phi := by linarith [pi_pos]
  have hu2 : π / 4 + 0.5 * phi < π / 2 := by linarith [pi_pos]
  have hu0 : 0 < π / 4 + 0.5 * phi := by linarith [pi_pos]
  have htan : 0 < tan (π / 4 + 0.5 * phi) := tan_pos_of_pos_of_lt_pi_div_two hu0 hu2
  rw [exp_neg, exp_log htan, arctan_inv_of_pos htan, arctan_tan hu1 hu2]
  ring

end GeomV.C08
