import GeomV.C08.ProjCommon
/-! # proj/lcc.go -/
namespace GeomV.C08
open RNum RTrans
variable {α : Type} [RTrans α]

structure LccC (α : Type) where
  sr : SR α
  e : α
  ns : α
  f0 : α
  rh : α

def initLcc (s : SR α) : Except Err (LccC α) :=
  let s := if isNaN s.lat2 then { s with lat2 := s.lat1 } else s
  let s := if isNaN s.k0 then { s with k0 := 1.0 } else s
  let s := if isNaN s.x0 then { s with x0 := 0.0 } else s
  let s := if isNaN s.y0 then { s with y0 := 0.0 } else s
  if lt (abs (s.lat1 + s.lat2)) epsln then .error .lccParallels else
  let temp := s.b / s.a
  let e := sqrt (1.0 - temp * temp)
  let sin1 := sin s.lat1
  let cos1 := cos s.lat1
  let ms1 := msfnz e sin1 cos1
  let ts1 := tsfnz e s.lat1 sin1
  let sin2 := sin s.lat2
  let cos2 := cos s.lat2
  let ms2 := msfnz e sin2 cos2
  let ts2 := tsfnz e s.lat2 sin2
  let ts0 := tsfnz e s.lat0 (sin s.lat0)
  let ns := if gt (abs (s.lat1 - s.lat2)) epsln then log (ms1 / ms2) / log (ts1 / ts2) else sin1
  let ns := if isNaN ns then sin1 else ns
  let f0 := ms1 / (ns * pow ts1 ns)
  let rh := s.a * f0 * pow ts0 ns
  .ok ⟨s, e, ns, f0, rh⟩

def fwdLcc (c : LccC α) (lon lat : α) : Except Err (α × α) := do
  let s := c.sr
  let lat := if le (abs (2.0 * abs lat - pi)) epsln then sign lat * (halfPi - 2.0 * epsln) else lat
  let con := abs (abs lat - halfPi)
  let rh1 ←
    if gt con epsln then
      let ts := tsfnz c.e lat (sin lat)
      pure (s.a * c.f0 * pow ts c.ns)
    else
      let con := lat * c.ns
      if le con 0.0 then throw Err.lccCon else pure (0.0 : α)
  let theta := c.ns * adjustLon (lon - s.long0)
  pure (s.k0 * (rh1 * sin theta) + s.x0, s.k0 * (c.rh - rh1 * cos theta) + s.y0)

def invLcc (c : LccC α) (x y : α) : Except Err (α × α) := do
  let s := c.sr
  let x := (x - s.x0) / s.k0
  let y := c.rh - (y - s.y0) / s.k0
  let (rh1, con) : α × α :=
    if gt c.ns 0.0 then (sqrt (x * x + y * y), 1.0) else (-(sqrt (x * x + y * y)), -1.0)
  let theta : α := if ne rh1 0.0 then atan2 (con * x) (con * y) else 0.0
  let lat ←
    if ne rh1 0.0 || gt c.ns 0.0 then
      let con := 1.0 / c.ns
      let ts := pow (rh1 / (s.a * c.f0)) con
      phi2z c.e ts
    else pure (-halfPi)
  pure (adjustLon (theta / c.ns + s.long0), lat)

end GeomV.C08
