import GeomV.C08.ProjPipeline
import GeomV.C08.Gen.GoRoute
/-!
# C08 tie T1, part 5: transform.go (the pipeline)

`Gen/GoRoute.lean` is regenerated from the current `proj/transform.go` on every run: the return expression of
`checkNotWGS`, the condition under which the closure of `NewTransform` takes the detour through WGS84 (with the
ARGUMENT ORDER of its two `checkNotWGS` calls), the six record-only guards of `transform3` and its ten compound
assignments to `point[0]`/`point[1]`.  The lemmas restate the model's `checkNotWGS`, `transform` and `transform3`
through them.
-/
namespace GeomV.C08.Ties
open GeomV.C08 RNum RTrans
variable {α : Type} [RTrans α]

theorem tie_checkNotWGS (s d : SR α) : checkNotWGS s d = Gen.transform_checkNotWGS_ret s d := rfl

/-- the closure of `NewTransform`: which route, and which record plays which part on each hop -/
theorem tie_transform (w s d : SR α) (x y : α) :
    transform w s d x y =
      (if Gen.transform_NewTransform_cond_1 s d then do
         let (x, y, z) ← transform3 s w x y 0.0
         let (x, y, _) ← transform3 w d x y z
         pure (x, y)
       else do
         let (x, y, _) ← transform3 s d x y 0.0
         pure (x, y)) := rfl

/-- `transform3` with every record-only guard and every compound assignment replaced by its regenerated definition -/
theorem tie_transform3 (source dest : SR α) (x y z : α) :
    transform3 source dest x y z = (do
      let (_, sourceInverse) ← transformers source
      let (destForward, _) ← transformers dest
      let (x, y) ← if Gen.transform_transform3_cond_1 source dest then adjustAxis source.axis x y else pure (x, y)
      let (x, y) ←
        if Gen.transform_transform3_cond_2 source dest then
          pure (Gen.transform_transform3_point0_1 source dest x, Gen.transform_transform3_point1_1 source dest y)
        else sourceInverse (Gen.transform_transform3_point0_2 source dest x) (Gen.transform_transform3_point1_2 source dest y)
      let x := if Gen.transform_transform3_cond_3 source dest then Gen.transform_transform3_point0_3 source dest x else x
      let (x, y, z) ← datumTransform source.datum dest.datum x y z
      let x := if Gen.transform_transform3_cond_4 source dest then Gen.transform_transform3_point0_4 source dest x else x
      let (x, y) ←
        if Gen.transform_transform3_cond_5 source dest then
          pure (Gen.transform_transform3_point0_5 source dest x, Gen.transform_transform3_point1_3 source dest y)
        else do
          let (x, y) ← destForward x y
          pure (Gen.transform_transform3_point0_6 source dest x, Gen.transform_transform3_point1_4 source dest y)
      let (x, y) ← if Gen.transform_transform3_cond_6 source dest then adjustAxis dest.axis x y else pure (x, y)
      pure (x, y, z)) := by
  unfold transform3 Gen.transform_transform3_cond_1 Gen.transform_transform3_cond_2 Gen.transform_transform3_cond_3
    Gen.transform_transform3_cond_4 Gen.transform_transform3_cond_5 Gen.transform_transform3_cond_6
    Gen.transform_transform3_point0_1 Gen.transform_transform3_point0_2 Gen.transform_transform3_point0_3
    Gen.transform_transform3_point0_4 Gen.transform_transform3_point0_5 Gen.transform_transform3_point0_6
    Gen.transform_transform3_point1_1 Gen.transform_transform3_point1_2 Gen.transform_transform3_point1_3
    Gen.transform_transform3_point1_4
  simp only [Bool.not_eq_true', decide_eq_false_iff_not, decide_eq_true_eq, ne_eq]

end GeomV.C08.Ties
