import GeomV.C08.ProofsPipeline
import GeomV.C08.ProofsConverge
import GeomV.C08.ProofsAea2
/-!
# C08 — the 1e-6 degree clause for the MODEL OF THE WHOLE `NewTransform` CLOSURE, ellipsoidal projections

`C08_transform_roundtrip` composes the pipeline stages around ANY closure pair; `C08_transform_merc_sphere` was its only
complete instance (an exactly inverting pair).  Here the pairs whose inverse ITERATES are plugged in:

* `C08_transform_within`: if B's pair un-projects the projection of `(λ, φ)` to `(λ, φ')` with `|φ' − φ| ≤ δ` (the
  `*_inv_within` theorems), then `A→B` and `B→A` both succeed on the closure model and return the position within
  `1e-19·|lon|` in longitude and `δ·r2d + 1e-19·|lat|` DEGREES in latitude;
* `C08_transform_merc_ell`, `C08_transform_lcc_ell`, `C08_transform_eqdc_ell`, `C08_transform_krovak` (δ = 1.2e-11 rad: 6.9e-10°) and
  `C08_transform_aea_ell` (δ = 1.2e-9 rad: 6.9e-8°, both hemispheres): geographic A (longlat, enu, no datum, any +pm), B
  built by the REAL constructor model (`initMerc B = .ok c` …), any unit, any prime meridian, any axis on which
  `adjust_axis` succeeds, no 3- or 7-parameter datum.  No hypothesis about convergence anywhere.
-/
set_option linter.unusedSimpArgs false
namespace GeomV.C08
open Real

theorem r2d_pos : (0 : ℝ) < r2d := by
  have : (r2d : ℝ) = 57.29577951308232088 := rfl
  rw [this]; norm_num

/-- `adjust_axis` succeeds on every 2-vector: true for `enu` (the step is skipped) and for every legal axis string -/
def AxisOk (B : SR ℝ) : Prop :=
  ∀ u v : ℝ, ∃ q : ℝ × ℝ, (if B.axis ≠ enu then adjustAxis B.axis u v else pure (u, v)) = Except.ok q

theorem axisOk_enu (B : SR ℝ) (h : B.axis = enu) : AxisOk B := by
  intro u v; exact ⟨(u, v), by simp [h]; rfl⟩

/-- **transform_within**: the closure of `NewTransform`, both directions composed, around a pair that inverts the latitude
within `δ` radians and the longitude exactly. -/
theorem C08_transform_within (w A B : SR ℝ) (f i : Tr ℝ)
    (hA : A.name = .longlat) (hAx : A.axis = enu) (hAd : A.datum.dtype = pjdNoDatum)
    (hBn : B.name ≠ .longlat) (hB3 : B.datum.dtype ≠ pjd3Param) (hB7 : B.datum.dtype ≠ pjd7Param)
    (hB : transformers B = .ok (f, i)) (hm : B.toMeter ≠ 0) (hax : AxisOk B) (δ x y : ℝ)
    (hpair : ∃ lat', (f (x * deg2rad + A.fromGreenwich - B.fromGreenwich) (y * deg2rad)).bind (fun q => i q.1 q.2)
        = .ok (x * deg2rad + A.fromGreenwich - B.fromGreenwich, lat') ∧ |lat' - y * deg2rad| ≤ δ) :
    ∃ qx qy x2 y2, transform w A B x y = .ok (qx, qy) ∧ transform w B A qx qy = .ok (x2, y2) ∧
      |x2 - x| ≤ 1e-19 * |x| ∧ |y2 - y| ≤ δ * r2d + 1e-19 * |y| := by
  obtain ⟨lat', hp, hb⟩ := hpair
  cases hf : f (x * deg2rad + A.fromGreenwich - B.fromGreenwich) (y * deg2rad) with
  | error e => rw [hf] at hp; simp [Except.bind] at hp
  | ok q =>
    rw [hf] at hp
    simp only [Except.bind] at hp
    obtain ⟨⟨qx, qy⟩, hq⟩ := hax (q.1 / B.toMeter) (q.2 / B.toMeter)
    obtain ⟨h1, h2⟩ := C08_transform_roundtrip w A B f i hA hAx hAd hBn hB3 hB7 hB hm x y q.1 q.2 _ _ qx qy hf hp hq
    refine ⟨qx, qy, _, _, h1, h2, ?_, ?_⟩
    all_goals
      have hk : |(deg2rad : ℝ) * r2d - 1| < 1e-19 := C08_pipeline_inverse_algebra.2.2.2.2.2
    · have e : (x * deg2rad + A.fromGreenwich - B.fromGreenwich + B.fromGreenwich - A.fromGreenwich) * r2d - x
          = x * ((deg2rad : ℝ) * r2d - 1) := by ring
      rw [e, abs_mul, mul_comm]
      exact mul_le_mul_of_nonneg_right hk.le (abs_nonneg _)
    · have e : lat' * r2d - y = (lat' - y * deg2rad) * r2d + y * ((deg2rad : ℝ) * r2d - 1) := by ring
      rw [e]
      calc |(lat' - y * deg2rad) * r2d + y * ((deg2rad : ℝ) * r2d - 1)|
          ≤ |(lat' - y * deg2rad) * r2d| + |y * ((deg2rad : ℝ) * r2d - 1)| := abs_add_le _ _
        _ = |lat' - y * deg2rad| * r2d + |y| * |(deg2rad : ℝ) * r2d - 1| := by
            rw [abs_mul, abs_mul, abs_of_pos r2d_pos]
        _ ≤ δ * r2d + 1e-19 * |y| := by
            have h3 := mul_le_mul_of_nonneg_right hb r2d_pos.le
            have h4 := mul_le_mul_of_nonneg_left hk.le (abs_nonneg y)
            linarith

/-! ## instances: B built by the constructor model -/

/-- ellipsoidal Mercator (`0 ≤ e ≤ 0.3`, `|φ| ≤ 1.5` rad) -/
theorem C08_transform_merc_ell (w A B : SR ℝ) (c : MercC ℝ)
    (hA : A.name = .longlat) (hAx : A.axis = enu) (hAd : A.datum.dtype = pjdNoDatum)
    (hBn : B.name = .merc) (hc : initMerc B = .ok c) (hB3 : B.datum.dtype ≠ pjd3Param) (hB7 : B.datum.dtype ≠ pjd7Param)
    (hm : B.toMeter ≠ 0) (hax : AxisOk B)
    (hs : c.sr.sphere = false) (ha : 0 < c.sr.a) (hk : 0 < c.k0) (he0 : 0 ≤ c.e) (he3 : c.e ≤ 0.3) (x y : ℝ)
    (hlat : |y * deg2rad| ≤ 1.5) (hlon : |x * deg2rad + A.fromGreenwich - B.fromGreenwich| ≤ sPi)
    (hdl : |x * deg2rad + A.fromGreenwich - B.fromGreenwich - c.sr.long0| ≤ sPi) :
    ∃ qx qy x2 y2, transform w A B x y = .ok (qx, qy) ∧ transform w B A qx qy = .ok (x2, y2) ∧
      |x2 - x| ≤ 1e-19 * |x| ∧ |y2 - y| ≤ 1.2e-11 * r2d + 1e-19 * |y| := by
  have hT : transformers B = .ok (fwdMerc c, invMerc c) := by
    simp [transformers, hBn, hc, bind, Except.bind, pure, Except.pure]
  exact C08_transform_within w A B _ _ hA hAx hAd (by rw [hBn]; decide) hB3 hB7 hT hm hax 1.2e-11 x y
    (C08_merc_ell_inv_within c hs ha hk he0 he3 _ _ hlat hlon hdl)

/-- ellipsoidal (or spherical) Lambert conformal conic, both cone signs -/
theorem C08_transform_lcc_ell (w A B : SR ℝ) (c : LccC ℝ)
    (hA : A.name = .longlat) (hAx : A.axis = enu) (hAd : A.datum.dtype = pjdNoDatum)
    (hBn : B.name = .lcc) (hc : initLcc B = .ok c) (hB3 : B.datum.dtype ≠ pjd3Param) (hB7 : B.datum.dtype ≠ pjd7Param)
    (hm : B.toMeter ≠ 0) (hax : AxisOk B)
    (hk : c.sr.k0 ≠ 0) (sgn : (0 < c.ns ∧ 0 < c.sr.a * c.f0) ∨ (c.ns < 0 ∧ c.sr.a * c.f0 < 0))
    (he0 : 0 ≤ c.e) (he3 : c.e ≤ 0.3) (x y : ℝ)
    (hlat : |y * deg2rad| ≤ 1.5) (hlon : |x * deg2rad + A.fromGreenwich - B.fromGreenwich| ≤ sPi)
    (hdl : |x * deg2rad + A.fromGreenwich - B.fromGreenwich - c.sr.long0| ≤ sPi)
    (h1 : -π < c.ns * (x * deg2rad + A.fromGreenwich - B.fromGreenwich - c.sr.long0))
    (h2 : c.ns * (x * deg2rad + A.fromGreenwich - B.fromGreenwich - c.sr.long0) ≤ π) :
    ∃ qx qy x2 y2, transform w A B x y = .ok (qx, qy) ∧ transform w B A qx qy = .ok (x2, y2) ∧
      |x2 - x| ≤ 1e-19 * |x| ∧ |y2 - y| ≤ 1.2e-11 * r2d + 1e-19 * |y| := by
  have hT : transformers B = .ok (fwdLcc c, invLcc c) := by
    simp [transformers, hBn, hc, bind, Except.bind, pure, Except.pure]
  exact C08_transform_within w A B _ _ hA hAx hAd (by rw [hBn]; decide) hB3 hB7 hT hm hax 1.2e-11 x y
    (C08_lcc_inv_within c hk sgn he0 he3 _ _ hlat hlon hdl h1 h2)

/-- ellipsoidal equidistant conic, both cone signs -/
theorem C08_transform_eqdc_ell (w A B : SR ℝ) (c : EqdcC ℝ)
    (hA : A.name = .longlat) (hAx : A.axis = enu) (hAd : A.datum.dtype = pjdNoDatum)
    (hBn : B.name = .eqdc) (hc : initEqdc B = .ok c) (hB3 : B.datum.dtype ≠ pjd3Param) (hB7 : B.datum.dtype ≠ pjd7Param)
    (hm : B.toMeter ≠ 0) (hax : AxisOk B)
    (hs : c.sr.sphere = false) (ha : 0 < c.sr.a) (h0 : 0 < c.e0)
    (hdom : 21 * (2 * |c.e1| + 4 * |c.e2| + 6 * |c.e3|) ≤ c.e0) (x y : ℝ)
    (sgn : (0 < c.ns ∧ mlfn c.e0 c.e1 c.e2 c.e3 (y * deg2rad) < c.g) ∨ (c.ns < 0 ∧ c.g < mlfn c.e0 c.e1 c.e2 c.e3 (y * deg2rad)))
    (hlon : |x * deg2rad + A.fromGreenwich - B.fromGreenwich| ≤ sPi)
    (hdl : |x * deg2rad + A.fromGreenwich - B.fromGreenwich - c.sr.long0| ≤ sPi)
    (h1 : -π < c.ns * (x * deg2rad + A.fromGreenwich - B.fromGreenwich - c.sr.long0))
    (h2 : c.ns * (x * deg2rad + A.fromGreenwich - B.fromGreenwich - c.sr.long0) ≤ π) :
    ∃ qx qy x2 y2, transform w A B x y = .ok (qx, qy) ∧ transform w B A qx qy = .ok (x2, y2) ∧
      |x2 - x| ≤ 1e-19 * |x| ∧ |y2 - y| ≤ 1.2e-11 * r2d + 1e-19 * |y| := by
  have hT : transformers B = .ok (fwdEqdc c, invEqdc c) := by
    simp [transformers, hBn, hc, bind, Except.bind, pure, Except.pure]
  exact C08_transform_within w A B _ _ hA hAx hAd (by rw [hBn]; decide) hB3 hB7 hT hm hax 1.2e-11 x y
    (C08_eqdc_inv_within c hs ha h0 hdom _ _ sgn hlon hdl h1 h2)

/-- ellipsoidal Albers, both cone signs, BOTH hemispheres, up to 89° (`cos φ ≥ 0.0174`), Earth-like ellipsoid -/
theorem C08_transform_aea_ell (w A B : SR ℝ)
    (hA : A.name = .longlat) (hAx : A.axis = enu) (hAd : A.datum.dtype = pjdNoDatum)
    (hBn : B.name = .aea) (herr : (initAea B).err = none) (hB3 : B.datum.dtype ≠ pjd3Param) (hB7 : B.datum.dtype ≠ pjd7Param)
    (hm : B.toMeter ≠ 0) (hax : AxisOk B)
    (hs : (initAea B).sr.sphere = false) (ha : 0 < (initAea B).sr.a) (hn : (initAea B).ns0 ≠ 0)
    (he : 1.0e-7 < (initAea B).e3) (he2 : (initAea B).e3 * (initAea B).e3 ≤ 0.007) (x y : ℝ)
    (hlat1 : -(π / 2) < y * deg2rad) (hlat2 : y * deg2rad < π / 2) (hcos : 0.0174 ≤ cos (y * deg2rad))
    (hpos : 0 < (initAea B).c - (initAea B).ns0 * qsfnz (initAea B).e3 (sin (y * deg2rad)))
    (hlon : |x * deg2rad + A.fromGreenwich - B.fromGreenwich| ≤ sPi)
    (hdl : |x * deg2rad + A.fromGreenwich - B.fromGreenwich - (initAea B).sr.long0| ≤ sPi)
    (h1 : -π < (initAea B).ns0 * (x * deg2rad + A.fromGreenwich - B.fromGreenwich - (initAea B).sr.long0))
    (h2 : (initAea B).ns0 * (x * deg2rad + A.fromGreenwich - B.fromGreenwich - (initAea B).sr.long0) ≤ π) :
    ∃ qx qy x2 y2, transform w A B x y = .ok (qx, qy) ∧ transform w B A qx qy = .ok (x2, y2) ∧
      |x2 - x| ≤ 1e-19 * |x| ∧ |y2 - y| ≤ 1.2e-9 * r2d + 1e-19 * |y| := by
  have hT : transformers B = .ok (fwdAea (initAea B), invAea (initAea B)) := by
    simp [transformers, hBn, herr]
  exact C08_transform_within w A B _ _ hA hAx hAd (by rw [hBn]; decide) hB3 hB7 hT hm hax 1.2e-9 x y
    (C08_aea_inv_within_all (initAea B) hs ha hn he he2 _ _ hlat1 hlat2 hcos hpos hlon hdl h1 h2)

/-- Krovak (the principal branches of `C08_krovak_sphere_chain_inv`; `lam`, `phi` abbreviate the radian image of the position) -/
theorem C08_transform_krovak (w A B : SR ℝ) (c : KrovakC ℝ)
    (hA : A.name = .longlat) (hAx : A.axis = enu) (hAd : A.datum.dtype = pjdNoDatum)
    (hBn : B.name = .krovak) (hc : initKrovak B = .ok c) (hB3 : B.datum.dtype ≠ pjd3Param) (hB7 : B.datum.dtype ≠ pjd7Param)
    (hm : B.toMeter ≠ 0) (hax : AxisOk B)
    (hcz : c.sr.czech = false) (hn : c.n = sin s0K)
    (hn0 : 0 < c.n) (hro0 : 0 < c.ro0) (hal : c.alfa ≠ 0) (he0 : 0 ≤ c.sr.e) (he3 : c.sr.e ≤ 0.3) (hk : 0 < c.k)
    (x y lam phi : ℝ) (hlam : lam = x * deg2rad + A.fromGreenwich - B.fromGreenwich) (hphi : phi = y * deg2rad)
    (hdl : |lam - c.sr.long0| ≤ sPi)
    (h1 : 0 < phi / 2 + s45) (h2 : phi / 2 + (s45 : ℝ) < π / 2)
    (hu1 : 0 < krovakU c phi / 2 + s45) (hu2 : krovakU c phi / 2 + (s45 : ℝ) < π / 2)
    (hu : |krovakU c phi| < π / 2) (hdv : |(-(lam - c.sr.long0)) * c.alfa| ≤ π / 2)
    (hA' : |cos c.ad * sin (krovakU c phi) + sin c.ad * cos (krovakU c phi) * cos ((-(lam - c.sr.long0)) * c.alfa)| < 1)
    (hC : 0 ≤ cos c.ad * cos (krovakU c phi) * cos ((-(lam - c.sr.long0)) * c.alfa) - sin c.ad * sin (krovakU c phi))
    (hs1 : 0 < arcsin (cos c.ad * sin (krovakU c phi) + sin c.ad * cos (krovakU c phi) * cos ((-(lam - c.sr.long0)) * c.alfa)) / 2 + s45)
    (hs2 : arcsin (cos c.ad * sin (krovakU c phi) + sin c.ad * cos (krovakU c phi) * cos ((-(lam - c.sr.long0)) * c.alfa)) / 2 + (s45 : ℝ) < π / 2) :
    ∃ qx qy x2 y2, transform w A B x y = .ok (qx, qy) ∧ transform w B A qx qy = .ok (x2, y2) ∧
      |x2 - x| ≤ 1e-19 * |x| ∧ |y2 - y| ≤ 1.2e-11 * r2d + 1e-19 * |y| := by
  have hT : transformers B = .ok (fwdKrovak c, invKrovak c) := by
    simp [transformers, hBn, hc, bind, Except.bind, pure, Except.pure]
  subst hlam; subst hphi
  exact C08_transform_within w A B _ _ hA hAx hAd (by rw [hBn]; decide) hB3 hB7 hT hm hax 1.2e-11 x y
    (C08_krovak_inv_within c hcz hn hn0 hro0 hal he0 he3 hk _ _ hdl h1 h2 hu1 hu2 hu hdv hA' hC hs1 hs2)

/-- the bound in degrees: `1.2e-9·r2d + 1e-19·90 < 1e-6` (and a fortiori for 1.2e-11) -/
theorem within_degrees : (1.2e-9 : ℝ) * r2d + 1e-19 * 90 < 1e-6 := by
  have : (r2d : ℝ) = 57.29577951308232088 := rfl
  rw [this]; norm_num

/-- non-vacuity of `AxisOk` beyond `enu`: the axis `wnu` (westing, northing) -/
example : AxisOk { (default : SR ℝ) with axis := ['w', 'n', 'u'] } := by
  intro u v
  refine ⟨(-u, v), ?_⟩
  simp [adjustAxis, axisSign, enu, bind, Except.bind, pure, Except.pure]

end GeomV.C08
