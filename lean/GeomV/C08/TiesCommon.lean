import GeomV.C08.ProjPipeline
import GeomV.C08.Gen.GoProj
/-!
# C08 tie T1, part 2: common.go and datum.go

The solver and series functions every theorem of Proofs*.lean is about (`msfnz tsfnz phi2z e0fn..e3fn mlfn
qsfnz imlfn asinz adjust_lon adjust_lat sign`) and the datum stage (`geodetic_to_geocentric`,
`geocentric_to_geodetic` with the Hannover step, `geocentric_to_wgs84`, `geocentric_from_wgs84`), restated with
every arithmetic right-hand side (assignments AND return expressions) replaced by the definition regenerated
from the current proj/common.go, proj/datum.go — `rfl` for every number class.  Control flow (guards, loop
tests, iteration caps) is tied by the correspondence run, not here.
-/
namespace GeomV.C08.Ties
open GeomV.C08 RNum RTrans
variable {α : Type} [RTrans α]

/-! ## common.go -/

theorem tie_msfnz (eccent sinphi cosphi : α) :
    msfnz eccent sinphi cosphi = Gen.common_msfnz_ret_1 cosphi (Gen.common_msfnz_con_1 eccent sinphi) := rfl

theorem tie_sign (x : α) :
    sign x = (if lt x 0.0 then Gen.common_sign_ret_1 else Gen.common_sign_ret_2) := rfl

theorem tie_adjustLon (x : α) :
    adjustLon x = (if le (abs x) sPi then Gen.common_adjust_lon_ret_1 x else Gen.common_adjust_lon_ret_2 x) := rfl

theorem tie_adjustLat (x : α) :
    adjustLat x = (if lt (abs x) halfPi then Gen.common_adjust_lat_ret_1 x else Gen.common_adjust_lat_ret_2 x) := rfl

theorem tie_tsfnz (eccent phi sinphi : α) :
    tsfnz eccent phi sinphi =
      Gen.common_tsfnz_ret_1 phi
        (Gen.common_tsfnz_con_2 (Gen.common_tsfnz_con_1 eccent sinphi) (Gen.common_tsfnz_com_1 eccent)) := rfl

theorem tie_phi2zStep (eccent ts phi : α) :
    phi2zStep eccent ts phi =
      Gen.common_phi2z_dphi_1 ts (Gen.common_phi2z_con_1 eccent phi) (Gen.common_phi2z_eccnth_1 eccent) phi := rfl

theorem tie_phi2zLoop (eccent ts : α) (n : Nat) (phi : α) :
    phi2zLoop eccent ts (n + 1) phi =
      (let dphi := Gen.common_phi2z_dphi_1 ts (Gen.common_phi2z_con_1 eccent phi) (Gen.common_phi2z_eccnth_1 eccent) phi
       let phi := Gen.common_phi2z_phi_2 phi dphi
       if le (abs dphi) 0.0000000001 then .ok (Gen.common_phi2z_ret0_1 phi) else phi2zLoop eccent ts n phi) := rfl

theorem tie_phi2z (eccent ts : α) :
    phi2z eccent ts = phi2zLoop eccent ts 16 (Gen.common_phi2z_phi_1 ts) := rfl

theorem tie_e0fn (x : α) : e0fn x = Gen.common_e0fn_ret_1 x := rfl
theorem tie_e1fn (x : α) : e1fn x = Gen.common_e1fn_ret_1 x := rfl
theorem tie_e2fn (x : α) : e2fn x = Gen.common_e2fn_ret_1 x := rfl
theorem tie_e3fn (x : α) : e3fn x = Gen.common_e3fn_ret_1 x := rfl

theorem tie_mlfn (e0 e1 e2 e3 phi : α) : mlfn e0 e1 e2 e3 phi = Gen.common_mlfn_ret_1 e0 phi e1 e2 e3 := rfl

theorem tie_asinz (x : α) :
    asinz x =
      (let x := if gt (abs x) 1.0 then (if gt x 1.0 then Gen.common_asinz_x_1 else Gen.common_asinz_x_2) else x
       Gen.common_asinz_ret_1 x) := rfl

theorem tie_qsfnz (eccent sinphi : α) :
    qsfnz eccent sinphi =
      (if gt eccent 1.0e-7 then Gen.common_qsfnz_ret_1 eccent sinphi (Gen.common_qsfnz_con_1 eccent sinphi)
       else Gen.common_qsfnz_ret_2 sinphi) := rfl

theorem tie_imlfnStep (ml e0 e1 e2 e3 phi : α) :
    imlfnStep ml e0 e1 e2 e3 phi = Gen.common_imlfn_dphi_1 ml e0 phi e1 e2 e3 := rfl

theorem tie_imlfnLoop (ml e0 e1 e2 e3 : α) (n : Nat) (phi : α) :
    imlfnLoop ml e0 e1 e2 e3 (n + 1) phi =
      (let dphi := Gen.common_imlfn_dphi_1 ml e0 phi e1 e2 e3
       let phi := Gen.common_imlfn_phi_2 phi dphi
       if le (abs dphi) 0.0000000001 then .ok (Gen.common_imlfn_ret0_1 phi) else imlfnLoop ml e0 e1 e2 e3 n phi) := rfl

theorem tie_imlfn (ml e0 e1 e2 e3 : α) :
    imlfn ml e0 e1 e2 e3 = imlfnLoop ml e0 e1 e2 e3 15 (Gen.common_imlfn_phi_1 ml e0) := rfl

/-! ## datum.go -/

theorem tie_geodeticToGeocentric (d : Datum α) (lon lat h : α) :
    geodeticToGeocentric d lon lat h =
      (do
        let lat ←
          if lt lat (-halfPi) && gt lat (-1.001 * halfPi) then pure Gen.datum_geodetic_to_geocentric_Latitude_1
          else if gt lat halfPi && lt lat (1.001 * halfPi) then pure Gen.datum_geodetic_to_geocentric_Latitude_2
          else if lt lat (-halfPi) || gt lat halfPi then throw Err.latRange
          else pure lat
        let lon := if gt lon pi then Gen.datum_geodetic_to_geocentric_Longitude_1 lon else lon
        let sinLat := Gen.datum_geodetic_to_geocentric_Sin_Lat_1 lat
        let cosLat := Gen.datum_geodetic_to_geocentric_Cos_Lat_1 lat
        let sin2 := Gen.datum_geodetic_to_geocentric_Sin2_Lat_1 sinLat
        let rn := Gen.datum_geodetic_to_geocentric_Rn_1 d sin2
        pure (Gen.datum_geodetic_to_geocentric_X_1 rn h cosLat lon, Gen.datum_geodetic_to_geocentric_Y_1 rn h cosLat lon,
              Gen.datum_geodetic_to_geocentric_Z_1 d rn h sinLat)) := rfl

theorem tie_geodeticStep (d : Datum α) (p z ct st cphi0 sphi0 : α) :
    geodeticStep d p z ct st cphi0 sphi0 =
      (let rn := Gen.datum_geocentric_to_geodetic_RN_1 d sphi0
       let height := Gen.datum_geocentric_to_geodetic_Height_2 d p cphi0 z sphi0 rn
       let rk := Gen.datum_geocentric_to_geodetic_RK_1 d rn height
       let rx := Gen.datum_geocentric_to_geodetic_RX_2 rk st
       let cphi := Gen.datum_geocentric_to_geodetic_CPHI_1 st rk rx
       let sphi := Gen.datum_geocentric_to_geodetic_SPHI_1 ct rx
       let sdphi := Gen.datum_geocentric_to_geodetic_SDPHI_1 sphi cphi0 cphi sphi0
       (Gen.datum_geocentric_to_geodetic_CPHI0_2 cphi, Gen.datum_geocentric_to_geodetic_SPHI0_2 sphi, height, sdphi)) := rfl

theorem tie_geocentricToGeodetic (d : Datum α) (x y z : α) :
    geocentricToGeodetic d x y z =
      (let genau : α := 1.0e-12
       let p := Gen.datum_geocentric_to_geodetic_P_1 x y
       let rr := Gen.datum_geocentric_to_geodetic_RR_1 x y z
       let atPole := lt (p / d.a) genau
       if atPole && lt (rr / d.a) genau then
         (Gen.datum_geocentric_to_geodetic_Longitude_1, Gen.datum_geocentric_to_geodetic_Latitude_1,
          Gen.datum_geocentric_to_geodetic_Height_1 d) else
       let lon : α := if atPole then Gen.datum_geocentric_to_geodetic_Longitude_1
                      else Gen.datum_geocentric_to_geodetic_Longitude_2 y x
       let ct := Gen.datum_geocentric_to_geodetic_CT_1 z rr
       let st := Gen.datum_geocentric_to_geodetic_ST_1 p rr
       let rx := Gen.datum_geocentric_to_geodetic_RX_1 d st
       let cphi0 := Gen.datum_geocentric_to_geodetic_CPHI0_1 d st rx
       let sphi0 := Gen.datum_geocentric_to_geodetic_SPHI0_1 ct rx
       let (cphi, sphi, height) := geodeticLoop d p z ct st Gen.datum_geocentric_to_geodetic_natmaxiter_1 cphi0 sphi0
       (lon, Gen.datum_geocentric_to_geodetic_Latitude_2 sphi cphi, height)) := by
  -- unfold the regenerated definitions, then the two sides are syntactically equal (a bare `rfl` would start
  -- evaluating the 30-pass loop)
  unfold geocentricToGeodetic Gen.datum_geocentric_to_geodetic_P_1 Gen.datum_geocentric_to_geodetic_RR_1
    Gen.datum_geocentric_to_geodetic_Longitude_1 Gen.datum_geocentric_to_geodetic_Latitude_1
    Gen.datum_geocentric_to_geodetic_Height_1 Gen.datum_geocentric_to_geodetic_Longitude_2
    Gen.datum_geocentric_to_geodetic_CT_1 Gen.datum_geocentric_to_geodetic_ST_1 Gen.datum_geocentric_to_geodetic_RX_1
    Gen.datum_geocentric_to_geodetic_CPHI0_1 Gen.datum_geocentric_to_geodetic_SPHI0_1
    Gen.datum_geocentric_to_geodetic_Latitude_2
  rfl

theorem tie_geocentricToWgs84 (d : Datum α) (x y z : α) :
    geocentricToWgs84 d x y z =
      (if d.dtype = pjd3Param then
         (Gen.datum_geocentric_to_wgs84_ret0_2 (Gen.datum_geocentric_to_wgs84_x_1 d x),
          Gen.datum_geocentric_to_wgs84_ret1_2 (Gen.datum_geocentric_to_wgs84_y_1 d y),
          Gen.datum_geocentric_to_wgs84_ret2_2 (Gen.datum_geocentric_to_wgs84_z_1 d z))
       else if d.dtype = pjd7Param then
         let dx := Gen.datum_geocentric_to_wgs84_Dx_BF_1 d
         let dy := Gen.datum_geocentric_to_wgs84_Dy_BF_1 d
         let dz := Gen.datum_geocentric_to_wgs84_Dz_BF_1 d
         let rx := Gen.datum_geocentric_to_wgs84_Rx_BF_1 d
         let ry := Gen.datum_geocentric_to_wgs84_Ry_BF_1 d
         let rz := Gen.datum_geocentric_to_wgs84_Rz_BF_1 d
         let m := Gen.datum_geocentric_to_wgs84_M_BF_1 d
         (Gen.datum_geocentric_to_wgs84_ret0_1 (Gen.datum_geocentric_to_wgs84_x_out_1 m x rz y ry z dx),
          Gen.datum_geocentric_to_wgs84_ret1_1 (Gen.datum_geocentric_to_wgs84_y_out_1 m rz x y rx z dy),
          Gen.datum_geocentric_to_wgs84_ret2_1 (Gen.datum_geocentric_to_wgs84_z_out_1 m ry x rx y z dz))
       else (Gen.datum_geocentric_to_wgs84_ret0_2 x, Gen.datum_geocentric_to_wgs84_ret1_2 y,
             Gen.datum_geocentric_to_wgs84_ret2_2 z)) := rfl

theorem tie_geocentricFromWgs84 (d : Datum α) (x y z : α) :
    geocentricFromWgs84 d x y z =
      (if d.dtype = pjd3Param then
         (Gen.datum_geocentric_from_wgs84_ret0_1 (Gen.datum_geocentric_from_wgs84_x_1 d x),
          Gen.datum_geocentric_from_wgs84_ret1_1 (Gen.datum_geocentric_from_wgs84_y_1 d y),
          Gen.datum_geocentric_from_wgs84_ret2_1 (Gen.datum_geocentric_from_wgs84_z_1 d z))
       else if d.dtype = pjd7Param then
         let dx := Gen.datum_geocentric_from_wgs84_Dx_BF_1 d
         let dy := Gen.datum_geocentric_from_wgs84_Dy_BF_1 d
         let dz := Gen.datum_geocentric_from_wgs84_Dz_BF_1 d
         let rx := Gen.datum_geocentric_from_wgs84_Rx_BF_1 d
         let ry := Gen.datum_geocentric_from_wgs84_Ry_BF_1 d
         let rz := Gen.datum_geocentric_from_wgs84_Rz_BF_1 d
         let m := Gen.datum_geocentric_from_wgs84_M_BF_1 d
         let xt := Gen.datum_geocentric_from_wgs84_x_tmp_1 x dx m
         let yt := Gen.datum_geocentric_from_wgs84_y_tmp_1 y dy m
         let zt := Gen.datum_geocentric_from_wgs84_z_tmp_1 z dz m
         (Gen.datum_geocentric_from_wgs84_ret0_1 (Gen.datum_geocentric_from_wgs84_x_2 xt rz yt ry zt),
          Gen.datum_geocentric_from_wgs84_ret1_1 (Gen.datum_geocentric_from_wgs84_y_2 rz xt yt rx zt),
          Gen.datum_geocentric_from_wgs84_ret2_1 (Gen.datum_geocentric_from_wgs84_z_2 ry xt rx yt zt))
       else (Gen.datum_geocentric_from_wgs84_ret0_1 x, Gen.datum_geocentric_from_wgs84_ret1_1 y,
             Gen.datum_geocentric_from_wgs84_ret2_1 z)) := rfl

/-! ## utm.go -/

theorem tie_initUtm (s : SR α) :
    initUtm s =
      (if isNaN s.zone then .error .utmZone else
       let s := { s with lat0 := Gen.utm_UTM_thisLat0_1, long0 := Gen.utm_UTM_thisLong0_1 s, x0 := Gen.utm_UTM_thisX0_1,
                         y0 := if s.utmSouth then Gen.utm_UTM_thisY0_1 else Gen.utm_UTM_thisY0_2,
                         k0 := Gen.utm_UTM_thisK0_1 }
       initTmerc s) := rfl

/-! ## krovak.go: the function-local constants and every right-hand side that Go does not fold -/

theorem tie_krovak_S45 : (s45 : α) = Gen.krovak_Krovak_constS45_1 := rfl
theorem tie_krovak_S0 : (s0K : α) = Gen.krovak_Krovak_constS0_1 := rfl

theorem tie_krovakLatStep (c : KrovakC α) (u fi1 : α) :
    krovakLatStep c u fi1 = Gen.krovak_inverse_y_2 c.sr c.k c.alfa u Gen.krovak_Krovak_constS45_1 fi1 := rfl

end GeomV.C08.Ties
